(* LegalLarge.v -- LargeMicroStep's microstep preserves legality of the configuration, for every flat
   chart of the history-free core that satisfies the structural well-formedness record WF (what
   LargeMicroStep::init computes from a valid document), every legal configuration, every event and
   every datamodel state (C02).  The set-level argument is LegalAbstract.abstract_legal; this file shows
   that the sets computed by Large.v satisfy its hypotheses. *)
From V Require Import Base NameMatch Chart Exec Large LargeLemmas Legal SetLemmas LegalAbstract.
Local Open Scope nat_scope.

Section Core.
Variable c : fchart.
Let n := nstates c.
Let par (i : nat) := fs_parent (st c i).
Let ch (i : nat) := fs_children (st c i).
Let kd (i : nat) := fs_type (st c i).
Notation Anc := (Anc par).

(* structural well-formedness of the flat tables (history-free core: no pseudo-states) *)
Record WF : Prop := {
  wf_root_par : par 0 = None;
  wf_par_lt : forall i p, par i = Some p -> p < i /\ i < n;
  wf_par_some : forall i, 0 < i -> i < n -> exists p, par i = Some p;
  wf_children : forall p k, In k (ch p) <-> par k = Some p;
  wf_children_nodup : forall p, NoDup (ch p);
  wf_anc : forall i a, In a (fs_ancestors (st c i)) <-> Anc a i;
  wf_interval : forall a i, a < n -> i < n -> (Anc a i <-> a < i /\ i < a + fs_size (st c a));
  wf_types : forall i, kd i = FAtomic \/ kd i = FCompound \/ kd i = FParallel \/ kd i = FFinal;
  wf_root_type : kd 0 <> FParallel;
  wf_compound : forall i, kd i = FCompound -> exists k, fs_completion (st c i) = [k] /\ In k (ch i);
  wf_parallel : forall i k, kd i = FParallel -> (In k (fs_completion (st c i)) <-> In k (ch i));
  wf_tr_src : forall s ti, In ti (fs_trans (st c s)) -> ft_source (tr c ti) = s;
  wf_tr_targets : forall ti g, In g (ft_targets (tr c ti)) -> 0 < g /\ g < n;
  wf_target_sets : forall ti i k1 k2 g1 g2,
      kd i = FCompound -> In k1 (ch i) -> In k2 (ch i) ->
      In g1 (ft_targets (tr c ti)) -> In g2 (ft_targets (tr c ti)) ->
      (k1 = g1 \/ Anc k1 g1) -> (k2 = g2 \/ Anc k2 g2) -> k1 = k2
}.

Hypothesis W : WF.

(* ------------------------------------------------------------------ tree facts *)

Lemma anc_lt a i : Anc a i -> a < i /\ i < n.
Proof.
  induction 1 as [i p Hp|i p a Hp Ha IH].
  - now apply (wf_par_lt W).
  - destruct (wf_par_lt W _ _ Hp). lia.
Qed.

Lemma anc_irrefl a : ~ Anc a a.
Proof. intros H. apply anc_lt in H. lia. Qed.

Lemma anc_trans a b x : Anc a b -> Anc b x -> Anc a x.
Proof.
  intros Hab Hbx. induction Hbx as [i p Hp|i p b Hp Hb IH].
  - eapply anc_step; eauto.
  - eapply anc_step; eauto.
Qed.

(* two ancestors of the same state are comparable *)
Lemma anc_chain a b x : Anc a x -> Anc b x -> a = b \/ Anc a b \/ Anc b a.
Proof.
  intros Ha. revert b. induction Ha as [i p Hp|i p a Hp Ha IH]; intros b Hb.
  - destruct (anc_child par _ _ _ Hp Hb) as [->|Hbp]; [now left | right; now right].
  - destruct (anc_child par _ _ _ Hp Hb) as [->|Hbp].
    + right. now left.
    + now apply IH.
Qed.

Lemma anc_root i : 0 < i -> i < n -> Anc 0 i.
Proof.
  revert i. induction i as [i IH] using lt_wf_ind. intros Hi Hn.
  destruct (wf_par_some W i Hi Hn) as (p & Hp).
  destruct (wf_par_lt W _ _ Hp) as [Hlt _].
  destruct (Nat.eq_dec p 0) as [->|Hne].
  - now apply anc_parent.
  - eapply anc_step; eauto. apply IH; lia.
Qed.

Lemma child_spec_par : forall p k, In k (ch p) <-> par k = Some p.
Proof. exact (wf_children W). Qed.


(* ------------------------------------------------------------------ generic fold invariant *)

Lemma fold_seq_inv {A} (f : A -> nat -> A) (P : nat -> A -> Prop) m :
  forall start acc, P start acc ->
  (forall j acc, start <= j -> j < start + m -> P j acc -> P (S j) (f acc j)) ->
  P (start + m) (fold_left f (seq start m) acc).
Proof.
  induction m as [|m IH]; intros start acc H0 Hstep; cbn [seq fold_left].
  - now rewrite Nat.add_0_r.
  - replace (start + S m) with (S start + m) by lia. apply IH.
    + apply Hstep; [lia | lia | exact H0].
    + intros j acc' Hj1 Hj2. apply Hstep; lia.
Qed.

(* ------------------------------------------------------------------ domains *)

Lemma forallb_mem_anc src tg :
  forallb (fun x => mem src (fs_ancestors (st c x))) tg = true -> forall g, In g tg -> Anc src g.
Proof.
  intros H g Hg. rewrite forallb_forall in H. specialize (H g Hg). apply mem_In in H. now apply (wf_anc W).
Qed.

Lemma domain_spec ti d :
  ft_source (tr c ti) < n ->
  domain c (tr c ti) = Some d ->
  ft_targets (tr c ti) <> [] /\ (kd d = FCompound \/ d = 0) /\
  (forall g, In g (ft_targets (tr c ti)) -> Anc d g) /\
  (d = ft_source (tr c ti) \/ Anc d (ft_source (tr c ti))).
Proof.
  intros Hsrc. unfold domain.
  destruct (ft_targets (tr c ti)) as [|g0 gs] eqn:Htg; [discriminate|].
  rewrite <- Htg.
  set (t := tr c ti) in *. set (src := ft_source t) in *.
  destruct (ft_internal t && is_comp (fs_type (st c src)) &&
            forallb (fun x => mem src (fs_ancestors (st c x))) (ft_targets t)) eqn:Hint.
  - intros [= <-]. apply andb_true_iff in Hint as [Hint Hall]. apply andb_true_iff in Hint as [_ Hcomp].
    split; [rewrite Htg; discriminate|]. split; [|split].
    + left. unfold kd. destruct (fs_type (st c src)); try discriminate. reflexivity.
    + now apply forallb_mem_anc.
    + now left.
  - destruct (find _ (rev (fs_ancestors (st c src)))) as [a|] eqn:Hfind.
    + intros [= <-]. apply find_some in Hfind as [Hin Hf].
      apply andb_true_iff in Hf as [Hcomp Hall].
      split; [rewrite Htg; discriminate|]. split; [|split].
      * left. unfold kd. destruct (fs_type (st c a)); try discriminate. reflexivity.
      * now apply forallb_mem_anc.
      * right. apply (wf_anc W). now apply in_rev.
    + intros [= <-]. split; [rewrite Htg; discriminate|]. split; [now right|]. split.
      * intros g Hg. destruct (wf_tr_targets W ti g Hg). now apply anc_root.
      * destruct (Nat.eq_dec src 0) as [->|Hne]; [now left | right; apply anc_root; lia].
Qed.


(* ------------------------------------------------------------------ the entry set, for any target set *)

Section Entry.
Variable cfg exitset hist tg ts0 : list nat.
Hypothesis tg_bound : forall g, In g tg -> 0 < g /\ g < n.

Definition E0 : list nat := add_ancestors c tg.


Definition blocked (es : list nat) (i : nat) : Prop :=
  exists k, In k (ch i) /\ (In k es \/ (In k cfg /\ ~ In k exitset)).

Definition AddedAt (es : list nat) (i x : nat) : Prop :=
  (kd i = FParallel /\ In x (ch i)) \/
  (kd i = FCompound /\ fs_completion (st c i) = [x] /\ ~ blocked es i).

Lemma blocked_dec es i : blocked es i \/ ~ blocked es i.
Proof.
  unfold blocked. induction (ch i) as [|k r IH].
  - right. intros (k & [] & _).
  - destruct IH as [(k' & Hin & H)|Hn]; [left; exists k'; cbn; tauto|].
    destruct (in_dec Nat.eq_dec k es) as [He|He]; [left; exists k; cbn; tauto|].
    destruct (in_dec Nat.eq_dec k cfg) as [Hc|Hc].
    + destruct (in_dec Nat.eq_dec k exitset) as [Hx|Hx].
      * right. intros (k' & [<-|Hin] & H); [tauto | apply Hn; exists k'; tauto].
      * left. exists k. cbn. tauto.
    + right. intros (k' & [<-|Hin] & H); [tauto | apply Hn; exists k'; tauto].
Qed.

Lemma existsb_blocked es i :
  existsb (fun k => mem k es || (negb (mem k exitset) && mem k cfg)) (ch i) = true <-> blocked es i.
Proof.
  unfold blocked. rewrite existsb_exists. split; intros (k & Hin & H); exists k; (split; [exact Hin|]).
  - apply orb_true_iff in H as [H|H]; [left; now apply mem_In|].
    apply andb_true_iff in H as [H1 H2]. apply negb_true_iff, mem_false_In in H1. apply mem_In in H2. tauto.
  - apply orb_true_iff. destruct H as [H|[H1 H2]]; [left; now apply mem_In|].
    right. apply andb_true_iff. split; [apply negb_true_iff, mem_false_In; exact H2 | now apply mem_In].
Qed.

Lemma descend_one_spec es ts i x :
  In x (fst (descend_one lg_fixed c cfg exitset hist (es, ts) i)) <->
  In x es \/ (In i es /\ AddedAt es i x).
Proof.
  unfold descend_one. destruct (mem i es) eqn:Hm; cbn [negb].
  2: { cbn [fst]. apply mem_false_In in Hm. tauto. }
  apply mem_In in Hm. unfold AddedAt.
  pose proof (wf_compound W i) as Hwc. pose proof (wf_parallel W i) as Hwp.
  destruct (wf_types W i) as [Hk|[Hk|[Hk|Hk]]]; unfold kd in *; rewrite Hk in *; cbn [fst].
  - split; [tauto|]. intros [H|[_ [[H _]|[H _]]]]; [exact H | discriminate | discriminate].
  - (* compound *)
    destruct (Hwc eq_refl) as (k & Hcomp & Hkin). fold (ch i).
    destruct (existsb _ (ch i)) eqn:Hb.
    + apply existsb_blocked in Hb. cbn [fst].
      split; [tauto|]. intros [H|[_ [[H _]|[_ [_ Hn]]]]]; [exact H | discriminate | contradiction].
    + assert (Hnb : ~ blocked es i) by (intros Hbl; apply existsb_blocked in Hbl; congruence).
      rewrite Hcomp. cbn [fold_left fst].
      apply mem_In in Hkin. rewrite Hkin.
      rewrite In_set_union. cbn [In]. split.
      * intros [H|[<-|[]]]; [tauto|]. right. split; [exact Hm|]. right. tauto.
      * intros [H|[_ [[H _]|[_ [Hc _]]]]]; [tauto | discriminate|]. injection Hc as <-. tauto.
  - (* parallel *)
    rewrite In_set_union. split.
    + intros [H|H]; [tauto|]. right. split; [exact Hm|]. left. split; [reflexivity|]. now apply (Hwp x eq_refl).
    + intros [H|[_ [[_ H]|[H _]]]]; [tauto | right; now apply (Hwp x eq_refl) | discriminate].
  - split; [tauto|]. intros [H|[_ [[H _]|[H _]]]]; [exact H | discriminate | discriminate].
Qed.

Lemma In_E0 x : In x E0 <-> exists g, In g tg /\ (x = g \/ Anc x g).
Proof.
  unfold E0, add_ancestors. rewrite In_fold_union. split.
  - intros [H|(g & Hg & Hx)]; [exists x; tauto | exists g; split; [exact Hg|]; right; now apply (wf_anc W)].
  - intros (g & Hg & [->|Ha]); [tauto | right; exists g; split; [exact Hg|]; now apply (wf_anc W)].
Qed.

(* the invariant of the "iterate for descendants" loop after the states below j have been visited *)
Record Inv (j : nat) (es : list nat) : Prop := {
  inv_base : forall x, In x E0 -> In x es;
  inv_bound : forall x, In x es -> x < n;
  inv_added : forall x, In x es ->
              In x E0 \/ exists p, par x = Some p /\ p < j /\ In p es /\ AddedAt E0 p x;
  inv_done : forall i, i < j -> In i es ->
             (kd i = FParallel -> forall k, In k (ch i) -> In k es) /\
             (kd i = FCompound -> blocked es i)
}.

Lemma blocked_mono es es' i : (forall x, In x es -> In x es') -> blocked es i -> blocked es' i.
Proof. intros Hsub (k & Hin & [H|H]); exists k; split; auto. Qed.

Lemma E0_bound x : In x E0 -> x < n.
Proof.
  intros H. apply In_E0 in H as (g & Hg & [->|Ha]).
  - now apply tg_bound.
  - destruct (anc_lt _ _ Ha). destruct (tg_bound g Hg). lia.
Qed.

Lemma Inv_0 : Inv 0 E0.
Proof.
  constructor.
  - auto.
  - exact E0_bound.
  - intros x Hx. now left.
  - intros i Hi. lia.
Qed.

(* before a state is visited its children are in the set only through E0 *)
Lemma blocked_at_visit j es : Inv j es -> blocked es j <-> blocked E0 j.
Proof.
  intros HI. split.
  - intros (k & Hk & [He|Hc]); exists k; (split; [exact Hk|]); [|now right].
    left. destruct (inv_added _ _ HI k He) as [H|(p & Hp & Hlt & _)]; [exact H|].
    exfalso. apply (wf_children W) in Hk. fold (par k) in Hp. rewrite Hk in Hp. injection Hp as <-. lia.
  - apply blocked_mono. exact (inv_base _ _ HI).
Qed.

Lemma AddedAt_child es i x : AddedAt es i x -> In x (ch i).
Proof.
  intros [[_ H]|[Hk [Hc _]]]; [exact H|].
  destruct (wf_compound W i Hk) as (k & Hc' & Hin). rewrite Hc in Hc'. injection Hc' as ->. exact Hin.
Qed.

Lemma Inv_step j es ts : j < n -> Inv j es ->
  Inv (S j) (fst (descend_one lg_fixed c cfg exitset hist (es, ts) j)).
Proof.
  intros Hj HI.
  set (es' := fst (descend_one lg_fixed c cfg exitset hist (es, ts) j)).
  assert (Hspec : forall x, In x es' <-> In x es \/ (In j es /\ AddedAt es j x)) by (intros x; apply descend_one_spec).
  assert (Hsub : forall x, In x es -> In x es') by (intros x Hx; apply Hspec; now left).
  constructor.
  - intros x Hx. apply Hsub. now apply (inv_base _ _ HI).
  - intros x Hx. apply Hspec in Hx as [Hx|[_ Ha]]; [now apply (inv_bound _ _ HI)|].
    apply AddedAt_child, (wf_children W) in Ha. fold (par x) in Ha. now destruct (wf_par_lt W _ _ Ha).
  - intros x Hx. apply Hspec in Hx as [Hx|[Hje Ha]].
    + destruct (inv_added _ _ HI x Hx) as [H|(p & Hp & Hlt & Hpe & Hadd)]; [now left|].
      right. exists p. repeat split; auto.
    + right. exists j. split; [apply (wf_children W); eapply AddedAt_child; eauto|].
      split; [lia|]. split; [now apply Hsub|].
      destruct Ha as [Hpar|(Hk & Hc & Hnb)]; [now left|]. right. repeat split; auto.
      intros Hb. apply Hnb. now apply (blocked_at_visit j es HI).
  - intros i Hi Hie.
    assert (Hie0 : In i es).
    { apply Hspec in Hie as [H|[_ Ha]]; [exact H|].
      apply AddedAt_child, (wf_children W) in Ha. fold (par i) in Ha. destruct (wf_par_lt W _ _ Ha). lia. }
    destruct (Nat.eq_dec i j) as [->|Hne].
    + split.
      * intros Hk k Hin. apply Hspec. right. split; [exact Hie0|]. left. tauto.
      * intros Hk. destruct (blocked_dec es j) as [Hb|Hnb]; [now apply (blocked_mono es es')|].
        destruct (wf_compound W j Hk) as (k & Hc & Hin). exists k. split; [exact Hin|]. left.
        apply Hspec. right. split; [exact Hie0|]. right. tauto.
    + destruct (inv_done _ _ HI i ltac:(lia) Hie0) as [Hp Hc]. split.
      * intros Hk k Hin. apply Hsub. now apply Hp.
      * intros Hk. apply (blocked_mono es es'); auto.
Qed.

Definition Efin : list nat := fst (entry_set lg_fixed c cfg exitset hist tg ts0).

Lemma Inv_fin : Inv n Efin.
Proof.
  unfold Efin, entry_set.
  pose proof (fold_seq_inv (descend_one lg_fixed c cfg exitset hist)
                           (fun j acc => Inv j (fst acc)) n 0 (E0, ts0) Inv_0) as H.
  cbn [Nat.add] in H. apply H.
  intros j [es ts] _ Hj HI. cbn [fst] in HI. now apply Inv_step.
Qed.


Lemma parent_closed_E0 x p : In x E0 -> par x = Some p -> In p E0.
Proof.
  intros H0 Hp. apply In_E0 in H0 as (g & Hg & Hx). apply In_E0. exists g. split; [exact Hg|].
  right. destruct Hx as [->|Ha]; [now apply anc_parent | eapply anc_trans; [apply anc_parent; eauto | exact Ha]].
Qed.

Lemma gE1 i p : In i Efin -> par i = Some p -> In p Efin.
Proof.
  intros Hi Hp. destruct (inv_added _ _ Inv_fin i Hi) as [H0|(p' & Hp' & _ & Hpe & _)].
  - apply (inv_base _ _ Inv_fin). eapply parent_closed_E0; eauto.
  - fold (par i) in Hp'. congruence.
Qed.

Lemma gE2 i k : In i Efin -> kd i = FParallel -> In k (ch i) -> In k Efin.
Proof. intros Hi Hk Hin. exact (proj1 (inv_done _ _ Inv_fin i (inv_bound _ _ Inv_fin i Hi) Hi) Hk k Hin). Qed.

Lemma gE3 i : In i Efin -> kd i = FCompound ->
  exists k, In k (ch i) /\ (In k Efin \/ (In k cfg /\ ~ In k exitset)).
Proof. intros Hi Hk. exact (proj2 (inv_done _ _ Inv_fin i (inv_bound _ _ Inv_fin i Hi) Hi) Hk). Qed.

End Entry.

(* ------------------------------------------------------------------ one microstep *)

Section Step.
Variable cfg : list nat.
Variable sel : list nat.
Notation LegalP := (Legal par ch kd).
Hypothesis Hleg : LegalP (fun x => In x cfg).
Hypothesis Hbound : forall x, In x cfg -> x < n.
Hypothesis Hsel_src : forall ti, In ti sel -> In (ft_source (tr c ti)) cfg.
Hypothesis Hsel_ok : pairwise_ok lg_fixed c sel.

Definition Dm (d : nat) : Prop := exists ti, In ti sel /\ domain c (tr c ti) = Some d.
Definition targets : list nat := fold_left (fun a ti => set_union a (ft_targets (tr c ti))) sel [].
Definition exitset : list nat := fold_left (fun a ti => set_union a (exit_states_of lg_fixed c cfg (tr c ti))) sel [].

Variable hist : list nat.

Lemma cfg_anc_closed i a : In i cfg -> Anc a i -> In a cfg.
Proof.
  intros Hi Ha. induction Ha as [i p Hp|i p a Hp Ha IH].
  - exact (lg_parent _ _ _ _ Hleg i p Hi Hp).
  - apply IH. exact (lg_parent _ _ _ _ Hleg i p Hi Hp).
Qed.

Lemma In_targets g : In g targets <-> exists ti, In ti sel /\ In g (ft_targets (tr c ti)).
Proof. unfold targets. rewrite In_fold_union. cbn. split; [intros [[]|H]; exact H | intros H; now right]. Qed.

Lemma Dm_facts d : Dm d ->
  In d cfg /\ (kd d = FCompound \/ d = 0) /\ d < n /\ 2 <= fs_size (st c d).
Proof.
  intros (ti & Hti & Hd).
  pose proof (Hsel_src ti Hti) as Hsrc.
  destruct (domain_spec ti d (Hbound _ Hsrc) Hd) as (Hne & Hk & Htg & Hs).
  assert (Hin : In d cfg) by (destruct Hs as [->|Ha]; [exact Hsrc | eapply cfg_anc_closed; eauto]).
  split; [exact Hin|]. split; [exact Hk|]. split; [now apply Hbound|].
  destruct (ft_targets (tr c ti)) as [|g gs] eqn:E; [congruence|].
  assert (Hg : Anc d g) by (apply Htg; now left).
  pose proof (anc_lt _ _ Hg) as [Hlt Hgn].
  apply (wf_interval W d g (Hbound _ Hin) Hgn) in Hg. lia.
Qed.

Lemma exit_interval_fixed ti d : domain c (tr c ti) = Some d ->
  exit_interval lg_fixed c (tr c ti) = (S d, d + fs_size (st c d) - 1).
Proof. intros H. unfold exit_interval. rewrite H. reflexivity. Qed.

Lemma exit_interval_none ti : domain c (tr c ti) = None -> exit_interval lg_fixed c (tr c ti) = (0, 0).
Proof. intros H. unfold exit_interval. now rewrite H. Qed.

Lemma In_exit_states ti x :
  In ti sel ->
  (In x (exit_states_of lg_fixed c cfg (tr c ti)) <-> In x cfg /\ exists d, domain c (tr c ti) = Some d /\ Anc d x).
Proof.
  intros Hti. unfold exit_states_of.
  destruct (domain c (tr c ti)) as [d|] eqn:Hd.
  - rewrite (exit_interval_fixed ti d Hd). cbn [lg_targetless_exits_root lg_fixed negb andb].
    replace ((S d =? 0) && (d + fs_size (st c d) - 1 =? 0) && true) with false by (cbn; reflexivity).
    rewrite filter_In.
    assert (HDm : Dm d) by (exists ti; tauto).
    destruct (Dm_facts d HDm) as (Hdc & _ & Hdn & Hsz).
    split.
    + intros [Hx Hr]. split; [exact Hx|]. exists d. split; [reflexivity|].
      apply andb_true_iff in Hr as [H1 H2]. apply Nat.leb_le in H1, H2.
      apply (wf_interval W d x Hdn (Hbound _ Hx)). lia.
    + intros [Hx (d' & [= <-] & Ha)]. split; [exact Hx|].
      apply (wf_interval W d x Hdn (Hbound _ Hx)) in Ha.
      apply andb_true_iff. split; apply Nat.leb_le; lia.
  - rewrite (exit_interval_none ti Hd). cbn. split; [tauto | intros [_ (d & Hd' & _)]; discriminate].
Qed.

Lemma In_exitset x : In x exitset <-> In x cfg /\ exists d, Dm d /\ Anc d x.
Proof.
  unfold exitset. rewrite In_fold_union. cbn. split.
  - intros [[]|(ti & Hti & Hx)]. apply (In_exit_states ti x Hti) in Hx as [Hc (d & Hd & Ha)].
    split; [exact Hc|]. exists d. split; [exists ti; tauto | exact Ha].
  - intros [Hc (d & (ti & Hti & Hd) & Ha)]. right. exists ti. split; [exact Hti|].
    apply (In_exit_states ti x Hti). split; [exact Hc|]. exists d. tauto.
Qed.

(* the domains of two different selected transitions are unrelated *)
Lemma Dm_unrelated t1 t2 d1 d2 :
  In t1 sel -> In t2 sel -> t1 <> t2 ->
  domain c (tr c t1) = Some d1 -> domain c (tr c t2) = Some d2 ->
  d1 <> d2 /\ ~ Anc d1 d2 /\ ~ Anc d2 d1.
Proof.
  intros H1 H2 Hne Hd1 Hd2.
  pose proof (Hsel_ok t1 t2 H1 H2 Hne) as Hc. unfold conflicts in Hc.
  rewrite (exit_interval_fixed t1 d1 Hd1), (exit_interval_fixed t2 d2 Hd2) in Hc.
  assert (HD1 : Dm d1) by (exists t1; tauto). assert (HD2 : Dm d2) by (exists t2; tauto).
  destruct (Dm_facts d1 HD1) as (Hc1 & _ & Hn1 & Hs1). destruct (Dm_facts d2 HD2) as (Hc2 & _ & Hn2 & Hs2).
  (* a target below each domain *)
  destruct (domain_spec t1 d1 (Hbound _ (Hsel_src t1 H1)) Hd1) as (Hne1 & _ & Htg1 & _).
  destruct (domain_spec t2 d2 (Hbound _ (Hsel_src t2 H2)) Hd2) as (Hne2 & _ & Htg2 & _).
  destruct (ft_targets (tr c t1)) as [|g1 gs1] eqn:E1; [congruence|].
  destruct (ft_targets (tr c t2)) as [|g2 gs2] eqn:E2; [congruence|].
  assert (Hg1 : Anc d1 g1) by (apply Htg1; now left). assert (Hg2 : Anc d2 g2) by (apply Htg2; now left).
  pose proof (anc_lt _ _ Hg1) as [Hl1 Hgn1]. pose proof (anc_lt _ _ Hg2) as [Hl2 Hgn2].
  pose proof (proj1 (wf_interval W d1 g1 Hn1 Hgn1) Hg1) as I1.
  pose proof (proj1 (wf_interval W d2 g2 Hn2 Hgn2) Hg2) as I2.
  cbn [negb Nat.eqb andb] in Hc.
  apply orb_false_iff in Hc as [Ha Hb].
  apply andb_false_iff in Ha. apply andb_false_iff in Hb.
  repeat rewrite Nat.leb_gt in *.
  assert (Ha' : ~ (d1 <= d2 /\ S d2 <= d1 + fs_size (st c d1) - 1)).
  { intros [A B]. lia. }
  assert (Hb' : ~ (d2 <= d1 /\ S d1 <= d2 + fs_size (st c d2) - 1)).
  { intros [A B]. lia. }
  split; [|split].
  - intros ->. apply Ha'. lia.
  - intros H12. apply Ha'.
    pose proof (proj1 (wf_interval W d1 d2 Hn1 Hn2) H12) as J.
    pose proof (anc_trans _ _ _ H12 Hg2) as H1g2.
    pose proof (proj1 (wf_interval W d1 g2 Hn1 Hgn2) H1g2) as K. lia.
  - intros H21. apply Hb'.
    pose proof (proj1 (wf_interval W d2 d1 Hn2 Hn1) H21) as J.
    pose proof (anc_trans _ _ _ H21 Hg1) as H2g1.
    pose proof (proj1 (wf_interval W d2 g1 Hn2 Hgn1) H2g1) as K. lia.
Qed.


(* ---- the hypotheses of LegalAbstract.abstract_legal ---- *)

Lemma targets_bound g : In g targets -> 0 < g /\ g < n.
Proof. intros Hg. apply In_targets in Hg as (ti & _ & Hg). exact (wf_tr_targets W ti g Hg). Qed.

Definition E0s : list nat := E0 targets.
Definition Efs : list nat := Efin cfg exitset hist targets sel.
Definition InvF := Inv_fin cfg exitset hist targets sel targets_bound.

Lemma hE1 i p : In i Efs -> par i = Some p -> In p Efs.
Proof. apply (gE1 cfg exitset hist targets sel targets_bound). Qed.
Lemma hE2 i k : In i Efs -> kd i = FParallel -> In k (ch i) -> In k Efs.
Proof. apply (gE2 cfg exitset hist targets sel targets_bound). Qed.
Lemma hE3 i : In i Efs -> kd i = FCompound ->
  exists k, In k (ch i) /\ (In k Efs \/ (In k cfg /\ ~ In k exitset)).
Proof. apply (gE3 cfg exitset hist targets sel targets_bound). Qed.

Lemma domain_some ti : ft_targets (tr c ti) <> [] -> exists d, domain c (tr c ti) = Some d.
Proof.
  intros Hne. unfold domain. destruct (ft_targets (tr c ti)) as [|g gs]; [congruence|].
  destruct (_ && _ && _); [eexists; reflexivity|]. destruct (find _ _); eexists; reflexivity.
Qed.

(* every target lies below the domain of its transition *)
Lemma target_below_domain ti g : In ti sel -> In g (ft_targets (tr c ti)) ->
  exists d, domain c (tr c ti) = Some d /\ Anc d g.
Proof.
  intros Hti Hg. destruct (domain_some ti) as (d & Hd); [intros E; rewrite E in Hg; contradiction|].
  exists d. split; [exact Hd|].
  destruct (domain_spec ti d (Hbound _ (Hsel_src ti Hti)) Hd) as (_ & _ & Htg & _). now apply Htg.
Qed.

Lemma hE7 d : Dm d -> In d Efs.
Proof.
  intros (ti & Hti & Hd). apply (inv_base _ _ _ _ _ InvF). apply In_E0.
  destruct (domain_spec ti d (Hbound _ (Hsel_src ti Hti)) Hd) as (Hne & _ & Htg & _).
  destruct (ft_targets (tr c ti)) as [|g gs] eqn:E; [congruence|].
  exists g. split; [apply In_targets; exists ti; rewrite E; cbn; tauto|]. right. apply Htg. now left.
Qed.

(* a domain above a target is either at/above the parent of a child on the path, or at/below that child *)
Lemma above_or_below d i g k : Anc d g -> par k = Some i -> (k = g \/ Anc k g) ->
  (d = i \/ Anc d i) \/ (k = d \/ Anc k d).
Proof.
  intros Hd Hp Hk.
  destruct Hk as [->|Hkg].
  - left. exact (anc_child par _ _ _ Hp Hd).
  - destruct (anc_chain d k g Hd Hkg) as [->|[Hdk|Hkd]].
    + right. now left.
    + left. exact (anc_child par _ _ _ Hp Hdk).
    + right. now right.
Qed.

Lemma Dm_fun ti d d' : domain c (tr c ti) = Some d -> domain c (tr c ti) = Some d' -> d = d'.
Proof. congruence. Qed.

Lemma hE4 i k1 k2 : kd i = FCompound -> In k1 (ch i) -> In k2 (ch i) -> In k1 Efs -> In k2 Efs -> k1 = k2.
Proof.
  intros Hk H1 H2 He1 He2.
  assert (Hp1 : par k1 = Some i) by now apply (wf_children W).
  assert (Hp2 : par k2 = Some i) by now apply (wf_children W).
  (* an element outside E0s was added as the completion of i, which then had no child in E0s *)
  assert (Hadd : forall k, In k (ch i) -> In k Efs -> ~ In k E0s ->
                           fs_completion (st c i) = [k] /\ ~ blocked cfg exitset E0s i).
  { intros k Hin He Hn0. assert (Hp : par k = Some i) by now apply (wf_children W).
    destruct (inv_added _ _ _ _ _ InvF k He) as [H0|(p & Hp' & _ & _ & Ha)]; [contradiction|].
    fold (par k) in Hp'. rewrite Hp in Hp'. injection Hp' as <-.
    destruct Ha as [[Hpar _]|(_ & Hc & Hnb)]; [unfold kd in *; congruence | tauto]. }
  destruct (in_dec Nat.eq_dec k1 E0s) as [H10|H10], (in_dec Nat.eq_dec k2 E0s) as [H20|H20].
  - (* both through targets *)
    apply In_E0 in H10 as (g1 & Hg1 & Hx1). apply In_E0 in H20 as (g2 & Hg2 & Hx2).
    apply In_targets in Hg1 as (t1 & Ht1 & Hg1). apply In_targets in Hg2 as (t2 & Ht2 & Hg2).
    destruct (Nat.eq_dec t1 t2) as [->|Hne].
    { eapply (wf_target_sets W t2 i k1 k2 g1 g2); eauto. }
    destruct (target_below_domain t1 g1 Ht1 Hg1) as (d1 & Hd1 & Ha1).
    destruct (target_below_domain t2 g2 Ht2 Hg2) as (d2 & Hd2 & Ha2).
    destruct (Dm_unrelated t1 t2 d1 d2 Ht1 Ht2 Hne Hd1 Hd2) as (Hdne & Hn12 & Hn21).
    assert (HD1 : Dm d1) by (exists t1; tauto). assert (HD2 : Dm d2) by (exists t2; tauto).
    destruct (Dm_facts d1 HD1) as (Hc1 & _). destruct (Dm_facts d2 HD2) as (Hc2 & _).
    destruct (above_or_below d1 i g1 k1 Ha1 Hp1 Hx1) as [A1|B1], (above_or_below d2 i g2 k2 Ha2 Hp2 Hx2) as [A2|B2].
    + exfalso. destruct A1 as [->|A1], A2 as [->|A2].
      * now apply Hdne.
      * now apply Hn21.
      * now apply Hn12.
      * destruct (anc_chain d1 d2 i A1 A2) as [->|[H|H]]; [now apply Hdne | now apply Hn12 | now apply Hn21].
    + exfalso. apply Hn12.
      assert (Hik2 : Anc i k2) by now apply anc_parent.
      assert (Hid2 : Anc i d2) by (destruct B2 as [<-|B2]; [exact Hik2 | eapply anc_trans; eauto]).
      destruct A1 as [->|A1]; [exact Hid2 | eapply anc_trans; eauto].
    + exfalso. apply Hn21.
      assert (Hik1 : Anc i k1) by now apply anc_parent.
      assert (Hid1 : Anc i d1) by (destruct B1 as [<-|B1]; [exact Hik1 | eapply anc_trans; eauto]).
      destruct A2 as [->|A2]; [exact Hid1 | eapply anc_trans; eauto].
    + assert (Hk1c : In k1 cfg) by (destruct B1 as [->|B1]; [exact Hc1 | exact (cfg_anc_closed d1 k1 Hc1 B1)]).
      assert (Hk2c : In k2 cfg) by (destruct B2 as [->|B2]; [exact Hc2 | exact (cfg_anc_closed d2 k2 Hc2 B2)]).
      assert (Hic : In i cfg) by (exact (lg_parent _ _ _ _ Hleg k1 i Hk1c Hp1)).
      exact (lg_compound_uniq _ _ _ _ Hleg i k1 k2 Hic Hk H1 H2 Hk1c Hk2c).
  - exfalso. destruct (Hadd k2 H2 He2 H20) as [_ Hnb]. apply Hnb. exists k1. tauto.
  - exfalso. destruct (Hadd k1 H1 He1 H10) as [_ Hnb]. apply Hnb. exists k2. tauto.
  - destruct (Hadd k1 H1 He1 H10) as [Hc1 _]. destruct (Hadd k2 H2 He2 H20) as [Hc2 _]. congruence.
Qed.

Lemma hE5 : forall f, In f Efs -> (In f cfg /\ ~ In f exitset) \/ exists d, Dm d /\ Anc d f.
Proof.
  induction f as [f IH] using lt_wf_ind. intros Hf.
  destruct (inv_added _ _ _ _ _ InvF f Hf) as [H0|(p & Hp & _ & Hpe & Ha)].
  - apply In_E0 in H0 as (g & Hg & Hx). apply In_targets in Hg as (ti & Hti & Hg).
    destruct (target_below_domain ti g Hti Hg) as (d & Hd & Hdg).
    assert (HD : Dm d) by (exists ti; tauto).
    destruct Hx as [->|Hfg]; [right; exists d; tauto|].
    destruct (anc_chain d f g Hdg Hfg) as [->|[Hdf|Hfd]].
    + (* f is the domain itself *)
      left. destruct (Dm_facts f HD) as (Hc & _). split; [exact Hc|].
      intros Hx. apply In_exitset in Hx as [_ (d' & (t' & Ht' & Hd') & Ha')].
      destruct (Nat.eq_dec t' ti) as [->|Hne].
      * rewrite Hd in Hd'. injection Hd' as <-. exact (anc_irrefl _ Ha').
      * destruct (Dm_unrelated t' ti d' f Ht' Hti Hne Hd' Hd) as (_ & Hn & _). now apply Hn.
    + right. exists d. tauto.
    + left. destruct (Dm_facts d HD) as (Hc & _).
      assert (Hfc : In f cfg) by exact (cfg_anc_closed d f Hc Hfd). split; [exact Hfc|].
      intros Hx. apply In_exitset in Hx as [_ (d' & (t' & Ht' & Hd') & Ha')].
      assert (Hd'd : Anc d' d) by (eapply anc_trans; eauto).
      destruct (Nat.eq_dec t' ti) as [->|Hne].
      * rewrite Hd in Hd'. injection Hd' as <-. exact (anc_irrefl _ Hd'd).
      * destruct (Dm_unrelated t' ti d' d Ht' Hti Hne Hd' Hd) as (_ & Hn & _). now apply Hn.
  - fold (par f) in Hp. destruct (wf_par_lt W _ _ Hp) as [Hlt _].
    destruct (IH p Hlt Hpe) as [[Hpc Hpx]|(d & HD & Hdp)].
    2: { right. exists d. split; [exact HD|]. eapply anc_step; eauto. }
    destruct Ha as [[Hk Hin]|(Hk & Hc & Hnb)].
    + (* child of a surviving parallel state *)
      left. assert (Hfc : In f cfg) by exact (lg_parallel _ _ _ _ Hleg p f Hpc Hk Hin). split; [exact Hfc|].
      intros Hx. apply In_exitset in Hx as [_ (d & HD & Hdf)].
      destruct (anc_child par _ _ _ Hp Hdf) as [->|Hdp].
      * destruct (Dm_facts p HD) as (_ & [Hkc| ->] & _); [unfold kd in *; congruence | exact (wf_root_type W Hk)].
      * apply Hpx. apply In_exitset. split; [exact Hpc|]. exists d. tauto.
    + (* completion of a surviving compound state whose active child is exited *)
      right. destruct (lg_compound_ex _ _ _ _ Hleg p Hpc Hk) as (k & Hkin & Hkc).
      destruct (in_dec Nat.eq_dec k exitset) as [Hkx|Hkx].
      2: { exfalso. apply Hnb. exists k. tauto. }
      apply In_exitset in Hkx as [_ (d & HD & Hdk)].
      assert (Hpk : par k = Some p) by now apply (wf_children W).
      destruct (anc_child par _ _ _ Hpk Hdk) as [->|Hdp].
      * exists p. split; [exact HD | now apply anc_parent].
      * exfalso. apply Hpx. apply In_exitset. split; [exact Hpc|]. exists d. tauto.
Qed.

(* the states active after the microstep, as a set, form a legal configuration *)
Theorem microstep_sets_legal :
  LegalP (fun x => (In x cfg /\ ~ In x exitset) \/ In x Efs).
Proof.
  pose proof (abstract_legal par ch kd (wf_children W) (wf_root_par W) (wf_root_type W)
                (fun x => In x cfg) Dm (fun x => In x Efs) Hleg) as HA.
  assert (HX : forall x, X par (fun x => In x cfg) Dm x <-> In x exitset).
  { intros x. unfold X. symmetry. apply In_exitset. }
  assert (Hres : LegalP (C' par (fun x => In x cfg) Dm (fun x => In x Efs))).
  { apply HA.
    - intros x. destruct (in_dec Nat.eq_dec x Efs); tauto.
    - intros x. destruct (in_dec Nat.eq_dec x exitset) as [H|H]; [left | right]; now rewrite HX.
    - intros d HD. destruct (Dm_facts d HD) as (_ & Hk & _). exact Hk.
    - exact hE1.
    - exact hE2.
    - intros i Hi Hk. destruct (hE3 i Hi Hk) as (k & Hin & [H|[H1 H2]]); exists k; (split; [exact Hin|]); [now left|].
      right. split; [exact H1|]. now rewrite HX.
    - exact hE4.
    - intros f Hf. destruct (hE5 f Hf) as [[H1 H2]|H]; [left | now right]. split; [exact H1|]. now rewrite HX.
    - exact hE7. }
  destruct Hres as [R1 R2 R3 R4 R5].
  assert (Heq : forall x, C' par (fun x => In x cfg) Dm (fun x => In x Efs) x <->
                          ((In x cfg /\ ~ In x exitset) \/ In x Efs)).
  { intros x. unfold C'. now rewrite HX. }
  constructor.
  - now apply Heq.
  - intros i p Hi Hp. apply Heq. eapply R2; [apply Heq; exact Hi | exact Hp].
  - intros i Hi Hk. destruct (R3 i (proj2 (Heq i) Hi) Hk) as (k & Hin & Hk'). exists k. split; [exact Hin | now apply Heq].
  - intros i k1 k2 Hi Hk H1 H2 Hk1 Hk2.
    exact (R4 i k1 k2 (proj2 (Heq i) Hi) Hk H1 H2 (proj2 (Heq k1) Hk1) (proj2 (Heq k2) Hk2)).
  - intros i k Hi Hk Hin. apply Heq. exact (R5 i k (proj2 (Heq i) Hi) Hk Hin).
Qed.

End Step.

(* ------------------------------------------------------------------ the initial configuration *)

Section Initial.
Variable hist : list nat.
Hypothesis root_compound : kd 0 = FCompound.

Lemma init_tg_bound g : In g (fs_completion (st c 0)) -> 0 < g /\ g < n.
Proof.
  intros Hg. destruct (wf_compound W 0 root_compound) as (k & Hc & Hin). rewrite Hc in Hg.
  destruct Hg as [<-|[]]. apply (wf_children W) in Hin. destruct (wf_par_lt W _ _ Hin). lia.
Qed.

Definition Einit : list nat := Efin [] [] hist (fs_completion (st c 0)) [].

Theorem initial_sets_legal : Legal par ch kd (fun x => In x Einit).
Proof.
  pose proof (Inv_fin [] [] hist (fs_completion (st c 0)) [] init_tg_bound) as HI. fold Einit in HI.
  destruct (wf_compound W 0 root_compound) as (k & Hc & Hkin).
  assert (Hpk : par k = Some 0) by now apply (wf_children W).
  assert (HE0 : forall x, In x (E0 (fs_completion (st c 0))) <-> x = k \/ x = 0).
  { intros x. rewrite In_E0, Hc. split.
    - intros (g & [<-|[]] & [->|Ha]); [now left|]. right.
      destruct (anc_child par _ _ _ Hpk Ha) as [->|H0]; [reflexivity | exfalso; exact (no_anc_root par (wf_root_par W) _ H0)].
    - intros [->| ->]; exists k; (split; [now left|]); [now left | right; now apply anc_parent]. }
  constructor.
  - apply (inv_base _ _ _ _ _ HI). apply HE0. now right.
  - intros i p Hi Hp. exact (gE1 [] [] hist _ [] init_tg_bound i p Hi Hp).
  - intros i Hi Hk. destruct (gE3 [] [] hist _ [] init_tg_bound i Hi Hk) as (k' & Hin & [H|[[] _]]). exists k'. tauto.
  - intros i k1 k2 Hi Hk H1 H2 He1 He2.
    assert (Hp1 : par k1 = Some i) by now apply (wf_children W).
    assert (Hp2 : par k2 = Some i) by now apply (wf_children W).
    assert (Hadd : forall x, In x (ch i) -> In x Einit -> ~ In x (E0 (fs_completion (st c 0))) ->
                             fs_completion (st c i) = [x] /\ ~ blocked [] [] (E0 (fs_completion (st c 0))) i).
    { intros x Hin He Hn0. assert (Hp : par x = Some i) by now apply (wf_children W).
      destruct (inv_added _ _ _ _ _ HI x He) as [H0|(p & Hp' & _ & _ & Ha)]; [contradiction|].
      fold (par x) in Hp'. rewrite Hp in Hp'. injection Hp' as <-.
      destruct Ha as [[Hpar _]|(_ & Hcc & Hnb)]; [unfold kd in *; congruence | tauto]. }
    assert (Hin0 : forall x, In x (ch i) -> In x (E0 (fs_completion (st c 0))) -> x = k).
    { intros x Hx H0. apply HE0 in H0 as [->| ->]; [reflexivity|].
      apply (wf_children W) in Hx. fold (par 0) in Hx. rewrite (wf_root_par W) in Hx. discriminate. }
    destruct (in_dec Nat.eq_dec k1 (E0 (fs_completion (st c 0)))) as [H10|H10],
             (in_dec Nat.eq_dec k2 (E0 (fs_completion (st c 0)))) as [H20|H20].
    + rewrite (Hin0 k1 H1 H10), (Hin0 k2 H2 H20). reflexivity.
    + exfalso. destruct (Hadd k2 H2 He2 H20) as [_ Hnb]. apply Hnb. exists k1. tauto.
    + exfalso. destruct (Hadd k1 H1 He1 H10) as [_ Hnb]. apply Hnb. exists k2. tauto.
    + destruct (Hadd k1 H1 He1 H10) as [Hc1 _]. destruct (Hadd k2 H2 He2 H20) as [Hc2 _]. congruence.
  - intros i k' Hi Hk Hin. exact (gE2 [] [] hist _ [] init_tg_bound i k' Hi Hk Hin).
Qed.

Lemma Einit_bound x : In x Einit -> x < n.
Proof. exact (inv_bound _ _ _ _ _ (Inv_fin [] [] hist (fs_completion (st c 0)) [] init_tg_bound) x). Qed.

End Initial.

End Core.
