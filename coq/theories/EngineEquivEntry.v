(* EngineEquivEntry.v -- C03: ESTABLISH_ENTRYSET of FastMicroStep (Fast.fentry_set: descendant bit sets,
   "no descendant in the entry set and (no active descendant or an exited descendant)") computes the same pair
   of ascending lists as LargeMicroStep's (Large.entry_set: "no child in the entry set or surviving in the
   configuration"), on the history-free core, for a legal configuration and the target / exit sets of a
   conflict-free list of transitions with active sources, and for the initial step.  Proofs only. *)
From V Require Import Base NameMatch Chart Exec Large LargeLemmas Fast Legal SetLemmas LegalAbstract LegalLarge
  LegalRun WfCore LegalOracle LargeCacheLemmas SelectConform SelectConformLemmas MicroConform MicroConformLemmas
  MicroConformEntry MicroConformCompose EngineEquivBase.
Local Open Scope nat_scope.

Section Entry.
Variable c : fchart.
Hypothesis W : WF c.
Let n := nstates c.
Let par (i : nat) := fs_parent (st c i).
Let ch (i : nat) := fs_children (st c i).
Let kd (i : nat) := fs_type (st c i).
Notation Anc := (LegalAbstract.Anc par).

Variable cfg exitset hist tg : list nat.
Hypothesis tg_bound : forall g, In g tg -> 0 < g /\ g < n.
Hypothesis tg_sorted : ssorted tg.
Hypothesis cfg_par : forall y p, In y cfg -> par y = Some p -> In p cfg.
Hypothesis cfg_bound : forall y, In y cfg -> y < n.
Hypothesis X_sub : forall y, In y exitset -> In y cfg.
(* an exited state below a compound whose active child survives: the child is on the way to a target *)
Hypothesis X_dom : forall i k y, kd i = FCompound -> par k = Some i -> In k cfg -> ~ In k exitset ->
  In y exitset -> Anc i y -> In k (E0 c tg).

Notation INV := (Inv c cfg exitset tg).

Lemma ee_inv_parent j es x p : INV j es -> In x es -> par x = Some p -> In p es.
Proof.
  intros HI Hx Hp. destruct (inv_added _ _ _ _ _ _ HI x Hx) as [H0|(p' & Hp' & _ & Hpe & _)].
  - apply (inv_base _ _ _ _ _ _ HI). exact (parent_closed_E0 c W tg x p H0 Hp).
  - fold (par x) in Hp'. congruence.
Qed.

Lemma ee_inv_anc j es : INV j es -> forall a x, Anc a x -> In x es -> In a es.
Proof.
  intros HI a x Ha. induction Ha as [i p Hp|i p a Hp Ha IH]; intros Hi.
  - exact (ee_inv_parent j es i p HI Hi Hp).
  - apply IH. exact (ee_inv_parent j es i p HI Hi Hp).
Qed.

Lemma ee_cfg_anc a x : Anc a x -> In x cfg -> In a cfg.
Proof. induction 1 as [i p Hp|i p a Hp Ha IH]; intros Hi; [eauto | apply IH; eauto]. Qed.

Lemma ee_desc_child (S : list nat) j : j < n -> (forall y, In y S -> y < n) -> (forall a x, Anc a x -> In x S -> In a S) ->
  (intersects S (desc c j) = true <-> exists k, In k (ch j) /\ In k S).
Proof.
  intros Hj Hb Hcl. rewrite intersects_spec. split.
  - intros (y & Hy & Hd). apply (ee_In_desc c W j y Hj (Hb y Hy)) in Hd.
    destruct (ee_anc_first_child c j y Hd) as (k & Hk & Hrel). exists k. split; [now apply (wf_children c W)|].
    destruct Hrel as [->|Hrel]; [exact Hy | exact (Hcl k y Hrel Hy)].
  - intros (k & Hk & Hs). exists k. split; [exact Hs|]. apply (ee_In_desc c W j k Hj (Hb k Hs)).
    apply anc_parent. now apply (wf_children c W).
Qed.

(* at the visit of a state the two loops take the same step *)
Lemma ee_descend_eq j es ts : j < n -> INV j es -> ssorted es ->
  fdescend_one c cfg exitset hist (es, ts) j = descend_one lg_fixed c cfg exitset hist (es, ts) j.
Proof.
  intros Hj HI Hs. unfold fdescend_one, descend_one.
  destruct (mem j es) eqn:Hm; cbn [negb]; [|reflexivity]. apply mem_In in Hm.
  destruct (wf_types c W j) as [Hk|[Hk|[Hk|Hk]]]; unfold kd in Hk; rewrite Hk; try reflexivity.
  (* compound *)
  destruct (wf_compound c W j Hk) as (k & Hcomp & Hkin). rewrite Hcomp. cbn [fold_left].
  assert (Hpk : par k = Some j) by now apply (wf_children c W).
  assert (Hjk : j < k) by (destruct (wf_par_lt c W _ _ Hpk); lia).
  replace (j <? k) with true by (symmetry; now apply Nat.ltb_lt).
  replace (mem k (fs_children (st c j))) with true by (symmetry; now apply mem_In).
  pose proof (existsb_blocked c cfg exitset es j) as HB.
  assert (Hes : intersects es (desc c j) = true <-> exists k', In k' (ch j) /\ In k' es).
  { apply ee_desc_child; [exact Hj | exact (inv_bound _ _ _ _ _ _ HI) | exact (ee_inv_anc j es HI)]. }
  assert (Hcf : intersects cfg (desc c j) = true <-> exists k', In k' (ch j) /\ In k' cfg).
  { apply ee_desc_child; [exact Hj | exact cfg_bound | exact ee_cfg_anc]. }
  assert (HX : intersects exitset (desc c j) = true <-> exists y, In y exitset /\ Anc j y).
  { rewrite intersects_spec. split; intros (y & Hy & Hd); exists y; (split; [exact Hy|]);
      [apply (ee_In_desc c W j y Hj (cfg_bound y (X_sub y Hy))) in Hd | apply (ee_In_desc c W j y Hj (cfg_bound y (X_sub y Hy)))]; exact Hd. }
  assert (HF : negb (intersects es (desc c j)) && (negb (intersects cfg (desc c j)) || intersects exitset (desc c j)) = true
               <-> ~ blocked c cfg exitset es j).
  { rewrite andb_true_iff, orb_true_iff, !negb_true_iff. split.
    - intros [Hne Hor] (k' & Hk' & [He|[Hc Hx]]).
      + assert (intersects es (desc c j) = true) by (apply Hes; exists k'; tauto). congruence.
      + destruct Hor as [Hnc|Hxx].
        * assert (intersects cfg (desc c j) = true) by (apply Hcf; exists k'; tauto). congruence.
        * apply HX in Hxx as (y & Hy & Hay).
          assert (Hpk' : par k' = Some j) by now apply (wf_children c W).
          pose proof (X_dom j k' y Hk Hpk' Hc Hx Hy Hay) as H0.
          assert (intersects es (desc c j) = true) by (apply Hes; exists k'; split; [exact Hk' | exact (inv_base _ _ _ _ _ _ HI k' H0)]).
          congruence.
    - intros Hnb. split.
      + apply not_true_is_false. intros E. apply Hnb. apply Hes in E as (k' & Hk' & He). exists k'. tauto.
      + destruct (bool_dec (intersects cfg (desc c j)) true) as [E|E]; [|left; now apply not_true_is_false]. right.
        destruct (bool_dec (intersects exitset (desc c j)) true) as [E2|E2]; [exact E2|]. exfalso. apply Hnb.
        apply Hcf in E as (k' & Hk' & Hc). exists k'. split; [exact Hk'|]. right. split; [exact Hc|].
        intros Hx. apply E2. apply HX. exists k'. split; [exact Hx|]. apply anc_parent. now apply (wf_children c W). }
  cbn beta in HB.
  set (B := existsb _ (fs_children (st c j))) in *.
  set (F := negb (intersects es (desc c j)) && _) in *.
  clearbody B F. destruct B, F.
  - exfalso. apply (proj1 HF eq_refl). now apply HB.
  - reflexivity.
  - f_equal. apply ee_union_absorb; [now apply ssorted_set_union|].
    intros a Ha. apply In_set_union. left.
    apply (wf_anc c W) in Ha. destruct (anc_child par _ _ _ Hpk Ha) as [->|Haj]; [exact Hm | exact (ee_inv_anc j es HI a j Haj Hm)].
  - exfalso. destruct (blocked_dec c cfg exitset es j) as [Hb|Hnb].
    + apply HB in Hb. discriminate.
    + apply HF in Hnb. discriminate.
Qed.

Theorem ee_entry_set_eq ts : fentry_set c cfg exitset hist tg ts = entry_set lg_fixed c cfg exitset hist tg ts.
Proof.
  unfold fentry_set, entry_set. change (fn c) with n. change (n_states c) with n.
  apply (ee_fold_seq_eq _ _ (fun j acc => INV j (fst acc) /\ ssorted (fst acc))).
  - cbn [fst]. split; [exact (Inv_0 c W cfg exitset tg tg_bound)|].
    unfold Large.add_ancestors. now apply ssorted_fold_union.
  - intros j [es ts'] _ Hj [HI Hs]. cbn [fst] in *. cbn [Nat.add] in Hj. split.
    + now apply ee_descend_eq.
    + split; [exact (Inv_step c W cfg exitset hist tg j es ts' Hj HI)|].
      exact (proj2 (descend_one_core c W cfg exitset hist es ts' j Hs)).
Qed.

End Entry.

(* ------------------------------------------------------------------ a microstep after a selection *)

Section Step.
Variable c : fchart.
Hypothesis W : WF c.
Variable cfg sel : list nat.
Hypothesis Hlegal : LegalCfg c cfg.
Hypothesis Hsel_src : forall ti, In ti sel -> In (ft_source (tr c ti)) cfg.
Hypothesis Hsel_ok : pairwise_ok lg_fixed c sel.
Notation Anc := (LegalAbstract.Anc (fun i => fs_parent (st c i))).

Lemma ee_sel_targets_sorted : ssorted (sel_targets c sel).
Proof. unfold sel_targets. apply ssorted_fold_union. exact I. Qed.

Lemma ee_sel_exitset_sorted : ssorted (sel_exitset c cfg sel).
Proof. unfold sel_exitset. apply ssorted_fold_union. exact I. Qed.

Theorem ee_entry_set_sel hist ts :
  fentry_set c cfg (sel_exitset c cfg sel) hist (sel_targets c sel) ts =
  entry_set lg_fixed c cfg (sel_exitset c cfg sel) hist (sel_targets c sel) ts.
Proof.
  destruct Hlegal as [Hleg Hbound].
  pose proof (In_exitset c W cfg sel Hleg Hbound Hsel_src) as HX.
  change (exitset c cfg sel) with (sel_exitset c cfg sel) in HX.
  apply ee_entry_set_eq; try assumption.
  - exact (targets_bound c W sel).
  - exact ee_sel_targets_sorted.
  - intros y p Hy Hp. exact (lg_parent _ _ _ _ Hleg y p Hy Hp).
  - intros y Hy. now apply HX in Hy.
  - intros i k y Hk Hpk Hkc Hkx Hy Hay.
    apply HX in Hy as [Hyc (d & HD & Hdy)].
    assert (Hic : In i cfg) by exact (lg_parent _ _ _ _ Hleg k i Hkc Hpk).
    (* the active child of i on the way to y is k *)
    destruct (ee_anc_first_child c i y Hay) as (k' & Hk' & Hrel).
    assert (Hk'c : In k' cfg) by (destruct Hrel as [->|Hrel]; [exact Hyc | exact (cfg_anc_closed c cfg Hleg y k' Hyc Hrel)]).
    assert (k' = k).
    { apply (lg_compound_uniq _ _ _ _ Hleg i k' k Hic Hk); try assumption; now apply (wf_children c W). }
    subst k'.
    assert (Hg : exists g, In g (sel_targets c sel) /\ Anc d g).
    { destruct HD as (ti & Hti & Hd).
      destruct (domain_spec c W ti d (Hbound _ (Hsel_src ti Hti)) Hd) as (Hne & _ & Htg & _).
      destruct (ft_targets (tr c ti)) as [|g gs] eqn:E; [congruence|]. exists g. split; [|apply Htg; now left].
      apply (In_targets c sel). exists ti. rewrite E. split; [exact Hti | now left]. }
    destruct Hg as (g & Hg & Hdg).
    assert (HdE : In d (E0 c (sel_targets c sel))) by (apply (In_E0 c W); exists g; tauto).
    assert (Hup : forall a, Anc a d -> In a (E0 c (sel_targets c sel))).
    { intros a Ha. apply (In_E0 c W). exists g. split; [exact Hg|]. right. exact (anc_trans c _ _ _ Ha Hdg). }
    destruct Hrel as [->|Hky].
    + exfalso. apply Hkx. apply HX. split; [exact Hyc|]. exists d. tauto.
    + destruct (anc_chain c d k y Hdy Hky) as [->|[Hdk|Hkd]].
      * exact HdE.
      * exfalso. apply Hkx. apply HX. split; [exact Hkc|]. exists d. tauto.
      * now apply Hup.
Qed.

End Step.

(* ------------------------------------------------------------------ the initial step *)

Section Initial.
Variable c : fchart.
Hypothesis W : WF c.
Hypothesis root_compound : fs_type (st c 0) = FCompound.

Theorem ee_entry_set_init hist ts :
  fentry_set c [] [] hist (fs_completion (st c 0)) ts = entry_set lg_fixed c [] [] hist (fs_completion (st c 0)) ts.
Proof.
  apply ee_entry_set_eq; try assumption.
  - exact (init_tg_bound c W root_compound).
  - destruct (wf_compound c W 0 root_compound) as (k & Hc & _). rewrite Hc. cbn. split; [intros ? [] | exact I].
  - intros y p [].
  - intros y [].
  - intros y [].
  - intros i k y _ _ [].
Qed.

End Initial.
