(* RunConformHistWf.v -- C01 on charts with <history> (wf_histb): the new static side conditions as booleans on the flat
   chart, and their soundness.
     targets_noinitb      no transition targets an <initial> element (a <history> target is allowed: this replaces
                          targets_properb of RunConformInitialWf.v)
     deep_cpl_fullb       the completion of a deep history holds every proper state below the history's parent
                          (what LargeMicroStep::init builds; a check on the tables, not on the document)
     (hist_target_localb: RunConformHistDom.v;  leaf_okb: EngineEquivDone.v)
   Definitions and proofs. *)
From V Require Import Base NameMatch Chart Exec Large LargeLemmas Spec Legal SetLemmas LegalAbstract LegalLarge WfCore
  SelectConform SelectConformLemmas SelectConformRoot MicroConform EngineEquivDone
  LegalHistBase LegalHistEntry LegalHistStep LegalHistWf RunConformInitialBase RunConformInitialWf RunConformHistRel.
Local Open Scope nat_scope.

Lemma nodupb_sound l : nodupb l = true -> NoDup l.
Proof.
  induction l as [|x r IH]; cbn [nodupb]; intros H; [constructor|].
  apply andb_true_iff in H as [A B']. constructor; [apply mem_false_In; now apply negb_true_iff | now apply IH].
Qed.

Section BoolsH.
Variable c : fchart.
Let n := nstates c.
Let kd (i : nat) := fs_type (st c i).

Definition targets_noinitb : bool :=
  forallb (fun ti => forallb (fun g => negb (is_initial_t (kd g))) (ft_targets (tr c ti))) (seq 0 (ntrans c)).

Definition deep_cpl_fullb : bool :=
  forallb (fun H => match kd H, fs_parent (st c H) with
                    | FHistDeep, Some q =>
                      forallb (fun x => negb (mem q (fs_ancestors (st c x))) || is_pseudo (kd x) || mem x (fs_completion (st c H))) (seq 0 n)
                    | _, _ => true
                    end) (seq 0 n).

Hypothesis W : WFH c.

Lemma tr_out_h ti : ntrans c <= ti -> tr c ti = dummy_trans.
Proof. intros H. unfold tr. now apply nth_overflow. Qed.

Lemma targets_noinitb_sound : targets_noinitb = true -> forall ti g, In g (ft_targets (tr c ti)) -> fs_type (st c g) <> FInitial.
Proof.
  intros H ti g Hg. destruct (Nat.lt_ge_cases ti (ntrans c)) as [Hlt|Hge].
  - unfold targets_noinitb in H. rewrite forallb_forall in H. specialize (H ti ltac:(apply in_seq; lia)).
    rewrite forallb_forall in H. specialize (H g Hg). unfold kd in H. intros E. rewrite E in H. discriminate.
  - rewrite (tr_out_h ti Hge) in Hg. destruct Hg.
Qed.

Lemma deep_cpl_fullb_sound : deep_cpl_fullb = true -> DeepFull c.
Proof.
  intros H Hs q x Hh Hd Hq Ha Hp.
  assert (Hsn : Hs < n) by (destruct (wh_par_lt c W _ _ Hq); assumption).
  unfold deep_cpl_fullb in H. rewrite forallb_forall in H. specialize (H Hs ltac:(apply in_seq; lia)).
  unfold deepS in Hd. unfold kd in H. rewrite Hq in H. destruct (fs_type (st c Hs)); try discriminate.
  rewrite forallb_forall in H. destruct (hanc_lt c W _ _ Ha) as [_ Hxn]. specialize (H x ltac:(apply in_seq; unfold n; lia)).
  unfold pseudoS in Hp. rewrite Hp, orb_false_r in H. apply orb_true_iff in H as [H|H]; [|now apply mem_In].
  exfalso. apply negb_true_iff, mem_false_In in H. apply H. now apply (wh_anc c W).
Qed.

(* atomic and final states have no children *)
Lemma leaf_okb_sound : leaf_okb c = true -> forall x k, is_atomic_state c x = true -> fs_parent (st c k) <> Some x.
Proof.
  intros H x k Ha Hk. destruct (wh_par_lt c W _ _ Hk) as [Hlt Hkn].
  unfold leaf_okb in H. rewrite forallb_forall in H. specialize (H x ltac:(apply in_seq; lia)).
  apply (wh_children c W) in Hk. unfold is_atomic_state, sty in Ha.
  destruct (fs_type (st c x)); try discriminate; destruct (fs_children (st c x)); try discriminate; destruct Hk.
Qed.

End BoolsH.
