(* CGenRefineMain.v -- C04: the data refinement between the two levels of CGen.v in the form stated in
   props/Properties_C04.v, its composition with the behaviour theorems of CGenEquivMain.v / CGenEquivHistMain.v (the
   set-level run against FastMicroStep and, under the guards of C03, LargeMicroStep): what the harness prints around the
   byte-level uscxml_step() over the emitted tables is what the interpreter's engines do; witnesses that the side
   condition on the tables is needed and satisfiable.
   Proofs only. *)
From V Require Import Base NameMatch Chart Exec Large LargeLemmas Fast Interp Legal SetLemmas LegalAbstract LegalLarge LegalRun GenCGen
                      WfCore CGen CGenLemmas SerializeCodecLemmas
                      LegalHistBase LegalHistEntry LegalHistStep LegalHistRun LegalHistWf LegalHistFastRun LegalHistCore
                      EngineEquivStep EngineEquivRun EngineEquivMain
                      CGenEquivContent CGenEquivEntry CGenEquivStep CGenEquivMicro CGenEquivRun CGenEquivMain CGenEquivWitness
                      CGenEquivHistMain CGenEquivHistWitness CGenEquivHist CGenEquivHistRun CGenEquivHistDefault EngineEquivHistRun EngineEquivHistMain
                      CGenRefineBits CGenRefineTables CGenRefineSelect CGenRefineEntry CGenRefineMicro CGenRefineInv CGenRefineStep
                      CGenRefineRun.
From Coq Require Import Lia.
Local Open Scope nat_scope.

(* ------------------------------------------------------------------ layer statements, unfolded *)

(* the set a byte array stands for, at the emitted width *)
Definition bits_abs (nb : nat) (a : barr) : list nat := of_bytes (8 * nb) a.

Theorem bit_algebra_lemma (site : N) (nb : nat) :
  (* membership *)
  (forall a idx, nb <= length a -> idx < 8 * nb -> bit_has site a idx = Ok (mem idx (bits_abs nb a))) /\
  (* BIT_SET_AT, BIT_CLEAR *)
  (forall m dst idx, nb <= length (get m dst) -> idx < 8 * nb ->
     okp (bit_set_at site m dst idx) (fun m' => frame m m' dst /\ bits_abs nb (get m' dst) = insert_sorted idx (bits_abs nb (get m dst)))) /\
  (forall m dst idx, nb <= length (get m dst) -> idx < 8 * nb ->
     okp (bit_clear site m dst idx) (fun m' => frame m m' dst /\ bits_abs nb (get m' dst) = set_remove idx (bits_abs nb (get m dst)))) /\
  (* bit_or, bit_and, bit_and_not, bit_copy, bit_clear_all on the nb low bytes *)
  (forall m dst src, nb <= length (get m dst) -> nb <= length src ->
     okp (bit_or site m dst src nb) (fun m' => frame m m' dst /\ bits_abs nb (get m' dst) = set_union (bits_abs nb (get m dst)) (bits_abs nb src))) /\
  (forall m dst src, nb <= length (get m dst) -> nb <= length src ->
     okp (bit_and site m dst src nb) (fun m' => frame m m' dst /\ bits_abs nb (get m' dst) = set_inter (bits_abs nb (get m dst)) (bits_abs nb src))) /\
  (forall m dst src, nb <= length (get m dst) -> nb <= length src ->
     okp (bit_and_not site m dst src nb) (fun m' => frame m m' dst /\ bits_abs nb (get m' dst) = set_diff (bits_abs nb (get m dst)) (bits_abs nb src))) /\
  (forall m dst src, nb <= length (get m dst) -> nb <= length src ->
     okp (bit_copy site m dst src nb) (fun m' => frame m m' dst /\ bits_abs nb (get m' dst) = bits_abs nb src)) /\
  (forall m dst, nb <= length (get m dst) ->
     okp (bit_clear_all site m dst nb) (fun m' => frame m m' dst /\ bits_abs nb (get m' dst) = [])) /\
  (* whole-byte tests: one operand an unsigned char array *)
  (forall a b, nb <= length a -> nb <= length b -> small a \/ small b ->
     bit_has_and site a b nb = Ok (intersects (bits_abs nb a) (bits_abs nb b))) /\
  (forall a, nb <= length a -> small a ->
     bit_has_any site a nb = Ok (match bits_abs nb a with [] => false | _ => true end)) /\
  (* the rows of the emitted tables *)
  (forall row, small (to_bytes nb row) /\ forall j, mem j (bits_abs nb (to_bytes nb row)) = (j <? 8 * nb) && mem j row).
Proof.
  unfold bits_abs. repeat split.
  - intros a idx Ha Hi. now apply (srep_bit_has site nb a _ idx (srep_of_rep _ _ _ eq_refl)).
  - intros m dst idx Hl Hi. eapply okp_weaken; [apply (rep_bit_set_at site nb m dst _ idx eq_refl Hi Hl)|]. intros m' [F R]. split; [exact F | now symmetry].
  - intros m dst idx Hl Hi. eapply okp_weaken; [apply (rep_bit_clear site nb m dst _ idx eq_refl Hi Hl)|]. intros m' [F R]. split; [exact F | now symmetry].
  - intros m dst src Hd Hs. eapply okp_weaken; [apply (rep_bit_or site nb m dst src _ _ eq_refl (srep_of_rep _ _ _ eq_refl) Hd Hs)|]. intros m' [F R]. split; [exact F | now symmetry].
  - intros m dst src Hd Hs. eapply okp_weaken; [apply (rep_bit_and site nb m dst src _ _ eq_refl (srep_of_rep _ _ _ eq_refl) Hd Hs)|]. intros m' [F R]. split; [exact F | now symmetry].
  - intros m dst src Hd Hs. eapply okp_weaken; [apply (rep_bit_and_not site nb m dst src _ _ eq_refl (srep_of_rep _ _ _ eq_refl) Hd Hs)|]. intros m' [F R]. split; [exact F | now symmetry].
  - intros m dst src Hd Hs. eapply okp_weaken; [apply (rep_bit_copy site nb m dst src _ eq_refl Hd Hs)|]. intros m' [F R]. split; [exact F | now symmetry].
  - intros m dst Hd. eapply okp_weaken; [apply (rep_bit_clear_all site nb m dst Hd)|]. intros m' [F R]. split; [exact F | now symmetry].
  - intros a b Ha Hb Sm. apply (srep_bit_has_and site nb a b _ _ (srep_of_rep _ _ _ eq_refl) (srep_of_rep _ _ _ eq_refl) Ha Hb Sm).
  - intros a Ha Sm. apply (srep_bit_has_any site nb a _ (srep_of_rep _ _ _ eq_refl) Ha Sm).
  - apply small_to_bytes.
  - intros j. rewrite mem_of_bytes, tbit_to_bytes. destruct (j <? 8 * nb); reflexivity.
Qed.

(* one call of uscxml_step() *)
Theorem b_step_refines_cgen_step_lemma cv c :
  (N.of_nat (nstates c) < 2 ^ 24)%N -> (N.of_nat (ntrans c) < 2 ^ 24)%N -> bref_chartb c = true ->
  forall fuel (s : bst benv) (l : lstate) (x : cx),
    brel c s l x -> 1 + length (cx_iq x) + length (cx_eq x) < fuel ->
    exists s' rc, h_step cv c fuel s = Ok (s', rc) /\
                  brel c s' (fst (fst (cgen_step cv c l x))) (snd (fst (cgen_step cv c l x))) /\
                  rc = snd (cgen_step cv c l x).
Proof.
  intros Hs Ht Hok fuel s l x B Hf. pose proof (step_ref cv c Hs Ht Hok fuel s l x B Hf) as St.
  apply okp_inv in St as ([s' rc] & E & B' & Hrc). exists s', rc. auto.
Qed.

(* ------------------------------------------------------------------ the configuration reported after the last call *)
Fixpoint newest_cfg (out : list ctok) : option (list N) :=
  match out with
  | CCfg g :: _ => Some g
  | _ :: r => newest_cfg r
  | [] => None
  end.

Lemma crun_newest_cfg cv c : forall n l x evs,
  newest_cfg (cx_out x) = Some (sids c (l_cfg l)) ->
  newest_cfg (cx_out (snd (crun_loop cv c n l x evs))) = Some (sids c (l_cfg (fst (crun_loop cv c n l x evs)))).
Proof.
  induction n as [|n IH]; intros l x evs H; cbn [crun_loop]; [exact H|].
  destruct (cgen_step cv c l x) as [[l1 x1] rc].
  destruct (rc =? C_ERR_DONE)%N; [reflexivity|].
  destruct (rc =? C_ERR_IDLE)%N.
  - destruct evs as [|e r]; [reflexivity|]. apply IH. reflexivity.
  - apply IH. reflexivity.
Qed.

Lemma crun_newest_cfg_pos cv c n l x evs :
  newest_cfg (cx_out (snd (crun_loop cv c (S n) l x evs))) = Some (sids c (l_cfg (fst (crun_loop cv c (S n) l x evs)))).
Proof.
  cbn [crun_loop]. destruct (cgen_step cv c l x) as [[l1 x1] rc].
  destruct (rc =? C_ERR_DONE)%N; [reflexivity|].
  destruct (rc =? C_ERR_IDLE)%N.
  - destruct evs as [|e r]; [reflexivity|]. apply crun_newest_cfg. reflexivity.
  - apply crun_newest_cfg. reflexivity.
Qed.

(* ------------------------------------------------------------------ composition with the behaviour theorems *)
(* what is observed of the byte-level run: how it ended, the events handed to the selection, the configuration after
   the last call (state ids) *)
Definition b_observed (r : list ctok * brun_end) : brun_end * list bytes * option (list N) :=
  (snd r, filter_map cview (rev (fst r)), newest_cfg (rev (fst r))).

Section Compose.
Variable cv : cg_variant.
Variable c : fchart.
Hypothesis Hns : (N.of_nat (nstates c) < 2 ^ 24)%N.
Hypothesis Hnt : (N.of_nat (ntrans c) < 2 ^ 24)%N.
Hypothesis Hok : bref_chartb c = true.

Lemma observed_of_set_level n evs :
  let rb := brun_loop cv c (bmachine_of cv c) (S n) (bst_init c) evs in
  let rc := crun_loop cv c (S n) l_pristine cx_init evs in
  fst rb = rev (cx_out (snd rc)) /\
  b_observed rb = (BEnd, filter_map cview (cx_out (snd rc)), Some (sids c (l_cfg (fst rc)))).
Proof.
  cbv zeta. rewrite (run_refines cv c Hns Hnt Hok (S n) evs). cbn [fst snd]. split; [reflexivity|].
  unfold b_observed. cbn [fst snd]. rewrite rev_involutive, crun_newest_cfg_pos. reflexivity.
Qed.

Lemma compose_engine {S} (step : S -> xstate -> S * xstate * N) (cfg_of : S -> list nat) (s0 : S) n evs :
  (exists m, let rc := crun_loop cv c (Datatypes.S n) l_pristine cx_init evs in
             let rf := run_loop c S step cfg_of m s0 x_init evs in
             cfg_of (fst rf) = l_cfg (fst rc) /\ filter_map cview (cx_out (snd rc)) = filter_map fview (x_out (snd rf))) ->
  exists m, let rf := run_loop c S step cfg_of m s0 x_init evs in
            b_observed (brun_loop cv c (bmachine_of cv c) (Datatypes.S n) (bst_init c) evs) =
            (BEnd, filter_map fview (x_out (snd rf)), Some (sids c (cfg_of (fst rf)))).
Proof.
  intros (m & A & B). exists m. cbv zeta in *. destruct (observed_of_set_level n evs) as [_ O]. cbv zeta in O.
  rewrite O, A, B. reflexivity.
Qed.

End Compose.

(* byte-level run = fast engine run: the history-free core, every variant of the template with the repaired
   top-level-final test *)
Theorem emitted_c_run_is_fast_engine_run_lemma cv xv c :
  (N.of_nat (nstates c) < 2 ^ 24)%N -> (N.of_nat (ntrans c) < 2 ^ 24)%N -> bref_chartb c = true ->
  cg_tlf_first_byte cv = false -> wf_coreb c = true -> fs_type (st c 0) = FCompound -> chart_c c = true ->
  forall n evs, Forall (fun e => e <> []) evs ->
  exists m,
    let rf := run_loop c lstate (fast_step xv c) l_cfg m l_pristine x_init evs in
    b_observed (brun_loop cv c (bmachine_of cv c) (S n) (bst_init c) evs) =
    (BEnd, filter_map fview (x_out (snd rf)), Some (sids c (l_cfg (fst rf)))).
Proof.
  intros Hs Ht Hok Htl Hw Hr Hc n evs Hev. apply (compose_engine cv c Hs Ht Hok).
  destruct (cstep_run_equiv_lemma cv xv c Htl Hw Hr Hc (S n) evs Hev) as (m & [A _] & (_ & _ & B)). exists m. cbv zeta. split; [now symmetry | exact B].
Qed.

(* ... charts with <initial> elements and <history>, the repaired template *)
Theorem emitted_c_run_is_fast_engine_run_history_lemma cv xv c :
  (N.of_nat (nstates c) < 2 ^ 24)%N -> (N.of_nat (ntrans c) < 2 ^ 24)%N -> bref_chartb c = true ->
  cv_repaired cv -> hist_hyps c ->
  forall n evs, Forall (fun e => e <> []) evs ->
  exists m,
    let rf := run_loop c lstate (fast_step xv c) l_cfg m l_pristine x_init evs in
    b_observed (brun_loop cv c (bmachine_of cv c) (S n) (bst_init c) evs) =
    (BEnd, filter_map fview (x_out (snd rf)), Some (sids c (l_cfg (fst rf)))).
Proof.
  intros Hs Ht Hok Hcv Hh n evs Hev. apply (compose_engine cv c Hs Ht Hok).
  destruct (cstep_run_equiv_history_lemma cv xv c Hcv Hh (S n) evs Hev) as (m & [A _] & (_ & _ & B)). exists m. cbv zeta. split; [now symmetry | exact B].
Qed.

(* ... and the interpreter's default engine, along runs on which the guard of C03 holds *)
Theorem emitted_c_run_is_default_engine_run_partial_lemma cv xv c :
  (N.of_nat (nstates c) < 2 ^ 24)%N -> (N.of_nat (ntrans c) < 2 ^ 24)%N -> bref_chartb c = true ->
  cg_tlf_first_byte cv = false -> eq_chartb c = true -> chart_c c = true ->
  forall evs, Forall (fun e => e <> []) evs ->
  (forall m, eq_guard_run xv c m l_pristine x_init evs = true) ->
  forall n, exists m,
    let rl := run_loop c lstate (large_step lg_fixed xv c) l_cfg m l_pristine x_init evs in
    b_observed (brun_loop cv c (bmachine_of cv c) (S n) (bst_init c) evs) =
    (BEnd, filter_map fview (x_out (snd rl)), Some (sids c (l_cfg (fst rl)))).
Proof.
  intros Hs Ht Hok Htl He Hc evs Hev Hg n. apply (compose_engine cv c Hs Ht Hok).
  destruct (cstep_run_equals_default_engine_partial_lemma cv xv c Htl He Hc evs Hev Hg (S n)) as (m & [A _] & (_ & _ & B)).
  exists m. cbv zeta. split; [now symmetry | exact B].
Qed.

Theorem emitted_c_run_is_default_engine_run_history_partial_lemma cv xv c :
  (N.of_nat (nstates c) < 2 ^ 24)%N -> (N.of_nat (ntrans c) < 2 ^ 24)%N -> bref_chartb c = true ->
  cv_repaired cv -> eq_chartb_hist c = true -> chart_c c = true -> chart_h c = true ->
  forall evs, Forall (fun e => e <> []) evs ->
  (forall m, eq_guard_run_hist xv c m l_pristine x_init evs = true) ->
  forall n, exists m,
    let rl := run_loop c lstate (large_step lg_fixed xv c) l_cfg m l_pristine x_init evs in
    b_observed (brun_loop cv c (bmachine_of cv c) (S n) (bst_init c) evs) =
    (BEnd, filter_map fview (x_out (snd rl)), Some (sids c (l_cfg (fst rl)))).
Proof.
  intros Hs Ht Hok Hcv He Hc Hh evs Hev Hg n. apply (compose_engine cv c Hs Ht Hok).
  destruct (cstep_run_equals_default_engine_history_partial_lemma cv xv c Hcv He Hc Hh evs Hev Hg (S n)) as (m & [A _] & (_ & _ & B)).
  exists m. cbv zeta. split; [now symmetry | exact B].
Qed.

(* ------------------------------------------------------------------ the side conditions: satisfiable, and needed *)

(* documents with a <parallel> state, nested compounds and <final> states (cx_tree), with deep and shallow <history> and
   an <initial> element (hx_tree, w_nested_hist) pass the check of the tables; the theorems apply to them *)
Example refinement_hypotheses_satisfiable :
  bref_chartb (flatten false cx_tree) = true /\ bref_chartb (flatten false hx_tree) = true /\
  bref_chartb (flatten false w_nested_hist) = true /\ bref_chartb (flatten false w_tlf_byte) = true /\
  (N.of_nat (nstates (flatten false cx_tree)) < 2 ^ 24)%N /\ (N.of_nat (ntrans (flatten false cx_tree)) < 2 ^ 24)%N /\
  (N.of_nat (nstates (flatten false hx_tree)) < 2 ^ 24)%N /\ (N.of_nat (ntrans (flatten false hx_tree)) < 2 ^ 24)%N /\
  run_bgen cg_repaired cx_tree cx_events 9 = (run_cgen cg_repaired cx_tree cx_events 9, BEnd) /\
  run_bgen cg_emitted hx_tree hx_events 13 = (run_cgen cg_emitted hx_tree hx_events 13, BEnd) /\
  existsb (fun t => match t with CDone _ => true | _ => false end) (fst (run_bgen cg_repaired cx_tree cx_events 9)) = true /\
  existsb (fun s => match fs_type s with FParallel => true | _ => false end) (fc_states (flatten false cx_tree)) = true.
Proof.
  assert (A : bref_chartb (flatten false cx_tree) = true) by (vm_compute; reflexivity).
  assert (B : bref_chartb (flatten false hx_tree) = true) by (vm_compute; reflexivity).
  assert (S1 : (N.of_nat (nstates (flatten false cx_tree)) < 2 ^ 24)%N) by (vm_compute; reflexivity).
  assert (T1 : (N.of_nat (ntrans (flatten false cx_tree)) < 2 ^ 24)%N) by (vm_compute; reflexivity).
  assert (S2 : (N.of_nat (nstates (flatten false hx_tree)) < 2 ^ 24)%N) by (vm_compute; reflexivity).
  assert (T2 : (N.of_nat (ntrans (flatten false hx_tree)) < 2 ^ 24)%N) by (vm_compute; reflexivity).
  pose proof (run_bgen_is_run_cgen cg_repaired cx_tree cx_events 9 S1 T1 A) as R1.
  pose proof (run_bgen_is_run_cgen cg_emitted hx_tree hx_events 13 S2 T2 B) as R2.
  repeat split; try assumption; try (vm_compute; reflexivity).
Qed.

(* the check of the tables cannot be dropped: a document whose root is a <final> naming itself as initial state.  The
   emitted test `parent == 0` takes the root for a top-level final state (its parent field is 0 for want of a parent),
   the set level (ancestors = {root}) does not: the second call answers USCXML_ERR_DONE at byte level, _IDLE at set level *)
Definition w_root_final : tree := TNode KFinal 0 (Some [0%N]) [] [] [] [] [].

Lemma refinement_needs_table_check_refuted :
  bref_chartb (flatten false w_root_final) = false /\
  (N.of_nat (nstates (flatten false w_root_final)) < 2 ^ 24)%N /\ (N.of_nat (ntrans (flatten false w_root_final)) < 2 ^ 24)%N /\
  run_bgen cg_repaired w_root_final [] 2 <> (run_cgen cg_repaired w_root_final [] 2, BEnd) /\
  fst (run_bgen cg_repaired w_root_final [] 2) = [CRet 0; CCfg [0%N]; CHist []; CRet 2; CCfg [0%N]; CHist []] /\
  run_cgen cg_repaired w_root_final [] 2 = [CRet 0; CCfg [0%N]; CHist []; CRet 1; CCfg [0%N]; CHist []].
Proof. vm_compute. repeat split; try reflexivity. discriminate. Qed.

(* the relation of one call needs "a context that was never stepped has an empty configuration" (part of brel, through
   CGenRefineInv.linv): uscxml_step() as modelled at byte level does not clear exit_set on its first call (the local array
   holds whatever the stack holds, here 0xAA), and EXIT_STATES exits every active state whose bit is set there.  With the
   zeroed context of the harness nothing is active; with a pristine context whose config is {root, s3} the byte level
   exits s3, the set level (exit set {}) does not. *)
Definition w_three : tree := inner KScxml 0 [] [leaf KState 1 []; leaf KState 2 []; leaf KState 3 []].

Lemma first_call_needs_empty_config_refuted :
  let c := flatten false w_three in
  let l := {| l_cfg := [0; 3]; l_hist := []; l_initd := []; l_spont := false; l_init := false; l_tlf := false;
              l_fin := false; l_stable := false; l_cancelled := false |} in
  let s := {| b_mem := upd (mem_init c) A_CONFIG [9%N]; b_flags := CG_CTX_PRISTINE; b_env := {| be_x := cx_init; be_ev := [] |} |} in
  bref_chartb c = true /\ mem_shape c (b_mem benv s) /\
  rep (8 * m_maxs c) (get (b_mem benv s) A_CONFIG) (l_cfg l) /\ rep (8 * m_maxs c) (get (b_mem benv s) A_HISTORY) (l_hist l) /\
  b_flags benv s = flags_l l /\ is_pristine l = true /\
  exists s' rc, h_step cg_repaired c 2 s = Ok (s', rc) /\
                of_bytes (nstates c) (get (b_mem benv s') A_CONFIG) = [0; 1] /\
                l_cfg (fst (fst (cgen_step cg_repaired c l cx_init))) = [0; 1; 3].
Proof.
  cbv zeta. split; [vm_compute; reflexivity|]. split; [vm_compute; reflexivity|].
  split; [vm_compute; reflexivity|]. split; [vm_compute; reflexivity|]. split; [reflexivity|]. split; [reflexivity|].
  eexists. eexists. split; [vm_compute; reflexivity|]. split; vm_compute; reflexivity.
Qed.
