(* DeterminismLemmas.v -- C20: proofs about Determinism.v and about the regenerated inventory GenEnvDeps.v.

   Reading guide.  `env` lists the process-dependent inputs; the theorems are noninterference statements: two
   arbitrary environments give the same emitted text / the same trace.  They are proved for every variant in which
   the corresponding switch is off (the repaired code) and refuted, with two concrete environments, for every
   variant in which it is on (the code as pinned).  A Gallina function cannot depend on anything that is not an
   argument, so these theorems say nothing about a source of nondeterminism that `env` does not list: that part of
   C20 is carried by the multi-process byte comparison of tools/props/c20.py (partial by nature). *)
From Coq Require Import List NArith Bool Arith Lia.
From V Require Import Base GenEnvDeps Determinism.
Import ListNotations.
Local Open Scope N_scope.

(* ------------------------------------------------------------------ generic list facts *)

Lemma det_beq_bytes_eq : forall a b, beq_bytes a b = true <-> a = b.
Proof.
  induction a as [|x a IH]; destruct b as [|y b]; simpl; split; intro H; try congruence; try reflexivity.
  - apply andb_true_iff in H. destruct H as [H1 H2]. apply N.eqb_eq in H1. apply IH in H2. congruence.
  - inversion H; subst. rewrite N.eqb_refl. simpl. apply IH. reflexivity.
Qed.

Lemma flat_map_ext_in : forall (A B : Type) (f g : A -> list B) (l : list A),
  (forall x, In x l -> f x = g x) -> flat_map f l = flat_map g l.
Proof.
  induction l as [|x l IH]; intro H; simpl; [reflexivity|].
  rewrite (H x (or_introl eq_refl)). rewrite IH; [reflexivity|]. intros y Hy. apply H. right. exact Hy.
Qed.

Lemma map_ext_in' : forall (A B : Type) (f g : A -> B) (l : list A),
  (forall x, In x l -> f x = g x) -> map f l = map g l.
Proof.
  induction l as [|x l IH]; intro H; simpl; [reflexivity|].
  rewrite (H x (or_introl eq_refl)). rewrite IH; [reflexivity|]. intros y Hy. apply H. right. exact Hy.
Qed.

Lemma app_eq_len : forall (A : Type) (a b x y : list A),
  length a = length b -> a ++ x = b ++ y -> a = b /\ x = y.
Proof.
  induction a as [|h a IH]; destruct b as [|k b]; simpl; intros x y Hl H; try discriminate.
  - split; [reflexivity|exact H].
  - inversion H; subst. inversion Hl as [Hl']. destruct (IH b x y Hl' H2) as [E1 E2]. subst. split; reflexivity.
Qed.

Lemma in_indexed_snd : forall (A : Type) (l : list A) (x : nat * A), In x (indexed l) -> In (snd x) l.
Proof.
  intros A l [k a] H. unfold indexed in H. apply in_combine_r in H. exact H.
Qed.

(* ------------------------------------------------------------------ has_ids *)

Lemma has_ids_invokes : forall doc p, has_ids doc = true -> In p (m_invokes doc) -> exists i, fst p = Some i.
Proof.
  intros [t ev li invs] p H Hin. simpl in *.
  induction invs as [|[oid sub] r IH]; simpl in *; [contradiction|].
  destruct oid as [i|]; [|discriminate].
  apply andb_true_iff in H. destruct H as [_ H].
  destruct Hin as [E|Hin]; [subst p; exists i; reflexivity|]. apply IH; assumption.
Qed.

(* ------------------------------------------------------------------ std::set / std::map models *)

Lemma set_insert_in : forall x y l, In y (set_insert x l) <-> y = x \/ In y l.
Proof.
  intros x y l. induction l as [|z l IH]; simpl.
  - split; intros [H|H]; auto; contradiction.
  - destruct (bytes_ltb x z) eqn:Elt.
    + simpl. split; intros [H|H]; auto.
    + destruct (beq_bytes x z) eqn:Eeq.
      * apply det_beq_bytes_eq in Eeq. subst z. simpl. split; [intros [H|H]; auto|intros [H|[H|H]]; auto].
      * simpl. rewrite IH. split; [intros [H|[H|H]]; auto|intros [H|[H|H]]; auto].
Qed.

Lemma set_of_in_gen : forall l acc y, In y (fold_left (fun s x => set_insert x s) l acc) <-> In y l \/ In y acc.
Proof.
  induction l as [|x l IH]; intros acc y; simpl.
  - split; [auto|intros [H|H]; [contradiction|exact H]].
  - rewrite IH. rewrite set_insert_in. split; [intros [H|[H|H]]; auto|intros [[H|H]|H]; auto].
Qed.

Lemma set_of_in : forall l y, In y (set_of l) <-> In y l.
Proof.
  intros l y. unfold set_of. rewrite set_of_in_gen. simpl. split; [intros [H|H]; [exact H|contradiction]|auto].
Qed.

(* the std::map model: iteration is in strictly ascending address order, whatever the insertion order *)
Inductive keys_ascending {A : Type} : list (N * A) -> Prop :=
| ka_nil : keys_ascending []
| ka_one : forall x, keys_ascending [x]
| ka_cons : forall x y l, fst x < fst y -> keys_ascending (y :: l) -> keys_ascending (x :: y :: l).

Lemma addr_insert_head : forall (A : Type) k (v : A) l,
  l <> [] -> exists y r, addr_insert k v l = y :: r /\ (fst y = k \/ (fst y < k /\ exists r', l = y :: r')).
Proof.
  intros A k v l Hl. destruct l as [|[k' v'] r]; [contradiction|]. simpl.
  destruct (k <? k') eqn:E1.
  - exists (k, v), ((k', v') :: r). split; [reflexivity|left; reflexivity].
  - destruct (k =? k') eqn:E2.
    + exists (k, v), r. split; [reflexivity|left; reflexivity].
    + exists (k', v'), (addr_insert k v r). split; [reflexivity|]. right. simpl.
      apply N.ltb_ge in E1. apply N.eqb_neq in E2. split; [lia|exists r; reflexivity].
Qed.

Lemma addr_insert_ascending : forall (A : Type) k (v : A) l,
  keys_ascending l -> keys_ascending (addr_insert k v l).
Proof.
  intros A k v l H. induction H as [|[k' v']|[k1 v1] [k2 v2] l Hlt Hs IH]; simpl.
  - constructor.
  - destruct (k <? k') eqn:E1; [constructor; [simpl; apply N.ltb_lt; exact E1|constructor]|].
    destruct (k =? k') eqn:E2; [constructor|].
    apply N.ltb_ge in E1. apply N.eqb_neq in E2. constructor; [simpl; lia|constructor].
  - simpl in *. destruct (k <? k1) eqn:E1.
    + constructor; [simpl; apply N.ltb_lt; exact E1|]. constructor; assumption.
    + destruct (k =? k1) eqn:E2.
      * apply N.eqb_eq in E2. subst k1. constructor; assumption.
      * apply N.ltb_ge in E1. apply N.eqb_neq in E2.
        destruct (k <? k2) eqn:E3.
        -- constructor; [simpl; lia|]. constructor; [simpl; apply N.ltb_lt; exact E3|exact Hs].
        -- destruct (k =? k2) eqn:E4.
           ++ apply N.eqb_eq in E4. subst k2. constructor; [simpl; lia|].
              exact IH.
           ++ constructor; [simpl; exact Hlt|exact IH].
Qed.

Lemma addr_map_ascending : forall (A : Type) (l : list (N * A)), keys_ascending (addr_map l).
Proof.
  intros A l. unfold addr_map.
  assert (G : forall acc, keys_ascending acc -> keys_ascending (fold_left (fun s kv => addr_insert (fst kv) (snd kv) s) l acc)).
  { induction l as [|x l IH]; intros acc Ha; simpl; [exact Ha|]. apply IH. apply addr_insert_ascending. exact Ha. }
  apply G. constructor.
Qed.

(* ------------------------------------------------------------------ noninterference of the generators *)

Section Proofs.
  Variable md5 : bytes -> bytes.
  Variable macro_name : bytes -> bytes.
  Variable render_c : machine -> list bytes -> bytes.
  Variable render_pml : machine -> list bytes -> list bytes -> list bytes -> bytes.
  Variable render_vhdl : machine -> list bytes -> bytes.
  Variable compute_tables : bytes -> list (list bool).
  Variable interp : list (list bool) -> bytes -> list bytes -> bytes.

  Lemma event_order_env_independent : forall v e1 e2 doc,
    v_trie_ptr_merge v = false -> event_order v e1 doc = event_order v e2 doc.
  Proof. intros v e1 e2 doc Hv. unfold event_order. rewrite Hv. reflexivity. Qed.

  Lemma c_skeleton_env_independent : forall v e1 e2 doc,
    v_c_prefix_ptr v = false -> c_skeleton md5 v e1 doc = c_skeleton md5 v e2 doc.
  Proof.
    intros v e1 e2 doc Hv. unfold c_skeleton, c_prefix, doc_md5. rewrite Hv. reflexivity.
  Qed.

  Lemma invoke_id_env_independent : forall e1 e2 k i, invoke_id e1 k (Some i) = invoke_id e2 k (Some i).
  Proof. reflexivity. Qed.

  Lemma pml_literals_env_independent : forall v e1 e2 doc,
    v_pml_prefix_leak v = false -> has_ids doc = true ->
    pml_literals md5 macro_name v e1 doc = pml_literals md5 macro_name v e2 doc.
  Proof.
    intros v e1 e2 doc Hv Hids. unfold pml_literals. f_equal. f_equal.
    apply flat_map_ext_in. intros [k [oid m]] Hin.
    apply in_indexed_snd in Hin. simpl in Hin.
    destruct (has_ids_invokes doc (oid, m) Hids Hin) as [i Hi]. simpl in Hi. subst oid.
    unfold pml_analysis_prefix. rewrite Hv. reflexivity.
  Qed.

  Lemma pml_blocks_env_independent : forall v e1 e2 doc,
    v_pml_ptr_order v = false -> has_ids doc = true ->
    pml_blocks macro_name v e1 doc = pml_blocks macro_name v e2 doc.
  Proof.
    intros v e1 e2 doc Hv Hids. unfold pml_blocks. rewrite Hv. simpl. f_equal.
    rewrite !map_map. apply map_ext_in'. intros [k [oid m]] Hin.
    apply in_indexed_snd in Hin. simpl in Hin.
    destruct (has_ids_invokes doc (oid, m) Hids Hin) as [i Hi]. simpl in Hi. subst oid. reflexivity.
  Qed.

  Lemma escape_macro_env_independent : forall v e1 e2 s,
    v_vhdl_std_hash v = false -> escape_macro v e1 s = escape_macro v e2 s.
  Proof. intros v e1 e2 s Hv. unfold escape_macro. rewrite Hv. reflexivity. Qed.

  Lemma escape_macro_same_hash : forall v e1 e2 s,
    (forall x, std_hash e1 x = std_hash e2 x) -> escape_macro v e1 s = escape_macro v e2 s.
  Proof. intros v e1 e2 s H. unfold escape_macro. rewrite H. reflexivity. Qed.

  Lemma vhdl_signals_env_independent : forall v e1 e2 doc,
    v_vhdl_std_hash v = false -> v_trie_ptr_merge v = false -> vhdl_signals v e1 doc = vhdl_signals v e2 doc.
  Proof.
    intros v e1 e2 doc Hv Ht. unfold vhdl_signals. rewrite (event_order_env_independent v e1 e2 doc Ht).
    apply map_ext. intro s. apply escape_macro_env_independent. exact Hv.
  Qed.

  (* C20, transformation part, at full strength: any two environments (address-space layouts, std::hash
     implementations, random generators, cache directories) give byte-identical text for every back-end *)
  Definition transform_env_independent_statement (v : variant) : Prop :=
    forall e1 e2 doc url, has_ids doc = true ->
      gen_c md5 render_c v e1 doc url = gen_c md5 render_c v e2 doc url /\
      gen_pml md5 macro_name render_pml v e1 doc url = gen_pml md5 macro_name render_pml v e2 doc url /\
      gen_vhdl render_vhdl v e1 doc url = gen_vhdl render_vhdl v e2 doc url.

  Lemma transform_env_independent_lemma : forall v, transform_clean v = true -> transform_env_independent_statement v.
  Proof.
    intros v Hc e1 e2 doc url Hids. unfold transform_clean in Hc.
    repeat (apply andb_true_iff in Hc; destruct Hc as [Hc ?]).
    apply negb_true_iff in Hc. repeat match goal with H : negb _ = true |- _ => apply negb_true_iff in H end.
    unfold gen_c, gen_pml, gen_vhdl. repeat split.
    - rewrite (c_skeleton_env_independent v e1 e2 doc); [reflexivity|assumption].
    - rewrite (pml_literals_env_independent v e1 e2 doc), (pml_blocks_env_independent v e1 e2 doc),
        (event_order_env_independent v e1 e2 doc); try assumption. reflexivity.
    - rewrite (vhdl_signals_env_independent v e1 e2 doc); [reflexivity|assumption|assumption].
  Qed.

  (* per back-end: only the switch of that back-end has to be off *)
  Lemma gen_c_env_independent : forall v e1 e2 doc url, v_c_prefix_ptr v = false ->
    gen_c md5 render_c v e1 doc url = gen_c md5 render_c v e2 doc url.
  Proof. intros. unfold gen_c. rewrite (c_skeleton_env_independent v e1 e2 doc); [reflexivity|assumption]. Qed.

  Lemma gen_pml_env_independent : forall v e1 e2 doc url,
    v_pml_prefix_leak v = false -> v_pml_ptr_order v = false -> v_trie_ptr_merge v = false -> has_ids doc = true ->
    gen_pml md5 macro_name render_pml v e1 doc url = gen_pml md5 macro_name render_pml v e2 doc url.
  Proof.
    intros. unfold gen_pml.
    rewrite (pml_literals_env_independent v e1 e2 doc), (pml_blocks_env_independent v e1 e2 doc),
      (event_order_env_independent v e1 e2 doc); try assumption. reflexivity.
  Qed.

  (* the VHDL back-end once the trie appends instead of merging by address: independent of layout, random
     generator and cache; it depends on nothing but the C++ library's std::hash (same library => same bytes) *)
  Lemma gen_vhdl_env_independent_partial : forall v e1 e2 doc url,
    v_trie_ptr_merge v = false ->
    (forall x, std_hash e1 x = std_hash e2 x) ->
    gen_vhdl render_vhdl v e1 doc url = gen_vhdl render_vhdl v e2 doc url.
  Proof.
    intros v e1 e2 doc url Ht H. unfold gen_vhdl, vhdl_signals. f_equal.
    rewrite (event_order_env_independent v e1 e2 doc Ht). apply map_ext. intro s.
    apply escape_macro_same_hash. exact H.
  Qed.

  (* ---------------------------------------------------------------- refutations: two concrete environments *)

  (* a concrete injective layout: documents, <scxml> and <invoke> elements at distinct offsets from `base` *)
  Definition lay (base : N) (o : obj) : N :=
    base + match o with
           | (KDoc, []) => 0
           | (KScxml, []) => 48
           | (KInvoke, [k]) => 4096 + 256 * N.of_nat k
           | (KDoc, [k]) => 1048576 + 65536 * N.of_nat k
           | (KScxml, [k]) => 1048576 + 65536 * N.of_nat k + 48
           | (KTrieNode, [k]) => 8388608 + 48 * N.of_nat k
           | _ => 0
           end.
  Definition env_at (base : N) : env := mkEnv (lay base) (fun _ => 119) (fun _ => []) no_cache.

  Definition doc0 : machine := Machine [] [] [] [].
  Definition id_i : bytes := [105].
  Definition doc1 : machine := Machine [] [] [] [(Some id_i, doc0)].
  Definition objs0 : list obj := [(KDoc, []); (KScxml, [])].
  Definition objs1 : list obj := objs0 ++ [(KInvoke, [0%nat]); (KDoc, [0%nat]); (KScxml, [0%nat])].

  Lemma lay_injective1 : forall base, addr_injective_on (env_at base) objs1.
  Proof.
    intros base a b Ha Hb. simpl in Ha, Hb.
    repeat (destruct Ha as [Ha|Ha]; [subst a|]); try contradiction;
    repeat (destruct Hb as [Hb|Hb]; [subst b|]); try contradiction; simpl; intro H; try reflexivity; exfalso; unfold lay in H; cbn in H; lia.
  Qed.

  Lemma lay_doc_root : forall a, lay a (KDoc, []) = a.
  Proof. intro a. unfold lay. apply N.add_0_r. Qed.
  Lemma lay_doc_child0 : forall a, lay a (KDoc, [0%nat]) = a + 1048576.
  Proof. intro a. unfold lay. cbn. reflexivity. Qed.

  (* ChartToC as pinned: the prefix is the md5 of the printed address *)
  Lemma transform_c_refuted_lemma : forall v a1 a2,
    v_c_prefix_ptr v = true ->
    firstn 8 (md5 (print_ptr a1)) <> firstn 8 (md5 (print_ptr a2)) ->
    exists e1 e2 doc, has_ids doc = true /\ addr_injective_on e1 objs0 /\ addr_injective_on e2 objs0 /\
      c_skeleton md5 v e1 doc <> c_skeleton md5 v e2 doc /\
      ((forall d s1 s2, render_c d s1 = render_c d s2 -> s1 = s2) ->
       forall url, gen_c md5 render_c v e1 doc url <> gen_c md5 render_c v e2 doc url).
  Proof.
    intros v a1 a2 Hv Hne. exists (env_at a1), (env_at a2), doc0.
    assert (Hsk : c_skeleton md5 v (env_at a1) doc0 <> c_skeleton md5 v (env_at a2) doc0).
    { unfold c_skeleton, c_prefix, doc_md5, c_machines. rewrite Hv.
      cbn [flat_map map indexed m_invokes doc0 combine seq_from length app fst snd addr env_at].
      rewrite !lay_doc_root. intro H. inversion H as [[H1 H2]].
      apply app_inv_tail in H1. contradiction. }
    split; [reflexivity|]. split.
    - intros a b Ha Hb. apply (lay_injective1 a1); simpl in *; tauto.
    - split; [intros a b Ha Hb; apply (lay_injective1 a2); simpl in *; tauto|].
      split; [exact Hsk|]. intros Hinj url H. unfold gen_c in H. apply Hinj in H. contradiction.
  Qed.

  (* ChartToPromela as pinned: the literal "U<md5 of the printed address>__name" of a nested machine *)
  Lemma transform_pml_literals_refuted_lemma : forall v a1 a2,
    v_pml_prefix_leak v = true ->
    (forall x, length (md5 x) = 32%nat) ->
    firstn 8 (md5 (print_ptr (a1 + 1048576))) <> firstn 8 (md5 (print_ptr (a2 + 1048576))) ->
    exists e1 e2 doc, has_ids doc = true /\ addr_injective_on e1 objs1 /\ addr_injective_on e2 objs1 /\
      pml_literals md5 macro_name v e1 doc <> pml_literals md5 macro_name v e2 doc.
  Proof.
    intros v a1 a2 Hv Hlen Hne. exists (env_at a1), (env_at a2), doc1.
    split; [reflexivity|]. split; [apply lay_injective1|]. split; [apply lay_injective1|].
    intro H.
    set (h1 := firstn 8 (md5 (print_ptr (a1 + 1048576)))) in *.
    set (h2 := firstn 8 (md5 (print_ptr (a2 + 1048576)))) in *.
    assert (L1 : length h1 = 8%nat) by (unfold h1; rewrite firstn_length, Hlen; reflexivity).
    assert (L2 : length h2 = 8%nat) by (unfold h2; rewrite firstn_length, Hlen; reflexivity).
    assert (Hin : In (([85] ++ h1 ++ [c_us]) ++ s_name) (pml_literals md5 macro_name v (env_at a1) doc1)).
    { unfold pml_literals. apply set_of_in. unfold doc1, indexed, machine_literals, pml_analysis_prefix.
      cbn [m_invokes m_events m_lits doc0 flat_map combine seq_from length app fst snd addr env_at]. rewrite Hv.
      rewrite lay_doc_child0. fold h1.
      cbn [In]. right. right. right. left. reflexivity. }
    rewrite H in Hin. unfold pml_literals in Hin. apply (proj1 (set_of_in _ _)) in Hin.
    unfold doc1, indexed, machine_literals, pml_analysis_prefix in Hin.
    cbn [m_invokes m_events m_lits doc0 flat_map combine seq_from length app fst snd addr env_at] in Hin.
    rewrite Hv in Hin. rewrite lay_doc_child0 in Hin. fold h2 in Hin. cbn [In] in Hin.
    destruct Hin as [E|[E|[E|[E|[]]]]].
    - discriminate E.
    - discriminate E.
    - (* U h2 _ _sessionid = U h1 _ _name *)
      injection E as E'.
      apply app_eq_len in E'; [|rewrite !app_length, L1, L2; reflexivity]. destruct E' as [_ E']. discriminate E'.
    - injection E as E'.
      apply app_eq_len in E'; [|rewrite !app_length, L1, L2; reflexivity]. destruct E' as [E' _].
      apply app_inv_tail in E'. apply Hne. symmetry. exact E'.
  Qed.

  (* ChartToPromela as pinned: the machine map is iterated in address order *)
  Definition env_swapped (base : N) : env :=
    mkEnv (fun o => match o with (KScxml, []) => base + 8192 | _ => lay base o end) (fun _ => 119) (fun _ => []) no_cache.

  Lemma env_swapped_injective1 : forall base, addr_injective_on (env_swapped base) objs1.
  Proof.
    intros base a b Ha Hb. simpl in Ha, Hb.
    repeat (destruct Ha as [Ha|Ha]; [subst a|]); try contradiction;
    repeat (destruct Hb as [Hb|Hb]; [subst b|]); try contradiction; simpl; intro H; try reflexivity; exfalso; unfold lay in H; cbn in H; lia.
  Qed.

  Lemma transform_pml_order_refuted_lemma : forall v,
    v_pml_ptr_order v = true ->
    macro_name id_i ++ [c_us] <> s_ROOT ->
    exists e1 e2 doc, has_ids doc = true /\ addr_injective_on e1 objs1 /\ addr_injective_on e2 objs1 /\
      pml_blocks macro_name v e1 doc <> pml_blocks macro_name v e2 doc.
  Proof.
    intros v Hv Hne. exists (env_at 4096), (env_swapped 4096), doc1.
    split; [reflexivity|]. split; [apply lay_injective1|]. split; [apply env_swapped_injective1|].
    unfold pml_blocks. rewrite Hv. unfold doc1, indexed, pml_block_prefix, invoke_id. simpl.
    unfold addr_map. simpl. intro H. inversion H as [[H1 H2]]. apply Hne. symmetry. exact H1.
  Qed.

  (* ChartToVHDL as pinned: escapeMacro appends a character of std::hash *)
  Definition doc_ev : machine := Machine [] [[97; 46; 98]] [] [].       (* one event "a.b" *)
  Definition env_hash (h : N) : env := mkEnv (lay 4096) (fun _ => h) (fun _ => []) no_cache.

  Lemma transform_vhdl_refuted_lemma : forall v,
    v_vhdl_std_hash v = true ->
    exists e1 e2 doc, has_ids doc = true /\ (forall o, addr e1 o = addr e2 o) /\
      vhdl_signals v e1 doc <> vhdl_signals v e2 doc /\
      ((forall d s1 s2, render_vhdl d s1 = render_vhdl d s2 -> s1 = s2) ->
       forall url, gen_vhdl render_vhdl v e1 doc url <> gen_vhdl render_vhdl v e2 doc url).
  Proof.
    intros v Hv. exists (env_hash 119), (env_hash 120), doc_ev.
    assert (Hs : vhdl_signals v (env_hash 119) doc_ev <> vhdl_signals v (env_hash 120) doc_ev).
    { unfold vhdl_signals, event_order, escape_macro. rewrite Hv. destruct (v_trie_ptr_merge v); vm_compute; discriminate. }
    split; [reflexivity|]. split; [reflexivity|]. split; [exact Hs|].
    intros Hinj url H. unfold gen_vhdl in H. apply Hinj in H. contradiction.
  Qed.

  (* the event trie as pinned: the children's word lists are merged by the addresses of the trie nodes.  Two events
     "b", "a" (added in this order): nodes allocated in ascending / in descending address order *)
  Definition doc_ba : machine := Machine [] [[98]; [97]] [] [].
  Definition env_trie_desc : env :=
    mkEnv (fun o => match o with (KTrieNode, [k]) => 16777216 - 48 * N.of_nat k | _ => lay 4096 o end) (fun _ => 119) (fun _ => []) no_cache.

  Lemma transform_trie_order_refuted_lemma : forall v,
    v_trie_ptr_merge v = true ->
    exists e1 e2 doc, has_ids doc = true /\ (forall x, std_hash e1 x = std_hash e2 x) /\
      event_order v e1 doc <> event_order v e2 doc /\
      vhdl_signals v e1 doc <> vhdl_signals v e2 doc /\
      ((forall d s1 s2, render_vhdl d s1 = render_vhdl d s2 -> s1 = s2) ->
       forall url, gen_vhdl render_vhdl v e1 doc url <> gen_vhdl render_vhdl v e2 doc url).
  Proof.
    intros v Hv. exists (env_at 4096), env_trie_desc, doc_ba.
    assert (Ho : event_order v (env_at 4096) doc_ba <> event_order v env_trie_desc doc_ba).
    { unfold event_order. rewrite Hv. vm_compute. discriminate. }
    assert (Hs : vhdl_signals v (env_at 4096) doc_ba <> vhdl_signals v env_trie_desc doc_ba).
    { unfold vhdl_signals, event_order. rewrite Hv. destruct (v_vhdl_std_hash v) eqn:Eh; unfold escape_macro; rewrite Eh; vm_compute; discriminate. }
    split; [reflexivity|]. split; [reflexivity|]. split; [exact Ho|]. split; [exact Hs|].
    intros Hinj url H. unfold gen_vhdl in H. apply Hinj in H. contradiction.
  Qed.

  (* the proviso of the property is needed: an <invoke> without id gets a random one, in any variant *)
  Definition doc_noid : machine := Machine [] [] [] [(None, doc0)].
  Definition env_uuid (u : bytes) : env := mkEnv (lay 4096) (fun _ => 119) (fun _ => u) no_cache.

  Lemma no_ids_refuted_lemma : forall v u1 u2,
    macro_name (s_INV ++ firstn 5 u1) <> macro_name (s_INV ++ firstn 5 u2) ->
    exists e1 e2 doc, has_ids doc = false /\ (forall o, addr e1 o = addr e2 o) /\
      pml_blocks macro_name v e1 doc <> pml_blocks macro_name v e2 doc.
  Proof.
    intros v u1 u2 Hne. exists (env_uuid u1), (env_uuid u2), doc_noid.
    split; [reflexivity|]. split; [reflexivity|].
    unfold pml_blocks, doc_noid, indexed, pml_block_prefix, invoke_id. simpl.
    destruct (v_pml_ptr_order v); unfold addr_map; simpl; intro H; inversion H as [[H1]];
      apply app_inv_tail in H1; contradiction.
  Qed.

  (* ---------------------------------------------------------------- the cache directory *)

  (* interpretation never looks at the environment when the fast engine is compiled without cache support *)
  Lemma interp_env_independent_lemma : forall v e1 e2 doc url evs,
    v_fast_cache v = false ->
    run_doc md5 compute_tables interp v e1 doc url evs = run_doc md5 compute_tables interp v e2 doc url evs.
  Proof. intros v e1 e2 doc url evs Hv. unfold run_doc, tables_used. rewrite Hv. reflexivity. Qed.

  (* "MD5 distinguishes the compared documents": a document with the same digest has the same tables *)
  Definition md5_separates (doc doc' : machine) : Prop :=
    md5 (m_text doc') = md5 (m_text doc) -> compute_tables (m_text doc') = compute_tables (m_text doc).

  (* C20, cache part: whatever an earlier run -- of this document or of another one at the same URL -- left in the
     cache directory, the trace is the one obtained with an empty cache directory *)
  Definition cache_independent_statement (v : variant) : Prop :=
    forall e doc doc' url evs,
      md5_separates doc doc' ->
      (cache e (md5 url) = None \/ cache e (md5 url) = Some (cache_written md5 compute_tables v doc')) ->
      run_doc md5 compute_tables interp v e doc url evs =
      run_doc md5 compute_tables interp v (with_cache e no_cache) doc url evs.

  Lemma cache_independent_lemma : forall v, cache_safe v = true -> cache_independent_statement v.
  Proof.
    intros v Hs e doc doc' url evs Hsep Hc.
    unfold run_doc, tables_used. destruct (v_fast_cache v) eqn:Hf; [|reflexivity].
    unfold cache_safe in Hs. rewrite Hf in Hs. simpl in Hs.
    f_equal. unfold cache_after_init. simpl.
    destruct Hc as [Hc|Hc]; rewrite Hc; [reflexivity|].
    unfold cache_written. rewrite Hf. simpl. rewrite Hs. simpl.
    destruct (beq_bytes (md5 (m_text doc')) (md5 (m_text doc))) eqn:E; simpl; [|reflexivity].
    apply det_beq_bytes_eq in E. rewrite (Hsep E).
    destruct (same_shape (compute_tables (m_text doc)) (compute_tables (m_text doc))); reflexivity.
  Qed.

  (* without the md5 guard, and with the fast engine reading the cache, a cache left by a different document at
     the same URL changes the behaviour -- whenever tables matter at all (Hsens) *)
  Lemma cache_independent_refuted_lemma : forall v d1 d2 evs,
    v_fast_cache v = true -> v_cache_md5_guard v = false ->
    same_shape (compute_tables (m_text d1)) (compute_tables (m_text d2)) = true ->
    interp (compute_tables (m_text d1)) (m_text d2) evs <> interp (compute_tables (m_text d2)) (m_text d2) evs ->
    exists e url,
      cache e (md5 url) = Some (cache_written md5 compute_tables v d1) /\
      run_doc md5 compute_tables interp v e d2 url evs <>
      run_doc md5 compute_tables interp v (with_cache e no_cache) d2 url evs.
  Proof.
    intros v d1 d2 evs Hf Hg Hshape Hsens.
    exists (mkEnv (lay 4096) (fun _ => 119) (fun _ => []) (fun _ => Some (cache_written md5 compute_tables v d1))), [].
    split; [reflexivity|].
    unfold run_doc, tables_used, cache_after_init, cache_written. rewrite Hf. simpl. rewrite Hg. simpl.
    rewrite Hshape. exact Hsens.
  Qed.
End Proofs.

(* ------------------------------------------------------------------ the regenerated inventory *)

(* every entry of the inventory read from the working tree is either harmless or one of the flows of the model:
   a new pointer-keyed iteration, pointer print, std::hash use or random id in src/uscxml/transform makes this fail *)
Lemma inventory_accounted_lemma : forallb dep_accounted env_inventory = true.
Proof. vm_compute. reflexivity. Qed.

Lemma source_read_lemma : env_source_ok = true.
Proof. vm_compute. reflexivity. Qed.

Lemma has_flow_harmless : forall f inv, forallb dep_harmless inv = true -> has_flow f inv = false.
Proof.
  intros f inv. unfold has_flow. induction inv as [|d inv IH]; simpl; intro H; [reflexivity|].
  apply andb_true_iff in H. destruct H as [Hd H]. rewrite Hd. simpl. apply IH. exact H.
Qed.

Lemma harmless_inventory_clean : forall inv a f g,
  forallb dep_harmless inv = true -> transform_clean (variant_of inv a f g) = true.
Proof.
  intros inv a f g H. unfold transform_clean, variant_of. simpl.
  rewrite !(has_flow_harmless _ inv H). rewrite andb_false_r. reflexivity.
Qed.

(* the verdict on the working tree: (1) the inventory is accounted for; (2) if it holds harmless entries only, the
   variant it selects is clean, so the transformers of *this* tree are environment independent (3); and if it does
   not, (4) names a harmful entry with the flow of the model it feeds *)
Definition inventory_verdict : Prop :=
  (forall d, In d env_inventory -> dep_harmless d = true \/ exists f, dep_flow d = Some f) /\
  (forallb dep_harmless env_inventory = true -> transform_clean current_variant = true) /\
  (forallb dep_harmless env_inventory = false ->
     exists d f, In d env_inventory /\ dep_harmless d = false /\ dep_flow d = Some f).

Lemma no_env_dependence_lemma : inventory_verdict.
Proof.
  assert (A : forall d, In d env_inventory -> dep_harmless d = true \/ exists f, dep_flow d = Some f).
  { intros d Hd. pose proof inventory_accounted_lemma as H. rewrite forallb_forall in H. specialize (H d Hd).
    unfold dep_accounted in H. apply orb_true_iff in H. destruct H as [H|H]; [left; exact H|right].
    destruct (dep_flow d) as [f|]; [exists f; reflexivity|discriminate]. }
  split; [exact A|]. split.
  - intro H. apply harmless_inventory_clean. exact H.
  - intro H.
    assert (E : exists d, In d env_inventory /\ dep_harmless d = false).
    { clear A. induction env_inventory as [|d l IH]; simpl in H; [discriminate|].
      destruct (dep_harmless d) eqn:Ed; simpl in H.
      - destruct (IH H) as [d' [Hin Hd']]. exists d'. split; [right; exact Hin|exact Hd'].
      - exists d. split; [left; reflexivity|exact Ed]. }
    destruct E as [d [Hin Hd]]. destruct (A d Hin) as [Hh|[f Hf]]; [congruence|].
    exists d, f. auto.
Qed.

(* ------------------------------------------------------------------ the hypotheses are satisfiable *)

(* toy components: a "digest" that is 24 zeros followed by the low 8 hex digits... of nothing cryptographic; it
   only has to be a function with 32-byte results that separates two printed pointers *)
Definition toy_md5 (b : bytes) : bytes :=
  firstn 32 (rev (firstn 8 (rev b)) ++ repeat 48 32).
Definition toy_macro (b : bytes) : bytes := map (fun c => if (97 <=? c) && (c <=? 122) then c - 32 else c) b.

Example toy_md5_len_example : length (toy_md5 (print_ptr 94354303719328)) = 32%nat.
Proof. vm_compute. reflexivity. Qed.

Lemma toy_md5_len : forall x, length (toy_md5 x) = 32%nat.
Proof.
  intro x. unfold toy_md5. rewrite firstn_length, app_length, repeat_length. lia.
Qed.

Example toy_md5_separates :
  firstn 8 (toy_md5 (print_ptr 94354303719328)) <> firstn 8 (toy_md5 (print_ptr 94354303714496)).
Proof. vm_compute. discriminate. Qed.

Example toy_macro_not_root : toy_macro id_i ++ [c_us] <> s_ROOT.
Proof. vm_compute. discriminate. Qed.

Example has_ids_example :
  has_ids (Machine [60] [[101]] [] [(Some [105; 110; 118; 49], Machine [60] [] [] [(Some [103], doc0)]); (Some [105; 110; 118; 50], doc0)]) = true.
Proof. reflexivity. Qed.

(* print_ptr is what operator<< prints for the address of the witness run (0x55d092c197a0) *)
Example print_ptr_example :
  print_ptr 94354303719328 = [48; 120; 53; 53; 100; 48; 57; 50; 99; 49; 57; 55; 97; 48].
Proof. vm_compute. reflexivity. Qed.

(* std::map in address order / std::set in string order, on examples *)
Example addr_map_example : map snd (addr_map [(30, [1]); (10, [2]); (20, [3])]) = [[2]; [3]; [1]].
Proof. vm_compute. reflexivity. Qed.
Example set_of_example : set_of [[98]; [97]; [98; 97]; [97]] = [[97]; [98]; [98; 97]].
Proof. vm_compute. reflexivity. Qed.

(* the variant the working tree selects (printed into the build log; the check reads it through the extracted model) *)
Definition current_variant_bits : list bool :=
  [v_c_prefix_ptr current_variant; v_pml_prefix_leak current_variant; v_pml_ptr_order current_variant;
   v_vhdl_std_hash current_variant; v_trie_ptr_merge current_variant; v_fast_cache current_variant;
   v_cache_md5_guard current_variant].

(* the trie model on the events of the run in which the two orders were first seen (e, f, g) and on a dotted family *)
Example trie_words_doc_example :
  trie_words_doc (trie_of [[101; 46; 120]; [102]; [101]; [97; 46; 98; 46; 99]]) = [[97; 46; 98; 46; 99]; [101]; [101; 46; 120]; [102]].
Proof. vm_compute. reflexivity. Qed.
Example trie_words_ptr_ascending :
  map snd (trie_words_ptr (fun k => 1000 + 48 * N.of_nat k) (trie_of [[103]; [101]; [102]])) = [[103]; [101]; [102]].
Proof. vm_compute. reflexivity. Qed.
Example trie_words_ptr_descending :
  map snd (trie_words_ptr (fun k => 1000 - 48 * N.of_nat k) (trie_of [[103]; [101]; [102]])) = [[102]; [101]; [103]].
Proof. vm_compute. reflexivity. Qed.
