(* FlattenWfSide.v -- the static side conditions of C01's conformance theorems (SelectConform.par_nonemptyb,
   SelectConformRoot.root_unmentionedb, MicroConform.targets_antichainb / done_okb / root_silentb) as
   boolean predicates on the DOCUMENT.  Definitions only; FlattenWfSideLemmas.v proves that they imply
   the table-level conditions for the flat tables of a core_treeb document.

     ct_par_nonemptyb (FlattenWf.v)  every <parallel> has a child;
     ct_root_unmentionedb   no transition condition asks In(<id of the root>);
     ct_root_silentb        no executable content (onentry, onexit, transition bodies) asks In(<id of the root>);
     ct_targets_antichainb  no target of a transition lies properly below another target of the same transition;
     ct_done_okb            below a <parallel>, <final> elements occur only as grand-children: no <final> is
                            a child of a <parallel>, none lies three or more levels below one. *)
From V Require Import Base NameMatch Chart Exec Large Spec SelectConformRoot MicroConform FlattenWf.
Local Open Scope N_scope.

Definition ct_root_unmentionedb (t : tree) : bool :=
  forallb (fun w => forallb (fun x => match tt_cond x with
                                      | Some cnd => negb (mentions (t_sid t) cnd)
                                      | None => true
                                      end) (t_trans w)) (subtrees t).

Definition ct_root_silentb (t : tree) : bool :=
  forallb (fun w => negb (mentions_bs (t_sid t) (t_onentry w)) && negb (mentions_bs (t_sid t) (t_onexit w)) &&
                    forallb (fun x => negb (mentions_b (t_sid t) (tt_body x))) (t_trans w)) (subtrees t).

(* some id of l is carried by u or by a descendant of u *)
Definition hits (l : list N) (u : tree) : bool := existsb (fun s => memN s (sids u)) l.

Definition antichain_okb (t : tree) (l : list N) : bool :=
  forallb (fun u => if memN (t_sid u) l then forallb (fun kid => negb (hits l kid)) (t_kids u) else true) (subtrees t).

Definition ct_targets_antichainb (t : tree) : bool :=
  forallb (fun w => forallb (fun x => match tt_targets x with
                                      | Some l => antichain_okb t l
                                      | None => true
                                      end) (t_trans w)) (subtrees t).

Definition is_final_node (u : tree) : bool := match t_kind u with KFinal => true | _ => false end.

Definition ct_done_okb (t : tree) : bool :=
  forallb (fun v => match t_kind v with
                    | KParallel =>
                      forallb (fun x => negb (is_final_node x) &&
                                        forallb (fun y => forallb (fun z => forallb (fun f => negb (is_final_node f)) (subtrees z))
                                                                  (t_kids y)) (t_kids x)) (t_kids v)
                    | _ => true
                    end) (subtrees t).

(* everything the C01 theorems assume of the document itself *)
Definition c01_treeb (t : tree) : bool :=
  core_treeb t && ct_par_nonemptyb t && ct_root_unmentionedb t && ct_targets_antichainb t && ct_done_okb t &&
  ct_root_silentb t.
