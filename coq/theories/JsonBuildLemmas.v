(* JsonBuildLemmas.v -- Data::fromJSON: the retry loop and the builder terminate within the stated
   fuel for every input and every variant; with the two bounds repairs the builder never leaves the
   token array and never uses an empty stack, for every byte string. *)
From V Require Import Base Jsmn Json JsmnLemmas.
From Coq Require Import Lia ZArith.
Local Open Scope N_scope.

(* ---------------------------------------------------------------------------------------- *)
(* retry loop *)

Lemma tok_retry_some fuel : forall frac tr,
  (0 < fuel)%nat -> (frac < 2 ^ (S fuel))%nat -> tok_retry fuel frac tr <> None.
Proof.
  induction fuel as [|fuel IH]; intros frac tr Hf Hfr; [lia|].
  cbn [tok_retry].
  destruct (jsmn_parse (Nat.div (length tr) (Nat.div frac 2)) tr) as [toks|[]|]; try discriminate.
  destruct (Nat.ltb_spec 1 (Nat.div frac 2)) as [H|H]; [|discriminate].
  assert (Hd : (Nat.div frac 2 < 2 ^ (S fuel))%nat).
  { change (2 ^ S (S fuel))%nat with (2 * 2 ^ S fuel)%nat in Hfr.
    apply Nat.div_lt_upper_bound; lia. }
  apply IH; [|exact Hd].
  destruct fuel; [change (2 ^ 1)%nat with 2%nat in Hd; lia|lia].
Qed.

Lemma tok_retry_inv fuel : forall frac tr,
  match tok_retry fuel frac tr with
  | Some (JOk toks, n) => (length toks <= n)%nat /\ Forall (tok_final (length tr)) toks
  | Some (JOob, _) => False
  | _ => True
  end.
Proof.
  induction fuel as [|fuel IH]; intros frac tr; cbn [tok_retry]; [exact I|].
  pose proof (jsmn_parse_inv (Nat.div (length tr) (Nat.div frac 2)) tr) as P.
  destruct (jsmn_parse (Nat.div (length tr) (Nat.div frac 2)) tr) as [toks|[]|]; try exact P; try exact I.
  destruct (Nat.ltb 1 (Nat.div frac 2)); [apply IH|exact I].
Qed.

(* ---------------------------------------------------------------------------------------- *)
(* the builder on a token array [toks ++ zeros] *)

Definition dsize (ds : dstack) : nat := match ds with DS _ fs => S (length fs) | DSEmpty _ => O end.

Lemma ds_pop_size ds : (0 < dsize ds)%nat -> exists ds', ds_pop ds = Some ds' /\ dsize ds = S (dsize ds').
Proof. destruct ds as [c [|f r]|r]; cbn; intros H; [eexists; split; reflexivity..|lia]. Qed.
Lemma ds_top_size ds : (0 < dsize ds)%nat -> exists d, ds_top ds = Some d.
Proof. destruct ds; cbn; intros H; [eexists; reflexivity|lia]. Qed.
Lemma ds_set_top_size ds d : dsize (ds_set_top ds d) = dsize ds.
Proof. destruct ds; reflexivity. Qed.
Lemma ds_push_key_size ds k : (0 < dsize ds)%nat -> exists ds', ds_push_key ds k = Some ds' /\ dsize ds' = S (dsize ds).
Proof. destruct ds; cbn; intros H; [eexists; split; reflexivity|lia]. Qed.
Lemma ds_push_elem_size ds : (0 < dsize ds)%nat -> exists ds', ds_push_elem ds = Some ds' /\ dsize ds' = S (dsize ds).
Proof. destruct ds; cbn; intros H; [eexists; split; reflexivity|lia]. Qed.

Section Builder.
Variable v : js_variant.
Variable js : bytes.
Variable toks : list token.
Variable k : nat.
Variable L : nat.
Let t := toks ++ repeat zero_token (S k).
Hypothesis Hfin : Forall (tok_final L) toks.

Lemma tok_at_real i : (i < length toks)%nat -> exists tk, tok_at t i = Some tk /\ tok_final L tk.
Proof.
  intros H. unfold tok_at, t. rewrite nth_error_app1 by exact H.
  destruct (nth_error toks i) as [tk|] eqn:E; [|apply nth_error_None in E; lia].
  exists tk. split; [reflexivity|]. rewrite Forall_forall in Hfin. apply Hfin. eapply nth_error_In; eauto.
Qed.

Lemma tok_at_le i : (i <= length toks)%nat -> exists tk, tok_at t i = Some tk.
Proof.
  intros H. unfold tok_at, t. destruct (nth_error (toks ++ repeat zero_token (S k)) i) eqn:E; [eauto|].
  apply nth_error_None in E. rewrite app_length, repeat_length in E. lia.
Qed.

Lemma tok_at_nonzero i tk : tok_at t i = Some tk -> tend tk <> 0%Z -> (i < length toks)%nat.
Proof.
  unfold tok_at, t. intros E H. destruct (Nat.ltb_spec i (length toks)); [assumption|].
  rewrite nth_error_app2 in E by assumption. apply nth_error_In, repeat_spec in E. subst. now elim H.
Qed.

Lemma types_ok_t : Forall (fun tk => ttype tk <= 3) t.
Proof.
  unfold t. apply Forall_app. split.
  - eapply Forall_impl; [|exact Hfin]. intros a [A _]. exact A.
  - apply Forall_forall. intros x Hx. apply repeat_spec in Hx. subst. cbv. discriminate.
Qed.

(* ---- termination: currTok grows in every iteration ---- *)

Lemma bswitch_cases tk cur ds ts :
  match bswitch v js tk cur ds ts with
  | Ok (cur1, _, _) => (ttype tk <= 3 -> cur1 = S cur) /\ (cur <= cur1 <= S cur)%nat
  | Err _ => False
  | Oob w => ds_is_empty ds = true
  | OutOfFuel => False
  end.
Proof.
  unfold bswitch.
  destruct ((ttype tk =? T_STRING) || (ttype tk =? T_PRIM)) eqn:E1.
  - destruct ds as [[vb a l m] fs|r]; cbn [ds_top ds_is_empty]; [|reflexivity].
    cbn [ds_set_top]. destruct fs; cbn [ds_pop]; (split; [reflexivity|lia]).
  - destruct ((ttype tk =? T_OBJECT) || (ttype tk =? T_ARRAY)) eqn:E2; [split; [reflexivity|lia]|].
    split; [|lia]. intros T. exfalso.
    apply orb_false_iff in E1 as [A1 A2]. apply orb_false_iff in E2 as [A3 A4].
    apply N.eqb_neq in A1, A2, A3, A4. unfold T_STRING, T_PRIM, T_OBJECT, T_ARRAY in *. lia.
Qed.

Lemma bkey_cases back tk1 cur1 ds2 :
  match bkey v js t back tk1 cur1 ds2 with
  | Ok (_, cur3, _) => (cur1 <= cur3)%nat
  | Err _ => False
  | Oob w => ds_is_empty ds2 = true \/ (jv_key_overread v = false /\ tok_at t (S cur1) = None)
  | OutOfFuel => False
  end.
Proof.
  unfold bkey. destruct ((ttype back =? T_OBJECT) && is_keyish tk1); [|lia].
  destruct ds2 as [c fs|r]; cbn [ds_push_key ds_is_empty]; [|now left].
  destruct (jv_key_overread v); [lia|].
  destruct (tok_at t (S cur1)); [lia|now right].
Qed.

Lemma pop_loop_cases e : forall ts ds,
  match pop_loop v e ts ds with
  | Ok (ts2, ds2) => ts2 <> [] /\ (jv_container_key v = false -> ds_is_empty ds2 = false)
  | Err _ => True
  | Oob _ => jv_container_key v = true
  | OutOfFuel => False
  end.
Proof.
  induction ts as [|top ts' IH]; intros ds; cbn [pop_loop].
  - destruct (jv_container_key v); [reflexivity|exact I].
  - destruct (tend top <? e)%Z.
    + destruct (ds_pop ds) as [ds'|]; [apply IH|]. destruct (jv_container_key v); [reflexivity|apply IH].
    + destruct (jv_container_key v) eqn:Ec; cbn [negb andb].
      * split; [discriminate|discriminate].
      * destruct (ds_is_empty ds) eqn:Ee; [exact I|]. split; [discriminate|auto].
Qed.

Lemma build_fuel_enough : forall fuel cur ds ts,
  (length t - cur < fuel)%nat -> build v js t fuel cur ds ts <> OutOfFuel.
Proof.
  induction fuel as [|fuel IH]; intros cur ds ts H; [lia|].
  cbn [build]. destruct (negb (jv_container_key v) && ds_is_empty ds); [discriminate|]. unfold bmid.
  destruct (tok_at t cur) as [tk|] eqn:E; [|discriminate].
  assert (Hc : (cur < length t)%nat) by (apply nth_error_Some; unfold tok_at in E; congruence).
  assert (Tk : ttype tk <= 3).
  { pose proof types_ok_t as F. rewrite Forall_forall in F. apply F. eapply nth_error_In; exact E. }
  pose proof (bswitch_cases tk cur ds ts) as S1.
  destruct (bswitch v js tk cur ds ts) as [[[cur1 ds1] ts1]| | |]; try discriminate; [|contradiction].
  destruct S1 as [S1 _]. specialize (S1 Tk). subst cur1.
  destruct (tok_at t (S cur)) as [tk1|]; [|discriminate].
  destruct ((tend tk1 =? 0)%Z || match ts1 with [] => true | _ => false end); [discriminate|].
  pose proof (pop_loop_cases (tend tk1) ts1 ds1) as P.
  destruct (pop_loop v (tend tk1) ts1 ds1) as [[ts2 ds2]| | |]; try discriminate; [|contradiction].
  destruct ts2 as [|back ts2']; [discriminate|].
  pose proof (bkey_cases back tk1 (S cur) ds2) as K.
  destruct (bkey v js t back tk1 (S cur) ds2) as [[[b cur3] ds3]| | |]; try discriminate; [|contradiction].
  destruct b; [discriminate|].
  destruct (ttype back =? T_ARRAY).
  - destruct (ds_push_elem ds3); [|discriminate]. apply IH. lia.
  - apply IH. lia.
Qed.

(* ---- no undefined behaviour with the two bounds repairs ---- *)

Hypothesis Hkey : jv_key_overread v = false.
Hypothesis Hcont : jv_container_key v = false.

Lemma build_no_oob : forall fuel cur ds ts,
  (cur < length toks)%nat -> forall w, build v js t fuel cur ds ts <> Oob w.
Proof.
  induction fuel as [|fuel IH]; intros cur ds ts Hcur w; [discriminate|].
  cbn [build]. rewrite Hcont. cbn [negb andb].
  destruct (ds_is_empty ds) eqn:Ed; [discriminate|]. unfold bmid.
  destruct (tok_at_real cur Hcur) as (tk & E & (Ty & Te)). rewrite E.
  pose proof (bswitch_cases tk cur ds ts) as S1.
  destruct (bswitch v js tk cur ds ts) as [[[cur1 ds1] ts1]| | |]; try discriminate; [|congruence].
  destruct S1 as [S1 _]. specialize (S1 Ty). subst cur1.
  destruct (tok_at_le (S cur)) as (tk1 & E1); [lia|]. rewrite E1.
  destruct (Z.eqb_spec (tend tk1) 0) as [Z0|Z0]; [discriminate|]. cbn [orb].
  destruct ts1 as [|b0 ts1']; [discriminate|].
  pose proof (tok_at_nonzero _ _ E1 Z0) as Hcur1.
  pose proof (pop_loop_cases (tend tk1) (b0 :: ts1') ds1) as P.
  destruct (pop_loop v (tend tk1) (b0 :: ts1') ds1) as [[ts2 ds2]| | |]; try discriminate; [|congruence].
  destruct P as [Pn Pd]. specialize (Pd Hcont).
  destruct ts2 as [|back ts2']; [congruence|].
  pose proof (bkey_cases back tk1 (S cur) ds2) as K.
  destruct (tok_at_le (S (S cur))) as (tk2 & E2); [lia|].
  destruct (bkey v js t back tk1 (S cur) ds2) as [[[b cur3] ds3]| | |] eqn:EK; try discriminate.
  2:{ destruct K as [K|[_ K]]; congruence. }
  destruct b; [discriminate|].
  (* the next iteration starts at a real token *)
  assert (Hc3 : (cur3 < length toks)%nat /\ ds_is_empty ds3 = false).
  { unfold bkey in EK. destruct ((ttype back =? T_OBJECT) && is_keyish tk1).
    - destruct ds2 as [c fs|r]; [|discriminate]. cbn [ds_push_key] in EK. rewrite Hkey, E2 in EK.
      destruct (Z.eqb_spec (tend tk2) 0) as [Z2|Z2]; [discriminate|].
      inversion EK; subst. split; [|reflexivity]. eapply tok_at_nonzero; eauto.
    - inversion EK; subst. auto. }
  destruct Hc3 as [Hc3 Hd3].
  destruct (ttype back =? T_ARRAY).
  - destruct ds3 as [c fs|r]; [|discriminate]. cbn [ds_push_elem]. now apply IH.
  - now apply IH.
Qed.

End Builder.

(* ---------------------------------------------------------------------------------------- *)
(* fromJSON *)

Lemma from_json_total_lemma v s : from_json v s <> OutOfFuel.
Proof.
  unfold from_json, from_json_fuel.
  destruct (trim s) as [|c r] eqn:Et; [discriminate|].
  destruct (negb ((c =? c_lbrace) || (c =? c_lbrack))); [discriminate|].
  pose proof (tok_retry_some retry_fuel 16 (c :: r)) as Hs.
  pose proof (tok_retry_inv retry_fuel 16 (c :: r)) as Hi.
  destruct (tok_retry retry_fuel 16 (c :: r)) as [[[toks|e|] n]|].
  - destruct Hi as (Hl & Hf).
    replace (n + 1 - length toks)%nat with (S (n - length toks)) by lia.
    destruct (nth_error _ 0); [|discriminate].
    destruct (negb _); [discriminate|].
    apply build_fuel_enough with (L := length (c :: r)); [exact Hf|].
    unfold build_fuel. lia.
  - discriminate.
  - discriminate.
  - elim Hs; [unfold retry_fuel; lia|unfold retry_fuel; cbn; lia|reflexivity].
Qed.

Lemma from_json_no_oob_lemma v :
  jv_key_overread v = false -> jv_container_key v = false ->
  forall s w, from_json v s <> Oob w.
Proof.
  intros Hk Hc s w. unfold from_json, from_json_fuel.
  destruct (trim s) as [|c r] eqn:Et; [discriminate|].
  destruct (negb ((c =? c_lbrace) || (c =? c_lbrack))); [discriminate|].
  pose proof (tok_retry_inv retry_fuel 16 (c :: r)) as Hi.
  destruct (tok_retry retry_fuel 16 (c :: r)) as [[[toks|e|] n]|]; try discriminate; [|contradiction].
  destruct Hi as (Hl & Hf).
  replace (n + 1 - length toks)%nat with (S (n - length toks)) by lia.
  destruct toks as [|t0 toks'].
  - cbn [app repeat nth_error]. cbn. discriminate.
  - cbn [app nth_error].
    destruct (Z.eqb_spec (tend t0) (Z.of_nat (length (c :: r)))) as [E0|E0]; cbn [negb]; [|discriminate].
    change (t0 :: toks' ++ repeat zero_token (S (n - length (t0 :: toks'))))
      with ((t0 :: toks') ++ repeat zero_token (S (n - length (t0 :: toks')))).
    apply build_no_oob with (L := length (c :: r)); try assumption. cbn [length]. lia.
Qed.

Example from_json_no_oob_nonvacuous :
  jv_key_overread js_fixed = false /\ jv_container_key js_fixed = false /\
  exists s d, from_json js_fixed s = Ok d /\ d <> empty_data.
Proof.
  repeat split. exists [123; 34; 97; 34; 125], (D false [] [] [([97], empty_data)]).
  split; [vm_compute; reflexivity|discriminate].
Qed.
