(* JsonBuildLemmas.v -- Data::fromJSON: the retry loop and the builder terminate within the stated
   fuel for every input and every variant; with the two bounds repairs the builder never leaves the
   token array and never uses an empty stack, for every byte string. *)
From V Require Import Base Jsmn Json JsmnLemmas.
From Coq Require Import Lia ZArith.
Local Open Scope N_scope.

(* ---------------------------------------------------------------------------------------- *)
(* retry loop *)

Lemma tok_retry_some fuel : forall frac tr,
  (0 < fuel)%nat -> (frac < 2 ^ (S fuel))%nat -> tok_retry fuel frac tr <> None.
Proof.
  induction fuel as [|fuel IH]; intros frac tr Hf Hfr; [lia|].
  cbn [tok_retry].
  destruct (jsmn_parse (Nat.div (length tr) (Nat.div frac 2)) tr) as [toks|[]|]; try discriminate.
  destruct (Nat.ltb_spec 1 (Nat.div frac 2)) as [H|H]; [|discriminate].
  assert (Hd : (Nat.div frac 2 < 2 ^ (S fuel))%nat).
  { change (2 ^ S (S fuel))%nat with (2 * 2 ^ S fuel)%nat in Hfr.
    apply Nat.div_lt_upper_bound; lia. }
  apply IH; [|exact Hd].
  destruct fuel; [change (2 ^ 1)%nat with 2%nat in Hd; lia|lia].
Qed.

Lemma tok_retry_inv fuel : forall frac tr,
  match tok_retry fuel frac tr with
  | Some (JOk toks, n) => (length toks <= n)%nat /\ Forall (tok_final (length tr)) toks
  | Some (JOob, _) => False
  | _ => True
  end.
Proof.
  induction fuel as [|fuel IH]; intros frac tr; cbn [tok_retry]; [exact I|].
  pose proof (jsmn_parse_inv (Nat.div (length tr) (Nat.div frac 2)) tr) as P.
  destruct (jsmn_parse (Nat.div (length tr) (Nat.div frac 2)) tr) as [toks|[]|]; try exact P; try exact I.
  destruct (Nat.ltb 1 (Nat.div frac 2)); [apply IH|exact I].
Qed.

(* ---------------------------------------------------------------------------------------- *)
(* the builder on a token array [toks ++ zeros] *)

Definition dsize (ds : dstack) : nat := match ds with DS _ fs => S (length fs) | DSEmpty _ => O end.

Lemma ds_pop_size ds : (0 < dsize ds)%nat -> exists ds', ds_pop ds = Some ds' /\ dsize ds = S (dsize ds').
Proof. destruct ds as [c [|f r]|r]; cbn; intros H; [eexists; split; reflexivity..|lia]. Qed.
Lemma ds_top_size ds : (0 < dsize ds)%nat -> exists d, ds_top ds = Some d.
Proof. destruct ds; cbn; intros H; [eexists; reflexivity|lia]. Qed.
Lemma ds_set_top_size ds d : dsize (ds_set_top ds d) = dsize ds.
Proof. destruct ds; reflexivity. Qed.
Lemma ds_push_key_size ds k : (0 < dsize ds)%nat -> exists ds', ds_push_key ds k = Some ds' /\ dsize ds' = S (dsize ds).
Proof. destruct ds; cbn; intros H; [eexists; split; reflexivity|lia]. Qed.
Lemma ds_push_elem_size ds : (0 < dsize ds)%nat -> exists ds', ds_push_elem ds = Some ds' /\ dsize ds' = S (dsize ds).
Proof. destruct ds; cbn; intros H; [eexists; split; reflexivity|lia]. Qed.

Definition is_container (tk : token) : Prop := ttype tk = T_OBJECT \/ ttype tk = T_ARRAY.

Section Builder.
Variable v : js_variant.
Variable js : bytes.
Variable toks : list token.
Variable k : nat.
Variable L : nat.
Let t := toks ++ repeat zero_token (S k).
Hypothesis Hfin : Forall (tok_final L) toks.

Lemma tok_at_real i : (i < length toks)%nat -> exists tk, tok_at t i = Some tk /\ tok_final L tk.
Proof.
  intros H. unfold tok_at, t. rewrite nth_error_app1 by exact H.
  destruct (nth_error toks i) as [tk|] eqn:E; [|apply nth_error_None in E; lia].
  exists tk. split; [reflexivity|]. rewrite Forall_forall in Hfin. apply Hfin. eapply nth_error_In; eauto.
Qed.

Lemma tok_at_le i : (i <= length toks)%nat -> exists tk, tok_at t i = Some tk.
Proof.
  intros H. unfold tok_at, t. destruct (nth_error (toks ++ repeat zero_token (S k)) i) eqn:E; [eauto|].
  apply nth_error_None in E. rewrite app_length, repeat_length in E. lia.
Qed.

Lemma tok_at_nonzero i tk : tok_at t i = Some tk -> tend tk <> 0%Z -> (i < length toks)%nat.
Proof.
  unfold tok_at, t. intros E H. destruct (Nat.ltb_spec i (length toks)); [assumption|].
  rewrite nth_error_app2 in E by assumption. apply nth_error_In, repeat_spec in E. subst. now elim H.
Qed.

Lemma types_ok_t : Forall (fun tk => ttype tk <= 3) t.
Proof.
  unfold t. apply Forall_app. split.
  - eapply Forall_impl; [|exact Hfin]. intros a [A _]. exact A.
  - apply Forall_forall. intros x Hx. apply repeat_spec in Hx. subst. cbv. discriminate.
Qed.

(* ---- termination: currTok grows in every iteration ---- *)

Lemma bswitch_progress tk cur ds ts cur1 ds1 ts1 :
  ttype tk <= 3 -> bswitch v js tk cur ds ts = Ok (cur1, ds1, ts1) -> cur1 = S cur.
Proof.
  intros T. unfold bswitch.
  destruct (N.eqb_spec (ttype tk) T_STRING), (N.eqb_spec (ttype tk) T_PRIM),
    (N.eqb_spec (ttype tk) T_OBJECT), (N.eqb_spec (ttype tk) T_ARRAY); cbn [orb];
    try (destruct (ds_top ds) as [[vb a l m]|]; [|discriminate];
         match goal with |- context [ds_pop ?x] => destruct (ds_pop x) end; [|discriminate]);
    try (intros E; inversion E; reflexivity).
  unfold T_STRING, T_PRIM, T_OBJECT, T_ARRAY in *. lia.
Qed.

Lemma bkey_progress back tk1 cur1 ds2 b cur3 ds3 :
  bkey v js t back tk1 cur1 ds2 = Ok (b, cur3, ds3) -> (cur1 <= cur3)%nat.
Proof.
  unfold bkey. destruct ((ttype back =? T_OBJECT) && is_keyish tk1).
  - destruct (ds_push_key ds2 _); [|discriminate].
    destruct (jv_key_overread v); [intros E; inversion E; lia|].
    destruct (tok_at t (S cur1)); [|discriminate]. intros E; inversion E; lia.
  - destruct ((ttype back =? T_OBJECT) && negb (jv_container_key v)); [discriminate|].
    intros E; inversion E; lia.
Qed.

Lemma build_fuel_enough : forall fuel cur ds ts,
  (length t - cur < fuel)%nat -> build v js t fuel cur ds ts <> OutOfFuel.
Proof.
  induction fuel as [|fuel IH]; intros cur ds ts H; [lia|].
  cbn [build]. unfold bmid.
  destruct (tok_at t cur) as [tk|] eqn:E; [|discriminate].
  assert (Hc : (cur < length t)%nat) by (apply nth_error_Some; unfold tok_at in E; congruence).
  assert (Tk : ttype tk <= 3).
  { pose proof types_ok_t as F. rewrite Forall_forall in F. apply F. eapply nth_error_In; exact E. }
  destruct (bswitch v js tk cur ds ts) as [[[cur1 ds1] ts1]| | |] eqn:S1; try discriminate.
  2:{ exfalso. unfold bswitch in S1.
      destruct ((ttype tk =? T_STRING) || (ttype tk =? T_PRIM)).
      - destruct (ds_top ds) as [[vb a l m]|]; [|discriminate].
        match type of S1 with context [ds_pop ?x] => destruct (ds_pop x) end; discriminate.
      - destruct ((ttype tk =? T_OBJECT) || (ttype tk =? T_ARRAY)); discriminate. }
  apply bswitch_progress in S1; [|exact Tk]. subst cur1.
  destruct (tok_at t (S cur)) as [tk1|]; [|discriminate].
  destruct ((tend tk1 =? 0)%Z || match ts1 with [] => true | _ => false end); [discriminate|].
  destruct (pop_loop (tend tk1) ts1 ds1) as [[ts2 ds2]| | |] eqn:P; try discriminate.
  2:{ exfalso. clear - P. revert ds1 P. induction ts1 as [|top ts' IH']; intros ds1 P; cbn in P; [discriminate|].
      destruct (tend top <? tend tk1)%Z; [|discriminate].
      destruct (ds_pop ds1); [eauto|discriminate]. }
  destruct ts2 as [|back ts2']; [discriminate|].
  destruct (bkey v js t back tk1 (S cur) ds2) as [[[b cur3] ds3]| | |] eqn:K; try discriminate.
  2:{ exfalso. unfold bkey in K. destruct ((ttype back =? T_OBJECT) && is_keyish tk1).
      - destruct (ds_push_key ds2 _); [|discriminate]. destruct (jv_key_overread v); [discriminate|].
        destruct (tok_at t (S (S cur))); discriminate.
      - destruct ((ttype back =? T_OBJECT) && negb (jv_container_key v)); discriminate. }
  apply bkey_progress in K.
  destruct b; [discriminate|].
  destruct (ttype back =? T_ARRAY).
  - destruct (ds_push_elem ds3); [|discriminate]. apply IH. lia.
  - apply IH. lia.
Qed.

(* ---- no undefined behaviour with the two bounds repairs ---- *)

Hypothesis Hkey : jv_key_overread v = false.
Hypothesis Hcont : jv_container_key v = false.
(* fromJSON has checked t[0].end == trimmed.length(), and no token ends later *)
Hypothesis H0 : forall t0, nth_error toks 0 = Some t0 -> tend t0 = Z.of_nat L.

Definition stack_ok (ts : list token) : Prop :=
  Forall is_container ts /\ (ts <> [] -> tend (last ts zero_token) = Z.of_nat L).

Lemma pop_loop_ok e : forall ts ds,
  ts <> [] -> stack_ok ts -> (e <= Z.of_nat L)%Z -> dsize ds = length ts ->
  exists ts2 ds2, pop_loop e ts ds = Ok (ts2, ds2) /\ ts2 <> [] /\ stack_ok ts2 /\ dsize ds2 = length ts2.
Proof.
  induction ts as [|top ts' IH]; intros ds Hne [Hc Hl] He Hs; [congruence|].
  cbn [pop_loop]. destruct (Z.ltb_spec (tend top) e) as [Hlt|Hge].
  - destruct ts' as [|top' ts''].
    { specialize (Hl Hne). cbn in Hl. lia. }
    destruct (ds_pop_size ds) as (ds' & E & S'); [rewrite Hs; cbn; lia|].
    rewrite E. apply IH; [discriminate| |exact He|rewrite Hs in S'; cbn in *; lia].
    split; [now inversion Hc|]. intros _. specialize (Hl Hne). exact Hl.
  - exists (top :: ts'), ds. repeat split; auto.
Qed.

Definition loop_inv (cur : nat) (ds : dstack) (ts : list token) : Prop :=
  (cur < length toks)%nat /\ dsize ds = S (length ts) /\ stack_ok ts /\ (ts = [] -> cur = O).

Lemma build_no_oob : forall fuel cur ds ts,
  loop_inv cur ds ts -> forall w, build v js t fuel cur ds ts <> Oob w.
Proof.
  induction fuel as [|fuel IH]; intros cur ds ts (Hcur & Hds & Hst & Hts0) w; [discriminate|].
  cbn [build]. unfold bmid.
  destruct (tok_at_real cur Hcur) as (tk & E & (Ty & Te)). rewrite E.
  (* the switch *)
  assert (SW : exists ds1 ts1, bswitch v js tk cur ds ts = Ok (S cur, ds1, ts1) /\
                               dsize ds1 = length ts1 /\ stack_ok ts1).
  { unfold bswitch.
    destruct (N.eqb_spec (ttype tk) T_STRING) as [e1|n1]; [|destruct (N.eqb_spec (ttype tk) T_PRIM) as [e2|n2]]; cbn [orb].
    1,2: destruct (ds_top_size ds) as ([vb a l m] & Et); [lia|]; rewrite Et;
      match goal with |- context [ds_pop ?x] => destruct (ds_pop_size x) as (ds' & Ep & Sp); [rewrite ds_set_top_size; lia|] end;
      rewrite Ep; exists ds', ts; split; [reflexivity|]; rewrite ds_set_top_size in Sp; split; [lia|exact Hst].
    assert (Ct : is_container tk).
    { unfold is_container, T_STRING, T_PRIM, T_OBJECT, T_ARRAY in *. lia. }
    assert (Eo : (ttype tk =? T_OBJECT) || (ttype tk =? T_ARRAY) = true).
    { destruct Ct as [-> | ->]; reflexivity. }
    rewrite Eo. exists ds, (tk :: ts). split; [reflexivity|]. split; [cbn; lia|].
    destruct Hst as [Hc Hl]. split; [now constructor|]. intros _.
    destruct ts as [|x ts'].
    - cbn. rewrite (Hts0 eq_refl) in E. apply H0. unfold tok_at, t in E.
      rewrite nth_error_app1 in E by lia. exact E.
    - change (last (tk :: x :: ts') zero_token) with (last (x :: ts') zero_token). apply Hl. discriminate. }
  destruct SW as (ds1 & ts1 & -> & Hds1 & Hst1).
  destruct (tok_at_le (S cur)) as (tk1 & E1); [lia|]. rewrite E1.
  destruct (Z.eqb_spec (tend tk1) 0) as [Z0|Z0]; [discriminate|]. cbn [orb].
  destruct ts1 as [|b0 ts1']; [discriminate|].
  pose proof (tok_at_nonzero _ _ E1 Z0) as Hcur1.
  destruct (tok_at_real (S cur) Hcur1) as (tk1' & E1' & (Ty1 & Te1)). rewrite E1 in E1'. inversion E1'; subst tk1'. clear E1'.
  destruct (pop_loop_ok (tend tk1) (b0 :: ts1') ds1) as (ts2 & ds2 & -> & Hne2 & Hst2 & Hds2);
    [discriminate|exact Hst1|lia|exact Hds1|].
  destruct ts2 as [|back ts2']; [congruence|].
  assert (Cb : is_container back) by (destruct Hst2 as [Hc _]; now inversion Hc).
  unfold bkey. rewrite Hkey, Hcont. cbn [negb].
  destruct Cb as [Cb|Cb]; rewrite Cb.
  - (* object *)
    change (T_OBJECT =? T_OBJECT) with true. cbn [andb].
    destruct (is_keyish tk1); [|discriminate].
    destruct (ds_push_key_size ds2 (json_unescape (substr js (tstart tk1) (tend tk1)))) as (ds3 & -> & Hds3); [rewrite Hds2; cbn; lia|].
    destruct (tok_at_le (S (S cur))) as (tk2 & E2); [lia|]. rewrite E2.
    destruct (Z.eqb_spec (tend tk2) 0) as [Z2|Z2]; [discriminate|].
    change (T_OBJECT =? T_ARRAY) with false.
    apply IH. repeat split; try (destruct Hst2; assumption).
    + eapply tok_at_nonzero; eauto.
    + lia.
    + intros; discriminate.
  - (* array *)
    change (T_ARRAY =? T_OBJECT) with false. cbn [andb]. change (T_ARRAY =? T_ARRAY) with true.
    destruct (ds_push_elem_size ds2) as (ds4 & -> & Hds4); [rewrite Hds2; cbn; lia|].
    apply IH. repeat split; try (destruct Hst2; assumption); [lia|intros; discriminate].
Qed.

End Builder.

(* ---------------------------------------------------------------------------------------- *)
(* fromJSON *)

Lemma from_json_total_lemma v s : from_json v s <> OutOfFuel.
Proof.
  unfold from_json, from_json_fuel.
  destruct (trim s) as [|c r] eqn:Et; [discriminate|].
  destruct (negb ((c =? c_lbrace) || (c =? c_lbrack))); [discriminate|].
  pose proof (tok_retry_some retry_fuel 16 (c :: r)) as Hs.
  pose proof (tok_retry_inv retry_fuel 16 (c :: r)) as Hi.
  destruct (tok_retry retry_fuel 16 (c :: r)) as [[[toks|e|] n]|].
  - destruct Hi as (Hl & Hf).
    replace (n + 1 - length toks)%nat with (S (n - length toks)) by lia.
    destruct (nth_error _ 0); [|discriminate].
    destruct (negb _); [discriminate|].
    apply build_fuel_enough with (L := length (c :: r)); [exact Hf|].
    unfold build_fuel. lia.
  - discriminate.
  - discriminate.
  - elim Hs; [unfold retry_fuel; lia|unfold retry_fuel; cbn; lia|reflexivity].
Qed.

Lemma from_json_no_oob_lemma v :
  jv_key_overread v = false -> jv_container_key v = false ->
  forall s w, from_json v s <> Oob w.
Proof.
  intros Hk Hc s w. unfold from_json, from_json_fuel.
  destruct (trim s) as [|c r] eqn:Et; [discriminate|].
  destruct (negb ((c =? c_lbrace) || (c =? c_lbrack))); [discriminate|].
  pose proof (tok_retry_inv retry_fuel 16 (c :: r)) as Hi.
  destruct (tok_retry retry_fuel 16 (c :: r)) as [[[toks|e|] n]|]; try discriminate; [|contradiction].
  destruct Hi as (Hl & Hf).
  replace (n + 1 - length toks)%nat with (S (n - length toks)) by lia.
  destruct toks as [|t0 toks'].
  - cbn [app repeat nth_error]. cbn. discriminate.
  - cbn [app nth_error].
    destruct (Z.eqb_spec (tend t0) (Z.of_nat (length (c :: r)))) as [E0|E0]; cbn [negb]; [|discriminate].
    change (t0 :: toks' ++ repeat zero_token (S (n - length (t0 :: toks'))))
      with ((t0 :: toks') ++ repeat zero_token (S (n - length (t0 :: toks')))).
    apply build_no_oob with (L := length (c :: r)); try assumption.
    + intros t0' E. cbn in E. inversion E; subst. exact E0.
    + repeat split; cbn; try lia; [constructor|intros; congruence].
Qed.

Example from_json_no_oob_nonvacuous :
  jv_key_overread js_fixed = false /\ jv_container_key js_fixed = false /\
  exists s d, from_json js_fixed s = Ok d /\ d <> empty_data.
Proof.
  repeat split. exists [123; 34; 97; 34; 125], (D false [] [] [([97], empty_data)]).
  split; [vm_compute; reflexivity|discriminate].
Qed.
