(* CGenChain.v -- C04 + C03 + C01 in one chain, for the model of the emitted code: what is observed of the byte-level run
   of the machine ChartToC writes (CGen.brun_loop over the emitted tables) is what W3C Appendix D prescribes.
     emitted byte level  = emitted set level           CGenRefine*.v        (data refinement, every run)
     emitted set level   = FastMicroStep               CGenEquiv*.v         (fragment chart_c, non-empty event names)
     FastMicroStep       = LargeMicroStep              EngineEquiv*.v       (C03; guard eq_guard_run / eq_guard_run_hist)
     LargeMicroStep      = Appendix D                  RunConform*.v        (C01; guard run_guardb)
   The two guard families are one boolean [chain_guardb] / [chain_guard_histb] on the number m of steps of the default
   engine that the calls of uscxml_step() amount to.
   What is related: the byte-level observation is COARSER than the interpreter's trace -- it is (CGenRefineMain.b_observed)
   how the run ended (BEnd: no access out of bounds, no diverging counter, no fuel exhausted), the sequence of events handed
   to the selection, and the configuration reported after the last call (state ids, root included) -- and it is related to
   Appendix D's state after k iterations of its main loop: the events Appendix D dequeued so far, in the same order, and
   its configuration (with the root, which Appendix D does not keep in the configuration).  Entered / exited states and
   executed content of the individual microsteps are NOT part of the byte-level observation (the harness trace has no such
   tokens); for them C04's cstep_* theorems and C01's run_conforms* speak about the set level / the engine trace.
   Proofs only. *)
From V Require Import Base NameMatch Chart Exec Large LargeLemmas Fast Interp Spec WfCore GenCGen CGen CGenLemmas MicroConform
                      RunConformBase RunConformInit RunConformStep RunConformLoop RunConformInitialStep RunConformInitialLoop
                      RunConformHistStep RunConformHistRun
                      EngineEquivRun EngineEquivMain EngineEquivHistRun EngineEquivHistMain
                      CGenEquivContent CGenEquivRun CGenEquivMain CGenEquivHist CGenEquivHistRun CGenEquivHistMain CGenEquivHistDefault
                      CGenEquivWitness
                      FlattenStaticTree FlattenStaticMain FlattenStaticC01 FlattenStaticC01Main
                      CGenRefineTables CGenRefineRun CGenRefineMain CGenRefineDoc CGenRefineDocMain.
From Coq Require Import Lia.
Local Open Scope nat_scope.

(* ------------------------------------------------------------------ the projection of C01 keeps the events *)
Lemma fview_view r : forall l w, filter_map fview (view r w l) = filter_map fview l.
Proof.
  induction l as [|t l IH]; intros w; cbn [view filter_map]; [reflexivity|].
  assert (E : forall a b, filter_map fview (a ++ b) = filter_map fview a ++ filter_map fview b).
  { induction a as [|x a IHa]; intros b; cbn [app filter_map]; [reflexivity|]. destruct (fview x); cbn [app]; now rewrite IHa. }
  rewrite E, IH. destruct t; cbn [vstep fst snd filter_map fview app]; try reflexivity;
    try (destruct w; reflexivity); destruct (s =? r)%N; reflexivity.
Qed.

Lemma filter_map_rev {A B} (f : A -> option B) (l : list A) : filter_map f (rev l) = rev (filter_map f l).
Proof.
  assert (E : forall a b, filter_map f (a ++ b) = filter_map f a ++ filter_map f b).
  { induction a as [|x a IHa]; intros b; cbn [app filter_map]; [reflexivity|]. destruct (f x); cbn [app]; now rewrite IHa. }
  induction l as [|x l IH]; cbn [rev filter_map]; [reflexivity|].
  rewrite E, IH. cbn [filter_map]. destruct (f x); cbn [rev]; [reflexivity | now rewrite app_nil_r].
Qed.

Lemma same_events r o1 o2 : spec_view r (rev o1) = spec_view r (rev o2) -> filter_map fview o1 = filter_map fview o2.
Proof.
  intros H. apply (f_equal (filter_map fview)) in H. unfold spec_view in H. rewrite !fview_view, !filter_map_rev in H.
  apply (f_equal (@rev _)) in H. now rewrite !rev_involutive in H.
Qed.

(* ------------------------------------------------------------------ guards, and what Appendix D prescribes *)
(* both guard families along the default engine's run of m steps (m >= 1) *)
Definition chain_guardb (c : fchart) (evs : list bytes) (m : nat) : bool :=
  (0 <? m) && eq_guard_run ex_fixed c m l_pristine x_init evs && run_guardb c evs m.
Definition chain_guard_histb (c : fchart) (evs : list bytes) (m : nat) : bool :=
  (0 <? m) && eq_guard_run_hist ex_fixed c m l_pristine x_init evs && run_guardb c evs m.

(* Appendix D after interpret()'s start and k iterations of its main loop (exitInterpreter run iff [fin]): the events it
   dequeued (newest first, as the traces are kept) and its configuration, as state ids, with the root *)
Definition spec_observed (c : fchart) (evs : list bytes) (k : nat) (fin : bool) : list bytes * list N :=
  let sp := Spec.spec_loop c k (fst (spec_init c x_init)) (snd (spec_init c x_init)) evs in
  let xs' := if fin then Spec.exit_interpreter c (fst sp) (snd sp) else snd sp in
  (filter_map fview (x_out xs'), CGen.sids c (0 :: s_cfg (fst sp))).

Section Chain.
Variable cv : cg_variant.
Variable c : fchart.
Variable evs : list bytes.
Hypothesis Hns : (N.of_nat (nstates c) < 2 ^ 24)%N.
Hypothesis Hnt : (N.of_nat (ntrans c) < 2 ^ 24)%N.
Hypothesis Hok : bref_chartb c = true.
(* C01, runs cut by the bound *)
Hypothesis Hprefix : forall fuel, run_guardb c evs (S fuel) = true ->
  exists k, k <= fuel /\
    let res := run_loop c lstate (large_step lg_fixed ex_fixed c) l_cfg (S fuel) l_pristine x_init evs in
    let sp := Spec.spec_loop c k (fst (spec_init c x_init)) (snd (spec_init c x_init)) evs in
    let xs' := if l_fin (fst res) then Spec.exit_interpreter c (fst sp) (snd sp) else snd sp in
    corr c (fst res) (fst sp) /\ x_store (snd res) = x_store xs' /\
    spec_view (fs_sid (st c 0)) (rev (x_out (snd res))) = spec_view (fs_sid (st c 0)) (rev (x_out xs')).
(* C04 set level + C03, pointwise in the number of engine steps *)
Variable G : nat -> bool.
Hypothesis Hpoint : forall n, exists m, G m = true ->
  let rc := crun_loop cv c n l_pristine cx_init evs in
  let rl := run_loop c lstate (large_step lg_fixed ex_fixed c) l_cfg m l_pristine x_init evs in
  same_machine_state (fst rc) (fst rl) /\ same_queues_and_events (snd rc) (snd rl).

Lemma chain_generic n : exists m,
  (0 <? m) && G m && run_guardb c evs m = true ->
  exists k fin, k < m /\
    b_observed (brun_loop cv c (bmachine_of cv c) (S n) (bst_init c) evs) =
    (BEnd, fst (spec_observed c evs k fin), Some (snd (spec_observed c evs k fin))).
Proof.
  destruct (Hpoint (S n)) as (m & Hm). exists m. intros Hg.
  apply andb_true_iff in Hg as [Hg G3]. apply andb_true_iff in Hg as [G1 G2]. apply Nat.ltb_lt in G1.
  destruct m as [|f]; [lia|]. destruct (Hm G2) as ([A _] & (_ & _ & B)). cbv zeta in A, B.
  destruct (Hprefix f G3) as (k & Hk & Co & _ & V). cbv zeta in Co, V.
  exists k, (l_fin (fst (run_loop c lstate (large_step lg_fixed ex_fixed c) l_cfg (S f) l_pristine x_init evs))).
  split; [lia|].
  destruct (observed_of_set_level cv c Hns Hnt Hok n evs) as [_ O]. cbv zeta in O. rewrite O.
  unfold spec_observed. cbn [fst snd]. rewrite B, A. destruct Co as [Cc _]. rewrite Cc.
  rewrite (same_events _ _ _ V). reflexivity.
Qed.

End Chain.

(* ------------------------------------------------------------------ the engine equivalence with pseudo-states, pointwise *)
Lemma cstep_run_equals_default_engine_history_pointwise cv xv c :
  cv_repaired cv -> eq_chartb_hist c = true -> chart_c c = true -> chart_h c = true ->
  forall evs, Forall (fun e => e <> []) evs ->
  forall n, exists m,
    eq_guard_run_hist xv c m l_pristine x_init evs = true ->
    let rc := crun_loop cv c n l_pristine cx_init evs in
    let rl := run_loop c lstate (large_step lg_fixed xv c) l_cfg m l_pristine x_init evs in
    same_machine_state (fst rc) (fst rl) /\ same_queues_and_events (snd rc) (snd rl).
Proof.
  intros Hcv He Hc Hh evs Hev n. destruct (eq_chartb_hist_parts c He) as (H & Hr & _).
  destruct (cstep_run_equiv_history_lemma cv xv c Hcv (conj H (conj Hr (conj Hc Hh))) n evs Hev) as (m & A & B). cbv zeta in A, B.
  exists m. intros Hg.
  destruct (fast_large_run_equiv_hist_lemma xv c m evs He Hg) as [(E1 & E2 & _ & _ & _ & E6 & E7 & _) E]. cbv zeta.
  rewrite <- E. split; [|exact B]. destruct A as (A1 & A2 & A3 & A4). unfold same_machine_state. repeat split; congruence.
Qed.

(* ------------------------------------------------------------------ documents *)
Section Docs.
Variable cv : cg_variant.
Variable t : tree.
Let c := flatten false t.
Hypothesis Hns : (N.of_nat (nstates c) < 2 ^ 24)%N.
Hypothesis Hnt : (N.of_nat (ntrans c) < 2 ^ 24)%N.

(* the history-free core: states, parallel, final *)
Theorem emitted_c_run_follows_appendix_d_partial_lemma :
  cg_tlf_first_byte cv = false -> eq_tree_coreb t = true -> c01_full_treeb t = true -> chart_c c = true ->
  forall evs, Forall (fun e => e <> []) evs ->
  forall n, exists m,
    chain_guardb c evs m = true ->
    exists k fin, k < m /\
      b_observed (brun_loop cv c (bmachine_of cv c) (S n) (bst_init c) evs) =
      (BEnd, fst (spec_observed c evs k fin), Some (snd (spec_observed c evs k fin))).
Proof.
  intros Htl He Hs Hc evs Hev n. pose proof (eq_tree_core_chart false t He) as Hec. fold c in Hec.
  assert (Hok : bref_chartb c = true).
  { apply bref_chartb_flatten. apply (root_compound_doc_ok false). apply (eq_chartb_core c Hec). }
  apply (chain_generic cv c evs Hns Hnt Hok).
  - intros fuel. apply (run_conforms_prefix_lemma false t (c01_tree_static false t Hs)).
  - intros n'. apply (cstep_run_equals_default_engine_pointwise_lemma cv ex_fixed c Htl Hec Hc evs Hev).
Qed.

(* <initial> elements and deep / multiple `initial` attributes (C01's static_ib through c01i_treeb); repaired template *)
Theorem emitted_c_run_follows_appendix_d_initial_partial_lemma :
  cv_repaired cv -> eq_tree_histb t = true -> c01i_treeb t = true -> chart_c c = true -> chart_h c = true ->
  forall evs, Forall (fun e => e <> []) evs ->
  forall n, exists m,
    chain_guard_histb c evs m = true ->
    exists k fin, k < m /\
      b_observed (brun_loop cv c (bmachine_of cv c) (S n) (bst_init c) evs) =
      (BEnd, fst (spec_observed c evs k fin), Some (snd (spec_observed c evs k fin))).
Proof.
  intros Hcv He Hs Hc Hh evs Hev n. pose proof (eq_tree_hist_chart false t He) as Hec. fold c in Hec.
  assert (Hok : bref_chartb c = true).
  { apply bref_chartb_flatten. apply (root_compound_doc_ok false). destruct (eq_chartb_hist_parts c Hec) as (_ & Hr & _). exact Hr. }
  apply (chain_generic cv c evs Hns Hnt Hok).
  - intros fuel. apply (run_conforms_prefix_initial_lemma false t (document_static_initial_lemma false t Hs)).
  - intros n'. apply (cstep_run_equals_default_engine_history_pointwise cv ex_fixed c Hcv Hec Hc Hh evs Hev).
Qed.

(* <history>: C01's static_hb is a condition on the flat tables (no document-level predicate yet) *)
Theorem emitted_c_run_follows_appendix_d_history_partial_lemma :
  cv_repaired cv -> eq_tree_histb t = true -> static_hb c = true -> chart_c c = true -> chart_h c = true ->
  forall evs, Forall (fun e => e <> []) evs ->
  forall n, exists m,
    chain_guard_histb c evs m = true ->
    exists k fin, k < m /\
      b_observed (brun_loop cv c (bmachine_of cv c) (S n) (bst_init c) evs) =
      (BEnd, fst (spec_observed c evs k fin), Some (snd (spec_observed c evs k fin))).
Proof.
  intros Hcv He Hs Hc Hh evs Hev n. pose proof (eq_tree_hist_chart false t He) as Hec. fold c in Hec.
  assert (Hok : bref_chartb c = true).
  { apply bref_chartb_flatten. apply (root_compound_doc_ok false). destruct (eq_chartb_hist_parts c Hec) as (_ & Hr & _). exact Hr. }
  apply (chain_generic cv c evs Hns Hnt Hok).
  - intros fuel. apply (run_conforms_prefix_hist_lemma false t Hs).
  - intros n'. apply (cstep_run_equals_default_engine_history_pointwise cv ex_fixed c Hcv Hec Hc Hh evs Hev).
Qed.

End Docs.

(* ------------------------------------------------------------------ non-vacuity: the document of cstep_hypotheses_satisfiable
   (a <parallel> state with two compound regions, <final> states in both, done events, raise / send / log / if) is in
   both fragments; both guards hold along the 31 steps of the default engine that the 9 calls of uscxml_step() amount
   to; what the byte-level run shows after its 9th call is Appendix D's state after 11 iterations and exitInterpreter:
   the same 11 events in the same order, configuration {root, s9} *)
Example chain_hypotheses_satisfiable :
  let c := flatten false cx_tree in
  eq_tree_coreb cx_tree = true /\ c01_full_treeb cx_tree = true /\ chart_c c = true /\
  Forall (fun e => e <> []) cx_events /\
  (N.of_nat (nstates c) < 2 ^ 24)%N /\ (N.of_nat (ntrans c) < 2 ^ 24)%N /\
  chain_guardb c cx_events 31 = true /\
  b_observed (brun_loop cg_repaired c (bmachine_of cg_repaired c) 9 (bst_init c) cx_events) =
    (BEnd, fst (spec_observed c cx_events 11 true), Some (snd (spec_observed c cx_events 11 true))) /\
  snd (spec_observed c cx_events 11 true) = [0; 9]%N /\ length (fst (spec_observed c cx_events 11 true)) = 11.
Proof.
  cbv zeta. repeat split; try (vm_compute; reflexivity).
  repeat constructor; discriminate.
Qed.
