(* EngineEquivMicro.v -- C03: Fast.fmicrostep against Large.microstep (from REMEMBER_HISTORY to the end of
   step()), composed from EngineEquivEntry.v (entry set), EngineEquivStep.v (entering) and EngineEquivDone.v
   (done events): for a microstep after a selection and for the initial microstep.  Proofs only. *)
From V Require Import Base NameMatch Chart Exec Large LargeLemmas Fast Legal SetLemmas LegalAbstract LegalLarge
  LegalRun WfCore LegalOracle LargeCacheLemmas SelectConform SelectConformLemmas MicroConform MicroConformLemmas
  MicroConformEntry MicroConformCompose EngineEquivBase EngineEquivEntry EngineEquivDone EngineEquivStep.
Local Open Scope nat_scope.

Section Micro.
Variable xv : ex_variant.
Variable c : fchart.
Hypothesis Hwf : wf_coreb c = true.
Hypothesis Hleaf : leaf_okb c = true.
Hypothesis Hpar : par_nonemptyb c = true.
Let W : WF c := wf_coreb_sound c Hwf.
Let n := nstates c.
Let par (i : nat) := fs_parent (st c i).
Let ch (i : nat) := fs_children (st c i).
Let kd (i : nat) := fs_type (st c i).

Variable lf ll : lstate.
Variable x : xstate.
Variable targets exitset transset : list nat.
Variable ini : bool.
Let cfg := l_cfg ll.
Let hist := l_hist ll.
Let es := fst (entry_set lg_fixed c cfg exitset hist targets transset).
Let cfg1 := set_diff cfg exitset.
Let E := set_diff es cfg1.

Hypothesis Hrel : lstate_eqv c lf ll.
Hypothesis Hplain : plain_transb c transset = true.
Hypothesis Hentry : fentry_set c cfg exitset hist targets transset = entry_set lg_fixed c cfg exitset hist targets transset.
Hypothesis Hts : snd (entry_set lg_fixed c cfg exitset hist targets transset) = transset.
Hypothesis cfg_sorted : ssorted cfg.
Hypothesis cfg_bound : forall y, In y cfg -> y < n.
Hypothesis es_sorted : ssorted es.
Hypothesis es_bound : forall y, In y es -> y < n.
Hypothesis Hlegal : Legal par ch kd (fun y => In y (ins_all E cfg1)).
Hypothesis Hguard : ms_guardb c ll targets exitset transset ini = true.

Theorem ee_microstep_rel :
  lstate_eqv c (fst (fmicrostep xv c lf x targets exitset transset ini))
               (fst (microstep lg_fixed xv c ll x targets exitset transset ini)) /\
  snd (fmicrostep xv c lf x targets exitset transset ini) = snd (microstep lg_fixed xv c ll x targets exitset transset ini).
Proof.
  destruct Hrel as (Rc & Rh & Ri & Rs & Rin & Rt & Rf & Rst & Rca).
  destruct (ee_remember c Hwf cfg exitset hist) as [Ef El].
  assert (Hg : done_guardb c (ins_all E cfg1) E = true).
  { unfold ms_guardb in Hguard. cbn zeta in Hguard. fold cfg in Hguard. fold hist in Hguard. rewrite El in Hguard.
    replace (if ini then hist else hist) with hist in Hguard by (destruct ini; reflexivity). exact Hguard. }
  unfold fmicrostep, microstep. cbn zeta. rewrite Rc, Rh. fold cfg. fold hist. rewrite Ef, El.
  replace (if ini then hist else hist) with hist by (destruct ini; reflexivity).
  rewrite Hentry.
  assert (Ees : entry_set lg_fixed c cfg exitset hist targets transset = (es, transset)).
  { rewrite (surjective_pairing (entry_set lg_fixed c cfg exitset hist targets transset)). now rewrite Hts. }
  rewrite Ees.
  pose proof (ee_exit_fold_set xv c exitset cfg x) as Hc1.
  destruct (fold_left (exit_one xv c) (rev exitset) (cfg, x)) as [cfg1' x1]. cbn [fst] in Hc1. fold cfg1 in Hc1. subst cfg1'.
  set (x2 := fold_left (take_one xv c cfg1) transset x1).
  set (af := {| ea_cfg := cfg1; ea_initd := l_initd lf; ea_tlf := l_tlf lf; ea_x := x2 |}).
  set (al := {| ea_cfg := cfg1; ea_initd := l_initd ll; ea_tlf := l_tlf ll; ea_x := x2 |}).
  assert (Hacc : acc_eqv c af al) by (unfold acc_eqv, af, al; cbn [ea_cfg ea_initd ea_tlf ea_x]; auto).
  assert (Hc1s : ssorted cfg1) by (unfold cfg1, set_diff; now apply ssorted_filter).
  assert (HEs : ssorted E) by (unfold E, set_diff; now apply ssorted_filter).
  rewrite (ee_fenter_skip xv c Hwf transset es af (ssorted_NoDup _ es_sorted)).
  change (filter (fun i => negb (mem i (ea_cfg af))) es) with E.
  change (set_diff es cfg1) with E.
  assert (HR : acc_eqv c (fold_left (fenter_one xv c transset) E af) (fold_left (enter_one xv c transset) E al)).
  { apply (ee_enter_fold_rel xv c Hwf transset Hplain E af al Hacc (ssorted_NoDup _ HEs)).
    - intros i Hi. unfold E in Hi. apply In_set_diff in Hi. exact (proj2 Hi).
    - intros pre f post HE Hf y. cbn [ea_cfg al].
      assert (Hb1 : forall z, In z cfg1 -> z < n) by (intros z Hz; unfold cfg1 in Hz; apply In_set_diff in Hz; apply cfg_bound; tauto).
      assert (HbE : forall z, In z E -> z < n) by (intros z Hz; unfold E in Hz; apply In_set_diff in Hz; apply es_bound; tauto).
      exact (ee_guard_done c Hwf Hleaf Hpar cfg1 E Hc1s HEs Hb1 HbE Hlegal Hg pre f post HE Hf y). }
  destruct HR as (A1 & A2 & A3 & A4). cbn [fst snd]. split.
  - unfold lstate_eqv. cbn [l_cfg l_hist l_initd l_spont l_init l_tlf l_fin l_stable l_cancelled]. repeat split; assumption.
  - now rewrite A4.
Qed.

End Micro.

(* ------------------------------------------------------------------ after a selection *)

Section AfterSelection.
Variable xv : ex_variant.
Variable c : fchart.
Hypothesis Hwf : wf_coreb c = true.
Hypothesis Hleaf : leaf_okb c = true.
Hypothesis Hpar : par_nonemptyb c = true.
Let W : WF c := wf_coreb_sound c Hwf.

Variable lf ll : lstate.
Variable x : xstate.
Variable sel : list nat.
Hypothesis Hrel : lstate_eqv c lf ll.
Hypothesis Hlegal : LegalCfg c (l_cfg ll).
Hypothesis Hsorted : ssorted (l_cfg ll).
Hypothesis Hsel_src : forall ti, In ti sel -> In (ft_source (tr c ti)) (l_cfg ll).
Hypothesis Hsel_ok : pairwise_ok lg_fixed c sel.
Hypothesis Hplain : plain_transb c sel = true.
Hypothesis Hguard : ms_guardb c ll (sel_targets c sel) (sel_exitset c (l_cfg ll) sel) sel false = true.

Theorem ee_microstep_sel :
  lstate_eqv c (fst (fmicrostep xv c lf x (sel_targets c sel) (sel_exitset c (l_cfg ll) sel) sel false))
               (fst (microstep lg_fixed xv c ll x (sel_targets c sel) (sel_exitset c (l_cfg ll) sel) sel false)) /\
  snd (fmicrostep xv c lf x (sel_targets c sel) (sel_exitset c (l_cfg ll) sel) sel false) =
  snd (microstep lg_fixed xv c ll x (sel_targets c sel) (sel_exitset c (l_cfg ll) sel) sel false).
Proof.
  destruct Hlegal as [Hleg Hbound].
  set (cfg := l_cfg ll) in *. set (hist := l_hist ll).
  destruct (entry_set_core c W cfg (sel_exitset c cfg sel) hist (sel_targets c sel) sel (ee_sel_targets_sorted c sel)) as [Hts Hes].
  apply (ee_microstep_rel xv c Hwf Hleaf Hpar); try assumption.
  - now apply ee_entry_set_sel.
  - exact (inv_bound _ _ _ _ _ _ (InvF c W cfg sel hist)).
  - pose proof (microstep_sets_legal c W cfg sel Hleg Hbound Hsel_src Hsel_ok hist) as HL.
    revert HL. apply Legal_ext. intros y. rewrite ee_In_ins_all, !In_set_diff.
    change (exitset c cfg sel) with (sel_exitset c cfg sel).
    change (Efs c cfg sel hist) with (fst (entry_set lg_fixed c cfg (sel_exitset c cfg sel) hist (sel_targets c sel) sel)).
    destruct (in_dec Nat.eq_dec y cfg), (in_dec Nat.eq_dec y (sel_exitset c cfg sel)); tauto.
Qed.

End AfterSelection.

(* ------------------------------------------------------------------ the initial microstep *)

Section InitialStep.
Variable xv : ex_variant.
Variable c : fchart.
Hypothesis Hwf : wf_coreb c = true.
Hypothesis Hleaf : leaf_okb c = true.
Hypothesis Hpar : par_nonemptyb c = true.
Hypothesis root_compound : fs_type (st c 0) = FCompound.
Let W : WF c := wf_coreb_sound c Hwf.

Variable lf ll : lstate.
Variable x : xstate.
Hypothesis Hrel : lstate_eqv c lf ll.
Hypothesis Hnil : l_cfg ll = [].
Hypothesis Hguard : ms_guardb c ll (fs_completion (st c 0)) [] [] true = true.

Theorem ee_microstep_init :
  lstate_eqv c (fst (fmicrostep xv c lf x (fs_completion (st c 0)) [] [] true))
               (fst (microstep lg_fixed xv c ll x (fs_completion (st c 0)) [] [] true)) /\
  snd (fmicrostep xv c lf x (fs_completion (st c 0)) [] [] true) =
  snd (microstep lg_fixed xv c ll x (fs_completion (st c 0)) [] [] true).
Proof.
  set (hist := l_hist ll).
  assert (Htg : ssorted (fs_completion (st c 0))).
  { destruct (wf_compound c W 0 root_compound) as (k & Hc & _). rewrite Hc. cbn. split; [intros ? [] | exact I]. }
  destruct (entry_set_core c W [] [] hist (fs_completion (st c 0)) [] Htg) as [Hts Hes].
  apply (ee_microstep_rel xv c Hwf Hleaf Hpar); try assumption; rewrite ?Hnil; try assumption.
  - reflexivity.
  - now apply ee_entry_set_init.
  - exact I.
  - intros y [].
  - exact (inv_bound _ _ _ _ _ _ (Inv_fin c W [] [] hist (fs_completion (st c 0)) [] (init_tg_bound c W root_compound))).
  - pose proof (initial_sets_legal c W hist root_compound) as HL.
    revert HL. apply Legal_ext. intros y. rewrite ee_In_ins_all. cbn [set_diff filter In].
    unfold Einit, Efin. rewrite In_set_diff. cbn [In]. tauto.
Qed.

End InitialStep.
