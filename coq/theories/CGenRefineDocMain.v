(* CGenRefineDocMain.v -- C04: the end-to-end statements of CGenRefineMain.v for DOCUMENTS.  For the flat tables of a
   document the check of the tables follows from the hypotheses of the behaviour theorems (the root is a compound state,
   hence an <scxml> or <state> element: CGenRefineDoc.bref_chartb_flatten), so what is observed of the byte-level run of
   the emitted machine is what the interpreter's engines show, with no hypothesis about the byte level beyond the size
   bound of the bounds theorems.  Proofs only. *)
From V Require Import Base NameMatch Chart Exec Large LargeLemmas Fast Interp WfCore GenCGen CGen CGenLemmas
                      EngineEquivRun EngineEquivMain EngineEquivHistRun EngineEquivHistMain
                      CGenEquivContent CGenEquivRun CGenEquivMain CGenEquivHist CGenEquivHistRun CGenEquivHistMain CGenEquivHistDefault
                      CGenRefineTables CGenRefineRun CGenRefineMain CGenRefineDoc.
From Coq Require Import Lia.
Local Open Scope nat_scope.

Lemma root_compound_doc_ok late t : fs_type (st (flatten late t) 0) = FCompound -> doc_root_okb t = true.
Proof.
  intros H. pose proof (tsize_pos (resort t)) as Hp. rewrite (doc_type late t 0 Hp) in H.
  rewrite (FlattenWfTree.ntree_root (resort t)) in H. unfold doc_root_okb. rewrite <- (resort_kind t).
  unfold type_of in H. destruct (t_kind (resort t)); try discriminate; reflexivity.
Qed.

Section Docs.
Variable cv : cg_variant.
Variable xv : ex_variant.
Variable t : tree.
Let c := flatten false t.
Hypothesis Hns : (N.of_nat (nstates c) < 2 ^ 24)%N.
Hypothesis Hnt : (N.of_nat (ntrans c) < 2 ^ 24)%N.

Theorem emitted_c_run_is_fast_engine_run_document_lemma :
  cg_tlf_first_byte cv = false -> wf_coreb c = true -> fs_type (st c 0) = FCompound -> chart_c c = true ->
  forall n evs, Forall (fun e => e <> []) evs ->
  exists m,
    let rf := run_loop c lstate (fast_step xv c) l_cfg m l_pristine x_init evs in
    b_observed (brun_loop cv c (bmachine_of cv c) (S n) (bst_init c) evs) =
    (BEnd, filter_map fview (x_out (snd rf)), Some (sids c (l_cfg (fst rf)))).
Proof.
  intros Htl Hw Hr Hc. apply emitted_c_run_is_fast_engine_run_lemma; try assumption.
  apply bref_chartb_flatten. now apply (root_compound_doc_ok false).
Qed.

Theorem emitted_c_run_is_fast_engine_run_history_document_lemma :
  cv_repaired cv -> hist_hyps c ->
  forall n evs, Forall (fun e => e <> []) evs ->
  exists m,
    let rf := run_loop c lstate (fast_step xv c) l_cfg m l_pristine x_init evs in
    b_observed (brun_loop cv c (bmachine_of cv c) (S n) (bst_init c) evs) =
    (BEnd, filter_map fview (x_out (snd rf)), Some (sids c (l_cfg (fst rf)))).
Proof.
  intros Hcv Hh. apply emitted_c_run_is_fast_engine_run_history_lemma; try assumption.
  apply bref_chartb_flatten. apply (root_compound_doc_ok false). apply Hh.
Qed.

Theorem emitted_c_run_is_default_engine_run_document_partial_lemma :
  cg_tlf_first_byte cv = false -> eq_chartb c = true -> chart_c c = true ->
  forall evs, Forall (fun e => e <> []) evs ->
  (forall m, eq_guard_run xv c m l_pristine x_init evs = true) ->
  forall n, exists m,
    let rl := run_loop c lstate (large_step lg_fixed xv c) l_cfg m l_pristine x_init evs in
    b_observed (brun_loop cv c (bmachine_of cv c) (S n) (bst_init c) evs) =
    (BEnd, filter_map fview (x_out (snd rl)), Some (sids c (l_cfg (fst rl)))).
Proof.
  intros Htl He Hc. apply emitted_c_run_is_default_engine_run_partial_lemma; try assumption.
  apply bref_chartb_flatten. apply (root_compound_doc_ok false). apply (eq_chartb_core c He).
Qed.

Theorem emitted_c_run_is_default_engine_run_history_document_partial_lemma :
  cv_repaired cv -> eq_chartb_hist c = true -> chart_c c = true -> chart_h c = true ->
  forall evs, Forall (fun e => e <> []) evs ->
  (forall m, eq_guard_run_hist xv c m l_pristine x_init evs = true) ->
  forall n, exists m,
    let rl := run_loop c lstate (large_step lg_fixed xv c) l_cfg m l_pristine x_init evs in
    b_observed (brun_loop cv c (bmachine_of cv c) (S n) (bst_init c) evs) =
    (BEnd, filter_map fview (x_out (snd rl)), Some (sids c (l_cfg (fst rl)))).
Proof.
  intros Hcv He Hc Hh. apply emitted_c_run_is_default_engine_run_history_partial_lemma; try assumption.
  apply bref_chartb_flatten. apply (root_compound_doc_ok false). destruct (eq_chartb_hist_parts c He) as (_ & Hr & _). exact Hr.
Qed.

End Docs.
