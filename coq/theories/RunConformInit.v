(* RunConformInit.v -- C01, run-level composition, layer 2: the initial microstep.  LargeMicroStep::step on a
   pristine interpreter (enter the completion of <scxml>) against the start of Appendix D's interpret():
   enterStates([doc.initial.transition]) after the global data initialisation.  History-free core.
   Part 1: the two entry sets are the same set (the default descendants of the root's initial child; the engine
   adds the root).  Part 2: entering.  Proofs only. *)
From V Require Import Base NameMatch NameMatchLemmas Chart Exec Large LargeLemmas Spec Legal SetLemmas LegalAbstract LegalLarge
  Interp LegalRun WfCore LegalOracle LargeCacheLemmas ExitSetLemmas SelectConform SelectConformLemmas SelectConformOrder
  SelectConformRoot SelectConformFlatten MicroConform MicroConformLemmas MicroConformEntry MicroConformCompose MicroConformFlatten
  Serialize SerializeCongLemmas RunConformBase.
Local Open Scope nat_scope.

(* ---- Appendix D's enterStates([doc.initial.transition]) (Spec.entry_step for Spec.init_trans) ---- *)

Lemma ancs_root c : fs_parent (st c 0) = None -> ancs c 0 None = [].
Proof. intros H. unfold ancs. destruct (Spec.n c); cbn [proper_ancestors]; [reflexivity | now rewrite H]. Qed.

(* the domain of the document's initial transition is the <scxml> element *)
Lemma init_trans_domain c h : fs_parent (st c 0) = None -> eff_targets c (Spec.n c) h (fst (initial_of c 0)) <> [] ->
  transition_domain c h (init_trans c) = Some 0.
Proof.
  intros Hp Hne. unfold transition_domain. cbn [init_trans ft_targets ft_internal ft_source andb].
  destruct (eff_targets c (Spec.n c) h (fst (initial_of c 0))) as [|y l]; [congruence|].
  unfold find_lcca. rewrite (ancs_root c Hp). reflexivity.
Qed.

Lemma entry_step_init c h e0 : fs_parent (st c 0) = None ->
  entry_step c h e0 (init_trans c) =
  fold_left (fun e s => add_ancestors c (spec_fuel c) h s (Some 0) e) (eff_targets c (Spec.n c) h (fst (initial_of c 0)))
            (fold_left (fun e s => add_descendants c (spec_fuel c) h s e) (fst (initial_of c 0)) e0).
Proof.
  intros Hp. unfold entry_step. cbn zeta. cbn [init_trans ft_targets].
  destruct (eff_targets c (Spec.n c) h (fst (initial_of c 0))) as [|y l] eqn:E; [reflexivity|].
  rewrite (init_trans_domain c h Hp) by (rewrite E; discriminate). reflexivity.
Qed.

Section InitSets.
Variable c : fchart.
Hypothesis W : WF c.
Let n := nstates c.
Notation par := (fun i => fs_parent (st c i)).
Notation ch := (fun i => fs_children (st c i)).
Notation kd := (fun i => fs_type (st c i)).
Notation Anc := (LegalAbstract.Anc (fun i => fs_parent (st c i))).

(* the default descendants of s: s; every child of a <parallel> member; the initial child of a compound member *)
Inductive DD (s : nat) : nat -> Prop :=
| dd_self : DD s s
| dd_par : forall p x, DD s p -> kd p = FParallel -> par x = Some p -> DD s x
| dd_comp : forall p x, DD s p -> kd p = FCompound -> fs_completion (st c p) = [x] -> DD s x.

Definition under (s y : nat) : Prop := y = s \/ Anc s y.

Lemma comp_child p x : kd p = FCompound -> fs_completion (st c p) = [x] -> par x = Some p.
Proof.
  intros Hk Hc. destruct (wf_compound c W p Hk) as (k & Hc' & Hin). rewrite Hc in Hc'. injection Hc' as ->.
  now apply (wf_children c W).
Qed.

Lemma DD_under s x : DD s x -> under s x.
Proof.
  induction 1 as [|p x _ IH _ Hp|p x _ IH Hk Hc]; [now left| |].
  - right. destruct IH as [->|IH]; [now apply anc_parent | eapply anc_step; eauto].
  - pose proof (comp_child p x Hk Hc) as Hp. right.
    destruct IH as [->|IH]; [now apply anc_parent | eapply anc_step; eauto].
Qed.

Lemma DD_lift s k x : DD k x -> DD s k -> DD s x.
Proof.
  induction 1 as [|p x _ IH Hk Hp|p x _ IH Hk Hc]; intros Hs;
    [exact Hs | eapply dd_par; [apply IH, Hs | exact Hk | exact Hp] | eapply dd_comp; [apply IH, Hs | exact Hk | exact Hc]].
Qed.

Lemma DD_unfold s x : DD s x <->
  x = s \/ (kd s = FParallel /\ exists k, par k = Some s /\ DD k x) \/
  (kd s = FCompound /\ exists k, fs_completion (st c s) = [k] /\ DD k x).
Proof.
  split.
  - induction 1 as [|p x _ IH Hk Hp|p x _ IH Hk Hc]; [now left| |].
    + right. destruct IH as [->|[(Hs & k & Hks & Hkp)|(Hs & k & Hks & Hkp)]].
      * left. split; [exact Hk|]. exists x. split; [exact Hp | constructor].
      * left. split; [exact Hs|]. exists k. split; [exact Hks | eapply dd_par; eauto].
      * right. split; [exact Hs|]. exists k. split; [exact Hks | eapply dd_par; eauto].
    + right. destruct IH as [->|[(Hs & k & Hks & Hkp)|(Hs & k & Hks & Hkp)]].
      * right. split; [exact Hk|]. exists x. split; [exact Hc | constructor].
      * left. split; [exact Hs|]. exists k. split; [exact Hks | eapply dd_comp; eauto].
      * right. split; [exact Hs|]. exists k. split; [exact Hks | eapply dd_comp; eauto].
  - intros [->|[(Hs & k & Hks & Hkx)|(Hs & k & Hks & Hkx)]]; [constructor| |].
    + apply (DD_lift s k x Hkx). eapply dd_par; [constructor | exact Hs | exact Hks].
    + apply (DD_lift s k x Hkx). eapply dd_comp; [constructor | exact Hs | exact Hks].
Qed.

Lemma under_child s k y : par k = Some s -> under k y -> Anc s y.
Proof. intros Hp [->|H]; [now apply anc_parent | eapply anc_trans; [apply anc_parent; exact Hp | exact H]]. Qed.

Lemma anc_antisym' a b : Anc a b -> Anc b a -> False.
Proof. intros H1 H2. exact (anc_irrefl c W _ (anc_trans c _ _ _ H1 H2)). Qed.

(* the sub-trees of two different children of one state are disjoint *)
Lemma siblings_disjoint s k1 k2 y : par k1 = Some s -> par k2 = Some s -> k1 <> k2 -> under k1 y -> under k2 y -> False.
Proof.
  intros H1 H2 Hne U1 U2.
  assert (Hnot : forall a b, par a = Some s -> par b = Some s -> Anc a b -> False).
  { intros a b Ha Hb Hab. destruct (anc_child par _ _ _ Hb Hab) as [->|Has].
    - destruct (wf_par_lt c W _ _ Ha). lia.
    - apply (anc_antisym' a s Has). now apply anc_parent. }
  destruct U1 as [->|U1], U2 as [E|U2].
  - now apply Hne.
  - exact (Hnot k2 k1 H2 H1 U2).
  - subst y. exact (Hnot k1 k2 H1 H2 U1).
  - destruct (anc_chain c k1 k2 y U1 U2) as [E|[E|E]]; [now apply Hne | exact (Hnot _ _ H1 H2 E) | exact (Hnot _ _ H2 H1 E)].
Qed.

(* ---- addDescendantStatesToEnter from a state below which nothing has been added ---- *)

Variable h : hv.

Definition AD0 (f : nat) : Prop :=
  forall s e, n - s < f -> s < n -> (forall y, In y (e_enter e) -> ~ under s y) -> e_histcontent e = [] ->
    e_histcontent (add_descendants c f h s e) = [] /\
    forall x, In x (e_enter (add_descendants c f h s e)) <-> In x (e_enter e) \/ DD s x.

Lemma kids0 f (IH : AD0 f) s : n - s <= f -> s < n ->
  forall l, NoDup l -> (forall k, In k l -> par k = Some s) ->
  forall e1, (forall k y, In k l -> In y (e_enter e1) -> ~ under k y) -> e_histcontent e1 = [] ->
  let e' := fold_left (fun e k => if some_descendant_of c (e_enter e) k then e else add_descendants c f h k e) l e1 in
  e_histcontent e' = [] /\ forall x, In x (e_enter e') <-> In x (e_enter e1) \/ exists k, In k l /\ DD k x.
Proof.
  intros Hf Hs. induction l as [|k r IHl]; intros Hnd Hpar e1 Hpre Hhc; cbn [fold_left].
  - split; [exact Hhc|]. intros x. split; [tauto | intros [H|(k & [] & _)]; exact H].
  - inversion Hnd as [|? ? Hk Hnd']; subst.
    assert (Hpk : par k = Some s) by (apply Hpar; now left).
    destruct (wf_par_lt c W _ _ Hpk) as [Hlt Hkn]. fold n in Hkn.
    assert (Hsd : some_descendant_of c (e_enter e1) k = false).
    { apply not_true_is_false. intros H. apply existsb_exists in H as (y & Hy & Hd).
      apply (is_descendant_anc c) in Hd. apply (Hpre k y (or_introl eq_refl) Hy). now right. }
    rewrite Hsd.
    destruct (IH k e1 ltac:(lia) Hkn (fun y Hy => Hpre k y (or_introl eq_refl) Hy) Hhc) as [A B].
    destruct (IHl Hnd' (fun z Hz => Hpar z (or_intror Hz)) (add_descendants c f h k e1)) as [A' B'].
    + intros k2 y Hk2 Hy U2. apply B in Hy as [Hy|Hy]; [exact (Hpre k2 y (or_intror Hk2) Hy U2)|].
      apply (siblings_disjoint s k k2 y Hpk (Hpar k2 (or_intror Hk2))); [intros ->; contradiction | now apply DD_under | exact U2].
    + exact A.
    + split; [exact A'|]. intros x. rewrite B', B. split.
      * intros [[H|H]|(k2 & Hk2 & H)]; [tauto | right; exists k; split; [now left | exact H] | right; exists k2; split; [now right | exact H]].
      * intros [H|(k2 & [<-|Hk2] & H)]; [tauto | tauto | right; exists k2; tauto].
Qed.

Lemma AD0_all : forall f, AD0 f.
Proof.
  induction f as [|f IH]; intros s e Hf Hs Hpre Hhc; [lia|].
  cbn [add_descendants]. rewrite (hist_false c W).
  set (e0 := {| e_enter := addn s (e_enter e); e_default := e_default e; e_histcontent := e_histcontent e |}).
  assert (Hin0 : forall x, In x (e_enter e0) <-> x = s \/ In x (e_enter e)) by (intros x; apply me_In_addn).
  unfold is_compound_state, is_parallel_state, sty.
  destruct (wf_types c W s) as [Ht|[Ht|[Ht|Ht]]]; rewrite Ht.
  - split; [exact Hhc|]. intros x. rewrite Hin0, DD_unfold, Ht. split; [tauto|].
    intros [H|[H|[(H & _)|(H & _)]]]; auto; discriminate.
  - (* compound *)
    destruct (wf_compound c W s Ht) as (k & Hc & Hkin). rewrite (initial_core c W s k Hc). cbn [fold_left].
    assert (Hpk : par k = Some s) by now apply (wf_children c W).
    destruct (wf_par_lt c W _ _ Hpk) as [Hlt Hkn]. fold n in Hkn.
    rewrite (add_anc_child c h) by exact Hpk.
    set (e1 := {| e_enter := e_enter e0; e_default := addn s (e_default e0); e_histcontent := e_histcontent e0 |}).
    destruct (IH k e1 ltac:(lia) Hkn) as [A B].
    { intros y Hy U. cbn [e_enter e1] in Hy. apply Hin0 in Hy as [->|Hy].
      - destruct U as [E|U]; [lia | apply (anc_antisym' k s U); now apply anc_parent].
      - apply (Hpre y Hy). right. now apply (under_child s k y). }
    { exact Hhc. }
    split; [exact A|]. intros x. rewrite B. cbn [e_enter e1]. rewrite Hin0, (DD_unfold s x), Ht. split.
    + intros [[H|H]|H]; [tauto | tauto | right; right; right; split; [reflexivity|]; exists k; tauto].
    + intros [H|[H|[(H & _)|(_ & k' & Hc' & H)]]]; [tauto | tauto | discriminate|].
      rewrite Hc in Hc'. injection Hc' as <-. tauto.
  - (* parallel *)
    rewrite (child_states_core c W).
    destruct (kids0 f IH s ltac:(lia) Hs (fs_children (st c s)) (wf_children_nodup c W s)
                (fun k Hk => proj1 (wf_children c W s k) Hk) e0) as [A B].
    { intros k y Hk Hy U. apply (wf_children c W) in Hk. apply Hin0 in Hy as [->|Hy].
      - destruct (wf_par_lt c W _ _ Hk). destruct U as [E|U]; [lia | apply (anc_antisym' k s U); now apply anc_parent].
      - apply (Hpre y Hy). right. now apply (under_child s k y). }
    { exact Hhc. }
    split; [exact A|]. intros x. rewrite B, Hin0, (DD_unfold s x), Ht. split.
    + intros [[H|H]|(k & Hk & H)]; [tauto | tauto|]. right. right. left. split; [reflexivity|]. exists k.
      split; [now apply (wf_children c W) | exact H].
    + intros [H|[H|[(_ & k & Hk & H)|(H & _)]]]; [tauto | tauto | | discriminate].
      right. exists k. split; [now apply (wf_children c W) | exact H].
  - split; [exact Hhc|]. intros x. rewrite Hin0, DD_unfold, Ht. split; [tauto|].
    intros [H|[H|[(H & _)|(H & _)]]]; auto; discriminate.
Qed.

(* ---- the two initial entry sets ---- *)

Hypothesis root_compound : kd 0 = FCompound.
Variable k : nat.
Hypothesis Hk : fs_completion (st c 0) = [k].

Lemma k_child : par k = Some 0.
Proof. now apply comp_child. Qed.

Lemma k_pos : 0 < k /\ k < n.
Proof. destruct (wf_par_lt c W _ _ k_child). split; assumption. Qed.

(* Appendix D: enterStates([doc.initial.transition]) *)
Definition spec_init_eset : eset :=
  entry_step c h {| e_enter := []; e_default := []; e_histcontent := [] |} (init_trans c).

Lemma eff_single_core g : eff_targets c (Spec.n c) h [g] = [g].
Proof.
  unfold Spec.n. destruct k_pos as [_ Hn]. unfold n in Hn. destruct (nstates c) as [|m]; [lia|].
  cbn [eff_targets fold_left]. rewrite (hist_false c W). reflexivity.
Qed.

Lemma spec_init_eset_spec :
  e_histcontent spec_init_eset = [] /\ forall x, In x (e_enter spec_init_eset) <-> DD k x.
Proof.
  unfold spec_init_eset. rewrite (entry_step_init c h _ (wf_root_par c W)), (initial_core c W 0 k Hk), eff_single_core. cbn [fold_left].
  rewrite (add_anc_child c h) by exact k_child.
  destruct k_pos as [_ Hkn].
  destruct (AD0_all (spec_fuel c) k {| e_enter := []; e_default := []; e_histcontent := [] |}) as [A B].
  - unfold spec_fuel, Spec.n. fold n. lia.
  - exact Hkn.
  - intros y [].
  - reflexivity.
  - split; [exact A|]. intros x. rewrite B. cbn [e_enter In]. tauto.
Qed.

(* the engine: ESTABLISH_ENTRYSET of the initial step *)
Variable hist : list nat.
Notation EI := (Einit c hist).

Lemma E0_init x : In x (E0 c (fs_completion (st c 0))) <-> x = k \/ x = 0.
Proof.
  rewrite (In_E0 c W), Hk. split.
  - intros (g & [<-|[]] & [->|Ha]); [now left|]. right.
    destruct (anc_child par _ _ _ k_child Ha) as [->|H0]; [reflexivity | exfalso; exact (no_anc_root par (wf_root_par c W) _ H0)].
  - intros [->| ->]; exists k; (split; [now left|]); [now left | right; apply anc_parent; exact k_child].
Qed.

Lemma init_inv : Inv c [] [] (fs_completion (st c 0)) n EI.
Proof. exact (Inv_fin c W [] [] hist (fs_completion (st c 0)) [] (init_tg_bound c W root_compound)). Qed.

Lemma EI_sound : forall x, In x EI -> x = 0 \/ DD k x.
Proof.
  induction x as [x IH] using lt_wf_ind. intros Hx.
  destruct (inv_added _ _ _ _ _ _ init_inv x Hx) as [H0|(p & Hp & _ & Hpe & Ha)].
  - apply E0_init in H0 as [->| ->]; [right; constructor | now left].
  - cbn beta in Hp. destruct (wf_par_lt c W _ _ Hp) as [Hlt _]. right.
    destruct (IH p Hlt Hpe) as [->|Hdp].
    + destruct Ha as [[Hpar _]|(_ & Hc & _)]; [congruence|]. rewrite Hk in Hc. injection Hc as <-. constructor.
    + destruct Ha as [[Hpar _]|(Hkc & Hc & _)]; [eapply dd_par; eauto | eapply dd_comp; eauto].
Qed.

Lemma EI_complete x : x = 0 \/ DD k x -> In x EI.
Proof.
  intros [->|Hd].
  - apply (inv_base _ _ _ _ _ _ init_inv). apply E0_init. now right.
  - induction Hd as [|p x Hdp IH Hkp Hp|p x Hdp IH Hkp Hc].
    + apply (inv_base _ _ _ _ _ _ init_inv). apply E0_init. now left.
    + apply (gE2 c W [] [] hist _ [] (init_tg_bound c W root_compound) p x IH Hkp). now apply (wf_children c W).
    + destruct (gE3 c W [] [] hist _ [] (init_tg_bound c W root_compound) p IH Hkp) as (k' & Hin & [He|[[] _]]).
      assert (Hpk' : par k' = Some p) by now apply (wf_children c W).
      assert (Hp0 : p <> 0).
      { intros ->. destruct (DD_under k 0 Hdp) as [E|Ha]; [destruct k_pos; lia | exact (no_anc_root par (wf_root_par c W) _ Ha)]. }
      destruct (inv_added _ _ _ _ _ _ init_inv k' He) as [H0|(p' & Hp' & _ & _ & Ha)].
      * exfalso. apply E0_init in H0 as [->| ->].
        -- rewrite k_child in Hpk'. injection Hpk' as E. now apply Hp0.
        -- rewrite (wf_root_par c W) in Hpk'. discriminate.
      * cbn beta in Hp'. rewrite Hpk' in Hp'. injection Hp' as <-.
        destruct Ha as [[Hpar _]|(_ & Hc' & _)]; [congruence|]. rewrite Hc in Hc'. injection Hc' as <-. exact He.
Qed.

Lemma DD_pos x : DD k x -> 0 < x /\ x < n.
Proof.
  intros H. destruct k_pos. destruct (DD_under k x H) as [->|Ha]; [lia|]. destruct (anc_lt c W _ _ Ha). unfold n in *. lia.
Qed.

End InitSets.

(* ------------------------------------------------------------------ part 2: entering *)

(* Appendix D, interpret() up to the main event loop: global data, enterStates([doc.initial.transition]);
   [Spec.spec_run] is this followed by [Spec.spec_loop] (spec_run_unfold below) *)
Definition spec_s0 : sstate := {| s_cfg := []; s_hv := []; s_running := true; s_entered := [0] |}.

Definition spec_init (c : fchart) (x0 : xstate) : sstate * xstate :=
  let x1 := fold_left (fun x d => init_data d x) (fs_data (st c 0)) x0 in
  let '(s1, x2) := enter_states_e c (spec_init_eset c []) spec_s0 (emit (TDiag (diag c [] [] None x1)) (emit TMsB x1)) in
  (s1, emit (spec_cfg_tok c s1) (emit TMsE x2)).

Lemma spec_run_unfold c evs fuel :
  spec_run c evs fuel =
  let '(s1, x3) := spec_init c x_init in
  let '(s2, x4) := spec_loop c fuel s1 x3 evs in
  let x5 := if s_running s2 then x4 else exit_interpreter c s2 x4 in
  (rev (x_out x5), x_store x5).
Proof.
  unfold spec_run, spec_init, spec_init_eset, spec_s0, x_init. cbn zeta.
  destruct (enter_states_e c _ _ _) as [s1 x2]. reflexivity.
Qed.

Lemma set_diff_nil l : set_diff l [] = l.
Proof. unfold set_diff. apply filter_all. intros; reflexivity. Qed.

Lemma microstep_initial_unfold c l x tg :
  microstep lg_fixed ex_fixed c l x tg [] [] true =
  let '(es, ts) := entry_set lg_fixed c (l_cfg l) [] (l_hist l) tg [] in
  let a := fold_left (enter_one ex_fixed c ts) (set_diff es (l_cfg l))
                     {| ea_cfg := l_cfg l; ea_initd := l_initd l; ea_tlf := l_tlf l;
                        ea_x := fold_left (take_one ex_fixed c (l_cfg l)) ts x |} in
  ({| l_cfg := ea_cfg a; l_hist := l_hist l; l_initd := ea_initd a; l_spont := true; l_init := true;
      l_tlf := ea_tlf a; l_fin := l_fin l; l_stable := l_stable l; l_cancelled := l_cancelled l |},
   emit TMsE (ea_x a)).
Proof. reflexivity. Qed.

Lemma spec_enter_fold_hv c e : forall es0 sx0, s_hv (fst (fold_left (spec_enter_one c e) es0 sx0)) = s_hv (fst sx0).
Proof.
  induction es0 as [|i r IH]; intros [s0 y0]; cbn [fold_left]; [reflexivity|]. rewrite IH.
  rewrite spec_enter_one_staged. destruct (fc_late c && negb (mem i (s_entered s0))); unfold s_tail; cbn zeta;
    (destruct (is_final_state c i); [destruct (fs_parent (st c i)) as [[|p]|]|]); reflexivity.
Qed.

Section InitStep.
Variable c : fchart.
Hypothesis W : WF c.
Hypothesis Hnamed : chart_named c = true.
Hypothesis root_compound : fs_type (st c 0) = FCompound.
Hypothesis Hroot_onentry : fs_onentry (st c 0) = [].
Hypothesis Hsilent : root_silentb c = true.
Hypothesis Hdata : fc_late c = false -> forall i, i <> 0 -> fs_data (st c i) = [].
Hypothesis HPAR : forall s, s < nstates c -> fs_type (st c s) = FParallel -> fs_children (st c s) <> [].
Notation Anc := (LegalAbstract.Anc (fun i => fs_parent (st c i))).
Hypothesis Hfin_par : forall i p, fs_type (st c i) = FFinal -> fs_parent (st c i) = Some p -> fs_type (st c p) <> FParallel.
Hypothesis Hfin_up : forall i p a, fs_type (st c i) = FFinal -> fs_parent (st c i) = Some p -> Anc a p ->
  fs_parent (st c p) = Some a \/ fs_type (st c a) <> FParallel.

Let r := fs_sid (st c 0).
Let ds := fs_data (st c 0).
Definition initd_root : list nat := match fs_data (st c 0) with [] => [] | _ => [0] end.

(* entering the <scxml> element *)
Lemma enter_root t x0 :
  enter_one ex_fixed c [] {| ea_cfg := []; ea_initd := []; ea_tlf := t; ea_x := x0 |} 0 =
  {| ea_cfg := [0]; ea_initd := initd_root; ea_tlf := t;
     ea_x := emit (TEe r) (fold_left (fun x d => init_data d x) ds (emit (TEb r) x0)) |}.
Proof.
  rewrite enter_one_staged, (LegalRun.no_pseudo c W). cbn [ea_initd ea_x ea_cfg ea_tlf].
  assert (Htail : forall initd1 x2, l_tail c [] (insert_sorted 0 []) initd1 t x2 0 =
                  {| ea_cfg := [0]; ea_initd := initd1; ea_tlf := t; ea_x := emit (TEe r) x2 |}).
  { intros initd1 x2. unfold l_tail. cbn zeta. rewrite Hroot_onentry. unfold exec_blocks at 1. cbn [fold_left].
    assert (Hx5 : forall cfg1 y, fold_left
      (fun x ch => if is_pseudo (fs_type (st c ch)) then
           fold_left (fun x ti =>
                        if (ft_history (tr c ti) || ft_initial (tr c ti)) && mem ti [] then
                          emit (TTe (ft_vid (tr c ti)))
                            (if ft_has_body (tr c ti) then exec_block ex_fixed (inst_of c cfg1) (ft_body (tr c ti)) (emit (TTb (ft_vid (tr c ti))) x)
                             else emit (TTb (ft_vid (tr c ti))) x)
                        else x) (fs_trans (st c ch)) x
         else x) (fs_children (st c 0)) y = y).
    { intros cfg1. induction (fs_children (st c 0)) as [|k0 r0 IH]; intros y; cbn [fold_left]; [reflexivity|].
      rewrite (LegalRun.no_pseudo c W). apply IH. }
    rewrite root_compound, Hx5. reflexivity. }
  unfold initd_root, ds. destruct (fs_data (st c 0)) as [|d0 dr]; cbn [mem]; rewrite Htail; reflexivity.
Qed.

Variable l : lstate.
Variables xl xs : xstate.
Hypothesis Hpr : is_pristine l = true.
Hypothesis Hcfg : l_cfg l = [].
Hypothesis Hinitd : l_initd l = [].
Hypothesis Hdyn : same_dyn xl xs.

Lemma pristine_flags : l_spont l = false /\ l_init l = false /\ l_tlf l = false /\ l_fin l = false /\ l_stable l = false.
Proof.
  unfold is_pristine in Hpr. apply negb_true_iff in Hpr.
  destruct (l_spont l), (l_init l), (l_tlf l), (l_fin l), (l_stable l); cbn in Hpr; try discriminate; auto.
Qed.

Theorem initial_step_sec :
  let rl := microstep lg_fixed ex_fixed c l (emit TMsB xl) (fs_completion (st c 0)) [] [] true in
  let q := spec_init c xs in
  corr c (fst rl) (fst q) /\ s_hv (fst q) = [] /\ same_dyn (snd rl) (snd q) /\
  l_spont (fst rl) = true /\ l_init (fst rl) = true /\ l_fin (fst rl) = false /\ l_stable (fst rl) = false /\
  l_cancelled (fst rl) = l_cancelled l /\
  exists d dg,
    x_out (snd rl) = TMsE :: d ++ TEe r :: TEb r :: TMsB :: x_out xl /\
    x_out (snd q) = spec_cfg_tok c (fst q) :: TMsE :: d ++ TDiag dg :: TMsB :: x_out xs.
Proof.
  destruct pristine_flags as (F1 & F2 & F3 & F4 & F5).
  destruct (wf_compound c W 0 root_compound) as (k & Hk & Hkin).
  destruct (root_silent_parts c Hsilent) as (Sen & _ & _).
  cbn zeta. rewrite microstep_initial_unfold. rewrite Hcfg, Hinitd, F3.
  destruct (entry_set_core c W [] [] (l_hist l) (fs_completion (st c 0)) []) as [Hts Hes].
  { rewrite Hk. cbn. split; [intros y [] | exact I]. }
  assert (HEI : fst (entry_set lg_fixed c [] [] (l_hist l) (fs_completion (st c 0)) []) = Einit c (l_hist l)) by reflexivity.
  destruct (entry_set lg_fixed c [] [] (l_hist l) (fs_completion (st c 0)) []) as [es ts] eqn:Ees.
  cbn [fst snd] in Hts, Hes, HEI. subst ts. cbn [fold_left]. rewrite set_diff_nil.
  destruct (spec_init_eset_spec c W [] root_compound k Hk) as [Hhc He].
  set (e := spec_init_eset c []) in *.
  set (L := sort_doc (e_enter e)).
  assert (HL : forall x, In x L <-> DD c k x) by (intros x; unfold L, sort_doc; rewrite In_set_of_list; apply He).
  assert (Hes0 : es = 0 :: L).
  { apply ssorted_ext; [exact Hes| |].
    - cbn [ssorted]. split; [|apply ssorted_set_of_list]. intros y Hy. apply HL in Hy.
      destruct (DD_pos c W root_compound k Hk y Hy). lia.
    - intros z. rewrite HEI. cbn [In]. rewrite HL. split.
      + intros Hz. destruct (EI_sound c W root_compound k Hk (l_hist l) z Hz) as [->|Hd]; auto.
      + intros [<-|Hd]; apply (EI_complete c W root_compound k Hk (l_hist l)); auto. }
  rewrite Hes0. cbn [fold_left]. rewrite enter_root.
  unfold spec_init. cbn zeta. fold e. rewrite enter_states_e_fold. fold L. fold ds.
  set (xa := emit (TEe r) (fold_left (fun x d => init_data d x) ds (emit (TEb r) (emit TMsB xl)))).
  set (x1s := fold_left (fun x d => init_data d x) ds xs).
  set (dg := diag c [] [] None x1s).
  set (xb := emit (TDiag dg) (emit TMsB x1s)).
  assert (Hab : same_dyn xa xb).
  { unfold xa, xb, x1s. destruct (init_datas_dyn ds (emit (TEb r) (emit TMsB xl)) xs Hdyn) as [H _]. exact H. }
  assert (Hoa : x_out xa = TEe r :: TEb r :: TMsB :: x_out xl).
  { unfold xa. cbn [emit x_out]. destruct (init_datas_dyn ds (emit (TEb r) (emit TMsB xl)) xs Hdyn) as [_ H]. now rewrite H. }
  assert (Hob : x_out xb = TDiag dg :: TMsB :: x_out xs).
  { unfold xb, x1s. cbn [emit x_out]. destruct (init_datas_dyn ds xs xs (same_dyn_refl xs)) as [_ H]. now rewrite H. }
  set (a1 := {| ea_cfg := [0]; ea_initd := initd_root; ea_tlf := false; ea_x := xa |}).
  set (b1 := {| ea_cfg := [0]; ea_initd := initd_root; ea_tlf := false; ea_x := xb |}).
  assert (HRa : Ra eq (fun _ => True) (x_out xa) (x_out xb) a1 b1).
  { unfold Ra, a1, b1. cbn [ea_cfg ea_initd ea_tlf ea_x].
    split; [reflexivity | split; [reflexivity | split; [reflexivity | now apply RxE_intro]]]. }
  pose proof (enter_fold_E c Hnamed _ _ [] L a1 b1 HRa) as (R1 & R2 & R3 & R4).
  apply RxE_elim in R4 as [R4 (d & R5 & R6)].
  set (CF := fun y => In y (Einit c (l_hist l))).
  pose proof (initial_sets_legal c W (l_hist l) root_compound) as HLg.
  assert (Huniq : forall q k1 k2, fs_type (st c q) = FCompound -> In k1 (fs_children (st c q)) -> In k2 (fs_children (st c q)) ->
                  CF k1 -> CF k2 -> k1 = k2).
  { intros q k1 k2 Hq Hk1 Hk2 C1 C2. apply (lg_compound_uniq _ _ _ _ HLg q k1 k2); try assumption.
    apply (lg_parent _ _ _ _ HLg k1 q C1). now apply (wf_children c W). }
  pose proof (enter_fold_conforms c W [] e CF Hhc Sen Hdata HPAR Hfin_par Hfin_up Huniq L b1 (spec_s0, xb)) as HE.
  destruct HE as [(E1 & E2 & E3 & E4) _].
  { split; [|intros y []]. unfold erel, b1, spec_s0. cbn [fst snd ea_cfg ea_tlf ea_initd ea_x s_cfg s_running s_entered].
    repeat split. intros i Hi. unfold initd_root. destruct (fs_data (st c i)) eqn:Hdi; [congruence|].
    destruct i as [|i']; [rewrite Hdi; reflexivity|]. destruct (fs_data (st c 0)); reflexivity. }
  { intros i Hi. apply HL in Hi. destruct (DD_pos c W root_compound k Hk i Hi) as [A B]. split; [exact A|]. split; [exact B|].
    apply (EI_complete c W root_compound k Hk (l_hist l)). now right. }
  pose proof (spec_enter_fold_hv c e L (spec_s0, xb)) as Hhv.
  set (afin := fold_left (enter_one ex_fixed c []) L a1) in *.
  set (bfin := fold_left (enter_one ex_fixed c []) L b1) in *.
  destruct (fold_left (spec_enter_one c e) L (spec_s0, xb)) as [s1 x2] eqn:Esx.
  cbn [fst snd l_cfg l_tlf l_initd l_spont l_init l_fin l_stable l_cancelled] in *.
  split; [unfold corr; cbn [l_cfg l_tlf l_initd]; rewrite R1, R2, R3; auto|].
  split; [exact Hhv|].
  split; [unfold same_dyn; cbn [emit x_store x_iq x_eq]; rewrite <- E4; exact R4|].
  split; [reflexivity|]. split; [reflexivity|]. split; [exact F4|]. split; [exact F5|]. split; [reflexivity|].
  exists d, dg. cbn [emit x_out]. rewrite R5, Hoa, <- E4, R6, Hob. split; reflexivity.
Qed.

End InitStep.
