(* FlattenWfRun.v -- the C02 theorems with their hypothesis on the DOCUMENT (FlattenWf.core_treeb) instead
   of on the flat tables (WfCore.wf_coreb); non-vacuity examples; and, clause by clause, documents showing
   that the clause cannot be dropped from core_treeb. *)
From V Require Import Base NameMatch Chart Exec Large LargeLemmas Interp Legal SetLemmas
     LegalAbstract LegalLarge LegalRun WfCore LegalOracle FlattenWf FlattenWfLemmas.
Local Open Scope nat_scope.

Lemma document_WF late t : core_treeb t = true -> WF (flatten late t).
Proof. intros H. apply wf_coreb_sound. now apply flatten_wf_core_lemma. Qed.

(* every state of every run of the engine model on a well-formed core document has a legal configuration *)
Theorem document_run_always_legal_lemma : forall late t xv, core_treeb t = true ->
  forall fuel evs,
    let c := flatten late t in
    CfgOK c (fst (run_loop c lstate (large_step lg_fixed xv c) l_cfg fuel l_pristine x_init evs)).
Proof.
  intros late t xv H fuel evs c. destruct (flatten_wf_core_lemma late t H) as [W R].
  apply run_states_legal; [now apply wf_coreb_sound | exact R | apply pristine_ok].
Qed.

Theorem document_microstep_preserves_legal_lemma : forall late t xv, core_treeb t = true ->
  let c := flatten late t in
  forall l x, CfgOK c l -> CfgOK c (fst (fst (large_step lg_fixed xv c l x))).
Proof.
  intros late t xv H c. destruct (flatten_wf_core_lemma late t H) as [W R].
  apply large_step_legal; [now apply wf_coreb_sound | exact R].
Qed.

Theorem document_oracle_implies_legal_lemma : forall late t, core_treeb t = true ->
  let c := flatten late t in
  forall cfg, legal_configb c cfg = true -> LegalCfg c cfg.
Proof. intros late t H c cfg. apply legal_configb_sound. now apply document_WF. Qed.

(* ------------------------------------------------------------------ non-vacuity *)

Example ex_tree_core : core_treeb ex_tree = true.
Proof. vm_compute. reflexivity. Qed.

Local Open Scope N_scope.
Definition wtr (v : N) (e : N) (tg : option (list N)) (int : bool) : ttrans :=
  {| tt_vid := v; tt_event := Some [e]; tt_cond := None; tt_targets := tg; tt_internal := int; tt_body := [] |}.
Definition wnode (k : skind) (s : N) (ini : option (list N)) (trl : list ttrans) (kids : list tree) : tree :=
  TNode k s ini trl [] [] [] kids.

(* nested parallels, 'initial' attributes, a <final>, multi-target transitions into several regions (one of
   them with a target and its ancestor), target-less and internal transitions:
   scxml0 initial=s2 { s1 --101--> {s7, s9, s12}
                      p2 { s3 initial=s5 { s4  s5 --102--> s4 }
                           p6 { s7 { s8  s9 --103--> {s8} internal }
                                s10 { s11 --104--> {s12, s10}  s12  f13 } }
                           --105--> s1 ; --106--> (no target) } } *)
Definition ex_tree2 : tree :=
  wnode KScxml 0 (Some [2]) []
    [wnode KState 1 None [wtr 101 101 (Some [7; 9; 12]) false] [];
     wnode KParallel 2 None [wtr 105 105 (Some [1]) false; wtr 106 106 None false]
       [wnode KState 3 (Some [5]) []
          [wnode KState 4 None [] []; wnode KState 5 None [wtr 102 102 (Some [4]) false] []];
        wnode KParallel 6 None []
          [wnode KState 7 None []
             [wnode KState 8 None [] []; wnode KState 9 None [wtr 103 103 (Some [8]) true] []];
           wnode KState 10 None []
             [wnode KState 11 None [wtr 104 104 (Some [12; 10]) false] []; wnode KState 12 None [] [];
              wnode KFinal 13 None [] []]]]].

Example ex_tree2_core : core_treeb ex_tree2 = true.
Proof. vm_compute. reflexivity. Qed.

(* its runs reach configurations with the nested regions active *)
Example ex_tree2_reaches_nested_parallel :
  l_cfg (fst (run_loop (flatten false ex_tree2) lstate (large_step lg_fixed ex_fixed (flatten false ex_tree2)) l_cfg 12%nat
                       l_pristine x_init [[105]; [101]])) = [0; 2; 3; 5; 6; 7; 9; 10; 12]%nat.
Proof. vm_compute. reflexivity. Qed.

(* ------------------------------------------------------------------ the clauses cannot be dropped *)

Definition core_tree_clauses (t : tree) : list bool :=
  [ct_kindsb t; ct_rootb t; ct_uniqueb t; ct_initialb t; ct_no_root_targetb t; ct_target_setsb t].

Lemma core_treeb_clauses t : core_treeb t = forallb (fun b => b) (core_tree_clauses t).
Proof. unfold core_treeb, core_tree_clauses. cbn [forallb]. now rewrite andb_true_r, !andb_assoc. Qed.

(* kinds: a <history> child *)
Definition w_kinds : tree :=
  wnode KScxml 0 None [] [wnode KState 1 None [] [wnode KHistShallow 2 None [] []; wnode KState 3 None [] []]].
Lemma core_kinds_needed_refuted :
  exists t, core_tree_clauses t = [false; true; true; true; true; true] /\ wf_coreb (flatten false t) = false.
Proof. exists w_kinds. vm_compute. split; reflexivity. Qed.

(* root: a <parallel> root fails wfb_root_type; a root without children is atomic *)
Definition w_root_par : tree := wnode KParallel 0 None [] [wnode KState 1 None [] []; wnode KState 2 None [] []].
Definition w_root_atomic : tree := wnode KScxml 0 None [] [].
Lemma core_root_needed_refuted :
  (exists t, core_tree_clauses t = [true; false; true; true; true; true] /\ wf_coreb (flatten false t) = false) /\
  (exists t, core_tree_clauses t = [true; false; true; true; true; true] /\ fs_type (st (flatten false t) 0%nat) <> FCompound).
Proof.
  split; [exists w_root_par | exists w_root_atomic]; vm_compute; split; try reflexivity. discriminate.
Qed.

(* unique ids: s3's initial names its child with id 2, but the first element with id 2 is a child of s1 *)
Definition w_unique : tree :=
  wnode KScxml 0 None []
    [wnode KState 1 None [] [wnode KState 2 None [] []];
     wnode KState 3 (Some [2]) [] [wnode KState 2 None [] []]].
Lemma core_unique_needed_refuted :
  exists t, core_tree_clauses t = [true; true; false; true; true; true] /\ wf_coreb (flatten false t) = false.
Proof. exists w_unique. vm_compute. split; reflexivity. Qed.

(* initial: a deep initial attribute (a grand-child) / two children *)
Definition w_initial_deep : tree :=
  wnode KScxml 0 None []
    [wnode KState 1 (Some [3]) [] [wnode KState 2 None [] [wnode KState 3 None [] []]]].
Definition w_initial_two : tree :=
  wnode KScxml 0 (Some [1; 2]) [] [wnode KState 1 None [] []; wnode KState 2 None [] []].
Lemma core_initial_needed_refuted :
  (exists t, core_tree_clauses t = [true; true; true; false; true; true] /\ wf_coreb (flatten false t) = false) /\
  (exists t, core_tree_clauses t = [true; true; true; false; true; true] /\ wf_coreb (flatten false t) = false).
Proof. split; [exists w_initial_deep | exists w_initial_two]; vm_compute; split; reflexivity. Qed.

(* no transition to the root *)
Definition w_root_target : tree :=
  wnode KScxml 0 None [] [wnode KState 1 None [wtr 101 101 (Some [0]) false] []].
Lemma core_no_root_target_needed_refuted :
  exists t, core_tree_clauses t = [true; true; true; true; false; true] /\ wf_coreb (flatten false t) = false.
Proof. exists w_root_target. vm_compute. split; reflexivity. Qed.

(* target sets: s1 --101--> {s2, s3}, two children of the same compound state: the tables fail the check AND the
   run on event 101 ends in an illegal configuration *)
Definition w_target_set : tree :=
  wnode KScxml 0 None []
    [wnode KState 1 None [wtr 101 101 (Some [2; 3]) false] []; wnode KState 2 None [] []; wnode KState 3 None [] []].
Lemma core_target_sets_needed_refuted :
  exists t, core_tree_clauses t = [true; true; true; true; true; false] /\ wf_coreb (flatten false t) = false /\
    exists evs fuel, let c := flatten false t in
      legal_configb c (l_cfg (fst (run_loop c lstate (large_step lg_fixed ex_fixed c) l_cfg fuel l_pristine x_init evs))) = false.
Proof. exists w_target_set. split; [vm_compute; reflexivity|]. split; [vm_compute; reflexivity|]. exists [[101]], 12%nat. vm_compute. reflexivity. Qed.
