(* ExitSetLemmas.v -- bridge for C01: the exit set LargeMicroStep computes from its document-order
   interval (Large.exit_states_of) is the exit set of Appendix D (Spec.compute_exit_set), and
   getTransitionDomain (Large.domain) is Appendix D's getTransitionDomain (Spec.transition_domain),
   for every document -- provided no target of the transition is a <history> state (for history targets
   Appendix D uses the *effective* targets, see [domain_agrees_history_refuted]).  Proofs only. *)
From V Require Import Base NameMatch Chart Exec Large Spec Tables TreeLemmas.
From Coq Require Import Sorted.
Local Open Scope nat_scope.

(* no target of the transition is a <history> state *)
Definition targets_plain_t (c : fchart) (t : ftrans) : bool :=
  forallb (fun s => negb (Spec.is_history_state c s)) (ft_targets t).
Definition targets_plain (c : fchart) (ti : nat) : Prop := targets_plain_t c (tr c ti) = true.

(* ------------------------------------------------------------------ small list facts *)

Lemma insert_sorted_last p l : (forall a, In a l -> a < p) -> insert_sorted p l = l ++ [p].
Proof.
  induction l as [|y r IH]; intros H; [reflexivity|]. cbn [insert_sorted app].
  pose proof (H y (or_introl eq_refl)) as Hy.
  replace (p <? y) with false by (symmetry; apply Nat.ltb_ge; lia).
  replace (p =? y) with false by (symmetry; apply Nat.eqb_neq; lia).
  f_equal. apply IH. intros a Ha. apply H. right. exact Ha.
Qed.

Lemma mem_rev x l : mem x (rev l) = mem x l.
Proof.
  destruct (mem x l) eqn:H.
  - apply mem_In. apply in_rev. rewrite rev_involutive. apply mem_In. exact H.
  - apply mem_false_iff. intros Hin. apply in_rev in Hin. apply mem_In in Hin. congruence.
Qed.

Lemma forallb_ext_set {A} (f g : A -> bool) l1 l2 :
  (forall x, In x l1 <-> In x l2) -> (forall x, f x = g x) -> forallb f l1 = forallb g l2.
Proof.
  intros Hs Hf. destruct (forallb g l2) eqn:H2.
  - apply forallb_forall. intros x Hx. rewrite Hf. rewrite forallb_forall in H2. apply H2. apply Hs. exact Hx.
  - destruct (forallb f l1) eqn:H1; [|reflexivity]. rewrite forallb_forall in H1.
    assert (forallb g l2 = true); [|congruence]. apply forallb_forall. intros x Hx. rewrite <- Hf. apply H1. apply Hs. exact Hx.
Qed.

(* on a strictly descending list 0 can only be the last element: a search that accepts 0 anyway and one
   that falls back to 0 give the same answer *)
Lemma find_fallback_zero (P Q : nat -> bool) l :
  StronglySorted (fun x y => y < x) l -> (forall a, a <> 0 -> P a = Q a) ->
  match find P l with Some a => Some a | None => Some 0 end =
  match find Q l with Some a => Some a | None => Some 0 end.
Proof.
  induction l as [|x l IH]; intros Hs Hpq; [reflexivity|].
  inversion Hs as [|? ? Hs' Hall]; subst. cbn [find]. destruct (Nat.eq_dec x 0) as [->|Hx].
  - destruct l as [|y l']; [|rewrite Forall_forall in Hall; specialize (Hall y (or_introl eq_refl)); lia].
    cbn [find]. destruct (P 0), (Q 0); reflexivity.
  - rewrite (Hpq x Hx). destruct (Q x); [reflexivity | apply IH; assumption].
Qed.

(* Spec.addn / unionn as sets *)
Lemma In_addn x y l : In x (Spec.addn y l) <-> x = y \/ In x l.
Proof.
  unfold Spec.addn, Spec.add. destruct (existsb (Nat.eqb y) l) eqn:He.
  - apply existsb_exists in He. destruct He as (z & Hz & Hyz). apply Nat.eqb_eq in Hyz. subst z. intuition (subst; auto).
  - rewrite in_app_iff. cbn. intuition.
Qed.

Lemma In_fold_addn l : forall acc x, In x (fold_left (fun a s => Spec.addn s a) l acc) <-> In x l \/ In x acc.
Proof.
  induction l as [|y l IH]; intros acc x; cbn [fold_left]; [cbn; intuition|].
  rewrite IH, In_addn. cbn. intuition.
Qed.

Lemma In_fold_desc (f : nat -> bool) cfg : forall acc x,
  In x (fold_left (fun a s => if f s then Spec.addn s a else a) cfg acc) <-> (In x cfg /\ f x = true) \/ In x acc.
Proof.
  induction cfg as [|y l IH]; intros acc x; cbn [fold_left]; [cbn; intuition|].
  rewrite IH. destruct (f y) eqn:Hy.
  - rewrite In_addn. cbn. intuition (subst; auto).
  - cbn. intuition (subst; congruence).
Qed.

(* ------------------------------------------------------------------ the parent chain of the flat chart *)

Section Bridge.
Variable late : bool.
Variable t0 : tree.
Local Notation root := (resort t0).
Local Notation c := (flatten late t0).
Local Notation n := (tsize root).
Local Notation nodes := (nodes_of root).

Lemma st_overflow i : n <= i -> st c i = dummy_state.
Proof.
  intros Hi. unfold st. apply nth_overflow. fold (nstates c). rewrite flatten_nstates. exact Hi.
Qed.

Lemma fs_parent_npar i : i < n -> fs_parent (st c i) = Tables.npar nodes i.
Proof.
  intros Hi. destruct (st_flatten late t0 i Hi) as (Hp & _). rewrite Hp. symmetry. apply npar_nodes. exact Hi.
Qed.

Lemma npar_lt i p : i < n -> Tables.npar nodes i = Some p -> p < i.
Proof.
  intros Hi Hp. destruct (pth_of root i) as [|x0 r0] eqn:Hpi.
  - rewrite (npar_nodes root i Hi), Hpi in Hp. discriminate.
  - destruct (npar_some root i Hi) as (q & Hq & Hqi & _); [rewrite Hpi; discriminate|]. congruence.
Qed.

Lemma chain_exists fuel i : i < n -> i < fuel -> exists l, Tables.chain fuel nodes i = Some l /\
  (forall a, In a l -> a < i) /\ StronglySorted (fun x y => y < x) l.
Proof.
  intros Hi Hf. destruct (chain_spec root fuel i Hi) as (l & Hl & _ & Hlt & Hs); [pose proof (pth_length_le root i Hi); lia|].
  eauto.
Qed.

(* (1) Appendix D's getProperAncestors(s, null) is the parent chain *)
Lemma proper_ancestors_chain : forall fuel i l, i < n -> Tables.chain fuel nodes i = Some l ->
  Spec.proper_ancestors c fuel i None = l.
Proof.
  induction fuel as [|f IH]; intros i l Hi Hc; [discriminate|].
  cbn [Tables.chain Spec.proper_ancestors] in *. rewrite (fs_parent_npar i Hi).
  destruct (Tables.npar nodes i) as [p|] eqn:Hp; [|inversion Hc; reflexivity].
  destruct (Tables.chain f nodes p) as [l'|] eqn:Hl'; [|discriminate]. inversion Hc; subst l.
  f_equal. apply IH; [pose proof (npar_lt i p Hi Hp); lia | exact Hl'].
Qed.

(* ... and fs_ancestors is the same chain, ascending *)
Lemma ancestors_of_rev_chain : forall fuel i l, i < n -> i < fuel -> Tables.chain fuel nodes i = Some l ->
  ancestors_of fuel nodes root i = rev l.
Proof.
  induction fuel as [|f IH]; intros i l Hi Hf Hc; [discriminate|].
  cbn [Tables.chain ancestors_of] in *.
  assert (Hsnd : snd (nth i nodes (root, None)) = Tables.npar nodes i).
  { unfold Tables.npar, Tables.nd. rewrite (nth_indep nodes (root, None) (dummy_tree, None)); [reflexivity|].
    rewrite nodes_length. exact Hi. }
  rewrite Hsnd. destruct (Tables.npar nodes i) as [p|] eqn:Hp; [|inversion Hc; reflexivity].
  destruct (Tables.chain f nodes p) as [l'|] eqn:Hl'; [|discriminate]. inversion Hc; subst l.
  pose proof (npar_lt i p Hi Hp) as Hpi.
  rewrite (IH p l') by (try lia; exact Hl'). cbn [rev].
  apply insert_sorted_last. intros a Ha. apply in_rev in Ha.
  destruct (chain_exists f p ltac:(lia) ltac:(lia)) as (l2 & Hl2 & Hlt & _). rewrite Hl' in Hl2. inversion Hl2; subst l2.
  apply Hlt. exact Ha.
Qed.

Lemma ancs_rev_ancestors s : Spec.ancs c s None = rev (fs_ancestors (st c s)).
Proof.
  unfold Spec.ancs, Spec.n. rewrite flatten_nstates.
  destruct (Nat.lt_ge_cases s n) as [Hs|Hs].
  - destruct (chain_exists n s Hs Hs) as (l & Hl & _).
    rewrite (proper_ancestors_chain n s l Hs Hl).
    destruct (st_flatten late t0 s Hs) as (_ & _ & Ha & _). rewrite Ha.
    rewrite (ancestors_of_rev_chain n s l Hs Hs Hl), rev_involutive. reflexivity.
  - rewrite (st_overflow s Hs). cbn [fs_ancestors dummy_state rev].
    destruct n as [|m] eqn:Hn; [reflexivity|]. cbn [Spec.proper_ancestors].
    rewrite st_overflow by (rewrite Hn; exact Hs). reflexivity.
Qed.

Lemma ancs_sorted s : StronglySorted (fun x y => y < x) (Spec.ancs c s None) /\ (forall a, In a (Spec.ancs c s None) -> a < n).
Proof.
  destruct (Nat.lt_ge_cases s n) as [Hs|Hs].
  - unfold Spec.ancs, Spec.n. rewrite flatten_nstates.
    destruct (chain_exists n s Hs Hs) as (l & Hl & Hlt & Hsort).
    rewrite (proper_ancestors_chain n s l Hs Hl). split; [exact Hsort|]. intros a Ha. specialize (Hlt a Ha). lia.
  - rewrite ancs_rev_ancestors, (st_overflow s Hs). cbn. split; [constructor | intros a []].
Qed.

(* (2) isDescendant on the flat chart: membership in fs_ancestors, i.e. the index interval *)
Lemma is_descendant_mem s a : Spec.is_descendant c s a = mem a (fs_ancestors (st c s)).
Proof. unfold Spec.is_descendant. rewrite ancs_rev_ancestors. apply mem_rev. Qed.

Lemma is_descendant_interval s d : s < n -> d < n ->
  (Spec.is_descendant c s d = true <-> d < s /\ s < d + fs_size (st c d)).
Proof.
  intros Hs Hd. rewrite is_descendant_mem.
  destruct (tree_interval_flatten late t0) as (_ & _ & Hanc & _). apply Hanc; assumption.
Qed.

(* (3) effective targets of a history-free target list: the same states *)
Lemma eff_targets_plain h tg : forallb (fun s => negb (Spec.is_history_state c s)) tg = true ->
  forall x, In x (Spec.eff_targets c (Spec.n c) h tg) <-> In x tg.
Proof.
  intros Hp x. unfold Spec.n. rewrite flatten_nstates. pose proof (tsize_pos root). destruct n as [|m]; [lia|].
  cbn [Spec.eff_targets].
  assert (Hgen : forall l acc, forallb (fun s => negb (Spec.is_history_state c s)) l = true ->
            fold_left (fun acc0 s => if Spec.is_history_state c s
                                     then match Spec.hv_get h s with
                                          | Some v => Spec.unionn acc0 v
                                          | None => match Spec.pseudo_trans c s with
                                                    | Some t => Spec.unionn acc0 (Spec.eff_targets c m h (ft_targets t))
                                                    | None => acc0
                                                    end
                                          end
                                     else Spec.addn s acc0) l acc =
            fold_left (fun a s => Spec.addn s a) l acc).
  { induction l as [|y l IH]; intros acc Hl; [reflexivity|]. cbn [forallb fold_left] in *.
    apply andb_true_iff in Hl. destruct Hl as [Hy Hl]. apply negb_true_iff in Hy. rewrite Hy. apply IH. exact Hl. }
  rewrite (Hgen tg [] Hp), In_fold_addn. cbn. intuition.
Qed.

(* ------------------------------------------------------------------ the transition domain *)

Lemma domain_agrees_t h t : targets_plain_t c t = true ->
  Large.domain c t = Spec.transition_domain c h t.
Proof.
  intros Hp. unfold Large.domain, Spec.transition_domain.
  pose proof (eff_targets_plain h (ft_targets t) Hp) as Heff.
  set (ts := Spec.eff_targets c (Spec.n c) h (ft_targets t)) in *.
  assert (Hall : forall a, forallb (fun x => mem a (fs_ancestors (st c x))) (ft_targets t) =
                           forallb (fun s => Spec.is_descendant c s a) ts).
  { intros a. apply forallb_ext_set; [intros x; symmetry; apply Heff|]. intros x. symmetry. apply is_descendant_mem. }
  destruct (ft_targets t) as [|x tg] eqn:Htg; destruct ts as [|y ts'] eqn:Hts.
  - reflexivity.
  - exfalso. apply (proj1 (Heff y)). left. reflexivity.
  - exfalso. apply (proj2 (Heff x)). left. reflexivity.
  - change (Large.is_comp (fs_type (st c (ft_source t)))) with (Spec.is_compound_state c (ft_source t)).
    rewrite (Hall (ft_source t)).
    destruct (ft_internal t && Spec.is_compound_state c (ft_source t) &&
              forallb (fun s => Spec.is_descendant c s (ft_source t)) (y :: ts')); [reflexivity|].
    unfold Spec.find_lcca. rewrite <- ancs_rev_ancestors.
    apply find_fallback_zero; [apply ancs_sorted|].
    intros a Ha. rewrite (Hall a).
    change (Large.is_comp (fs_type (st c a))) with (Spec.is_compound_state c a).
    replace (a =? 0) with false by (symmetry; apply Nat.eqb_neq; exact Ha). rewrite orb_false_r. reflexivity.
Qed.

Lemma domain_lt t d : Large.domain c t = Some d -> d < n.
Proof.
  unfold Large.domain. destruct (ft_targets t) as [|x tg]; [discriminate|].
  pose proof (tsize_pos root).
  destruct (ft_internal t && Large.is_comp (fs_type (st c (ft_source t))) && _) eqn:Hc.
  - intros Hd. inversion Hd; subst d. apply andb_true_iff in Hc. destruct Hc as [Hc _]. apply andb_true_iff in Hc. destruct Hc as [_ Hc].
    destruct (Nat.lt_ge_cases (ft_source t) n) as [|Hge]; [assumption|]. rewrite (st_overflow _ Hge) in Hc. discriminate.
  - destruct (find _ _) as [a|] eqn:Hf; intros Hd; inversion Hd; subst d; [|lia].
    apply find_some in Hf. destruct Hf as [Hin _]. rewrite <- ancs_rev_ancestors in Hin. apply (proj2 (ancs_sorted (ft_source t))). exact Hin.
Qed.

(* ------------------------------------------------------------------ the exit set *)

Lemma exit_set_agrees_t h t cfg : targets_plain_t c t = true -> (forall s, In s cfg -> s < nstates c) ->
  forall s, In s (Large.exit_states_of lg_fixed c cfg t) <-> In s (Spec.compute_exit_set c cfg h [t]).
Proof.
  intros Hp Hcfg s. unfold Large.exit_states_of, Large.exit_interval, Spec.compute_exit_set. cbn [fold_left].
  rewrite <- (domain_agrees_t h t Hp).
  destruct (Large.domain c t) as [d|] eqn:Hd.
  - assert (Htg : ft_targets t <> []) by (unfold Large.domain in Hd; destruct (ft_targets t); [discriminate | discriminate]).
    destruct (ft_targets t) as [|x tg]; [congruence|].
    pose proof (domain_lt t d Hd) as Hdn. cbn [lg_exit_overreach lg_fixed andb lg_targetless_exits_root negb].
    replace (S d =? 0) with false by reflexivity. cbn [andb].
    rewrite In_fold_desc, filter_In. cbn [In].
    destruct (tree_interval_flatten late t0) as (_ & Hsz & _). destruct (Hsz d Hdn) as [Hs1 _].
    split.
    + intros [Hin Hr]. left. split; [exact Hin|]. specialize (Hcfg s Hin). rewrite flatten_nstates in Hcfg.
      apply (is_descendant_interval s d Hcfg Hdn). apply andb_true_iff in Hr. destruct Hr as [H1 H2].
      apply Nat.leb_le in H1, H2. lia.
    + intros [[Hin Hdesc] | []]. split; [exact Hin|]. specialize (Hcfg s Hin). rewrite flatten_nstates in Hcfg.
      apply (is_descendant_interval s d Hcfg Hdn) in Hdesc. apply andb_true_iff. split; apply Nat.leb_le; lia.
  - cbn. destruct (ft_targets t); reflexivity.
Qed.

End Bridge.

(* ------------------------------------------------------------------ the statements for C01 *)

Lemma domain_agrees_lemma : forall late t0 ti h, let c := flatten late t0 in
  ti < ntrans c -> targets_plain c ti ->
  Large.domain c (tr c ti) = Spec.transition_domain c h (tr c ti).
Proof. intros late t0 ti h c _ Hp. apply domain_agrees_t. exact Hp. Qed.

Lemma exit_set_agrees_lemma : forall late t0 ti cfg h, let c := flatten late t0 in
  ti < ntrans c -> (forall s, In s cfg -> s < nstates c) -> targets_plain c ti ->
  forall s, In s (Large.exit_states_of lg_fixed c cfg (tr c ti)) <-> In s (Spec.compute_exit_set c cfg h [tr c ti]).
Proof. intros late t0 ti cfg h c _ Hcfg Hp. apply exit_set_agrees_t; assumption. Qed.

(* ------------------------------------------------------------------ the guard is needed: history targets *)

(* scxml { p { hd (deep, default -> s) ; a { s -e-> hd ; b } } }:
   Appendix D computes the domain from the EFFECTIVE targets (here the history's default target s, hence
   domain a and exit set {s}); the engine from the <history> element itself (domain p, exit set {a, s}).
   On the implementation (both engines) the event e runs a's onexit/onentry handlers; Appendix D's
   algorithm does not exit a. *)
Definition w_hist_target : tree :=
  let nd k sid tr kids := TNode k sid None tr [] [] [] kids in
  let tt vid ev tg := {| tt_vid := vid; tt_event := ev; tt_cond := None; tt_targets := Some tg; tt_internal := false; tt_body := [] |} in
  nd KScxml 0%N [] [nd KState 1%N []
    [nd KHistDeep 2%N [tt 900%N None [4%N]] [];
     nd KState 3%N [] [nd KState 4%N [tt 101%N (Some [101%N]) [2%N]] []; nd KState 5%N [] []]]].

Lemma domain_agrees_history_refuted :
  exists late t0 ti h, let c := flatten late t0 in
    ti < ntrans c /\ Large.domain c (tr c ti) <> Spec.transition_domain c h (tr c ti).
Proof.
  exists false, w_hist_target, 1, []. split; [vm_compute; lia|]. vm_compute. discriminate.
Qed.

Lemma exit_set_agrees_history_refuted :
  exists late t0 ti cfg h, let c := flatten late t0 in
    ti < ntrans c /\ (forall s, In s cfg -> s < nstates c) /\
    exists s, In s (Large.exit_states_of lg_fixed c cfg (tr c ti)) /\ ~ In s (Spec.compute_exit_set c cfg h [tr c ti]).
Proof.
  exists false, w_hist_target, 1, [1; 3; 4], []. split; [vm_compute; lia|]. split.
  - intros s Hs. vm_compute. cbn in Hs. lia.
  - exists 3. split; [vm_compute; tauto|]. vm_compute. intros [H|[]]. discriminate.
Qed.

(* the witness values *)
Example w_hist_target_domains :
  let c := flatten false w_hist_target in
  Large.domain c (tr c 1) = Some 1 /\ Spec.transition_domain c [] (tr c 1) = Some 3 /\
  Large.exit_states_of lg_fixed c [1; 3; 4] (tr c 1) = [3; 4] /\ Spec.compute_exit_set c [1; 3; 4] [] [tr c 1] = [4].
Proof. vm_compute. repeat split. Qed.

(* ------------------------------------------------------------------ non-vacuity *)

From V Require LegalOracle.

(* LegalOracle.ex_tree (parallel, nested compounds, multi-target, target-less and internal transitions): every
   transition satisfies the guard, and the agreeing exit sets are not trivially empty *)
Example ex_tree_targets_plain :
  let c := flatten false LegalOracle.ex_tree in
  ntrans c = 5 /\ forallb (fun ti => targets_plain_t c (tr c ti)) (seq 0 (ntrans c)) = true /\
  map (Large.domain c) (fc_trans c) = map (Spec.transition_domain c []) (fc_trans c) /\
  existsb (fun t => match Large.exit_states_of lg_fixed c [1; 2; 3; 5; 6; 7; 9] t with [] => false | _ => true end) (fc_trans c) = true.
Proof. vm_compute. repeat split. Qed.
