(* PmlEquivHistStep.v -- C06 beyond the history-free core: ENTER_STATES (and with EXIT_STATES / TAKE_TRANSITIONS of
   PmlEquivStep.v, which hold for every chart, the three phases together) of the emitted step process against
   FastMicroStep on charts WITH pseudo-states (wf_histb): a <history> / <initial> member of the entry set is skipped by
   both, the content of the default / initial transitions in the transition set runs after the <onentry> of the
   parent.  PmlEquivStep.v with the tree facts taken from WFH.  Proofs only. *)
From V Require Import Base NameMatch Chart Exec Large Legal SetLemmas LegalAbstract LegalLarge WfCore Fast Trie PmlStep
                      TraceLemmas PmlStepLemmas SerializeCodecLemmas LegalHistBase LegalHistWf CGenEquivHistRun
                      PmlEquivBase PmlEquivContent PmlEquivStep.
From Coq Require Import Sorted.
Local Open Scope nat_scope.

Section HPhases.
Variable pv : pml_variant.
Variable c : fchart.
Variable iq eq : nat.
Variable dom : list N.
Hypothesis Hin : pv_in_reads_root pv = false.
Hypothesis H : wf_histb c = true.
Hypothesis Hcontent : content_ok dom c = true.
Hypothesis Hdata : forall i, i <> 0 -> fs_data (st c i) = [].
Let W : WFH c := wf_histb_sound c H.
Notation n := (nstates c).
Notation nt := (ntrans c).
Notation Rx := (Rx c).
Notation guard_ok := PmlEquivContent.guard_ok.
Notation Anc := (LegalAbstract.Anc (fun i => fs_parent (st c i))).
Notation ecorr := (ecorr c dom).
Notation p_enter_body := (p_enter_body pv c iq eq).
Notation pe2 := (pe2 pv c iq eq).
Notation pe3 := (pe3 pv c iq eq).
Notation pe4 := (pe4 c iq).
Notation pe5 := (pe5 c iq).
Notation fe3 := (fe3 c).
Notation fe5 := (fe5 c).
Notation p_done_body := (p_done_body c iq).
Notation p_trans_body := (p_trans_body pv c iq eq).
Notation pseudo_guard := (pseudo_guard c).
Notation done_guard := (done_guard c).

Local Notation mono_pe2 := (PmlEquivStep.mono_pe2 pv c iq eq).
Local Notation mono_pe3 := (PmlEquivStep.mono_pe3 pv c iq eq).
Local Notation mono_pe4 := (PmlEquivStep.mono_pe4 c iq).
Local Notation mono_pe5 := (PmlEquivStep.mono_pe5 c iq).
Local Notation pe3_as_set := (PmlEquivStep.pe3_as_set pv c iq eq).
Local Notation pseudo_fold_sim := (PmlEquivStep.pseudo_fold_sim pv c iq eq dom Hin Hcontent).
Local Notation sim_opt_blocks := (PmlEquivStep.sim_opt_blocks pv c iq eq dom Hin).
Local Notation state_content_ok := (PmlEquivStep.state_content_ok c dom Hcontent).
Local Notation Rx_out_none := (PmlEquivStep.Rx_out_none c).
Local Notation Rx_emit_none := (PmlEquivStep.Rx_emit_none c).
Local Notation Rx_out_emit := (PmlEquivStep.Rx_out_emit c).
Local Notation Rx_set_cfg := (PmlEquivStep.Rx_set_cfg c).
Local Notation Rx_set_flags := (PmlEquivStep.Rx_set_flags c).
Local Notation Rx_raise_direct := (PmlEquivStep.Rx_raise_direct c iq).
Local Notation done_name_event := (PmlEquivStep.done_name_event c).
Local Notation done_fold_sim := (PmlEquivStep.done_fold_sim c iq).
Local Notation fe5_store := (PmlEquivStep.fe5_store c).
Local Notation mono_enter_body := (PmlEquivStep.mono_enter_body pv c iq eq).

(* ---- tree facts from WFH ---- *)
Lemma hparent_some i : 0 < i -> i < n -> exists p, fs_parent (st c i) = Some p /\ p < i.
Proof.
  intros H0 Hi. destruct (wh_par_some c W i H0 Hi) as (p & Hp). exists p. split; [exact Hp|]. now destruct (wh_par_lt c W _ _ Hp).
Qed.

Lemma hanc_root_nil : fs_ancestors (st c 0) = [].
Proof.
  destruct (fs_ancestors (st c 0)) as [|a r] eqn:E; [reflexivity|].
  assert (Ha : In a (fs_ancestors (st c 0))) by (rewrite E; now left). apply (wh_anc c W), (hanc_lt c W) in Ha. lia.
Qed.

Lemma htop_level_tests i p : fs_parent (st c i) = Some p ->
  (match fs_ancestors (st c i) with [0] => true | _ => false end) = mem 1 (fs_children (st c p)).
Proof.
  intros Hp. destruct (wh_par_lt c W _ _ Hp) as [Hlt Hi].
  rewrite (hanc_in c H i Hi), Hp.
  assert (H1 : 1 < n) by lia.
  destruct (hparent_some 1 ltac:(lia) H1) as (q & Hq & Hq1). assert (q = 0) by lia. subst q.
  destruct (Nat.eq_dec p 0) as [->|Ne].
  - rewrite hanc_root_nil. cbn [insert_sorted]. symmetry. apply In_mem_true. now apply (wh_children c W).
  - replace (mem 1 (fs_children (st c p))) with false.
    2:{ symmetry. apply mem_false_In. intros Hin'. apply (wh_children c W) in Hin'. congruence. }
    destruct (hparent_some p ltac:(lia) ltac:(lia)) as (q & Hq' & Hql).
    assert (Hin' : In q (fs_ancestors (st c p))) by (apply (wh_anc c W); now apply anc_parent).
    assert (Hs : ssorted (insert_sorted p (fs_ancestors (st c p)))) by (apply insert_sorted_ssorted, (hist_anc_sorted c H)).
    assert (I1 : In p (insert_sorted p (fs_ancestors (st c p)))) by (apply insert_sorted_In; now left).
    assert (I2 : In q (insert_sorted p (fs_ancestors (st c p)))) by (apply insert_sorted_In; now right).
    destruct (insert_sorted p (fs_ancestors (st c p))) as [|a [|b r]]; [reflexivity| |destruct a as [|[|a]]; reflexivity].
    destruct I1 as [<-|[]]. destruct I2 as [<-|[]]. lia.
Qed.

Lemma hpe5_as_set i s4 :
  pe5 i s4 = fold_left (fun s j => if done_guard 0 s j then p_done_body s j else s) (fs_ancestors (st c i)) s4.
Proof.
  unfold pe5.
  rewrite <- (fold_seq_as_set (fs_ancestors (st c i)) (pn c) (done_guard 0) p_done_body s4 (hist_anc_sorted c H i) (hist_anc_bounded c H i)).
  apply fold_ext. intros s' j _. unfold p_parallel_done, done_guard, p_done_body. now rewrite andb_comm.
Qed.


Lemma hfenter_one_form ts a i : i <> 0 -> ~ In i (ea_cfg a) -> is_pseudo (fs_type (st c i)) = false ->
  let cfg1 := insert_sorted i (ea_cfg a) in
  let x5 := fe3 ts i cfg1 (ea_x a) in
  let r := fenter_one ex_fixed c ts a i in
  ea_cfg r = cfg1 /\
  match fs_type (st c i) with
  | FFinal =>
    let top := match fs_ancestors (st c i) with [0] => true | _ => false end in
    ea_tlf r = (ea_tlf a || top) /\
    ea_x r = fe5 i cfg1 (if top then x5 else match fs_parent (st c i) with Some p => raise_int (done_event c p) x5 | None => x5 end)
  | _ => ea_tlf r = ea_tlf a /\ ea_x r = x5
  end.
Proof.
  intros Hi0 Hni Hnp. cbv zeta. unfold fenter_one, PmlEquivStep.fe3, PmlEquivStep.fe5.
  rewrite (proj2 (mem_false_In i (ea_cfg a)) Hni), Hnp, (Hdata i Hi0). cbn [fold_left].
  destruct (mem i (ea_initd a)); destruct (fs_type (st c i)); cbn [ea_cfg ea_tlf ea_x]; auto.
Qed.


Lemma henter_body_sim ts s a i : ssorted ts -> bounded nt ts -> i < n -> ~ In i (ea_cfg a) ->
  is_pseudo (fs_type (st c i)) = false ->
  ecorr s a -> p_full (p_enter_body ts s i) = false ->
  ecorr (p_enter_body ts s i) (fenter_one ex_fixed c ts a i) /\
  p_hist (p_enter_body ts s i) = p_hist s /\ p_spont (p_enter_body ts s i) = p_spont s.
Proof.
  intros Hts Htb Hi Hni Hnp [Ec Er Es Et Ef Eso Ebd E0] Hf.
  assert (Hi0 : i <> 0) by (intros ->; contradiction).
  assert (G : guard_ok s) by (unfold PmlEquivContent.guard_ok; rewrite Et, Ef; now destruct (ea_tlf a)).
  destruct (hfenter_one_form ts a i Hi0 Hni Hnp) as [Fc Fr]. cbv zeta in Fc, Fr.
  set (cfg1 := insert_sorted i (ea_cfg a)) in *.
  set (r := fenter_one ex_fixed c ts a i) in *.
  unfold p_enter_body in *. cbv zeta in *.
  set (s1 := pe1 i s) in *. set (s2 := pe2 i s1) in *. set (s3 := pe3 ts i s2) in *.
  (* not full at the end: not full after each part *)
  assert (Hf3 : p_full s3 = false).
  { destruct (is_fin (ptype c i)); [|exact Hf].
    apply (not_full_before (fun s => pe5 i (pe4 i s)) s3); [|exact Hf].
    apply (mono_comp (pe4 i) (pe5 i)); [apply mono_pe4|apply mono_pe5]. }
  pose proof (not_full_before (pe3 ts i) s2 (mono_pe3 ts i) Hf3) as Hf2.
  assert (C1 : p_cfg s1 = cfg1) by (unfold s1, pe1, cfg1; cbn [set_cfg p_cfg]; now rewrite Ec).
  assert (R1 : Rx s1 (emit (TEb (fs_sid (st c i))) (ea_x a))).
  { unfold s1, pe1. apply Rx_set_cfg. apply (Rx_out_emit _ _ (VEnter (fs_sid (st c i)))); auto. }
  assert (P1 : prest s1 = prest s) by reflexivity.
  destruct (state_content_ok i) as [Hok _].
  assert (G1 : guard_ok s1) by now apply (guard_ok_rest s).
  destruct (sim_opt_blocks (fs_onentry (st c i)) (PProcEntry i) s1 _ eq_refl Hok R1 Es G1 Hf2) as (R2 & Hs2 & F2).
  fold (pe2 i s1) in R2, F2. fold s2 in R2, F2. rewrite C1 in R2, Hs2. apply pframe_split in F2 as [C2 P2].
  assert (R2' : Rx s2 (emit (TEe (fs_sid (st c i))) (exec_blocks ex_fixed (inst_of c cfg1) (fs_onentry (st c i)) (emit (TEb (fs_sid (st c i))) (ea_x a)))))
    by (apply Rx_emit_none; auto).
  assert (G2 : guard_ok s2) by now apply (guard_ok_rest s1).
  unfold s3 in Hf3. rewrite (pe3_as_set ts i s2 Hts Htb) in Hf3.
  destruct (pseudo_fold_sim i ts Hi0 s2 _ R2' Hs2 G2 Hf3) as (R3 & Hs3 & F3). cbv zeta in R3, Hs3.
  rewrite <- (pe3_as_set ts i s2 Hts Htb) in R3, F3. fold s3 in R3, F3.
  rewrite C2, C1 in R3, Hs3. fold (fe3 ts i cfg1 (ea_x a)) in R3, Hs3.
  apply pframe_split in F3 as [C3 P3].
  assert (C3' : p_cfg s3 = cfg1) by congruence.
  assert (P3' : prest s3 = prest s) by congruence.
  assert (Hso1 : ssorted cfg1) by (apply insert_sorted_ssorted; exact Eso).
  assert (Hbd1 : bounded n cfg1).
  { apply bounded_intro. intros y Hy. apply insert_sorted_In in Hy as [->|Hy]; [exact Hi | now apply (bounded_In n (ea_cfg a))]. }
  assert (H01 : In 0 cfg1) by (apply insert_sorted_In; now right).
  unfold ptype in *.
  destruct (fs_type (st c i)) eqn:Ety; cbn [is_fin] in *;
    try (destruct Fr as [Ft Fx]; unfold prest in P3';
         split; [constructor; rewrite ?Fc, ?Ft, ?Fx; auto; congruence | split; congruence]).
  (* a final state *)
  destruct Fr as [Ft Fx].
  destruct (hparent_some i ltac:(lia) Hi) as (p & Hp & Hpi).
  assert (Epp : pparent c i = p) by (unfold pparent; now rewrite Hp).
  rewrite Hp, (htop_level_tests i p Hp) in *.
  set (top := mem 1 (fs_children (st c p))) in *.
  set (s4 := pe4 i s3) in *.
  pose proof (not_full_before (pe5 i) s4 (mono_pe5 i) Hf) as Hf4.
  assert (R4 : Rx s4 (if top then fe3 ts i cfg1 (ea_x a) else raise_int (done_event c p) (fe3 ts i cfg1 (ea_x a))) /\
               p_cfg s4 = cfg1 /\ p_hist s4 = p_hist s /\
               p_spont s4 = p_spont s /\ p_tlf s4 = (ea_tlf a || top) /\ p_fin s4 = (ea_tlf a || top)).
  { unfold s4, pe4 in *. rewrite Epp, Hp in *. fold top in Hf4 |- *. unfold prest in P3'. destruct top.
    - cbn [set_flags p_cfg p_hist p_spont p_tlf p_fin]. rewrite orb_true_r.
      split; [apply Rx_set_flags; exact R3|]. repeat split; congruence.
    - rewrite orb_false_r. destruct (keeps_raise_direct iq (done_name c p) s3) as [F4 _].
      apply pframe_split in F4 as [C4 P4]. unfold prest in P4. rewrite done_name_event in *.
      split; [apply Rx_raise_direct; auto|]. repeat split; congruence. }
  destruct R4 as (R4 & C4 & Hh4 & Hsp4 & Ht4 & Hfi4).
  rewrite (hpe5_as_set i s4) in *.
  destruct (done_fold_sim (fs_ancestors (st c i)) s4 _ cfg1 C4 Hso1 Hbd1 R4 Hf) as (R5 & F5).
  apply pframe_split in F5 as [C5 P5]. unfold prest in P5.
  split; [|split; congruence].
  constructor; rewrite ?Fc, ?Ft, ?Fx.
  - congruence.
  - unfold fe5. destruct top; exact R5.
  - rewrite fe5_store. destruct top; exact Hs3.
  - congruence.
  - congruence.
  - exact Hso1.
  - exact Hbd1.
  - exact H01.
Qed.


Lemma henter_fold_sim ts l : ssorted ts -> bounded nt ts -> (forall i, In i l -> i < n) ->
  forall s a, ecorr s a ->
  let s' := fold_left (fun s i => if negb (mem i (p_cfg s)) && negb (is_pseudo (ptype c i)) then p_enter_body ts s i else s) l s in
  p_full s' = false ->
  ecorr s' (fold_left (fenter_one ex_fixed c ts) l a) /\ p_hist s' = p_hist s /\ p_spont s' = p_spont s.
Proof.
  intros Hts Htb. induction l as [|i r IH]; intros Hl s a E; cbn [fold_left]; intros Hf; [auto|].
  assert (M : mono (fun s => fold_left (fun s i => if negb (mem i (p_cfg s)) && negb (is_pseudo (ptype c i)) then p_enter_body ts s i else s) r s)).
  { apply mono_fold. intros j. apply (mono_if (fun s => negb (mem j (p_cfg s)) && negb (is_pseudo (ptype c j)))); [apply mono_enter_body|apply mono_id]. }
  pose proof (not_full_before _ _ M Hf) as Hf1.
  rewrite (ec_cfg _ _ _ _ E) in *.
  destruct (mem i (ea_cfg a)) eqn:Mi; cbn [negb andb] in *.
  - assert (Ea : fenter_one ex_fixed c ts a i = a) by (unfold fenter_one; now rewrite Mi).
    rewrite Ea. apply IH; auto. intros j Hj. apply Hl. now right.
  - unfold ptype in *. destruct (is_pseudo (fs_type (st c i))) eqn:Hnp; cbn [negb] in *.
    + assert (Ea : fenter_one ex_fixed c ts a i = a) by (unfold fenter_one; now rewrite Mi, Hnp).
      rewrite Ea. apply IH; auto. intros j Hj. apply Hl. now right.
    + apply mem_false_In in Mi.
      destruct (henter_body_sim ts s a i Hts Htb (Hl i (or_introl eq_refl)) Mi Hnp E Hf1) as (E1 & Hh1 & Hs1).
      destruct (IH (fun j Hj => Hl j (or_intror Hj)) _ _ E1 Hf) as (E2 & Hh2 & Hs2).
      split; [exact E2|split; congruence].
Qed.

Lemma henter_phase es ts s a : ssorted es -> bounded n es -> ssorted ts -> bounded nt ts ->
  ecorr s a ->
  let s' := fold_left (p_enter_one pv c iq eq es ts) (seq 0 (pn c)) s in
  p_full s' = false ->
  ecorr s' (fold_left (fenter_one ex_fixed c ts) es a) /\ p_hist s' = p_hist s /\ p_spont s' = p_spont s.
Proof.
  intros Hes Heb Hts Htb E. cbv zeta. rewrite (enter_as_set pv c iq eq es ts s Hes Heb).
  apply henter_fold_sim; auto. intros i Hi. now apply (bounded_In n es).
Qed.

(* the phases as a whole never clear the "queue full" flag *)

Theorem hphases_sim ex ts es s x initd :
  ssorted ex -> bounded n ex -> ssorted ts -> bounded nt ts -> ssorted es -> bounded n es ->
  ssorted (p_cfg s) -> bounded n (p_cfg s) -> In 0 (p_cfg s) -> mem 0 ex = false -> (forall i, In i ex -> In i (p_cfg s)) ->
  Rx s x -> store_has dom (x_store x) -> p_fin s = p_tlf s ->
  let s3 := fold_left (p_exit_one pv c iq eq ex) (rev (seq 0 (pn c))) s in
  let s4 := fold_left (p_take_one pv c iq eq ts) (seq 0 (pnt c)) s3 in
  let s5 := fold_left (p_enter_one pv c iq eq es ts) (seq 0 (pn c)) s4 in
  let cx1 := fold_left (exit_one ex_fixed c) (rev ex) (p_cfg s, x) in
  let x2 := fold_left (take_one ex_fixed c (fst cx1)) ts (snd cx1) in
  let a := fold_left (fenter_one ex_fixed c ts) es {| ea_cfg := fst cx1; ea_initd := initd; ea_tlf := p_tlf s; ea_x := x2 |} in
  p_full s5 = false ->
  p_cfg s5 = ea_cfg a /\ Rx s5 (ea_x a) /\ store_has dom (x_store (ea_x a)) /\
  p_tlf s5 = ea_tlf a /\ p_fin s5 = ea_tlf a /\ p_hist s5 = p_hist s /\ p_spont s5 = p_spont s.
Proof.
  intros Xs Xb Ts Tb Es Eb Cs Cb C0 X0 Xsub R Hs Hft. cbv zeta. intros Hfull.
  set (s3 := fold_left (p_exit_one pv c iq eq ex) (rev (seq 0 (pn c))) s) in *.
  set (s4 := fold_left (p_take_one pv c iq eq ts) (seq 0 (pnt c)) s3) in *.
  pose proof (not_full_before _ s4 (mono_enter_phase pv c iq eq es ts) Hfull) as Hf4.
  pose proof (not_full_before _ s3 (mono_take_phase pv c iq eq ts) Hf4) as Hf3.
  assert (G : guard_ok s) by (unfold PmlEquivContent.guard_ok; rewrite Hft; now destruct (p_tlf s)).
  destruct (exit_phase pv c iq eq dom Hin Hcontent ex s x Xs Xb Xsub R Hs G Hf3) as (C3 & R3 & S3 & P3). fold s3 in C3, R3, S3, P3.
  destruct (fold_left (exit_one ex_fixed c) (rev ex) (p_cfg s, x)) as [cfg1 x1] eqn:Eex. cbn [fst snd] in *.
  assert (Ecfg1 : cfg1 = fold_left (fun g i => set_remove i g) (rev ex) (p_cfg s)).
  { pose proof (exit_cfg_fold' c (rev ex) (p_cfg s) x) as E. rewrite Eex in E. exact E. }
  destruct (take_phase pv c iq eq dom Hin Hcontent ts s3 x1 Ts Tb R3 S3 (guard_ok_rest _ _ P3 G) Hf4) as (R4 & S4 & F4).
  fold s4 in R4, S4, F4. rewrite C3 in R4, S4. apply pframe_split in F4 as [C4 P4].
  assert (P4' : prest s4 = prest s) by congruence. unfold prest in P4'.
  assert (Hin1 : forall y, In y cfg1 -> In y (p_cfg s)).
  { intros y. rewrite Ecfg1. generalize (rev ex), (p_cfg s). induction l as [|i r IH]; intros g Hy; cbn [fold_left] in Hy; [exact Hy|].
    apply IH in Hy. apply In_set_remove in Hy. tauto. }
  assert (H01 : In 0 cfg1).
  { rewrite Ecfg1. assert (Hn : ~ In 0 (rev ex)) by (rewrite <- in_rev; now apply mem_false_In).
    revert Hn C0. generalize (rev ex), (p_cfg s). induction l as [|i r IH]; intros g Hn Hg; cbn [fold_left]; [exact Hg|].
    apply IH; [intros Hr; apply Hn; now right|]. apply In_set_remove. split; [exact Hg|]. intros E. apply Hn. left. now symmetry. }
  assert (Hs1 : ssorted cfg1).
  { rewrite Ecfg1. revert Cs. generalize (rev ex), (p_cfg s). induction l as [|i r IH]; intros g Hg; cbn [fold_left]; [exact Hg|].
    apply IH. now apply set_remove_ssorted. }
  assert (E4 : ecorr s4 {| ea_cfg := cfg1; ea_initd := initd; ea_tlf := p_tlf s; ea_x := fold_left (take_one ex_fixed c cfg1) ts x1 |}).
  { constructor; cbn [ea_cfg ea_x ea_tlf].
    - congruence.
    - exact R4.
    - exact S4.
    - congruence.
    - congruence.
    - exact Hs1.
    - apply bounded_intro. intros y Hy. apply (bounded_In n (p_cfg s)); auto.
    - exact H01. }
  destruct (henter_phase es ts s4 _ Es Eb Ts Tb E4 Hfull) as ([F1 F2 F3 F4' F5 _ _ _] & Hh5 & Hsp5).
  split; [exact F1|]. split; [exact F2|]. split; [exact F3|]. split; [exact F4'|]. split; [exact F5|]. split; congruence.
Qed.

End HPhases.
