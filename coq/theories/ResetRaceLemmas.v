(* ResetRaceLemmas.v -- C10: proofs about ResetRace.v (reset() racing the timer thread).
   All statements are for every schedule (any list of actions), any number of pending timers, any
   contents of the queues and any state of the timer thread at the moment reset() is called. *)
From V Require Import Base GenResetOrder ResetRace.
Local Open Scope N_scope.

(* ------------------------------------------------------------------ the invariant *)

(* code as it is: the run went through the window (a callback past its critical section 1 when the
   timers were cancelled); the repaired variant has no such excuse *)
Definition excused (v : rr_variant) (s : rstate) : bool := negb (rv_locks_targets v) && r_raced s.

(* while reset() holds _delayMutex: the target map is empty and the timer thread is not inside eventReady *)
Definition lock_inv (s : rstate) : Prop :=
  r_locked s = true -> r_targets s = [] /\ (forall u, r_cb s <> CbErrQueued u).

(* the timers are cancelled and nothing can be delivered any more; each queue is empty or still to be emptied *)
Definition done_part (s : rstate) : Prop :=
  r_pend s = [] /\ cb_quietb s = true
  /\ (has_part ResetExternal (r_todo s) = true \/ r_ext s = [])
  /\ (has_part ResetInternal (r_todo s) = true \/ r_int s = []).

Definition good (v : rr_variant) (s : rstate) : Prop :=
  excused v s = true
  \/ (r_processed s = [] /\ (delay_firstb (r_todo s) = true \/ done_part s)).

Definition rr_inv (v : rr_variant) (s : rstate) : Prop := lock_inv s /\ good v s.

(* ------------------------------------------------------------------ small facts *)

Lemma mem_nil : forall u, mem u [] = false.
Proof. reflexivity. Qed.

Lemma raced_mono : forall v s a, r_raced s = true -> r_raced (rr_step v s a) = true.
Proof.
  intros v s a H. unfold rr_step. destruct (r_blocked s); [exact H|].
  destruct a as [u| | |].
  - unfold fire_step. destruct (r_cb s); try exact H. destruct (mem u (r_pend s)); exact H.
  - unfold timer_step. destruct (r_cb s) as [|u|u|u]; try exact H.
    + destruct (mem u (r_pend s)); exact H.
    + destruct (r_locked s); [exact H|]. destruct (lookup (r_targets s) u) as [[|]|]; exact H.
  - unfold reset_step. destruct (r_todo s) as [|[| |] rest]; try exact H.
    destruct (rv_locks_targets v && negb (r_locked s)).
    + destruct (r_cb s); exact H.
    + unfold cancel_all. destruct (r_cb s) as [|u|u|u]; cbn [r_raced]; try (rewrite H; reflexivity).
      destruct (mem u (r_pend s)); exact H.
  - unfold interp_step. destruct (r_todo s); [|exact H].
    destruct (r_int s); [destruct (r_ext s)|]; exact H.
Qed.

Lemma excused_mono : forall v s a, excused v s = true -> excused v (rr_step v s a) = true.
Proof.
  intros v s a H. unfold excused in *. apply andb_true_iff in H. destruct H as [H1 H2].
  rewrite H1. cbn [andb]. apply raced_mono. exact H2.
Qed.

Lemma has_part_cons_other : forall p q r, part_eqb p q = false -> has_part p (q :: r) = has_part p r.
Proof. intros p q r H. unfold has_part. cbn [existsb]. rewrite H. reflexivity. Qed.

(* ------------------------------------------------------------------ preservation: the lock invariant *)

Lemma lock_inv_step : forall v s a, lock_inv s -> lock_inv (rr_step v s a).
Proof.
  intros v s a L. unfold rr_step. destruct (r_blocked s); [exact L|].
  destruct a as [u| | |].
  - (* fire *)
    unfold fire_step. destruct (r_cb s) eqn:Ec; try exact L.
    destruct (mem u (r_pend s)); [|exact L].
    intro Hl. cbn in Hl. destruct (L Hl) as [Ht _]. split; [exact Ht|]. intros u' Hc. cbn in Hc. discriminate Hc.
  - (* timer *)
    unfold timer_step. destruct (r_cb s) as [|u|u|u] eqn:Ec; try exact L.
    + destruct (mem u (r_pend s)).
      * intro Hl. cbn in Hl. destruct (L Hl) as [Ht _]. split; [exact Ht|]. intros u' Hc; cbn in Hc; discriminate Hc.
      * intro Hl. cbn in Hl. destruct (L Hl) as [Ht _]. split; [exact Ht|]. intros u' Hc; cbn in Hc; discriminate Hc.
    + destruct (r_locked s) eqn:El; [exact L|].
      destruct (lookup (r_targets s) u) as [[|]|]; intro Hl; cbn in Hl; try discriminate Hl.
      rewrite El in Hl. discriminate Hl.
    + intro Hl. cbn in Hl. destruct (L Hl) as [_ Hn]. exfalso. apply (Hn u). exact Ec.
  - (* reset *)
    unfold reset_step. destruct (r_todo s) as [|[| |] rest]; try exact L.
    + destruct (rv_locks_targets v && negb (r_locked s)).
      * destruct (r_cb s) as [|u|u|u] eqn:Ec; try exact L;
          (intro Hl; split; [reflexivity|]; intros u' Hc; cbn in Hc; discriminate Hc).
      * unfold cancel_all. destruct (r_cb s) as [|u|u|u] eqn:Ec;
          try (intro Hl; cbn in Hl; discriminate Hl).
        destruct (mem u (r_pend s)).
        -- intro Hl. cbn in Hl. destruct (L Hl) as [Ht Hn]. split; [exact Ht|]. cbn. intros u' Hc. discriminate Hc.
        -- intro Hl; cbn in Hl; discriminate Hl.
  - (* step *)
    unfold interp_step. destruct (r_todo s); [|exact L].
    destruct (r_int s); [destruct (r_ext s)|]; try exact L;
      (intro Hl; cbn in Hl; destruct (L Hl) as [Ht Hn]; split; [exact Ht|exact Hn]).
Qed.

(* ------------------------------------------------------------------ preservation: good *)

Lemma cb_quiet_set_idle : forall s, cb_quietb (set_cb s CbIdle) = true.
Proof. reflexivity. Qed.

(* actions of the timer thread and of step() in a state where the timers are cancelled *)
Lemma done_part_fire : forall s u, done_part s -> fire_step s u = s.
Proof.
  intros s u (Hp & _). unfold fire_step. destruct (r_cb s); try reflexivity. rewrite Hp. reflexivity.
Qed.

Lemma done_part_timer : forall s, done_part s ->
  done_part (timer_step s) /\ r_processed (timer_step s) = r_processed s.
Proof.
  intros s (Hp & Hq & He & Hi). unfold timer_step. destruct (r_cb s) as [|u|u|u] eqn:Ec.
  - split; [|reflexivity]. split; [exact Hp|]. split; [exact Hq|]. split; assumption.
  - rewrite Hp. cbn [mem existsb]. split; [|reflexivity]. split; [exact Hp|]. split; [reflexivity|]. split; assumption.
  - destruct (r_locked s).
    + split; [|reflexivity]. split; [exact Hp|]. split; [exact Hq|]. split; assumption.
    + unfold cb_quietb in Hq. rewrite Ec in Hq. destruct (lookup (r_targets s) u); [discriminate Hq|].
      split; [|reflexivity]. split; [exact Hp|]. split; [reflexivity|]. split; assumption.
  - unfold cb_quietb in Hq. rewrite Ec in Hq. discriminate Hq.
Qed.

Lemma done_part_interp : forall s, done_part s -> interp_step s = s.
Proof.
  intros s (Hp & Hq & He & Hi). unfold interp_step. destruct (r_todo s) eqn:Et; [|reflexivity].
  cbn in He, Hi. destruct He as [He|He]; [discriminate He|]. destruct Hi as [Hi|Hi]; [discriminate Hi|].
  rewrite Hi, He. reflexivity.
Qed.

Lemma good_step : forall v s a, lock_inv s -> good v s -> good v (rr_step v s a).
Proof.
  intros v s a L [Hx|[Hpr Hg]].
  { left. apply excused_mono. exact Hx. }
  unfold rr_step. destruct (r_blocked s) eqn:Eb.
  { right. split; assumption. }
  destruct a as [u| | |].
  - (* fire: only r_cb changes, and only when a timer is pending *)
    destruct Hg as [Hd|Hd].
    + right. unfold fire_step. destruct (r_cb s); try (split; [exact Hpr|left; exact Hd]).
      destruct (mem u (r_pend s)); (split; [exact Hpr|left; exact Hd]).
    + rewrite (done_part_fire s u Hd). right. split; [exact Hpr|right; exact Hd].
  - (* timer *)
    destruct Hg as [Hd|Hd].
    + right. unfold timer_step. destruct (r_cb s) as [|u|u|u]; try (split; [exact Hpr|left; exact Hd]).
      * destruct (mem u (r_pend s)); (split; [exact Hpr|left; exact Hd]).
      * destruct (r_locked s); [split; [exact Hpr|left; exact Hd]|].
        destruct (lookup (r_targets s) u) as [[|]|]; (split; [exact Hpr|left; exact Hd]).
    + destruct (done_part_timer s Hd) as [Hd' Hp']. right. split; [rewrite Hp'; exact Hpr|right; exact Hd'].
  - (* reset *)
    unfold reset_step. destruct (r_todo s) as [|p rest] eqn:Et.
    { right. split; [exact Hpr|]. destruct Hg as [Hd|Hd]; [cbn in Hd; discriminate Hd|right; exact Hd]. }
    destruct p.
    + (* ResetDelay *)
      destruct (rv_locks_targets v && negb (r_locked s)) eqn:Elk.
      * (* take _delayMutex, clear the targets: r_todo unchanged *)
        destruct (r_cb s) as [|u|u|u] eqn:Ec.
        -- right. split; [exact Hpr|]. cbn [r_todo]. destruct Hg as [Hd|(Hp & Hq & He & Hi)]; [left; exact Hd|].
           right. split; [exact Hp|]. split; [reflexivity|]. cbn [r_todo r_ext r_int]. rewrite Et in He, Hi. split; assumption.
        -- right. split; [exact Hpr|]. cbn [r_todo]. destruct Hg as [Hd|(Hp & Hq & He & Hi)]; [left; exact Hd|].
           right. split; [exact Hp|]. split; [reflexivity|]. cbn [r_todo r_ext r_int]. rewrite Et in He, Hi. split; assumption.
        -- right. split; [exact Hpr|]. cbn [r_todo]. destruct Hg as [Hd|(Hp & Hq & He & Hi)]; [left; exact Hd|].
           right. split; [exact Hp|]. split; [reflexivity|]. cbn [r_todo r_ext r_int]. rewrite Et in He, Hi. split; assumption.
        -- right. split; [exact Hpr|]. destruct Hg as [Hd|Hd]; [left; rewrite Et; exact Hd|right; exact Hd].
      * (* cancelAllDelayed *)
        assert (Hq' : rv_locks_targets v = true -> r_targets s = [] /\ (forall u, r_cb s <> CbErrQueued u)).
        { intro Hv. rewrite Hv in Elk. cbn in Elk. apply negb_false_iff in Elk. apply L. exact Elk. }
        assert (Hrest : (has_part ResetExternal rest = true /\ has_part ResetInternal rest = true)
                        \/ delay_firstb rest = true \/ done_part s).
        { destruct Hg as [Hd|Hd]; [|right; right; exact Hd].
          cbn [delay_firstb part_eqb andb] in Hd. apply orb_true_iff in Hd. destruct Hd as [Hd|Hd]; [|right; left; exact Hd].
          left. apply andb_true_iff in Hd. exact Hd. }
        unfold cancel_all. destruct (r_cb s) as [|u|u|u] eqn:Ec.
        -- (* idle *)
           right. split; [exact Hpr|]. cbn [r_todo]. destruct Hrest as [(H1 & H2)|[H|H]].
           ++ right. split; [reflexivity|]. split; [unfold cb_quietb; cbn; reflexivity|]. cbn. split; left; assumption.
           ++ left. exact H.
           ++ right. destruct H as (Hp & Hq & He & Hi). rewrite Et in He, Hi.
              rewrite has_part_cons_other in He by reflexivity. rewrite has_part_cons_other in Hi by reflexivity.
              split; [reflexivity|]. split; [unfold cb_quietb; cbn; reflexivity|]. cbn. split; assumption.
        -- (* entered *)
           destruct (mem u (r_pend s)) eqn:Em.
           ++ (* dead-lock: nothing changes but r_blocked *)
              right. split; [exact Hpr|]. cbn [r_todo]. rewrite Et. destruct Hg as [Hd|(Hp & _)]; [left; exact Hd|].
              rewrite Hp in Em. discriminate Em.
           ++ right. split; [exact Hpr|]. cbn [r_todo]. destruct Hrest as [(H1 & H2)|[H|H]].
              ** right. split; [reflexivity|]. split; [unfold cb_quietb; cbn; reflexivity|]. cbn. split; left; assumption.
              ** left. exact H.
              ** right. destruct H as (Hp & Hq & He & Hi). rewrite Et in He, Hi.
                 rewrite has_part_cons_other in He by reflexivity. rewrite has_part_cons_other in Hi by reflexivity.
                 split; [reflexivity|]. split; [unfold cb_quietb; cbn; reflexivity|]. cbn. split; assumption.
        -- (* taken: in flight *)
           destruct (rv_locks_targets v) eqn:Ev.
           ++ destruct (Hq' eq_refl) as [Ht _].
              right. split; [exact Hpr|]. cbn [r_todo].
              assert (Hquiet : forall (e : list ev) (i : list ev) (t : list reset_part) (b1 b2 b3 : bool) (pr : list ev),
                         cb_quietb {| r_ext := e; r_int := i; r_pend := []; r_targets := r_targets s; r_cb := CbTaken u;
                                      r_todo := t; r_locked := b1; r_blocked := b2; r_raced := b3; r_processed := pr |} = true).
              { intros. unfold cb_quietb. cbn. rewrite Ht. reflexivity. }
              destruct Hrest as [(H1 & H2)|[H|H]].
              ** right. split; [reflexivity|]. split; [apply Hquiet|]. cbn. split; left; assumption.
              ** left. exact H.
              ** right. destruct H as (Hp & Hq & He & Hi). rewrite Et in He, Hi.
                 rewrite has_part_cons_other in He by reflexivity. rewrite has_part_cons_other in Hi by reflexivity.
                 split; [reflexivity|]. split; [apply Hquiet|]. cbn. split; assumption.
           ++ left. unfold excused. rewrite Ev. cbn. apply orb_true_r.
        -- (* error queued: in flight; impossible under the lock *)
           destruct (rv_locks_targets v) eqn:Ev.
           ++ destruct (Hq' eq_refl) as [_ Hn]. exfalso. apply (Hn u). reflexivity.
           ++ left. unfold excused. rewrite Ev. cbn. apply orb_true_r.
    + (* ResetExternal *)
      right. split; [exact Hpr|]. cbn [r_todo]. destruct Hg as [Hd|(Hp & Hq & He & Hi)].
      * left. cbn [delay_firstb part_eqb andb orb] in Hd. exact Hd.
      * right. split; [exact Hp|]. split; [exact Hq|]. cbn. split; [right; reflexivity|].
        rewrite Et in Hi. rewrite has_part_cons_other in Hi by reflexivity. exact Hi.
    + (* ResetInternal *)
      right. split; [exact Hpr|]. cbn [r_todo]. destruct Hg as [Hd|(Hp & Hq & He & Hi)].
      * left. cbn [delay_firstb part_eqb andb orb] in Hd. exact Hd.
      * right. split; [exact Hp|]. split; [exact Hq|]. cbn. split; [|right; reflexivity].
        rewrite Et in He. rewrite has_part_cons_other in He by reflexivity. exact He.
  - (* step() *)
    destruct Hg as [Hd|Hd].
    + right. unfold interp_step. destruct (r_todo s) eqn:Et; [cbn in Hd; discriminate Hd|].
      split; [exact Hpr|left; rewrite Et; exact Hd].
    + rewrite (done_part_interp s Hd). right. split; [exact Hpr|right; exact Hd].
Qed.

Lemma rr_inv_step : forall v s a, rr_inv v s -> rr_inv v (rr_step v s a).
Proof.
  intros v s a [L G]. split; [apply lock_inv_step; exact L|apply good_step; assumption].
Qed.

Lemma rr_inv_run : forall v sched s, rr_inv v s -> rr_inv v (rr_run v s sched).
Proof.
  intros v sched. induction sched as [|a r IH]; intros s H; [exact H|].
  cbn [rr_run fold_left]. apply IH. apply rr_inv_step. exact H.
Qed.

Lemma rr_inv_at_call : forall v order ext int pend targets cb,
  delay_firstb order = true -> rr_inv v (rr_at_call order ext int pend targets cb).
Proof.
  intros v order ext int pend targets cb H. split.
  - intro Hl. cbn in Hl. discriminate Hl.
  - right. split; [reflexivity|left; exact H].
Qed.

(* ------------------------------------------------------------------ the theorems *)

(* U.  every order that cancels the timers before it empties both queues, both variants, every
   state at the call, every schedule: once reset() has returned nothing of the previous life is left
   and nothing was processed -- for the code as it is unless the run went through the window r_raced *)
Theorem reset_leaves_nothing_behind_lemma :
  forall v order ext int pend targets cb sched,
    delay_firstb order = true ->
    let s := rr_run v (rr_at_call order ext int pend targets cb) sched in
    returned s = true ->
    rv_locks_targets v = true \/ r_raced s = false ->
    nothing_leftb s = true /\ r_processed s = [].
Proof.
  intros v order ext int pend targets cb sched Ho s Hr Hx.
  assert (I : rr_inv v s) by (apply rr_inv_run; apply rr_inv_at_call; exact Ho).
  destruct I as [_ [Hex|[Hpr Hg]]].
  - exfalso. unfold excused in Hex. apply andb_true_iff in Hex. destruct Hex as [H1 H2].
    destruct Hx as [Hx|Hx]; [rewrite Hx in H1; discriminate H1|rewrite Hx in H2; discriminate H2].
  - split; [|exact Hpr]. unfold returned in Hr. destruct (r_todo s) eqn:Et; [|discriminate Hr].
    destruct Hg as [Hd|(Hp & Hq & He & Hi)]; [cbn in Hd; discriminate Hd|].
    rewrite Et in He, Hi. cbn in He, Hi.
    destruct He as [He|He]; [discriminate He|]. destruct Hi as [Hi|Hi]; [discriminate Hi|].
    unfold nothing_leftb. rewrite He, Hi, Hp. exact Hq.
Qed.

(* after the return: r_todo stays [], r_raced does not change *)
Lemma returned_step : forall v s a, r_todo s = [] ->
  r_todo (rr_step v s a) = [] /\ r_raced (rr_step v s a) = r_raced s.
Proof.
  intros v s a Ht. unfold rr_step. destruct (r_blocked s); [split; [exact Ht|reflexivity]|].
  destruct a as [u| | |].
  - unfold fire_step. destruct (r_cb s); try (split; [exact Ht|reflexivity]).
    destruct (mem u (r_pend s)); (split; [exact Ht|reflexivity]).
  - unfold timer_step. destruct (r_cb s) as [|u|u|u]; try (split; [exact Ht|reflexivity]).
    + destruct (mem u (r_pend s)); (split; [exact Ht|reflexivity]).
    + destruct (r_locked s); [split; [exact Ht|reflexivity]|].
      destruct (lookup (r_targets s) u) as [[|]|]; (split; [exact Ht|reflexivity]).
  - unfold reset_step. rewrite Ht. split; [exact Ht|reflexivity].
  - unfold interp_step. rewrite Ht. destruct (r_int s); [destruct (r_ext s)|]; (split; [try exact Ht; reflexivity|reflexivity]).
Qed.

Lemma returned_run : forall v sched s, r_todo s = [] ->
  r_todo (rr_run v s sched) = [] /\ r_raced (rr_run v s sched) = r_raced s.
Proof.
  intros v sched. induction sched as [|a r IH]; intros s Ht; [split; [exact Ht|reflexivity]|].
  cbn [rr_run fold_left]. destruct (returned_step v s a Ht) as [H1 H2].
  destruct (IH _ H1) as [H3 H4]. split; [exact H3|]. unfold rr_run in H4. rewrite H4. exact H2.
Qed.

Lemma rr_run_app : forall v s a b, rr_run v s (a ++ b) = rr_run v (rr_run v s a) b.
Proof. intros. unfold rr_run. apply fold_left_app. Qed.

(* a fresh interpreter, left to the timer thread and to step() without events: nothing happens *)
Lemma fresh_core : forall v sched, rr_core (rr_run v rr_fresh sched) = ([], [], [], []).
Proof.
  intros v sched.
  assert (H : forall s, nothing_leftb s = true -> r_todo s = [] -> r_processed s = [] ->
                let s' := rr_run v s sched in nothing_leftb s' = true /\ r_todo s' = [] /\ r_processed s' = []).
  { induction sched as [|a r IH]; intros s Hn Ht Hp; [cbn; auto|].
    cbn [rr_run fold_left]. apply IH.
    - unfold nothing_leftb in Hn. destruct (r_ext s) eqn:Ee; [|discriminate Hn]. destruct (r_int s) eqn:Ei; [|discriminate Hn].
      destruct (r_pend s) eqn:Epd; [|discriminate Hn].
      assert (D : done_part s).
      { split; [exact Epd|]. split; [exact Hn|]. split; right; assumption. }
      unfold rr_step. destruct (r_blocked s); [unfold nothing_leftb; rewrite Ee, Ei, Epd; exact Hn|].
      destruct a as [u| | |].
      + rewrite (done_part_fire s u D). unfold nothing_leftb; rewrite Ee, Ei, Epd; exact Hn.
      + destruct (done_part_timer s D) as [(Hp1 & Hq1 & _) _].
        unfold nothing_leftb. rewrite Hp1.
        assert (Hee : r_ext (timer_step s) = []).
        { unfold timer_step. destruct (r_cb s) as [|u|u|u] eqn:Ec; try exact Ee.
          - rewrite Epd. cbn. exact Ee.
          - destruct (r_locked s); [exact Ee|]. unfold cb_quietb in Hn. rewrite Ec in Hn.
            destruct (lookup (r_targets s) u); [discriminate Hn|exact Ee].
          - unfold cb_quietb in Hn. rewrite Ec in Hn. discriminate Hn. }
        assert (Hii : r_int (timer_step s) = []).
        { unfold timer_step. destruct (r_cb s) as [|u|u|u] eqn:Ec; try exact Ei.
          - rewrite Epd. cbn. exact Ei.
          - destruct (r_locked s); [exact Ei|]. unfold cb_quietb in Hn. rewrite Ec in Hn.
            destruct (lookup (r_targets s) u); [discriminate Hn|exact Ei]. }
        rewrite Hee, Hii. exact Hq1.
      + unfold reset_step. rewrite Ht. unfold nothing_leftb; rewrite Ee, Ei, Epd; exact Hn.
      + rewrite (done_part_interp s D). unfold nothing_leftb; rewrite Ee, Ei, Epd; exact Hn.
    - apply returned_step. exact Ht.
    - unfold rr_step. destruct (r_blocked s); [exact Hp|].
      assert (D : done_part s).
      { unfold nothing_leftb in Hn. destruct (r_ext s) eqn:Ee; [|discriminate Hn]. destruct (r_int s) eqn:Ei; [|discriminate Hn].
        destruct (r_pend s) eqn:Epd; [|discriminate Hn].
        split; [exact Epd|]. split; [exact Hn|]. split; right; assumption. }
      destruct a as [u| | |].
      + rewrite (done_part_fire s u D). exact Hp.
      + destruct (done_part_timer s D) as [_ Hp']. rewrite Hp'. exact Hp.
      + unfold reset_step. rewrite Ht. exact Hp.
      + rewrite (done_part_interp s D). exact Hp. }
  destruct (H rr_fresh eq_refl eq_refl eq_refl) as (Hn & Ht & Hp).
  unfold rr_core. rewrite Hp. unfold nothing_leftb in Hn.
  destruct (r_ext (rr_run v rr_fresh sched)); [|discriminate Hn].
  destruct (r_int (rr_run v rr_fresh sched)); [|discriminate Hn].
  destruct (r_pend (rr_run v rr_fresh sched)); [|discriminate Hn]. reflexivity.
Qed.

(* U.  ... and it stays so: whatever the timer thread and step() do after the return, no event of the
   previous life appears in a queue or is processed; queues, timers and processed events are those of
   a fresh interpreter under the same schedule *)
Theorem reset_like_fresh_concurrent_lemma :
  forall v order ext int pend targets cb sched,
    delay_firstb order = true ->
    let s := rr_run v (rr_at_call order ext int pend targets cb) sched in
    returned s = true ->
    rv_locks_targets v = true \/ r_raced s = false ->
    forall sched2, let s' := rr_run v s sched2 in
      nothing_leftb s' = true /\ r_processed s' = []
      /\ rr_core s' = rr_core (rr_run v rr_fresh sched2).
Proof.
  intros v order ext int pend targets cb sched Ho s Hr Hx sched2 s'.
  assert (Ht : r_todo s = []) by (unfold returned in Hr; destruct (r_todo s); [reflexivity|discriminate Hr]).
  destruct (returned_run v sched2 s Ht) as [Ht' Hrc'].
  assert (E : s' = rr_run v (rr_at_call order ext int pend targets cb) (sched ++ sched2)).
  { unfold s', s. symmetry. apply rr_run_app. }
  assert (R : nothing_leftb s' = true /\ r_processed s' = []).
  { rewrite E. apply reset_leaves_nothing_behind_lemma; [exact Ho| |].
    - rewrite <- E. unfold returned. fold s' in Ht'. rewrite Ht'. reflexivity.
    - rewrite <- E. fold s' in Hrc'. rewrite Hrc'. exact Hx. }
  destruct R as [Rn Rp]. split; [exact Rn|]. split; [exact Rp|].
  rewrite fresh_core. unfold rr_core. rewrite Rp. unfold nothing_leftb in Rn.
  destruct (r_ext s'); [|discriminate Rn]. destruct (r_int s'); [|discriminate Rn].
  destruct (r_pend s'); [|discriminate Rn]. reflexivity.
Qed.

(* ------------------------------------------------------------------ what cannot be dropped *)

(* the order of the seeded regression: internal, external, delay.  One pending delayed send, the timer
   thread idle at the call; its timer fires after _externalQueue.reset() and before _delayQueue.reset():
   reset() returns with the stale event in the external queue (never in the window r_raced), and the
   next step() processes it.  Both variants. *)
Definition bad_order := [ResetInternal; ResetExternal; ResetDelay].
Definition bad_sched := [AReset; AReset; AFire 7; ATimer; ATimer; AReset; AReset].

Lemma reset_order_matters_refuted_lemma :
  forall v, exists pend targets sched,
    let s := rr_run v (rr_at_call bad_order [] [] pend targets CbIdle) sched in
    returned s = true /\ r_raced s = false /\ r_ext s = [EvTimer 7]
    /\ r_processed (rr_step v s AStep) = [EvTimer 7].
Proof.
  intros [[|]]; exists [7], [(7, KDeliver)], bad_sched; vm_compute; repeat split; reflexivity.
Qed.

(* the same order, an undeliverable delayed send: the error event of the previous life is in the
   INTERNAL queue of the restarted machine *)
Lemma reset_order_matters_internal_refuted_lemma :
  forall v, exists sched,
    let s := rr_run v (rr_at_call bad_order [] [] [7] [(7, KError)] CbIdle) sched in
    returned s = true /\ r_raced s = false /\ r_int s = [EvError 7] /\ r_ext s = [EvUnblock].
Proof.
  intros [[|]]; exists [AReset; AReset; AFire 7; ATimer; ATimer; ATimer; AReset; AReset]; vm_compute; repeat split; reflexivity.
Qed.

(* the code as it is, WITH the right order: the timer fires just before reset() is called, its callback
   is past its critical section when the timers are cancelled; reset() returns (both queues empty),
   then the callback delivers.  The side condition r_raced = false cannot be dropped for rv_code. *)
Lemma reset_inflight_refuted_lemma :
  exists sched sched2,
    let s := rr_run rv_code (rr_at_call [ResetDelay; ResetExternal; ResetInternal] [] [] [7] [(7, KDeliver)] CbIdle) sched in
    returned s = true /\ nothing_leftb s = false /\ r_ext s = [] /\ r_int s = []
    /\ r_processed (rr_run rv_code s sched2) = [EvTimer 7].
Proof.
  exists [AFire 7; ATimer; AReset; AReset; AReset], [ATimer; AStep]. vm_compute. repeat split; reflexivity.
Qed.

(* in the same schedule the repaired variant drops the event *)
Lemma reset_inflight_fixed_example :
  let s := rr_run rv_fixed (rr_at_call [ResetDelay; ResetExternal; ResetInternal] [] [] [7] [(7, KDeliver)] CbIdle)
                  [AFire 7; ATimer; AReset; AReset; AReset; AReset; ATimer; AStep] in
  returned s = true /\ nothing_leftb s = true /\ r_processed s = [] /\ r_raced s = true.
Proof. vm_compute. repeat split; reflexivity. Qed.

(* reset() meets a callback that has not reached its critical section: event_del waits for it, it
   waits for _mutex (known finding C09-deadlock; Delay.v / DelayLemmas.v have the protocol).  In this
   model: reset() never returns. *)
Lemma reset_returns_refuted_lemma :
  forall v, exists sched, forall sched2,
    let s := rr_run v (rr_run v (rr_at_call [ResetDelay; ResetExternal; ResetInternal] [] [] [7] [(7, KDeliver)] CbIdle) sched) sched2 in
    r_blocked s = true /\ returned s = false.
Proof.
  intros v. exists [AFire 7; AReset; AReset]. intro sched2.
  assert (H : forall s, r_blocked s = true -> rr_run v s sched2 = s).
  { induction sched2 as [|a r IH]; intros s Hb; [reflexivity|].
    change (rr_run v s (a :: r)) with (rr_run v (rr_step v s a) r).
    assert (E : rr_step v s a = s) by (unfold rr_step; rewrite Hb; reflexivity).
    rewrite E. apply IH. exact Hb. }
  destruct v as [[|]]; (rewrite H; [vm_compute; split; reflexivity|vm_compute; reflexivity]).
Qed.

(* ------------------------------------------------------------------ non-vacuity *)

(* two pending timers (one deliverable, one not), events in both queues at the call; the first timer
   fires and delivers while reset() is under way, the second is cancelled: the hypotheses of the
   theorems hold and the run is not trivial (the external queue was non-empty on the way) *)
Example reset_race_nonvacuous :
  let s0 := rr_at_call [ResetDelay; ResetExternal; ResetInternal] [EvOther 1] [EvOther 2] [7; 8]
                       [(7, KDeliver); (8, KError)] CbIdle in
  delay_firstb (r_todo s0) = true
  /\ (let mid := rr_run rv_fixed s0 [AFire 7; ATimer; ATimer] in r_ext mid = [EvOther 1; EvTimer 7] /\ r_pend mid = [8])
  /\ (let s := rr_run rv_fixed s0 [AFire 7; ATimer; ATimer; AReset; AFire 8; ATimer; AReset; ATimer; AReset; AReset; AStep] in
      returned s = true /\ nothing_leftb s = true /\ r_processed s = [] /\ r_blocked s = false)
  /\ (let s := rr_run rv_code s0 [AFire 7; ATimer; ATimer; AReset; AFire 8; AReset; AReset; AStep] in
      returned s = true /\ r_raced s = false /\ nothing_leftb s = true).
Proof. vm_compute. repeat split; reflexivity. Qed.

(* ------------------------------------------------------------------ the regenerated order *)

(* the obligation that breaks when the source is reordered (or when the translator cannot read it) *)
Lemma gen_reset_order_ok_lemma : reset_order_source_ok = true /\ delay_firstb reset_order = true.
Proof. split; reflexivity. Qed.

(* the form used in props/Properties_C10.v: the verdict is computed there (eq_refl), so that a
   reordered source breaks that theorem and nothing else *)
Lemma reset_order_verdict : forall (ok : bool) (o : list reset_part),
  ok && delay_firstb o = true -> ok = true /\ delay_firstb o = true.
Proof. intros ok o H. apply andb_true_iff in H. exact H. Qed.
