(* PmlEquivFastTok.v -- C06: which trace tokens FastMicroStep's model emits where.  Inside a microstep only the
   notifications of exits, transitions, entries, content and log output; a whole step adds the microstep and
   completion brackets, the event and the stable notification -- never a step result (TRet) or a configuration
   (TCfg), which only the driver loop writes.  Generic in the token predicate.  Proofs only. *)
From V Require Import Base NameMatch Chart Exec Large Interp Trace TraceLemmas Fast FastTraceLemmas.
Local Open Scope nat_scope.

Definition inner_tok (t : tok) : bool :=
  match t with
  | TXb _ | TXe _ | TTb _ | TTe _ | TEb _ | TEe _ | TCb _ | TCe _ | TLog _ => true
  | _ => false
  end.
Definition step_tok (t : tok) : bool :=
  inner_tok t || match t with TMsB | TMsE | TEv _ | TStable | TComplB | TComplE => true | _ => false end.

Section Adds.
Variable Q : tok -> Prop.
Hypothesis HQ : forall t, inner_tok t = true -> Q t.

Definition adds (x x' : xstate) : Prop := exists new, x_out x' = new ++ x_out x /\ Forall Q new.

Lemma adds_refl x : adds x x.
Proof. exists []. split; [reflexivity|constructor]. Qed.
Lemma adds_same x x' : x_out x' = x_out x -> adds x x'.
Proof. intros E. exists []. split; [exact E|constructor]. Qed.
Lemma adds_trans x x' x'' : adds x x' -> adds x' x'' -> adds x x''.
Proof.
  intros (n1 & E1 & F1) (n2 & E2 & F2). exists (n2 ++ n1). split; [rewrite E2, E1; apply app_assoc|].
  apply Forall_app. split; assumption.
Qed.
Lemma adds_emit t x : Q t -> adds x (emit t x).
Proof. intros Ht. exists [t]. split; [reflexivity|]. constructor; [exact Ht|constructor]. Qed.
Lemma adds_fold {A} (g : xstate -> A -> xstate) l : (forall x a, adds x (g x a)) -> forall x, adds x (fold_left g l x).
Proof.
  intros Hg. induction l as [|a r IH]; intros x; cbn [fold_left]; [apply adds_refl|].
  eapply adds_trans; [apply Hg|apply IH].
Qed.

Lemma adds_is_true inst cnd x : adds x (snd (is_true inst cnd x)).
Proof. unfold is_true. destruct (beval inst (x_store x) cnd); cbn [snd]; [apply adds_refl|now apply adds_same]. Qed.

Lemma adds_fail vid e x : adds x (snd (fail_elem vid e x)).
Proof. unfold fail_elem. cbn [snd]. eapply adds_trans; [|apply adds_emit, HQ; reflexivity]. now apply adds_same. Qed.

Lemma adds_instr inst i : forall x, adds x (snd (exec_instr ex_fixed inst i x)).
Proof.
  induction i using instr_ind2 with (Q := fun it => match it with FInstr j => forall x, adds x (snd (exec_instr ex_fixed inst j x)) | _ => True end);
    try exact I; try assumption; intros y.
  - cbn [exec_instr snd]. eapply adds_trans; [apply (adds_emit (TCb v) y), HQ; reflexivity|].
    eapply adds_trans; [|apply adds_emit, HQ; reflexivity]. now apply adds_same.
  - cbn [exec_instr snd]. eapply adds_trans; [apply (adds_emit (TCb v) y), HQ; reflexivity|].
    eapply adds_trans; [|apply adds_emit, HQ; reflexivity]. now apply adds_same.
  - cbn [exec_instr]. eapply adds_trans; [apply (adds_emit (TCb v) y), HQ; reflexivity|]. apply adds_fail.
  - cbn [exec_instr]. eapply adds_trans; [apply (adds_emit (TCb v) y), HQ; reflexivity|]. apply adds_fail.
  - cbn [exec_instr]. eapply adds_trans; [apply (adds_emit (TCb v) y), HQ; reflexivity|].
    destruct (ieval _ e); [|apply adds_fail]. cbn [snd].
    eapply adds_trans; [|apply adds_emit, HQ; reflexivity]. apply adds_emit, HQ. reflexivity.
  - cbn [exec_instr]. eapply adds_trans; [apply (adds_emit (TCb v) y), HQ; reflexivity|].
    destruct (ieval _ e); [|apply adds_fail]. destruct (lookup _ x); [|apply adds_fail]. cbn [snd].
    eapply adds_trans; [|apply adds_emit, HQ; reflexivity]. now apply adds_same.
  - rewrite exec_if_unfold. cbv zeta.
    pose proof (adds_emit (TCb v) y (HQ (TCb v) eq_refl)) as A1.
    pose proof (adds_is_true inst c (emit (TCb v) y)) as A2.
    destruct (is_true inst c (emit (TCb v) y)) as [b0 x2]. cbn [snd] in A2.
    assert (A3 : forall b x0, adds x0 (snd (if_items inst body b x0))).
    { clear A1 A2. induction H as [|it r Hit Hr IH]; intros b x0; cbn [if_items]; [apply adds_refl|].
      destruct it as [c'| |j].
      - destruct b; [apply adds_refl|]. pose proof (adds_is_true inst c' x0) as A.
        destruct (is_true inst c' x0) as [b' x']. cbn [snd] in A. eapply adds_trans; [exact A|apply IH].
      - destruct b; [apply adds_refl|apply IH].
      - destruct b; [|apply IH]. pose proof (Hit x0) as A. destruct (exec_instr ex_fixed inst j x0) as [ok x']. cbn [snd] in A.
        destruct ok; [eapply adds_trans; [exact A|apply IH]|exact A]. }
    specialize (A3 b0 x2). destruct (if_items inst body b0 x2) as [ok x3]. cbn [snd] in A3.
    destruct ok; cbn [snd]; (eapply adds_trans; [exact A1|]; eapply adds_trans; [exact A2|]; eapply adds_trans; [exact A3|];
      apply adds_emit, HQ; reflexivity).
Qed.

Lemma adds_block inst b : forall x, adds x (exec_block ex_fixed inst b x).
Proof.
  induction b as [|i r IH]; intros x; cbn [exec_block]; [apply adds_refl|].
  pose proof (adds_instr inst i x) as A. destruct (exec_instr ex_fixed inst i x) as [ok x']. cbn [snd] in A.
  destruct ok; [eapply adds_trans; [exact A|apply IH]|exact A].
Qed.
Lemma adds_blocks inst bs : forall x, adds x (exec_blocks ex_fixed inst bs x).
Proof. unfold exec_blocks. apply adds_fold. intros x b. apply adds_block. Qed.

Variable c : fchart.

Lemma adds_exit_one acc i : adds (snd acc) (snd (exit_one ex_fixed c acc i)).
Proof.
  destruct acc as [cfg x]. unfold exit_one. cbn [snd].
  eapply adds_trans; [|apply adds_emit, HQ; reflexivity]. eapply adds_trans; [|apply adds_blocks]. apply adds_emit, HQ. reflexivity.
Qed.
Lemma adds_exit_fold l : forall acc, adds (snd acc) (snd (fold_left (exit_one ex_fixed c) l acc)).
Proof.
  induction l as [|i r IH]; intros acc; cbn [fold_left]; [apply adds_refl|].
  eapply adds_trans; [apply adds_exit_one|apply IH].
Qed.

Lemma adds_trans_bracket cfg t x :
  adds x (emit (TTe (ft_vid t)) (if ft_has_body t then exec_block ex_fixed (inst_of c cfg) (ft_body t) (emit (TTb (ft_vid t)) x)
                                else emit (TTb (ft_vid t)) x)).
Proof.
  eapply adds_trans; [|apply adds_emit, HQ; reflexivity].
  destruct (ft_has_body t); [eapply adds_trans; [|apply adds_block]|]; apply adds_emit, HQ; reflexivity.
Qed.

Lemma adds_take_one cfg x ti : adds x (take_one ex_fixed c cfg x ti).
Proof. unfold take_one. destruct (_ || _); [apply adds_refl|apply adds_trans_bracket]. Qed.

Lemma adds_init_data d x : adds x (init_data d x).
Proof. apply adds_same. unfold init_data. destruct (ieval _ _); reflexivity. Qed.

Lemma adds_fenter_one ts a i : adds (ea_x a) (ea_x (fenter_one ex_fixed c ts a i)).
Proof.
  unfold fenter_one. destruct (mem i (ea_cfg a)); [apply adds_refl|]. destruct (is_pseudo _); [apply adds_refl|].
  set (x1 := emit (TEb (fs_sid (st c i))) (ea_x a)).
  assert (A1 : adds (ea_x a) x1) by (apply adds_emit, HQ; reflexivity).
  match goal with |- context [let '(initd1, x2) := ?e in _] => destruct e as [initd1 x2] eqn:Einit end.
  assert (A2 : adds x1 x2).
  { destruct (mem i (ea_initd a)); injection Einit as _ <-; [apply adds_refl|]. apply adds_fold. intros x d. apply adds_init_data. }
  match goal with |- context [fold_left ?f ts ?x4] => set (F := f); set (x5 := fold_left F ts x4) end.
  assert (A5 : adds (ea_x a) x5).
  { eapply adds_trans; [exact A1|]. eapply adds_trans; [exact A2|].
    eapply adds_trans; [apply (adds_blocks (inst_of c (insert_sorted i (ea_cfg a))) (fs_onentry (st c i)) x2)|].
    eapply adds_trans; [apply (adds_emit (TEe (fs_sid (st c i)))), HQ; reflexivity|].
    unfold x5. apply adds_fold. intros x ti. unfold F. destruct (_ && _); [apply adds_trans_bracket|apply adds_refl]. }
  assert (Adone : forall cfg1 l x, adds x (fold_left (fun x j => match fs_type (st c j) with
                    | FParallel => if fpar_done c cfg1 j then raise_int (done_event c j) x else x | _ => x end) l x)).
  { intros cfg1 l x. apply adds_fold. intros y j. destruct (fs_type (st c j)); try apply adds_refl.
    destruct (fpar_done c cfg1 j); [now apply adds_same|apply adds_refl]. }
  destruct (fs_type (st c i)); cbn [ea_x]; try exact A5.
  eapply adds_trans; [exact A5|]. eapply adds_trans; [|apply Adone].
  destruct (match fs_ancestors (st c i) with [0] => true | _ => false end); [apply adds_refl|].
  destruct (fs_parent (st c i)); [now apply adds_same|apply adds_refl].
Qed.

Lemma adds_fenter_fold ts es : forall a, adds (ea_x a) (ea_x (fold_left (fenter_one ex_fixed c ts) es a)).
Proof.
  induction es as [|i r IH]; intros a; cbn [fold_left]; [apply adds_refl|].
  eapply adds_trans; [apply adds_fenter_one|apply IH].
Qed.

(* a microstep: the inner notifications, then TMsE *)
Lemma fmicrostep_tokens l x tg ex ts ini :
  exists new, x_out (snd (fmicrostep ex_fixed c l x tg ex ts ini)) = TMsE :: new ++ x_out x /\ Forall Q new.
Proof.
  unfold fmicrostep.
  destruct (fentry_set c (l_cfg l) ex _ tg ts) as [es ts'].
  pose proof (adds_exit_fold (rev ex) (l_cfg l, x)) as A1.
  destruct (fold_left (exit_one ex_fixed c) (rev ex) (l_cfg l, x)) as [cfg1 x1]. cbn [snd] in A1.
  assert (A2 : adds x1 (fold_left (take_one ex_fixed c cfg1) ts' x1)) by (apply adds_fold; intros y ti; apply adds_take_one).
  match goal with |- context [fold_left (fenter_one ex_fixed c ts') es ?a0] => pose proof (adds_fenter_fold ts' es a0) as A3 end.
  cbn [ea_x] in A3. cbn [snd emit x_out].
  destruct (adds_trans _ _ _ A1 (adds_trans _ _ _ A2 A3)) as (new & E & F).
  exists new. split; [now rewrite E|exact F].
Qed.

Lemma fselect_out cfg ev ts : forall sel x, x_out (snd (fselect c cfg ev ts sel x)) = x_out x.
Proof.
  intros sel x. pose proof (fselect_same_out c cfg ev ts sel x) as S. unfold same_out in S. now symmetry.
Qed.
End Adds.

(* the tokens of a whole step *)
Section StepTokens.
Variable Q : tok -> Prop.
Hypothesis HQ : forall t, step_tok t = true -> Q t.
Variable c : fchart.

Lemma HQ_inner t : inner_tok t = true -> Q t.
Proof. intros E. apply HQ. unfold step_tok. now rewrite E. Qed.

Lemma fselect_and_step_adds l x ev : adds Q x (snd (fst (fselect_and_step ex_fixed c l x ev))).
Proof.
  unfold fselect_and_step.
  pose proof (fselect_out c (l_cfg (upd_flags l (l_spont l) false)) ev (seq 0 (ntrans c)) [] x) as So.
  destruct (fselect c (l_cfg (upd_flags l (l_spont l) false)) ev (seq 0 (ntrans c)) [] x) as [sel x1]. cbn [snd] in So.
  destruct sel as [|t0 r]; [cbn [fst snd]; now apply adds_same|].
  match goal with |- context [fmicrostep ex_fixed c ?a ?b ?d ?e ?f ?g] =>
    destruct (fmicrostep_tokens Q HQ_inner c a b d e f g) as (new & E & F); destruct (fmicrostep ex_fixed c a b d e f g) as [l1 x2] end.
  cbn [fst snd] in *. exists (TMsE :: new ++ [TMsB]). split.
  - rewrite E. cbn [emit x_out]. rewrite So. cbn [app]. now rewrite <- app_assoc.
  - constructor; [apply HQ; reflexivity|]. apply Forall_app. split; [exact F|]. constructor; [apply HQ; reflexivity|constructor].
Qed.

Lemma fast_step_adds l x : adds Q x (snd (fst (fast_step ex_fixed c l x))).
Proof.
  unfold fast_step.
  destruct (l_fin l); [apply adds_refl|].
  destruct (l_tlf l).
  { cbn [fst snd]. eapply adds_trans; [apply (adds_emit Q TComplB x), HQ; reflexivity|].
    eapply adds_trans; [|apply adds_emit, HQ; reflexivity].
    apply adds_fold. intros y i. apply adds_blocks. exact HQ_inner. }
  destruct (is_pristine l).
  { destruct (fmicrostep_tokens Q HQ_inner c l (emit TMsB x) (fs_completion (st c 0)) [] [] true) as (new & E & F).
    destruct (fmicrostep ex_fixed c l (emit TMsB x) (fs_completion (st c 0)) [] [] true) as [l1 x1]. cbn [fst snd] in *.
    exists (TMsE :: new ++ [TMsB]). split; [rewrite E; cbn [emit x_out app]; now rewrite <- app_assoc|].
    constructor; [apply HQ; reflexivity|]. apply Forall_app. split; [exact F|]. constructor; [apply HQ; reflexivity|constructor]. }
  destruct (l_spont l); [apply fselect_and_step_adds|].
  destruct (x_iq x) as [|e r].
  - destruct (negb (l_stable l)); [cbn [fst snd]; apply adds_emit, HQ; reflexivity|].
    destruct (x_eq x) as [|e r].
    + destruct (l_cancelled l); apply adds_refl.
    + destruct (ev_name e) eqn:En.
      * destruct (l_cancelled l); cbn [fst snd]; now apply adds_same.
      * eapply adds_trans; [|apply fselect_and_step_adds]. eapply adds_trans; [|apply adds_emit, HQ; reflexivity]. now apply adds_same.
  - destruct (ev_name e) eqn:En; [apply adds_refl|].
    eapply adds_trans; [|apply fselect_and_step_adds]. eapply adds_trans; [|apply adds_emit, HQ; reflexivity]. now apply adds_same.
Qed.
End StepTokens.
