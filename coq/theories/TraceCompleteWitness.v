(* TraceCompleteWitness.v -- C13 completeness: the per-micro-step statement in its final form, a non-trivial run
   accepted by the checker (and mutilated copies of its trace rejected), and concrete witnesses for every
   side condition and for the parts of the property text that the model does not satisfy. *)
From V Require Import Base NameMatch Chart Exec Large Interp Trace TraceLemmas SetLemmas Fast
     TraceComplete TraceCompleteBase TraceCompleteMicro TraceCompleteStep TraceCompleteRun.
Local Open Scope nat_scope.

(* ------------------------------------------------------------------ one micro-step reports its delta *)

Theorem microstep_reports_delta_lemma v xv c l x targets exitset transset initial_step :
  let r := microstep v xv c l x targets exitset transset initial_step in
  let ts := snd (ms_entry v c l targets exitset transset initial_step) in
  let cfg1 := remove_all (rev exitset) (l_cfg l) in
  let en := entered_of c (set_diff (fst (ms_entry v c l targets exitset transset initial_step)) cfg1) in
  exists new,
    x_out (snd r) = rev new ++ x_out x /\
    skeleton new = micro_skel c (rev exitset) ts en ++ [TMsE] /\
    xb_of new = map (sid_of c) (rev exitset) /\ xe_of new = map (sid_of c) (rev exitset) /\
    eb_of new = map (sid_of c) en /\ ee_of new = map (sid_of c) en /\
    tb_of new = map (vid_of c) (plain_trans c ts ++ flat_map (pseudo_trans c ts) en) /\
    l_cfg (fst r) = insert_all en cfg1 /\
    (forall i, In i (l_cfg (fst r)) <-> (In i (l_cfg l) /\ ~ In i exitset) \/ In i en).
Proof.
  cbn zeta.
  destruct (microstep_rep v xv c l x targets exitset transset initial_step) as (Hc & _ & _ & _ & _ & [(new & Hnew & Hsk) _]).
  cbn zeta in Hsk. unfold ms_entered, ms_mid in *.
  exists new. split; [exact Hnew|]. split; [exact Hsk|].
  repeat split.
  - rewrite <- xb_of_skeleton, Hsk. unfold xb_of. rewrite filter_map_app. fold (xb_of (micro_skel c (rev exitset) (snd (ms_entry v c l targets exitset transset initial_step))
      (entered_of c (set_diff (fst (ms_entry v c l targets exitset transset initial_step)) (remove_all (rev exitset) (l_cfg l)))))).
    unfold micro_skel. rewrite xb_micro_skel. cbn. now rewrite app_nil_r.
  - rewrite <- xe_of_skeleton, Hsk. unfold xe_of. rewrite filter_map_app. fold (xe_of (micro_skel c (rev exitset) (snd (ms_entry v c l targets exitset transset initial_step))
      (entered_of c (set_diff (fst (ms_entry v c l targets exitset transset initial_step)) (remove_all (rev exitset) (l_cfg l)))))).
    unfold micro_skel. rewrite xe_micro_skel. cbn. now rewrite app_nil_r.
  - rewrite <- eb_of_skeleton, Hsk. unfold eb_of. rewrite filter_map_app. fold (eb_of (micro_skel c (rev exitset) (snd (ms_entry v c l targets exitset transset initial_step))
      (entered_of c (set_diff (fst (ms_entry v c l targets exitset transset initial_step)) (remove_all (rev exitset) (l_cfg l)))))).
    unfold micro_skel. rewrite eb_micro_skel. cbn. now rewrite app_nil_r.
  - rewrite <- ee_of_skeleton, Hsk. unfold ee_of. rewrite filter_map_app. fold (ee_of (micro_skel c (rev exitset) (snd (ms_entry v c l targets exitset transset initial_step))
      (entered_of c (set_diff (fst (ms_entry v c l targets exitset transset initial_step)) (remove_all (rev exitset) (l_cfg l)))))).
    unfold micro_skel. rewrite ee_micro_skel. cbn. now rewrite app_nil_r.
  - rewrite <- tb_of_skeleton, Hsk. unfold tb_of. rewrite filter_map_app. fold (tb_of (micro_skel c (rev exitset) (snd (ms_entry v c l targets exitset transset initial_step))
      (entered_of c (set_diff (fst (ms_entry v c l targets exitset transset initial_step)) (remove_all (rev exitset) (l_cfg l)))))).
    unfold micro_skel. rewrite tb_micro_skel. cbn. now rewrite app_nil_r.
  - exact Hc.
  - rewrite Hc. intros H. apply In_insert_all in H. destruct H as [H|H]; [left | now right].
    apply In_remove_all in H. destruct H as [H1 H2]. split; [exact H1|]. intros H3. apply H2. now apply in_rev in H3.
  - rewrite Hc. intros H. apply In_insert_all. destruct H as [[H1 H2]|H]; [left | now right].
    apply In_remove_all. split; [exact H1|]. intros H3. apply H2. now apply in_rev.
Qed.

(* ... in execution order and nothing twice: exits strictly descending, entries strictly ascending and new *)
Theorem microstep_delta_ordered_lemma v c l targets exitset transset initial_step :
  ssorted targets -> ssorted exitset ->
  let cfg1 := remove_all (rev exitset) (l_cfg l) in
  let en := entered_of c (set_diff (fst (ms_entry v c l targets exitset transset initial_step)) cfg1) in
  ssorted (rev (rev exitset)) /\ ssorted en /\ (forall i, In i en -> ~ In i cfg1) /\ NoDup (rev exitset) /\ NoDup en.
Proof.
  intros Ht Hx. cbn zeta.
  assert (Hen : ssorted (entered_of c (set_diff (fst (ms_entry v c l targets exitset transset initial_step))
                                               (remove_all (rev exitset) (l_cfg l))))).
  { unfold entered_of. apply ssorted_filter, ssorted_set_diff. unfold ms_entry. now apply entry_set_ssorted. }
  repeat split.
  - now rewrite rev_involutive.
  - exact Hen.
  - intros i Hi. unfold entered_of in Hi. apply filter_In in Hi. destruct Hi as [Hi _]. apply In_set_diff in Hi. apply Hi.
  - apply NoDup_rev. now apply ssorted_NoDup.
  - now apply ssorted_NoDup.
Qed.

(* ------------------------------------------------------------------ every executed element has its own bracket *)

Definition instr_vid (i : instr) : N :=
  match i with
  | IRaise v _ | ISend v _ | ISendBadType v _ | ISendBadTarget v _ | ILog v _ | IAssign v _ _ | IIf v _ _ => v
  end.

Lemma if_items_quiet xv inst l : forall b z, quiet (items_names_okb l) z (snd (if_items_v xv inst l b z)).
Proof.
  induction l as [|it r IHl]; intros b z; cbn [if_items_v]; [apply quiet_refl|].
  destruct it as [c'| |j]; cbn [items_names_okb].
  - destruct b; [apply quiet_refl|].
    destruct (is_true inst c' z) as [b' z'] eqn:E.
    eapply quiet_trans; [|apply IHl].
    replace z' with (snd (is_true inst c' z)) by (now rewrite E). apply quiet_is_true.
  - destruct b; [apply quiet_refl | apply IHl].
  - destruct b.
    + destruct (exec_instr xv inst j z) as [ok z'] eqn:E.
      assert (He : quiet (instr_names_okb j && items_names_okb r) z z').
      { replace z' with (snd (exec_instr xv inst j z)) by (now rewrite E).
        eapply quiet_weaken; [|apply exec_instr_quiet]. intros H. now apply andb_true_iff in H. }
      destruct ok; [|exact He]. eapply quiet_trans; [exact He|].
      eapply quiet_weaken; [|apply IHl]. intros H. now apply andb_true_iff in H.
    + eapply quiet_weaken; [|apply IHl]. intros H. now apply andb_true_iff in H.
Qed.

(* with the repaired executor, executing an element -- successfully or not -- appends exactly:
   its own "before", then only content reports (of nested elements), then its own "after" *)
Theorem element_reported_once_lemma inst i x :
  exists mid, x_out (snd (exec_instr ex_fixed inst i x)) = TCe (instr_vid i) :: rev mid ++ TCb (instr_vid i) :: x_out x /\
              skeleton mid = [].
Proof.
  destruct i as [v e|v e|v e|v e|v e|v y e|v cnd body]; cbn [instr_vid].
  - exists []. split; reflexivity.
  - exists []. split; reflexivity.
  - exists []. split; reflexivity.
  - exists []. split; reflexivity.
  - cbn [exec_instr]. destruct (ieval _ _) as [z|]; [exists [TLog z] | exists []]; split; reflexivity.
  - cbn [exec_instr]. destruct (ieval _ _) as [z|]; [destruct (lookup _ _)|]; exists []; split; reflexivity.
  - rewrite exec_if_unfold_v. cbn zeta.
    destruct (is_true inst cnd (emit (TCb v) x)) as [b0 x2] eqn:E1.
    destruct (if_items_v ex_fixed inst body b0 x2) as [ok x3] eqn:E2.
    assert (H13 : quiet false (emit (TCb v) x) x3).
    { apply quiet_trans with (x' := x2).
      - replace x2 with (snd (is_true inst cnd (emit (TCb v) x))) by (now rewrite E1). apply quiet_is_true.
      - replace x3 with (snd (if_items_v ex_fixed inst body b0 x2)) by (now rewrite E2).
        eapply quiet_weaken; [|apply if_items_quiet]. discriminate. }
    destruct H13 as [(new & Hnew & Hsk) _]. unfold emitted in Hnew. cbn [emit x_out] in Hnew.
    exists new. destruct ok; cbn [snd emit x_out ex_fixed ex_if_after_skipped_on_nested_error]; rewrite Hnew; split; auto.
Qed.

(* ------------------------------------------------------------------ a non-trivial accepted run *)

Local Open Scope N_scope.

Definition tcw_trans (vid : N) (ev : option bytes) (tg : list N) (body : block) : ttrans :=
  {| tt_vid := vid; tt_event := ev; tt_cond := None; tt_targets := Some tg; tt_internal := false; tt_body := body |}.

(* <parallel id=s1> with two compound regions s2 {s3,s4} and s5 {s6,s7}, and a top-level <final id=s8>;
   event e moves both regions (two transitions in one micro-step, one raises f), f leaves the parallel state *)
Definition tcw_tree : tree :=
  TNode KScxml 0 None [] [] [] []
    [TNode KParallel 1 None [] [[ILog 201 (INum 1)]] [[ILog 202 (INum 2)]] []
       [TNode KState 2 None [] [] [[ILog 203 (INum 3)]] []
          [TNode KState 3 None [tcw_trans 101 (Some [101]) [4] []] [] [[ILog 204 (INum 4)]] [] [];
           TNode KState 4 None [] [[IRaise 205 [103]]] [] [] []];
        TNode KState 5 None [] [] [] []
          [TNode KState 6 None [tcw_trans 102 (Some [101]) [7] [IRaise 206 [102]]] [] [] [] [];
           TNode KState 7 None [tcw_trans 103 (Some [102]) [8] [ISendBadType 207 [1]]] [] [[ILog 208 (INum 8)]] [] []]];
     TNode KFinal 8 None [] [] [[ILog 209 (INum 9)]] [] []].

Definition tcw_chart : fchart := flatten false tcw_tree.
Definition tcw_trace : list tok := fst (run_large lg_fixed ex_fixed false tcw_tree [[101]] 30).

Example tcw_hypotheses_hold : report_okb tcw_chart = true /\ raise_names_okb tcw_chart = true.
Proof. vm_compute. split; reflexivity. Qed.

(* three micro-steps (one of them exits five states in descending order), two events (one external, one
   raised), one stable notice, a completion *)
Example tcw_trace_is :
  tcw_trace =
  [TMsB; TEb 0; TEe 0; TEb 1; TCb 201; TLog 1; TCe 201; TEe 1; TEb 2; TEe 2; TEb 3; TEe 3;
   TEb 5; TEe 5; TEb 6; TEe 6; TMsE; TRet 2; TCfg [0; 1; 2; 3; 5; 6]; TRet 2; TCfg [0; 1; 2; 3; 5; 6];
   TStable; TRet 3; TCfg [0; 1; 2; 3; 5; 6]; TRet 4; TCfg [0; 1; 2; 3; 5; 6];
   TEv [101]; TMsB; TXb 6; TXe 6; TXb 3; TCb 204; TLog 4; TCe 204; TXe 3; TTb 101; TTe 101;
   TTb 102; TCb 206; TCe 206; TTe 102; TEb 4; TCb 205; TCe 205; TEe 4; TEb 7; TEe 7; TMsE;
   TRet 2; TCfg [0; 1; 2; 4; 5; 7]; TRet 2; TCfg [0; 1; 2; 4; 5; 7];
   TEv [102]; TMsB; TXb 7; TCb 208; TLog 8; TCe 208; TXe 7; TXb 5; TXe 5; TXb 4; TXe 4; TXb 2;
   TCb 203; TLog 3; TCe 203; TXe 2; TXb 1; TCb 202; TLog 2; TCe 202; TXe 1; TTb 103; TCb 207;
   TCe 207; TTe 103; TEb 8; TEe 8; TMsE; TRet 2; TCfg [0; 8];
   TComplB; TCb 209; TLog 9; TCe 209; TComplE; TRet 0; TCfg [0; 8]].
Proof. vm_compute. reflexivity. Qed.

Example tcw_accepted : trace_completeb (sid_pos tcw_chart) tcw_trace = true.
Proof. vm_compute. reflexivity. Qed.

Example tcw_accepted_fast :
  trace_completeb (sid_pos tcw_chart) (fst (run_fast ex_fixed false tcw_tree [[101]] 30)) = true.
Proof. vm_compute. reflexivity. Qed.

(* a compound state with an <initial> element (transition with content) and a shallow <history>: left and
   re-entered through the history twice; the <initial> transition is reported after the entry of its parent *)
Definition tcw_hist_tree : tree :=
  TNode KScxml 0 None [] [] [] []
    [TNode KState 1 None [] [] [] []
       [TNode KInitial 2 None [tcw_trans 110 None [3] [ILog 210 (INum 5)]] [] [] [] [];
        TNode KState 3 None [tcw_trans 111 (Some [101]) [6] []] [] [] [] [];
        TNode KState 4 None [tcw_trans 112 (Some [101]) [6] []] [] [] [] [];
        TNode KHistShallow 5 None [tcw_trans 113 None [4] [ILog 211 (INum 6)]] [] [] [] []];
     TNode KState 6 None [tcw_trans 114 (Some [101]) [5] []] [] [] [] []].

Example tcw_hist_accepted :
  let c := flatten false tcw_hist_tree in
  sids_distinctb c = true /\ raise_names_okb c = true /\
  firstn 13 (fst (run_large lg_fixed ex_fixed false tcw_hist_tree [] 3)) =
    [TMsB; TEb 0; TEe 0; TEb 1; TEe 1; TTb 110; TCb 210; TLog 5; TCe 210; TTe 110; TEb 3; TEe 3; TMsE] /\
  trace_completeb (sid_pos c) (fst (run_large lg_fixed ex_fixed false tcw_hist_tree [[101]; [101]; [101]; [101]] 40)) = true /\
  trace_completeb (sid_pos c) (fst (run_fast ex_fixed false tcw_hist_tree [[101]; [101]; [101]; [101]] 40)) = true.
Proof. vm_compute. repeat split; reflexivity. Qed.

(* the checker is not vacuous: damaged copies of that trace are rejected *)
Definition tcw_drop (p : tok -> bool) (l : list tok) : list tok := filter (fun t => negb (p t)) l.

Example tcw_missing_exit_rejected :   (* the exit of s3 is not reported *)
  trace_completeb (sid_pos tcw_chart)
    (tcw_drop (fun t => match t with TXb 3 | TXe 3 => true | _ => false end) tcw_trace) = false.
Proof. vm_compute. reflexivity. Qed.

Example tcw_missing_entry_rejected :  (* the entry of s7 is not reported *)
  trace_completeb (sid_pos tcw_chart)
    (tcw_drop (fun t => match t with TEb 7 | TEe 7 => true | _ => false end) tcw_trace) = false.
Proof. vm_compute. reflexivity. Qed.

Example tcw_missing_stable_rejected : (* no stable notice before MACROSTEPPED / IDLE *)
  trace_completeb (sid_pos tcw_chart)
    (tcw_drop (fun t => match t with TStable => true | _ => false end) tcw_trace) = false.
Proof. vm_compute. reflexivity. Qed.

Example tcw_double_entry_rejected :   (* s4 reported entered twice *)
  trace_completeb (sid_pos tcw_chart)
    (flat_map (fun t => match t with TEe 4 => [TEe 4; TEb 4; TEe 4] | _ => [t] end) tcw_trace) = false.
Proof. vm_compute. reflexivity. Qed.

Example tcw_wrong_order_rejected :    (* exits of s5 and s4 reported in ascending order *)
  trace_completeb (sid_pos tcw_chart)
    (flat_map (fun t => match t with TXb 5 => [TXb 4] | TXe 5 => [TXe 4] | TXb 4 => [TXb 5] | TXe 4 => [TXe 5] | _ => [t] end) tcw_trace) = false.
Proof. vm_compute. reflexivity. Qed.

Example tcw_second_stable_rejected :  (* two stable notices for one macrostep *)
  trace_completeb (sid_pos tcw_chart)
    (flat_map (fun t => match t with TRet 4 => [TStable; TRet 3; TCfg [0; 1; 2; 3; 5; 6]; TRet 4] | _ => [t] end) tcw_trace) = false.
Proof. vm_compute. reflexivity. Qed.

Example tcw_events_reported :
  ev_of tcw_trace = [[101]; [102]] /\
  flat_map deq_names (run_deq (large_step lg_fixed ex_fixed tcw_chart) tcw_chart 30 l_pristine x_init [[101]]) = [[101]; [102]].
Proof. vm_compute. split; reflexivity. Qed.

(* ------------------------------------------------------------------ where the property text is not met *)

Definition tcw_has (p : tok -> bool) (l : list tok) : bool := existsb p l.

(* States that are active when the interpreter completes are exited -- their <onexit> content runs and is
   reported inside the completion bracket -- but no exit is reported for them, and the configuration reported
   after FINISHED still lists them.  Witness: the run above; s8 (and the root) are entered, never reported
   exited, the <log> 209 of s8's <onexit> is reported, the last configuration is [0;8]. *)
Lemma completion_exits_unreported_refuted_lemma :
  exists t evs fuel s e,
    let c := flatten false t in
    let tr := fst (run_large lg_fixed ex_fixed false t evs fuel) in
    report_okb c = true /\ raise_names_okb c = true /\
    memN s (eb_of tr) = true /\                                             (* s was entered *)
    tcw_has (fun t => match t with TRet 0 => true | _ => false end) tr = true /\   (* the interpreter finished *)
    tcw_has (fun t => match t with TCb i => (i =? e)%N | _ => false end) tr = true /\  (* s's onexit content ran *)
    memN s (xb_of tr) = false /\                                            (* no exit of s was reported *)
    last tr (TRet 0) = TCfg [0; s].                                         (* and s is still reported active *)
Proof. exists tcw_tree, [[101]], 30%nat, 8, 209. vm_compute. repeat split; reflexivity. Qed.

(* The macrostep that ends in a top-level final state gets no stable-configuration notice.  Witness: a
   document whose initial state is a top-level <final>: a micro-step, completion, FINISHED, no TStable at all. *)
Definition tcw_fin_tree : tree :=
  TNode KScxml 0 None [] [] [] [] [TNode KFinal 1 None [] [] [[ILog 201 (INum 1)]] [] []].

Lemma final_macrostep_no_stable_refuted_lemma :
  exists t evs fuel,
    let tr := fst (run_large lg_fixed ex_fixed false t evs fuel) in
    tcw_has (fun t => match t with TMsE => true | _ => false end) tr = true /\
    tcw_has (fun t => match t with TRet 0 => true | _ => false end) tr = true /\
    tcw_has (fun t => match t with TStable => true | _ => false end) tr = false.
Proof. exists tcw_fin_tree, [], 6%nat. vm_compute. repeat split; reflexivity. Qed.

(* ------------------------------------------------------------------ the side conditions cannot be dropped *)

(* two states with the same id: "s2" is reported entered twice *)
Definition tcw_dup_tree : tree :=
  TNode KScxml 0 None [] [] [] []
    [TNode KParallel 1 None [] [] [] [] [TNode KState 2 None [] [] [] [] []; TNode KState 2 None [] [] [] [] []]].

Lemma distinct_ids_needed_refuted_lemma :
  exists t evs fuel,
    let c := flatten false t in
    sids_distinctb c = false /\ refs_in_rangeb c = true /\ ascb (fs_completion (st c 0)) = true /\
    raise_names_okb c = true /\
    trace_completeb (sid_pos c) (fst (run_large lg_fixed ex_fixed false t evs fuel)) = false.
Proof. exists tcw_dup_tree, [], 5%nat. vm_compute. repeat split; reflexivity. Qed.

(* <raise event=""/>: the model of step() takes the unnamed head of the internal queue for an empty queue and
   idles without a stable notice (and never leaves that state) *)
Definition tcw_unnamed_tree : tree :=
  TNode KScxml 0 None [] [] [] [] [TNode KState 1 None [] [[IRaise 201 []]] [] [] []].

Lemma named_raise_needed_refuted_lemma :
  exists t evs fuel,
    let c := flatten false t in
    report_okb c = true /\ raise_names_okb c = false /\
    trace_completeb (sid_pos c) (fst (run_large lg_fixed ex_fixed false t evs fuel)) = false.
Proof. exists tcw_unnamed_tree, [], 6%nat. vm_compute. repeat split; reflexivity. Qed.

(* flat charts that are not the image of a document: a dangling index, an unsorted root completion *)
Definition tcw_st (ty : ftype) (sid : N) (par : option nat) (ch anc compl : list nat) : fstate :=
  {| fs_type := ty; fs_sid := sid; fs_parent := par; fs_children := ch; fs_ancestors := anc; fs_completion := compl;
     fs_trans := []; fs_onentry := []; fs_onexit := []; fs_data := []; fs_size := 1 |}.
Definition tcw_dangling : fchart :=
  {| fc_states := [tcw_st FCompound 0 None [1%nat] [] [5%nat; 6%nat]; tcw_st FAtomic 1 (Some 0%nat) [] [0%nat] []];
     fc_trans := []; fc_late := false |}.
Definition tcw_unsorted : fchart :=
  {| fc_states := [tcw_st FCompound 0 None [1%nat] [] [1%nat; 1%nat]; tcw_st FAtomic 1 (Some 0%nat) [] [0%nat] []];
     fc_trans := []; fc_late := false |}.
Definition tcw_run (c : fchart) : list tok :=
  rev (x_out (snd (run_loop c lstate (large_step lg_fixed ex_fixed c) l_cfg 4 l_pristine x_init []))).

Lemma refs_in_range_needed_refuted_lemma :
  exists c, sids_distinctb c = true /\ refs_in_rangeb c = false /\ ascb (fs_completion (st c 0)) = true /\
            raise_names_okb c = true /\ trace_completeb (sid_pos c) (tcw_run c) = false.
Proof. exists tcw_dangling. vm_compute. repeat split; reflexivity. Qed.

Lemma sorted_root_completion_needed_refuted_lemma :
  exists c, sids_distinctb c = true /\ refs_in_rangeb c = true /\ ascb (fs_completion (st c 0)) = false /\
            raise_names_okb c = true /\ trace_completeb (sid_pos c) (tcw_run c) = false.
Proof. exists tcw_unsorted. vm_compute. repeat split; reflexivity. Qed.

(* an external event is only taken when nothing else can be done and the stable notice of the macrostep is out *)
Lemma dequeues_ext_needs_stable_lemma l x e :
  dequeues l x = DeqExt e -> l_stable l = true /\ x_iq x = [] /\ l_spont l = false /\ hd_error (x_eq x) = Some e.
Proof.
  unfold dequeues. destruct (l_fin l || l_tlf l || is_pristine l || l_spont l) eqn:E; [discriminate|].
  apply orb_false_iff in E. destruct E as [_ Esp].
  destruct (x_iq x) as [|a r]; [|destruct (ev_name a); discriminate].
  destruct (l_stable l); cbn [negb]; [|discriminate].
  destruct (x_eq x) as [|a r]; [discriminate|]. destruct (ev_name a); [discriminate|].
  intros H. inversion H; subst. auto.
Qed.

(* the hypotheses of the run theorems are satisfiable by a chart with a parallel state and nested compounds,
   the checker accepts its run and rejects six damaged copies of the trace *)
Lemma completeness_nonvacuous_lemma :
  sids_distinctb tcw_chart = true /\ raise_names_okb tcw_chart = true /\
  trace_completeb (sid_pos tcw_chart) tcw_trace = true /\
  length (filter (fun t => match t with TMsB => true | _ => false end) tcw_trace) = 3%nat /\
  ev_of tcw_trace = [[101]; [102]] /\
  trace_completeb (sid_pos tcw_chart) (tcw_drop (fun t => match t with TXb 3 | TXe 3 => true | _ => false end) tcw_trace) = false /\
  trace_completeb (sid_pos tcw_chart) (tcw_drop (fun t => match t with TEb 7 | TEe 7 => true | _ => false end) tcw_trace) = false /\
  trace_completeb (sid_pos tcw_chart) (tcw_drop (fun t => match t with TStable => true | _ => false end) tcw_trace) = false.
Proof. vm_compute. repeat split; reflexivity. Qed.

(* ------------------------------------------------------------------ every selected transition is reported once *)

Section TransOnce.
Variable v : lg_variant.
Variable c : fchart.

Definition ts_ok (transset ts : list nat) : Prop := ssorted ts /\ (forall ti, In ti transset -> In ti ts).

Lemma ts_ok_insert transset ts ti : ts_ok transset ts -> ts_ok transset (insert_sorted ti ts).
Proof.
  intros [H1 H2]. split; [now apply ssorted_insert|]. intros tj Hj. apply In_insert_sorted'. right. now apply H2.
Qed.

Lemma descend_one_ts transset cfg ex hist acc i :
  ts_ok transset (snd acc) -> ts_ok transset (snd (descend_one v c cfg ex hist acc i)).
Proof.
  destruct acc as [es ts]. cbn [snd]. intros Hts. unfold descend_one.
  destruct (negb (mem i es)); [exact Hts|].
  destruct (fs_type (st c i)); try exact Hts.
  - destruct (existsb _ (fs_children (st c i))); exact Hts.
  - destruct (_ && _); [|exact Hts]. destruct (fs_trans (st c i)); [exact Hts|]. cbn [snd]. now apply ts_ok_insert.
  - destruct (_ && _); [|exact Hts]. destruct (fs_trans (st c i)); [exact Hts|]. cbn [snd]. now apply ts_ok_insert.
  - assert (Hout : forall l a, ts_ok transset (snd a) ->
       ts_ok transset (snd (fold_left (fun a ti => let t := tr c ti in
                 (fold_left (fun e x => set_union (insert_sorted x e) (fs_ancestors (st c x))) (ft_targets t) (fst a),
                  insert_sorted ti (snd a))) l a))).
    { induction l as [|ti r IH]; intros a Ha; cbn [fold_left]; [exact Ha|]. apply IH. cbn [snd]. now apply ts_ok_insert. }
    apply (Hout (fs_trans (st c i)) (es, ts)). exact Hts.
Qed.

Lemma entry_set_ts cfg ex hist targets transset :
  ssorted transset -> ts_ok transset (snd (entry_set v c cfg ex hist targets transset)).
Proof.
  intros Hs. unfold entry_set.
  assert (H0 : ts_ok transset (snd (add_ancestors c targets, transset))) by (split; [exact Hs | auto]).
  revert H0. generalize (add_ancestors c targets, transset).
  induction (seq 0 (n_states c)) as [|i r IH]; intros acc Hacc; cbn [fold_left]; [exact Hacc|].
  apply IH. now apply descend_one_ts.
Qed.

(* the transition brackets of the TAKE_TRANSITIONS phase: no transition twice, every selected one present *)
Lemma microstep_transitions_once_lemma l targets exitset transset initial_step :
  ssorted transset ->
  let ts := snd (ms_entry v c l targets exitset transset initial_step) in
  NoDup (plain_trans c ts) /\
  (forall ti, In ti transset -> is_pseudo_trans c ti = false -> In ti (plain_trans c ts)).
Proof.
  intros Hs. cbn zeta. destruct (entry_set_ts (l_cfg l) exitset (ms_hist c l exitset initial_step) targets transset Hs) as [H1 H2].
  fold (ms_entry v c l targets exitset transset initial_step) in H1, H2. split.
  - unfold plain_trans. apply ssorted_NoDup. now apply ssorted_filter.
  - intros ti Hti Hp. unfold plain_trans. apply filter_In. split; [now apply H2 | now rewrite Hp].
Qed.

End TransOnce.
