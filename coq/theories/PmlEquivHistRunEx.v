(* PmlEquivHistRunEx.v -- C06 beyond the history-free core: the run theorem, behaviour_preserved and behaviour_prefix
   for DOCUMENTS with <initial> elements, deep / multiple initial attributes and <history> (flat charts made by
   Chart.flatten, early binding), and an instance: a document with an <initial> element with content, a shallow and
   a deep history, for every pair of bounds.  Proofs only. *)
From V Require Import Base NameMatch Chart Exec Large Interp Tables TreeLemmas WfCore Fast Trie PmlStep PmlStepLemmas
                      LegalHistBase LegalHistWf
                      PmlEquivBase PmlEquivExit PmlEquivContent PmlEquivStep PmlEquivMicro
                      PmlEquivNames PmlEquivInit PmlEquivRun PmlEquivBehaviour PmlEquivRunEx
                      PmlEquivHistEntry PmlEquivHistMicro PmlEquivHistInit PmlEquivHistRun PmlEquivHistBehaviour PmlEquivHistExamples.
Local Open Scope nat_scope.

Section Doc.
Variable pv : pml_variant.
Variable t : tree.
Variable iq eq : nat.
Variable P : bytes -> Prop.
Let c := Chart.flatten false t.
Hypothesis H1 : pv_repaired pv.
Hypothesis H2 : wf_histb c = true.
Hypothesis H3 : fs_type (st c 0) = FCompound.
Hypothesis H4 : chart_ph0 c = true.
Hypothesis H5 : content_ok (chart_dom c) c = true.
Hypothesis H6 : data_okb [] (fs_data (st c 0)) = true.
Hypothesis H7 : forall e, P e -> e <> [].
Hypothesis H8 : chart_names P c.
Hypothesis H9 : forall j, (is_par (ptype c j) = true \/
              exists i, is_fin (ptype c i) = true /\ fs_parent (st c i) = Some j /\ mem 1 (fs_children (st c j)) = false) ->
             P (done_name c j).
Hypothesis H10 : forall i name, P name -> i < ntrans c -> ft_spontaneous (tr c i) = false ->
     resolved_match (guard_literals pv c i) name = name_match_impl nm_fixed (ft_event (tr c i)) name.

Theorem pml_run_hist_tree_lemma : forall fuel s' r,
  pml_loop pv c iq eq (S fuel) (p_init c) = (s', r) -> p_full s' = false -> r <> PFull ->
  exists m l' x', run_loop c lstate (fast_step ex_fixed c) l_cfg m l_pristine x_init [] = (l', x') /\ final_rel c r s' l' x'.
Proof. exact (PmlEquivHistRun.pml_run_lemma pv c iq eq P H1 H2 H3 H4 H5 (flatten_early_data t) H6 H7 H8 H9 H10). Qed.

Hypothesis H11 : 0 < ntrans c.

Theorem pml_behaviour_preserved_hist_lemma : forall fp ff,
  p_full (fst (pml_loop pv c iq eq fp (p_init c))) = false -> behaviour_preserved pv t iq eq fp ff.
Proof.
  intros fp ff Hfull.
  unfold behaviour_preserved, pml_run_tree, pml_run, run_fast. fold c. cbv zeta.
  pose proof (PmlEquivHistBehaviour.behaviour_chart pv c iq eq P H1 H2 H3 H4 H5 (flatten_early_data t) H6 H7 H8 H9 H10 H11 fp ff) as B.
  destruct (pml_loop pv c iq eq fp (p_init c)) as [s r].
  destruct (run_loop c lstate (fast_step ex_fixed c) l_cfg ff l_pristine x_init []) as [l x].
  cbn [fst snd] in *. intros Hc Hf. now apply B.
Qed.

Theorem pml_behaviour_prefix_hist_lemma : forall fp ff, behaviour_prefix pv t iq eq fp ff.
Proof.
  intros fp ff.
  unfold behaviour_prefix, pml_run_tree, pml_run, run_fast. fold c. cbv zeta.
  pose proof (PmlEquivHistBehaviour.prefix_chart pv c iq eq P H1 H2 H3 H4 H5 (flatten_early_data t) H6 H7 H8 H9 H10 H11 fp ff) as B.
  destruct (pml_loop pv c iq eq fp (p_init c)) as [s r].
  destruct (run_loop c lstate (fast_step ex_fixed c) l_cfg ff l_pristine x_init []) as [l x].
  cbn [fst snd] in *. intros Hc Hf. now apply B.
Qed.
End Doc.

(* ---- the instance: w_hist_doc ---- *)
Definition hx_names : list bytes := [[97%N]; [98%N]; [99%N]; [100%N]].
Definition hx_P (name : bytes) : Prop := In name hx_names.

Lemma hx_chart_ph0 : chart_ph0 hx_chart = true.
Proof. vm_compute. reflexivity. Qed.
Lemma hx_content_dom : content_ok (chart_dom hx_chart) hx_chart = true.
Proof. vm_compute. reflexivity. Qed.
Lemma hx_data_ok : data_okb [] (fs_data (st hx_chart 0)) = true.
Proof. vm_compute. reflexivity. Qed.
Lemma hx_P_nonempty e : hx_P e -> e <> [].
Proof. intros [<-|[<-|[<-|[<-|[]]]]]; discriminate. Qed.
Lemma hx_chart_names : chart_names hx_P hx_chart.
Proof.
  unfold chart_names, hx_chart. vm_compute fc_states. vm_compute fc_trans.
  repeat (cbn [fs_onentry fs_onexit ft_body]; match goal with
  | |- Forall _ [] => apply Forall_nil
  | |- Forall _ (_ :: _) => apply Forall_cons
  | |- _ /\ _ => split
  | |- blocks_names _ _ => unfold blocks_names
  | |- block_names _ _ => unfold block_names
  | |- instr_names _ _ => cbn [instr_names]; unfold hx_P, hx_names; cbn [In]; auto 6
  | |- True => exact I
  end).
Qed.
Lemma hx_done j :
  (is_par (ptype hx_chart j) = true \/
   exists i, is_fin (ptype hx_chart i) = true /\ fs_parent (st hx_chart i) = Some j /\ mem 1 (fs_children (st hx_chart j)) = false) ->
  hx_P (done_name hx_chart j).
Proof.
  assert (Hk : forall i, is_fin (ptype hx_chart i) = false /\ is_par (ptype hx_chart i) = false).
  { intros i. destruct (Nat.lt_ge_cases i (nstates hx_chart)) as [L|L].
    - change (nstates hx_chart) with 10 in L. do 10 (destruct i as [|i]; [vm_compute; split; reflexivity|]). lia.
    - unfold ptype. rewrite (hst_out hx_chart i L). split; reflexivity. }
  intros [Hp|(i & Hi & _)]; [destruct (Hk j) as [_ E]; congruence | destruct (Hk i) as [E _]; congruence].
Qed.
Lemma hx_match_all i name : hx_P name -> i < ntrans hx_chart -> ft_spontaneous (tr hx_chart i) = false ->
  resolved_match (guard_literals pml_repaired hx_chart i) name = name_match_impl nm_fixed (ft_event (tr hx_chart i)) name.
Proof.
  intros Hn Hi Hsp. change (ntrans hx_chart) with 7 in Hi.
  destruct Hn as [<-|[<-|[<-|[<-|[]]]]];
    do 7 (destruct i as [|i]; [vm_compute in Hsp; try discriminate Hsp; vm_compute; reflexivity|]); lia.
Qed.

Lemma hx_run_complete :
  exists s', pml_loop pml_repaired hx_chart 7 13 30 (p_init hx_chart) = (s', PBlocked) /\ p_full s' = false /\
             p_cfg s' = [0; 1; 5; 8] /\ p_hist s' = [5; 8].
Proof. eexists. vm_compute. repeat split; reflexivity. Qed.

(* the document with an <initial> element with content, a shallow and a deep history: observed completely (it visits
   s2, s3/s4, s5, s6 and returns through the deep history of s3), against every bound on the interpreter *)
Lemma hist_behaviour_instance : forall ff, behaviour_preserved pml_repaired w_hist_doc 7 13 30 ff.
Proof.
  intros ff. apply (pml_behaviour_preserved_hist_lemma pml_repaired w_hist_doc 7 13 hx_P pml_repaired_is hx_wf hx_root hx_chart_ph0
                      hx_content_dom hx_data_ok hx_P_nonempty hx_chart_names hx_done hx_match_all).
  - vm_compute. lia.
  - destruct hx_run_complete as (s' & Hl & Hf & _). fold hx_chart. now rewrite Hl.
Qed.
Lemma hist_prefix_instance : forall fp ff, behaviour_prefix pml_repaired w_hist_doc 7 13 fp ff.
Proof.
  intros fp ff. apply (pml_behaviour_prefix_hist_lemma pml_repaired w_hist_doc 7 13 hx_P pml_repaired_is hx_wf hx_root hx_chart_ph0
                         hx_content_dom hx_data_ok hx_P_nonempty hx_chart_names hx_done hx_match_all).
  vm_compute. lia.
Qed.
