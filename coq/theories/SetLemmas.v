(* SetLemmas.v -- membership specifications of the list-as-set operations of Chart.v *)
From V Require Import Base Chart.
Local Open Scope nat_scope.

Lemma mem_In x l : mem x l = true <-> In x l.
Proof.
  induction l as [|y r IH]; cbn; [split; [discriminate | tauto]|].
  rewrite orb_true_iff, Nat.eqb_eq, IH. split; intros [H|H]; auto.
Qed.

Lemma mem_false_In x l : mem x l = false <-> ~ In x l.
Proof. rewrite <- mem_In. destruct (mem x l); split; congruence. Qed.

Lemma In_insert_sorted' x a l : In a (insert_sorted x l) <-> a = x \/ In a l.
Proof.
  induction l as [|y r IH]; cbn [insert_sorted].
  - cbn. intuition.
  - destruct (x <? y) eqn:Hlt.
    + cbn. intuition.
    + destruct (x =? y) eqn:Heq.
      * apply Nat.eqb_eq in Heq; subst. cbn. intuition.
      * cbn [In]. rewrite IH. intuition.
Qed.

Lemma In_fold_insert b : forall a x, In x (fold_left (fun a x => insert_sorted x a) b a) <-> In x a \/ In x b.
Proof.
  induction b as [|y r IH]; intros a x; cbn [fold_left]; [cbn; tauto|].
  rewrite IH, In_insert_sorted'. cbn. intuition.
Qed.

Lemma In_set_union a b x : In x (set_union a b) <-> In x a \/ In x b.
Proof. unfold set_union. apply In_fold_insert. Qed.

Lemma In_set_of_list l x : In x (set_of_list l) <-> In x l.
Proof. unfold set_of_list. rewrite In_fold_insert. cbn. tauto. Qed.

Lemma In_set_diff a b x : In x (set_diff a b) <-> In x a /\ ~ In x b.
Proof. unfold set_diff. rewrite filter_In, negb_true_iff, mem_false_In. tauto. Qed.

Lemma In_set_inter a b x : In x (set_inter a b) <-> In x a /\ In x b.
Proof. unfold set_inter. rewrite filter_In, mem_In. tauto. Qed.

Lemma In_set_remove y l x : In x (set_remove y l) <-> In x l /\ x <> y.
Proof.
  unfold set_remove. rewrite filter_In, negb_true_iff, Nat.eqb_neq. intuition.
Qed.

Lemma intersects_spec a b : intersects a b = true <-> exists x, In x a /\ In x b.
Proof.
  unfold intersects. rewrite existsb_exists. split; intros (x & H1 & H2); exists x.
  - apply mem_In in H2. tauto.
  - apply mem_In in H2. tauto.
Qed.

Lemma In_fold_union {A} (f : A -> list nat) (l : list A) : forall acc x,
  In x (fold_left (fun a y => set_union a (f y)) l acc) <-> In x acc \/ exists y, In y l /\ In x (f y).
Proof.
  induction l as [|y r IH]; intros acc x; cbn [fold_left].
  - split; [tauto | intros [H|(y & [] & _)]; exact H].
  - rewrite IH, In_set_union. split.
    + intros [[H|H]|(z & Hz & Hx)]; [tauto | right; exists y; cbn; tauto | right; exists z; cbn; tauto].
    + intros [H|(z & [->|Hz] & Hx)]; [tauto | tauto | right; exists z; tauto].
Qed.
