(* LegalHistParRun.v -- LegalHistRun.v for charts of WFHP (a <history> may sit directly below a <parallel>):
   REMEMBER_HISTORY keeps the record usable (for a history of an exited parallel state the record is everything
   active below it), and every state of every run of the large-engine model has a legal configuration over the
   tree of proper states (CfgOKH; the all-children notion CfgOK of run_always_legal is false as soon as a parallel
   state has a history child, which is never active).  The lemmas of LegalHistRun.v that do not depend on the
   well-formedness record are reused. *)
From V Require Import Base NameMatch Chart Exec Large LargeLemmas Interp Legal SetLemmas LegalAbstract LegalLarge LegalRun
     LegalHistBase LegalHistEntry LegalHistStep LegalHistRun LegalHistParBase LegalHistParEntry LegalHistParStep.
Local Open Scope nat_scope.

Section HPRun.
Variable c : fchart.
Variable xv : ex_variant.
Hypothesis W : WFHP c.
Hypothesis root_compound : fs_type (st c 0) = FCompound.

Let n := nstates c.
Let par (i : nat) := fs_parent (st c i).
Let ch (i : nat) := fs_children (st c i).
Let kd (i : nat) := fs_type (st c i).
Let cpl (i : nat) := fs_completion (st c i).
Notation Anc := (Anc par).
Notation pseudo := (pseudoS c).

(* ------------------------------------------------------------------ REMEMBER_HISTORY *)

Section Remember.
Variable cfg exitset : list nat.


Notation condb := (condb c exitset).


(* any implementation of the per-history update with this specification (the fast engine has another one) *)
Variable one : list nat -> nat -> list nat.
Hypothesis one_spec : forall acc h x,
  In x (one acc h) <-> (if condb h then (In x (cpl h) /\ In x cfg) \/ (~ In x (cpl h) /\ In x acc) else In x acc).

Notation rec_fold_sub := (rec_fold_sub c cfg exitset one one_spec).
Notation rec_fold_touched := (rec_fold_touched c cfg exitset one one_spec).
Notation rec_fold_untouched := (rec_fold_untouched c cfg exitset one one_spec).

(* every state a history records lies below the history's parent *)
Lemma hist_cpl_below_p h q : histS c h = true -> par h = Some q -> forall x, In x (cpl h) -> Anc q x.
Proof.
  intros Hh Hp. destruct (whp_hist_cpl c W h q Hh Hp) as [Hc _].
  induction x as [x IH] using lt_wf_ind. intros Hx.
  destruct (Hc x Hx) as (_ & _ & [Hpx|(_ & p & Hpx & Hpc)]).
  - now apply anc_parent.
  - eapply anc_step; [exact Hpx|]. apply IH; [|exact Hpc]. now destruct (whp_par_lt c W _ _ Hpx).
Qed.

Hypothesis Hleg : LegalH c (fun x => In x cfg).
Hypothesis Hprop : forall x, In x cfg -> pseudo x = false.
Hypothesis Hexit : forall x, In x exitset -> In x cfg.

Theorem remember_HistOK_gen_p hist : HistOK c hist -> HistOK c (fold_left one (seq 0 n) hist).
Proof.
  intros [Hp1 Hp2].
  set (hist' := fold_left one (seq 0 n) hist).
  assert (Hprop' : forall x, In x hist' -> pseudo x = false).
  { intros x Hx. apply rec_fold_sub in Hx as [Hx|Hx]; [now apply Hprop | now apply Hp1]. }
  split; [exact Hprop'|].
  intros h q Hh Hpq.
  assert (Hhn : In h (seq 0 n)) by (apply in_seq; destruct (whp_par_lt c W _ _ Hpq); lia).
  destruct (condb h) eqn:Ec.
  - (* the parent is exited: the record is what is active below it *)
    right.
    assert (Hq : In q cfg).
    { unfold LegalHistRun.condb in Ec. apply andb_true_iff in Ec as [_ Ec]. rewrite Hpq in Ec. apply Hexit. now apply mem_In. }
    assert (Hiff : forall x, In x (cpl h) -> (In x hist' <-> In x cfg)).
    { intros x Hx. apply rec_fold_touched. exists h. split; [exact Hhn|]. split; [exact Ec | exact Hx]. }
    assert (Hps : pseudo h = true) by (unfold histS in Hh; unfold pseudoS; destruct (fs_type (st c h)); try discriminate; reflexivity).
    destruct (whp_pseudo_parent c W h Hps) as (q' & Hq' & Hkq). pose proof (eq_trans (eq_sym Hpq) Hq') as E. injection E as <-.
    destruct (whp_hist_cpl c W h q Hh Hpq) as [Hc1 Hc2].
    constructor.
    + intros x [Hx _]. exact (hist_cpl_below_p h q Hh Hpq x Hx).
    + intros x p [Hx Hxh] Hpx. apply (Hiff x Hx) in Hxh.
      assert (Hpc : In p cfg) by exact (hcfg_parent c cfg Hleg Hprop x p Hxh Hpx).
      destruct (Hc1 x Hx) as (_ & _ & [Hpx'|(_ & p' & Hpx' & Hpc')]).
      * left. pose proof (eq_trans (eq_sym Hpx) Hpx') as E. now injection E.
      * right. pose proof (eq_trans (eq_sym Hpx) Hpx') as E. injection E as <-. split; [exact Hpc' | now apply Hiff].
    + intros i k1 k2 Hi H1 H2 [Hx1 Hh1] [Hx2 Hh2]. apply (Hiff _ Hx1) in Hh1. apply (Hiff _ Hx2) in Hh2.
      exact (hcfg_compound_uniq_p c W cfg Hleg Hprop i k1 k2 Hi H1 H2 Hh1 Hh2).
    + assert (Hchild : exists k, par k = Some q /\ In k cfg).
      { destruct Hkq as [Hkq|[_ Hkq]]; [exact (hcfg_compound_ex_p c W cfg Hleg q Hq Hkq)|].
        destruct (whp_par_hist c W h q Hh Hpq Hkq) as [Hne _].
        destruct (fs_completion (st c q)) as [|k r] eqn:Ecq; [congruence|].
        assert (Hk : In k (fs_completion (st c q))) by (rewrite Ecq; now left).
        apply (whp_parallel c W q k Hkq) in Hk as [Hpk Hpsk]. exists k. split; [exact Hpk|].
        exact (hcfg_parallel_p c W cfg Hleg q k Hq Hkq Hpk Hpsk). }
      destruct Hchild as (k & Hpk & Hkc). exists k. split; [exact Hpk|].
      assert (Hkx : In k (cpl h)) by (apply Hc2; [exact Hpk | now apply Hprop]).
      split; [exact Hkx | now apply Hiff].
  - (* not exited: no other history writes the proper states this one records *)
    assert (Hother : forall h2 x, condb h2 = true -> In x (cpl h) -> In x (cpl h2) -> pseudo x = false -> False).
    { intros h2 x E2 Hx Hx2 Epx. pose proof E2 as E2'. unfold LegalHistRun.condb in E2. apply andb_true_iff in E2 as [E2 E3].
      pose proof (whp_hist_disjoint c W h h2 x Hh E2 Hx Hx2 Epx) as Hpar.
      unfold LegalHistRun.condb in Ec. unfold histS in Hh. rewrite Hh in Ec. cbn [andb] in Ec. rewrite Hpar in Ec. congruence. }
    assert (Hsame : forall x, Rh c hist' h x <-> Rh c hist h x).
    { intros x. unfold Rh. destruct (pseudo x) eqn:Epx.
      - split; intros [_ Hx]; exfalso; [apply Hprop' in Hx | apply Hp1 in Hx]; congruence.
      - split; intros [Hx Hxh]; (split; [exact Hx|]).
        + apply (rec_fold_untouched (seq 0 n) hist x); [|exact Hxh].
          intros (h2 & _ & E2 & Hx2). exact (Hother h2 x E2 Hx Hx2 Epx).
        + apply (rec_fold_untouched (seq 0 n) hist x); [|exact Hxh].
          intros (h2 & _ & E2 & Hx2). exact (Hother h2 x E2 Hx Hx2 Epx). }
    destruct (Hp2 h q Hh Hpq) as [Hnone|HF].
    + left. intros x Hx. apply (Hnone x). now apply Hsame.
    + right. apply (Frag_ext c q (Rh c hist h)); [intros x; symmetry; apply Hsame | exact HF].
Qed.

End Remember.

Theorem remember_HistOK_p cfg exitset :
  LegalH c (fun x => In x cfg) -> (forall x, In x cfg -> pseudo x = false) -> (forall x, In x exitset -> In x cfg) ->
  forall hist, HistOK c hist -> HistOK c (remember_history c cfg exitset hist).
Proof.
  intros HL HP HE hist HH. rewrite remember_unfold.
  exact (remember_HistOK_gen_p cfg exitset (rec_one c cfg exitset) (rec_one_spec c cfg exitset) HL HP HE hist HH).
Qed.

(* ------------------------------------------------------------------ the list-level effect of entering *)

Notation hist_after := (hist_after c).

(* ---- the selected transitions have active sources ---- *)

Lemma select_loop_sources_h_p cfg ev order : forall skip sel x,
  (forall s, In s order -> In s cfg) ->
  (forall ti, In ti sel -> In (ft_source (tr c ti)) cfg) ->
  forall ti, In ti (fst (select_loop lg_fixed c cfg ev order skip sel x)) -> In (ft_source (tr c ti)) cfg.
Proof.
  induction order as [|s r IH]; intros skip sel x Hord Hsel; cbn [select_loop]; [exact Hsel|].
  destruct (match skip with Some cur => match fs_parent (st c cur) with Some p => p =? s | None => false end | None => false end).
  - apply IH; [intros; apply Hord; now right | exact Hsel].
  - destruct (pick_trans lg_fixed c cfg ev sel (fs_trans (st c s)) x) as [o x'] eqn:E. destruct o as [ti|].
    + apply IH; [intros; apply Hord; now right|].
      intros t Ht. apply In_insert_sorted' in Ht as [->|Ht]; [|now apply Hsel].
      apply (pick_trans_sound lg_fixed c) in E as [E _]. rewrite (whp_tr_src c W s ti E). apply Hord. now left.
    + apply IH; [intros; apply Hord; now right | exact Hsel].
Qed.

(* ---- one step ---- *)

(* legal configuration of proper states, and a usable history record *)
Notation StOK := (StOK c).

Notation CfgOKH := (CfgOKH c).

Lemma select_and_step_legal_h_p l x ev : StOK l -> StOK (fst (fst (select_and_step lg_fixed xv c l x ev))).
Proof.
  intros [[HL HB] HH]. unfold select_and_step. cbn zeta.
  change (l_cfg (upd_flags l (l_spont l) false)) with (l_cfg l).
  destruct (select_loop lg_fixed c (l_cfg l) ev (cfg_postfix c (l_cfg l)) None [] x) as [sel x1] eqn:E.
  assert (Hok : pairwise_ok lg_fixed c sel).
  { replace sel with (fst (select_loop lg_fixed c (l_cfg l) ev (cfg_postfix c (l_cfg l)) None [] x)) by (now rewrite E).
    apply select_loop_pairwise. apply nil_pairwise. }
  assert (Hsrc : forall ti, In ti sel -> In (ft_source (tr c ti)) (l_cfg l)).
  { replace sel with (fst (select_loop lg_fixed c (l_cfg l) ev (cfg_postfix c (l_cfg l)) None [] x)) by (now rewrite E).
    apply select_loop_sources_h_p; [intros s; apply cfg_postfix_sub | intros ti []]. }
  destruct sel as [|t r] eqn:Esel; [cbn [fst]; split; [split|]; assumption|]. rewrite <- Esel in *.
  assert (HBn : forall y, In y (l_cfg l) -> y < n) by (intros y Hy; now destruct (HB y Hy)).
  assert (HBp : forall y, In y (l_cfg l) -> pseudo y = false) by (intros y Hy; now destruct (HB y Hy)).
  set (l0 := upd_flags l (l_spont l) false).
  set (tg := fold_left (fun a ti => set_union a (ft_targets (tr c ti))) sel []).
  set (ex := fold_left (fun a ti => set_union a (exit_states_of lg_fixed c (l_cfg l) (tr c ti))) sel []).
  assert (Hex : forall y, In y ex -> In y (l_cfg l)).
  { intros y Hy. exact (proj1 (proj1 (hIn_exitset_p c W (l_cfg l) sel HL HBn HBp Hsrc y) Hy)). }
  assert (HH' : HistOK c (hist_after l0 ex false)).
  { unfold hist_after. change (l_cfg l0) with (l_cfg l). change (l_hist l0) with (l_hist l).
    exact (remember_HistOK_p (l_cfg l) ex HL HBp Hex (l_hist l) HH). }
  pose proof (fun y => microstep_cfg_h c xv l0 (emit TMsB x1) tg ex sel false y) as Hm.
  pose proof (microstep_hist c xv l0 (emit TMsB x1) tg ex sel false) as Hh.
  destruct (microstep lg_fixed xv c l0 (emit TMsB x1) tg ex sel false) as [l1 x2].
  cbn [fst snd] in *. change (l_cfg l0) with (l_cfg l) in Hm.
  pose proof (microstep_sets_legal_h_p c W (l_cfg l) sel HL HBn HBp Hsrc Hok (hist_after l0 ex false) HH') as HR.
  split; [split|].
  - exact (legal_ext c _ _ Hm HR).
  - intros y Hy. apply Hm in Hy as [[Hy _]|[Hy Hp]]; [now apply HB|]. split; [|exact Hp].
    exact (HEfs_bound_p c W (l_cfg l) sel HL HBn HBp Hsrc Hok (hist_after l0 ex false) HH' y Hy).
  - rewrite Hh. exact HH'.
Qed.

Lemma initial_step_legal_h_p l x : l_cfg l = [] -> HistOK c (l_hist l) ->
  StOK (fst (microstep lg_fixed xv c l x (fs_completion (st c 0)) [] [] true)).
Proof.
  intros Hnil HH.
  pose proof (fun y => microstep_cfg_h c xv l x (fs_completion (st c 0)) [] [] true y) as Hm.
  pose proof (microstep_hist c xv l x (fs_completion (st c 0)) [] [] true) as Hh.
  destruct (microstep lg_fixed xv c l x (fs_completion (st c 0)) [] [] true) as [l1 x1].
  cbn [fst] in *. rewrite Hnil in Hm. unfold hist_after in *.
  pose proof (initial_sets_legal_h_p c W (l_hist l) HH root_compound) as HR. unfold HEinit_p in HR.
  assert (Heq : forall y, In y (l_cfg l1) <-> (In y (HEfin c [] [] (l_hist l) (fs_completion (st c 0)) []) /\ pseudo y = false)).
  { intros y. rewrite Hm. cbn [In]. tauto. }
  split; [split|].
  - exact (legal_ext c _ _ Heq HR).
  - intros y Hy. apply Heq in Hy as [Hy Hp]. split; [|exact Hp]. exact (HEinit_bound_p c W (l_hist l) HH root_compound y Hy).
  - rewrite Hh. exact HH.
Qed.

Theorem large_step_legal_h_p l x : CfgOKH l -> CfgOKH (fst (fst (large_step lg_fixed xv c l x))).
Proof.
  intros HOK. unfold large_step.
  destruct (l_fin l) eqn:Hfin; [exact HOK|].
  destruct (l_tlf l) eqn:Htlf.
  { cbn [fst]. destruct HOK as [[Hp _]|H]; [|right; exact H].
    unfold is_pristine in Hp. rewrite Htlf in Hp. rewrite !orb_true_r in Hp. discriminate. }
  destruct (is_pristine l) eqn:Hpr.
  { destruct HOK as [(_ & Hnil & HH)|[Hi _]]; [|rewrite (init_not_pristine l Hi) in Hpr; discriminate].
    right. pose proof (initial_step_legal_h_p l (emit TMsB x) Hnil HH) as H.
    pose proof (microstep_init c xv l (emit TMsB x) (fs_completion (st c 0)) [] [] true) as Hi.
    destruct (microstep lg_fixed xv c l (emit TMsB x) (fs_completion (st c 0)) [] [] true) as [l1 x1].
    cbn [fst] in *. split; assumption. }
  destruct HOK as [[Hp _]|[Hi HL]]; [congruence|].
  assert (Hsel : forall y ev, CfgOKH (fst (fst (select_and_step lg_fixed xv c l y ev)))).
  { intros y ev. right. split; [now apply (select_and_step_init_h c xv) | now apply select_and_step_legal_h_p]. }
  destruct (l_spont l); [apply Hsel|].
  destruct (x_iq x) as [|e r].
  - destruct (l_stable l); cbn [negb].
    + destruct (x_eq x) as [|e r].
      * destruct (l_cancelled l); cbn [fst]; right; tauto.
      * destruct (ev_name e); [destruct (l_cancelled l); cbn [fst]; right; tauto | apply Hsel].
    + cbn [fst]. right. tauto.
  - destruct (ev_name e); [cbn [fst]; right; tauto | apply Hsel].
Qed.

(* every state of every run, for every event history and every bound on the number of steps *)
Theorem run_states_legal_h_p fuel : forall l x evs, CfgOKH l ->
  CfgOKH (fst (run_loop c lstate (large_step lg_fixed xv c) l_cfg fuel l x evs)).
Proof.
  induction fuel as [|f IH]; intros l x evs HOK; cbn [run_loop]; [exact HOK|].
  pose proof (large_step_legal_h_p l x HOK) as H1.
  destruct (large_step lg_fixed xv c l x) as [[l1 x1] rc]. cbn [fst] in H1.
  destruct (N.eqb rc RC_FINISHED); [exact H1|].
  destruct (N.eqb rc RC_IDLE); [|now apply IH].
  destruct evs as [|e r]; [exact H1 | now apply IH].
Qed.

End HPRun.
