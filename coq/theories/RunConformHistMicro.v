(* RunConformHistMicro.v -- C01 on charts with <history> (wf_histb): ENTER_STATES, one state.  After the onentry
   handlers LargeMicroStep runs, for every pseudo-state child of the entered state in child order, the transitions of
   that child that are in the transition set; Appendix D runs the content of s.initial.transition if s is in
   statesForDefaultEntry and then defaultHistoryContent[s.id].  Given the correspondence of the sets
   (RunConformHistEntry.v: a state that is entered by default has no targeted history child, and at most one history
   child of a state is targeted, once) at most one child fires and it is the one Appendix D runs: the default content of
   a history is executed after the onentry handlers of the history's PARENT in both.  This file re-proves the part of
   RunConformInitialMicro.v that assumed "no history state".  Proofs only. *)
From V Require Import Base NameMatch Chart Exec Large LargeLemmas Spec Legal SetLemmas LegalAbstract LegalLarge
  LargeCacheLemmas Trace TraceLemmas SelectConform SelectConformLemmas SelectConformRoot MicroConform MicroConformLemmas
  MicroConformCompose LegalHistBase LegalHistEntry LegalHistStep RunConformInitialBase RunConformInitialMicro.
Local Open Scope nat_scope.

Lemma filter_key_one {B} (L : list (nat * B)) i : NoDup (map fst L) ->
  filter (fun p => fst p =? i) L = [] \/ exists b, filter (fun p => fst p =? i) L = [(i, b)].
Proof.
  induction L as [|[k b] r IH]; intros Hnd; cbn [filter map fst] in *; [now left|].
  inversion Hnd as [|? ? Hk Hr]; subst. destruct (k =? i) eqn:E.
  - apply Nat.eqb_eq in E. subst k. right. exists b. f_equal.
    assert (Hno : forall p, In p r -> (fst p =? i) = false).
    { intros p Hp. apply Nat.eqb_neq. intros Ep. apply Hk. rewrite <- Ep. now apply in_map. }
    clear -Hno. induction r as [|p r IHr]; cbn [filter]; [reflexivity|].
    rewrite (Hno p (or_introl eq_refl)). apply IHr. intros p' Hp'. apply Hno. now right.
  - exact (IH Hr).
Qed.

Section EnterHH.
Variable c : fchart.
Hypothesis W : WFH c.
Hypothesis HcplOK : CplOK c.
Variable ts : list nat.
Variable e : eset.
Variable CF : nat -> Prop.
Variable EN : nat -> Prop.      (* the states that are being entered *)
Notation Anc := (LegalAbstract.Anc (fun i => fs_parent (st c i))).
Notation pseudo := (pseudoS c).
Notation L := (rev (e_histcontent e)).
Hypothesis Hsilent : forall i, mentions_bs (fs_sid (st c 0)) (fs_onentry (st c i)) = false.
Hypothesis Hsilent_t : forall ti, mentions_b (fs_sid (st c 0)) (ft_body (tr c ti)) = false.
Hypothesis Hbody : forall ti, ft_has_body (tr c ti) = false -> ft_body (tr c ti) = [].
Hypothesis Hdata : fc_late c = false -> forall i, i <> 0 -> fs_data (st c i) = [].
Hypothesis HPAR : forall s, s < nstates c -> fs_type (st c s) = FParallel -> fs_children (st c s) <> [].
Hypothesis Hfin_par : forall i p, fs_type (st c i) = FFinal -> fs_parent (st c i) = Some p -> fs_type (st c p) <> FParallel.
Hypothesis Hfin_up : forall i p a, fs_type (st c i) = FFinal -> fs_parent (st c i) = Some p -> Anc a p ->
  fs_parent (st c p) = Some a \/ fs_type (st c a) <> FParallel.
Hypothesis Huniq : forall q k1 k2, fs_type (st c q) = FCompound -> In k1 (fs_children (st c q)) -> In k2 (fs_children (st c q)) ->
  CF k1 -> CF k2 -> k1 = k2.
Hypothesis HCFp : forall y, CF y -> pseudo y = false.
Hypothesis Hflags : forall x ti, is_pseudo (fs_type (st c x)) = true -> In ti (fs_trans (st c x)) ->
  ft_history (tr c ti) || ft_initial (tr c ti) = true.
Hypothesis Htrn : forall s, NoDup (fs_trans (st c s)).
Hypothesis Hdk : forall i, In i (e_default e) -> fs_type (st c i) = FCompound.
(* the transition set against statesForDefaultEntry and defaultHistoryContent, on the states that are entered *)
Hypothesis HinitB : forall i x ti, EN i -> fs_parent (st c x) = Some i -> fs_type (st c x) = FInitial -> In ti (fs_trans (st c x)) ->
  (In ti ts <-> In i (e_default e) /\ fs_completion (st c i) = [x]).
Hypothesis HhistB : forall i H ti, EN i -> fs_parent (st c H) = Some i -> histS c H = true -> In ti (fs_trans (st c H)) ->
  (In ti ts <-> In (i, ti) L).
Hypothesis HLone : forall i, EN i -> filter (fun p => fst p =? i) L = [] \/ exists ti, filter (fun p => fst p =? i) L = [(i, ti)].
Hypothesis HLdef : forall i ti, In i (e_default e) -> ~ In (i, ti) L.
Hypothesis HLsrc : forall i ti, In (i, ti) L -> exists H r, fs_parent (st c H) = Some i /\ histS c H = true /\ fs_trans (st c H) = ti :: r.

Lemma root_proper : pseudo 0 = false.
Proof.
  destruct (pseudo 0) eqn:E; [|reflexivity]. destruct (wh_pseudo_parent c W 0 E) as (q & Hq & _).
  rewrite (wh_root_par c W) in Hq. discriminate.
Qed.

Lemma pseudo_kind k : pseudo k = true -> fs_type (st c k) = FInitial \/ histS c k = true.
Proof. unfold pseudoS, histS. destruct (fs_type (st c k)); cbn; intros E; try discriminate; auto. Qed.

(* below a proper state without <final>s the engine's "in a final state" test says no *)
Lemma nf_large_hh cfg : (forall z, In z cfg -> pseudo z = false) ->
  forall fuel y, pseudo y = false -> (forall z, z = y \/ Anc y z -> fs_type (st c z) <> FFinal) ->
  in_final c fuel cfg y = false.
Proof.
  intros Hcfg. induction fuel as [|f IH]; intros y Hpy H; cbn [in_final]; [reflexivity|].
  assert (Hkid : forall k, In k (fs_children (st c y)) -> pseudo k = false -> in_final c f cfg k = false).
  { intros k Hk Hpk. apply IH; [exact Hpk|]. intros z Hz. apply H. right. apply (wh_children c W) in Hk.
    destruct Hz as [->|Hz]; [now apply anc_parent | eapply (hanc_trans c); [apply anc_parent; exact Hk | exact Hz]]. }
  destruct (fs_type (st c y)) eqn:Ht; try reflexivity.
  - destruct (find (fun ch => mem ch cfg) (fs_children (st c y))) as [k|] eqn:E; [|reflexivity].
    apply find_some in E as [Hk Hm]. apply Hkid; [exact Hk | apply Hcfg; now apply mem_In].
  - pose proof (HPAR y (par_in_range_h c y Ht) Ht) as Hne. destruct (fs_children (st c y)) as [|k r] eqn:E; [congruence|].
    cbn [forallb]. rewrite Hkid; [reflexivity | now left|]. apply (par_children_proper c W y k Ht). rewrite E. now left.
  - exfalso. exact (H y (or_introl eq_refl) Ht).
  - exfalso. unfold pseudoS in Hpy. rewrite Ht in Hpy. discriminate.
  - exfalso. unfold pseudoS in Hpy. rewrite Ht in Hpy. discriminate.
Qed.

Notation CondG := (RunConformInitialMicro.CondG c).

Lemma in_final_child_hh cfgS g q fuel fuel' :
  CondG g -> fs_parent (st c q) = Some g -> pseudo q = false -> (forall y, In y cfgS -> CF y) -> 2 <= fuel -> 1 <= fuel' ->
  in_final c fuel (0 :: cfgS) q = in_final_state c fuel' cfgS q.
Proof.
  intros HG Hq Hqprop Hcf Hf Hf'.
  assert (Hcfgp : forall z, In z (0 :: cfgS) -> pseudo z = false).
  { intros z [<-|Hz]; [exact root_proper | apply HCFp; now apply Hcf]. }
  assert (Hgq : Anc g q) by now apply anc_parent.
  destruct fuel as [|[|f2]]; try lia. destruct fuel' as [|f']; try lia.
  destruct (fs_type (st c q)) eqn:Ht.
  - cbn [in_final in_final_state]. unfold is_compound_state, is_parallel_state, sty. rewrite Ht. reflexivity.
  - (* compound *)
    cbn [in_final_state]. unfold is_compound_state, sty. rewrite Ht.
    change (in_final c (S (S f2)) (0 :: cfgS) q) with
      (match fs_type (st c q) with
       | FFinal => true | FAtomic => false
       | FParallel => forallb (in_final c (S f2) (0 :: cfgS)) (fs_children (st c q))
       | FInitial => false
       | FCompound => match find (fun ch => mem ch (0 :: cfgS)) (fs_children (st c q)) with
                      | Some ch => in_final c (S f2) (0 :: cfgS) ch
                      | None => false end
       | FHistShallow | FHistDeep => true end).
    rewrite Ht.
    assert (Hmem : forall k, In k (fs_children (st c q)) -> mem k (0 :: cfgS) = mem k cfgS).
    { intros k Hk. apply (wh_children c W) in Hk. destruct (wh_par_lt c W _ _ Hk) as [Hlt _]. cbn [mem].
      replace (k =? 0) with false by (symmetry; apply Nat.eqb_neq; lia). reflexivity. }
    assert (Hnf : forall k, In k (fs_children (st c q)) -> pseudo k = false -> fs_type (st c k) <> FFinal -> in_final c (S f2) (0 :: cfgS) k = false).
    { intros k Hk Hpk Hkf. apply (nf_large_hh _ Hcfgp); [exact Hpk|]. intros z [->|Hz]; [exact Hkf|]. intros Hzf.
      apply (wh_children c W) in Hk.
      assert (Hgz : Anc g z) by (eapply (hanc_trans c); [exact Hgq|]; eapply (hanc_trans c); [apply anc_parent; exact Hk | exact Hz]).
      destruct (HG z Hzf Hgz) as (q' & Hpz & Hpq' & _).
      destruct (anc_child _ _ _ _ Hpz Hz) as [->|Hkq'].
      - rewrite Hk in Hpq'. injection Hpq' as E0. rewrite E0 in Hq. destruct (wh_par_lt c W _ _ Hq). lia.
      - destruct (anc_child _ _ _ _ Hpq' Hkq') as [->|Hkg].
        + apply (hanc_antisym c W g q Hgq). now apply anc_parent.
        + apply (hanc_antisym c W g k); [eapply (hanc_trans c); [exact Hgq | now apply anc_parent] | exact Hkg]. }
    destruct (find (fun ch => mem ch (0 :: cfgS)) (fs_children (st c q))) as [k|] eqn:E.
    + apply find_some in E as [Hk Hm]. rewrite (Hmem k Hk) in Hm.
      assert (Hpk : pseudo k = false) by (apply HCFp, Hcf; now apply mem_In).
      destruct (fs_type (st c k)) eqn:Hkt.
      1,2,3,5,6,7: (rewrite (Hnf k Hk Hpk) by congruence; symmetry; apply not_true_is_false; intros Hex;
        apply existsb_exists in Hex as (k' & Hk' & Hfk); apply child_states_in in Hk' as [Hk' _]; apply andb_true_iff in Hfk as [Hfk Hm'];
        assert (k' = k) by (apply (Huniq q k' k Ht Hk' Hk); apply Hcf; now apply mem_In); subst k';
        unfold is_final_state, sty in Hfk; rewrite Hkt in Hfk; discriminate).
      cbn [in_final]. rewrite Hkt. symmetry. apply existsb_exists. exists k. split.
      * unfold child_states. apply filter_In. split; [exact Hk|]. unfold is_proper, sty. now rewrite Hkt.
      * unfold is_final_state, sty. now rewrite Hkt, Hm.
    + symmetry. apply not_true_is_false. intros Hex. apply existsb_exists in Hex as (k' & Hk' & Hfk).
      apply child_states_in in Hk' as [Hk' _].
      apply andb_true_iff in Hfk as [_ Hm']. pose proof (find_none _ _ E k' Hk') as Hn. cbn beta in Hn.
      rewrite (Hmem k' Hk') in Hn. congruence.
  - (* parallel: no <final> below *)
    assert (Hno : forall z, z = q \/ Anc q z -> fs_type (st c z) <> FFinal).
    { intros z [->|Hz] Hzf; [congruence|].
      assert (Hgz : Anc g z) by (eapply (hanc_trans c); eauto).
      destruct (HG z Hzf Hgz) as (q' & Hpz & Hpq' & Hnp).
      destruct (anc_child _ _ _ _ Hpz Hz) as [->|Hqq']; [congruence|].
      destruct (anc_child _ _ _ _ Hpq' Hqq') as [->|Hqg]; [exact (hanc_irrefl c W _ Hgq) | exact (hanc_antisym c W g q Hgq Hqg)]. }
    rewrite (nf_large_hh _ Hcfgp) by assumption. rewrite (nf_spec_h c W HPAR) by exact Hno. reflexivity.
  - (* a <final> child of g *)
    exfalso. destruct (HG q Ht Hgq) as (q' & Hpq & Hpq' & _). rewrite Hq in Hpq. injection Hpq as <-.
    destruct (wh_par_lt c W _ _ Hpq'). lia.
  - exfalso. unfold pseudoS in Hqprop. rewrite Ht in Hqprop. discriminate.
  - exfalso. unfold pseudoS in Hqprop. rewrite Ht in Hqprop. discriminate.
  - cbn [in_final in_final_state]. unfold is_compound_state, is_parallel_state, sty. rewrite Ht. reflexivity.
Qed.

Lemma in_final_parallel_hh cfgS g fuel fuel' :
  fs_type (st c g) = FParallel -> CondG g -> (forall y, In y cfgS -> CF y) -> 3 <= fuel -> 1 <= fuel' ->
  in_final c fuel (0 :: cfgS) g = forallb (in_final_state c fuel' cfgS) (child_states c g).
Proof.
  intros Ht HG Hcf Hf Hf'. destruct fuel as [|f1]; [lia|]. cbn [in_final]. rewrite Ht, (child_states_par c W g Ht).
  assert (Hall : forall l, (forall q, In q l -> In q (fs_children (st c g))) ->
            forallb (in_final c f1 (0 :: cfgS)) l = forallb (in_final_state c fuel' cfgS) l).
  { induction l as [|q r IH]; intros Hl; cbn [forallb]; [reflexivity|].
    rewrite (in_final_child_hh cfgS g q f1 fuel' HG); try assumption; try lia.
    - rewrite IH by (intros z Hz; apply Hl; now right). reflexivity.
    - apply (wh_children c W). apply Hl. now left.
    - apply (par_children_proper c W g q Ht). apply Hl. now left. }
  apply Hall. auto.
Qed.

(* ---- the content run after the onentry handlers ---- *)

Notation eng_child := (RunConformInitialMicro.eng_child c ts).
Notation fire := (RunConformInitialMicro.fire c).

Lemma eng_child_first cfgS x ch ti r : pseudo ch = true -> fs_trans (st c ch) = ti :: r ->
  (forall tj, In tj r -> ~ In tj ts) ->
  eng_child (0 :: cfgS) x ch = if mem ti ts then fire cfgS ti x else x.
Proof.
  intros Hps Htr Hrest. unfold RunConformInitialMicro.eng_child. unfold pseudoS in Hps. rewrite Hps, Htr. cbn [fold_left]. cbn zeta.
  rewrite (Hflags ch ti) by (try assumption; rewrite Htr; now left). cbn [andb].
  rewrite fold_none.
  - destruct (mem ti ts); [|reflexivity]. unfold RunConformInitialMicro.fire. f_equal.
    destruct (ft_has_body (tr c ti)) eqn:Hh; [apply exec_block_root; apply Hsilent_t | rewrite (Hbody ti Hh); reflexivity].
  - intros a tj Htj. replace (mem tj ts) with false; [now rewrite andb_false_r|]. symmetry. apply mem_false_In. now apply Hrest.
Qed.

Lemma eng_child_none cfgS x ch : (forall tj, In tj (fs_trans (st c ch)) -> ~ In tj ts) -> eng_child (0 :: cfgS) x ch = x.
Proof.
  intros Hno. unfold RunConformInitialMicro.eng_child. destruct (is_pseudo (fs_type (st c ch))); [|reflexivity].
  apply fold_none. intros a tj Htj. replace (mem tj ts) with false; [now rewrite andb_false_r|]. symmetry. apply mem_false_In. now apply Hno.
Qed.

Lemma eng_child_off cfgS x k : (pseudo k = true -> forall tj, In tj (fs_trans (st c k)) -> ~ In tj ts) -> eng_child (0 :: cfgS) x k = x.
Proof.
  intros H. destruct (pseudo k) eqn:Hps; [apply eng_child_none; now apply H | now apply eng_child_proper].
Qed.

Lemma content_conforms cfgS i x4 : EN i ->
  fold_left (eng_child (0 :: cfgS)) (fs_children (st c i)) x4 =
  fold_left (fun x p => if fst p =? i then exec_trans_content c cfgS (snd p) x else x) L
    (if mem i (e_default e)
     then match snd (initial_of c i) with
          | Some t => emit (TTe (ft_vid t)) (exec_block ex_fixed (inst_of c cfgS) (ft_body t) (emit (TTb (ft_vid t)) x4))
          | None => x4
          end
     else x4).
Proof.
  intros Hen.
  rewrite (fold_skip (fun x p => if fst p =? i then exec_trans_content c cfgS (snd p) x else x) (fun p => fst p =? i) L)
    by (intros a p Hp; now rewrite Hp).
  assert (HinL : forall ti, In (i, ti) L <-> In (i, ti) (filter (fun p => fst p =? i) L)).
  { intros ti. rewrite filter_In. cbn [fst]. rewrite Nat.eqb_refl. tauto. }
  (* children whose transitions are not in the set do nothing *)
  assert (Hquiet : forall chs a, (forall k tj, In k chs -> pseudo k = true -> In tj (fs_trans (st c k)) -> ~ In tj ts) -> fold_left (eng_child (0 :: cfgS)) chs a = a).
  { intros chs a Hq. apply fold_none. intros a' k Hk. apply eng_child_off. intros Hps tj Htj. exact (Hq k tj Hk Hps Htj). }
  assert (Hinit_off : ~ In i (e_default e) -> forall k tj, fs_parent (st c k) = Some i -> fs_type (st c k) = FInitial -> In tj (fs_trans (st c k)) -> ~ In tj ts).
  { intros Hnd k tj Hk Hkk Htj Hin. apply (HinitB i k tj Hen Hk Hkk Htj) in Hin as [Hd _]. contradiction. }
  assert (Hhist_off : forall k tj, fs_parent (st c k) = Some i -> histS c k = true -> In tj (fs_trans (st c k)) -> ~ In (i, tj) L -> ~ In tj ts).
  { intros k tj Hk Hh Htj Hn Hin. apply Hn. now apply (HhistB i k tj Hen Hk Hh Htj). }
  destruct (mem i (e_default e)) eqn:Hd.
  - (* entered by default: no history child fires *)
    apply mem_In in Hd. pose proof (Hdk i Hd) as Hki.
    assert (Hfe : filter (fun p => fst p =? i) L = []).
    { destruct (HLone i Hen) as [E|(ti & E)]; [exact E|]. exfalso. apply (HLdef i ti Hd). apply HinL. rewrite E. now left. }
    rewrite Hfe. cbn [fold_left].
    assert (Hh_off : forall k tj, fs_parent (st c k) = Some i -> histS c k = true -> In tj (fs_trans (st c k)) -> ~ In tj ts).
    { intros k tj Hk Hh Htj. apply (Hhist_off k tj Hk Hh Htj). exact (HLdef i tj Hd). }
    destruct (initial_of_snd c W HcplOK i Hki) as [(x0 & ti0 & Hc & Hkx & Hpx & Htr & Hsnd & _)|(Hprop & Hsnd & _)]; rewrite Hsnd.
    + assert (Hps0 : pseudo x0 = true) by (unfold pseudoS; now rewrite Hkx).
      assert (Hin0 : In ti0 ts) by (apply (HinitB i x0 ti0 Hen Hpx Hkx); [rewrite Htr; now left | auto]).
      rewrite (fold_one (eng_child (0 :: cfgS)) (fire cfgS ti0) (fs_children (st c i)) x0 (wh_children_nodup c W i));
        [reflexivity | now apply (wh_children c W) | |].
      * intros a. rewrite (eng_child_first cfgS a x0 ti0 [] Hps0 Htr) by (intros tj []). apply mem_In in Hin0. now rewrite Hin0.
      * intros a k Hk Hne. apply eng_child_off. intros Hps tj Htj. apply (wh_children c W) in Hk.
        destruct (pseudo_kind k Hps) as [Hkk|Hh]; [|exact (Hh_off k tj Hk Hh Htj)].
        intros Hin. apply (HinitB i k tj Hen Hk Hkk Htj) in Hin as [_ Hc']. rewrite Hc in Hc'. injection Hc' as E. now apply Hne.
    + apply Hquiet. intros k tj Hk Hps Htj. apply (wh_children c W) in Hk.
      destruct (pseudo_kind k Hps) as [Hkk|Hh]; [|exact (Hh_off k tj Hk Hh Htj)].
      intros Hin. apply (HinitB i k tj Hen Hk Hkk Htj) in Hin as [_ Hc']. rewrite (Hprop k) in Hps; [discriminate | rewrite Hc'; now left].
  - apply mem_false_In in Hd.
    destruct (HLone i Hen) as [Hfe|(tih & Hfe)]; rewrite Hfe; cbn [fold_left fst snd].
    + apply Hquiet. intros k tj Hk Hps Htj. apply (wh_children c W) in Hk.
      destruct (pseudo_kind k Hps) as [Hkk|Hh]; [exact (Hinit_off Hd k tj Hk Hkk Htj)|].
      apply (Hhist_off k tj Hk Hh Htj). intros F. apply HinL in F. rewrite Hfe in F. destruct F.
    + rewrite Nat.eqb_refl.
      assert (HiL : In (i, tih) L) by (apply HinL; rewrite Hfe; now left).
      destruct (HLsrc i tih HiL) as (H & r & HpH & HhH & HtrH).
      assert (HpsH : pseudo H = true) by (unfold histS in HhH; unfold pseudoS; destruct (fs_type (st c H)); try discriminate; reflexivity).
      assert (Honly : forall tj, In (i, tj) L -> tj = tih).
      { intros tj F. apply HinL in F. rewrite Hfe in F. destruct F as [E|[]]. now injection E. }
      rewrite (fold_one (eng_child (0 :: cfgS)) (fire cfgS tih) (fs_children (st c i)) H (wh_children_nodup c W i));
        [reflexivity | now apply (wh_children c W) | |].
      * intros a. rewrite (eng_child_first cfgS a H tih r HpsH HtrH).
        -- assert (Hin : In tih ts) by (apply (HhistB i H tih Hen HpH HhH); [rewrite HtrH; now left | exact HiL]).
           apply mem_In in Hin. now rewrite Hin.
        -- intros tj Htj Hin. assert (HtjH : In tj (fs_trans (st c H))) by (rewrite HtrH; now right).
           apply (HhistB i H tj Hen HpH HhH HtjH) in Hin. apply Honly in Hin. subst tj.
           pose proof (Htrn H) as Hnd. rewrite HtrH in Hnd. inversion Hnd; subst. contradiction.
      * intros a k Hk Hne. apply eng_child_off. intros Hps tj Htj. apply (wh_children c W) in Hk.
        destruct (pseudo_kind k Hps) as [Hkk|Hh]; [exact (Hinit_off Hd k tj Hk Hkk Htj)|].
        apply (Hhist_off k tj Hk Hh Htj). intros F. pose proof (Honly tj F) as ->.
        apply Hne. rewrite <- (wh_tr_src c W k tih Htj). apply (wh_tr_src c W H tih). rewrite HtrH. now left.
Qed.

Definition erel_h (a : enter_acc) (sx : sstate * xstate) : Prop :=
  erel c a sx /\ forall y, In y (s_cfg (fst sx)) -> CF y.

Lemma tails_conform_hh cfgS initd1 entered1 s x2 i : 0 < i -> i < nstates c -> EN i ->
  data_rel c initd1 entered1 -> (forall y, In y cfgS -> CF y) ->
  erel c (l_tail c ts (0 :: cfgS) initd1 (negb (s_running s)) x2 i) (s_tail c e cfgS entered1 s x2 i) /\
  s_cfg (fst (s_tail c e cfgS entered1 s x2 i)) = cfgS.
Proof.
  intros Hi Hin Hen HD Hcf. destruct (wh_par_some c W i Hi Hin) as (p & Hp).
  unfold l_tail, s_tail. cbn zeta.
  rewrite exec_blocks_root by apply Hsilent.
  set (x4 := emit (TEe (fs_sid (st c i))) (exec_blocks ex_fixed (inst_of c cfgS) (fs_onentry (st c i)) x2)).
  change (fold_left _ (fs_children (st c i)) x4) with (fold_left (eng_child (0 :: cfgS)) (fs_children (st c i)) x4).
  rewrite (content_conforms cfgS i x4 Hen).
  set (x5 := fold_left _ L _).
  unfold is_final_state, sty.
  destruct (fs_type (st c i)) eqn:Hty;
    try (split; [|reflexivity]; unfold erel; cbn [fst snd ea_cfg ea_tlf ea_initd ea_x s_cfg s_running s_entered]; repeat split; assumption).
  rewrite Hp. pose proof (Hfin_par i p Hty Hp) as Hpnp.
  destruct p as [|p'].
  - assert (Hw : done_walk c (n_states c) (0 :: cfgS) (Some 0) x5 = x5).
    { apply done_walk_none. intros b [->|Hb]; [exact Hpnp | exfalso; exact (no_anc_root _ (wh_root_par c W) _ Hb)]. }
    rewrite Hw. split; [|reflexivity].
    unfold erel; cbn [fst snd ea_cfg ea_tlf ea_initd ea_x s_cfg s_running s_entered]. repeat split; try assumption.
    now rewrite orb_true_r.
  - destruct (wh_par_lt c W _ _ Hp) as [Hplt _].
    destruct (wh_par_some c W (S p') ltac:(lia) ltac:(lia)) as (g & Hg). rewrite Hg.
    destruct (wh_par_lt c W _ _ Hg) as [Hglt _].
    assert (Hn3 : 3 <= n_states c) by (unfold n_states; lia).
    assert (Habove : forall b, Anc b g -> fs_type (st c b) <> FParallel).
    { intros b Hb. destruct (Hfin_up i (S p') b Hty Hp) as [H|H]; [eapply anc_step; eauto | | exact H].
      exfalso. rewrite Hg in H. injection H as <-. exact (hanc_irrefl c W _ Hb). }
    assert (Hup : forall f y, done_walk c f (0 :: cfgS) (fs_parent (st c g)) y = y).
    { intros f y. destruct (fs_parent (st c g)) as [gg|] eqn:Hgg; [|apply done_walk_top].
      apply done_walk_none. intros b [->|Hb]; apply Habove; [now apply anc_parent | eapply anc_step; eauto]. }
    destruct (n_states c) as [|[|n2]] eqn:En; try lia.
    rewrite done_walk_step by exact Hpnp. rewrite Hg.
    change (spec_done_event c) with (done_event c).
    destruct (fs_type (st c g)) eqn:Hgt.
    1,2,4,5,6,7: (rewrite done_walk_step by congruence; rewrite Hup; unfold is_parallel_state, sty; rewrite Hgt; cbn [andb];
      split; [|reflexivity]; unfold erel; cbn [fst snd ea_cfg ea_tlf ea_initd ea_x s_cfg s_running s_entered];
      repeat split; try assumption; now rewrite orb_false_r).
    rewrite done_walk_par by exact Hgt. rewrite En.
    rewrite (in_final_parallel_hh cfgS g (S (S n2)) (Spec.n c) Hgt (condG_of_final_h c Hfin_par Hfin_up i (S p') g Hty Hp Hg Hgt) Hcf)
      by (unfold Spec.n, n_states in *; lia).
    unfold is_parallel_state, sty. rewrite Hgt. cbn [andb].
    destruct (forallb (in_final_state c (Spec.n c) cfgS) (child_states c g)); [rewrite Hup|];
      (split; [|reflexivity]; unfold erel; cbn [fst snd ea_cfg ea_tlf ea_initd ea_x s_cfg s_running s_entered];
       repeat split; try assumption; now rewrite orb_false_r).
Qed.

Lemma enter_one_conforms_hh a sx i : erel_h a sx -> 0 < i -> i < nstates c -> CF i -> EN i ->
  erel_h (enter_one ex_fixed c ts a i) (spec_enter_one c e sx i).
Proof.
  intros [(Hc & Ht & Hd & Hx) Hcf] Hi Hin Hic Hen. destruct sx as [s x]. cbn [fst snd] in *.
  assert (Hcf1 : forall y, In y (insert_sorted i (s_cfg s)) -> CF y).
  { intros y Hy. apply In_insert_sorted' in Hy as [->|Hy]; [exact Hic | now apply Hcf]. }
  pose proof (HCFp i Hic) as Hpi. unfold pseudoS in Hpi.
  rewrite enter_one_staged, spec_enter_one_staged, Hpi.
  rewrite Hc, Hx, Ht, (insert_sorted_root i (s_cfg s)) by lia.
  assert (Hfinish : forall initd1 entered1 x2, data_rel c initd1 entered1 ->
     erel_h (l_tail c ts (0 :: insert_sorted i (s_cfg s)) initd1 (negb (s_running s)) x2 i)
            (s_tail c e (insert_sorted i (s_cfg s)) entered1 s x2 i)).
  { intros initd1 entered1 x2 HD. destruct (tails_conform_hh (insert_sorted i (s_cfg s)) initd1 entered1 s x2 i Hi Hin Hen HD Hcf1) as [A B].
    split; [exact A | rewrite B; exact Hcf1]. }
  destruct (fs_data (st c i)) as [|d0 ds] eqn:Hdt.
  - destruct (fc_late c && negb (mem i (s_entered s))); cbn [fold_left]; apply Hfinish; try assumption.
    intros j Hj. rewrite mem_insert_sorted. destruct (j =? i) eqn:E; [apply Nat.eqb_eq in E; subst; congruence|]. now apply Hd.
  - assert (Hl : fc_late c = true).
    { destruct (fc_late c) eqn:E; [reflexivity|]. rewrite (Hdata eq_refl i) in Hdt by lia. discriminate. }
    rewrite Hl. cbn [andb]. rewrite <- (Hd i) by (rewrite Hdt; discriminate).
    destruct (mem i (ea_initd a)); cbn [negb]; apply Hfinish; try assumption.
    intros j Hj. rewrite !mem_insert_sorted. now rewrite (Hd j Hj).
Qed.

Lemma enter_fold_conforms_hh es : forall a sx, erel_h a sx -> (forall i, In i es -> 0 < i /\ i < nstates c /\ CF i /\ EN i) ->
  erel_h (fold_left (enter_one ex_fixed c ts) es a) (fold_left (spec_enter_one c e) es sx).
Proof.
  induction es as [|i r IH]; intros a sx Hr Hb; cbn [fold_left]; [exact Hr|].
  apply IH; [|intros j Hj; apply Hb; now right].
  destruct (Hb i (or_introl eq_refl)) as (A & B & C & D'). now apply enter_one_conforms_hh.
Qed.

End EnterHH.
