(* Trie.v -- the prefix trie over '.'-separated event names (src/uscxml/transform/Trie.cpp, used with
   separator "." by PromelaCodeAnalyzer and ChartToVHDL) and the static resolution of a transition's
   event descriptors into the literals the emitted guard compares against
   (ChartToPromela::writeFSMSelectTransitions, the loop around getWordsWithPrefix).  Model only;
   lemmas are in TrieLemmas.v.

   A node is TrieNode{hasWord,value,childs}.  std::map<std::string,TrieNode*> is an association list in
   insertion order: Trie.cpp never relies on the key order, and getChildsWithWords joins the child
   lists with std::list::merge on *pointer values*, so the order of the result is unspecified in the
   C++; everything stated about the result is about membership. *)
From V Require Import Base NameMatch.
Local Open Scope N_scope.

Inductive trie := TrieN (word : option bytes) (childs : list (bytes * trie)).

Definition trie_empty : trie := TrieN None [].
Definition trie_word (t : trie) := let 'TrieN w _ := t in w.
Definition trie_childs (t : trie) := let 'TrieN _ c := t in c.

(* ---- Trie::getNextToken for a non-empty separator ".".
   The position is the remaining suffix; [None] is std::string::npos. ---- *)

(* the branch `sepPos != offset`: the token runs up to the next separator or the end *)
Fixpoint take_token (l : bytes) : bytes * option bytes :=
  match l with
  | [] => ([], None)
  | c :: r => if c =? c_dot then ([], Some r)
              else let '(t, o) := take_token r in (c :: t, o)
  end.

(* offset >= length: token "" and npos; a leading separator is skipped by the recursive call *)
Fixpoint next_token (l : bytes) : bytes * option bytes :=
  match l with
  | [] => ([], None)
  | c :: r => if c =? c_dot then next_token r else take_token l
  end.

(* the non-empty tokens the loop `for(;;) { offset = getNextToken(word, offset, tok); ... if (offset == npos) break; }`
   sees, in order (lemma dot_tokens_next_token ties this to next_token) *)
Fixpoint dot_tokens_aux (cur : bytes) (l : bytes) : list bytes :=
  match l with
  | [] => match cur with [] => [] | _ => [rev cur] end
  | c :: r =>
    if c =? c_dot then
      match cur with [] => dot_tokens_aux [] r | _ => rev cur :: dot_tokens_aux [] r end
    else dot_tokens_aux (c :: cur) r
  end.
Definition dot_tokens (l : bytes) : list bytes := dot_tokens_aux [] l.

(* ---- childs.find(key) / childs[key] = ... ---- *)
Fixpoint child_find (k : bytes) (ch : list (bytes * trie)) : option trie :=
  match ch with
  | [] => None
  | (k', c) :: r => if beq_bytes k k' then Some c else child_find k r
  end.

(* apply [f] to the child under [k], creating it (new TrieNode()) when absent *)
Fixpoint child_update (k : bytes) (f : trie -> trie) (ch : list (bytes * trie)) : list (bytes * trie) :=
  match ch with
  | [] => [(k, f trie_empty)]
  | (k', c) :: r => if beq_bytes k k' then (k', f c) :: r else (k', c) :: child_update k f r
  end.

(* ---- Trie::addWord: walk/create the path of the word's tokens, then mark the node unless it already
   holds a word (`if (!currNode->hasWord)`: the first spelling reaching a node is kept) ---- *)
Fixpoint add_path (toks : list bytes) (w : bytes) (t : trie) : trie :=
  match toks with
  | [] => match t with
          | TrieN None ch => TrieN (Some w) ch
          | _ => t
          end
  | k :: r => let 'TrieN wd ch := t in TrieN wd (child_update k (add_path r w) ch)
  end.

Definition add_word (w : bytes) (t : trie) : trie := add_path (dot_tokens w) w t.

Definition trie_of (ws : list bytes) : trie := fold_left (fun t w => add_word w t) ws trie_empty.

(* ---- Trie::getNodeWithPrefix: follow the tokens of the prefix; a token without child gives NULL;
   the loop ends on the empty token after the last one ---- *)
Fixpoint find_path (toks : list bytes) (t : trie) : option trie :=
  match toks with
  | [] => Some t
  | k :: r => match child_find k (trie_childs t) with
              | Some c => find_path r c
              | None => None
              end
  end.

(* ---- Trie::getChildsWithWords: the node's own word, then the words of every sub-tree ---- *)
Fixpoint words_below (t : trie) : list bytes :=
  match t with
  | TrieN wd ch =>
    (match wd with Some w => [w] | None => [] end) ++
    (fix go (l : list (bytes * trie)) : list bytes :=
       match l with
       | [] => []
       | (_, c) :: r => words_below c ++ go r
       end) ch
  end.

(* ---- Trie::getWordsWithPrefix ---- *)
Definition words_with_prefix (t : trie) (prefix : bytes) : list bytes :=
  match find_path (dot_tokens prefix) t with
  | Some n => words_below n
  | None => []
  end.

(* ---- the resolution of one transition's `event` attribute as ChartToPromela (and ChartToVHDL) write it ----
   `if (HAS_ATTR(event) && ATTR(event) != "*")`: the whole attribute "*" (and a missing attribute) gives no
   event test at all; otherwise every whitespace-separated descriptor loses a trailing ".*", then a
   trailing ".", and is looked up as a prefix. *)
Definition ends_with (suffix l : bytes) : bool := is_prefix (rev suffix) (rev l).
Definition drop_last (n : nat) (l : bytes) : bytes := rev (skipn n (rev l)).

Definition strip_desc (d : bytes) : bytes :=
  let d1 := if ends_with [c_dot; c_star] d then drop_last 2 d else d in
  if ends_with [c_dot] d1 then drop_last 1 d1 else d1.

Record trie_variant := {
  (* a descriptor "*" that is one of several descriptors of the attribute is looked up as the prefix "*",
     which is no event name: it contributes nothing instead of matching every event *)
  tv_star_in_list_ignored : bool
}.
Definition tv_as_written := {| tv_star_in_list_ignored := true |}.
Definition tv_repaired := {| tv_star_in_list_ignored := false |}.

(* None: no test on the event name (matches every event); Some l: the OR of `_event == lit` for lit in l *)
Definition resolve_attr (v : trie_variant) (t : trie) (attr : bytes) : option (list bytes) :=
  if beq_bytes attr [c_star] then None
  else
    let ds := tokens attr in
    if negb (tv_star_in_list_ignored v) && existsb (fun d => beq_bytes d [c_star]) ds then None
    else Some (flat_map (fun d => words_with_prefix t (strip_desc d)) ds).

Definition resolved_match (r : option (list bytes)) (name : bytes) : bool :=
  match r with
  | None => true
  | Some l => existsb (fun w => beq_bytes w name) l
  end.

(* ---- the specification side: token-prefix on '.'-separated names ---- *)
Fixpoint list_prefixb (p l : list bytes) : bool :=
  match p, l with
  | [], _ => true
  | x :: p', y :: l' => beq_bytes x y && list_prefixb p' l'
  | _ :: _, [] => false
  end.

(* canonical spelling of an event name: non-empty, no empty token (no leading, trailing or doubled '.') *)
Fixpoint join_dots (ts : list bytes) : bytes :=
  match ts with
  | [] => []
  | [t] => t
  | t :: r => t ++ c_dot :: join_dots r
  end.
Definition canonical_name (w : bytes) : bool :=
  match w with [] => false | _ => beq_bytes (join_dots (dot_tokens w)) w end.

(* a descriptor the resolution handles as the Recommendation reads it (hypothesis of the guard theorem): not
   the wildcard, both ways of removing the ".*" / "." suffix agree (this resolution's and NameMatch.strip_suffix),
   and what remains is a canonically spelled name *)
Definition resolvable_desc (d : bytes) : bool :=
  negb (beq_bytes d [c_star]) && beq_bytes (strip_desc d) (strip_suffix d) && canonical_name (strip_desc d).
