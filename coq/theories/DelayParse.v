(* DelayParse.v -- C09: the codec that turns the text of <send delay="..."> into milliseconds.
   Model only; lemmas in DelayParseLemmas.v.

   Code modelled:
     NumAttr::NumAttr                       (src/uscxml/util/Convenience.cpp:26-44)
     BasicContentExecutor::processSend      (src/uscxml/interpreter/BasicContentExecutor.cpp:130-152)
     strTo<uint32_t>, strTo<double>         (Convenience.h: std::istringstream >> T, "C" locale; the
                                             extraction rules of libstdc++'s num_get, then strtod)
     the IEEE-754 binary64 operations  strtod (correctly rounded), `* 1000`, conversion to uint32_t
   Doubles are modelled exactly, as m * 2^e with m < 2^53, by round-to-nearest-even on rationals
   (the exponent range is not bounded: overflow to infinity and values >= 2^32 both end in the
   out-of-range conversion, which is undefined behaviour in C++ and an explicit outcome here;
   sub-normal results are < 1 and truncate to 0 either way). *)
From V Require Import Base.
Local Open Scope N_scope.

Inductive dp_result :=
| DpMs (ms : N)      (* delayMs *)
| DpUB               (* double -> uint32_t conversion of a value that does not fit: undefined *)
| DpUninit.          (* strTo<T> on an empty / all-blank text: the stream's sentry fails, `output` is
                        returned without ever having been written (read of an uninitialised variable) *)

(* the points at which the pinned code falls short; the repaired code has both switches on *)
Record dp_variant := {
  dpv_wide : bool;   (* delayMs and the strTo instantiation are 64 bit wide (pinned: uint32_t) *)
  dpv_init : bool    (* strTo value-initialises its result (pinned: `T output;`) *)
}.
Definition dpv_pinned := {| dpv_wide := false; dpv_init := false |}.
Definition dpv_fixed  := {| dpv_wide := true;  dpv_init := true |}.

(* ---------- NumAttr ---------- *)
Definition is_numch (c : N) : bool := ((48 <=? c) && (c <=? 57)) || (c =? 46).
Definition is_digit (c : N) : bool := (48 <=? c) && (c <=? 57).
Definition is_blank (c : N) : bool := (c =? 32) || (c =? 9).

(* index of the first element from position [i] on that satisfies f *)
Fixpoint find_first_from (f : N -> bool) (l : bytes) (i : nat) : option nat :=
  match l with
  | [] => None
  | c :: r => if f c then Some i else find_first_from f r (S i)
  end.
Definition find_first (f : N -> bool) (l : bytes) : option nat := find_first_from f l 0.
(* index of the last element that satisfies f *)
Fixpoint find_last_from (f : N -> bool) (l : bytes) (i : nat) (acc : option nat) : option nat :=
  match l with
  | [] => acc
  | c :: r => find_last_from f r (S i) (if f c then Some i else acc)
  end.
Definition find_last (f : N -> bool) (l : bytes) : option nat := find_last_from f l 0 None.

Definition substr (l : bytes) (pos len : nat) : bytes := firstn len (skipn pos l).

Record numattr := { na_value : bytes; na_unit : bytes }.

Definition num_attr (s : bytes) : numattr :=
  match find_first is_numch s with
  | None => {| na_value := []; na_unit := [] |}
  | Some vs =>
      match find_last is_numch s with
      | None => {| na_value := []; na_unit := [] |}
      | Some ve =>
          let value := substr s vs (ve - vs + 1) in
          let unit :=
            match find_first_from (fun c => negb (is_blank c)) (skipn (S ve) s) (S ve) with
            | None => []
            | Some us =>
                match find_last is_blank s with
                | Some ue => if (us <? ue)%nat then substr s us (ue - us)
                             else substr s us (length s - us)
                | None => substr s us (length s - us)
                end
            end in
          {| na_value := value; na_unit := unit |}
      end
  end.

(* ---------- strTo<uint32_t> : num_get for unsigned, decimal ---------- *)
Fixpoint digits_val (acc : N) (l : bytes) : N :=
  match l with
  | [] => acc
  | c :: r => digits_val (10 * acc + (c - 48)) r
  end.
Fixpoint take_digits (l : bytes) : bytes :=
  match l with
  | c :: r => if is_digit c then c :: take_digits r else []
  | [] => []
  end.
Fixpoint drop_digits (l : bytes) : bytes :=
  match l with
  | c :: r => if is_digit c then drop_digits r else l
  | [] => []
  end.
Definition u32_max : N := 4294967295.
Definition u64_max : N := 18446744073709551615.
Definition umax (v : dp_variant) : N := if dpv_wide v then u64_max else u32_max.
Definition is_ws (c : N) : bool := isspace c.
Fixpoint drop_ws (l : bytes) : bytes :=
  match l with c :: r => if is_ws c then drop_ws r else l | [] => [] end.

(* istream >> unsigned: skip white space, optional sign, digits; no digit: 0; too large: max.
   A leading '-' negates modulo 2^w (strtoul semantics of libstdc++) -- cannot occur for a
   NumAttr value, which starts with a digit or a dot, but the function is total. *)
Definition strip_sign (v : bytes) : bool * bytes :=
  match v with
  | 43 :: r => (false, r)
  | 45 :: r => (true, r)
  | _ => (false, v)
  end.

Definition parse_u32 (dv : dp_variant) (v : bytes) : option N :=
  let v := drop_ws v in
  match v with [] => None | _ => Some (
  let '(neg, v) := strip_sign v in
  match take_digits v with
  | [] => 0
  | ds => let n := digits_val 0 ds in
          if umax dv <? n then umax dv
          else if neg then (if n =? 0 then 0 else umax dv + 1 - n) else n
  end) end.

(* ---------- binary64 ---------- *)
(* a non-negative double: m * 2^e, m < 2^53 *)
Record dbl := { d_m : N; d_e : Z }.

Definition two53 : N := 9007199254740992.
Definition two52 : N := 4503599627370496.

(* quotient and remainder of  num / (den * 2^e)  for integer e *)
Definition scaled_divmod (num den : N) (e : Z) : N * N * N :=   (* q, r, divisor *)
  let '(n', d') := match e with
                   | Z0 => (num, den)
                   | Zpos p => (num, N.shiftl den (Npos p))
                   | Zneg p => (N.shiftl num (Npos p), den)
                   end in
  (n' / d', n' mod d', d').

(* round to nearest, ties to even, of the positive rational num/den (den > 0) *)
Definition rne (num den : N) : dbl :=
  if (num =? 0) || (den =? 0) then {| d_m := 0; d_e := 0 |} else
  let e0 := (Z.of_N (N.log2 num) - Z.of_N (N.log2 den) - 52)%Z in
  let '(q0, _, _) := scaled_divmod num den e0 in
  let e := if two53 <=? q0 then (e0 + 1)%Z else if q0 <? two52 then (e0 - 1)%Z else e0 in
  let '(q, r, d) := scaled_divmod num den e in
  let up := (d <? 2 * r) || ((d =? 2 * r) && N.odd q) in
  let m := if up then q + 1 else q in
  if m =? two53 then {| d_m := two52; d_e := (e + 1)%Z |} else {| d_m := m; d_e := e |}.

Definition dmul1000 (x : dbl) : dbl :=
  match d_e x with
  | Z0 => rne (d_m x * 1000) 1
  | Zpos p => rne (N.shiftl (d_m x * 1000) (Npos p)) 1
  | Zneg p => rne (d_m x * 1000) (N.shiftl 1 (Npos p))
  end.

Definition dtrunc (x : dbl) : N :=
  match d_e x with
  | Z0 => d_m x
  | Zpos p => N.shiftl (d_m x) (Npos p)
  | Zneg p => N.shiftr (d_m x) (Npos p)
  end.

Definition dbl_to_u32 (dv : dp_variant) (x : dbl) : dp_result :=
  let t := dtrunc x in if t <=? umax dv then DpMs t else DpUB.

(* ---------- strTo<double> : num_get::_M_extract_float, then strtod on what was extracted ---------- *)
(* what the extraction accepted: integer digits, fraction digits, exponent (sign, digits), and
   whether a '.', an 'e' were seen *)
Record fext := { fx_int : bytes; fx_dot : bool; fx_frac : bytes; fx_e : bool; fx_eneg : bool; fx_exp : bytes }.

Definition extract_float (v : bytes) : fext :=
  let ip := take_digits v in
  let r1 := drop_digits v in
  let '(dot, fp, r2) :=
    match r1 with
    | 46 :: r => (true, take_digits r, drop_digits r)
    | _ => (false, [], r1)
    end in
  let mant := match ip, fp with [], [] => false | _, _ => true end in
  match r2 with
  | c :: r =>
      if ((c =? 101) || (c =? 69)) && mant then
        let '(eneg, r3) := match r with
                           | 43 :: r' => (false, r')
                           | 45 :: r' => (true, r')
                           | _ => (false, r)
                           end in
        {| fx_int := ip; fx_dot := dot; fx_frac := fp; fx_e := true; fx_eneg := eneg; fx_exp := take_digits r3 |}
      else {| fx_int := ip; fx_dot := dot; fx_frac := fp; fx_e := false; fx_eneg := false; fx_exp := [] |}
  | [] => {| fx_int := ip; fx_dot := dot; fx_frac := fp; fx_e := false; fx_eneg := false; fx_exp := [] |}
  end.

(* strtod must consume all of the extracted text: at least one mantissa digit, and if an 'e' was
   extracted it must be followed by a digit; otherwise the stream fails and the result is 0.0 *)
Definition pow10 (k : N) : N := 10 ^ k.
Definition parse_double (v : bytes) : option dbl :=
  match drop_ws v with [] => None | _ => Some (
  let x := extract_float (drop_ws v) in
  match fx_int x, fx_frac x with
  | [], [] => {| d_m := 0; d_e := 0 |}
  | _, _ =>
      if fx_e x && match fx_exp x with [] => true | _ => false end then {| d_m := 0; d_e := 0 |} else
      let mant := digits_val 0 (fx_int x ++ fx_frac x) in
      let fl := N.of_nat (length (fx_frac x)) in
      let ex := digits_val 0 (fx_exp x) in
      (* value = mant * 10^(+-ex - fl) *)
      if fx_eneg x then rne mant (pow10 (fl + ex))
      else if fl <=? ex then rne (mant * pow10 (ex - fl)) 1
      else rne mant (pow10 (fl - ex))
  end) end.

(* ---------- processSend ---------- *)
Definition u_ms : bytes := [109; 115].
Definition u_s : bytes := [115].

Definition delay_parse (dv : dp_variant) (s : bytes) : dp_result :=
  match s with
  | [] => DpMs 0                                        (* delay.size() == 0 *)
  | _ =>
      let na := num_attr s in
      let uninit := if dpv_init dv then DpMs 0 else DpUninit in
      let as_ms := match parse_u32 dv (na_value na) with Some n => DpMs n | None => uninit end in
      if ieq_bytes (na_unit na) u_ms then as_ms
      else if ieq_bytes (na_unit na) u_s then
        match parse_double (na_value na) with
        | Some d => dbl_to_u32 dv (dmul1000 d)
        | None => uninit
        end
      else match na_unit na with
           | [] => as_ms                                (* unit-less: milliseconds *)
           | _ => DpMs 0                                (* error logged, delayMs stays 0 *)
           end
  end.

(* ---------- specification: CSS2 <time> as used by SCXML 1.0 (6.2.4: delay) ---------- *)
(* number := digit+ | digit* '.' digit+ ;  time := number ('s' | 'ms');  uscxml documents the
   unit-less form as milliseconds.  The meaning is the exact rational; the oracle compares the
   whole milliseconds, floor(value in ms). *)
Inductive dunit := UnitMs | UnitS | UnitNone.
Record dspec := { ds_int : bytes; ds_frac : bytes; ds_unit : dunit }.

Definition all_digits (l : bytes) : bool := forallb is_digit l.

Definition parse_spec (s : bytes) : option dspec :=
  let ip := take_digits s in
  let r1 := drop_digits s in
  let '(fp, hasdot, r2) :=
    match r1 with
    | 46 :: r => (take_digits r, true, drop_digits r)
    | _ => ([], false, r1)
    end in
  let okn := if hasdot then match fp with [] => false | _ => true end
             else match ip with [] => false | _ => true end in
  if negb okn then None else
  match r2 with
  | [] => Some {| ds_int := ip; ds_frac := fp; ds_unit := UnitNone |}
  | [115] => Some {| ds_int := ip; ds_frac := fp; ds_unit := UnitS |}
  | [109; 115] => Some {| ds_int := ip; ds_frac := fp; ds_unit := UnitMs |}
  | _ => None
  end.

(* floor of the value in milliseconds *)
Definition spec_ms (d : dspec) : N :=
  let mant := digits_val 0 (ds_int d ++ ds_frac d) in
  let fl := N.of_nat (length (ds_frac d)) in
  match ds_unit d with
  | UnitS => (mant * 1000) / pow10 fl
  | _ => mant / pow10 fl
  end.

Definition delay_spec (s : bytes) : option N := option_map spec_ms (parse_spec s).
