(* RunConformInitialEntry.v -- C01 on charts with <initial> elements and deep / multiple initial attributes: the
   entry set of one microstep.  Appendix D's computeEntrySet (Spec.compute_entry_set) and LargeMicroStep's
   ESTABLISH_ENTRYSET (Large.entry_set) are instantiated with the contexts "domain of a selected transition with
   its targets"; both compute RunConformInitialBase.D, hence the same set; statesForDefaultEntry corresponds to the
   <initial> transitions the engine collects.  Proofs only. *)
From V Require Import Base NameMatch Chart Exec Large LargeLemmas Spec Legal SetLemmas LegalAbstract LegalLarge
  LegalHistBase LegalHistEntry LegalHistStep MicroConformEntry RunConformInitialBase RunConformInitialSpec RunConformInitialEngine.
Local Open Scope nat_scope.

Section MEntry.
Variable c : fchart.
Let n := nstates c.
Let par (i : nat) := fs_parent (st c i).
Let ch (i : nat) := fs_children (st c i).
Let kd (i : nat) := fs_type (st c i).
Let cpl (i : nat) := fs_completion (st c i).
Notation Anc := (LegalAbstract.Anc par).
Notation pseudo := (pseudoS c).

Hypothesis W : WFH c.
Hypothesis Hnh : forall i, histS c i = false.
Hypothesis HcplOK : CplOK c.
Hypothesis HcplAnti : CplAnti c.
Hypothesis HtgAnti : TgAnti c.
Hypothesis HtgProper : TgProper c.
Hypothesis root_compound : kd 0 = FCompound.

Variable cfg sel : list nat.
Variable h : hv.
Variable hist : list nat.
Hypothesis Hleg : LegalH c (fun x => In x cfg).
Hypothesis Hbound : forall x, In x cfg -> x < n.
Hypothesis Hprop : forall x, In x cfg -> pseudo x = false.
Hypothesis Hsel_src : forall ti, In ti sel -> In (ft_source (tr c ti)) cfg.
Hypothesis Hsel_ok : pairwise_ok lg_fixed c sel.
Hypothesis HH : HistOK c hist.
Hypothesis Hdom : forall ti, In ti sel -> transition_domain c h (tr c ti) = domain c (tr c ti).

Notation X := (LegalLarge.exitset c cfg sel).
Notation TG := (LegalLarge.targets c sel).
Notation IC := (LegalHistBase.IC c).

(* the contexts of the microstep *)
Definition Bm (d : nat) (G : list nat) : Prop :=
  exists ti, In ti sel /\ domain c (tr c ti) = Some d /\ G = ft_targets (tr c ti).

Lemma HB1m r G : Bm r G -> GoodCtx c r G.
Proof.
  intros (ti & Hti & Hd & ->).
  destruct (hdomain_spec c W ti r (Hbound _ (Hsel_src ti Hti)) Hd) as (Hne & Hk & Htg & _).
  constructor.
  - destruct Hk as [Hk| ->]; [exact Hk | exact root_compound].
  - exact Hne.
  - exact Htg.
  - intros g Hg. exact (HtgProper ti g Hg).
  - exact (wh_target_sets c W ti).
  - intros g1 g2. apply HtgAnti.
Qed.

Lemma HB2m r G r' G' : Bm r G -> Bm r' G' -> (r = r' /\ G = G') \/ (r <> r' /\ ~ Anc r r' /\ ~ Anc r' r).
Proof.
  intros (t1 & H1 & Hd1 & ->) (t2 & H2 & Hd2 & ->). destruct (Nat.eq_dec t1 t2) as [->|Hne].
  - left. split; congruence.
  - right. exact (HDm_unrelated c W cfg sel Hleg Hbound Hprop Hsel_src Hsel_ok t1 t2 r r' H1 H2 Hne Hd1 Hd2).
Qed.

Lemma n_pos : 0 < n.
Proof. apply Hbound. exact (lg_root _ _ _ _ Hleg). Qed.

(* ------------------------------------------------------------------ Appendix D *)

Lemma eff_h tgl x : In x (eff_targets c (Spec.n c) h tgl) <-> In x tgl.
Proof.
  unfold Spec.n. pose proof n_pos as Hn. unfold n in Hn. destruct (nstates c) as [|m]; [lia|]. cbn [eff_targets].
  assert (Hg : forall l acc, In x (fold_left (fun acc0 s => if is_history_state c s
                                     then match hv_get h s with
                                          | Some v => unionn acc0 v
                                          | None => match pseudo_trans c s with
                                                    | Some t => unionn acc0 (eff_targets c m h (ft_targets t))
                                                    | None => acc0
                                                    end
                                          end
                                     else addn s acc0) l acc) <-> In x acc \/ In x l).
  { induction l as [|y l IH]; intros acc; cbn [fold_left]; [cbn; tauto|].
    rewrite (hist_false_h c Hnh), IH, me_In_addn. cbn [In]. intuition. }
  rewrite Hg. cbn [In]. tauto.
Qed.

Definition estep (e : eset) (ti : nat) : eset :=
  let t := tr c ti in
  let e1 := fold_left (fun e s => add_descendants c (spec_fuel c) h s e) (ft_targets t) e in
  let anc := transition_domain c h t in
  fold_left (fun e s => add_ancestors c (spec_fuel c) h s anc e) (eff_targets c (Spec.n c) h (ft_targets t)) e1.

Lemma compute_entry_set_fold : compute_entry_set c h sel =
  fold_left estep sel {| e_enter := []; e_default := []; e_histcontent := [] |}.
Proof. reflexivity. Qed.

Notation GIm := (GI c Bm (fun _ => False)).

Lemma estep_ok ti e : In ti sel -> GIm e ->
  GIm (estep e ti) /\ ext e (estep e ti) /\
  forall d y, domain c (tr c ti) = Some d -> IC d (ft_targets (tr c ti)) y -> In y (e_enter (estep e ti)).
Proof.
  intros Hti HG. unfold estep. cbn zeta. rewrite (Hdom ti Hti).
  destruct (ft_targets (tr c ti)) as [|g0 tg'] eqn:Htg.
  - assert (He : eff_targets c (Spec.n c) h [] = []).
    { destruct (eff_targets c (Spec.n c) h []) as [|y l] eqn:E; [reflexivity|].
      exfalso. apply (proj1 (eff_h [] y)). rewrite E. now left. }
    rewrite He. cbn [fold_left]. split; [exact HG|]. split; [apply ext_refl|].
    intros d y _ [_ (g & [] & _)].
  - rewrite <- Htg in *. destruct (hdomain_some c ti) as (d & Hd); [rewrite Htg; discriminate|]. rewrite Hd.
    assert (Hb : Bm d (ft_targets (tr c ti))) by (exists ti; auto).
    pose proof (ctx_enter_ok c W Hnh HcplOK HcplAnti HtgAnti Bm HB1m HB2m h d (ft_targets (tr c ti))
                  (eff_targets c (Spec.n c) h (ft_targets (tr c ti))) e Hb (eff_h (ft_targets (tr c ti))) HG) as (A & B' & C).
    split; [exact A|]. split; [exact B'|]. intros d' y Hd' Hy. injection Hd' as <-. now apply C.
Qed.

Lemma spec_fold_ok l : forall e, (forall ti, In ti l -> In ti sel) -> GIm e ->
  GIm (fold_left estep l e) /\ ext e (fold_left estep l e) /\
  forall ti d y, In ti l -> domain c (tr c ti) = Some d -> IC d (ft_targets (tr c ti)) y -> In y (e_enter (fold_left estep l e)).
Proof.
  induction l as [|ti rr IH]; intros e Hl HG; cbn [fold_left].
  - split; [exact HG|]. split; [apply ext_refl | intros ti d y []].
  - destruct (estep_ok ti e (Hl ti (or_introl eq_refl)) HG) as (A1 & B1 & C1).
    destruct (IH (estep e ti) (fun z Hz => Hl z (or_intror Hz)) A1) as (A & B' & C).
    split; [exact A|]. split; [eapply ext_trans; eauto|].
    intros tj d y [<-|Htj] Hd Hy; [apply (proj1 B'); exact (C1 d y Hd Hy) | exact (C tj d y Htj Hd Hy)].
Qed.

Notation ES := (compute_entry_set c h sel).

Lemma spec_GI : GIm ES /\ forall r G y, Bm r G -> IC r G y -> In y (e_enter ES).
Proof.
  rewrite compute_entry_set_fold.
  destruct (spec_fold_ok sel _ (fun ti H => H) (GI_empty c Bm)) as (A & _ & C).
  split; [exact A|]. intros r G y (ti & Hti & Hd & ->) Hy. exact (C ti r y Hti Hd Hy).
Qed.

Theorem spec_set x : In x (e_enter ES) <-> exists r G, D c Bm r G x.
Proof. destruct spec_GI as [A B']. exact (final_set c W Bm HB2m ES A B' x). Qed.

Theorem spec_default x : In x (e_default ES) <-> kd x = FCompound /\ exists r G, D c Bm r G x /\ NTG c x G.
Proof. destruct spec_GI as [A B']. exact (final_default c W Bm HB2m ES A B' x). Qed.

Theorem spec_hc : e_histcontent ES = [].
Proof. destruct spec_GI as [A _]. exact (gi_hc _ _ _ _ A). Qed.

(* ------------------------------------------------------------------ the engine *)

Lemma Low_dom x : Low c Bm x <-> exists d, HDm c sel d /\ Anc d x.
Proof.
  split.
  - intros (r & G & (ti & Hti & Hd & _) & Ha). exists r. split; [exists ti; auto | exact Ha].
  - intros (d & (ti & Hti & Hd) & Ha). exists d, (ft_targets (tr c ti)). split; [exists ti; auto | exact Ha].
Qed.

Definition lowb (x : nat) : bool :=
  existsb (fun ti => match domain c (tr c ti) with Some d => mem d (fs_ancestors (st c x)) | None => false end) sel.

Lemma lowb_spec x : lowb x = true <-> Low c Bm x.
Proof.
  rewrite Low_dom. unfold lowb. rewrite existsb_exists. split.
  - intros (ti & Hti & Hm). destruct (domain c (tr c ti)) as [d|] eqn:Hd; [|discriminate].
    exists d. split; [exists ti; auto|]. apply (wh_anc c W). now apply mem_In.
  - intros (d & (ti & Hti & Hd) & Ha). exists ti. split; [exact Hti|]. rewrite Hd. apply mem_In. now apply (wh_anc c W).
Qed.

Lemma HLm x : Low c Bm x \/ ~ Low c Bm x.
Proof. destruct (lowb x) eqn:E; [left; now apply lowb_spec | right; intros H; apply lowb_spec in H; congruence]. Qed.

Lemma tgb g : In g TG -> 0 < g /\ g < n.
Proof. exact (htargets_bound c W sel g). Qed.

Lemma E1m r G y : Bm r G -> IC r G y -> In y (HE0 c TG).
Proof.
  intros (ti & Hti & Hd & ->) [_ (g & Hg & Hon)]. apply (In_HE0 c W). exists g. split; [|exact Hon].
  apply hIn_targets. exists ti. auto.
Qed.

Lemma E2m x : In x (HE0 c TG) -> Low c Bm x -> exists r G, Bm r G /\ IC r G x.
Proof.
  intros Hx HL. apply (In_HE0 c W) in Hx as (g & Hg & Hon). apply hIn_targets in Hg as (ti & Hti & Hg).
  destruct (htarget_below_domain c W cfg sel Hbound Hsel_src ti g Hti Hg) as (d & Hd & Hdg).
  exists d, (ft_targets (tr c ti)). split; [exists ti; auto|]. split; [|exists g; auto].
  apply Low_dom in HL as (d' & (tj & Htj & Hd') & Ha').
  assert (Hnest : ~ Anc d' d).
  { intros Hn. destruct (Nat.eq_dec tj ti) as [->|Hne].
    - rewrite Hd in Hd'. injection Hd' as <-. exact (hanc_irrefl c W _ Hn).
    - destruct (HDm_unrelated c W cfg sel Hleg Hbound Hprop Hsel_src Hsel_ok tj ti d' d Htj Hti Hne Hd' Hd) as (_ & A & _). now apply A. }
  destruct Hon as [->|Hxg]; [exact Hdg|].
  destruct (hanc_chain c d x g Hdg Hxg) as [E|[E|E]]; [|exact E|].
  - exfalso. subst x. exact (Hnest Ha').
  - exfalso. apply Hnest. eapply hanc_trans; eauto.
Qed.

Lemma E3m x : In x (HE0 c TG) -> pseudo x = false.
Proof.
  intros Hx. apply (In_HE0 c W) in Hx as (g & Hg & Hon). apply hIn_targets in Hg as (ti & Hti & Hg).
  destruct Hon as [->|Ha]; [exact (HtgProper ti g Hg) | exact (anc_not_pseudo c W x g Ha)].
Qed.

Lemma E4m k : surv cfg X k -> ~ Low c Bm k.
Proof.
  intros [Hk Hx] HL. apply Hx. apply (hIn_exitset c W cfg sel Hleg Hbound Hprop Hsel_src). split; [exact Hk | now apply Low_dom].
Qed.

Lemma E6m j : QE5 c cfg sel j -> kd j = FCompound -> ~ Low c Bm j -> hblocked c cfg X (HE0 c TG) j.
Proof.
  intros [[Hjc Hjx]|HL] Hk Hnl; [|exfalso; apply Hnl; now apply Low_dom].
  destruct (hcfg_compound_ex c W cfg Hleg j Hjc Hk) as (k & Hpk & Hkc).
  destruct (in_dec Nat.eq_dec k X) as [Hkx|Hkx].
  2: { exists k. split; [now apply (wh_children c W) | right; split; assumption]. }
  apply (hIn_exitset c W cfg sel Hleg Hbound Hprop Hsel_src) in Hkx as [_ (d & HD & Hdk)].
  destruct (anc_child par _ _ _ Hpk Hdk) as [->|Hdj].
  - (* j is a domain: the child on the path to a target is in the start set *)
    destruct HD as (ti & Hti & Hd).
    destruct (hdomain_spec c W ti j (Hbound _ (Hsel_src ti Hti)) Hd) as (Hne & _ & Htg & _).
    destruct (ft_targets (tr c ti)) as [|g gs] eqn:E; [congruence|].
    destruct (hanc_child_on_path c j g (Htg g (or_introl eq_refl))) as (k' & Hpk' & Hon).
    exists k'. split; [now apply (wh_children c W)|]. left. apply (In_HE0 c W). exists g. split; [|exact Hon].
    apply hIn_targets. exists ti. rewrite E. split; [exact Hti | now left].
  - exfalso. apply Hjx. apply (hIn_exitset c W cfg sel Hleg Hbound Hprop Hsel_src). split; [exact Hjc|]. exists d. auto.
Qed.

Notation EF := (Efin c cfg X hist TG sel).
Notation TF := (Tfin c cfg X hist TG sel).

Notation eng f := (f c W Hnh HcplOK HcplAnti HtgAnti Bm HB1m HB2m cfg X hist TG sel tgb HH
  (HE0_uniq_step c W cfg sel Hleg Hbound Hprop Hsel_src Hsel_ok) (QE5 c cfg sel)
  (QE5_0 c W cfg sel Hleg Hbound Hprop Hsel_src Hsel_ok) (QE5_par c W cfg sel Hleg Hbound Hprop Hsel_src)
  (QE5_comp c W cfg sel Hleg Hbound Hprop Hsel_src) (QE5_pseudo c cfg sel Hprop)
  E1m E2m E3m E4m E6m HLm).

Definition Surv (x : nat) : Prop := In x cfg /\ ~ In x X.

(* (1) the states Appendix D enters are the proper states of the engine's entry set that do not survive the exit *)
Theorem entry_set_conforms_initial_sec x :
  In x (e_enter ES) <-> In x EF /\ pseudo x = false /\ ~ Surv x.
Proof.
  rewrite spec_set. split.
  - intros (r & G & HD). split; [exact (eng engine_complete r G x HD)|].
    split; [exact (D_proper c W HcplOK HcplAnti HtgAnti Bm HB1m r G x HD)|].
    intros Hs. exact (E4m x Hs (Low_D c Bm r G x HD)).
  - intros (Hx & Hp & Hs). apply (eng engine_sound x Hx Hp).
    destruct (eng inv_fin) as [HF _]. destruct (hi_Q _ _ _ _ _ _ _ HF x Hx) as [H|H]; [contradiction | now apply Low_dom].
Qed.

(* (2) the transition set: the selected transitions and the transitions of the <initial> children of the compound
   states that Appendix D enters by default *)
Hypothesis Hsel_np : forall ti, In ti sel -> ft_history (tr c ti) || ft_initial (tr c ti) = false.

Theorem trans_set_conforms_initial_sec i x ti : In i (e_enter ES) -> par x = Some i -> pseudo x = true ->
  In ti (fs_trans (st c x)) -> (In ti TF <-> In i (e_default ES) /\ cpl i = [x]).
Proof.
  intros Hi Hpx Hps Hti.
  assert (Hkx : kd x = FInitial).
  { pose proof (Hnh x) as Hh. unfold pseudoS, is_pseudo in Hps. unfold histS, is_hist in Hh. unfold kd.
    destruct (fs_type (st c x)); try discriminate; reflexivity. }
  rewrite (eng engine_ts ti). split.
  - intros [Hs|(x' & Hx' & Hk' & Hin')].
    + exfalso. pose proof (Hsel_src ti Hs) as Hsrc. rewrite (wh_tr_src c W x ti Hti) in Hsrc.
      rewrite (Hprop x Hsrc) in Hps. discriminate.
    + assert (x' = x) by (rewrite <- (wh_tr_src c W x' ti Hin'); exact (wh_tr_src c W x ti Hti)). subst x'.
      destruct (proj1 (eng engine_pseudo x) (conj Hx' Hps)) as (q & r & G & A1 & A2 & _ & A4 & A5 & A6).
      fold (par x) in A1. rewrite Hpx in A1. injection A1 as <-. split; [|exact A2].
      apply spec_default. split; [exact A6|]. exists r, G. auto.
  - intros [Hd Hc]. right. exists x. split; [|auto].
    apply spec_default in Hd as (Hk & r & G & HD & Hn).
    apply (proj2 (eng engine_pseudo x)). exists i, r, G. auto 8.
Qed.

(* the engine's entry set is sorted and bounded; its proper states with the survivors form a legal configuration
   (LegalHistStep.microstep_sets_legal_h) *)
Lemma EF_bound x : In x EF -> x < n.
Proof. destruct (eng inv_fin) as [HF _]. exact (hi_bound _ _ _ _ _ _ _ HF x). Qed.

End MEntry.
