(* ValidateBridgePseudo.v -- from the facts about the (resorted) document tree (ValidateBridge.FlatHyp) to the
   clauses of LegalHistWf.wf_histb about pseudo-states: leaves below compound states, the transition of
   <initial>, the default transition of <history>, the completion (value set) of a history and the disjointness
   of the value sets of histories with different parents.  Proofs only. *)
From V Require Import Base NameMatch Chart Exec Large Legal SetLemmas Tables TreeLemmas LargeCacheLemmas WfCore LegalHistWf
     FlattenWf FlattenWfTree FlattenWfStruct FlattenWfKinds FlattenWfLemmas FlattenWfSideLemmas
     ValidateBridge ValidateBridgeRows ValidateBridgeFlat.
Local Open Scope nat_scope.

Lemma type_initial u : type_of u = FInitial -> t_kind u = KInitial.
Proof. pose proof (type_of_kind u) as H. destruct (t_kind u); rewrite H; try discriminate; try reflexivity; destruct (has_proper_child u); discriminate. Qed.

Lemma type_deep u : is_deep (type_of u) = is_deep_kind (t_kind u).
Proof. pose proof (type_of_kind u) as H. destruct (t_kind u); rewrite H; try reflexivity; destruct (has_proper_child u); reflexivity. Qed.

Lemma tprop_pseudo w : tprop w = negb (is_pseudo_kind (t_kind w)). Proof. reflexivity. Qed.

Lemma hist_disjoint_spec t : vb_hist_disjointb t = true ->
  forall q h w k, In q (subtrees t) -> In h (t_kids q) -> is_deep_kind (t_kind h) = true ->
    In w (tbelow q) -> In k (t_kids w) -> is_hist_kind (t_kind k) = false.
Proof.
  unfold vb_hist_disjointb. intros H q h w k Hq Hh Hd Hw Hk. rewrite forallb_forall in H. specialize (H q Hq).
  assert (E : existsb (fun k0 => is_deep_kind (t_kind k0)) (t_kids q) = true) by (apply existsb_exists; exists h; auto).
  rewrite E in H. rewrite forallb_forall in H. specialize (H w Hw). rewrite forallb_forall in H. specialize (H k Hk).
  now apply negb_true_iff in H.
Qed.

Section Pseudo.
Variable late : bool.
Variable t0 : tree.
Local Notation root := (resort t0).
Local Notation c := (flatten late t0).
Local Notation n := (tsize (resort t0)).
Local Notation nodes := (nodes_of (resort t0)).
Local Notation ids := (fl_ids t0).
Hypothesis FH : FlatHyp root.
Let V := fh_v root FH.
Let U := fh_u root FH.

Let f_in := f_in t0.
Let f_kd := f_kd late t0.
Let f_ch := f_ch late t0.

Lemma h_parent i : i < n -> fs_parent (st c i) = npar nodes i.
Proof. intros Hi. now destruct (g_st late t0 i Hi) as (_ & _ & _ & _ & E & _). Qed.

Lemma h_nth j d : j < n -> nth j (doc_nodes root 0 None) d = (ntree nodes j, npar nodes j).
Proof.
  intros Hj. rewrite (nth_indep _ d (root, None)) by (rewrite doc_nodes_length; exact Hj). now apply nth_nodes_ntree.
Qed.

Lemma h_root_kind : t_kind root = KScxml. Proof. now destruct (vb_docb_parts root (fh_doc root FH)). Qed.

Lemma h_pseudo_pos i : i < n -> is_pseudo_kind (t_kind (ntree nodes i)) = true -> 0 < i.
Proof.
  intros Hi Hp. destruct i as [|i]; [|lia]. exfalso. rewrite (f_root_node t0), h_root_kind in Hp. discriminate.
Qed.

Lemma h_leaf i : i < n -> is_pseudo_kind (t_kind (ntree nodes i)) = true -> t_kids (ntree nodes i) = [] /\ tsize (ntree nodes i) = 1.
Proof.
  intros Hi Hp. pose proof (vt_pseudo_no_kids root V _ (f_in i Hi) Hp) as E. split; [exact E|]. rewrite tsize_unfold, E. reflexivity.
Qed.

(* a pseudo-state child of q comes before every proper state below q *)
Lemma h_before_proper q i g : i < n -> fs_parent (st c i) = Some q -> is_pseudo_kind (t_kind (ntree nodes i)) = true ->
  q < g < q + tsize (ntree nodes q) -> g < n -> tprop (ntree nodes g) = true -> i < g.
Proof.
  intros Hi Hp Hps Hg Hgn Pg. destruct (g_parent_kid late t0 i q Hi Hp) as (Hq & _ & j & Hj & Ei).
  destruct (g_below t0 q g Hq Hg) as (j' & kid' & Hj' & Hr). cbn zeta in Hr.
  destruct (g_kid late t0 q j' kid' Hq Hj') as (Hb' & Ek' & _). cbn zeta in Hb', Ek'.
  destruct (h_leaf i Hi Hps) as [_ Hsz].
  assert (Hleafkid : is_pseudo_kind (t_kind kid') = true -> False).
  { intros Hpk. rewrite <- Ek' in Hpk. destruct (h_leaf _ Hb' Hpk) as [_ Hsz']. rewrite <- Ek' in Hr.
    assert (g = S q + tsize_list (firstn j' (t_kids (ntree nodes q)))) by lia. subst g.
    rewrite tprop_pseudo, Hpk in Pg. discriminate. }
  destruct (Nat.lt_trichotomy j j') as [Hlt|[->|Hgt]].
  - pose proof (firstn_tsize_mono _ j j' _ Hlt Hj). lia.
  - exfalso. rewrite Hj in Hj'. inversion Hj' as [E']. apply Hleafkid. rewrite <- E'. exact Hps.
  - exfalso. apply Hleafkid.
    pose proof (fh_sorted root FH _ (f_in q Hq) j j' _ _ Hj Hj') as S.
    destruct (is_pseudo_kind (t_kind kid')) eqn:E; [reflexivity|]. exfalso.
    assert (krank (t_kind (ntree nodes i)) < krank (t_kind kid')); [|specialize (S H); lia].
    destruct (t_kind (ntree nodes i)); try discriminate; destruct (t_kind kid'); try discriminate; cbn; lia.
Qed.

(* ---- leaves, parents *)
Lemma h_pseudo_leaf : whb_pseudo_leaf c = true.
Proof.
  unfold whb_pseudo_leaf. rewrite (g_nstates late t0). apply fseq. intros i Hi. rewrite (f_kd i Hi), type_pseudo.
  destruct (is_pseudo_kind _) eqn:E; [|reflexivity]. rewrite (f_ch i Hi). destruct (h_leaf i Hi E) as [-> _]. reflexivity.
Qed.

(* the transition of a pseudo-state child h of p: one transition, a non-empty target list of proper states below p *)
Lemma h_pseudo_trans p h : In p (subtrees root) -> In h (t_kids p) -> is_pseudo_kind (t_kind h) = true ->
  exists x l, t_trans h = [x] /\ tt_targets x = Some l /\ l <> [] /\ (forall s, In s l -> In s (psids_below p)) /\
              (is_hist_kind (t_kind h) = true -> is_deep_kind (t_kind h) = false -> forall s, In s l -> In s (vsids_kids p)).
Proof.
  intros Hp Hh Hps. destruct (vb_sideb_parts root (fh_side root FH)) as (_ & _ & IP & _).
  assert (Hhs : In h (subtrees root)) by (eapply subtrees_trans; [exact Hp|]; eapply subtrees_kid; [exact Hh | apply subtrees_self]).
  destruct (is_hist_kind (t_kind h)) eqn:Eh.
  - destruct (vt_history root V p h Hp Hh Eh) as (x & l & Ex & El & _ & _ & Hs & Hpr). exists x, l. split; [exact Ex|]. split; [exact El|].
    destruct (vt_targets root V h x l Hhs ltac:(rewrite Ex; now left) El) as (Hne & _). split; [exact Hne|]. split.
    + exact Hpr.
    + intros _ Hnd s Hsl. specialize (Hs s Hsl). now rewrite Hnd in Hs.
  - assert (Hk : t_kind h = KInitial) by (destruct (t_kind h); try discriminate; reflexivity).
    destruct (vt_initial root V p h Hp Hh Hk) as (x & l & Ex & El & _ & _ & Hs). exists x, l. split; [exact Ex|]. split; [exact El|].
    destruct (vt_targets root V h x l Hhs ltac:(rewrite Ex; now left) El) as (Hne & _). split; [exact Hne|]. split.
    + intros s Hsl. eapply (pseudo_proper_spec is_initial_kind root IP p h x l s); eauto; [now rewrite Hk | rewrite Ex; now left].
    + discriminate.
Qed.

Lemma h_pseudo_parent_row i : i < n -> is_pseudo_kind (t_kind (ntree nodes i)) = true ->
  exists q, fs_parent (st c i) = Some q /\ q < n /\ fs_type (st c q) = FCompound /\ In (ntree nodes i) (t_kids (ntree nodes q)).
Proof.
  intros Hi Hps. destruct (g_parent_some late t0 i Hi (h_pseudo_pos i Hi Hps)) as [q Hq]. exists q. split; [exact Hq|].
  destruct (g_parent_kid late t0 i q Hi Hq) as (Hqn & _ & j & Hj & _). split; [exact Hqn|].
  set (p := ntree nodes q) in *. set (h := ntree nodes i) in *. assert (Hh : In h (t_kids p)) by (eapply nth_error_In; exact Hj).
  split; [|exact Hh]. rewrite (f_kd q Hqn). fold p.
  assert (Hp : In p (subtrees root)) by (now apply f_in).
  destruct (h_pseudo_trans p h Hp Hh Hps) as (x & l & _ & _ & Hne & Hpr & _).
  destruct l as [|s r]; [congruence|]. specialize (Hpr s (or_introl eq_refl)). unfold psids_below in Hpr.
  apply in_map_iff in Hpr as (w & _ & Hw). apply filter_In in Hw as [Hw Pw].
  pose proof (proper_below_child root V p w Hp Hw Pw) as Hpc.
  pose proof (vt_nest root V p h Hp Hh) as N. unfold kid_okb in N.
  destruct (vb_sideb_parts root (fh_side root FH)) as (_ & HP & _). unfold vb_hist_parentb in HP. rewrite forallb_forall in HP.
  specialize (HP p Hp). pose proof (type_of_kind p) as T.
  destruct (t_kind p) eqn:Ek; try (destruct (t_kind h); discriminate).
  - rewrite T, Hpc. reflexivity.
  - rewrite forallb_forall in HP. specialize (HP h Hh). destruct (t_kind h); discriminate.
Qed.

Lemma h_pseudo_parent : whb_pseudo_parent c = true.
Proof.
  unfold whb_pseudo_parent. rewrite (g_nstates late t0). apply fseq. intros i Hi. rewrite (f_kd i Hi), type_pseudo.
  destruct (is_pseudo_kind _) eqn:E; [|reflexivity]. destruct (h_pseudo_parent_row i Hi E) as (q & Hq & _ & Hc & _).
  rewrite Hq, Hc. reflexivity.
Qed.

(* ---- the transition of a pseudo-state, as a row *)
Lemma h_pseudo_row i : i < n -> is_pseudo_kind (t_kind (ntree nodes i)) = true ->
  exists q x l ti, fs_parent (st c i) = Some q /\ q < n /\ In (ntree nodes i) (t_kids (ntree nodes q)) /\
    fs_trans (st c i) = [ti] /\ ft_targets (tr c ti) = filter_map (nat_of_sid ids) l /\
    t_trans (ntree nodes i) = [x] /\ tt_targets x = Some l /\ l <> [] /\
    (forall s, In s l -> exists g, nat_of_sid ids s = Some g /\ q < g < q + tsize (ntree nodes q) /\ g < n /\ tprop (ntree nodes g) = true) /\
    (is_hist_kind (t_kind (ntree nodes i)) = true -> is_deep_kind (t_kind (ntree nodes i)) = false ->
       forall s g, In s l -> nat_of_sid ids s = Some g -> fs_parent (st c g) = Some q).
Proof.
  intros Hi Hps. destruct (h_pseudo_parent_row i Hi Hps) as (q & Hq & Hqn & _ & Hh). exists q.
  destruct (h_pseudo_trans _ _ (f_in q Hqn) Hh Hps) as (x & l & Ex & El & Hne & Hpr & Hsh). exists x, l.
  pose proof (g_fs_trans_length late t0 i Hi) as Hlen. rewrite Ex in Hlen. cbn [length] in Hlen.
  destruct (fs_trans (st c i)) as [|ti [|ti' r]] eqn:Et; try discriminate. exists ti.
  destruct (g_fs_trans late t0 i ti Hi ltac:(rewrite Et; now left)) as (_ & x' & Hx' & Etr). rewrite Ex in Hx'.
  destruct Hx' as [<-|[]]. repeat split; try assumption.
  - rewrite Etr. cbn [mk_trans ft_targets]. now rewrite El.
  - intros s Hs. destruct (g_resolve_below t0 U tprop q s Hqn (Hpr s Hs)) as (g & Hr & Hg & Hgn & Pg & _). exists g. auto.
  - intros Hhk Hnd s g Hs Hr. destruct (g_resolve_kid late t0 U tvis q s Hqn (Hsh Hhk Hnd s Hs)) as (g' & Hr' & _ & Hp' & _).
    rewrite Hr in Hr'. inversion Hr'; subst g'. exact Hp'.
Qed.

Lemma h_not_pseudo g : g < n -> tprop (ntree nodes g) = true -> is_pseudo (fs_type (st c g)) = false.
Proof. intros Hg Pg. rewrite (f_kd g Hg), type_pseudo. rewrite tprop_pseudo in Pg. now apply negb_true_iff in Pg. Qed.

Lemma h_initial : whb_initial c = true.
Proof.
  unfold whb_initial. rewrite (g_nstates late t0). apply fseq. intros i Hi.
  destruct (fs_type (st c i)) eqn:Ety; try reflexivity. rewrite (f_kd i Hi) in Ety. apply type_initial in Ety.
  assert (Hps : is_pseudo_kind (t_kind (ntree nodes i)) = true) by (now rewrite Ety).
  destruct (h_pseudo_row i Hi Hps) as (q & x & l & ti & Hq & Hqn & _ & Et & Etg & _ & _ & Hne & Hres & _).
  rewrite Hq, Et, Etg. apply andb_true_iff. split.
  - destruct l as [|s r]; [congruence|]. destruct (Hres s (or_introl eq_refl)) as (g & Hr & _). cbn [filter_map]. now rewrite Hr.
  - apply forallb_forall. intros g Hg. apply In_filter_map in Hg as (s & Hs & Hr).
    destruct (Hres s Hs) as (g' & Hr' & Hrange & Hgn & Pg). rewrite Hr in Hr'. inversion Hr'; subst g'.
    rewrite (proj2 (g_anc late t0 q g Hqn Hgn) Hrange), (h_not_pseudo g Hgn Pg). cbn [andb negb]. rewrite andb_true_r.
    apply Nat.ltb_lt. eapply h_before_proper; eauto.
Qed.

Lemma h_hist_default : whb_hist_default c = true.
Proof.
  unfold whb_hist_default. rewrite (g_nstates late t0). apply fseq. intros i Hi.
  destruct (is_hist (fs_type (st c i))) eqn:Eh; [|reflexivity]. rewrite (f_kd i Hi), type_hist in Eh.
  assert (Hps : is_pseudo_kind (t_kind (ntree nodes i)) = true) by (destruct (t_kind (ntree nodes i)); try discriminate; reflexivity).
  destruct (h_pseudo_row i Hi Hps) as (q & x & l & ti & Hq & Hqn & _ & Et & Etg & _ & _ & Hne & Hres & Hsh).
  rewrite Hq, Et, Etg. apply andb_true_iff. split.
  - destruct l as [|s r]; [congruence|]. destruct (Hres s (or_introl eq_refl)) as (g & Hr & _). cbn [filter_map]. now rewrite Hr.
  - apply forallb_forall. intros g Hg. apply In_filter_map in Hg as (s & Hs & Hr).
    destruct (Hres s Hs) as (g' & Hr' & Hrange & Hgn & Pg). rewrite Hr in Hr'. inversion Hr'; subst g'.
    rewrite (h_not_pseudo g Hgn Pg). cbn [negb]. rewrite andb_true_r.
    apply andb_true_iff. split; [apply Nat.ltb_lt; eapply h_before_proper; eauto|].
    rewrite (f_kd i Hi), type_deep. destruct (is_deep_kind _) eqn:Ed.
    + exact (proj2 (g_anc late t0 q g Hqn Hgn) Hrange).
    + rewrite (Hsh Eh eq_refl s g Hs Hr). cbn [opt_eqb]. apply Nat.eqb_refl.
Qed.

(* ---- the value set of a history *)
Lemma h_block_end q : q < n -> q + tsize (ntree nodes q) <= n.
Proof.
  intros Hq. destruct (tree_interval_flatten late t0) as (_ & Hs & _). destruct (Hs q Hq) as [_ H].
  destruct (g_st late t0 q Hq) as (_ & _ & Es & _). now rewrite Es in H.
Qed.

Lemma h_cpl_mem i q x : i < n -> is_hist_kind (t_kind (ntree nodes i)) = true -> fs_parent (st c i) = Some q -> q < n ->
  (In x (fs_completion (st c i)) <->
   x < n /\ is_hist_kind (t_kind (ntree nodes x)) = false /\
   if is_deep_kind (t_kind (ntree nodes i)) then q < x < q + tsize (ntree nodes q) else fs_parent (st c x) = Some q).
Proof.
  intros Hi Hh Hq Hqn. rewrite (f_completion late t0 i Hi). unfold completion_of. rewrite <- (h_parent i Hi), Hq.
  pose proof (h_block_end q Hqn) as Hend. pose proof (tsize_pos (ntree nodes q)) as Hpos.
  destruct (t_kind (ntree nodes i)) eqn:Ek; try discriminate; cbn [is_deep_kind].
  - (* shallow *)
    rewrite In_filter_map. rewrite doc_nodes_length. split.
    + intros (j & Hj & E). apply in_seq in Hj. assert (Hjn : j < n) by lia. rewrite (h_nth j _ Hjn) in E.
      rewrite <- (h_parent j Hjn) in E. destruct (fs_parent (st c j)) as [pj|] eqn:Ep; [|discriminate].
      destruct ((pj =? q) && negb (is_hist_kind (t_kind (ntree nodes j)))) eqn:Eb; [|discriminate]. inversion E; subst x.
      apply andb_true_iff in Eb as [E1 E2]. apply Nat.eqb_eq in E1. subst pj. apply negb_true_iff in E2. auto.
    + intros (Hx & Hnh & Hp). exists x. split; [apply in_seq; lia|]. rewrite (h_nth x _ Hx), <- (h_parent x Hx), Hp, Nat.eqb_refl, Hnh. reflexivity.
  - (* deep *)
    rewrite filter_In, in_seq. rewrite (h_nth q _ Hqn). cbn [fst]. split.
    + intros [Hr Hf]. assert (Hx : x < n) by lia. rewrite (h_nth x _ Hx) in Hf. cbn [fst] in Hf. apply negb_true_iff in Hf.
      split; [exact Hx|]. split; [exact Hf | lia].
    + intros (Hx & Hnh & Hr). split; [lia|]. rewrite (h_nth x _ Hx). cbn [fst]. now rewrite Hnh.
Qed.

Lemma h_anc_row x p : x < n -> fs_parent (st c x) = Some p ->
  fs_ancestors (st c x) = insert_sorted p (fs_ancestors (st c p)).
Proof.
  intros Hx Hp. pose proof (fl_anc late t0) as A. unfold wfb_anc in A. rewrite (g_nstates late t0) in A.
  rewrite fseq in A. specialize (A x Hx). apply list_eqb_eq in A. now rewrite Hp in A.
Qed.

(* q is an ancestor of x and p the parent of x: q = p or q is an ancestor of p *)
Lemma h_anc_parent q x p : q < n -> x < n -> fs_parent (st c x) = Some p -> q < x < q + tsize (ntree nodes q) ->
  q = p \/ q < p < q + tsize (ntree nodes q).
Proof.
  intros Hq Hx Hp Hr. destruct (g_parent_kid late t0 x p Hx Hp) as (Hpn & _).
  apply (g_anc late t0 q x Hq Hx) in Hr. rewrite (h_anc_row x p Hx Hp) in Hr. apply mem_In in Hr.
  apply In_insert_sorted' in Hr as [->|Hr]; [now left|]. right. apply (g_anc late t0 q p Hq Hpn). now apply mem_In.
Qed.

Lemma h_child_row q k : q < n -> In k (fs_children (st c q)) -> k < n /\ fs_parent (st c k) = Some q /\ q < k < q + tsize (ntree nodes q).
Proof.
  intros Hq Hk. rewrite (f_ch q Hq) in Hk. destruct (f_child_interval late t0 q k Hq Hk) as [Hkn Hr].
  apply child_indices_spec in Hk as (j & kid & Hj & ->). destruct (g_kid late t0 q j kid Hq Hj) as (_ & _ & Hp & _). auto.
Qed.

Lemma h_hist_cpl : whb_hist_cpl c = true.
Proof.
  unfold whb_hist_cpl. rewrite (g_nstates late t0). apply fseq. intros i Hi.
  destruct (is_hist (fs_type (st c i))) eqn:Eh; [|reflexivity]. rewrite (f_kd i Hi), type_hist in Eh.
  assert (Hps : is_pseudo_kind (t_kind (ntree nodes i)) = true) by (destruct (t_kind (ntree nodes i)); try discriminate; reflexivity).
  destruct (h_pseudo_parent_row i Hi Hps) as (q & Hq & Hqn & _ & _). rewrite Hq.
  pose proof (fun x => h_cpl_mem i q x Hi Eh Hq Hqn) as M.
  assert (Hblock : forall x, In x (fs_completion (st c i)) -> x < n /\ q < x < q + tsize (ntree nodes q) /\ is_hist_kind (t_kind (ntree nodes x)) = false).
  { intros x Hx. apply M in Hx as (Hxn & Hnh & Hc). split; [exact Hxn|]. split; [|exact Hnh].
    destruct (is_deep_kind _); [exact Hc|]. now destruct (g_parent_kid late t0 x q Hxn Hc) as (_ & Hr & _). }
  apply andb_true_iff. split.
  - apply forallb_forall. intros x Hx. destruct (Hblock x Hx) as (Hxn & Hr & Hnh).
    apply andb_true_iff. split; [apply andb_true_iff; split|].
    + now apply Nat.ltb_lt.
    + rewrite (f_kd x Hxn), type_pseudo. destruct (is_pseudo_kind (t_kind (ntree nodes x))) eqn:Ep; [reflexivity|].
      cbn [orb]. apply Nat.ltb_lt. eapply (h_before_proper q i x); eauto. rewrite tprop_pseudo, Ep. reflexivity.
    + apply M in Hx as (_ & _ & Hc). rewrite (f_kd i Hi), type_deep. destruct (is_deep_kind (t_kind (ntree nodes i))) eqn:Ed.
      * destruct (g_parent_some late t0 x Hxn ltac:(lia)) as [p Hp]. rewrite Hp. cbn [opt_eqb andb].
        destruct (h_anc_parent q x p Hqn Hxn Hp Hr) as [->|Hpr]; [now rewrite Nat.eqb_refl|].
        apply orb_true_iff. right. apply mem_In. apply M. destruct (g_parent_kid late t0 x p Hxn Hp) as (Hpn & _ & j & Hj & _).
        split; [exact Hpn|]. split; [|exact Hpr].
        destruct (is_hist_kind (t_kind (ntree nodes p))) eqn:E; [|reflexivity]. exfalso.
        assert (Hpp : is_pseudo_kind (t_kind (ntree nodes p)) = true) by (destruct (t_kind (ntree nodes p)); try discriminate; reflexivity).
        destruct (h_leaf p Hpn Hpp) as [Hk _]. rewrite Hk in Hj. destruct j; discriminate.
      * rewrite Hc. cbn [opt_eqb]. now rewrite Nat.eqb_refl.
  - apply forallb_forall. intros k Hk. destruct (h_child_row q k Hqn Hk) as (Hkn & Hp & Hr).
    rewrite (f_kd k Hkn), type_pseudo. destruct (is_pseudo_kind (t_kind (ntree nodes k))) eqn:Ep; [reflexivity|]. cbn [orb].
    apply mem_In. apply M. split; [exact Hkn|]. split; [destruct (t_kind (ntree nodes k)); try discriminate; reflexivity|].
    destruct (is_deep_kind _); assumption.
Qed.

(* two blocks that share a number are nested *)
Lemma h_nested : forall x q1 q2, x < n -> q1 < n -> q2 < n -> q1 <> q2 ->
  q1 < x < q1 + tsize (ntree nodes q1) -> q2 < x < q2 + tsize (ntree nodes q2) ->
  q1 < q2 < q1 + tsize (ntree nodes q1) \/ q2 < q1 < q2 + tsize (ntree nodes q2).
Proof.
  induction x as [x IH] using lt_wf_ind. intros q1 q2 Hx H1 H2 Hne R1 R2.
  destruct (g_parent_some late t0 x Hx ltac:(lia)) as [p Hp].
  destruct (g_parent_kid late t0 x p Hx Hp) as (Hpn & Hpr & _).
  destruct (h_anc_parent q1 x p H1 Hx Hp R1) as [E1|P1], (h_anc_parent q2 x p H2 Hx Hp R2) as [E2|P2].
  - congruence.
  - subst p. now right.
  - subst p. now left.
  - apply (IH p); auto; lia.
Qed.

Lemma h_hist_disjoint : whb_hist_disjoint c = true.
Proof.
  unfold whb_hist_disjoint. rewrite (g_nstates late t0). apply fseq. intros h1 Hh1. apply fseq. intros h2 Hh2.
  destruct (is_hist (fs_type (st c h1)) && is_hist (fs_type (st c h2)) && negb (opt_nat_eqb (fs_parent (st c h1)) (fs_parent (st c h2)))) eqn:Ec; [|reflexivity].
  apply andb_true_iff in Ec as [Ec Enp]. apply andb_true_iff in Ec as [E1 E2].
  rewrite (f_kd _ Hh1), type_hist in E1. rewrite (f_kd _ Hh2), type_hist in E2.
  assert (Hp1 : is_pseudo_kind (t_kind (ntree nodes h1)) = true) by (destruct (t_kind (ntree nodes h1)); try discriminate; reflexivity).
  assert (Hp2 : is_pseudo_kind (t_kind (ntree nodes h2)) = true) by (destruct (t_kind (ntree nodes h2)); try discriminate; reflexivity).
  destruct (h_pseudo_parent_row h1 Hh1 Hp1) as (q1 & Hq1 & Hq1n & _ & Hk1). destruct (h_pseudo_parent_row h2 Hh2 Hp2) as (q2 & Hq2 & Hq2n & _ & Hk2).
  rewrite Hq1, Hq2 in Enp. cbn [opt_nat_eqb] in Enp. apply negb_true_iff, Nat.eqb_neq in Enp.
  apply forallb_forall. intros x Hx. destruct (is_pseudo (fs_type (st c x))) eqn:Epx; [reflexivity|]. cbn [orb].
  apply negb_true_iff. destruct (mem x (fs_completion (st c h2))) eqn:Em; [|reflexivity]. exfalso. apply mem_In in Em.
  apply (h_cpl_mem h1 q1 x Hh1 E1 Hq1 Hq1n) in Hx as (Hxn & _ & C1). apply (h_cpl_mem h2 q2 x Hh2 E2 Hq2 Hq2n) in Em as (_ & _ & C2).
  assert (R1 : q1 < x < q1 + tsize (ntree nodes q1)).
  { destruct (is_deep_kind (t_kind (ntree nodes h1))); [exact C1|]. now destruct (g_parent_kid late t0 x q1 Hxn C1) as (_ & Hr & _). }
  assert (R2 : q2 < x < q2 + tsize (ntree nodes q2)).
  { destruct (is_deep_kind (t_kind (ntree nodes h2))); [exact C2|]. now destruct (g_parent_kid late t0 x q2 Hxn C2) as (_ & Hr & _). }
  destruct (vb_sideb_parts root (fh_side root FH)) as (_ & _ & _ & HD).
  assert (Hcase : forall qa qb ha hb, qa < n -> qb < n -> In (ntree nodes ha) (t_kids (ntree nodes qa)) -> In (ntree nodes hb) (t_kids (ntree nodes qb)) ->
            is_hist_kind (t_kind (ntree nodes hb)) = true ->
            (if is_deep_kind (t_kind (ntree nodes ha)) then qa < x < qa + tsize (ntree nodes qa) else fs_parent (st c x) = Some qa) ->
            qb < x < qb + tsize (ntree nodes qb) -> qa < qb < qa + tsize (ntree nodes qa) -> False).
  { intros qa qb ha hb Hqa Hqb Hka Hkb Ehb Ca Rb Nest. destruct (is_deep_kind (t_kind (ntree nodes ha))) eqn:Ed.
    - destruct (g_in_block_strict late t0 qa qb Hqa Nest) as [_ Hin].
      pose proof (hist_disjoint_spec root HD _ _ _ _ (f_in qa Hqa) Hka Ed Hin Hkb) as F. congruence.
    - destruct (h_anc_parent qb x qa Hqb Hxn Ca Rb) as [->|Hr]; lia. }
  destruct (h_nested x q1 q2 Hxn Hq1n Hq2n Enp R1 R2) as [N|N].
  - exact (Hcase q1 q2 h1 h2 Hq1n Hq2n Hk1 Hk2 E2 C1 R2 N).
  - exact (Hcase q2 q1 h2 h1 Hq2n Hq1n Hk2 Hk1 E1 C2 R1 N).
Qed.

(* ------------------------------------------------------------------ all clauses *)
Theorem flat_wf_hist : wf_histb c = true /\ fs_type (st c 0) = FCompound.
Proof.
  split; [|exact (f_root_compound late t0 FH)]. unfold wf_histb.
  rewrite (fl_nonempty late t0), (fl_root late t0), (fl_parent late t0), (fl_children late t0), (fl_anc late t0),
          (fl_interval late t0), (fl_src late t0).
  rewrite (f_root_type late t0 FH), (f_targets late t0 FH), (f_completion_ok late t0 FH), (f_target_sets late t0 FH).
  rewrite h_pseudo_parent, h_pseudo_leaf, h_initial, h_hist_default, h_hist_cpl, h_hist_disjoint. reflexivity.
Qed.

End Pseudo.
