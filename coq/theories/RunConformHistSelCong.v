(* RunConformHistSelCong.v -- C01 selection on charts with <history> (wf_histb), layer 2: congruence.  The functions that
   take part in transition selection give the same result on the erased chart (RunConformHistSelErase.eraseh) as on the
   chart itself.  The one function that sees a <history> element is Appendix D's getTransitionDomain (through
   getEffectiveTargetStates): Spec.compute_exit_set, remove_conflicting and select_transitions agree on the two charts
   PROVIDED the transition domains do ([Htd], discharged in RunConformHistSel.v for the charts LargeMicroStep::init
   builds, under hist_target_localb).  The copy of RunConformInitialSelCong.v.  Proofs only. *)
From Coq Require Import Morphisms Setoid.
From V Require Import Base NameMatch Chart Exec Large LargeLemmas Spec Legal SetLemmas LegalAbstract LegalLarge
  SelectConform RunConformHistSelErase.
Local Open Scope nat_scope.

(* rewriting under the binders of the list combinators *)
#[local] Instance rchs_forallb_Proper A : Proper (pointwise_relation A eq ==> eq ==> eq) (@forallb A).
Proof. intros f g E l l' <-. induction l as [|a r IH]; cbn; [reflexivity|]. now rewrite E, IH. Qed.
#[local] Instance rchs_existsb_Proper A : Proper (pointwise_relation A eq ==> eq ==> eq) (@existsb A).
Proof. intros f g E l l' <-. induction l as [|a r IH]; cbn; [reflexivity|]. now rewrite E, IH. Qed.
#[local] Instance rchs_filter_Proper A : Proper (pointwise_relation A eq ==> eq ==> eq) (@filter A).
Proof. intros f g E l l' <-. induction l as [|a r IH]; cbn; [reflexivity|]. now rewrite E, IH. Qed.
#[local] Instance rchs_find_Proper A : Proper (pointwise_relation A eq ==> eq ==> eq) (@find A).
Proof. intros f g E l l' <-. induction l as [|a r IH]; cbn; [reflexivity|]. now rewrite E, IH. Qed.
#[local] Instance rchs_fold_left_Proper A B :
  Proper (pointwise_relation A (pointwise_relation B eq) ==> eq ==> eq ==> eq) (@fold_left A B).
Proof. intros f g E l l' <-. induction l as [|b r IH]; intros a a' <-; cbn; [reflexivity|]. rewrite E. now apply IH. Qed.

Lemma rchs_fold_left_ext {A B} (f g : A -> B -> A) l : (forall a b, f a b = g a b) -> forall a, fold_left f l a = fold_left g l a.
Proof. intros H. induction l as [|b r IH]; intros a; cbn [fold_left]; [reflexivity|]. rewrite H. apply IH. Qed.

Section Cong.
Variable c : fchart.
Notation c' := (eraseh c).

(* ------------------------------------------------------------------ the engine *)

Lemma inst_of_eraseh cfg sid : inst_of c' cfg sid = inst_of c cfg sid.
Proof. unfold inst_of. now setoid_rewrite sid_eraseh. Qed.

Lemma beval_inst_ext inst1 inst2 s e : (forall sid, inst1 sid = inst2 sid) -> beval inst1 s e = beval inst2 s e.
Proof.
  intros H. induction e as [| |sid|a b|a IHa|a IHa b IHb|a IHa b IHb|]; cbn [beval]; try reflexivity.
  - now rewrite H.
  - now rewrite IHa.
  - now rewrite IHa, IHb.
  - now rewrite IHa, IHb.
Qed.

Lemma is_true_eraseh cfg cnd x : is_true (inst_of c' cfg) cnd x = is_true (inst_of c cfg) cnd x.
Proof. unfold is_true. now rewrite (beval_inst_ext _ (inst_of c cfg) _ _ (inst_of_eraseh cfg)). Qed.

Lemma domain_eraseh t : domain c' t = domain c t.
Proof.
  unfold domain. destruct (ft_targets t) as [|g tg]; [reflexivity|].
  rewrite type_eraseh, erh_type_comp, anc_eraseh.
  repeat setoid_rewrite anc_eraseh. repeat setoid_rewrite type_eraseh. repeat setoid_rewrite erh_type_comp. reflexivity.
Qed.

Lemma is_last_child_eraseh d : is_last_child c' d = is_last_child c d.
Proof. unfold is_last_child. rewrite par_eraseh. destruct (fs_parent (st c d)); [|reflexivity]. now rewrite ch_eraseh. Qed.

Lemma exit_interval_eraseh v t : exit_interval v c' t = exit_interval v c t.
Proof.
  unfold exit_interval. rewrite domain_eraseh. destruct (domain c t) as [d|]; [|reflexivity].
  rewrite size_eraseh, is_last_child_eraseh. unfold n_states. now rewrite nstates_eraseh.
Qed.

Lemma conflicts_eraseh v t1 t2 : conflicts v c' t1 t2 = conflicts v c t1 t2.
Proof. unfold conflicts. now rewrite !exit_interval_eraseh. Qed.

Lemma exit_states_of_eraseh v cfg t : exit_states_of v c' cfg t = exit_states_of v c cfg t.
Proof. unfold exit_states_of. now rewrite exit_interval_eraseh. Qed.

Lemma cfg_postfix_eraseh cfg : cfg_postfix c' cfg = cfg_postfix c cfg.
Proof.
  unfold cfg_postfix. setoid_rewrite trans_eraseh. apply rchs_fold_left_ext. intros a s.
  induction a as [|y r IH]; cbn [insert_by]; [reflexivity|].
  unfold first_trans at 1 2 4 5. rewrite !trans_eraseh. now rewrite IH.
Qed.

Lemma pick_trans_eraseh v cfg ev sel ts : forall x, pick_trans v c' cfg ev sel ts x = pick_trans v c cfg ev sel ts x.
Proof.
  induction ts as [|ti r IH]; intros x; cbn [pick_trans]; [reflexivity|]. rewrite !tr_eraseh.
  setoid_rewrite conflicts_eraseh. rewrite !IH.
  destruct (ft_cond (tr c ti)) as [cnd|]; [|reflexivity].
  rewrite is_true_eraseh. destruct (is_true (inst_of c cfg) cnd x) as [b x']. now rewrite IH.
Qed.

Lemma select_loop_eraseh v cfg ev order : forall skip sel x,
  select_loop v c' cfg ev order skip sel x = select_loop v c cfg ev order skip sel x.
Proof.
  induction order as [|s r IH]; intros skip sel x; cbn [select_loop]; [reflexivity|].
  rewrite trans_eraseh, pick_trans_eraseh.
  assert (Hrest : (let '(o, x') := pick_trans v c cfg ev sel (fs_trans (st c s)) x in
                   match o with
                   | Some ti => select_loop v c' cfg ev r (Some s) (insert_sorted ti sel) x'
                   | None => select_loop v c' cfg ev r None sel x'
                   end) =
                  (let '(o, x') := pick_trans v c cfg ev sel (fs_trans (st c s)) x in
                   match o with
                   | Some ti => select_loop v c cfg ev r (Some s) (insert_sorted ti sel) x'
                   | None => select_loop v c cfg ev r None sel x'
                   end)).
  { destruct (pick_trans v c cfg ev sel (fs_trans (st c s)) x) as [[ti|] x']; apply IH. }
  destruct skip as [cur|]; [|exact Hrest].
  rewrite par_eraseh. destruct (fs_parent (st c cur)) as [p|]; [|exact Hrest].
  destruct (p =? s); [apply IH | exact Hrest].
Qed.

(* ------------------------------------------------------------------ Appendix D *)

Lemma proper_ancestors_eraseh fuel : forall i upto, proper_ancestors c' fuel i upto = proper_ancestors c fuel i upto.
Proof.
  induction fuel as [|f IH]; intros i upto; cbn [proper_ancestors]; [reflexivity|]. rewrite par_eraseh.
  destruct (fs_parent (st c i)) as [p|]; [|reflexivity]. now rewrite !IH.
Qed.

Lemma ancs_eraseh i upto : ancs c' i upto = ancs c i upto.
Proof. unfold ancs, Spec.n. rewrite nstates_eraseh. apply proper_ancestors_eraseh. Qed.

Lemma is_descendant_eraseh s a : is_descendant c' s a = is_descendant c s a.
Proof. unfold is_descendant. now rewrite ancs_eraseh. Qed.

Lemma sty_eraseh i : sty c' i = erh_type (sty c i).
Proof. unfold sty. apply type_eraseh. Qed.

Lemma is_history_state_eraseh s : is_history_state c' s = false.
Proof. unfold is_history_state. rewrite sty_eraseh. now destruct (sty c s). Qed.

Lemma is_compound_state_eraseh s : is_compound_state c' s = is_compound_state c s.
Proof. unfold is_compound_state. rewrite sty_eraseh. now destruct (sty c s). Qed.

Lemma is_parallel_state_eraseh s : is_parallel_state c' s = is_parallel_state c s.
Proof. unfold is_parallel_state. rewrite sty_eraseh. now destruct (sty c s). Qed.

(* the only test that sees the erasure: an <initial> element has become an atomic state *)
Lemma is_atomic_state_eraseh s : is_pseudo (fs_type (st c s)) = false -> is_atomic_state c' s = is_atomic_state c s.
Proof. unfold is_atomic_state. rewrite sty_eraseh. unfold sty. destruct (fs_type (st c s)); cbn; congruence. Qed.

Lemma pseudo_trans_eraseh i : pseudo_trans c' i = pseudo_trans c i.
Proof. unfold pseudo_trans. now rewrite trans_eraseh. Qed.

Lemma find_lcca_eraseh l : find_lcca c' l = find_lcca c l.
Proof.
  unfold find_lcca. destruct l as [|hd tl]; [reflexivity|]. rewrite ancs_eraseh.
  repeat setoid_rewrite is_compound_state_eraseh. repeat setoid_rewrite is_descendant_eraseh. reflexivity.
Qed.

(* the premise: the two charts give every transition the same domain *)
Variable h : hv.
Hypothesis Htd : forall ti, transition_domain c' h (tr c ti) = transition_domain c h (tr c ti).

Lemma compute_exit_set_eraseh cfg ti : compute_exit_set c' cfg h [tr c ti] = compute_exit_set c cfg h [tr c ti].
Proof.
  unfold compute_exit_set. cbn [fold_left].
  destruct (ft_targets (tr c ti)); [reflexivity|]. rewrite Htd.
  destruct (transition_domain c h (tr c ti)) as [d|]; [|reflexivity].
  apply rchs_fold_left_ext. intros a s. now rewrite is_descendant_eraseh.
Qed.

Lemma remove_conflicting_eraseh cfg en : remove_conflicting c' cfg h en = remove_conflicting c cfg h en.
Proof.
  unfold remove_conflicting. apply rchs_fold_left_ext. intros filtered t1.
  match goal with
  | |- (let '(_, _) := fold_left ?F1 _ _ in _) = (let '(_, _) := fold_left ?F2 _ _ in _) =>
    rewrite (rchs_fold_left_ext F1 F2)
  end; [reflexivity|].
  intros [pre rem] t2. rewrite !tr_eraseh, !compute_exit_set_eraseh, is_descendant_eraseh. reflexivity.
Qed.

Lemma cond_match_eraseh cfg ti cc x : cond_match c' cfg ti cc x = cond_match c cfg ti cc x.
Proof.
  unfold cond_match. rewrite tr_eraseh. destruct (ft_cond (tr c ti)) as [cnd|]; [|reflexivity].
  destruct (find (fun p => fst p =? ti) cc); [reflexivity|]. now rewrite is_true_eraseh.
Qed.

Lemma first_enabled_eraseh cfg ev ts : forall cc x, first_enabled c' cfg ev ts cc x = first_enabled c cfg ev ts cc x.
Proof.
  induction ts as [|ti r IH]; intros cc x; cbn [first_enabled]; [reflexivity|]. rewrite !tr_eraseh.
  destruct (_ && negb (ft_history (tr c ti) || ft_initial (tr c ti))); [|apply IH].
  rewrite cond_match_eraseh. destruct (cond_match c cfg ti cc x) as [[b cc1] x1]. destruct b; [reflexivity | apply IH].
Qed.

Lemma first_in_chain_eraseh cfg ev chain : forall cc x,
  first_in_chain c' cfg ev chain cc x = first_in_chain c cfg ev chain cc x.
Proof.
  induction chain as [|s r IH]; intros cc x; cbn [first_in_chain]; [reflexivity|].
  rewrite trans_eraseh, first_enabled_eraseh.
  destruct (first_enabled c cfg ev (fs_trans (st c s)) cc x) as [[o cc1] x1]. destruct o; [reflexivity | apply IH].
Qed.

(* Appendix D's selection: the same on every configuration without <initial> states *)
Theorem select_transitions_eraseh cfg ev x : (forall s, In s cfg -> is_pseudo (fs_type (st c s)) = false) ->
  select_transitions c' cfg h ev x = select_transitions c cfg h ev x.
Proof.
  intros Hcfg. unfold select_transitions. cbn zeta.
  rewrite (filter_ext_in (is_atomic_state c') (is_atomic_state c) cfg)
    by (intros s Hs; apply is_atomic_state_eraseh; now apply Hcfg).
  match goal with
  | |- (let '(_, _) := fold_left ?F1 _ _ in _) = (let '(_, _) := fold_left ?F2 _ _ in _) =>
    rewrite (rchs_fold_left_ext F1 F2)
  end.
  - destruct (fold_left _ _ _) as [[en cc] x']. now rewrite remove_conflicting_eraseh.
  - intros [[en cc] x0] s. now rewrite ancs_eraseh, first_in_chain_eraseh.
Qed.

(* ------------------------------------------------------------------ the guards *)

Lemma enabledb_eraseh cfg ev x ti : enabledb c' cfg ev x ti = enabledb c cfg ev x ti.
Proof.
  unfold enabledb, cond_val. rewrite tr_eraseh. destruct (ft_cond (tr c ti)); [|reflexivity]. now rewrite is_true_eraseh.
Qed.

End Cong.

