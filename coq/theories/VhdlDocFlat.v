(* VhdlDocFlat.v -- C18, flat level: the check WfCore.wf_coreb of the chart core WITHOUT its target-set clause
   (VhdlDoc.wf_core0b) together with the four extra conditions VhdlDoc.vh_extrab implies the fragment check
   Vhdl.vh_wfb; and vh_wfb implies the side condition leaf_okb of the engine-equivalence theorems.
   Proofs only. *)
From V Require Import Base NameMatch Chart Exec Large Legal Fast Vhdl SetLemmas LegalAbstract LegalLarge WfCore
     FlattenWf VhdlDoc.
Local Open Scope nat_scope.

Lemma vd_fseq (f : nat -> bool) m : forallb f (seq 0 m) = true <-> forall i, i < m -> f i = true.
Proof.
  rewrite forallb_forall. split; intros Hf i Hi.
  - apply Hf. apply in_seq. lia.
  - apply in_seq in Hi. apply Hf. lia.
Qed.

Lemma vd_same_set_intro a b : (forall x, In x a <-> In x b) -> same_set a b = true.
Proof.
  intros H. unfold same_set. apply andb_true_iff. split; apply forallb_forall; intros x Hx; apply mem_In; now apply H.
Qed.

Lemma vh_extrab_parts c : vh_extrab c = true ->
  vh_leafb c = true /\ vh_sizesb c = true /\ vh_trans_extrab c = true /\ forallb simple_name (doc_events c) = true.
Proof. unfold vh_extrab. intros H. repeat (apply andb_true_iff in H as [H ?]). repeat split; assumption. Qed.

Lemma wf_coreb_split c : wf_coreb c = wf_core0b c && wfb_target_sets c.
Proof. reflexivity. Qed.

Lemma wf_core0b_parts c : wf_core0b c = true ->
  wfb_nonempty c = true /\ wfb_root c = true /\ wfb_parent c = true /\ wfb_children c = true /\
  wfb_anc c = true /\ wfb_interval c = true /\ wfb_types c = true /\ wfb_root_type c = true /\
  wfb_completion c = true /\ wfb_src c = true /\ wfb_targets c = true.
Proof. unfold wf_core0b. intros H. repeat (apply andb_true_iff in H as [H ?]). repeat split; assumption. Qed.

Section Flat.
Variable c : fchart.
Hypothesis Hc : wf_core0b c = true.
Hypothesis Hx : vh_extrab c = true.
Let n := nstates c.

Lemma vd_st_out i : n <= i -> st c i = dummy_state.
Proof. intros Hi. unfold st. now apply nth_overflow. Qed.

Lemma vd_par_in i : i < n -> match fs_parent (st c i) with Some p => p < i | None => i = 0 end.
Proof.
  intros Hi. destruct (wf_core0b_parts c Hc) as (_ & _ & P & _). unfold wfb_parent in P. rewrite vd_fseq in P.
  specialize (P i Hi). destruct (fs_parent (st c i)); [now apply Nat.ltb_lt | now apply Nat.eqb_eq].
Qed.

Lemma vd_par_lt i p : fs_parent (st c i) = Some p -> p < i /\ i < n.
Proof.
  intros Hp. destruct (Nat.lt_ge_cases i n) as [Hi|Hi].
  - pose proof (vd_par_in i Hi) as P. rewrite Hp in P. tauto.
  - rewrite (vd_st_out i Hi) in Hp. discriminate.
Qed.

Lemma vd_children_spec p k : p < n -> (In k (fs_children (st c p)) <-> fs_parent (st c k) = Some p).
Proof.
  intros Hp. destruct (wf_core0b_parts c Hc) as (_ & _ & _ & P & _). unfold wfb_children in P. rewrite vd_fseq in P.
  specialize (P p Hp). apply list_eqb_eq in P. rewrite P, filter_In, in_seq. unfold opt_eqb. split.
  - intros [_ Hk]. destruct (fs_parent (st c k)) as [q|]; [apply Nat.eqb_eq in Hk; now subst | discriminate].
  - intros Hk. destruct (vd_par_lt _ _ Hk). split; [fold n; lia|]. rewrite Hk. apply Nat.eqb_refl.
Qed.

Lemma vd_anc_in i : i < n ->
  fs_ancestors (st c i) = match fs_parent (st c i) with Some p => insert_sorted p (fs_ancestors (st c p)) | None => [] end.
Proof.
  intros Hi. destruct (wf_core0b_parts c Hc) as (_ & _ & _ & _ & P & _). unfold wfb_anc in P. rewrite vd_fseq in P.
  specialize (P i Hi). now apply list_eqb_eq in P.
Qed.

Lemma vd_state_ok i : i < n -> vh_state_ok c i = true.
Proof.
  intros Hi. destruct (vh_extrab_parts c Hx) as (XL & XS & _ & _).
  destruct (wf_core0b_parts c Hc) as (_ & _ & _ & _ & _ & PI & PT & _ & PC & _).
  unfold vh_state_ok. fold n. repeat (apply andb_true_iff; split).
  - (* parent *)
    pose proof (vd_par_in i Hi) as Hp. pose proof (vd_anc_in i Hi) as Ha.
    destruct (fs_parent (st c i)) as [p|] eqn:Ep.
    + rewrite Ha. apply andb_true_iff; split; [apply andb_true_iff; split|].
      * now apply Nat.ltb_lt.
      * apply mem_In. apply vd_children_spec; [lia | exact Ep].
      * apply vd_same_set_intro. intros x. rewrite In_insert_sorted'. cbn [In]. intuition congruence.
    + subst i. rewrite Ha. reflexivity.
  - (* children *)
    apply forallb_forall. intros j Hj. apply (vd_children_spec i j Hi) in Hj.
    destruct (vd_par_lt _ _ Hj) as [_ Hjn]. apply andb_true_iff. split; [now apply Nat.ltb_lt|].
    rewrite Hj. apply Nat.eqb_refl.
  - unfold vh_sizesb in XS. rewrite vd_fseq in XS. specialize (XS i Hi). now apply andb_true_iff in XS as [XS _].
  - unfold vh_sizesb in XS. rewrite vd_fseq in XS. specialize (XS i Hi). now apply andb_true_iff in XS as [_ XS].
  - unfold wfb_interval in PI. rewrite vd_fseq in PI. exact (PI i Hi).
  - (* type *)
    unfold vh_leafb in XL. rewrite vd_fseq in XL. specialize (XL i Hi).
    unfold wfb_completion in PC. rewrite vd_fseq in PC. specialize (PC i Hi).
    unfold wfb_types in PT. rewrite vd_fseq in PT. specialize (PT i Hi).
    destruct (fs_type (st c i)); try discriminate; try exact XL.
    + destruct (fs_completion (st c i)) as [|k [|? ?]]; try discriminate. apply andb_true_iff. split; [|exact PC].
      destruct (fs_children (st c i)); [discriminate | reflexivity].
    + apply list_eqb_eq in PC. rewrite PC. apply vd_same_set_intro. tauto.
Qed.

Lemma vd_trans_ok ti : ti < ntrans c -> vh_trans_ok c ti = true.
Proof.
  intros Hti. destruct (vh_extrab_parts c Hx) as (_ & _ & XT & _).
  destruct (wf_core0b_parts c Hc) as (_ & _ & _ & _ & _ & _ & _ & _ & _ & _ & PT).
  unfold vh_trans_extrab in XT. rewrite vd_fseq in XT. specialize (XT ti Hti). cbn zeta in XT.
  repeat (apply andb_true_iff in XT as [XT ?]).
  unfold vh_trans_ok. fold n. repeat (apply andb_true_iff; split); try assumption.
  unfold wfb_targets in PT. rewrite vd_fseq in PT. specialize (PT ti Hti).
  apply forallb_forall. intros g Hg. rewrite forallb_forall in PT. specialize (PT g Hg).
  apply andb_true_iff in PT as [G1 G2]. apply Nat.ltb_lt in G1. apply andb_true_iff. split; [apply Nat.leb_le; lia | exact G2].
Qed.

Theorem core_vh_wf : vh_wfb c = true.
Proof.
  destruct (vh_extrab_parts c Hx) as (_ & _ & _ & XE).
  destruct (wf_core0b_parts c Hc) as (PN & _ & _ & _ & _ & _ & _ & PR & _).
  unfold vh_wfb. repeat (apply andb_true_iff; split).
  - unfold wfb_nonempty in PN. apply Nat.ltb_lt in PN. apply Nat.leb_le. lia.
  - exact PR.
  - apply vd_fseq. exact vd_state_ok.
  - apply vd_fseq. exact vd_trans_ok.
  - exact XE.
Qed.

End Flat.

(* ------------------------------------------------------------------ the converse direction, as far as needed *)

Lemma vh_wfb_parts c : vh_wfb c = true ->
  1 <= nstates c /\ (forall i, i < nstates c -> vh_state_ok c i = true) /\
  (forall ti, ti < ntrans c -> vh_trans_ok c ti = true) /\ forallb simple_name (doc_events c) = true.
Proof.
  unfold vh_wfb. intros H. repeat (apply andb_true_iff in H as [H ?]).
  split; [now apply Nat.leb_le|]. split; [now apply vd_fseq|]. split; [now apply vd_fseq | assumption].
Qed.

Lemma vh_wfb_leaf c : vh_wfb c = true -> vh_leafb c = true.
Proof.
  intros H. destruct (vh_wfb_parts c H) as (_ & HS & _). unfold vh_leafb. apply vd_fseq. intros i Hi.
  specialize (HS i Hi). unfold vh_state_ok in HS. repeat (apply andb_true_iff in HS as [HS ?]).
  destruct (fs_type (st c i)); try reflexivity; assumption.
Qed.
