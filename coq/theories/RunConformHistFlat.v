(* RunConformHistFlat.v -- C01 on charts with <history> (wf_histb), for the charts LargeMicroStep::init builds
   (c = flatten late t0): the static side conditions of the microstep theorems as one boolean (micro_static_hb), the
   premises of RunConformHistCompose discharged by RunConformHistDom, and the theorems on booleans: microstep,
   selection + microstep.  Proofs only. *)
From V Require Import Base NameMatch NameMatchLemmas Chart Exec Large LargeLemmas Spec Legal SetLemmas LegalAbstract LegalLarge
  Interp LegalRun WfCore LegalOracle LargeCacheLemmas ExitSetLemmas SelectConform SelectConformLemmas SelectConformOrder
  SelectConformRoot SelectConformFlatten MicroConform MicroConformLemmas MicroConformCompose MicroConformFlatten EngineEquivDone
  LegalHistBase LegalHistEntry LegalHistStep LegalHistRun LegalHistWf LegalHistOracle
  RunConformInitialBase RunConformInitialMicro
  RunConformBase RunConformTok RunConformMicro RunConformInit RunConformStep
  RunConformInitialWf RunConformInitialFlags RunConformInitialSelLegal
  RunConformHistRel RunConformHistSpec RunConformHistEngine RunConformHistEntry RunConformHistMicro RunConformHistCompose
  RunConformHistDom RunConformHistWf RunConformHistDeep RunConformHistSel.
Local Open Scope nat_scope.

(* the static conditions of the microstep theorems: those of RunConformInitialFlat.micro_static_ib with wf_histb for
   wf_initb and targets_noinitb for targets_properb, and the conditions that concern <history> *)
Definition micro_static_hb (c : fchart) : bool :=
  wf_histb c && root_compoundb c && par_nonemptyb c && targets_antichainb c && done_okb c && root_silentb c &&
  cpl_okb c && cpl_antib c && targets_noinitb c &&
  hist_target_localb c && leaf_okb c.

Record MicroStaticH (c : fchart) : Prop := {
  mh_wfh : WFH c;
  mh_root : fs_type (st c 0) = FCompound;
  mh_par : forall s, s < nstates c -> fs_type (st c s) = FParallel -> fs_children (st c s) <> [];
  mh_cplok : CplOK c;
  mh_cplanti : CplAnti c;
  mh_tganti : TgAnti c;
  mh_tgnoinit : forall ti g, In g (ft_targets (tr c ti)) -> fs_type (st c g) <> FInitial;
  mh_local : forall ti, TLocal c (tr c ti);
  mh_leaf : forall x k, is_atomic_state c x = true -> fs_parent (st c k) <> Some x;
  mh_deep : DeepFull c;
  mh_trn : forall s, NoDup (fs_trans (st c s));
  mh_flags : forall x ti, is_pseudo (fs_type (st c x)) = true -> In ti (fs_trans (st c x)) -> ft_history (tr c ti) || ft_initial (tr c ti) = true;
  mh_fin_par : forall i p, fs_type (st c i) = FFinal -> fs_parent (st c i) = Some p -> fs_type (st c p) <> FParallel;
  mh_fin_up : forall i p a, fs_type (st c i) = FFinal -> fs_parent (st c i) = Some p ->
     LegalAbstract.Anc (fun i => fs_parent (st c i)) a p -> fs_parent (st c p) = Some a \/ fs_type (st c a) <> FParallel;
  mh_silent : root_silentb c = true;
  mh_wfb : wf_histb c = true;
  mh_parb : par_nonemptyb c = true;
  mh_antib : targets_antichainb c = true;
  mh_leafb : leaf_okb c = true;
  mh_locb : hist_target_localb c = true
}.

Lemma flatten_trans_nodup late t0 s : NoDup (fs_trans (st (flatten late t0) s)).
Proof.
  destruct (Nat.lt_ge_cases s (nstates (flatten late t0))) as [Hs|Hs].
  - rewrite fs_trans_flatten by exact Hs. apply ssorted_NoDup.
    apply (index_where_spec _ (0, {| tt_vid := 0; tt_event := None; tt_cond := None; tt_targets := None; tt_internal := false; tt_body := [] |}, KState)).
  - unfold st. rewrite nth_overflow by exact Hs. constructor.
Qed.

Lemma micro_static_h_sound late t0 : let c := flatten late t0 in micro_static_hb c = true -> MicroStaticH c.
Proof.
  intros c. unfold micro_static_hb. intros H.
  apply andb_true_iff in H as [H Blf].
  apply andb_true_iff in H as [H Blo]. apply andb_true_iff in H as [H Bni]. apply andb_true_iff in H as [H Bca].
  apply andb_true_iff in H as [H Bco]. apply andb_true_iff in H as [H Bsi]. apply andb_true_iff in H as [H Bdo].
  apply andb_true_iff in H as [H Bta]. apply andb_true_iff in H as [H Bpa]. apply andb_true_iff in H as [H Bro].
  pose proof (wf_histb_sound c H) as W.
  destruct (done_okb_sound_h c W Bdo) as [F1 F2].
  constructor; auto.
  - unfold root_compoundb in *. destruct (fs_type (st c 0)); try discriminate; reflexivity.
  - now apply par_nonemptyb_sound.
  - now apply cpl_okb_sound.
  - now apply cpl_antib_sound.
  - now apply targets_antichainb_sound_h.
  - now apply targets_noinitb_sound.
  - now apply hist_target_localb_sound.
  - now apply leaf_okb_sound.
  - now apply flatten_deep_full.
  - apply flatten_trans_nodup.
  - apply flatten_init_flags.
Qed.

Lemma select_loop_ssorted_h v c cfg ev order : forall skip sel x,
  ssorted sel -> ssorted (fst (select_loop v c cfg ev order skip sel x)).
Proof.
  induction order as [|s r IH]; intros skip sel x Hs; cbn [select_loop]; [exact Hs|].
  destruct (match skip with Some cur => match fs_parent (st c cur) with Some p => (p =? s)%nat | None => false end | None => false end);
    [now apply IH|].
  destruct (pick_trans v c cfg ev sel (fs_trans (st c s)) x) as [o x']. destruct o; apply IH; [now apply ssorted_insert | exact Hs].
Qed.

Section FlatH.
Variable late : bool.
Variable t0 : tree.
Notation c := (flatten late t0).

Hypothesis HS : MicroStaticH c.

Lemma Hdom_flat_h cfg : LegalCfgH c cfg -> forall hist h, HistOK c hist -> HistDown c hist -> hv_rel c hist h ->
  forall ti, transition_domain c h (tr c ti) = domain c (tr c ti).
Proof.
  intros [HL Hbp] hist h HH HD HR ti. symmetry.
  apply (domain_agrees_hist late t0 (mh_wfh c HS) (mh_tganti c HS) (mh_par c HS) (mh_leaf c HS) cfg HL (fun y Hy => proj1 (Hbp y Hy))
           hist h HH HD HR (tr c ti) (mh_local c HS ti)).
Qed.

Lemma exit_sets_agree_hh cfg' hist hv sel : LegalCfgH c (0 :: cfg') -> HistOK c hist -> HistDown c hist -> hv_rel c hist hv ->
  forall z, In z (compute_exit_set c cfg' hv (map (tr c) sel)) <-> In z (sel_exitset c (0 :: cfg') sel).
Proof.
  intros [HL Hbp] HH HD HR z. pose proof (wh_root_par c (mh_wfh c HS)) as Hr0.
  assert (Hb : forall y, In y (0 :: cfg') -> y < nstates c) by (intros y Hy; exact (proj1 (Hbp y Hy))).
  pose proof (fun ti => exit_set_agrees_hist late t0 (mh_wfh c HS) (mh_tganti c HS) (mh_par c HS) (mh_leaf c HS) (0 :: cfg') HL Hb
                          hist hv HH HD HR (tr c ti) (mh_local c HS ti) (0 :: cfg') Hb) as Hex.
  rewrite ces_union. unfold sel_exitset. rewrite In_fold_union. cbn [In]. split.
  - intros (t & Ht & Hz). apply in_map_iff in Ht as (ti & <- & Hti). right. exists ti. split; [exact Hti|].
    apply Hex. rewrite (compute_exit_set_root c cfg' Hr0). exact Hz.
  - intros [[]|(ti & Hti & Hz)]. exists (tr c ti). split; [now apply in_map|].
    rewrite <- (compute_exit_set_root c cfg' Hr0). now apply Hex.
Qed.

(* ---- one microstep ---- *)
Theorem body_conforms_hist_lemma sel l s x0 :
  legal_configb c (l_cfg l) = true -> HistOK c (l_hist l) -> HistDown c (l_hist l) -> hv_rel c (l_hist l) (s_hv s) -> corr c l s ->
  (forall ti, In ti sel -> In (ft_source (tr c ti)) (l_cfg l)) ->
  pairwise_ok lg_fixed c sel ->
  (forall ti, In ti sel -> ft_history (tr c ti) || ft_initial (tr c ti) = false) ->
  let r := microstep lg_fixed ex_fixed c l x0 (sel_targets c sel) (sel_exitset c (l_cfg l) sel) sel false in
  let q := spec_body c sel s x0 in
  corr c (fst r) (fst q) /\ snd q = emit (spec_cfg_tok c (fst q)) (snd r) /\
  HistOK c (l_hist (fst r)) /\ HistDown c (l_hist (fst r)) /\ hv_rel c (l_hist (fst r)) (s_hv (fst q)).
Proof.
  intros Hleg HH HD HR Hcorr Hsrc Hok Hnp. pose proof (mh_wfh c HS) as W.
  pose proof (legal_configb_sound_h c W _ Hleg) as HL.
  apply (body_conforms_hist_sec c W (mh_cplok c HS) (mh_cplanti c HS) (mh_tganti c HS) (mh_tgnoinit c HS) (mh_root c HS)
           (mh_deep c HS) (mh_leaf c HS) (mh_trn c HS) sel l s x0 Hcorr HL HH HD HR Hsrc Hok Hnp).
  - apply flatten_has_body.
  - exact (mh_silent c HS).
  - intros Hl i Hi. destruct late; [discriminate Hl|]. now apply flatten_early_data.
  - exact (mh_par c HS).
  - exact (mh_fin_par c HS).
  - exact (mh_fin_up c HS).
  - exact (mh_flags c HS).
  - intros hist h HH' HD' HR' ti _. exact (Hdom_flat_h (l_cfg l) HL hist h HH' HD' HR' ti).
  - destruct Hcorr as (Hc & _). rewrite Hc in *. exact (exit_sets_agree_hh (s_cfg s) (l_hist l) (s_hv s) sel HL HH HD HR).
Qed.

Theorem microstep_conforms_hist_lemma sel l s x :
  legal_configb c (l_cfg l) = true -> HistOK c (l_hist l) -> HistDown c (l_hist l) -> hv_rel c (l_hist l) (s_hv s) -> corr c l s ->
  (forall ti, In ti sel -> In (ft_source (tr c ti)) (l_cfg l)) ->
  pairwise_ok lg_fixed c sel ->
  (forall ti, In ti sel -> ft_history (tr c ti) || ft_initial (tr c ti) = false) ->
  let r := microstep lg_fixed ex_fixed c l (emit TMsB x) (sel_targets c sel) (sel_exitset c (l_cfg l) sel) sel false in
  let q := spec_microstep c sel s x in
  corr c (fst r) (fst q) /\ snd q = emit (spec_cfg_tok c (fst q)) (snd r) /\
  HistOK c (l_hist (fst r)) /\ HistDown c (l_hist (fst r)) /\ hv_rel c (l_hist (fst r)) (s_hv (fst q)).
Proof. intros. subst r q. rewrite spec_microstep_body. now apply body_conforms_hist_lemma. Qed.

(* with the transitions the engine itself selects, from any execution state *)
Theorem body_selected_conforms_hist_lemma l s ev xsel x0 :
  legal_configb c (l_cfg l) = true -> HistOK c (l_hist l) -> HistDown c (l_hist l) -> hv_rel c (l_hist l) (s_hv s) -> corr c l s ->
  let sel := fst (select_loop lg_fixed c (l_cfg l) ev (cfg_postfix c (l_cfg l)) None [] xsel) in
  let r := microstep lg_fixed ex_fixed c l x0 (sel_targets c sel) (sel_exitset c (l_cfg l) sel) sel false in
  let q := spec_body c sel s x0 in
  corr c (fst r) (fst q) /\ snd q = emit (spec_cfg_tok c (fst q)) (snd r) /\
  HistOK c (l_hist (fst r)) /\ HistDown c (l_hist (fst r)) /\ hv_rel c (l_hist (fst r)) (s_hv (fst q)).
Proof.
  intros Hleg HH HD HR Hcorr sel. apply body_conforms_hist_lemma; try assumption.
  - apply (select_loop_sources_h c (mh_wfh c HS)); [intros z; apply cfg_postfix_sub | intros ti []].
  - apply select_loop_pairwise. apply nil_pairwise.
  - apply select_loop_np. intros ti [].
Qed.

Theorem microstep_selected_conforms_hist_lemma l s ev x0 x :
  legal_configb c (l_cfg l) = true -> HistOK c (l_hist l) -> HistDown c (l_hist l) -> hv_rel c (l_hist l) (s_hv s) -> corr c l s ->
  let sel := fst (select_loop lg_fixed c (l_cfg l) ev (cfg_postfix c (l_cfg l)) None [] x0) in
  let r := microstep lg_fixed ex_fixed c l (emit TMsB x) (sel_targets c sel) (sel_exitset c (l_cfg l) sel) sel false in
  let q := spec_microstep c sel s x in
  corr c (fst r) (fst q) /\ snd q = emit (spec_cfg_tok c (fst q)) (snd r) /\
  HistOK c (l_hist (fst r)) /\ HistDown c (l_hist (fst r)) /\ hv_rel c (l_hist (fst r)) (s_hv (fst q)).
Proof. intros Hleg HH HD HR Hcorr sel r q. subst r q. rewrite spec_microstep_body. now apply body_selected_conforms_hist_lemma. Qed.

(* ---- SELECT_TRANSITIONS + the microstep against selectTransitions + microstep of Appendix D ---- *)
Theorem step_conforms_hist_lemma l s ev x :
  root_unmentionedb c = true ->
  legal_configb c (l_cfg l) = true -> ascb (l_cfg l) = true ->
  HistOK c (l_hist l) -> HistDown c (l_hist l) -> hv_rel c (l_hist l) (s_hv s) -> corr c l s ->
  unrelated_enabledb c (l_cfg l) ev x = true -> conds_pureb c (l_cfg l) x = true -> descs_okb c (l_cfg l) ev = true ->
  let r := select_and_step lg_fixed ex_fixed c l x ev in
  let en := fst (select_transitions c (s_cfg s) (s_hv s) ev x) in
  snd (select_transitions c (s_cfg s) (s_hv s) ev x) = x /\
  match en with
  | [] => l_cfg (fst (fst r)) = l_cfg l /\ snd (fst r) = x
  | _ => let q := spec_microstep c en s x in
         corr c (fst (fst r)) (fst q) /\ snd q = emit (spec_cfg_tok c (fst q)) (snd (fst r)) /\
         HistOK c (l_hist (fst (fst r))) /\ HistDown c (l_hist (fst (fst r))) /\ hv_rel c (l_hist (fst (fst r))) (s_hv (fst q))
  end.
Proof.
  intros Hun Hleg Hasc HH HD HR Hcorr H1 H2 H3.
  pose proof Hcorr as (Hc & _).
  pose proof (selection_conforms_spec_cfg_hist_lemma late t0 (s_cfg s) ev x (l_hist l) (s_hv s)) as Hsel. cbn zeta in Hsel.
  rewrite <- Hc in Hsel.
  specialize (Hsel (mh_wfb c HS) (mh_root c HS) (mh_parb c HS) Hun (mh_antib c HS) (mh_leafb c HS) (mh_locb c HS) Hleg Hasc HH HD HR H1 H2 H3).
  destruct Hsel as [Hsel Hx].
  cbn zeta. unfold select_and_step. cbn zeta.
  change (l_cfg (upd_flags l (l_spont l) false)) with (l_cfg l).
  pose proof (microstep_selected_conforms_hist_lemma (upd_flags l (l_spont l) false) s ev x x) as HM.
  cbn zeta in HM. change (l_cfg (upd_flags l (l_spont l) false)) with (l_cfg l) in HM.
  change (l_hist (upd_flags l (l_spont l) false)) with (l_hist l) in HM.
  specialize (HM Hleg HH HD HR Hcorr).
  destruct (select_loop lg_fixed c (l_cfg l) ev (cfg_postfix c (l_cfg l)) None [] x) as [sel x1] eqn:E.
  rewrite <- Hsel. cbn [fst snd] in *. subst x1. split; [reflexivity|].
  destruct sel as [|t r] eqn:Es; [split; reflexivity|]. rewrite <- Es in *.
  destruct (microstep lg_fixed ex_fixed c (upd_flags l (l_spont l) false) (emit TMsB x) _ _ sel false) as [l1 x2] eqn:Em.
  cbn [fst snd] in *. exact HM.
Qed.

End FlatH.
