(* SelectConformRoot.v -- Appendix D's configuration does not contain the <scxml> element, the engine's
   does (index 0).  Spec.select_transitions gives the same answer with and without it, provided no
   condition asks In(<the root's id>) (the root has no id in the fragment).  Proofs only. *)
From V Require Import Base NameMatch Chart Exec Large Spec SelectConform.
Local Open Scope nat_scope.

Fixpoint mentions (sid : N) (e : bexpr) : bool :=
  match e with
  | BIn s => (s =? sid)%N
  | BNot a => mentions sid a
  | BAnd a b | BOr a b => mentions sid a || mentions sid b
  | _ => false
  end.

(* no condition mentions the root's sid *)
Definition root_unmentionedb (c : fchart) : bool :=
  forallb (fun ti => match ft_cond (tr c ti) with
                     | Some cnd => negb (mentions (fs_sid (st c 0)) cnd)
                     | None => true
                     end) (seq 0 (ntrans c)).

Lemma beval_ext inst1 inst2 s e :
  (forall sid, mentions sid e = true -> inst1 sid = inst2 sid) -> beval inst1 s e = beval inst2 s e.
Proof.
  induction e as [| |sid|a b|a IHa|a IHa b IHb|a IHa b IHb|]; intros H; cbn [beval]; try reflexivity.
  - rewrite (H sid); [reflexivity|]. cbn. apply N.eqb_refl.
  - rewrite IHa; [reflexivity | exact H].
  - rewrite IHa, IHb; [reflexivity | |]; intros sid Hs; apply H; cbn [mentions]; rewrite Hs; [apply orb_true_r | reflexivity].
  - rewrite IHa, IHb; [reflexivity | |]; intros sid Hs; apply H; cbn [mentions]; rewrite Hs; [apply orb_true_r | reflexivity].
Qed.

Lemma fold_left_ext {A B} (f g : A -> B -> A) l : (forall a b, f a b = g a b) -> forall a, fold_left f l a = fold_left g l a.
Proof. intros H. induction l as [|b r IH]; intros a; cbn [fold_left]; [reflexivity|]. rewrite H. apply IH. Qed.

Section Root.
Variable c : fchart.
Variable cfg' : list nat.
Hypothesis root_par : fs_parent (st c 0) = None.
Hypothesis root_not_atomic : is_atomic_state c 0 = false.
Hypothesis Hun : root_unmentionedb c = true.

Lemma cond_unmentioned ti cnd : ft_cond (tr c ti) = Some cnd -> mentions (fs_sid (st c 0)) cnd = false.
Proof.
  intros Hc. destruct (Nat.lt_ge_cases ti (ntrans c)) as [Hlt|Hge].
  - unfold root_unmentionedb in Hun. rewrite forallb_forall in Hun.
    specialize (Hun ti ltac:(apply in_seq; lia)). rewrite Hc in Hun. now apply negb_true_iff in Hun.
  - unfold tr in Hc. rewrite nth_overflow in Hc by exact Hge. discriminate.
Qed.

Lemma is_true_root ti cnd x : ft_cond (tr c ti) = Some cnd ->
  is_true (inst_of c (0 :: cfg')) cnd x = is_true (inst_of c cfg') cnd x.
Proof.
  intros Hc. unfold is_true. rewrite (beval_ext (inst_of c (0 :: cfg')) (inst_of c cfg')); [reflexivity|].
  intros sid Hm. unfold inst_of. cbn [existsb].
  destruct (fs_sid (st c 0) =? sid)%N eqn:E; [|reflexivity].
  apply N.eqb_eq in E. subst sid. rewrite (cond_unmentioned ti cnd Hc) in Hm. discriminate.
Qed.

Lemma cond_match_root ti cc x : cond_match c (0 :: cfg') ti cc x = cond_match c cfg' ti cc x.
Proof.
  unfold cond_match. destruct (ft_cond (tr c ti)) as [cnd|] eqn:Hc; [|reflexivity].
  destruct (find (fun p => fst p =? ti) cc); [reflexivity|]. now rewrite (is_true_root ti cnd x Hc).
Qed.

Lemma first_enabled_root ev ts : forall cc x, first_enabled c (0 :: cfg') ev ts cc x = first_enabled c cfg' ev ts cc x.
Proof.
  induction ts as [|ti r IH]; intros cc x; cbn [first_enabled]; [reflexivity|].
  destruct (_ && negb (ft_history (tr c ti) || ft_initial (tr c ti))); [|apply IH].
  rewrite cond_match_root. destruct (cond_match c cfg' ti cc x) as [[b cc1] x1]. destruct b; [reflexivity | apply IH].
Qed.

Lemma first_in_chain_root ev chain : forall cc x, first_in_chain c (0 :: cfg') ev chain cc x = first_in_chain c cfg' ev chain cc x.
Proof.
  induction chain as [|s r IH]; intros cc x; cbn [first_in_chain]; [reflexivity|].
  rewrite first_enabled_root. destruct (first_enabled c cfg' ev (fs_trans (st c s)) cc x) as [[o cc1] x1].
  destruct o; [reflexivity | apply IH].
Qed.

Lemma is_descendant_root d : is_descendant c 0 d = false.
Proof.
  unfold is_descendant, ancs. destruct (Spec.n c) as [|m]; [reflexivity|]. cbn [proper_ancestors]. now rewrite root_par.
Qed.

Lemma compute_exit_set_root h ts : compute_exit_set c (0 :: cfg') h ts = compute_exit_set c cfg' h ts.
Proof.
  unfold compute_exit_set. apply fold_left_ext. intros acc t.
  destruct (ft_targets t); [reflexivity|]. destruct (transition_domain c h t) as [d|]; [|reflexivity].
  cbn [fold_left]. now rewrite is_descendant_root.
Qed.

Lemma remove_conflicting_root h en : remove_conflicting c (0 :: cfg') h en = remove_conflicting c cfg' h en.
Proof.
  unfold remove_conflicting. apply fold_left_ext. intros filtered t1. rewrite compute_exit_set_root.
  rewrite (fold_left_ext _ (fun (acc : bool * list nat) t2 =>
                      let '(pre, rem) := acc in
                      if pre then acc
                      else if has_intersection (compute_exit_set c cfg' h [tr c t1]) (compute_exit_set c cfg' h [tr c t2]) then
                        if is_descendant c (ft_source (tr c t1)) (ft_source (tr c t2)) then (false, rem ++ [t2])
                        else (true, rem)
                      else acc)); [reflexivity|].
  intros [pre rem] t2. now rewrite compute_exit_set_root.
Qed.

Theorem select_transitions_root h ev x :
  select_transitions c (0 :: cfg') h ev x = select_transitions c cfg' h ev x.
Proof.
  unfold select_transitions. cbn zeta. cbn [filter]. rewrite root_not_atomic.
  rewrite (fold_left_ext _ (fun (acc : list nat * cond_cache * xstate) s =>
                 let '(en, cc, x) := acc in
                 let '(o, cc', x') := first_in_chain c cfg' ev (s :: ancs c s None) cc x in
                 match o with Some ti => (addn ti en, cc', x') | None => (en, cc', x') end)).
  - destruct (fold_left _ _ _) as [[en cc] x']. now rewrite remove_conflicting_root.
  - intros [[en cc] x0] s. now rewrite first_in_chain_root.
Qed.

End Root.
