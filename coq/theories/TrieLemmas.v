(* TrieLemmas.v -- proofs about Trie.v: the words found below a prefix are exactly the added words whose
   token list extends the prefix's (induction over the insertions and the token paths), and for
   canonically spelled names this is the Recommendation's descriptor matching (NameMatch.desc_match_spec). *)
From V Require Import Base NameMatch NameMatchLemmas Trie.
Local Open Scope N_scope.

(* ------------------------------------------------------------------ words_below, unfolded *)
Fixpoint words_of_childs (l : list (bytes * trie)) : list bytes :=
  match l with
  | [] => []
  | (_, c) :: r => words_below c ++ words_of_childs r
  end.

Lemma words_below_eq t :
  words_below t = (match trie_word t with Some w => [w] | None => [] end) ++ words_of_childs (trie_childs t).
Proof.
  destruct t as [wd ch]. cbn [words_below trie_word trie_childs]. f_equal.
Qed.

Definition stored (t : trie) (q : list bytes) : option bytes :=
  match find_path q t with Some n => trie_word n | None => None end.
Definition below (t : trie) (p : list bytes) : list bytes :=
  match find_path p t with Some n => words_below n | None => [] end.

Lemma beq_bytes_sym a b : beq_bytes a b = beq_bytes b a.
Proof.
  destruct (beq_bytes a b) eqn:E.
  - apply beq_bytes_eq in E. subst. symmetry. apply beq_bytes_refl.
  - destruct (beq_bytes b a) eqn:E2; [|reflexivity].
    apply beq_bytes_eq in E2. subst. now rewrite beq_bytes_refl in E.
Qed.

Lemma child_find_update k k' f ch :
  child_find k' (child_update k f ch) =
  if beq_bytes k' k then Some (f (match child_find k ch with Some c => c | None => trie_empty end))
  else child_find k' ch.
Proof.
  induction ch as [|[k0 c0] r IH]; cbn [child_update child_find].
  - reflexivity.
  - destruct (beq_bytes k k0) eqn:E.
    + apply beq_bytes_eq in E. subst k0. cbn [child_find].
      destruct (beq_bytes k' k); reflexivity.
    + cbn [child_find]. rewrite IH.
      destruct (beq_bytes k' k0) eqn:E2; [|reflexivity].
      destruct (beq_bytes k' k) eqn:E3; [|reflexivity].
      apply beq_bytes_eq in E2, E3. subst. now rewrite beq_bytes_refl in E.
Qed.

Lemma stored_cons wd ch k r :
  stored (TrieN wd ch) (k :: r) = match child_find k ch with Some c => stored c r | None => None end.
Proof. unfold stored. cbn. destruct (child_find k ch); reflexivity. Qed.

Lemma below_cons wd ch k r :
  below (TrieN wd ch) (k :: r) = match child_find k ch with Some c => below c r | None => [] end.
Proof. unfold below. cbn. destruct (child_find k ch); reflexivity. Qed.

Lemma stored_empty q : stored trie_empty q = None.
Proof. destruct q; reflexivity. Qed.
Lemma below_empty p : below trie_empty p = [].
Proof. destruct p; reflexivity. Qed.

(* ------------------------------------------------------------------ one insertion *)
Lemma words_below_add_path toks : forall w t x,
  In x (words_below (add_path toks w t)) <-> In x (words_below t) \/ (x = w /\ stored t toks = None).
Proof.
  induction toks as [|k r IH]; intros w t x.
  - destruct t as [[w0|] ch]; cbn [add_path]; rewrite !words_below_eq; cbn [trie_word trie_childs stored find_path].
    + split; [tauto|]. intros [H|[_ H]]; [exact H|discriminate].
    + cbn. split.
      * intros [H|H]; [right; split; [now symmetry|reflexivity]|left; exact H].
      * intros [H|[H _]]; [right; exact H|left; now symmetry].
  - destruct t as [wd ch]. cbn [add_path]. rewrite !words_below_eq. cbn [trie_word trie_childs].
    rewrite stored_cons, !in_app_iff.
    assert (HC : In x (words_of_childs (child_update k (add_path r w) ch)) <->
                 In x (words_of_childs ch) \/
                 (x = w /\ match child_find k ch with Some c => stored c r | None => None end = None)).
    { clear wd. induction ch as [|[k0 c0] rest IHc]; cbn [child_update child_find words_of_childs].
      - rewrite app_nil_r, IH. rewrite stored_empty. cbn. tauto.
      - destruct (beq_bytes k k0) eqn:E; cbn [words_of_childs]; rewrite !in_app_iff.
        + rewrite IH. tauto.
        + rewrite IHc. tauto. }
    rewrite HC. tauto.
Qed.

Lemma below_add_path toks : forall w t p x,
  In x (below (add_path toks w t) p) <->
  In x (below t p) \/ (x = w /\ list_prefixb p toks = true /\ stored t toks = None).
Proof.
  induction toks as [|k r IH]; intros w t p x.
  - destruct p as [|k' p'].
    + unfold below. cbn [find_path]. rewrite words_below_add_path. cbn. tauto.
    + destruct t as [[w0|] ch]; cbn [add_path]; rewrite !below_cons; cbn [list_prefixb];
        (split; [tauto|intros [H|[_ [H _]]]; [exact H|discriminate]]).
  - destruct p as [|k' p'].
    + unfold below. cbn [find_path]. rewrite words_below_add_path. cbn. tauto.
    + destruct t as [wd ch]. cbn [add_path]. rewrite !below_cons, stored_cons, child_find_update.
      cbn [list_prefixb].
      destruct (beq_bytes k' k) eqn:E.
      * apply beq_bytes_eq in E. subst k'. rewrite IH.
        destruct (child_find k ch) as [c|]; cbn [andb].
        -- tauto.
        -- rewrite below_empty, stored_empty. tauto.
      * cbn [andb]. split; [tauto|]. intros [H|[_ [H _]]]; [exact H|discriminate].
Qed.

Fixpoint list_eqb (a b : list bytes) : bool :=
  match a, b with
  | [], [] => true
  | x :: a', y :: b' => beq_bytes x y && list_eqb a' b'
  | _, _ => false
  end.
Lemma list_eqb_eq a : forall b, list_eqb a b = true <-> a = b.
Proof.
  induction a as [|x a IH]; destruct b as [|y b]; cbn; try (split; [discriminate|discriminate]); try tauto.
  rewrite andb_true_iff, beq_bytes_eq, IH. split; [intros [-> ->]; reflexivity|intros H; inversion H; auto].
Qed.

Lemma stored_add_path toks : forall w t q,
  stored (add_path toks w t) q =
  if list_eqb q toks then match stored t q with Some x => Some x | None => Some w end else stored t q.
Proof.
  induction toks as [|k r IH]; intros w t q.
  - destruct q as [|k' q'].
    + destruct t as [[w0|] ch]; reflexivity.
    + destruct t as [[w0|] ch]; cbn [add_path list_eqb]; rewrite !stored_cons; reflexivity.
  - destruct q as [|k' q'].
    + destruct t as [wd ch]. reflexivity.
    + destruct t as [wd ch]. cbn [add_path list_eqb]. rewrite !stored_cons, child_find_update.
      destruct (beq_bytes k' k) eqn:E; cbn [andb].
      * apply beq_bytes_eq in E. subst k'. rewrite IH.
        destruct (child_find k ch) as [c|]; [reflexivity|].
        rewrite stored_empty. destruct (list_eqb q' r); reflexivity.
      * reflexivity.
Qed.

(* ------------------------------------------------------------------ a stored word is below every prefix of its path *)
Lemma child_find_words k ch c x :
  child_find k ch = Some c -> In x (words_below c) -> In x (words_of_childs ch).
Proof.
  induction ch as [|[k0 c0] r IH]; cbn [child_find words_of_childs]; [discriminate|].
  rewrite in_app_iff. destruct (beq_bytes k k0).
  - intros H. inversion H. subst. tauto.
  - intros H1 H2. right. now apply IH.
Qed.

Lemma stored_in_words q : forall t x, stored t q = Some x -> In x (words_below t).
Proof.
  induction q as [|k r IH]; intros t x.
  - unfold stored. cbn. rewrite words_below_eq. intros ->. cbn. now left.
  - destruct t as [wd ch]. rewrite stored_cons, words_below_eq. cbn [trie_word trie_childs].
    destruct (child_find k ch) as [c|] eqn:E; [|discriminate].
    intros H. apply in_or_app. right. eapply child_find_words; [exact E|]. now apply IH.
Qed.

Lemma stored_below p : forall t q x,
  stored t q = Some x -> list_prefixb p q = true -> In x (below t p).
Proof.
  induction p as [|k' p' IH]; intros t q x Hs Hp.
  - unfold below. cbn. eapply stored_in_words; eassumption.
  - destruct q as [|k r]; [discriminate|]. cbn in Hp. apply andb_true_iff in Hp as [E Hp].
    apply beq_bytes_eq in E. subst k'. destruct t as [wd ch].
    rewrite stored_cons in Hs. rewrite below_cons.
    destruct (child_find k ch) as [c|]; [|discriminate]. eapply IH; eassumption.
Qed.

(* ------------------------------------------------------------------ all insertions *)
Definition canonical (w : bytes) : Prop := w <> [] /\ join_dots (dot_tokens w) = w.

Lemma canonical_name_spec w : canonical_name w = true <-> canonical w.
Proof.
  unfold canonical_name, canonical. destruct w as [|c r].
  - split; [discriminate|intros [H _]; now elim H].
  - rewrite beq_bytes_eq. split; [intros H; split; [discriminate|exact H]|intros [_ H]; exact H].
Qed.

(* every stored word sits at the path of its own tokens *)
Definition good (t : trie) : Prop :=
  forall q x, stored t q = Some x -> q = dot_tokens x /\ canonical x.

Lemma good_empty : good trie_empty.
Proof. intros q x. rewrite stored_empty. discriminate. Qed.

Lemma good_add w t : good t -> canonical w -> good (add_word w t).
Proof.
  intros G C q x. unfold add_word. rewrite stored_add_path.
  destruct (list_eqb q (dot_tokens w)) eqn:E.
  - apply list_eqb_eq in E. subst q.
    destruct (stored t (dot_tokens w)) as [x0|] eqn:S.
    + intros H. inversion H. subst x0. now apply G.
    + intros H. inversion H. subst x. split; [reflexivity|exact C].
  - apply G.
Qed.

Lemma below_fold ws : forall t0 p x,
  good t0 -> (forall w, In w ws -> canonical w) ->
  (In x (below (fold_left (fun t w => add_word w t) ws t0) p) <->
   In x (below t0 p) \/ (In x ws /\ list_prefixb p (dot_tokens x) = true)).
Proof.
  induction ws as [|w r IH]; intros t0 p x G C.
  - cbn. tauto.
  - cbn [fold_left]. rewrite IH; [|apply good_add; [exact G|apply C; now left]|intros; apply C; now right].
    unfold add_word at 1. rewrite below_add_path. cbn [In]. split.
    + intros [[H|[-> [H _]]]|[H1 H2]]; [now left|right; split; [now left|exact H]|right; split; [now right|exact H2]].
    + intros [H|[[->|H1] H2]]; [left; now left| |right; split; assumption].
      destruct (stored t0 (dot_tokens x)) as [x0|] eqn:S.
      * left. left. destruct (G _ _ S) as [E [_ J]].
        assert (x0 = x). { rewrite <- J. rewrite <- E. apply C. now left. }
        subst x0. eapply stored_below; eassumption.
      * left. right. repeat split; assumption.
Qed.

(* the words getWordsWithPrefix returns: exactly the added names whose tokens extend the tokens of the prefix *)
Theorem words_with_prefix_spec ws d x :
  (forall w, In w ws -> canonical_name w = true) ->
  (In x (words_with_prefix (trie_of ws) d) <-> In x ws /\ list_prefixb (dot_tokens d) (dot_tokens x) = true).
Proof.
  intros C. unfold words_with_prefix, trie_of.
  change (match find_path (dot_tokens d) ?t with Some n => words_below n | None => [] end) with (below t (dot_tokens d)).
  rewrite below_fold; [|apply good_empty|intros w H; apply canonical_name_spec; now apply C].
  rewrite below_empty. cbn. tauto.
Qed.

(* ------------------------------------------------------------------ getNextToken and the token list *)
Lemma take_token_aux l : forall cur,
  dot_tokens_aux cur l =
  let '(t, rest) := take_token l in
  match rev cur ++ t with
  | [] => match rest with Some r => dot_tokens_aux [] r | None => [] end
  | tok => tok :: match rest with Some r => dot_tokens_aux [] r | None => [] end
  end.
Proof.
  induction l as [|c r IH]; intros cur; cbn [dot_tokens_aux take_token].
  - rewrite app_nil_r. destruct cur as [|a cur']; [reflexivity|].
    destruct (rev (a :: cur')) eqn:E; [|reflexivity].
    apply rev_eq_nil in E. discriminate.
  - destruct (c =? c_dot) eqn:D.
    + rewrite app_nil_r. destruct cur as [|a cur']; [reflexivity|].
      destruct (rev (a :: cur')) eqn:E; [|reflexivity].
      apply rev_eq_nil in E. discriminate.
    + rewrite IH. destruct (take_token r) as [t rest]. cbn [rev]. now rewrite <- app_assoc.
Qed.

(* the loop of getNextToken calls sees exactly the tokens of dot_tokens *)
Lemma dot_tokens_next_token l :
  dot_tokens l =
  let '(t, rest) := next_token l in
  (match t with [] => [] | _ => [t] end) ++ match rest with Some r => dot_tokens r | None => [] end.
Proof.
  unfold dot_tokens. induction l as [|c r IH]; [reflexivity|].
  cbn [next_token]. destruct (c =? c_dot) eqn:D.
  - cbn [dot_tokens_aux]. rewrite D. exact IH.
  - rewrite take_token_aux. cbn [rev app]. destruct (take_token (c :: r)) as [t rest].
    destruct t; reflexivity.
Qed.

(* ------------------------------------------------------------------ token prefix = the Recommendation's matching, on canonical names *)
Definition dotfree (t : bytes) : Prop := forall c, In c t -> (c =? c_dot) = false.
Definition good_tok (t : bytes) : Prop := t <> [] /\ dotfree t.

Lemma dot_tokens_aux_dotfree t : forall cur rest, dotfree t ->
  dot_tokens_aux cur (t ++ rest) = dot_tokens_aux (rev t ++ cur) rest.
Proof.
  induction t as [|c t IH]; intros cur rest H; [reflexivity|].
  cbn [app dot_tokens_aux]. rewrite (H c (or_introl eq_refl)).
  rewrite IH; [|intros c' Hc; apply H; now right]. cbn [rev]. now rewrite <- app_assoc.
Qed.

Lemma dot_tokens_join ts : Forall good_tok ts -> dot_tokens (join_dots ts) = ts.
Proof.
  unfold dot_tokens. induction 1 as [|t r [Hn Hd] Hr IH]; [reflexivity|].
  destruct r as [|t2 r'].
  - cbn [join_dots]. rewrite <- (app_nil_r t) at 1. rewrite dot_tokens_aux_dotfree by exact Hd.
    cbn [dot_tokens_aux]. rewrite app_nil_r.
    destruct (rev t) eqn:E; [apply rev_eq_nil in E; contradiction|].
    rewrite <- E, rev_involutive. reflexivity.
  - change (join_dots (t :: t2 :: r')) with (t ++ c_dot :: join_dots (t2 :: r')).
    rewrite dot_tokens_aux_dotfree by exact Hd. cbn [dot_tokens_aux].
    change (c_dot =? c_dot) with true. cbn iota. rewrite app_nil_r.
    destruct (rev t) eqn:E; [apply rev_eq_nil in E; contradiction|].
    rewrite <- E, rev_involutive. now rewrite IH.
Qed.

Lemma dot_tokens_aux_good l : forall cur,
  (forall c, In c cur -> (c =? c_dot) = false) -> Forall good_tok (dot_tokens_aux cur l).
Proof.
  assert (R : forall cur : bytes, cur <> [] -> (forall c, In c cur -> (c =? c_dot) = false) -> good_tok (rev cur)).
  { intros cur Hn Hd. split.
    - intros E. apply rev_eq_nil in E. contradiction.
    - intros c Hc. apply Hd. now apply in_rev. }
  induction l as [|c r IH]; intros cur Hd; cbn [dot_tokens_aux].
  - destruct cur as [|a cur']; constructor; [|constructor]. apply R; [discriminate|exact Hd].
  - destruct (c =? c_dot) eqn:D.
    + destruct cur as [|a cur'].
      * apply IH. intros c' [].
      * constructor; [apply R; [discriminate|exact Hd]|]. apply IH. intros c' [].
    + apply IH. intros c' [<-|H]; [exact D|now apply Hd].
Qed.

Lemma canonical_tokens w : canonical w ->
  exists ts, ts <> [] /\ Forall good_tok ts /\ w = join_dots ts.
Proof.
  intros [Hn J]. exists (dot_tokens w). split; [|split].
  - intros E. rewrite E in J. cbn in J. now subst w.
  - apply dot_tokens_aux_good. intros c [].
  - now symmetry.
Qed.

Lemma beq_bytes_app_dot t u x y : dotfree t -> dotfree u ->
  beq_bytes (t ++ c_dot :: x) (u ++ c_dot :: y) = beq_bytes t u && beq_bytes x y.
Proof.
  revert u. induction t as [|a t IH]; intros u Ht Hu.
  - destruct u as [|b u]; cbn [app beq_bytes].
    + now rewrite N.eqb_refl.
    + rewrite (N.eqb_sym c_dot b), (Hu b (or_introl eq_refl)). reflexivity.
  - destruct u as [|b u]; cbn [app beq_bytes].
    + rewrite (Ht a (or_introl eq_refl)). reflexivity.
    + rewrite IH; [now rewrite andb_assoc| |]; intros c Hc; [apply Ht|apply Hu]; now right.
Qed.

Lemma is_prefix_app_dot t u x y : dotfree t -> dotfree u ->
  is_prefix (t ++ c_dot :: x) (u ++ c_dot :: y) = beq_bytes t u && is_prefix x y.
Proof.
  revert u. induction t as [|a t IH]; intros u Ht Hu.
  - destruct u as [|b u]; cbn [app beq_bytes is_prefix].
    + now rewrite N.eqb_refl.
    + rewrite (N.eqb_sym c_dot b), (Hu b (or_introl eq_refl)). reflexivity.
  - destruct u as [|b u]; cbn [app beq_bytes is_prefix].
    + rewrite (Ht a (or_introl eq_refl)). reflexivity.
    + rewrite IH; [now rewrite andb_assoc| |]; intros c Hc; [apply Ht|apply Hu]; now right.
Qed.

Lemma beq_dotfree_vs_dot t u x : dotfree u -> beq_bytes (t ++ c_dot :: x) u = false.
Proof.
  intros Hu. destruct (beq_bytes (t ++ c_dot :: x) u) eqn:E; [|reflexivity].
  apply beq_bytes_eq in E. subst u.
  specialize (Hu c_dot). rewrite in_app_iff in Hu. cbn in Hu.
  discriminate Hu. right. now left.
Qed.

Lemma is_prefix_dot_vs_dotfree t u x : dotfree u -> is_prefix (t ++ c_dot :: x) u = false.
Proof.
  intros Hu. destruct (is_prefix (t ++ c_dot :: x) u) eqn:E; [|reflexivity].
  apply is_prefix_spec in E as [s E]. subst u.
  specialize (Hu c_dot). rewrite !in_app_iff in Hu. cbn in Hu.
  discriminate Hu. left. right. now left.
Qed.

Lemma is_prefix_dotfree_dot t u y : dotfree t -> dotfree u ->
  is_prefix (t ++ [c_dot]) (u ++ c_dot :: y) = beq_bytes t u.
Proof.
  intros Ht Hu. rewrite is_prefix_app_dot by assumption. cbn. apply andb_true_r.
Qed.

Lemma beq_app_nil_r (t u : bytes) : beq_bytes t (u ++ []) = beq_bytes t u.
Proof. now rewrite app_nil_r. Qed.

(* td non-empty list of good tokens *)
Lemma token_prefix_is_spec td : forall tw,
  td <> [] -> Forall good_tok td -> Forall good_tok tw ->
  list_prefixb td tw =
  beq_bytes (join_dots td) (join_dots tw) || is_prefix (join_dots td ++ [c_dot]) (join_dots tw).
Proof.
  induction td as [|t td' IH]; intros tw Hn Hd Hw; [contradiction|].
  inversion Hd as [|? ? [Htn Htd] Hd']; subst.
  destruct td' as [|t2 td''].
  - (* a single token *)
    destruct tw as [|u tw']; cbn [list_prefixb join_dots].
    + destruct t; [contradiction|]. reflexivity.
    + inversion Hw as [|? ? [Hun Hud] Hw']; subst.
      destruct tw' as [|u2 tw''].
      * cbn [list_prefixb join_dots]. rewrite andb_true_r.
        rewrite <- (app_nil_r t) at 3.
        replace (is_prefix ((t ++ []) ++ [c_dot]) u) with false; [now rewrite orb_false_r|].
        symmetry. rewrite app_nil_r. apply is_prefix_dot_vs_dotfree. exact Hud.
      * change (join_dots (u :: u2 :: tw'')) with (u ++ c_dot :: join_dots (u2 :: tw'')).
        cbn [list_prefixb]. rewrite andb_true_r.
        rewrite is_prefix_dotfree_dot by assumption.
        replace (beq_bytes t (u ++ c_dot :: join_dots (u2 :: tw''))) with false; [reflexivity|].
        symmetry. rewrite beq_bytes_sym. apply beq_dotfree_vs_dot. exact Htd.
  - (* at least two tokens *)
    change (join_dots (t :: t2 :: td'')) with (t ++ c_dot :: join_dots (t2 :: td'')).
    destruct tw as [|u tw']; cbn [list_prefixb].
    + cbn [join_dots]. destruct t; [contradiction|]. reflexivity.
    + inversion Hw as [|? ? [Hun Hud] Hw']; subst.
      destruct tw' as [|u2 tw''].
      * cbn [list_prefixb join_dots]. rewrite andb_false_r.
        rewrite beq_dotfree_vs_dot by exact Hud.
        rewrite <- app_assoc. cbn [app].
        rewrite is_prefix_dot_vs_dotfree by exact Hud. reflexivity.
      * change (join_dots (u :: u2 :: tw'')) with (u ++ c_dot :: join_dots (u2 :: tw'')).
        rewrite beq_bytes_app_dot by assumption.
        rewrite <- app_assoc. cbn [app].
        change (t ++ c_dot :: join_dots (t2 :: td'') ++ [c_dot]) with (t ++ c_dot :: (join_dots (t2 :: td'') ++ [c_dot])).
        rewrite is_prefix_app_dot by assumption.
        change (beq_bytes t2 u2 && list_prefixb td'' tw'') with (list_prefixb (t2 :: td'') (u2 :: tw'')).
        rewrite (IH (u2 :: tw'')); [|discriminate|exact Hd'|exact Hw'].
        destruct (beq_bytes t u); reflexivity.
Qed.

(* for canonical d and w: d is a token prefix of w iff d = w or "d." is a prefix of w *)
Theorem token_prefix_matches d w :
  canonical_name d = true -> canonical_name w = true ->
  list_prefixb (dot_tokens d) (dot_tokens w) = beq_bytes d w || is_prefix (d ++ [c_dot]) w.
Proof.
  intros Cd Cw. apply canonical_name_spec in Cd, Cw.
  destruct (canonical_tokens _ Cd) as [td [Hn [Hd Ed]]].
  destruct (canonical_tokens _ Cw) as [tw [_ [Hw Ew]]].
  subst d w. rewrite !dot_tokens_join by assumption.
  now apply token_prefix_is_spec.
Qed.

(* ------------------------------------------------------------------ the guard of one transition *)

Lemma existsb_flat_map {A B} (f : B -> bool) (g : A -> list B) l :
  existsb f (flat_map g l) = existsb (fun a => existsb f (g a)) l.
Proof. induction l as [|a l IH]; cbn; [reflexivity|]. now rewrite existsb_app, IH. Qed.

Lemma existsb_ext_in {A} (f g : A -> bool) l :
  (forall a, In a l -> f a = g a) -> existsb f l = existsb g l.
Proof.
  induction l as [|a l IH]; intros H; cbn; [reflexivity|].
  rewrite H by now left. rewrite IH; [reflexivity|]. intros; apply H; now right.
Qed.

Lemma existsb_beq_in (l : list bytes) name : existsb (fun w => beq_bytes w name) l = true <-> In name l.
Proof.
  rewrite existsb_exists. split.
  - intros [w [H E]]. apply beq_bytes_eq in E. now subst.
  - intros H. exists name. split; [exact H|apply beq_bytes_refl].
Qed.

Theorem resolve_attr_correct v ws attr name :
  (forall w, In w ws -> canonical_name w = true) ->
  In name ws ->
  forallb resolvable_desc (tokens attr) = true ->
  resolved_match (resolve_attr v (trie_of ws) attr) name = name_match_spec attr name.
Proof.
  intros C Hin R. unfold resolve_attr.
  assert (Hname : name <> []).
  { apply C in Hin. apply canonical_name_spec in Hin. apply Hin. }
  assert (NoStar : existsb (fun d => beq_bytes d [c_star]) (tokens attr) = false).
  { destruct (existsb _ (tokens attr)) eqn:E; [|reflexivity].
    apply existsb_exists in E as [d [Hd E]].
    rewrite forallb_forall in R. specialize (R d Hd). unfold resolvable_desc in R.
    rewrite E in R. discriminate. }
  destruct (beq_bytes attr [c_star]) eqn:EA.
  - (* the whole attribute is "*": excluded by resolvable_desc *)
    apply beq_bytes_eq in EA. subst attr. cbn in R. discriminate.
  - rewrite NoStar, andb_false_r. cbn [resolved_match].
    unfold name_match_spec. destruct name as [|c0 n0]; [contradiction|].
    rewrite existsb_flat_map. apply existsb_ext_in. intros d Hd.
    rewrite forallb_forall in R. specialize (R d Hd). unfold resolvable_desc in R.
    apply andb_true_iff in R as [R Cn]. apply andb_true_iff in R as [Ns Es].
    apply beq_bytes_eq in Es. unfold desc_match_spec.
    apply negb_true_iff in Ns. rewrite Ns. cbn [orb]. rewrite <- Es.
    rewrite <- token_prefix_matches; [|exact Cn|now apply C].
    destruct (list_prefixb (dot_tokens (strip_desc d)) (dot_tokens (c0 :: n0))) eqn:P.
    + apply existsb_beq_in. apply words_with_prefix_spec; [exact C|]. split; assumption.
    + destruct (existsb (fun w => beq_bytes w (c0 :: n0)) (words_with_prefix (trie_of ws) (strip_desc d))) eqn:EE; [|reflexivity].
      apply existsb_beq_in in EE. apply words_with_prefix_spec in EE; [|exact C].
      destruct EE as [_ EE]. rewrite EE in P. discriminate.
Qed.

(* the hypothesis is satisfiable, and the resolution is not trivial *)
Example resolve_attr_example :
  let ws := [[101]; [101; 46; 120]; [102]; [100; 111; 110; 101; 46; 115; 116; 97; 116; 101; 46; 115; 49]] in
  forallb canonical_name ws = true /\
  forallb resolvable_desc (tokens [101; 46; 42; 32; 102]) = true /\
  resolve_attr tv_as_written (trie_of ws) [101; 46; 42; 32; 102] = Some [[101]; [101; 46; 120]; [102]].
Proof. vm_compute. repeat split. Qed.

(* "f *": the Recommendation matches every event, the emitted guard only "f" *)
Theorem star_in_list_refuted :
  exists ws attr name,
    (forall w, In w ws -> canonical_name w = true) /\ In name ws /\ wf_descs attr = true /\
    resolved_match (resolve_attr tv_as_written (trie_of ws) attr) name <> name_match_spec attr name.
Proof.
  exists [[101]; [102]], [102; 32; 42], [101]. split; [|split; [|split]].
  - intros w [<-|[<-|[]]]; reflexivity.
  - now left.
  - reflexivity.
  - vm_compute. discriminate.
Qed.

(* with the wildcard recognised among several descriptors the resolution is right again on that input *)
Example star_in_list_repaired :
  resolved_match (resolve_attr tv_repaired (trie_of [[101]; [102]]) [102; 32; 42]) [101] = name_match_spec [102; 32; 42] [101].
Proof. reflexivity. Qed.
