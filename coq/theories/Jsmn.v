(* Jsmn.v -- executable model of the jsmn tokenizer (contrib/src/jsmn/jsmn.c) as it is compiled into
   libuscxml: JSMN_STRICT undefined (every unquoted run of printable characters is a primitive, ':'
   ends a primitive) and JSMN_PARENT_LINKS undefined (closing brackets search the token array
   backwards).  GenJsmnEsc.v (regenerated from the source on every run) records the compile mode and
   the character lists; JsmnLemmas.v proves that they are the ones modelled here.  Model only.

   jsmn reads a NUL-terminated C string: [jsmn_parse] is applied to the prefix of the input before
   the first NUL byte ([cstr]).  The three functions jsmn_parse / jsmn_parse_string /
   jsmn_parse_primitive are one pass over the characters; the model is that pass with the function
   being executed as the mode:
     MMain            the for-loop of jsmn_parse
     MStr start       the for-loop of jsmn_parse_string (start = position of the opening quote)
     MStrEsc start    after a backslash inside a string
     MPrim start      the for-loop of jsmn_parse_primitive
   The token array is kept as the list of allocated tokens in reverse order (tokens[toknext-1] first);
   tokens[i] for i >= toknext are untouched by jsmn (zero-filled by the caller). *)
From V Require Import Base.
Local Open Scope N_scope.

Inductive jsmnerr := JNOMEM | JINVAL | JPART.

(* jsmntype_t: JSMN_PRIMITIVE = 0, JSMN_OBJECT = 1, JSMN_ARRAY = 2, JSMN_STRING = 3 *)
Definition T_PRIM : N := 0.
Definition T_OBJECT : N := 1.
Definition T_ARRAY : N := 2.
Definition T_STRING : N := 3.

(* jsmntok_t without its [size] field: jsmn only ever increments it (tokens[toksuper].size++) and neither
   jsmn nor Data::fromJSON reads it; the model keeps the bounds check of that write ([super_size_incr])
   and drops the value. *)
Record token := { ttype : N; tstart : Z; tend : Z }.
Definition zero_token : token := {| ttype := 0; tstart := 0; tend := 0 |}.

Record pstate := { toks_rev : list token;     (* tokens[toknext-1] :: ... :: tokens[0] *)
                   toksuper : Z }.
Definition toknext (st : pstate) : nat := length (toks_rev st).
Definition pstate0 : pstate := {| toks_rev := []; toksuper := (-1)%Z |}.   (* jsmn_init *)

Inductive pmode := MMain | MStr (start : nat) | MStrEsc (start : nat) | MPrim (start : nat).

(* outcome of one step / of the parse.  JOob: an index outside the allocated part of the token
   array would be written (tokens[toksuper].size++). *)
Inductive jres (A : Type) := JOk (a : A) | JErr (e : jsmnerr) | JOob.
Arguments JOk {A} a. Arguments JErr {A} e. Arguments JOob {A}.

Definition c_lbrace : N := 123.
Definition c_rbrace : N := 125.
Definition c_lbrack : N := 91.
Definition c_rbrack : N := 93.
Definition c_quote : N := 34.
Definition c_bslash : N := 92.
Definition c_colon : N := 58.
Definition c_comma : N := 44.

(* case '\t' : case '\r' : case '\n' : case ':' : case ',': case ' ': break; *)
Definition jsmn_skip (c : N) : bool :=
  (c =? 9) || (c =? 13) || (c =? 10) || (c =? c_colon) || (c =? c_comma) || (c =? 32).

(* the switch of jsmn_parse_primitive (non-strict: ':' included) *)
Definition prim_delim (c : N) : bool :=
  (c =? c_colon) || (c =? 9) || (c =? 13) || (c =? 10) || (c =? 32) || (c =? c_comma) ||
  (c =? c_rbrack) || (c =? c_rbrace).

(* js[pos] < 32 || js[pos] >= 127 on (signed or unsigned) char *)
Definition prim_invalid (c : N) : bool := (c <? 32) || (127 <=? c).

(* allowed escaped symbols of jsmn_parse_string, 'u' included *)
Definition str_escape_ok (c : N) : bool :=
  (c =? 34) || (c =? 47) || (c =? 92) || (c =? 98) || (c =? 102) || (c =? 114) || (c =? 110) ||
  (c =? 116) || (c =? 117).

Definition is_open (t : token) : bool := negb (tstart t =? -1)%Z && (tend t =? -1)%Z.

(* if (parser->toksuper != -1) tokens[parser->toksuper].size++;
   the write is inside the allocated tokens iff 0 <= toksuper < toknext *)
Definition super_size_incr (st : pstate) : jres pstate :=
  if (toksuper st =? -1)%Z then JOk st
  else if (toksuper st <? 0)%Z then JOob
  else if (Z.to_nat (toksuper st) <? toknext st)%nat then JOk st
  else JOob.

(* jsmn_alloc_token + jsmn_fill_token *)
Definition alloc (budget : nat) (st : pstate) (t : token) : jres pstate :=
  if (budget <=? toknext st)%nat then JErr JNOMEM
  else JOk {| toks_rev := t :: toks_rev st; toksuper := toksuper st |}.

(* closing bracket, first loop: for (i = toknext-1; i >= 0; i--) find the open token, check its type,
   set its end.  Returns the updated reversed list and the number of tokens skipped before the hit. *)
Fixpoint close_first (r : list token) (ty : N) (pos : nat) : jres (list token) :=
  match r with
  | [] => JErr JINVAL                                    (* i == -1: unmatched closing bracket *)
  | t :: r' =>
    if is_open t then
      if negb (ttype t =? ty) then JErr JINVAL
      else JOk ({| ttype := ttype t; tstart := tstart t; tend := Z.of_nat pos + 1 |} :: r')
    else match close_first r' ty pos with
         | JOk r'' => JOk (t :: r'')
         | JErr e => JErr e
         | JOob => JOob
         end
  end.

(* second loop: for (; i >= 0; i--) the next open token becomes toksuper; the index of the head of
   [r] is [length r - 1].  The first loop sets toksuper = -1. *)
Fixpoint find_super (r : list token) : Z :=
  match r with
  | [] => (-1)%Z
  | t :: r' => if is_open t then Z.of_nat (length r') else find_super r'
  end.

(* the body of jsmn_parse's switch for character [c] at [pos]; yields the next mode *)
Definition main_char (budget : nat) (c : N) (pos : nat) (st : pstate) : jres (pmode * pstate) :=
  if (c =? c_lbrace) || (c =? c_lbrack) then
    match alloc budget st {| ttype := if c =? c_lbrace then T_OBJECT else T_ARRAY;
                             tstart := Z.of_nat pos; tend := -1 |} with
    | JOk st1 =>
      (* the size of the parent is incremented after the allocation, on the old toksuper *)
      match super_size_incr st1 with
      | JOk st2 => JOk (MMain, {| toks_rev := toks_rev st2; toksuper := Z.of_nat (toknext st2) - 1 |})
      | JErr e => JErr e
      | JOob => JOob
      end
    | JErr e => JErr e
    | JOob => JOob
    end
  else if (c =? c_rbrace) || (c =? c_rbrack) then
    match close_first (toks_rev st) (if c =? c_rbrace then T_OBJECT else T_ARRAY) pos with
    | JOk r => JOk (MMain, {| toks_rev := r; toksuper := find_super r |})
    | JErr e => JErr e
    | JOob => JOob
    end
  else if c =? c_quote then JOk (MStr pos, st)
  else if jsmn_skip c then JOk (MMain, st)
  else (* default: jsmn_parse_primitive, whose loop looks at this character first *)
    if prim_delim c then JOk (MMain, st)               (* unreachable: all delimiters are handled above *)
    else if prim_invalid c then JErr JINVAL
    else JOk (MPrim pos, st).

(* `found:` of jsmn_parse_primitive, followed by the size++ in jsmn_parse *)
Definition prim_found (budget : nat) (start pos : nat) (st : pstate) : jres pstate :=
  match alloc budget st {| ttype := T_PRIM; tstart := Z.of_nat start; tend := Z.of_nat pos |} with
  | JOk st1 => super_size_incr st1
  | r => r
  end.

Definition any_open (r : list token) : bool := existsb is_open r.

Fixpoint jsmn_run (budget : nat) (js : bytes) (pos : nat) (m : pmode) (st : pstate) : jres pstate :=
  match js with
  | [] =>
    (* js[pos] == '\0' *)
    match m with
    | MMain => if any_open (toks_rev st) then JErr JPART else JOk st
    | MStr _ => JErr JPART
    | MStrEsc _ => JErr JINVAL            (* switch (js[pos]) on the terminator: default *)
    | MPrim start =>
      match prim_found budget start pos st with
      | JOk st1 => if any_open (toks_rev st1) then JErr JPART else JOk st1
      | r => r
      end
    end
  | c :: r =>
    match m with
    | MMain =>
      match main_char budget c pos st with
      | JOk (m', st') => jsmn_run budget r (S pos) m' st'
      | JErr e => JErr e
      | JOob => JOob
      end
    | MStr start =>
      if c =? c_quote then
        match alloc budget st {| ttype := T_STRING; tstart := Z.of_nat start + 1; tend := Z.of_nat pos |} with
        | JOk st1 =>
          match super_size_incr st1 with
          | JOk st2 => jsmn_run budget r (S pos) MMain st2
          | r' => r'
          end
        | r' => r'
        end
      else if c =? c_bslash then jsmn_run budget r (S pos) (MStrEsc start) st
      else jsmn_run budget r (S pos) (MStr start) st
    | MStrEsc start =>
      if str_escape_ok c then jsmn_run budget r (S pos) (MStr start) st else JErr JINVAL
    | MPrim start =>
      if prim_delim c then
        (* found: the token ends before [c]; pos-- / pos++ make the main loop look at [c] again *)
        match prim_found budget start pos st with
        | JOk st1 =>
          match main_char budget c pos st1 with
          | JOk (m', st') => jsmn_run budget r (S pos) m' st'
          | JErr e => JErr e
          | JOob => JOob
          end
        | r' => r'
        end
      else if prim_invalid c then JErr JINVAL
      else jsmn_run budget r (S pos) (MPrim start) st
    end
  end.

(* the C string seen through c_str(): up to the first NUL *)
Fixpoint cstr (s : bytes) : bytes :=
  match s with
  | [] => []
  | c :: r => if c =? 0 then [] else c :: cstr r
  end.

(* jsmn_init; jsmn_parse(&p, s.c_str(), t, budget): the allocated tokens in array order *)
Definition jsmn_parse (budget : nat) (s : bytes) : jres (list token) :=
  match jsmn_run budget (cstr s) 0 MMain pstate0 with
  | JOk st => JOk (rev (toks_rev st))
  | JErr e => JErr e
  | JOob => JOob
  end.
