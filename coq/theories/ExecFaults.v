(* ExecFaults.v -- C07: the places outside Exec.v where the interpreter evaluates an expression or runs content:
   <finalize> (InterpreterImpl::dequeueExternal), <donedata> (BasicContentExecutor::raiseDoneEvent), <param> and
   <content expr> of <send> (processSend / processParams / elementAsData), delivery of an event whose target does not
   exist -- immediately (InterpreterImpl::enqueue) and from the timer thread (BasicDelayedEventQueue::timerCallback ->
   InterpreterImpl::eventReady) --, the arguments of <invoke> (BasicContentExecutor::invoke, caught by the
   micro-steppers), the initialisation of a <data> element (InterpreterImpl::initData, in an invoked session also from
   the values handed over with the invocation), and DataModel::setEvent at the two dequeue operations.  Model only; one switch per confirmed defect.

   Expressions are abstracted to what their evaluation gives ([evr]); a theorem "for all evr" is a theorem for all
   expressions in all datamodel states.  Blocks of executable content are Exec.v's. *)
From V Require Import Base Chart Exec.
Local Open Scope N_scope.

(* result of evaluating an attribute in the current state of the datamodel *)
Inductive evr := VOk (z : Z) | VSyntax | VRuntime.
Definition evr_ok (r : evr) : bool := match r with VOk _ => true | _ => false end.
(* DataModel::isLegalDataValue looks at the syntax only *)
Definition legal_value (r : evr) : bool := match r with VSyntax => false | _ => true end.

(* Event::data: nothing, a value, or Data(expr, INTERPRETED) -- an expression that DataModel::setEvent evaluates
   when the event is dequeued; [r] is what that evaluation gives *)
Inductive payload := PNone | PVal (z : Z) | PLazy (r : evr).
Record qevent := { q_ev : event; q_data : payload }.
Definition plain (e : event) : qevent := {| q_ev := e; q_data := PNone |}.

Inductive target := TSelf | TInternal | TParent | TInvoked (id : N) | TSession (id : N).

Record fstate := {
  f_store : store;
  f_iq : list qevent;                   (* internal queue, oldest first *)
  f_eq : list qevent;                   (* external queue *)
  f_delayed : list (qevent * target);   (* events waiting in the delayed queue *)
  f_invoked : list N                    (* ids of the running invocations *)
}.
Definition fstate0 : fstate := {| f_store := []; f_iq := []; f_eq := []; f_delayed := []; f_invoked := [] |}.

Record fenv := { env_parent : bool; env_sessions : list N }.

(* how an action ends *)
Inductive outcome :=
| Ok          (* completed, no error *)
| ErrRaised   (* an error event was put into the internal queue; step() goes on *)
| Escaped.    (* an exception left Interpreter::step(), or left the timer thread (std::terminate) *)

Record fx_variant := {
  (* dequeueExternal runs <finalize> outside any try: the Event thrown to end the block leaves step() *)
  fx_finalize_unguarded : bool;
  (* <send><content expr=".."/>: elementAsData wraps the expression, setEvent evaluates it at the dequeue *)
  fx_send_content_lazy : bool;
  (* the same for <donedata><content expr=".."/> (after the syntax check isLegalDataValue) *)
  fx_donedata_content_lazy : bool;
  (* eventReady on the timer thread lets the ErrorEvent of an undeliverable event escape: std::terminate *)
  fx_timer_unguarded : bool;
  (* the micro-steppers catch the ErrorEvent of <invoke> and only log it *)
  fx_invoke_error_only_logged : bool
}.
Definition fx_pinned : fx_variant := {| fx_finalize_unguarded := true; fx_send_content_lazy := true;
  fx_donedata_content_lazy := true; fx_timer_unguarded := true; fx_invoke_error_only_logged := true |}.
Definition fx_fixed : fx_variant := {| fx_finalize_unguarded := false; fx_send_content_lazy := false;
  fx_donedata_content_lazy := false; fx_timer_unguarded := false; fx_invoke_error_only_logged := false |}.

(* ------------------------------------------------------------------ state updates *)

Definition set_iq (l : list qevent) (st : fstate) : fstate :=
  {| f_store := f_store st; f_iq := l; f_eq := f_eq st; f_delayed := f_delayed st; f_invoked := f_invoked st |}.
Definition set_eq (l : list qevent) (st : fstate) : fstate :=
  {| f_store := f_store st; f_iq := f_iq st; f_eq := l; f_delayed := f_delayed st; f_invoked := f_invoked st |}.
Definition set_delayed (l : list (qevent * target)) (st : fstate) : fstate :=
  {| f_store := f_store st; f_iq := f_iq st; f_eq := f_eq st; f_delayed := l; f_invoked := f_invoked st |}.
Definition add_invoked (i : N) (st : fstate) : fstate :=
  {| f_store := f_store st; f_iq := f_iq st; f_eq := f_eq st; f_delayed := f_delayed st; f_invoked := i :: f_invoked st |}.
Definition enq_i (q : qevent) (st : fstate) : fstate := set_iq (f_iq st ++ [q]) st.
Definition enq_e (q : qevent) (st : fstate) : fstate := set_eq (f_eq st ++ [q]) st.
Definition raise_err (e : event) (st : fstate) : fstate := enq_i (plain e) st.

Definition ext_event (name : bytes) (p : payload) : qevent :=
  {| q_ev := {| ev_name := name; ev_kind := EvExternal |}; q_data := p |}.
Definition done_event (sid : bytes) (p : payload) : qevent :=
  {| q_ev := {| ev_name := s_done_state ++ sid; ev_kind := EvInternal |}; q_data := p |}.

(* ------------------------------------------------------------------ arguments *)

(* processParams / processNameLists: evalAsData of every entry; the first failure throws *)
Definition all_ok (l : list evr) : bool := forallb evr_ok l.

(* <content expr>: wrapped ([lazy]) or evaluated; None = evalAsData threw *)
Definition content_payload (lazy : bool) (c : option evr) : option payload :=
  match c with
  | None => Some PNone
  | Some r => if lazy then Some (PLazy r) else match r with VOk z => Some (PVal z) | _ => None end
  end.
Definition content_ok (c : option evr) : bool := match c with Some r => evr_ok r | None => true end.

Definition send_args (v : fx_variant) (params : list evr) (content : option evr) : option payload :=
  if all_ok params then content_payload (fx_send_content_lazy v) content else None.

(* ------------------------------------------------------------------ delivery (SCXMLIOProcessor::eventFromSCXML) *)

Definition deliverable (env : fenv) (st : fstate) (t : target) : bool :=
  match t with
  | TSelf | TInternal => true
  | TParent => env_parent env
  | TInvoked i => existsb (N.eqb i) (f_invoked st)
  | TSession s => existsb (N.eqb s) (env_sessions env)
  end.

(* None = ERROR_COMMUNICATION_THROW *)
Definition deliver (env : fenv) (q : qevent) (t : target) (st : fstate) : option fstate :=
  if deliverable env st t then
    Some (match t with TSelf => enq_e q st | TInternal => enq_i q st | _ => st end)
  else None.

(* DataModel::setEvent: false = the wrapped expression fails, ErrorEvent thrown *)
Definition set_event (q : qevent) : bool :=
  match q_data q with PLazy r => evr_ok r | _ => true end.

(* ------------------------------------------------------------------ blocks (Exec.v) inside this state *)

Section Run.
Variable v : fx_variant.
Variable env : fenv.
Variable inst : N -> bool.

Fixpoint fblock_ok (b : block) (x : xstate) : bool * xstate :=
  match b with
  | [] => (true, x)
  | i :: r => let '(ok, x') := exec_instr ex_fixed inst i x in
              if ok then fblock_ok r x' else (false, x')
  end.

(* run a block of executable content on the store; what it raises and sends is appended to the queues *)
Definition run_block (b : block) (st : fstate) : bool * fstate :=
  let x0 := {| x_store := f_store st; x_iq := []; x_eq := []; x_out := [] |} in
  let '(ok, x1) := fblock_ok b x0 in
  (ok, {| f_store := x_store x1; f_iq := f_iq st ++ map plain (x_iq x1); f_eq := f_eq st ++ map plain (x_eq x1);
          f_delayed := f_delayed st; f_invoked := f_invoked st |}).

Fixpoint remove_nth {A} (k : nat) (l : list A) : list A :=
  match l, k with
  | [], _ => []
  | _ :: r, O => r
  | a :: r, S k' => a :: remove_nth k' r
  end.

Inductive action :=
| ABlock (b : block)                                   (* <onentry>, <onexit>, <transition> content: inside try/catch(...) *)
| ASend (name : bytes) (t : target) (params : list evr) (content : option evr)          (* <send>, no delay *)
| ADelayedSend (name : bytes) (t : target) (params : list evr) (content : option evr)   (* <send delay=..> *)
| ATimer (k : nat)                                     (* the delay of the k-th waiting event has passed (timer thread) *)
| ADone (sid : bytes) (params : list evr) (content : option evr)                        (* raiseDoneEvent *)
| ADequeueInt                                          (* dequeueInternal: setEvent *)
| ADequeueExt (fin : option block)                     (* dequeueExternal: setEvent, then the <finalize> of the sender *)
| AInvoke (id : N) (args : list evr) (type_known : bool)
| ADataInit (r : evr).                                 (* InterpreterImpl::initData of one <data>: from its expr / src / children or,
                                                          in an invoked session, from the <param> / namelist value of that name;
                                                          [r] is what DataModel::init makes of the value *)

Definition do_action (a : action) (st : fstate) : outcome * fstate :=
  match a with
  | ABlock b =>
      let '(ok, st') := run_block b st in ((if ok then Ok else ErrRaised), st')
  | ASend name t params content =>
      match send_args v params content with
      | None => (ErrRaised, raise_err err_exec st)
      | Some p =>
          match deliver env (ext_event name p) t st with
          | Some st' => (Ok, st')
          | None => (ErrRaised, raise_err err_comm st)     (* thrown into the block, caught by process() *)
          end
      end
  | ADelayedSend name t params content =>
      match send_args v params content with
      | None => (ErrRaised, raise_err err_exec st)
      | Some p => (Ok, set_delayed (f_delayed st ++ [(ext_event name p, t)]) st)
      end
  | ATimer k =>
      match nth_error (f_delayed st) k with
      | None => (Ok, st)
      | Some (q, t) =>
          let st1 := set_delayed (remove_nth k (f_delayed st)) st in
          match deliver env q t st1 with
          | Some st' => (Ok, st')
          | None => if fx_timer_unguarded v then (Escaped, st1) else (ErrRaised, raise_err err_comm st1)
          end
      end
  | ADone sid params content =>
      let failed := (ErrRaised, enq_i (done_event sid PNone) (raise_err err_exec st)) in
      if negb (all_ok params) then failed
      else match content with
           | None => (Ok, enq_i (done_event sid PNone) st)
           | Some r =>
               if negb (legal_value r) then failed
               else if fx_donedata_content_lazy v then (Ok, enq_i (done_event sid (PLazy r)) st)
               else match r with
                    | VOk z => (Ok, enq_i (done_event sid (PVal z)) st)
                    | _ => failed
                    end
           end
  | ADequeueInt =>
      match f_iq st with
      | [] => (Ok, st)
      | q :: r => ((if set_event q then Ok else Escaped), set_iq r st)
      end
  | ADequeueExt fin =>
      match f_eq st with
      | [] => (Ok, st)
      | q :: r =>
          let st1 := set_eq r st in
          if negb (set_event q) then (Escaped, st1)
          else match fin with
               | None => (Ok, st1)
               | Some b =>
                   let '(ok, st2) := run_block b st1 in
                   if ok then (Ok, st2)
                   else if fx_finalize_unguarded v then (Escaped, st2) else (ErrRaised, st2)
               end
      end
  | AInvoke id args type_known =>
      if all_ok args && type_known then (Ok, add_invoked id st)
      else if fx_invoke_error_only_logged v then (Ok, st)
      else (ErrRaised, raise_err err_exec st)
  | ADataInit r =>
      (* try { _dataModel.init(..) } catch (ErrorEvent e) { enqueueInternal(e) } around all three sources of the value *)
      if evr_ok r then (Ok, st) else (ErrRaised, raise_err err_exec st)
  end.

(* a sequence of actions; the first escape ends it (the embedder sees the exception / the process is gone) *)
Fixpoint run (l : list action) (st : fstate) : outcome * fstate :=
  match l with
  | [] => (Ok, st)
  | a :: r => let '(o, st') := do_action a st in
              match o with Escaped => (Escaped, st') | _ => run r st' end
  end.

(* the outcome of every action of a sequence, up to and including the first escape (what the check compares with
   the implementation's run of the corresponding document) *)
Fixpoint outcomes (l : list action) (st : fstate) : list outcome :=
  match l with
  | [] => []
  | a :: r => let '(o, st') := do_action a st in
              o :: match o with Escaped => [] | _ => outcomes r st' end
  end.

(* the specification side: does the action contain a failing evaluation / an undeliverable event / a failing block *)
Definition fails (a : action) (st : fstate) : bool :=
  match a with
  | ABlock b => negb (fst (run_block b st))
  | ASend _ t params content => negb (all_ok params && content_ok content) || negb (deliverable env st t)
  | ADelayedSend _ _ params content => negb (all_ok params && content_ok content)
  | ATimer k => match nth_error (f_delayed st) k with
                | Some (_, t) => negb (deliverable env (set_delayed (remove_nth k (f_delayed st)) st) t)
                | None => false
                end
  | ADone _ params content => negb (all_ok params && content_ok content)
  | ADequeueInt => false
  | ADequeueExt fin => match f_eq st, fin with
                       | q :: r, Some b => negb (fst (run_block b (set_eq r st)))
                       | _, _ => false
                       end
  | AInvoke _ args type_known => negb (all_ok args && type_known)
  | ADataInit r => negb (evr_ok r)
  end.

End Run.

(* platform error events in the internal queue *)
Definition q_plat (q : qevent) : bool := match ev_kind (q_ev q) with EvPlatform => true | _ => false end.
Definition n_err (st : fstate) : nat := length (filter q_plat (f_iq st)).

(* no event in any queue carries an unevaluated expression *)
Definition q_strict (q : qevent) : bool := match q_data q with PLazy _ => false | _ => true end.
Definition no_lazy (st : fstate) : Prop :=
  forallb q_strict (f_iq st) = true /\ forallb q_strict (f_eq st) = true /\
  forallb (fun p => q_strict (fst p)) (f_delayed st) = true.
