(* FifoLemmas.v -- C08: proofs about Fifo.v.  All statements are for every schedule (any length, any
   number of producers), by induction over the schedule. *)
From Coq Require Import List Bool Arith NArith Lia Permutation.
Import ListNotations.
From V Require Import Fifo.

Set Implicit Arguments.

(* ------------------------------------------------------------------------------------------------ *)
(* interleavings *)
Section InterleavePush.
  Variable A : Type.

  Lemma interleave_push : forall (ys : list A) l1 xs l2 s,
    interleave (l1 ++ xs :: l2) s -> interleave (l1 ++ (ys ++ xs) :: l2) (ys ++ s).
  Proof.
    induction ys as [|y ys IH]; intros l1 xs l2 s H; cbn; [exact H|].
    apply il_cons. apply IH. exact H.
  Qed.
End InterleavePush.

Section Interleave.
  Variables A B : Type.

  Lemma interleave_flat_map : forall (g : A -> list B) ls s,
    interleave ls s -> interleave (map (flat_map g) ls) (flat_map g s).
  Proof.
    intros g ls s H. induction H as [ls Hnil | l1 x xs l2 s H IH].
    - cbn. apply il_nil. intros l Hl. apply in_map_iff in Hl. destruct Hl as [l0 [<- Hin]].
      rewrite (Hnil _ Hin). reflexivity.
    - rewrite map_app in *. cbn [map flat_map] in *. apply interleave_push. exact IH.
  Qed.

  Lemma concat_all_nil : forall (ls : list (list A)), (forall l, In l ls -> l = []) -> concat ls = [].
  Proof.
    induction ls as [|l ls IH]; intros H; cbn; [reflexivity|].
    rewrite (H l (or_introl eq_refl)). cbn. apply IH. intros l' Hl'. apply H. right. exact Hl'.
  Qed.

  Lemma interleave_perm : forall (ls : list (list A)) s, interleave ls s -> Permutation (concat ls) s.
  Proof.
    intros ls s H. induction H as [ls Hnil | l1 x xs l2 s H IH].
    - rewrite concat_all_nil by exact Hnil. constructor.
    - rewrite concat_app in *. cbn [concat] in *.
      apply Permutation_sym. apply Permutation_trans with (x :: concat l1 ++ xs ++ concat l2).
      + constructor. apply Permutation_sym. exact IH.
      + cbn. apply (Permutation_middle (concat l1) (xs ++ concat l2) x).
  Qed.

  Lemma nth_all_nil : forall (ls : list (list A)) i, (forall l, In l ls -> l = []) -> nth i ls [] = [].
  Proof.
    intros ls i H. destruct (nth_in_or_default i ls []) as [Hin | Hd]; [apply H; exact Hin | exact Hd].
  Qed.

  Lemma interleave_single : forall (ls : list (list A)) s, interleave ls s ->
    forall i, (forall j, j <> i -> nth j ls [] = []) -> s = nth i ls [].
  Proof.
    intros ls s H. induction H as [ls Hnil | l1 x xs l2 s H IH]; intros i Hi.
    - symmetry. apply nth_all_nil. exact Hnil.
    - destruct (Nat.eq_dec (length l1) i) as [<- | Hne].
      + rewrite app_nth2 by lia. rewrite Nat.sub_diag. cbn. f_equal.
        rewrite (IH (length l1)).
        * rewrite app_nth2 by lia. rewrite Nat.sub_diag. reflexivity.
        * intros j Hj. specialize (Hi j Hj).
          destruct (Nat.lt_ge_cases j (length l1)) as [Hlt | Hge].
          -- rewrite app_nth1 in * by exact Hlt. exact Hi.
          -- rewrite app_nth2 in * by exact Hge.
             destruct (j - length l1) as [|k] eqn:Hk; [lia|]. cbn in *. exact Hi.
      + specialize (Hi (length l1) Hne). rewrite app_nth2 in Hi by lia.
        rewrite Nat.sub_diag in Hi. cbn in Hi. discriminate.
  Qed.
End Interleave.

(* ------------------------------------------------------------------------------------------------ *)
(* generic list facts *)
Section ListFacts.
  Variables A B : Type.

  Lemma prefix_nil : forall (l : list A), prefix [] l.
  Proof. intros l. exact (prefix_intro [] l). Qed.

  Lemma prefix_refl : forall (l : list A), prefix l l.
  Proof. intros l. rewrite <- (app_nil_r l) at 2. constructor. Qed.

  Lemma prefix_cons : forall (x : A) a b, prefix a b -> prefix (x :: a) (x :: b).
  Proof. intros x a b H. destruct H as [a b]. exact (prefix_intro (x :: a) b). Qed.

  Lemma prefix_cons_inv : forall (x y : A) a b, prefix (x :: a) (y :: b) -> x = y /\ prefix a b.
  Proof.
    intros x y a b H. inversion H as [a0 b0 Ha Hb]. subst a0. cbn in Hb. inversion Hb. subst.
    split; [reflexivity | constructor].
  Qed.

  Lemma prefix_map : forall (g : A -> B) a b, prefix a b -> prefix (map g a) (map g b).
  Proof. intros g a b H. destruct H as [a b]. rewrite map_app. constructor. Qed.

  Lemma prefix_filter : forall (f : A -> bool) a b, prefix a b -> prefix (filter f a) (filter f b).
  Proof. intros f a b H. destruct H as [a b]. rewrite filter_app. constructor. Qed.

  Lemma prefix_length_eq : forall (a b : list A), prefix a b -> length b <= length a -> a = b.
  Proof.
    intros a b H Hl. destruct H as [a b]. rewrite app_length in Hl.
    destruct b; [rewrite app_nil_r; reflexivity | cbn in Hl; lia].
  Qed.

  Lemma subseq_refl : forall (l : list A), subseq l l.
  Proof. induction l; constructor; assumption. Qed.

  Lemma subseq_map : forall (g : A -> B) a b, subseq a b -> subseq (map g a) (map g b).
  Proof. intros g a b H. induction H; cbn; constructor; assumption. Qed.

  Lemma subseq_filter : forall (f : A -> bool) a b, subseq a b -> subseq (filter f a) (filter f b).
  Proof.
    intros f a b H. induction H as [l | x a l H IH | x a l H IH]; cbn.
    - constructor.
    - destruct (f x); [constructor|]; exact IH.
    - destruct (f x); [constructor|]; exact IH.
  Qed.

  Lemma subseq_filter_self : forall (f : A -> bool) l, subseq (filter f l) l.
  Proof.
    intros f l. induction l as [|x l IH]; cbn; [constructor|].
    destruct (f x); constructor; exact IH.
  Qed.

  Lemma subseq_app_r : forall (a b c : list A), subseq a b -> subseq a (b ++ c).
  Proof.
    intros a b c H. induction H as [l | x a l H IH | x a l H IH]; cbn; constructor; assumption.
  Qed.

  Lemma subseq_length : forall (a b : list A), subseq a b -> length a <= length b.
  Proof. intros a b H. induction H; cbn; lia. Qed.

  Lemma filter_partition_perm : forall (f : A -> bool) l,
    Permutation l (filter f l ++ filter (fun x => negb (f x)) l).
  Proof.
    intros f l. induction l as [|x l IH]; cbn; [constructor|].
    destruct (f x); cbn.
    - constructor. exact IH.
    - apply Permutation_cons_app. exact IH.
  Qed.

  Lemma nth_map_nil : forall (g : list A -> list B) (l : list (list A)) i,
    g [] = [] -> nth i (map g l) [] = g (nth i l []).
  Proof. intros g l i Hg. rewrite <- Hg at 1. apply map_nth. Qed.

  Lemma filter_all_true : forall (f : A -> bool) l, (forall x, In x l -> f x = true) -> filter f l = l.
  Proof.
    intros f l. induction l as [|x l IH]; intros H; cbn; [reflexivity|].
    rewrite (H x (or_introl eq_refl)). f_equal. apply IH. intros y Hy. apply H. right. exact Hy.
  Qed.
End ListFacts.

(* ------------------------------------------------------------------------------------------------ *)
(* ATOMIC level *)
Section FifoAtomic.
  Variable E : Type.
  Notation op := (op E).
  Notation fstate := (fstate E).
  Notation tagged := (tagged E).

  Lemma frun_from_app : forall (a b : list op) s, frun_from s (a ++ b) = frun_from (frun_from s a) b.
  Proof. intros a b s. unfold frun_from. apply fold_left_app. Qed.

  Lemma enqueued_app : forall (a b : list op), enqueued (a ++ b) = enqueued a ++ enqueued b.
  Proof. intros a b. unfold enqueued. apply flat_map_app. Qed.

  (* the representation invariant: a waiting consumer implies an empty queue *)
  Definition wait_ok (s : fstate) : Prop := fwait s = true -> fq s = [].

  (* everything that ever entered, in the order of the enqueue critical sections, is what has left
     (in the order of leaving) followed by the present content: the queue never reorders, duplicates
     or loses an element *)
  Lemma fstep_inv : forall (s : fstate) (o : op), wait_ok s ->
    map fst (fgone (fstep s o)) ++ fq (fstep s o) = map fst (fgone s) ++ fq s ++ enqueued [o]
    /\ wait_ok (fstep s o).
  Proof.
    intros s o Hw. unfold wait_ok in *.
    assert (Hq : fwait s = true -> fq s = []) by exact Hw.
    destruct o as [p e | | |]; unfold fstep, enqueued, pop; cbn [flat_map];
      destruct (fwait s) eqn:W; try rewrite (Hq eq_refl); destruct (fq s) as [|x q'] eqn:Q; cbn;
      rewrite ?map_app, ?map_map, ?app_nil_r; cbn; rewrite <- ?app_assoc; cbn; rewrite ?map_id;
      (split; [try reflexivity | try (intros; discriminate); try (intros; reflexivity)]).
    all: try (intros _; specialize (Hq eq_refl); discriminate).
    all: rewrite ?map_map; cbn; rewrite ?map_id; reflexivity.
  Qed.

  Lemma frun_from_inv : forall (sc : list op) (s : fstate), wait_ok s ->
    map fst (fgone (frun_from s sc)) ++ fq (frun_from s sc) = map fst (fgone s) ++ fq s ++ enqueued sc
    /\ wait_ok (frun_from s sc).
  Proof.
    induction sc as [|o sc IH]; intros s Hw.
    - cbn. rewrite app_nil_r. split; [reflexivity | exact Hw].
    - change (frun_from s (o :: sc)) with (frun_from (fstep s o) sc).
      destruct (fstep_inv o Hw) as [H1 H2]. destruct (IH _ H2) as [H3 H4]. split; [|exact H4].
      rewrite H3. rewrite app_assoc. rewrite H1. change (o :: sc) with ([o] ++ sc).
      rewrite enqueued_app. rewrite <- !app_assoc. reflexivity.
  Qed.

  Lemma wait_ok_init : wait_ok (@finit E).
  Proof. intros H; discriminate. Qed.

  Theorem fifo_order_invariant : forall sc : list op,
    map fst (fgone (frun sc)) ++ fq (frun sc) = enqueued sc.
  Proof. intros sc. destruct (frun_from_inv sc wait_ok_init) as [H _]. exact H. Qed.

  Lemma waiting_queue_empty : forall sc : list op, fwait (frun sc) = true -> fq (frun sc) = [].
  Proof. intros sc. destruct (frun_from_inv sc wait_ok_init) as [_ H]. exact H. Qed.

  (* multiset statement: enqueued = dequeued + dropped by reset + still queued, each exactly once *)
  Theorem fifo_permutation : forall sc : list op,
    Permutation (enqueued sc) (dequeued (frun sc) ++ dropped (frun sc) ++ fq (frun sc)).
  Proof.
    intros sc. rewrite <- fifo_order_invariant. rewrite app_assoc. apply Permutation_app_tail.
    unfold dequeued, dropped. rewrite <- map_app. apply Permutation_map. apply filter_partition_perm.
  Qed.

  (* order statement: what one producer's events look like in the dequeued sequence *)
  Theorem fifo_producer_subseq : forall (sc : list op) p,
    subseq (of_producer p (dequeued (frun sc))) (of_producer p (enqueued sc)).
  Proof.
    intros sc p. rewrite <- fifo_order_invariant. unfold of_producer, dequeued.
    apply subseq_map. apply subseq_filter. apply subseq_app_r. apply subseq_map. apply subseq_filter_self.
  Qed.

  (* without reset nothing is dropped *)
  Lemma fstep_gone_true : forall (s : fstate) (o : op), is_reset o = false ->
    (forall x, In x (fgone s) -> snd x = true) -> forall x, In x (fgone (fstep s o)) -> snd x = true.
  Proof.
    intros s o Hr H x Hx. destruct o as [p e | | |]; cbn in *; try discriminate.
    - destruct (fwait s); cbn in Hx; [|apply H; exact Hx].
      unfold pop in Hx. cbn in Hx. destruct (fq s ++ [(p, e)]) as [|y q']; cbn in Hx; [apply H; exact Hx|].
      apply in_app_or in Hx. destruct Hx as [Hx | [<- | []]]; [apply H; exact Hx | reflexivity].
    - destruct (fwait s); cbn in Hx; [apply H; exact Hx|].
      destruct (fq s) as [|y q'] eqn:Q; cbn in Hx; [apply H; exact Hx|].
      unfold pop in Hx. rewrite Q in Hx. cbn in Hx.
      apply in_app_or in Hx. destruct Hx as [Hx | [<- | []]]; [apply H; exact Hx | reflexivity].
    - destruct (fwait s); cbn in Hx; [apply H; exact Hx|].
      destruct (fq s) as [|y q'] eqn:Q; cbn in Hx; [apply H; exact Hx|].
      unfold pop in Hx. rewrite Q in Hx. cbn in Hx.
      apply in_app_or in Hx. destruct Hx as [Hx | [<- | []]]; [apply H; exact Hx | reflexivity].
  Qed.

  Lemma frun_from_gone_true : forall (sc : list op) (s : fstate), no_reset sc = true ->
    (forall x, In x (fgone s) -> snd x = true) ->
    forall x, In x (fgone (frun_from s sc)) -> snd x = true.
  Proof.
    induction sc as [|o sc IH]; intros s Hn H; [exact H|].
    cbn in Hn. apply andb_true_iff in Hn. destruct Hn as [Ho Hn].
    change (frun_from s (o :: sc)) with (frun_from (fstep s o) sc). apply IH; [exact Hn|].
    apply fstep_gone_true; [|exact H]. destruct (is_reset o); [discriminate | reflexivity].
  Qed.

  Theorem fifo_no_reset_exact : forall sc : list op, no_reset sc = true ->
    dequeued (frun sc) ++ fq (frun sc) = enqueued sc.
  Proof.
    intros sc Hn. rewrite <- fifo_order_invariant. f_equal. unfold dequeued. f_equal.
    apply filter_all_true. apply (frun_from_gone_true sc (@finit E) Hn). intros x [].
  Qed.

  Theorem fifo_producer_prefix : forall (sc : list op) p, no_reset sc = true ->
    prefix (of_producer p (dequeued (frun sc))) (of_producer p (enqueued sc)).
  Proof.
    intros sc p Hn. rewrite <- (fifo_no_reset_exact sc Hn). unfold of_producer.
    rewrite filter_app, map_app. constructor.
  Qed.

  (* enough dequeues drain the queue *)
  Lemma drain_from : forall k (s : fstate), fwait s = false -> length (fq s) <= k ->
    fq (frun_from s (repeat Deq k)) = [] /\ fwait (frun_from s (repeat Deq k)) = false.
  Proof.
    induction k as [|k IH]; intros s Hw Hl.
    - cbn. destruct (fq s); [split; [reflexivity | exact Hw] | cbn in Hl; lia].
    - cbn [repeat]. change (frun_from s (Deq :: repeat Deq k)) with (frun_from (fstep s Deq) (repeat Deq k)).
      apply IH.
      + cbn. rewrite Hw. destruct (fq s) eqn:Q; [reflexivity|]. unfold pop. rewrite Q. reflexivity.
      + cbn. rewrite Hw. destruct (fq s) eqn:Q; cbn; [lia|]. unfold pop. rewrite Q. cbn. cbn in Hl. lia.
  Qed.

  (* ---------------------------------------------------------------------------------------------- *)
  (* schedules as merges of the threads' operation lists *)

  Definition enq_of (o : op) : list tagged := match o with Enq p e => [(p, e)] | _ => [] end.
  Definition enq_of_p (p : nat) (o : op) : list E :=
    match o with Enq p' e => if Nat.eqb p' p then [e] else [] | _ => [] end.

  Lemma enqueued_cons : forall (o : op) sc, enqueued (o :: sc) = enq_of o ++ enqueued sc.
  Proof. reflexivity. Qed.

  Lemma enqueued_flat_map : forall sc : list op, enqueued sc = flat_map enq_of sc.
  Proof. reflexivity. Qed.

  Lemma of_producer_app : forall p (a b : list tagged), of_producer p (a ++ b) = of_producer p a ++ of_producer p b.
  Proof. intros p a b. unfold of_producer. rewrite filter_app, map_app. reflexivity. Qed.

  Lemma of_producer_enqueued : forall (sc : list op) p, of_producer p (enqueued sc) = flat_map (enq_of_p p) sc.
  Proof.
    intros sc p. induction sc as [|o sc IH]; [reflexivity|].
    rewrite enqueued_cons, of_producer_app, IH. cbn [flat_map]. f_equal.
    destruct o as [p' e | | |]; cbn; try reflexivity. unfold of_producer, from. cbn.
    destruct (Nat.eqb p' p); reflexivity.
  Qed.

  Lemma consumer_no_enq : forall (cons : list op), forallb (@is_consumer_op E) cons = true ->
    flat_map enq_of cons = [] /\ forall p, flat_map (enq_of_p p) cons = [].
  Proof.
    induction cons as [|o cons IH]; intros H; [split; reflexivity|].
    cbn in H. apply andb_true_iff in H. destruct H as [Ho H]. destruct (IH H) as [H1 H2].
    destruct o; cbn in Ho; try discriminate; cbn; split; try exact H1; intros p; apply H2.
  Qed.

  Lemma producer_ops_enq : forall k (es : list E), flat_map enq_of (producer_ops k es) = map (pair k) es.
  Proof. intros k es. induction es as [|e es IH]; cbn; [reflexivity | f_equal; exact IH]. Qed.

  Lemma producer_ops_enq_p : forall k p (es : list E),
    flat_map (enq_of_p p) (producer_ops k es) = if Nat.eqb k p then es else [].
  Proof.
    intros k p es. induction es as [|e es IH]; cbn; [destruct (Nat.eqb k p); reflexivity|].
    unfold producer_ops in IH. rewrite IH. destruct (Nat.eqb k p); reflexivity.
  Qed.

  Lemma nth_producers_ops_from : forall (prods : list (list E)) start k,
    nth k (producers_ops_from start prods) [] = producer_ops (start + k) (nth k prods []).
  Proof.
    induction prods as [|es prods IH]; intros start k.
    - destruct k; reflexivity.
    - destruct k as [|k]; cbn.
      + rewrite Nat.add_0_r. reflexivity.
      + replace (start + S k) with (S start + k) by lia. apply IH.
  Qed.

  Lemma concat_producers_enq : forall (prods : list (list E)) start,
    concat (map (flat_map enq_of) (producers_ops_from start prods)) = tag_all_from start prods.
  Proof.
    induction prods as [|es prods IH]; intros start; [reflexivity|].
    cbn. rewrite producer_ops_enq, IH. reflexivity.
  Qed.

  Lemma merge_enqueued_perm : forall cons (prods : list (list E)) sc,
    forallb (@is_consumer_op E) cons = true -> interleave (thread_ops cons prods) sc ->
    Permutation (tag_all prods) (enqueued sc).
  Proof.
    intros cons prods sc Hc H. apply (interleave_flat_map enq_of) in H. apply interleave_perm in H.
    unfold thread_ops in H. cbn [map concat] in H. destruct (consumer_no_enq cons Hc) as [Hn _].
    rewrite Hn in H. cbn in H. rewrite concat_producers_enq in H. exact H.
  Qed.

  Lemma merge_producer_seq : forall cons (prods : list (list E)) sc p,
    forallb (@is_consumer_op E) cons = true -> interleave (thread_ops cons prods) sc ->
    of_producer p (enqueued sc) = nth p prods [].
  Proof.
    intros cons prods sc p Hc H. rewrite of_producer_enqueued.
    apply (interleave_flat_map (enq_of_p p)) in H.
    rewrite (interleave_single H (i := S p)).
    - unfold thread_ops. cbn [map nth].
      rewrite nth_map_nil by reflexivity.
      rewrite nth_producers_ops_from. cbn [Nat.add]. rewrite producer_ops_enq_p. rewrite Nat.eqb_refl. reflexivity.
    - intros j Hj. unfold thread_ops. destruct j as [|j]; cbn [map nth].
      + apply (consumer_no_enq cons Hc).
      + rewrite nth_map_nil by reflexivity.
        rewrite nth_producers_ops_from. cbn [Nat.add]. rewrite producer_ops_enq_p.
        destruct (Nat.eqb j p) eqn:Ejp; [apply Nat.eqb_eq in Ejp; lia | reflexivity].
  Qed.

  Lemma interleave_no_reset : forall cons (prods : list (list E)) sc,
    no_reset cons = true -> interleave (thread_ops cons prods) sc -> no_reset sc = true.
  Proof.
    intros cons prods sc Hc H.
    assert (Hall : forall l, In l (thread_ops cons prods) -> no_reset l = true).
    { intros l [<- | Hl]; [exact Hc|]. clear -Hl. revert Hl. generalize 0.
      induction prods as [|es prods IH]; intros start Hl; [destruct Hl|].
      destruct Hl as [<- | Hl]; [|exact (IH _ Hl)].
      unfold no_reset, producer_ops. rewrite forallb_forall. intros o Ho. apply in_map_iff in Ho.
      destruct Ho as [e [<- _]]. reflexivity. }
    clear Hc. induction H as [ls Hnil | l1 x xs l2 s H IH]; [reflexivity|].
    assert (Hx : no_reset (x :: xs) = true) by (apply Hall; apply in_or_app; right; left; reflexivity).
    cbn in Hx. apply andb_true_iff in Hx. destruct Hx as [Hx Hxs]. cbn. rewrite Hx. cbn. apply IH.
    intros l Hl. apply in_app_or in Hl. destruct Hl as [Hl | [<- | Hl]].
    - apply Hall. apply in_or_app. left. exact Hl.
    - exact Hxs.
    - apply Hall. apply in_or_app. right. right. exact Hl.
  Qed.

  (* ---------------------------------------------------------------------------------------------- *)
  (* the oracle decides the admissibility predicate *)
  Variable eqE : E -> E -> bool.
  Hypothesis eqE_ok : forall a b, eqE a b = true <-> a = b.

  Lemma list_eqb_ok : forall a b : list E, list_eqb eqE a b = true <-> a = b.
  Proof.
    induction a as [|x a IH]; intros [|y b]; cbn; split; intros H; try reflexivity; try discriminate.
    - apply andb_true_iff in H. destruct H as [H1 H2]. apply eqE_ok in H1. apply IH in H2. subst. reflexivity.
    - inversion H; subst. apply andb_true_iff. split; [apply eqE_ok; reflexivity | apply IH; reflexivity].
  Qed.

  Lemma prefixb_ok : forall a b : list E, prefixb eqE a b = true <-> prefix a b.
  Proof.
    induction a as [|x a IH]; intros b; cbn.
    - split; intros _; [apply prefix_nil | reflexivity].
    - destruct b as [|y b]; split; intros H; try discriminate.
      + inversion H as [a0 b0 Ha Hb]; discriminate.
      + apply andb_true_iff in H. destruct H as [H1 H2]. apply eqE_ok in H1. subst y.
        apply prefix_cons. apply IH. exact H2.
      + apply prefix_cons_inv in H. destruct H as [<- H]. apply andb_true_iff.
        split; [apply eqE_ok; reflexivity | apply IH; exact H].
  Qed.

  Theorem fifo_admissibleb_ok : forall prods complete (obs : list tagged),
    fifo_admissibleb eqE prods complete obs = true <-> fifo_admissible prods complete obs.
  Proof.
    intros prods complete obs. unfold fifo_admissibleb, fifo_admissible.
    rewrite andb_true_iff, !forallb_forall. split; intros [H1 H2]; split.
    - intros x Hx. apply Nat.ltb_lt. apply H1. exact Hx.
    - intros p Hp. specialize (H2 p). rewrite in_seq in H2. specialize (H2 (conj (Nat.le_0_l p) Hp)).
      destruct complete; [apply list_eqb_ok | apply prefixb_ok]; exact H2.
    - intros x Hx. apply Nat.ltb_lt. apply H1. exact Hx.
    - intros p Hp. apply in_seq in Hp. destruct Hp as [_ Hp]. specialize (H2 p Hp).
      destruct complete; [apply list_eqb_ok | apply prefixb_ok]; exact H2.
  Qed.

  (* ---------------------------------------------------------------------------------------------- *)
  (* the principal statement at the atomic level *)

  Lemma dequeued_tags_in_range : forall cons (prods : list (list E)) sc,
    forallb (@is_consumer_op E) cons = true -> interleave (thread_ops cons prods) sc ->
    forall x, In x (dequeued (frun sc)) -> fst x < length prods.
  Proof.
    intros cons prods sc Hc H x Hx.
    assert (Hin : In x (enqueued sc)).
    { apply (Permutation_in x (Permutation_sym (fifo_permutation sc))). apply in_or_app. left. exact Hx. }
    apply (Permutation_in x (Permutation_sym (@merge_enqueued_perm cons prods sc Hc H))) in Hin.
    clear -Hin. unfold tag_all in Hin. revert Hin.
    assert (G : forall start, In x (tag_all_from start prods) -> fst x < start + length prods).
    { induction prods as [|es prods IH]; intros start Hin; [destruct Hin|].
      cbn in Hin. apply in_app_or in Hin. destruct Hin as [Hin | Hin].
      - apply in_map_iff in Hin. destruct Hin as [e [<- _]]. cbn. lia.
      - apply IH in Hin. cbn. lia. }
    intros Hin. apply (G 0). exact Hin.
  Qed.

  Theorem fifo_linearizable_atomic : forall (prods : list (list E)) (cons sc : list op),
    forallb (@is_consumer_op E) cons = true -> no_reset cons = true ->
    interleave (thread_ops cons prods) sc ->
    let s := frun sc in
    (* each enqueued event leaves the queue at most once: dequeued + still queued = enqueued *)
    Permutation (tag_all prods) (dequeued s ++ fq s)
    (* the dequeued events of one producer are an initial segment of what it sent, in its order *)
    /\ (forall p, prefix (of_producer p (dequeued s)) (nth p prods []))
    (* the oracle accepts the dequeued sequence *)
    /\ fifo_admissibleb eqE prods false (dequeued s) = true
    (* when the queue has been drained every event was dequeued exactly once *)
    /\ (fq s = [] ->
          Permutation (tag_all prods) (dequeued s)
          /\ (forall p, of_producer p (dequeued s) = nth p prods [])
          /\ fifo_admissibleb eqE prods true (dequeued s) = true)
    (* and enough further dequeues drain it *)
    /\ (forall k, fwait s = false -> length (fq s) <= k -> fq (frun (sc ++ repeat Deq k)) = []).
  Proof.
    intros prods cons sc Hc Hnr H s.
    assert (Hn : no_reset sc = true) by (eapply interleave_no_reset; eassumption).
    assert (Hex : dequeued s ++ fq s = enqueued sc) by (apply fifo_no_reset_exact; exact Hn).
    assert (Hperm : Permutation (tag_all prods) (enqueued sc)) by (eapply merge_enqueued_perm; eassumption).
    assert (Hpre : forall p, prefix (of_producer p (dequeued s)) (nth p prods [])).
    { intros p. rewrite <- (@merge_producer_seq cons prods sc p Hc H). apply fifo_producer_prefix. exact Hn. }
    assert (Htags : forall x, In x (dequeued s) -> fst x < length prods)
      by (eapply dequeued_tags_in_range; eassumption).
    split; [rewrite Hex; exact Hperm|]. split; [exact Hpre|].
    split; [apply fifo_admissibleb_ok; split; [exact Htags | intros p _; apply Hpre]|].
    split.
    - intros Hq. rewrite Hq, app_nil_r in Hex.
      assert (Heq : forall p, of_producer p (dequeued s) = nth p prods []).
      { intros p. rewrite Hex. eapply merge_producer_seq; eassumption. }
      split; [rewrite Hex; exact Hperm|]. split; [exact Heq|].
      apply fifo_admissibleb_ok. split; [exact Htags | intros p _; apply Heq].
    - intros k Hw Hl. unfold frun. rewrite frun_from_app. apply drain_from; assumption.
  Qed.

  (* with reset in the schedule: nothing is duplicated or reordered, the dropped events are accounted *)
  Theorem fifo_linearizable_with_reset : forall (prods : list (list E)) (cons sc : list op),
    forallb (@is_consumer_op E) cons = true ->
    interleave (thread_ops cons prods) sc ->
    let s := frun sc in
    Permutation (tag_all prods) (dequeued s ++ dropped s ++ fq s)
    /\ (forall p, subseq (of_producer p (dequeued s)) (nth p prods [])).
  Proof.
    intros prods cons sc Hc H s. split.
    - eapply Permutation_trans; [eapply merge_enqueued_perm; eassumption | apply fifo_permutation].
    - intros p. rewrite <- (@merge_producer_seq cons prods sc p Hc H). apply fifo_producer_subseq.
  Qed.
End FifoAtomic.

(* ------------------------------------------------------------------------------------------------ *)
(* LOCK level: with the lock discipline every micro-step interleaving is an atomic-level run *)
Section LockLevel.
  Variable E : Type.
  Notation lstate := (lstate E).
  Notation thread := (thread E).
  Notation call := (call E).
  Variable d : discipline.

  Lemma nth_error_set_thread_eq : forall (ts : list thread) t th th0,
    nth_error ts t = Some th0 -> nth_error (set_thread ts t th) t = Some th.
  Proof.
    induction ts as [|x ts IH]; intros [|t] th th0 H; cbn in *; try discriminate; [reflexivity|].
    eapply IH. exact H.
  Qed.

  Lemma nth_error_set_thread_neq : forall (ts : list thread) t t' th,
    t <> t' -> nth_error (set_thread ts t th) t' = nth_error ts t'.
  Proof.
    induction ts as [|x ts IH]; intros [|t] [|t'] th H; cbn; try reflexivity; try congruence.
    apply IH. congruence.
  Qed.

  (* the lock invariant: a thread inside a call holds the mutex, and what it read is still the queue *)
  Definition LInv (s : lstate) : Prop :=
    forall t th, nth_error (l_threads s) t = Some th -> t_pc th <> PStart E ->
      l_owner s = Some t /\ (forall r, t_pc th = PRead r -> r = l_q s).

  Hypothesis all_locked : forall m, d m = true.

  Lemma LInv_init : forall progs : list (list call), LInv (linit progs).
  Proof.
    intros progs t th H Hpc. unfold linit in H. cbn in H. rewrite nth_error_map in H.
    destruct (nth_error progs t); cbn in H; [|discriminate]. inversion H; subst. cbn in Hpc. congruence.
  Qed.

  Ltac lstep_cases H s t :=
    unfold lstep in H;
    destruct (nth_error (l_threads s) t) as [[todo pc]|] eqn:Hn; [|discriminate];
    cbn [t_todo t_pc] in H;
    destruct todo as [|c rest]; [discriminate|];
    destruct pc as [| | r |]; rewrite ?all_locked in H.

  Lemma lstep_LInv : forall s t s', LInv s -> lstep d s t = Some s' -> LInv s'.
  Proof.
    intros s t s' HI H. lstep_cases H s t.
    - (* acquire *)
      destruct (l_owner s) eqn:Ho; [discriminate|]. inversion H; subst; clear H.
      intros t' th' Hn' Hpc. cbn in *. destruct (Nat.eq_dec t t') as [<- | Hne].
      + rewrite (nth_error_set_thread_eq _ _ _ Hn) in Hn'. inversion Hn'; subst. cbn.
        split; [reflexivity | intros r Hr; discriminate].
      + rewrite nth_error_set_thread_neq in Hn' by exact Hne.
        destruct (HI _ _ Hn' Hpc) as [Hown _]. congruence.
    - (* read *)
      inversion H; subst; clear H. destruct (HI _ _ Hn) as [Hown _]; [cbn; congruence|].
      intros t' th' Hn' Hpc. cbn in *. destruct (Nat.eq_dec t t') as [<- | Hne].
      + rewrite (nth_error_set_thread_eq _ _ _ Hn) in Hn'. inversion Hn'; subst. cbn.
        split; [exact Hown | intros r Hr; inversion Hr; reflexivity].
      + rewrite nth_error_set_thread_neq in Hn' by exact Hne.
        destruct (HI _ _ Hn' Hpc) as [Hown' _]. congruence.
    - (* write *)
      inversion H; subst; clear H. destruct (HI _ _ Hn) as [Hown _]; [cbn; congruence|].
      intros t' th' Hn' Hpc. cbn in *. destruct (Nat.eq_dec t t') as [<- | Hne].
      + rewrite (nth_error_set_thread_eq _ _ _ Hn) in Hn'. inversion Hn'; subst. cbn.
        split; [exact Hown | intros r0 Hr; discriminate].
      + rewrite nth_error_set_thread_neq in Hn' by exact Hne.
        destruct (HI _ _ Hn' Hpc) as [Hown' _]. congruence.
    - (* release *)
      inversion H; subst; clear H. destruct (HI _ _ Hn) as [Hown _]; [cbn; congruence|].
      intros t' th' Hn' Hpc. cbn in *. destruct (Nat.eq_dec t t') as [<- | Hne].
      + rewrite (nth_error_set_thread_eq _ _ _ Hn) in Hn'. inversion Hn'; subst. cbn in Hpc. congruence.
      + rewrite nth_error_set_thread_neq in Hn' by exact Hne.
        destruct (HI _ _ Hn' Hpc) as [Hown' _]. congruence.
  Qed.

  Lemma lstep_abs : forall s t s', LInv s -> lstep d s t = Some s' ->
    labs s' = frun_from (labs s) (map snd (step_lin s t)).
  Proof.
    intros s t s' HI H. pose proof H as H0. unfold step_lin. lstep_cases H s t.
    - destruct (l_owner s); [discriminate|]. inversion H; subst. reflexivity.
    - inversion H; subst. reflexivity.
    - destruct (HI _ _ Hn) as [_ Hr]; [cbn; congruence|]. specialize (Hr r eq_refl). subst r.
      inversion H; subst; clear H. unfold labs. cbn.
      destruct c as [p e | |]; cbn.
      + rewrite !app_nil_r. reflexivity.
      + destruct (l_q s) as [|x q']; cbn; [rewrite app_nil_r; reflexivity|]. unfold pop. cbn. reflexivity.
      + rewrite app_nil_r. reflexivity.
    - inversion H; subst. reflexivity.
  Qed.

  (* every lock-level run from a state satisfying the invariant is the atomic run of its linearisation *)
  Lemma lrun_refines : forall sc s, LInv s ->
    labs (lrun d s sc) = frun_from (labs s) (map snd (lin_order d s sc)).
  Proof.
    induction sc as [|t sc IH]; intros s HI; [reflexivity|].
    cbn [lrun lin_order]. destruct (lstep d s t) as [s'|] eqn:Hs.
    - rewrite map_app, frun_from_app. rewrite <- (lstep_abs _ HI Hs). apply IH. eapply lstep_LInv; eassumption.
    - apply IH. exact HI.
  Qed.

  Theorem lock_level_refines_atomic_lemma : forall (progs : list (list call)) sc,
    labs (lrun d (linit progs) sc) = frun (map snd (lin_order d (linit progs) sc)).
  Proof. intros progs sc. apply (lrun_refines sc (LInv_init progs)). Qed.
End LockLevel.

(* program order: the linearisation restricted to one thread is an initial segment of that thread's program
   (for any discipline) *)
Section LockLevelOrder.
  Variable E : Type.
  Notation lstate := (lstate E).
  Notation thread := (thread E).
  Variable d : discipline.

  Definition ops_of (l : list (call E)) : list (op E) := map (@op_of_call E) l.

  Lemma lin_of_thread_app : forall t (a b : list (nat * op E)),
    lin_of_thread t (a ++ b) = lin_of_thread t a ++ lin_of_thread t b.
  Proof. intros. unfold lin_of_thread. rewrite filter_app, map_app. reflexivity. Qed.

  Lemma lstep_order : forall (s : lstate) t0 s' t th, lstep d s t0 = Some s' ->
    nth_error (l_threads s) t = Some th ->
    exists th', nth_error (l_threads s') t = Some th' /\
      lin_of_thread t (step_lin s t0) ++ ops_of (pending th') = ops_of (pending th).
  Proof.
    intros s t0 s' t th H Hn. unfold step_lin. unfold lstep in H.
    destruct (nth_error (l_threads s) t0) as [[todo pc]|] eqn:Hn0; [|discriminate].
    cbn [t_todo t_pc] in H. destruct todo as [|c rest]; [discriminate|].
    destruct (Nat.eq_dec t0 t) as [-> | Hne].
    - rewrite Hn in Hn0. inversion Hn0; subst; clear Hn0.
      destruct pc as [| | r |].
      + destruct (d (method_of c)); [destruct (l_owner s); [discriminate|]|]; inversion H; subst; cbn;
          rewrite (nth_error_set_thread_eq _ _ _ Hn); eexists; split; reflexivity.
      + inversion H; subst; cbn. rewrite (nth_error_set_thread_eq _ _ _ Hn). eexists; split; reflexivity.
      + inversion H; subst; cbn. rewrite (nth_error_set_thread_eq _ _ _ Hn). eexists; split; [reflexivity|].
        unfold lin_of_thread. cbn. rewrite Nat.eqb_refl. reflexivity.
      + inversion H; subst; cbn. rewrite (nth_error_set_thread_eq _ _ _ Hn). eexists; split; reflexivity.
    - assert (Hlin : lin_of_thread t (match pc with PRead _ => [(t0, op_of_call c)] | _ => [] end) = []).
      { destruct pc; try reflexivity. unfold lin_of_thread. cbn.
        destruct (Nat.eqb t0 t) eqn:Eq; [apply Nat.eqb_eq in Eq; congruence | reflexivity]. }
      exists th. split.
      + destruct pc as [| | r |];
          [destruct (d (method_of c)); [destruct (l_owner s); [discriminate|]|]|..]; inversion H; subst; cbn;
          rewrite nth_error_set_thread_neq by exact Hne; exact Hn.
      + destruct pc; cbn in *; try rewrite Hlin; reflexivity.
  Qed.

  Lemma lrun_order : forall sc (s : lstate) t th, nth_error (l_threads s) t = Some th ->
    exists th', nth_error (l_threads (lrun d s sc)) t = Some th' /\
      lin_of_thread t (lin_order d s sc) ++ ops_of (pending th') = ops_of (pending th).
  Proof.
    induction sc as [|t0 sc IH]; intros s t th Hn; [exists th; split; [exact Hn | reflexivity]|].
    cbn [lrun lin_order]. destruct (lstep d s t0) as [s'|] eqn:Hs; [|apply IH; exact Hn].
    destruct (lstep_order _ _ _ Hs Hn) as [th1 [Hn1 H1]].
    destruct (IH s' t th1 Hn1) as [th2 [Hn2 H2]]. exists th2. split; [exact Hn2|].
    rewrite lin_of_thread_app, <- app_assoc, H2, H1. reflexivity.
  Qed.

  Theorem lock_level_program_order_lemma : forall (progs : list (list (call E))) sc t prog,
    nth_error progs t = Some prog ->
    prefix (lin_of_thread t (lin_order d (linit progs) sc)) (ops_of prog).
  Proof.
    intros progs sc t prog Hn.
    assert (Hn' : nth_error (l_threads (linit progs)) t = Some (mkT prog (PStart E))).
    { unfold linit. cbn. rewrite nth_error_map, Hn. reflexivity. }
    destruct (lrun_order sc _ _ Hn') as [th' [_ H]]. unfold pending at 2 in H. cbn [t_pc t_todo] in H.
    rewrite <- H. constructor.
  Qed.
End LockLevelOrder.

(* without the lock the read-modify-write of two enqueues can interleave: an event is lost *)
Definition nolock_enqueue : discipline := fun m => match m with MEnqueue => false | _ => true end.
Lemma lock_level_without_lock_refuted :
  exists (progs : list (list (call nat))) sc,
    let s := lrun nolock_enqueue (linit progs) sc in
    Forall (fun th => t_todo th = []) (l_threads s) /\
    l_q s = [(1, 8)] /\ map snd (lin_order nolock_enqueue (linit progs) sc) = [Enq 0 7; Enq 1 8].
Proof.
  exists [[CEnq 0 7]; [CEnq 1 8]], [0; 0; 1; 1; 0; 1; 0; 1].
  vm_compute. repeat split; repeat constructor.
Qed.

(* ------------------------------------------------------------------------------------------------ *)
(* the lock-discipline inventory regenerated from BasicEventQueue.cpp: every method that uses _queue takes a
   lock on _mutex before its first use and holds it to the last; an unlocked access added to the source
   makes this lemma fail *)
Lemma all_queue_ops_atomic_lemma :
  (forall m, inventory_discipline m = true) /\ queue_class_atomic = true.
Proof. split; [intros []; vm_compute; reflexivity | vm_compute; reflexivity]. Qed.

(* the hypotheses of fifo_linearizable are satisfiable: a consumer and two producers, an interleaving in which
   the second producer overtakes the first, a dequeue between the enqueues *)
Example fifo_example :
  exists sc : list (op nat),
    interleave (thread_ops [Deq; Deq] [[10]; [20]]) sc /\
    forallb (@is_consumer_op nat) [Deq; Deq] = true /\ no_reset (@Deq nat :: [Deq]) = true /\
    dequeued (frun sc) = [(1, 20); (0, 10)] /\ fq (frun sc) = [].
Proof.
  exists [Enq 1 20; Deq; Enq 0 10; Deq]. split; [|repeat split].
  unfold thread_ops. cbn.
  apply (il_cons [[Deq; Deq]; [Enq 0 10]] (Enq 1 20) [] []). cbn.
  apply (il_cons [] Deq [Deq] [[Enq 0 10]; []]). cbn.
  apply (il_cons [[Deq]] (Enq 0 10) [] [[]]). cbn.
  apply (il_cons [] Deq [] [[]; []]). cbn.
  apply il_nil. intros l [<- | [<- | [<- | []]]]; reflexivity.
Qed.
