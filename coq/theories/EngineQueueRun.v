(* EngineQueueRun.v -- C08 about the engine models, instantiated: Large.large_step (every engine variant) and
   Fast.fast_step, every executor variant, every flat chart, every interleaving of steps with external
   enqueues and cancel() calls.  Also: the monitor-completeness checker of C13 (stable notice once per
   macrostep, ...) accepts the trace of every such run, not only those of Interp.run_loop.
   Non-vacuity examples and witnesses for what is NOT true. *)
From V Require Import Base NameMatch Chart Exec Large Fast Interp Trace TraceLemmas SetLemmas
     TraceComplete TraceCompleteBase TraceCompleteMicro TraceCompleteStep TraceCompleteRun TraceCompleteFast
     EngineQueue EngineQueueSteps EngineQueueLemmas.
From Coq Require Import ZifyBool.
Local Open Scope nat_scope.

(* ------------------------------------------------------------------ the two engines *)

Definition large_ms0 (lv : lg_variant) (xv : ex_variant) (c : fchart) : lstate -> xstate -> lstate * xstate :=
  fun l x => microstep lv xv c l (emit TMsB x) (fs_completion (st c 0)) [] [] true.
Definition fast_ms0 (xv : ex_variant) (c : fchart) : lstate -> xstate -> lstate * xstate :=
  fun l x => fmicrostep xv c l (emit TMsB x) (fs_completion (st c 0)) [] [] true.

Lemma large_step_is_outer lv xv c :
  large_step lv xv c = outer_step xv c (large_ms0 lv xv c) (select_and_step lv xv c).
Proof. reflexivity. Qed.
Lemma fast_step_is_outer xv c :
  fast_step xv c = outer_step xv c (fast_ms0 xv c) (fselect_and_step xv c).
Proof. reflexivity. Qed.

Section Large.
Variable lv : lg_variant.
Variable xv : ex_variant.
Variable c : fchart.
Let step := large_step lv xv c.

Theorem large_external_only_when_quiescent acts :
  Forall (fun r => takes_external r ->
            quiescent_at (large_esel lv c) r /\ large_none_enabled c (l_cfg (r_l r)) (x_store (r_x r)))
         (steps_of (elog c step acts l_pristine x_init)).
Proof.
  pose proof (generic_external_only_when_quiescent xv c _ _ _ (large_ms0_spec lv xv c) (large_sel_spec lv xv c) acts) as H.
  unfold step. rewrite large_step_is_outer.
  eapply Forall_impl; [|exact H]. intros r Hr Ht. specialize (Hr Ht). split; [exact Hr|].
  apply (large_esel_nil_iff lv c). apply Hr.
Qed.

Theorem large_queues_fifo acts :
  let log := elog c step acts l_pristine x_init in
  let xf := snd (efinal c step acts l_pristine x_init) in
  all_int_taken log ++ x_iq xf = all_int_raised log /\
  all_ext_taken log ++ x_eq xf = all_ext_arrived log.
Proof.
  cbn zeta. unfold step. rewrite large_step_is_outer.
  exact (generic_queues_fifo xv c _ _ _ (large_ms0_spec lv xv c) (large_sel_spec lv xv c) acts l_pristine x_init).
Qed.

(* from any state, not only a reachable one *)
Theorem large_step_takes_head l x :
  qeffect c (dequeues l x) x (snd (fst (step l x))).
Proof.
  unfold step. rewrite large_step_is_outer.
  destruct (step_effect xv c _ _ _ (large_ms0_spec lv xv c) (large_sel_spec lv xv c) l x) as (sk & _ & _ & H). exact H.
Qed.

Theorem large_step_selection l x :
  match dequeues l x with
  | DeqInt e => step l x = select_and_step lv xv c l (emit (TEv (ev_name e)) (pop_iq x)) (Some e)
  | DeqExt e => step l x = select_and_step lv xv c l (emit (TEv (ev_name e)) (pop_eq x)) (Some e)
  | DeqExtEmpty => step l x = (if l_cancelled l then set_tlf_cancelled l else l, pop_eq x,
                               if l_cancelled l then RC_CANCELLED else RC_IDLE)
  | DeqNone =>
      step l x = (l, x, RC_FINISHED) \/
      step l x = (set_completed l, emit TComplE (completion_exec xv c (l_cfg l) (rev (l_cfg l)) (emit TComplB x)), RC_FINISHED) \/
      step l x = (fst (large_ms0 lv xv c l x), snd (large_ms0 lv xv c l x), RC_MICROSTEPPED) \/
      step l x = select_and_step lv xv c l x None \/
      step l x = (l, x, RC_IDLE) \/
      step l x = (upd_flags l (l_spont l) true, emit TStable x, RC_MACROSTEPPED) \/
      step l x = (set_tlf_cancelled l, x, RC_CANCELLED)
  end.
Proof.
  unfold step. rewrite large_step_is_outer.
  exact (step_selection xv c (large_ms0 lv xv c) (select_and_step lv xv c) l x).
Qed.

Theorem large_events_reported_once acts :
  ev_of (rev (x_out (snd (efinal c step acts l_pristine x_init)))) =
  flat_map (fun r => deq_names (r_deq r)) (steps_of (elog c step acts l_pristine x_init)).
Proof.
  unfold step. rewrite large_step_is_outer.
  exact (generic_events_reported xv c _ _ _ (large_ms0_spec lv xv c) (large_sel_spec lv xv c) acts l_pristine x_init).
Qed.

End Large.

Section Fast.
Variable xv : ex_variant.
Variable c : fchart.
Let step := fast_step xv c.

Theorem fast_external_only_when_quiescent acts :
  Forall (fun r => takes_external r ->
            quiescent_at (fast_esel c) r /\ fast_none_enabled c (l_cfg (r_l r)) (x_store (r_x r)))
         (steps_of (elog c step acts l_pristine x_init)).
Proof.
  pose proof (generic_external_only_when_quiescent xv c _ _ _ (fast_ms0_spec xv c) (fast_sel_spec xv c) acts) as H.
  unfold step. rewrite fast_step_is_outer.
  eapply Forall_impl; [|exact H]. intros r Hr Ht. specialize (Hr Ht). split; [exact Hr|].
  apply (fast_esel_nil_iff c). apply Hr.
Qed.

Theorem fast_queues_fifo acts :
  let log := elog c step acts l_pristine x_init in
  let xf := snd (efinal c step acts l_pristine x_init) in
  all_int_taken log ++ x_iq xf = all_int_raised log /\
  all_ext_taken log ++ x_eq xf = all_ext_arrived log.
Proof.
  cbn zeta. unfold step. rewrite fast_step_is_outer.
  exact (generic_queues_fifo xv c _ _ _ (fast_ms0_spec xv c) (fast_sel_spec xv c) acts l_pristine x_init).
Qed.

Theorem fast_step_takes_head l x :
  qeffect c (dequeues l x) x (snd (fst (step l x))).
Proof.
  unfold step. rewrite fast_step_is_outer.
  destruct (step_effect xv c _ _ _ (fast_ms0_spec xv c) (fast_sel_spec xv c) l x) as (sk & _ & _ & H). exact H.
Qed.

Theorem fast_step_selection l x :
  match dequeues l x with
  | DeqInt e => step l x = fselect_and_step xv c l (emit (TEv (ev_name e)) (pop_iq x)) (Some e)
  | DeqExt e => step l x = fselect_and_step xv c l (emit (TEv (ev_name e)) (pop_eq x)) (Some e)
  | DeqExtEmpty => step l x = (if l_cancelled l then set_tlf_cancelled l else l, pop_eq x,
                               if l_cancelled l then RC_CANCELLED else RC_IDLE)
  | DeqNone =>
      step l x = (l, x, RC_FINISHED) \/
      step l x = (set_completed l, emit TComplE (completion_exec xv c (l_cfg l) (rev (l_cfg l)) (emit TComplB x)), RC_FINISHED) \/
      step l x = (fst (fast_ms0 xv c l x), snd (fast_ms0 xv c l x), RC_MICROSTEPPED) \/
      step l x = fselect_and_step xv c l x None \/
      step l x = (l, x, RC_IDLE) \/
      step l x = (upd_flags l (l_spont l) true, emit TStable x, RC_MACROSTEPPED) \/
      step l x = (set_tlf_cancelled l, x, RC_CANCELLED)
  end.
Proof.
  unfold step. rewrite fast_step_is_outer.
  exact (step_selection xv c (fast_ms0 xv c) (fselect_and_step xv c) l x).
Qed.

Theorem fast_events_reported_once acts :
  ev_of (rev (x_out (snd (efinal c step acts l_pristine x_init)))) =
  flat_map (fun r => deq_names (r_deq r)) (steps_of (elog c step acts l_pristine x_init)).
Proof.
  unfold step. rewrite fast_step_is_outer.
  exact (generic_events_reported xv c _ _ _ (fast_ms0_spec xv c) (fast_sel_spec xv c) acts l_pristine x_init).
Qed.

End Fast.

(* ------------------------------------------------------------------ C13's checker on interleaved runs *)

Section ELoop.
Variable c : fchart.
Variable step : lstate -> xstate -> lstate * xstate * N.
Hypothesis Hsids : sids_distinctb c = true.
Hypothesis step_ok : forall l x, ssorted (l_cfg l) -> in_range c (l_cfg l) -> iq_named x ->
  exists sk, reports x (snd (fst (step l x))) sk /\ qeffect c (dequeues l x) x (snd (fst (step l x))) /\
             step_shape c l (snd (step l x)) (fst (fst (step l x))) (map TEv (deq_names (dequeues l x))) sk.
Hypothesis Hok : raise_names_okb c = true.

Lemma erun_checks acts : forall l x k,
  Inv c l k -> iq_named x -> tc_run (sid_pos c) tc_init (rev (x_out x)) = Some k ->
  let r := efinal c step acts l x in
  (exists k', tc_run (sid_pos c) tc_init (rev (x_out (snd r))) = Some k' /\ Inv c (fst r) k') /\
  iq_named (snd r) /\
  Forall (fun r => ssorted (l_cfg (r_l r)) /\ in_range c (l_cfg (r_l r)) /\ iq_named (r_x r))
         (steps_of (elog c step acts l x)).
Proof.
  unfold efinal, elog.
  induction acts as [|a r IH]; intros l x k HI Hn Hk; cbn [erun fst snd].
  - split; [exists k; split; [exact Hk | exact HI]|]. split; [exact Hn | constructor].
  - destruct a as [|e|]; cbn [erun fst snd].
    + destruct (step_ok l x) as (sk & (new & Hnew & Hsk) & Hq & Hsh); [apply HI | apply HI | exact Hn|].
      pose proof (qeffect_named c _ _ _ Hq Hok Hn) as Hnm.
      set (l1 := fst (fst (step l x))) in *. set (x1 := snd (fst (step l x))) in *. set (rc := snd (step l x)) in *.
      destruct (shape_checks c Hsids l rc l1 _ sk k Hsh HI) as (k1 & Hk1 & HI1).
      assert (Hout : rev (x_out (after_step c l1 x1 rc)) = rev (x_out x) ++ new ++ [TRet rc; TCfg (map (sid_of c) (l_cfg l1))]).
      { unfold after_step. cbn [emit x_out rev]. unfold emitted in Hnew. rewrite Hnew, rev_app_distr, rev_involutive.
        repeat rewrite <- app_assoc. reflexivity. }
      assert (Hk2 : tc_run (sid_pos c) tc_init (rev (x_out (after_step c l1 x1 rc))) = Some k1).
      { rewrite Hout, tc_run_app, Hk. rewrite <- Hk1. rewrite tc_run_app, <- (tc_run_skeleton _ new), Hsk.
        rewrite tc_run_app. reflexivity. }
      assert (Hn2 : iq_named (after_step c l1 x1 rc)) by (apply (iq_named_same x1); [reflexivity | exact Hnm]).
      destruct (IH l1 (after_step c l1 x1 rc) k1 HI1 Hn2 Hk2) as (H1 & H2 & H3).
      split; [exact H1|]. split; [exact H2|]. rewrite steps_of_step. constructor; [|exact H3].
      cbn [r_l r_x]. split; [apply HI|]. split; [apply HI | exact Hn].
    + rewrite steps_of_ext. apply (IH l (raise_ext e x) k HI); [now apply (iq_named_same x) | exact Hk].
    + rewrite steps_of_cancel. apply (IH (set_cancelled l) (raise_ext cancel_event x) k);
        [exact HI | now apply (iq_named_same x) | exact Hk].
Qed.

Theorem erun_complete acts :
  trace_completeb (sid_pos c) (rev (x_out (snd (efinal c step acts l_pristine x_init)))) = true.
Proof.
  destruct (erun_checks acts l_pristine x_init tc_init (Inv_init c) eq_refl eq_refl) as [(k' & Hk' & Hp) _].
  destruct Hp as (_ & _ & Hp & _).
  unfold trace_completeb. rewrite Hk', Hp. reflexivity.
Qed.

Theorem erun_iq_named acts :
  Forall (fun r => ssorted (l_cfg (r_l r)) /\ in_range c (l_cfg (r_l r)) /\ iq_named (r_x r))
         (steps_of (elog c step acts l_pristine x_init)) /\
  iq_named (snd (efinal c step acts l_pristine x_init)).
Proof.
  destruct (erun_checks acts l_pristine x_init tc_init (Inv_init c) eq_refl eq_refl) as (_ & H1 & H2). now split.
Qed.

End ELoop.

Theorem large_erun_complete lv xv c acts :
  report_okb c = true -> raise_names_okb c = true ->
  trace_completeb (sid_pos c) (rev (x_out (snd (efinal c (large_step lv xv c) acts l_pristine x_init)))) = true.
Proof.
  intros Hrep Hok. apply report_okb_parts in Hrep. destruct Hrep as (H1 & H2 & H3).
  apply erun_complete; auto.
  intros l x Hs Hr Hn. exact (large_step_shape lv xv c H2 l x Hs Hr H3 Hok Hn).
Qed.

Theorem fast_erun_complete xv c acts :
  report_okb c = true -> raise_names_okb c = true ->
  trace_completeb (sid_pos c) (rev (x_out (snd (efinal c (fast_step xv c) acts l_pristine x_init)))) = true.
Proof.
  intros Hrep Hok. apply report_okb_parts in Hrep. destruct Hrep as (H1 & H2 & H3).
  apply erun_complete; auto.
  intros l x Hs Hr Hn. exact (fast_step_shape xv c H2 l x Hs Hr H3 Hok Hn).
Qed.

Theorem large_erun_named lv xv c acts :
  report_okb c = true -> raise_names_okb c = true ->
  Forall (fun r => ssorted (l_cfg (r_l r)) /\ in_range c (l_cfg (r_l r)) /\ iq_named (r_x r))
         (steps_of (elog c (large_step lv xv c) acts l_pristine x_init)).
Proof.
  intros Hrep Hok. apply report_okb_parts in Hrep. destruct Hrep as (H1 & H2 & H3).
  apply erun_iq_named; auto.
  intros l x Hs Hr Hn. exact (large_step_shape lv xv c H2 l x Hs Hr H3 Hok Hn).
Qed.

Theorem fast_erun_named xv c acts :
  report_okb c = true -> raise_names_okb c = true ->
  Forall (fun r => ssorted (l_cfg (r_l r)) /\ in_range c (l_cfg (r_l r)) /\ iq_named (r_x r))
         (steps_of (elog c (fast_step xv c) acts l_pristine x_init)).
Proof.
  intros Hrep Hok. apply report_okb_parts in Hrep. destruct Hrep as (H1 & H2 & H3).
  apply erun_iq_named; auto.
  intros l x Hs Hr Hn. exact (fast_step_shape xv c H2 l x Hs Hr H3 Hok Hn).
Qed.

(* ------------------------------------------------------------------ both engines at once (for props/Properties_C08.v) *)

(* which selection a step performs: exactly one for the named event it dequeues, none for an event otherwise *)
Definition selection_spec (xv : ex_variant) (c : fchart) (ms0 : lstate -> xstate -> lstate * xstate)
           (sel : lstate -> xstate -> option event -> lstate * xstate * N)
           (step : lstate -> xstate -> lstate * xstate * N) (l : lstate) (x : xstate) : Prop :=
  match dequeues l x with
  | DeqInt e => step l x = sel l (emit (TEv (ev_name e)) (pop_iq x)) (Some e)
  | DeqExt e => step l x = sel l (emit (TEv (ev_name e)) (pop_eq x)) (Some e)
  | DeqExtEmpty => step l x = (if l_cancelled l then set_tlf_cancelled l else l, pop_eq x,
                               if l_cancelled l then RC_CANCELLED else RC_IDLE)
  | DeqNone =>
      step l x = (l, x, RC_FINISHED) \/
      step l x = (set_completed l, emit TComplE (completion_exec xv c (l_cfg l) (rev (l_cfg l)) (emit TComplB x)), RC_FINISHED) \/
      step l x = (fst (ms0 l x), snd (ms0 l x), RC_MICROSTEPPED) \/
      step l x = sel l x None \/
      step l x = (l, x, RC_IDLE) \/
      step l x = (upd_flags l (l_spont l) true, emit TStable x, RC_MACROSTEPPED) \/
      step l x = (set_tlf_cancelled l, x, RC_CANCELLED)
  end.

Lemma engine_external_only_when_quiescent_lemma (lv : lg_variant) (xv : ex_variant) (c : fchart) (acts : list eact) :
  Forall (fun r => takes_external r \/ external_popped r ->
            quiescent_at (large_esel lv c) r /\ large_none_enabled c (l_cfg (r_l r)) (x_store (r_x r)))
         (steps_of (elog c (large_step lv xv c) acts l_pristine x_init)) /\
  Forall (fun r => takes_external r \/ external_popped r ->
            quiescent_at (fast_esel c) r /\ fast_none_enabled c (l_cfg (r_l r)) (x_store (r_x r)))
         (steps_of (elog c (fast_step xv c) acts l_pristine x_init)).
Proof.
  split.
  - pose proof (Forall_and _ _ _ (large_external_only_when_quiescent lv xv c acts)
                  (pop_is_dequeue c (large_step lv xv c) acts l_pristine x_init (large_step_takes_head lv xv c))) as H.
    eapply Forall_impl; [|exact H]. intros r [H1 H2] [Ht|Hp]; auto.
  - pose proof (Forall_and _ _ _ (fast_external_only_when_quiescent xv c acts)
                  (pop_is_dequeue c (fast_step xv c) acts l_pristine x_init (fast_step_takes_head xv c))) as H.
    eapply Forall_impl; [|exact H]. intros r [H1 H2] [Ht|Hp]; auto.
Qed.

Lemma engine_internal_fifo_lemma (lv : lg_variant) (xv : ex_variant) (c : fchart) (acts : list eact) :
  (let log := elog c (large_step lv xv c) acts l_pristine x_init in
   all_int_taken log ++ x_iq (snd (efinal c (large_step lv xv c) acts l_pristine x_init)) = all_int_raised log) /\
  (let log := elog c (fast_step xv c) acts l_pristine x_init in
   all_int_taken log ++ x_iq (snd (efinal c (fast_step xv c) acts l_pristine x_init)) = all_int_raised log).
Proof. split; [apply (large_queues_fifo lv xv c acts) | apply (fast_queues_fifo xv c acts)]. Qed.

Lemma engine_external_fifo_lemma (lv : lg_variant) (xv : ex_variant) (c : fchart) (acts : list eact) :
  (let log := elog c (large_step lv xv c) acts l_pristine x_init in
   all_ext_taken log ++ x_eq (snd (efinal c (large_step lv xv c) acts l_pristine x_init)) = all_ext_arrived log) /\
  (let log := elog c (fast_step xv c) acts l_pristine x_init in
   all_ext_taken log ++ x_eq (snd (efinal c (fast_step xv c) acts l_pristine x_init)) = all_ext_arrived log).
Proof. split; [apply (large_queues_fifo lv xv c acts) | apply (fast_queues_fifo xv c acts)]. Qed.

Lemma engine_each_event_once_lemma (lv : lg_variant) (xv : ex_variant) (c : fchart) :
  (forall l x, selection_spec xv c (large_ms0 lv xv c) (select_and_step lv xv c) (large_step lv xv c) l x /\
               qeffect c (dequeues l x) x (snd (fst (large_step lv xv c l x)))) /\
  (forall l x, selection_spec xv c (fast_ms0 xv c) (fselect_and_step xv c) (fast_step xv c) l x /\
               qeffect c (dequeues l x) x (snd (fst (fast_step xv c l x)))) /\
  (forall acts,
     ev_of (rev (x_out (snd (efinal c (large_step lv xv c) acts l_pristine x_init)))) =
     flat_map (fun r => deq_names (r_deq r)) (steps_of (elog c (large_step lv xv c) acts l_pristine x_init)) /\
     ev_of (rev (x_out (snd (efinal c (fast_step xv c) acts l_pristine x_init)))) =
     flat_map (fun r => deq_names (r_deq r)) (steps_of (elog c (fast_step xv c) acts l_pristine x_init))).
Proof.
  split; [|split].
  - intros l x. split; [apply large_step_selection | apply large_step_takes_head].
  - intros l x. split; [apply fast_step_selection | apply fast_step_takes_head].
  - intros acts. split; [apply large_events_reported_once | apply fast_events_reported_once].
Qed.

Lemma engine_stable_once_per_macrostep_lemma (lv : lg_variant) (xv : ex_variant) (c : fchart) (acts : list eact) :
  report_okb c = true -> raise_names_okb c = true ->
  trace_completeb (sid_pos c) (rev (x_out (snd (efinal c (large_step lv xv c) acts l_pristine x_init)))) = true /\
  trace_completeb (sid_pos c) (rev (x_out (snd (efinal c (fast_step xv c) acts l_pristine x_init)))) = true.
Proof. intros H1 H2. split; [now apply large_erun_complete | now apply fast_erun_complete]. Qed.
