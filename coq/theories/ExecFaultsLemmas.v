(* ExecFaultsLemmas.v -- C07: the evaluation sites of ExecFaults.v never let an exception escape in the repaired
   variant, every failure ends as an error event; the pinned variant is refuted by one witness per defect. *)
From V Require Import Base NameMatch Chart Exec TraceLemmas ExecLemmas ExecFaults.
Local Open Scope N_scope.

(* ------------------------------------------------------------------ lists *)

Lemma forallb_map_plain l : forallb q_strict (map plain l) = true.
Proof. induction l as [|a r IH]; cbn; auto. Qed.

Lemma forallb_remove_nth {A} (f : A -> bool) l : forall k,
  forallb f l = true -> forallb f (remove_nth k l) = true.
Proof.
  induction l as [|a r IH]; intros k H; [destruct k; reflexivity|].
  cbn in H. apply andb_true_iff in H as [Ha Hr]. destruct k; cbn; [exact Hr|].
  rewrite Ha. now apply IH.
Qed.

Lemma forallb_nth_error {A} (f : A -> bool) l : forall k x,
  forallb f l = true -> nth_error l k = Some x -> f x = true.
Proof.
  induction l as [|a r IH]; intros k x H E; [destruct k; discriminate|].
  cbn in H. apply andb_true_iff in H as [Ha Hr]. destruct k; cbn in E.
  - now inversion E; subst.
  - now apply (IH k).
Qed.

Lemma filter_plat_map_plain l : length (filter q_plat (map plain l)) = length (filter is_plat l).
Proof.
  induction l as [|e r IH]; [reflexivity|]. cbn [map filter].
  change (q_plat (plain e)) with (is_plat e). destruct (is_plat e); cbn [length]; now rewrite IH.
Qed.

(* ------------------------------------------------------------------ the invariant *)

Lemma no_lazy_0 : no_lazy fstate0.
Proof. repeat split. Qed.

Lemma no_lazy_enq_i q st : q_strict q = true -> no_lazy st -> no_lazy (enq_i q st).
Proof.
  intros Hq (A & B & C). repeat split; cbn; auto. rewrite forallb_app, A. cbn. now rewrite Hq.
Qed.
Lemma no_lazy_enq_e q st : q_strict q = true -> no_lazy st -> no_lazy (enq_e q st).
Proof.
  intros Hq (A & B & C). repeat split; cbn; auto. rewrite forallb_app, B. cbn. now rewrite Hq.
Qed.
Lemma no_lazy_raise_err e st : no_lazy st -> no_lazy (raise_err e st).
Proof. now apply no_lazy_enq_i. Qed.
Lemma no_lazy_add_delayed q t st : q_strict q = true -> no_lazy st -> no_lazy (set_delayed (f_delayed st ++ [(q, t)]) st).
Proof.
  intros Hq (A & B & C). repeat split; cbn; auto. rewrite forallb_app, C. cbn. now rewrite Hq.
Qed.
Lemma no_lazy_remove_delayed k st : no_lazy st -> no_lazy (set_delayed (remove_nth k (f_delayed st)) st).
Proof. intros (A & B & C). repeat split; cbn; auto. now apply forallb_remove_nth. Qed.
Lemma no_lazy_add_invoked i st : no_lazy st -> no_lazy (add_invoked i st).
Proof. intros (A & B & C). repeat split; assumption. Qed.
Lemma no_lazy_tail_iq q r st : f_iq st = q :: r -> no_lazy st -> no_lazy (set_iq r st) /\ q_strict q = true.
Proof.
  intros E (A & B & C). rewrite E in A. cbn in A. apply andb_true_iff in A as [Hq Hr]. repeat split; assumption.
Qed.
Lemma no_lazy_tail_eq q r st : f_eq st = q :: r -> no_lazy st -> no_lazy (set_eq r st) /\ q_strict q = true.
Proof.
  intros E (A & B & C). rewrite E in B. cbn in B. apply andb_true_iff in B as [Hq Hr]. repeat split; assumption.
Qed.

Lemma strict_set_event q : q_strict q = true -> set_event q = true.
Proof. unfold q_strict, set_event. destruct (q_data q); [reflexivity | reflexivity | discriminate]. Qed.

Lemma deliver_no_lazy env q t st st' :
  q_strict q = true -> no_lazy st -> deliver env q t st = Some st' -> no_lazy st'.
Proof.
  unfold deliver. intros Hq H. destruct (deliverable env st t); [|discriminate].
  intros E. inversion E; subst. destruct t; auto using no_lazy_enq_e, no_lazy_enq_i.
Qed.

(* the repaired <send> never builds a wrapped expression *)
Lemma send_args_fixed_strict params content p :
  send_args fx_fixed params content = Some p -> q_strict (ext_event [] p) = true.
Proof.
  unfold send_args. destruct (all_ok params); [|discriminate]. cbn.
  destruct content as [[z| |]|]; cbn; intros E; inversion E; reflexivity.
Qed.

Lemma send_args_fixed_none params content :
  send_args fx_fixed params content = None <-> all_ok params && content_ok content = false.
Proof.
  unfold send_args. destruct (all_ok params); cbn; [|tauto].
  destruct content as [[z| |]|]; cbn; split; intros H; try discriminate; reflexivity.
Qed.

(* ------------------------------------------------------------------ blocks *)

Section P.
Variable env : fenv.
Variable inst : N -> bool.

Lemma fblock_ok_eq b : forall x, fblock_ok inst b x = exec_block_ok inst b x.
Proof.
  induction b as [|i r IH]; intros x; cbn [fblock_ok exec_block_ok]; [reflexivity|].
  destruct (exec_instr ex_fixed inst i x) as [ok x']. destruct ok; [apply IH | reflexivity].
Qed.

Lemma fblock_plat_mono b : forall x, (n_plat x <= n_plat (snd (fblock_ok inst b x)))%nat.
Proof.
  induction b as [|i r IH]; intros x; cbn [fblock_ok]; [cbn; lia|].
  pose proof (exec_instr_plat_mono inst i x) as Hm. unfold plat_mono in Hm.
  destruct (exec_instr ex_fixed inst i x) as [ok x']. cbn [snd] in Hm. destruct ok; [|cbn; lia].
  specialize (IH x'). lia.
Qed.

Lemma fblock_fail_raises b : forall x,
  fst (fblock_ok inst b x) = false -> (n_plat x < n_plat (snd (fblock_ok inst b x)))%nat.
Proof.
  induction b as [|i r IH]; intros x; cbn [fblock_ok]; [discriminate|].
  pose proof (exec_instr_plat_mono inst i x) as Hm. unfold plat_mono in Hm.
  pose proof (exec_instr_fail_raises inst i x) as Hf.
  destruct (exec_instr ex_fixed inst i x) as [ok x']. cbn [fst snd] in Hm, Hf. destruct ok.
  - intros H. specialize (IH x' H). lia.
  - intros _. cbn [snd]. now apply Hf.
Qed.

Lemma run_block_no_lazy b st : no_lazy st -> no_lazy (snd (run_block inst b st)).
Proof.
  unfold run_block. destruct (fblock_ok inst b _) as [ok x1]. cbn [snd]. intros (A & B & C).
  repeat split; cbn; rewrite ?forallb_app, ?forallb_map_plain, ?A, ?B; auto.
Qed.

Lemma run_block_n_err b st :
  n_err (snd (run_block inst b st)) =
  (n_err st + n_plat (snd (fblock_ok inst b {| x_store := f_store st; x_iq := []; x_eq := []; x_out := [] |})))%nat.
Proof.
  unfold run_block. destruct (fblock_ok inst b _) as [ok x1]. cbn [snd]. unfold n_err. cbn [f_iq].
  rewrite filter_app, app_length, filter_plat_map_plain. reflexivity.
Qed.

Lemma run_block_fail_raises b st :
  fst (run_block inst b st) = false -> (n_err st < n_err (snd (run_block inst b st)))%nat.
Proof.
  intros H. rewrite run_block_n_err.
  pose proof (fblock_fail_raises b {| x_store := f_store st; x_iq := []; x_eq := []; x_out := [] |}) as Hf.
  unfold run_block in H. destruct (fblock_ok inst b _) as [ok x1]. cbn [fst snd] in *.
  specialize (Hf H). unfold n_plat in Hf at 1. cbn in Hf. lia.
Qed.

Lemma n_err_raise_err_exec st : n_err (raise_err err_exec st) = S (n_err st).
Proof. unfold n_err, raise_err, enq_i. cbn [f_iq set_iq]. rewrite filter_app, app_length. cbn. lia. Qed.
Lemma n_err_raise_err_comm st : n_err (raise_err err_comm st) = S (n_err st).
Proof. unfold n_err, raise_err, enq_i. cbn [f_iq set_iq]. rewrite filter_app, app_length. cbn. lia. Qed.
Lemma n_err_enq_done sid p st : n_err (enq_i (done_event sid p) st) = n_err st.
Proof. unfold n_err, enq_i. cbn [f_iq set_iq]. rewrite filter_app, app_length. cbn. lia. Qed.

(* ------------------------------------------------------------------ one action *)

(* the repaired variant keeps wrapped expressions out of the queues ... *)
Lemma do_action_no_lazy a st : no_lazy st -> no_lazy (snd (do_action fx_fixed env inst a st)).
Proof.
  intros H. destruct a as [b|name t ps c|name t ps c|k|sid ps c| |fin|id args tk|r0]; cbn [do_action].
  - pose proof (run_block_no_lazy b st H) as Hb. destruct (run_block inst b st) as [ok st']. exact Hb.
  - destruct (send_args fx_fixed ps c) as [p|] eqn:E; [|now apply no_lazy_raise_err].
    destruct (deliver env (ext_event name p) t st) as [st'|] eqn:D; cbn [snd]; [|now apply no_lazy_raise_err].
    eapply deliver_no_lazy; [|exact H|exact D]. exact (send_args_fixed_strict _ _ _ E).
  - destruct (send_args fx_fixed ps c) as [p|] eqn:E; cbn [snd]; [|now apply no_lazy_raise_err].
    apply no_lazy_add_delayed; [|exact H]. exact (send_args_fixed_strict _ _ _ E).
  - destruct (nth_error (f_delayed st) k) as [[q t]|] eqn:E; [|exact H].
    pose proof (no_lazy_remove_delayed k st H) as H1.
    assert (Hq : q_strict q = true).
    { destruct H as (_ & _ & C). exact (forallb_nth_error (fun p => q_strict (fst p)) _ k (q, t) C E). }
    destruct (deliver env q t _) as [st'|] eqn:D; cbn [fx_timer_unguarded fx_fixed snd].
    + eapply deliver_no_lazy; [exact Hq|exact H1|exact D].
    + now apply no_lazy_raise_err.
  - destruct (negb (all_ok ps)); cbn [snd]; [apply no_lazy_enq_i; [reflexivity|now apply no_lazy_raise_err]|].
    destruct c as [r|]; [|now apply no_lazy_enq_i].
    destruct (negb (legal_value r)); cbn [snd]; [apply no_lazy_enq_i; [reflexivity|now apply no_lazy_raise_err]|].
    cbn [fx_donedata_content_lazy fx_fixed]. destruct r; cbn [snd]; apply no_lazy_enq_i; try reflexivity; auto using no_lazy_raise_err.
  - destruct (f_iq st) as [|q r] eqn:E; [exact H|]. cbn [snd]. exact (proj1 (no_lazy_tail_iq q r st E H)).
  - destruct (f_eq st) as [|q r] eqn:E; [exact H|].
    destruct (no_lazy_tail_eq q r st E H) as [H1 Hq].
    destruct (negb (set_event q)); [exact H1|]. destruct fin as [b|]; [|exact H1].
    pose proof (run_block_no_lazy b _ H1) as Hb. destruct (run_block inst b (set_eq r st)) as [ok st2].
    cbn [snd] in Hb. destruct ok; [exact Hb|]. cbn [fx_finalize_unguarded fx_fixed]. exact Hb.
  - destruct (all_ok args && tk); cbn [snd]; [now apply no_lazy_add_invoked|].
    cbn [fx_invoke_error_only_logged fx_fixed]. now apply no_lazy_raise_err.
  - destruct (evr_ok r0); cbn [snd]; [exact H | now apply no_lazy_raise_err].
Qed.

(* ... and so no action lets an exception out of step() or out of the timer thread *)
Lemma do_action_never_escapes a st : no_lazy st -> fst (do_action fx_fixed env inst a st) <> Escaped.
Proof.
  intros H. destruct a as [b|name t ps c|name t ps c|k|sid ps c| |fin|id args tk|r0]; cbn [do_action].
  - destruct (run_block inst b st) as [ok st']. destruct ok; discriminate.
  - destruct (send_args fx_fixed ps c) as [p|]; [|discriminate].
    destruct (deliver env (ext_event name p) t st); discriminate.
  - destruct (send_args fx_fixed ps c) as [p|]; discriminate.
  - destruct (nth_error (f_delayed st) k) as [[q t]|]; [|discriminate].
    destruct (deliver env q t _); cbn; discriminate.
  - destruct (negb (all_ok ps)); [discriminate|]. destruct c as [r|]; [|discriminate].
    destruct (negb (legal_value r)); [discriminate|]. cbn [fx_donedata_content_lazy fx_fixed]. destruct r; discriminate.
  - destruct (f_iq st) as [|q r] eqn:E; [discriminate|]. cbn [fst].
    rewrite (strict_set_event q (proj2 (no_lazy_tail_iq q r st E H))). discriminate.
  - destruct (f_eq st) as [|q r] eqn:E; [discriminate|].
    rewrite (strict_set_event q (proj2 (no_lazy_tail_eq q r st E H))). cbn [negb].
    destruct fin as [b|]; [|discriminate]. destruct (run_block inst b (set_eq r st)) as [ok st2].
    destruct ok; cbn; discriminate.
  - destruct (all_ok args && tk); [discriminate|]. cbn. discriminate.
  - destruct (evr_ok r0); discriminate.
Qed.

(* every failure ends as an error event in the internal queue, and the action reports it *)
Lemma do_action_failure_raises a st :
  no_lazy st -> fails env inst a st = true ->
  fst (do_action fx_fixed env inst a st) = ErrRaised /\
  (n_err st < n_err (snd (do_action fx_fixed env inst a st)))%nat.
Proof.
  intros H F. destruct a as [b|name t ps c|name t ps c|k|sid ps c| |fin|id args tk|r0]; cbn [do_action fails] in *.
  - apply negb_true_iff in F. pose proof (run_block_fail_raises b st F) as Hr.
    destruct (run_block inst b st) as [ok st']. cbn [fst snd] in *. subst ok. split; [reflexivity|exact Hr].
  - destruct (send_args fx_fixed ps c) as [p|] eqn:E.
    + assert (Hn : all_ok ps && content_ok c = true).
      { destruct (all_ok ps && content_ok c) eqn:X; [reflexivity|]. apply send_args_fixed_none in X. congruence. }
      rewrite Hn in F. cbn in F. apply negb_true_iff in F. unfold deliver. rewrite F. cbn [fst snd].
      split; [reflexivity|]. rewrite n_err_raise_err_comm. lia.
    + cbn [fst snd]. split; [reflexivity|]. rewrite n_err_raise_err_exec. lia.
  - apply negb_true_iff in F. apply send_args_fixed_none in F. rewrite F. cbn [fst snd].
    split; [reflexivity|]. rewrite n_err_raise_err_exec. lia.
  - destruct (nth_error (f_delayed st) k) as [[q t]|]; [|discriminate].
    apply negb_true_iff in F. unfold deliver. rewrite F. cbn [fx_timer_unguarded fx_fixed fst snd].
    split; [reflexivity|]. rewrite n_err_raise_err_comm. unfold n_err. cbn. lia.
  - apply negb_true_iff in F. destruct (all_ok ps) eqn:A; cbn [negb andb] in *.
    + destruct c as [r|]; [|discriminate]. cbn in F. destruct r; try discriminate; cbn [legal_value negb fx_donedata_content_lazy fx_fixed fst snd];
        (split; [reflexivity|]); rewrite n_err_enq_done, n_err_raise_err_exec; lia.
    + cbn [fst snd]. split; [reflexivity|]. rewrite n_err_enq_done, n_err_raise_err_exec. lia.
  - discriminate.
  - destruct (f_eq st) as [|q r] eqn:E; [discriminate|]. destruct fin as [b|]; [|discriminate].
    rewrite (strict_set_event q (proj2 (no_lazy_tail_eq q r st E H))). cbn [negb].
    apply negb_true_iff in F. pose proof (run_block_fail_raises b (set_eq r st) F) as Hr.
    destruct (run_block inst b (set_eq r st)) as [ok st2]. cbn [fst snd] in *. subst ok.
    cbn [fx_finalize_unguarded fx_fixed fst snd]. split; [reflexivity|]. exact Hr.
  - apply negb_true_iff in F. rewrite F. cbn [fx_invoke_error_only_logged fx_fixed fst snd].
    split; [reflexivity|]. rewrite n_err_raise_err_exec. lia.
  - apply negb_true_iff in F. rewrite F. cbn [fst snd].
    split; [reflexivity|]. rewrite n_err_raise_err_exec. lia.
Qed.

(* ------------------------------------------------------------------ any sequence of actions *)

Lemma run_never_escapes l : forall st, no_lazy st -> fst (run fx_fixed env inst l st) <> Escaped.
Proof.
  induction l as [|a r IH]; intros st H; cbn [run]; [discriminate|].
  pose proof (do_action_never_escapes a st H) as Ha. pose proof (do_action_no_lazy a st H) as Hn.
  destruct (do_action fx_fixed env inst a st) as [o st']. cbn [fst snd] in *.
  destruct o; [now apply IH | now apply IH | congruence].
Qed.

Lemma run_no_lazy l : forall st, no_lazy st -> no_lazy (snd (run fx_fixed env inst l st)).
Proof.
  induction l as [|a r IH]; intros st H; cbn [run]; [exact H|].
  pose proof (do_action_no_lazy a st H) as Hn.
  destruct (do_action fx_fixed env inst a st) as [o st']. cbn [snd] in Hn.
  destruct o; [now apply IH | now apply IH | exact Hn].
Qed.

End P.

(* ------------------------------------------------------------------ the pinned behaviour: one witness per defect *)

Definition env_alone : fenv := {| env_parent := false; env_sessions := [] |}.
Definition no_in : N -> bool := fun _ => false.
Definition bad_assign : block := [IAssign 1 1 IBad].
Definition ev_x : bytes := [120].

(* a failing element of <finalize>: step() throws *)
Lemma finalize_escapes_witness :
  fst (run fx_pinned env_alone no_in [ASend ev_x TSelf [] None; ADequeueExt (Some bad_assign)] fstate0) = Escaped.
Proof. vm_compute. reflexivity. Qed.

(* <send><content expr=")("/>: the send succeeds without error, the dequeue throws *)
Lemma send_content_escapes_witness :
  fst (do_action fx_pinned env_alone no_in (ASend ev_x TSelf [] (Some VSyntax)) fstate0) = Ok /\
  n_err (snd (do_action fx_pinned env_alone no_in (ASend ev_x TSelf [] (Some VSyntax)) fstate0)) = O /\
  fst (run fx_pinned env_alone no_in [ASend ev_x TSelf [] (Some VSyntax); ADequeueExt None] fstate0) = Escaped.
Proof. vm_compute. repeat split. Qed.

(* <donedata><content expr="nil + 1"/>: passes the syntax check, the done event cannot be dequeued *)
Lemma donedata_content_escapes_witness :
  fst (run fx_pinned env_alone no_in [ADone [49] [] (Some VRuntime); ADequeueInt] fstate0) = Escaped.
Proof. vm_compute. reflexivity. Qed.

(* <send target="#_parent" delay=".."/> in a session without parent: the timer thread throws *)
Lemma timer_escapes_witness :
  fst (run fx_pinned env_alone no_in [ADelayedSend ev_x TParent [] None; ATimer 0] fstate0) = Escaped.
Proof. vm_compute. reflexivity. Qed.

(* <invoke typeexpr=")("/>: a failure without error event *)
Lemma invoke_error_lost_witness :
  fails env_alone no_in (AInvoke 1 [VSyntax] true) fstate0 = true /\
  do_action fx_pinned env_alone no_in (AInvoke 1 [VSyntax] true) fstate0 = (Ok, fstate0).
Proof. vm_compute. split; reflexivity. Qed.

(* the hypotheses of the theorems are satisfiable, and the repaired variant on the same inputs *)
Example fixed_on_the_witnesses :
  no_lazy fstate0 /\
  fst (run fx_fixed env_alone no_in [ASend ev_x TSelf [] None; ADequeueExt (Some bad_assign)] fstate0) = Ok /\
  fst (run fx_fixed env_alone no_in [ASend ev_x TSelf [] (Some VSyntax); ADequeueExt None] fstate0) = Ok /\
  n_err (snd (run fx_fixed env_alone no_in [ASend ev_x TSelf [] (Some VSyntax); ADequeueExt None] fstate0)) = 1%nat /\
  fst (run fx_fixed env_alone no_in [ADone [49] [] (Some VRuntime); ADequeueInt] fstate0) = Ok /\
  n_err (snd (run fx_fixed env_alone no_in [ADelayedSend ev_x TParent [] None; ATimer 0] fstate0)) = 1%nat.
Proof. vm_compute. repeat split. Qed.

(* ------------------------------------------------------------------ the statements of Properties_C07.v *)

Lemma runs_from_start env inst l :
  fst (run fx_fixed env inst l fstate0) <> Escaped /\ no_lazy (snd (run fx_fixed env inst l fstate0)).
Proof. split; [apply run_never_escapes | apply run_no_lazy]; exact no_lazy_0. Qed.

Lemma finalize_fixed env inst b st :
  no_lazy st -> fst (do_action fx_fixed env inst (ADequeueExt (Some b)) st) <> Escaped.
Proof. now apply do_action_never_escapes. Qed.

Lemma send_content_fixed env inst name t params content fin st :
  no_lazy st ->
  fst (run fx_fixed env inst [ASend name t params content; ADequeueExt fin] st) <> Escaped /\
  fst (run fx_fixed env inst [ASend name t params content; ADequeueInt] st) <> Escaped.
Proof. intros. split; now apply run_never_escapes. Qed.

Lemma donedata_fixed env inst sid params content st :
  no_lazy st -> fst (run fx_fixed env inst [ADone sid params content; ADequeueInt] st) <> Escaped.
Proof. intros. now apply run_never_escapes. Qed.

Lemma timer_fixed env inst k st :
  no_lazy st -> fst (do_action fx_fixed env inst (ATimer k) st) <> Escaped.
Proof. now apply do_action_never_escapes. Qed.

Lemma finalize_pinned_escapes : exists env inst l,
  fst (run fx_pinned env inst l fstate0) = Escaped /\ l = [ASend ev_x TSelf [] None; ADequeueExt (Some bad_assign)].
Proof.
  exists env_alone, no_in, [ASend ev_x TSelf [] None; ADequeueExt (Some bad_assign)].
  split; [exact finalize_escapes_witness | reflexivity].
Qed.

Lemma send_content_pinned_escapes : exists env inst c,
  fst (do_action fx_pinned env inst (ASend ev_x TSelf [] (Some c)) fstate0) = Ok /\
  n_err (snd (do_action fx_pinned env inst (ASend ev_x TSelf [] (Some c)) fstate0)) = O /\
  fst (run fx_pinned env inst [ASend ev_x TSelf [] (Some c); ADequeueExt None] fstate0) = Escaped.
Proof. exists env_alone, no_in, VSyntax. exact send_content_escapes_witness. Qed.

Lemma donedata_pinned_escapes : exists env inst sid c,
  fst (run fx_pinned env inst [ADone sid [] (Some c); ADequeueInt] fstate0) = Escaped.
Proof. exists env_alone, no_in, [49], VRuntime. exact donedata_content_escapes_witness. Qed.

Lemma timer_pinned_escapes : exists env inst t,
  fst (run fx_pinned env inst [ADelayedSend ev_x t [] None; ATimer 0] fstate0) = Escaped.
Proof. exists env_alone, no_in, TParent. exact timer_escapes_witness. Qed.

Lemma invoke_pinned_loses_error : exists env inst a st,
  no_lazy st /\ fails env inst a st = true /\ do_action fx_pinned env inst a st = (Ok, st).
Proof.
  exists env_alone, no_in, (AInvoke 1 [VSyntax] true), fstate0.
  split; [exact no_lazy_0 | exact invoke_error_lost_witness].
Qed.
