(* RunConformHistSpec.v -- C01 on charts with <history> (wf_histb): Appendix D's addDescendantStatesToEnter /
   addAncestorStatesToEnter (Spec.add_descendants / add_ancestors) compute the set described by
   RunConformInitialBase.D when the contexts are (domain of a selected transition, its EFFECTIVE targets): a history
   target stands for its recorded value or for the targets of its default transition.  The invariant GIH is GI of
   RunConformInitialSpec.v without the clause "no default history content"; the history branch of
   addDescendantStatesToEnter (enter the value, then its ancestors up to the history's parent) is one more step
   that keeps it.  defaultHistoryContent is characterised separately (hc_of).  Proofs only. *)
From V Require Import Base NameMatch Chart Exec Large LargeLemmas Spec Legal SetLemmas LegalAbstract LegalLarge
  LegalHistBase LegalHistEntry LegalHistStep MicroConformEntry RunConformInitialBase RunConformInitialSpec.
Local Open Scope nat_scope.

(* defaultHistoryContent is a table: an assignment for a parent replaces an earlier one (Spec.add_descendants) *)
Definition hc_put (p : nat * nat) (l : list (nat * nat)) : list (nat * nat) := p :: filter (fun q => negb (fst q =? fst p)) l.
Definition hc_ins (l acc : list (nat * nat)) : list (nat * nat) := fold_left (fun a p => hc_put p a) l acc.

Lemma hc_ins_app l1 l2 acc : hc_ins (l1 ++ l2) acc = hc_ins l2 (hc_ins l1 acc).
Proof. unfold hc_ins. apply fold_left_app. Qed.

Lemma hc_put_keys p l : NoDup (map fst l) -> NoDup (map fst (hc_put p l)).
Proof.
  intros Hl. unfold hc_put. cbn [map]. constructor.
  - intros Hin. apply in_map_iff in Hin as (q & E & Hq). apply filter_In in Hq as [_ Hq]. apply negb_true_iff, Nat.eqb_neq in Hq. congruence.
  - clear -Hl. induction l as [|q r IH]; cbn [filter map]; [constructor|]. cbn [map] in Hl. inversion Hl as [|? ? Hq Hr]; subst.
    destruct (negb (fst q =? fst p)); [|now apply IH]. cbn [map]. constructor; [|now apply IH].
    intros Hin. apply Hq. apply in_map_iff in Hin as (q' & E & Hq'). apply filter_In in Hq' as [Hq' _]. rewrite <- E. now apply in_map.
Qed.

Lemma hc_ins_keys l : forall acc, NoDup (map fst acc) -> NoDup (map fst (hc_ins l acc)).
Proof. induction l as [|p r IH]; intros acc Ha; [exact Ha|]. cbn [hc_ins fold_left]. apply IH. now apply hc_put_keys. Qed.

(* when equal keys carry equal values the table holds what was assigned *)
Definition hc_fun (L : list (nat * nat)) : Prop := forall q1 q2, In q1 L -> In q2 L -> fst q1 = fst q2 -> q1 = q2.

Lemma hc_ins_In l : forall acc, hc_fun (l ++ acc) -> forall q, In q (hc_ins l acc) <-> In q l \/ In q acc.
Proof.
  induction l as [|x r IH]; intros acc HF q; [cbn; tauto|]. cbn [hc_ins fold_left]. fold (hc_ins r (hc_put x acc)).
  assert (Hput : forall z, In z (hc_put x acc) <-> z = x \/ In z acc).
  { intros z. unfold hc_put. cbn [In]. rewrite filter_In. split.
    - intros [E|[Hz _]]; [left; now symmetry | now right].
    - intros [->|Hz]; [now left|]. destruct (Nat.eq_dec (fst z) (fst x)) as [E|Hne].
      + left. symmetry. apply HF; [right; apply in_or_app; now right | now left | exact E].
      + right. split; [exact Hz | now apply negb_true_iff, Nat.eqb_neq]. }
  rewrite IH.
  - rewrite Hput. cbn [In]. intuition.
  - intros q1 q2 H1 H2. apply HF; cbn [app In]; [apply in_app_or in H1 as [H1|H1] | apply in_app_or in H2 as [H2|H2]];
      try (right; apply in_or_app; now left); apply Hput in H1 || apply Hput in H2; intuition.
Qed.

Section HSpec.
Variable c : fchart.
Let n := nstates c.
Let par (i : nat) := fs_parent (st c i).
Let ch (i : nat) := fs_children (st c i).
Let kd (i : nat) := fs_type (st c i).
Let cpl (i : nat) := fs_completion (st c i).
Notation Anc := (LegalAbstract.Anc par).
Notation pseudo := (pseudoS c).

Hypothesis W : WFH c.
Hypothesis HcplOK : CplOK c.
Hypothesis HcplAnti : CplAnti c.
Hypothesis HtgAnti : TgAnti c.
Variable B : nat -> list nat -> Prop.
Hypothesis HB1 : forall r G, B r G -> GoodCtx c r G.
Hypothesis HB2 : forall r G r' G', B r G -> B r' G' -> (r = r' /\ G = G') \/ (r <> r' /\ ~ Anc r r' /\ ~ Anc r' r).
Variable h : hv.

Notation Dr := (D c B).
Notation itg := (itg c).
Notation NTG := (NTG c).
Notation IC := (LegalHistBase.IC c).
Notation JustL := (JustL c B).
Notation below := (below c).
Notation kid_step := (kid_step c h).
Notation aa_step := (aa_step c h).

Lemma proper_not_hist s : pseudo s = false -> is_history_state c s = false.
Proof. unfold pseudoS, is_pseudo, is_history_state, sty. destruct (fs_type (st c s)); cbn; congruence. Qed.

Lemma hist_state_iff s : is_history_state c s = histS c s.
Proof. unfold is_history_state, histS, is_hist, sty. destruct (fs_type (st c s)); reflexivity. Qed.

(* ------------------------------------------------------------------ the invariant *)

Record GIH (X : nat -> Prop) (e : eset) : Prop := {
  gih_sound : forall x, In x (e_enter e) ->
     x < n /\ JustL e x /\ exists r G, Dr r G x /\ (kd x = FCompound -> (In x (e_default e) <-> NTG x G));
  gih_dflt : forall p, In p (e_default e) -> In p (e_enter e) /\ kd p = FCompound;
  gih_par : forall p, In p (e_enter e) -> ~ X p -> kd p = FParallel -> forall k, par k = Some p -> below (e_enter e) k;
  gih_cmp : forall p, In p (e_enter e) -> ~ X p -> In p (e_default e) -> forall y, IC p (itg p) y -> In y (e_enter e)
}.

Lemma GIH_add0 X e s r G : GIH X e -> s < n -> JustL e s -> Dr r G s ->
  (kd s = FCompound -> (In s (e_default e) <-> NTG s G)) -> GIH (fun p => X p \/ p = s) (add0 s e).
Proof.
  intros [Hs Hd Hp Hc] Hsn Hj HD Hiff. constructor; cbn [add0 e_enter e_default e_histcontent].
  - intros x Hx. apply me_In_addn in Hx as [->|Hx].
    + split; [exact Hsn|]. split; [exact (JustL_mono c B _ _ _ (ext_add0 s e) Hj)|]. exists r, G. auto.
    + destruct (Hs x Hx) as (A & J & HDx). split; [exact A|]. split; [exact (JustL_mono c B _ _ _ (ext_add0 s e) J) | exact HDx].
  - intros p Hin. destruct (Hd p Hin) as [A1 A2]. split; [now apply incl_addn' | exact A2].
  - intros p Hin Hx Hk k Hpk. apply me_In_addn in Hin as [->|Hin]; [exfalso; apply Hx; now right|].
    eapply below_mono; [apply incl_addn'|]. apply (Hp p Hin); auto.
  - intros p Hin Hx Hdp y Hy. apply me_In_addn in Hin as [->|Hin]; [exfalso; apply Hx; now right|].
    apply incl_addn'. apply (Hc p Hin); auto.
Qed.

Lemma GIH_add1 X e s r G : GIH X e -> s < n -> JustL e s -> Dr r G s -> kd s = FCompound -> NTG s G ->
  GIH (fun p => X p \/ p = s) (add1 s e).
Proof.
  intros [Hs Hd Hp Hc] Hsn Hj HD Hks Hnt. constructor; cbn [add1 e_enter e_default e_histcontent].
  - intros x Hx.
    assert (Hiff : forall r' G', Dr r' G' x -> (kd x = FCompound -> In x (e_default e) <-> NTG x G') ->
                                 (kd x = FCompound -> In x (addn s (e_default e)) <-> NTG x G')).
    { intros r' G' HDx Hold Hkx. rewrite me_In_addn. destruct (Nat.eq_dec x s) as [->|Hne].
      - destruct (D_unique c W B HB2 s r' G' r G HDx HD) as [-> ->]. tauto.
      - rewrite <- (Hold Hkx). tauto. }
    apply me_In_addn in Hx as [->|Hx].
    + split; [exact Hsn|]. split; [exact (JustL_mono c B _ _ _ (ext_add1 s e) Hj)|]. exists r, G. split; [exact HD|].
      intros _. rewrite me_In_addn. tauto.
    + destruct (Hs x Hx) as (A & J & r' & G' & HDx & Hold). split; [exact A|].
      split; [exact (JustL_mono c B _ _ _ (ext_add1 s e) J)|]. exists r', G'. split; [exact HDx | exact (Hiff r' G' HDx Hold)].
  - intros p Hin. apply me_In_addn in Hin as [->|Hin]; [split; [apply me_In_addn; now left | exact Hks]|].
    destruct (Hd p Hin) as [A1 A2]. split; [apply me_In_addn; now right | exact A2].
  - intros p Hin Hx Hk k Hpk. apply me_In_addn in Hin as [->|Hin]; [exfalso; apply Hx; now right|].
    eapply below_mono; [apply incl_addn'|]. apply (Hp p Hin); auto.
  - intros p Hin Hx Hdp y Hy. apply me_In_addn in Hin as [->|Hin]; [exfalso; apply Hx; now right|].
    apply me_In_addn in Hdp as [->|Hdp]; [exfalso; apply Hx; now right|].
    apply incl_addn'. apply (Hc p Hin); auto.
Qed.

Lemma GIH_close X e s : GIH (fun p => X p \/ p = s) e ->
  (kd s = FParallel -> forall k, par k = Some s -> below (e_enter e) k) ->
  (In s (e_default e) -> forall y, IC s (itg s) y -> In y (e_enter e)) -> GIH X e.
Proof.
  intros [Hs Hd Hp Hc] C1 C2. constructor; auto.
  - intros p Hin Hx. destruct (Nat.eq_dec p s) as [->|Hne]; [auto|]. apply Hp; [exact Hin | intros [HX|E]; auto].
  - intros p Hin Hx. destruct (Nat.eq_dec p s) as [->|Hne]; [auto|]. apply Hc; [exact Hin | intros [HX|E]; auto].
Qed.

(* ------------------------------------------------------------------ addDescendantStatesToEnter / addAncestorStatesToEnter *)

Lemma ADH_unfold f s e : is_history_state c s = false -> add_descendants c (S f) h s e =
  if is_compound_state c s then
    fold_left (fun e x => add_ancestors c f h x (Some s) e) (itg s)
              (fold_left (fun e x => add_descendants c f h x e) (itg s) (add1 s e))
  else if is_parallel_state c s then fold_left (kid_step f) (child_states c s) (add0 s e)
  else add0 s e.
Proof. intros Hh. cbn [add_descendants]. rewrite Hh. reflexivity. Qed.

Definition ADH_spec (f : nat) : Prop :=
  forall s e X r G, n - s < f -> s < n -> GIH X e -> Dr r G s -> NTG s G -> JustL e s ->
    GIH X (add_descendants c f h s e) /\ ext e (add_descendants c f h s e) /\ In s (e_enter (add_descendants c f h s e)).

(* the ancestors of [tg] up to [u], in a context (r, G) whose root is u or above *)
Definition AAH_spec (f : nat) : Prop :=
  forall tg u r e X G, n - u <= f -> Anc u tg -> In tg (e_enter e) -> GIH X e -> In tg G ->
    (forall g, In g G -> Anc u g -> In g (e_enter e)) ->
    (forall a, Anc a tg -> Anc u a -> Dr r G a /\ JustL e a) ->
    GIH X (add_ancestors c f h tg (Some u) e) /\ ext e (add_ancestors c f h tg (Some u) e) /\
    forall a, Anc a tg -> Anc u a -> In a (e_enter (add_ancestors c f h tg (Some u) e)).

Lemma kids_loop_h f (IH : ADH_spec f) p X r G : kd p = FParallel -> n - p <= f -> Dr r G p ->
  forall l, (forall k, In k l -> par k = Some p) ->
  forall e1, GIH X e1 -> In p (e_enter e1) ->
    (forall k e2, In k l -> ext e1 e2 -> some_descendant_of c (e_enter e2) k = false -> NTG k G) ->
    let e' := fold_left (kid_step f) l e1 in
    GIH X e' /\ ext e1 e' /\ forall k, In k l -> below (e_enter e') k.
Proof.
  intros Hk Hf HDp. induction l as [|k rr IHl]; intros Hch e1 HG Hp Hnt; cbn [fold_left].
  - split; [exact HG|]. split; [apply ext_refl | intros k []].
  - assert (Hpk : par k = Some p) by (apply Hch; now left).
    destruct (wh_par_lt c W _ _ Hpk) as [Hlt Hkn]. fold n in Hkn.
    destruct (some_descendant_of c (e_enter e1) k) eqn:Hsd;
      [replace (kid_step f e1 k) with e1 by (unfold RunConformInitialSpec.kid_step; now rewrite Hsd)
      |replace (kid_step f e1 k) with (add_descendants c f h k e1) by (unfold RunConformInitialSpec.kid_step; now rewrite Hsd)].
    + destruct (IHl (fun z Hz => Hch z (or_intror Hz)) e1 HG Hp (fun z e2 Hz => Hnt z e2 (or_intror Hz))) as (A & B' & C).
      split; [exact A|]. split; [exact B'|]. intros z [<-|Hz]; [|now apply C].
      unfold some_descendant_of in Hsd. apply existsb_exists in Hsd as (y & Hy & Hd).
      right. exists y. split; [now apply (proj1 B')|].
      unfold is_descendant in Hd. apply mem_In in Hd. exact (ancs_sound_h c _ _ _ _ Hd).
    + destruct (IH k e1 X r G ltac:(lia) Hkn HG (D_par c B r G p k HDp Hk Hpk)) as (A1 & B1 & C1).
      { exact (Hnt k e1 (or_introl eq_refl) (ext_refl e1) Hsd). }
      { right. left. exists p. auto. }
      destruct (IHl (fun z Hz => Hch z (or_intror Hz)) (add_descendants c f h k e1) A1 (proj1 B1 _ Hp)) as (A & B' & C).
      { intros z e2 Hz He2. apply (Hnt z e2 (or_intror Hz)). eapply ext_trans; eauto. }
      split; [exact A|]. split; [eapply ext_trans; eauto|].
      intros z [<-|Hz]; [left; now apply (proj1 B') | now apply C].
Qed.

(* a fold of addDescendantStatesToEnter over members of one context *)
Lemma ADH_fold f (IH : ADH_spec f) X r G : forall l e1, GIH X e1 ->
  (forall g, In g l -> n - g < f /\ g < n /\ Dr r G g /\ NTG g G /\ JustL e1 g) ->
  let e' := fold_left (fun e x => add_descendants c f h x e) l e1 in
  GIH X e' /\ ext e1 e' /\ forall g, In g l -> In g (e_enter e').
Proof.
  induction l as [|g rr IHl]; intros e1 HG Hl; cbn [fold_left].
  - split; [exact HG|]. split; [apply ext_refl | intros g []].
  - destruct (Hl g (or_introl eq_refl)) as (Hf & Hgn & HD & Hnt & Hj).
    destruct (IH g e1 X r G Hf Hgn HG HD Hnt Hj) as (A1 & B1 & C1).
    destruct (IHl (add_descendants c f h g e1) A1) as (A & B' & C).
    { intros z Hz. destruct (Hl z (or_intror Hz)) as (F1 & F2 & F3 & F4 & F5). repeat split; auto. exact (JustL_mono c B _ _ _ B1 F5). }
    split; [exact A|]. split; [eapply ext_trans; eauto|].
    intros z [<-|Hz]; [now apply (proj1 B') | now apply C].
Qed.

Lemma AAH_fold f (IH : AAH_spec f) X u r G : n - u <= f -> forall l e2, GIH X e2 ->
  (forall g, In g G -> Anc u g -> In g (e_enter e2)) ->
  (forall g, In g l -> In g G /\ Anc u g /\ forall a, Anc a g -> Anc u a -> Dr r G a /\ JustL e2 a) ->
  let e' := fold_left (fun e x => add_ancestors c f h x (Some u) e) l e2 in
  GIH X e' /\ ext e2 e' /\ forall g a, In g l -> Anc a g -> Anc u a -> In a (e_enter e').
Proof.
  intros Hf. induction l as [|g rr IHl]; intros e2 HG Hall Hl; cbn [fold_left].
  - split; [exact HG|]. split; [apply ext_refl | intros g a []].
  - destruct (Hl g (or_introl eq_refl)) as (HgG & Hdg & Hanc).
    destruct (IH g u r e2 X G Hf Hdg (Hall g HgG Hdg) HG HgG Hall Hanc) as (A1 & B1 & C1).
    destruct (IHl (add_ancestors c f h g (Some u) e2) A1) as (A & B' & C).
    { intros z Hz Huz. apply (proj1 B1). now apply Hall. }
    { intros z Hz. destruct (Hl z (or_intror Hz)) as (F1 & F2 & F3). split; [exact F1|]. split; [exact F2|].
      intros a Ha Hda. destruct (F3 a Ha Hda) as [F4 F5]. split; [exact F4 | exact (JustL_mono c B _ _ _ B1 F5)]. }
    split; [exact A|]. split; [eapply ext_trans; eauto|].
    intros z a [<-|Hz] Ha Hda; [apply (proj1 B'); now apply C1 | now apply (C z a)].
Qed.

Lemma AAH_of_ADH f : ADH_spec f -> AAH_spec (S f).
Proof.
  intros IH tg u r e X G Hf Hdtg Htg HG HtgG Hall Hanc. rewrite AA_unfold.
  assert (HL : forall a, In a (ancs c tg (Some u)) <-> Anc a tg /\ Anc u a).
  { intros a. unfold ancs, Spec.n. apply (In_ancs_upto_h c W); [|exact Hdtg]. now destruct (hanc_lt c W _ _ Hdtg). }
  assert (Hloop : forall l e1, (forall a, In a l -> Anc a tg /\ Anc u a) -> GIH X e1 -> ext e e1 ->
     GIH X (fold_left (aa_step f) l e1) /\ ext e1 (fold_left (aa_step f) l e1) /\
     forall a, In a l -> In a (e_enter (fold_left (aa_step f) l e1))).
  { induction l as [|a rr IHl]; intros e1 Hl HG1 He1; cbn [fold_left].
    - split; [exact HG1|]. split; [apply ext_refl | intros a []].
    - destruct (Hl a (or_introl eq_refl)) as [Has Hda].
      destruct (hanc_lt c W _ _ Has) as [Halt Htgn]. fold n in Htgn. assert (Han : a < n) by lia.
      destruct (hanc_lt c W _ _ Hda) as [Hdlt _].
      destruct (Hanc a Has Hda) as [HDa Hja]. pose proof (JustL_mono c B _ _ _ He1 Hja) as Hja1.
      (* a is forced: not entered by default *)
      assert (Hforced : ~ NTG a G) by (intros Hn; exact (Hn tg HtgG Has)).
      assert (Hnd : kd a = FCompound -> (In a (e_default e1) <-> NTG a G)).
      { intros Hka. split; [|tauto]. intros Hin. exfalso.
        destruct (gih_sound _ _ HG1 a (proj1 (gih_dflt _ _ HG1 a Hin))) as (_ & _ & r' & G' & HD' & Hiff).
        destruct (D_unique c W B HB2 a r' G' r G HD' HDa) as [-> ->]. apply Hforced. now apply Hiff. }
      pose proof (GIH_add0 X e1 a r G HG1 Han Hja1 HDa Hnd) as HG0.
      assert (Hcont : forall e2, GIH X e2 -> ext (add0 a e1) e2 ->
                GIH X (fold_left (aa_step f) rr e2) /\ ext e1 (fold_left (aa_step f) rr e2) /\
                forall z, In z (a :: rr) -> In z (e_enter (fold_left (aa_step f) rr e2))).
      { intros e2 HG2 He2.
        assert (He12 : ext e1 e2) by (eapply ext_trans; [apply ext_add0 | exact He2]).
        destruct (IHl e2 (fun z Hz => Hl z (or_intror Hz)) HG2 (ext_trans _ _ _ He1 He12)) as (A & B' & C).
        split; [exact A|]. split; [eapply ext_trans; eauto|].
        intros z [<-|Hz]; [apply (proj1 B'), (proj1 He2); cbn; apply me_In_addn; now left | now apply C]. }
      assert (Hclose_np : kd a <> FParallel -> GIH X (add0 a e1)).
      { intros Hnp. apply (GIH_close X _ a HG0); [intros E; congruence|]. cbn [add0 e_default]. intros Hin.
        exfalso. apply Hforced. apply Hnd; [|exact Hin]. exact (proj2 (gih_dflt _ _ HG1 a Hin)). }
      assert (Hkp : kd a <> FParallel \/ kd a = FParallel) by (destruct (kd a); auto; left; discriminate).
      destruct Hkp as [Hka|Hka]; [rewrite (aa_step_np c h f e1 a Hka); apply Hcont; [now apply Hclose_np | apply ext_refl]|].
      rewrite (aa_step_par c h f e1 a Hka).
      { (* parallel *)
        destruct (kids_loop_h f IH a (fun p => X p \/ p = a) r G Hka ltac:(lia) HDa (child_states c a)
                    (fun k Hk => proj1 (proj1 (child_states_spec c W a k) Hk)) (add0 a e1) HG0) as (A & B' & C).
        - cbn. apply me_In_addn. now left.
        - intros k e2 Hk He2 Hsd g Hg Hkg.
          assert (Hug : Anc u g).
          { apply (child_states_spec c W) in Hk as [Hpk _]. eapply (hanc_trans c); [exact Hda|].
            eapply (hanc_trans c); [apply anc_parent; exact Hpk | exact Hkg]. }
          assert (Hgin : In g (e_enter e2)) by (apply (proj1 He2), incl_addn', (proj1 He1); now apply Hall).
          assert (Hgn : g < n) by (destruct (hanc_lt c W _ _ Hkg); assumption).
          assert (some_descendant_of c (e_enter e2) k = true); [|congruence].
          apply existsb_exists. exists g. split; [exact Hgin | now apply (is_desc_iff_h c W)].
        - apply Hcont; [|exact B']. apply (GIH_close X _ a A).
          + intros _ k Hpk. apply C. apply (child_states_spec c W). split; [exact Hpk | exact (parallel_child_proper c W a k Hka Hpk)].
          + intros Hin. exfalso. destruct (gih_dflt _ _ A a Hin) as [_ E]. congruence. } }
  destruct (Hloop (ancs c tg (Some u)) e (fun a Ha => proj1 (HL a) Ha) HG (ext_refl e)) as (A & B' & C).
  split; [exact A|]. split; [exact B'|]. intros a Has Hda. apply C. apply HL. tauto.
Qed.

Lemma ADH_step f : ADH_spec f -> AAH_spec f -> ADH_spec (S f).
Proof.
  intros IHD IHA s e X r G Hf Hs HG HD Hnt Hj.
  rewrite ADH_unfold by (apply proper_not_hist; exact (D_proper c W HcplOK HcplAnti HtgAnti B HB1 r G s HD)).
  unfold is_compound_state, is_parallel_state, sty. fold (kd s).
  assert (Hplain : kd s <> FCompound -> kd s <> FParallel ->
            GIH X (add0 s e) /\ ext e (add0 s e) /\ In s (e_enter (add0 s e))).
  { intros H1 H2. split; [|split; [apply ext_add0 | cbn; apply me_In_addn; now left]].
    apply (GIH_close X _ s (GIH_add0 X e s r G HG Hs Hj HD (fun E => False_ind _ (H1 E)))); [intros E; congruence|].
    cbn [add0 e_default]. intros Hin. exfalso. apply H1. exact (proj2 (gih_dflt _ _ HG s Hin)). }
  destruct (kd s) eqn:Hks.
  1,4,5,6,7: apply Hplain; discriminate.
  - (* compound *)
    pose proof (GIH_add1 X e s r G HG Hs Hj HD Hks Hnt) as HG1.
    pose proof (itg_good c W HcplOK HcplAnti HtgAnti s Hks) as Hgood.
    assert (Hs1 : In s (e_enter (add1 s e))) by (cbn; apply me_In_addn; now left).
    assert (Hd1 : In s (e_default (add1 s e))) by (cbn; apply me_In_addn; now left).
    assert (HDg : forall y, IC s (itg s) y -> Dr s (itg s) y).
    { intros y Hy. exact (D_IC_default c B r G s y HD Hks Hnt Hy). }
    destruct (ADH_fold f IHD (fun p => X p \/ p = s) s (itg s) (itg s) (add1 s e) HG1) as (A1 & B1 & C1).
    { intros g Hg. pose proof (gc_below _ _ _ Hgood g Hg) as Hsg. destruct (hanc_lt c W _ _ Hsg) as [Hlt Hgn]. fold n in Hgn.
      assert (Hic : IC s (itg s) g) by (split; [exact Hsg | exists g; split; [exact Hg | now left]]).
      split; [lia|]. split; [exact Hgn|]. split; [now apply HDg|]. split; [exact (NTG_member c s (itg s) g Hgood Hg)|].
      right. right. exists s. auto. }
    set (e2 := fold_left (fun e x => add_descendants c f h x e) (itg s) (add1 s e)) in *.
    destruct (AAH_fold f IHA (fun p => X p \/ p = s) s s (itg s) ltac:(lia) (itg s) e2 A1 (fun g Hg _ => C1 g Hg)) as (A2 & B2 & C2).
    { intros g Hg. split; [exact Hg|]. pose proof (gc_below _ _ _ Hgood g Hg) as Hsg. split; [exact Hsg|].
      intros a Hag Hsa. assert (Hic : IC s (itg s) a) by (split; [exact Hsa | exists g; split; [exact Hg | now right]]).
      split; [now apply HDg|]. right. right. exists s. split; [apply (proj1 B1); exact Hs1|]. split; [apply (proj2 B1); exact Hd1 | exact Hic]. }
    set (e3 := fold_left (fun e x => add_ancestors c f h x (Some s) e) (itg s) e2) in *.
    split; [|split; [eapply ext_trans; [apply ext_add1|]; eapply ext_trans; eauto | apply (proj1 B2), (proj1 B1); exact Hs1]].
    apply (GIH_close X _ s A2); [intros E; congruence|].
    intros _ y [Hsy (g & Hg & Hon)]. destruct Hon as [->|Hyg]; [apply (proj1 B2); now apply C1 | exact (C2 g y Hg Hyg Hsy)].
  - (* parallel *)
    assert (Hnc : kd s = FCompound -> In s (e_default e) <-> NTG s G) by (intros E; congruence).
    pose proof (GIH_add0 X e s r G HG Hs Hj HD Hnc) as HG0.
    destruct (kids_loop_h f IHD s (fun p => X p \/ p = s) r G Hks ltac:(lia) HD (child_states c s)
                (fun k Hk => proj1 (proj1 (child_states_spec c W s k) Hk)) (add0 s e) HG0) as (A & B' & C).
    + cbn. apply me_In_addn. now left.
    + intros k e2 Hk _ _. apply (child_states_spec c W) in Hk as [Hpk _]. exact (NTG_down c s k G Hpk Hnt).
    + split; [|split; [eapply ext_trans; [apply ext_add0 | exact B'] | apply (proj1 B'); cbn; apply me_In_addn; now left]].
      apply (GIH_close X _ s A).
      * intros _ k Hpk. apply C. apply (child_states_spec c W). split; [exact Hpk | exact (parallel_child_proper c W s k Hks Hpk)].
      * intros Hin. exfalso. destruct (gih_dflt _ _ A s Hin) as [_ E]. congruence.
Qed.

Theorem ADH_AAH_all : forall f, ADH_spec f /\ AAH_spec f.
Proof.
  induction f as [|f [IHD IHA]].
  - split; [intros s e X r G Hf; lia|]. intros tg u r e X G Hf Hdtg. destruct (hanc_lt c W _ _ Hdtg). unfold n in *. lia.
  - split; [now apply ADH_step | now apply AAH_of_ADH].
Qed.

(* ------------------------------------------------------------------ defaultHistoryContent is untouched below a proper state *)

Definition HC_spec (f : nat) : Prop :=
  (forall s e, pseudo s = false -> e_histcontent (add_descendants c f h s e) = e_histcontent e) /\
  (forall s u e, e_histcontent (add_ancestors c f h s u e) = e_histcontent e).

Lemma hc_fold {A} (F : eset -> A -> eset) l : (forall e x, In x l -> e_histcontent (F e x) = e_histcontent e) ->
  forall e, e_histcontent (fold_left F l e) = e_histcontent e.
Proof.
  induction l as [|x r IH]; intros HF e; cbn [fold_left]; [reflexivity|].
  rewrite IH by (intros e0 y Hy; apply HF; now right). apply HF. now left.
Qed.

Lemma HC_all : forall f, HC_spec f.
Proof.
  induction f as [|f [IHD IHA]]; [split; reflexivity|].
  assert (Hkids : forall l e, (forall k, In k l -> pseudo k = false) -> e_histcontent (fold_left (kid_step f) l e) = e_histcontent e).
  { intros l e Hl. apply hc_fold. intros e0 k Hk. unfold RunConformInitialSpec.kid_step.
    destruct (some_descendant_of c (e_enter e0) k); [reflexivity | apply IHD; now apply Hl]. }
  split.
  - intros s e Hps. rewrite ADH_unfold by now apply proper_not_hist.
    unfold is_compound_state, is_parallel_state, sty. fold (kd s). destruct (kd s) eqn:Hk; try reflexivity.
    + pose proof (itg_good c W HcplOK HcplAnti HtgAnti s Hk) as Hgood.
      rewrite hc_fold by (intros e0 x _; apply IHA).
      rewrite hc_fold by (intros e0 x Hx; apply IHD; exact (gc_proper _ _ _ Hgood x Hx)). reflexivity.
    + rewrite Hkids by (intros k Hk'; exact (proj2 (proj1 (child_states_spec c W s k) Hk'))). reflexivity.
  - intros s u e. rewrite AA_unfold. apply hc_fold. intros e0 a _. unfold RunConformInitialSpec.aa_step.
    destruct (is_parallel_state c a); [|reflexivity].
    rewrite Hkids by (intros k Hk'; exact (proj2 (proj1 (child_states_spec c W a k) Hk'))). reflexivity.
Qed.

(* ------------------------------------------------------------------ one target of a transition *)

(* the targets of the default transition of a history state, and what a target stands for *)
Definition dflt_targets (s : nat) : list nat :=
  match fs_trans (st c s) with ti :: _ => ft_targets (tr c ti) | [] => [] end.
Definition res (s : nat) : list nat :=
  if is_history_state c s then match hv_get h s with Some v => v | None => dflt_targets s end else [s].
(* the entry of defaultHistoryContent a target adds *)
Definition hc_one (s : nat) : list (nat * nat) :=
  if is_history_state c s then
    match hv_get h s with
    | Some _ => []
    | None => match fs_trans (st c s), fs_parent (st c s) with ti :: _, Some p => [(p, ti)] | _, _ => [] end
    end
  else [].

Lemma AD_hist_unfold f s e : is_history_state c s = true -> add_descendants c (S f) h s e =
  match fs_parent (st c s) with
  | Some p =>
    let e0 := {| e_enter := e_enter e; e_default := e_default e; e_histcontent := hc_ins (hc_one s) (e_histcontent e) |} in
    fold_left (fun e x => add_ancestors c f h x (Some p) e) (res s)
              (fold_left (fun e x => add_descendants c f h x e) (res s) e0)
  | None => match hv_get h s with
            | Some v => fold_left (fun e x => add_ancestors c f h x None e) v (fold_left (fun e x => add_descendants c f h x e) v e)
            | None => e
            end
  end.
Proof.
  intros Hh. cbn [add_descendants]. unfold res, hc_one, dflt_targets. rewrite Hh.
  destruct (hv_get h s) as [v|] eqn:Ev.
  - destruct (fs_parent (st c s)) as [p|]; [|reflexivity]. cbn [hc_ins fold_left]. destruct e; reflexivity.
  - destruct (fs_trans (st c s)) as [|ti r]; destruct (fs_parent (st c s)) as [p|]; try reflexivity.
    cbn [fold_left hc_ins]. destruct e; reflexivity.
Qed.

Section Target.
Variables d : nat.
Variable G : list nat.
Hypothesis Hb : B d G.

Lemma fuel_ok g : Anc d g -> n - g < spec_fuel c - 1 /\ g < n.
Proof. intros Hg. destruct (hanc_lt c W _ _ Hg). unfold spec_fuel, Spec.n. fold n. lia. Qed.

(* a plain target *)
Lemma target_plain s e X : GIH X e -> pseudo s = false -> In s G ->
  let e' := add_descendants c (spec_fuel c) h s e in
  GIH X e' /\ ext e e' /\ In s (e_enter e') /\ e_histcontent e' = e_histcontent e.
Proof.
  intros HG Hps Hs. pose proof (HB1 d G Hb) as Hgood. pose proof (gc_below _ _ _ Hgood s Hs) as Hds.
  destruct (ADH_AAH_all (spec_fuel c)) as [IHD _].
  assert (Hic : IC d G s) by (split; [exact Hds | exists s; split; [exact Hs | now left]]).
  destruct (fuel_ok s Hds) as [F1 F2].
  destruct (IHD s e X d G ltac:(lia) F2 HG (D_IC_base c B d G s Hb Hic) (NTG_member c d G s Hgood Hs)) as (A & B' & C).
  { left. exists d, G. auto. }
  cbn zeta. split; [exact A|]. split; [exact B'|]. split; [exact C|]. now apply (proj1 (HC_all (spec_fuel c))).
Qed.

(* a history target whose parent q is the domain or lies below it: its resolution is entered with the paths from q *)
Lemma target_hist s q e X : GIH X e -> is_history_state c s = true -> par s = Some q -> (d = q \/ Anc d q) ->
  (forall g, In g (res s) -> In g G /\ Anc q g) ->
  (forall g, In g G -> Anc q g -> In g (res s)) ->
  let e' := add_descendants c (spec_fuel c) h s e in
  GIH X e' /\ ext e e' /\ (forall g, In g (res s) -> In g (e_enter e')) /\
  (forall a g, In g (res s) -> Anc a g -> Anc q a -> In a (e_enter e')) /\
  e_histcontent e' = hc_ins (hc_one s) (e_histcontent e).
Proof.
  intros HG Hh Hq Hdq Hres Hown. pose proof (HB1 d G Hb) as Hgood.
  cbn zeta. unfold spec_fuel. replace (2 * Spec.n c + 4) with (S (2 * Spec.n c + 3)) by lia.
  rewrite (AD_hist_unfold _ s e Hh). unfold par in Hq. rewrite Hq. cbn zeta.
  set (f := 2 * Spec.n c + 3).
  set (e0 := {| e_enter := e_enter e; e_default := e_default e; e_histcontent := hc_ins (hc_one s) (e_histcontent e) |}).
  assert (HG0 : GIH X e0).
  { destruct HG as [A1 A2 A3 A4]. constructor; cbn [e0 e_enter e_default]; auto. }
  assert (He0 : ext e e0) by (split; apply incl_refl).
  destruct (ADH_AAH_all f) as [IHD IHA].
  assert (Hdg : forall g, In g (res s) -> Anc d g).
  { intros g Hg. destruct (Hres g Hg) as [_ Hqg]. destruct Hdq as [->|Hdq]; [exact Hqg | eapply (hanc_trans c); eauto]. }
  assert (Hfuel : forall g, Anc d g -> n - g < f /\ g < n).
  { intros g Hg. destruct (hanc_lt c W _ _ Hg). unfold f, Spec.n. fold n. lia. }
  destruct (ADH_fold f IHD X d G (res s) e0 HG0) as (A1 & B1 & C1).
  { intros g Hg. destruct (Hres g Hg) as [HgG Hqg]. pose proof (Hdg g Hg) as Hdg'. destruct (Hfuel g Hdg') as [F1 F2].
    assert (Hic : IC d G g) by (split; [exact Hdg' | exists g; split; [exact HgG | now left]]).
    split; [exact F1|]. split; [exact F2|]. split; [exact (D_IC_base c B d G g Hb Hic)|].
    split; [exact (NTG_member c d G g Hgood HgG)|]. left. exists d, G. auto. }
  set (e1 := fold_left (fun e x => add_descendants c f h x e) (res s) e0) in *.
  assert (Hqn : n - q <= f).
  { unfold f, Spec.n. fold n. lia. }
  destruct (AAH_fold f IHA X q d G Hqn (res s) e1 A1) as (A2 & B2 & C2).
  { intros g Hg Hqg. apply C1. now apply Hown. }
  { intros g Hg. destruct (Hres g Hg) as [HgG Hqg]. split; [exact HgG|]. split; [exact Hqg|].
    intros a Hag Hqa.
    assert (Hda : Anc d a) by (destruct Hdq as [->|Hdq]; [exact Hqa | eapply (hanc_trans c); eauto]).
    assert (Hic : IC d G a) by (split; [exact Hda | exists g; split; [exact HgG | now right]]).
    split; [exact (D_IC_base c B d G a Hb Hic)|]. left. exists d, G. auto. }
  set (e2 := fold_left (fun e x => add_ancestors c f h x (Some q) e) (res s) e1) in *.
  split; [exact A2|]. split; [eapply ext_trans; [exact He0|]; eapply ext_trans; eauto|].
  split; [intros g Hg; apply (proj1 B2); now apply C1|].
  split; [intros a g Hg Hag Hqa; exact (C2 g a Hg Hag Hqa)|].
  unfold e2. rewrite hc_fold by (intros e' x _; apply (proj2 (HC_all f))).
  unfold e1. rewrite hc_fold; [reflexivity|].
  intros e' x Hx. apply (proj1 (HC_all f)). destruct (Hres x Hx) as [HxG _]. exact (gc_proper _ _ _ Hgood x HxG).
Qed.

(* all targets of the transition (T: as written; G: effective), then the ancestors of the effective targets *)
Definition ctx_enter_h (T l : list nat) (e : eset) : eset :=
  fold_left (fun e s => add_ancestors c (spec_fuel c) h s (Some d) e) l
            (fold_left (fun e s => add_descendants c (spec_fuel c) h s e) T e).

Lemma targets_fold T : (forall s, In s T ->
     (pseudo s = false /\ In s G) \/
     (is_history_state c s = true /\ exists q, par s = Some q /\ (d = q \/ Anc d q) /\
        (forall g, In g (res s) -> In g G /\ Anc q g) /\ (forall g, In g G -> Anc q g -> In g (res s)))) ->
  forall e, GIH (fun _ => False) e ->
  let e' := fold_left (fun e s => add_descendants c (spec_fuel c) h s e) T e in
  GIH (fun _ => False) e' /\ ext e e' /\ (forall s g, In s T -> In g (res s) -> In g (e_enter e')) /\
  e_histcontent e' = hc_ins (flat_map hc_one T) (e_histcontent e).
Proof.
  induction T as [|s r IH]; intros HT e HG; cbn [fold_left flat_map].
  - split; [exact HG|]. split; [apply ext_refl|]. split; [intros s g []|reflexivity].
  - assert (Hstep : GIH (fun _ => False) (add_descendants c (spec_fuel c) h s e) /\ ext e (add_descendants c (spec_fuel c) h s e) /\
                    (forall g, In g (res s) -> In g (e_enter (add_descendants c (spec_fuel c) h s e))) /\
                    e_histcontent (add_descendants c (spec_fuel c) h s e) = hc_ins (hc_one s) (e_histcontent e)).
    { destruct (HT s (or_introl eq_refl)) as [[Hps Hs]|(Hh & q & Hq & Hdq & Hres & Hown)].
      - destruct (target_plain s e _ HG Hps Hs) as (A & B' & C & D').
        split; [exact A|]. split; [exact B'|]. unfold res, hc_one. rewrite (proper_not_hist s Hps). split; [|exact D'].
        intros g [<-|[]]. exact C.
      - destruct (target_hist s q e _ HG Hh Hq Hdq Hres Hown) as (A & B' & C & _ & D'). auto. }
    destruct Hstep as (A1 & B1 & C1 & D1).
    destruct (IH (fun z Hz => HT z (or_intror Hz)) _ A1) as (A & B' & C & D').
    split; [exact A|]. split; [eapply ext_trans; eauto|]. split.
    + intros z g [<-|Hz] Hg; [apply (proj1 B'); now apply C1 | now apply (C z g)].
    + rewrite D', D1. now rewrite hc_ins_app.
Qed.

Lemma ctx_enter_h_ok T l e :
  (forall s, In s T ->
     (pseudo s = false /\ In s G) \/
     (is_history_state c s = true /\ exists q, par s = Some q /\ (d = q \/ Anc d q) /\
        (forall g, In g (res s) -> In g G /\ Anc q g) /\ (forall g, In g G -> Anc q g -> In g (res s)))) ->
  (forall g, In g G -> exists s, In s T /\ In g (res s)) ->
  (forall x, In x l <-> In x G) -> GIH (fun _ => False) e ->
  GIH (fun _ => False) (ctx_enter_h T l e) /\ ext e (ctx_enter_h T l e) /\
  (forall y, IC d G y -> In y (e_enter (ctx_enter_h T l e))) /\
  e_histcontent (ctx_enter_h T l e) = hc_ins (flat_map hc_one T) (e_histcontent e).
Proof.
  intros HT Hcover Hl HG. pose proof (HB1 d G Hb) as Hgood. unfold ctx_enter_h.
  destruct (targets_fold T HT e HG) as (A1 & B1 & C1 & D1).
  set (e1 := fold_left (fun e s => add_descendants c (spec_fuel c) h s e) T e) in *.
  assert (Hall : forall g, In g G -> In g (e_enter e1)).
  { intros g Hg. destruct (Hcover g Hg) as (s & Hs & Hgs). exact (C1 s g Hs Hgs). }
  destruct (ADH_AAH_all (spec_fuel c)) as [_ IHA].
  destruct (AAH_fold (spec_fuel c) IHA (fun _ => False) d d G ltac:(unfold spec_fuel, Spec.n; fold n; lia) l e1 A1 (fun g Hg _ => Hall g Hg)) as (A2 & B2 & C2).
  { intros g Hg. apply Hl in Hg. split; [exact Hg|]. pose proof (gc_below _ _ _ Hgood g Hg) as Hdg. split; [exact Hdg|].
    intros a Hag Hda. assert (Hic : IC d G a) by (split; [exact Hda | exists g; split; [exact Hg | now right]]).
    split; [exact (D_IC_base c B d G a Hb Hic)|]. left. exists d, G. auto. }
  split; [exact A2|]. split; [eapply ext_trans; eauto|]. split.
  - intros y [Hdy (g & Hg & Hon)]. destruct Hon as [->|Hyg]; [apply (proj1 B2); now apply Hall|].
    apply (C2 g y); [now apply Hl | exact Hyg | exact Hdy].
  - rewrite hc_fold by (intros e' x _; apply (proj2 (HC_all (spec_fuel c)))). exact D1.
Qed.

End Target.

Lemma GIH_empty : GIH (fun _ => False) {| e_enter := []; e_default := []; e_histcontent := [] |}.
Proof. constructor; cbn; intros ? []. Qed.

(* ------------------------------------------------------------------ a finished set *)

Section Final.
Variable e : eset.
Hypothesis HG : GIH (fun _ => False) e.
(* every context of the microstep has been entered *)
Hypothesis Hbase : forall r G y, B r G -> IC r G y -> In y (e_enter e).
Notation S := (e_enter e).

Lemma S_D_h x : In x S -> exists r G, Dr r G x.
Proof. intros Hx. destruct (gih_sound _ _ HG x Hx) as (_ & _ & r & G & HD & _). eauto. Qed.

Lemma S_below_root_h x : In x S -> exists r0 G0, B r0 G0 /\ Anc r0 x.
Proof.
  intros Hx. destruct (S_D_h x Hx) as (r & G & HD). destruct (D_root c B r G x HD) as (r0 & G0 & Hb & Hr).
  exists r0, G0. split; [exact Hb|]. pose proof (D_below c B r G x HD) as Hrx.
  destruct Hr as [->|Hr]; [exact Hrx | eapply (hanc_trans c); eauto].
Qed.

Lemma S_up_h : forall y, In y S -> forall k p, Anc k y -> par k = Some p -> In p S -> In k S.
Proof.
  induction y as [y IH] using lt_wf_ind. intros Hy k p Hky Hpk Hp.
  destruct (gih_sound _ _ HG y Hy) as (_ & [(r0 & G0 & Hb & Hic)|[(q & Hq & Hin & Hkq)|(q & Hq & Hdq & Hic)]] & _).
  - destruct Hic as [Hry (g & Hg & Hon)].
    destruct (hanc_chain c r0 k y Hry Hky) as [E|[E|E]].
    + exfalso. subst k. destruct (S_below_root_h p Hp) as (r1 & G1 & Hb1 & Ha1).
      assert (H10 : Anc r1 r0) by (eapply (hanc_trans c); [exact Ha1 | now apply anc_parent]).
      destruct (HB2 r1 G1 r0 G0 Hb1 Hb) as [[-> _]|(_ & Hn & _)]; [exact (hanc_irrefl c W _ H10) | now apply Hn].
    + apply (Hbase r0 G0 k Hb). split; [exact E|]. exists g. split; [exact Hg|]. right.
      destruct Hon as [->|Hyg]; [exact Hky | eapply (hanc_trans c); eauto].
    + exfalso. destruct (S_below_root_h p Hp) as (r1 & G1 & Hb1 & Ha1).
      assert (H10 : Anc r1 r0) by (eapply (hanc_trans c); [exact Ha1|]; eapply (hanc_trans c); [apply anc_parent; exact Hpk | exact E]).
      destruct (HB2 r1 G1 r0 G0 Hb1 Hb) as [[-> _]|(_ & Hn & _)]; [exact (hanc_irrefl c W _ H10) | now apply Hn].
  - destruct (anc_child par _ _ _ Hq Hky) as [->|Hkq']; [exact Hin|].
    destruct (wh_par_lt c W _ _ Hq) as [Hlt _]. exact (IH q Hlt Hin k p Hkq' Hpk Hp).
  - destruct Hic as [Hqy (g & Hg & Hon)].
    destruct (hanc_chain c q k y Hqy Hky) as [E|[E|E]].
    + now subst k.
    + apply (gih_cmp _ _ HG q Hq (fun F => F) Hdq). split; [exact E|]. exists g. split; [exact Hg|]. right.
      destruct Hon as [->|Hyg]; [exact Hky | eapply (hanc_trans c); eauto].
    + destruct (hanc_lt c W _ _ Hqy) as [Hlt _]. exact (IH q Hlt Hq k p E Hpk Hp).
Qed.

Lemma D_S_strong_h r G x : Dr r G x -> In x S /\ (B r G \/ (In r S /\ In r (e_default e) /\ G = itg r)).
Proof.
  induction 1 as [r G k Hb Hp Ho|r G p k HD [IH1 IH2] Hk Hp|r G p k HD [IH1 IH2] Hk Hp Ho|r G p k HD [IH1 IH2] Hk Hn Hp Ho].
  - split; [|now left]. apply (Hbase r G k Hb). destruct Ho as (g & Hg & Hon). split; [now apply anc_parent | exists g; auto].
  - split; [|exact IH2]. destruct (gih_par _ _ HG p IH1 (fun F => F) Hk k Hp) as [H|(y & Hy & Ha)]; [exact H|].
    exact (S_up_h y Hy k p Ha Hp IH1).
  - split; [|exact IH2]. destruct Ho as (g & Hg & Hon).
    assert (Hic : IC r G k).
    { split; [eapply anc_step; [exact Hp | exact (D_below c B r G p HD)] | exists g; auto]. }
    destruct IH2 as [Hb|(Hr & Hd & ->)]; [exact (Hbase r G k Hb Hic) | exact (gih_cmp _ _ HG r Hr (fun F => F) Hd k Hic)].
  - assert (Hpd : In p (e_default e)).
    { destruct (gih_sound _ _ HG p IH1) as (_ & _ & r' & G' & HD' & Hiff).
      destruct (D_unique c W B HB2 p r' G' r G HD' HD) as [-> ->]. now apply Hiff. }
    split; [|right; auto]. destruct Ho as (g & Hg & Hon).
    apply (gih_cmp _ _ HG p IH1 (fun F => F) Hpd). split; [now apply anc_parent | exists g; auto].
Qed.

Theorem final_set_h x : In x S <-> exists r G, Dr r G x.
Proof. split; [apply S_D_h | intros (r & G & HD); exact (proj1 (D_S_strong_h r G x HD))]. Qed.

Theorem final_default_h x : In x (e_default e) <-> kd x = FCompound /\ exists r G, Dr r G x /\ NTG x G.
Proof.
  split.
  - intros Hd. destruct (gih_dflt _ _ HG x Hd) as [Hx Hk]. split; [exact Hk|].
    destruct (gih_sound _ _ HG x Hx) as (_ & _ & r & G & HD & Hiff). exists r, G. split; [exact HD | now apply Hiff].
  - intros (Hk & r & G & HD & Hn). destruct (gih_sound _ _ HG x (proj1 (D_S_strong_h r G x HD))) as (_ & _ & r' & G' & HD' & Hiff).
    destruct (D_unique c W B HB2 x r' G' r G HD' HD) as [-> ->]. now apply Hiff.
Qed.

End Final.

End HSpec.
