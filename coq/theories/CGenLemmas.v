(* CGenLemmas.v -- proofs about the model of the emitted ANSI-C machine (CGen.v). *)
From V Require Import Base NameMatch Chart Exec Large Fast GenFlags GenCGen CGen.
From Coq Require Import Lia.
Local Open Scope nat_scope.

(* ================================================================== macros of the template *)

Lemma cg_kinds_under_mask : forallb (fun k => (N.land k CG_STATE_MASK_BITS =? k)%N) cg_state_kinds = true.
Proof. vm_compute. reflexivity. Qed.

Lemma cg_has_history_outside_mask : N.land CG_STATE_HAS_HISTORY CG_STATE_MASK_BITS = 0%N.
Proof. vm_compute. reflexivity. Qed.

Lemma cg_kinds_distinct : NoDup cg_state_kinds.
Proof. unfold cg_state_kinds. repeat constructor; simpl; intuition discriminate. Qed.

Fixpoint pairwise_disjoint (l : list N) : bool :=
  match l with
  | [] => true
  | x :: r => forallb (fun y => (N.land x y =? 0)%N) r && pairwise_disjoint r
  end.

Lemma cg_trans_flags_disjoint : pairwise_disjoint cg_trans_flags = true.
Proof. vm_compute. reflexivity. Qed.
Lemma cg_ctx_flags_disjoint : pairwise_disjoint cg_ctx_flags = true.
Proof. vm_compute. reflexivity. Qed.

(* the template uses the engines' values *)
Lemma cg_macros_as_fast_engine :
  cg_state_kinds ++ [CG_STATE_HAS_HISTORY] = map snd GenFlags.fast_state_table /\
  cg_trans_flags = map snd GenFlags.fast_trans_table /\
  CG_CTX_PRISTINE :: cg_ctx_flags = firstn 6 (map snd GenFlags.fast_ctx_table).
Proof. vm_compute. repeat split. Qed.

Lemma cg_results_distinct : NoDup [CG_ERR_OK; CG_ERR_IDLE; CG_ERR_DONE].
Proof. repeat constructor; simpl; intuition discriminate. Qed.

(* ================================================================== sizing *)

Section SizingLemmas.
Local Open Scope N_scope.

Lemma size_le_24 : forall n, n < 2 ^ 24 -> N.size n <= 24.
Proof.
  intros n H. destruct (N.le_gt_cases (N.size n) 24) as [L | G]; [exact L | exfalso].
  pose proof (N.size_le n) as S.
  assert (P : 2 ^ 25 <= 2 ^ N.size n) by (apply N.pow_le_mono_r; lia).
  rewrite N.succ_double_spec in S. lia.
Qed.

Lemma f32_exact : forall n, n < 2 ^ 24 -> f32_round n = n.
Proof.
  intros n H. unfold f32_round. pose proof (size_le_24 n H) as S.
  destruct (N.size n <=? 24) eqn:E; [reflexivity | apply N.leb_gt in E; lia].
Qed.

Lemma ldiff7_shiftr3 : forall a, N.shiftr (N.ldiff a 7) 3 = a / 8.
Proof.
  intros a. change 8 with (2 ^ 3). rewrite <- N.shiftr_div_pow2.
  apply N.bits_inj. intro k. rewrite !N.shiftr_spec by lia. rewrite N.ldiff_spec.
  change 7 with (N.ones 3). rewrite N.ones_spec_high by lia. rewrite andb_true_r. reflexivity.
Qed.

Lemma width_for_holds : forall n, n < 2 ^ 24 -> n < 2 ^ width_for n.
Proof.
  intros n H. unfold width_for.
  destruct (n <? 2 ^ 8) eqn:A; [apply N.ltb_lt in A; exact A|].
  destruct (n <? 2 ^ 16) eqn:B; [apply N.ltb_lt in B; exact B|].
  destruct (n <? 2 ^ 32) eqn:C; [apply N.ltb_lt in C; exact C|].
  apply N.ltb_ge in C. assert (2 ^ 24 < 2 ^ 32) by (apply N.pow_lt_mono_r; lia). lia.
Qed.

Lemma width_cases : forall n, width_for n = 8 \/ width_for n = 16 \/ width_for n = 32 \/ width_for n = 64.
Proof. intro n. unfold width_for. repeat destruct (_ <? _); auto. Qed.

(* what uscxml_step computes is ceil(n / 8), in the emitted type *)
Lemma nr_bytes_eq : forall n, n < 2 ^ 24 -> nr_bytes (width_for n) n = (n + 7) / 8.
Proof.
  intros n H. pose proof (width_for_holds n H) as W. unfold nr_bytes, trunc.
  assert (D : (n + 7) / 8 < 2 ^ width_for n).
  { unfold width_for in *.
    destruct (n <? 2 ^ 8) eqn:A.
    - apply N.ltb_lt in A. apply N.div_lt_upper_bound; [lia|]. change (2 ^ 8) with 256 in *. lia.
    - destruct (n <? 2 ^ 16) eqn:B.
      + apply N.ltb_lt in B. apply N.div_lt_upper_bound; [lia|]. change (2 ^ 16) with 65536 in *. lia.
      + destruct (n <? 2 ^ 32) eqn:C.
        * apply N.div_lt_upper_bound; [lia|]. change (2 ^ 24) with 16777216 in H. change (2 ^ 32) with 4294967296. lia.
        * apply N.div_lt_upper_bound; [lia|]. change (2 ^ 24) with 16777216 in H. change (2 ^ 64) with 18446744073709551616. lia. }
  destruct (width_for n <=? 16) eqn:LE.
  - rewrite ldiff7_shiftr3. apply N.mod_small. exact D.
  - assert (S : (n + 7) mod 2 ^ width_for n = n + 7).
    { apply N.mod_small. apply N.leb_gt in LE.
      assert (2 ^ 24 + 7 < 2 ^ 32) by (vm_compute; reflexivity).
      assert (2 ^ 32 < 2 ^ 64) by (vm_compute; reflexivity).
      destruct (width_cases n) as [E | [E | [E | E]]]; rewrite E in *; lia. }
    rewrite S. rewrite ldiff7_shiftr3. apply N.mod_small. exact D.
Qed.

Lemma max_bytes_eq : forall n, n < 2 ^ 24 -> max_bytes n = N.max 1 ((n + 7) / 8).
Proof. intros n H. unfold max_bytes, char_array_size. rewrite f32_exact by exact H. reflexivity. Qed.

(* the arrays the generator declares are large enough for what the step function touches *)
Lemma sizing_ok : forall n, n < 2 ^ 24 ->
  nr_bytes (width_for n) n <= max_bytes n /\ n <= 8 * max_bytes n.
Proof.
  intros n H. rewrite nr_bytes_eq, max_bytes_eq by exact H. split; [lia|].
  pose proof (N.div_mod (n + 7) 8 ltac:(lia)) as D. pose proof (N.mod_lt (n + 7) 8 ltac:(lia)) as M. lia.
Qed.

(* ... but not for every n: (float)16777217 is 16777216 *)
Lemma sizing_refuted_at : let n := 16777217 in
  max_bytes n < nr_bytes (width_for n) n /\ 8 * max_bytes n < n /\ (n - 1) / 8 = max_bytes n.
Proof. vm_compute. repeat split. Qed.

End SizingLemmas.

(* ================================================================== byte level: no access outside the arrays *)

Definition noob {A} (r : res A) (P : A -> Prop) : Prop :=
  match r with Ok a => P a | Oob _ => False | _ => True end.

Lemma noob_bind : forall A B (r : res A) (k : A -> res B) (Q : A -> Prop) (P : B -> Prop),
  noob r Q -> (forall a, Q a -> noob (k a) P) -> noob (bind r k) P.
Proof. intros A B r k Q P H K. destruct r; simpl in *; auto. Qed.

Lemma noob_weaken : forall A (r : res A) (P Q : A -> Prop), noob r P -> (forall a, P a -> Q a) -> noob r Q.
Proof. intros A r P Q H W. destruct r; simpl in *; auto. Qed.

Lemma noob_forM : forall S (I : S -> Prop) (l : list nat) (body : nat -> S -> res S) (s : S),
  I s -> (forall i s, In i l -> I s -> noob (body i s) I) -> noob (forM l body s) I.
Proof.
  intros S I l. induction l as [| i r IH]; intros body s Hs Hb; simpl; [exact Hs|].
  eapply noob_bind; [apply Hb; [left; reflexivity | exact Hs]|].
  intros s' Hs'. apply IH; [exact Hs'|]. intros j t Hj Ht. apply Hb; [right; exact Hj | exact Ht].
Qed.

Lemma noob_forB : forall S (I : S -> Prop) (l : list nat) (body : nat -> S -> res (bool * S)) (s : S),
  I s -> (forall i s, In i l -> I s -> noob (body i s) (fun bs => I (snd bs))) -> noob (forB l body s) I.
Proof.
  intros S I l. induction l as [| i r IH]; intros body s Hs Hb; simpl; [exact Hs|].
  eapply noob_bind; [apply Hb; [left; reflexivity | exact Hs]|].
  intros [b s'] Hs'. simpl in *. destruct b; [exact Hs'|].
  apply IH; [exact Hs'|]. intros j t Hj Ht. apply Hb; [right; exact Hj | exact Ht].
Qed.

Definition lens (m : bmem) : list nat := map (@length N) m.

Lemma get_len : forall m a, length (get m a) = nth a (lens m) 0.
Proof.
  intros m a. unfold get, lens. revert a. induction m as [| x r IH]; intros [| a]; simpl; auto.
Qed.

Lemma upd_length : forall A (l : list A) i v, length (upd l i v) = length l.
Proof. intros A l. induction l as [| x r IH]; intros [| i] v; simpl; auto. Qed.

Lemma lens_upd : forall m a v, length v = length (get m a) -> lens (upd m a v) = lens m.
Proof.
  unfold lens, get. intros m. induction m as [| x r IH]; intros [| a] v H; simpl in *; auto.
  - rewrite H. reflexivity.
  - rewrite IH by exact H. reflexivity.
Qed.

Lemma rd_ok : forall site a i, i < length a -> noob (rd site a i) (fun _ => True).
Proof.
  intros site a i H. unfold rd. destruct (nth_error a i) eqn:E; simpl; [exact I|].
  apply nth_error_None in E. lia.
Qed.

Lemma wr_ok : forall site m a i v, i < length (get m a) -> noob (wr site m a i v) (fun m' => lens m' = lens m).
Proof.
  intros site m a i v H. unfold wr. apply Nat.ltb_lt in H. rewrite H. simpl.
  apply lens_upd. apply upd_length.
Qed.

Lemma div8_lt : forall idx n, idx < 8 * n -> idx / 8 < n.
Proof. intros idx n H. apply Nat.div_lt_upper_bound; lia. Qed.

Lemma bit_has_ok : forall site a idx, idx < 8 * length a -> noob (bit_has site a idx) (fun _ => True).
Proof.
  intros site a idx H. unfold bit_has. eapply noob_bind; [apply rd_ok, div8_lt, H|]. intros; simpl; exact I.
Qed.

Lemma bit_set_at_ok : forall site m a idx, idx < 8 * length (get m a) ->
  noob (bit_set_at site m a idx) (fun m' => lens m' = lens m).
Proof.
  intros site m a idx H. unfold bit_set_at. eapply noob_bind; [apply rd_ok, div8_lt, H|].
  intros b _. apply wr_ok, div8_lt, H.
Qed.

Lemma bit_clear_ok : forall site m a idx, idx < 8 * length (get m a) ->
  noob (bit_clear site m a idx) (fun m' => lens m' = lens m).
Proof.
  intros site m a idx H. unfold bit_clear. eapply noob_bind; [apply rd_ok, div8_lt, H|].
  intros b _. apply wr_ok, div8_lt, H.
Qed.

Lemma in_bytes_desc : forall k nb, In k (bytes_desc nb) -> k < nb.
Proof. intros k nb H. unfold bytes_desc in H. apply in_rev in H. apply in_seq in H. lia. Qed.

Lemma map2_bytes_ok : forall site f m dst src nb,
  nb <= length (get m dst) -> nb <= length src ->
  noob (map2_bytes site f m dst src nb) (fun m' => lens m' = lens m).
Proof.
  intros site f m dst src nb Hd Hs. unfold map2_bytes.
  apply noob_forM with (I := fun m' => lens m' = lens m); [reflexivity|].
  intros k m' Hk Hm'. apply in_bytes_desc in Hk.
  assert (L : length (get m' dst) = length (get m dst)) by (rewrite !get_len, Hm'; reflexivity).
  eapply noob_bind; [apply rd_ok; lia|]. intros d _.
  eapply noob_bind; [apply rd_ok; lia|]. intros s _.
  eapply noob_weaken; [apply wr_ok; lia|]. intros m'' E. simpl in E. congruence.
Qed.

Lemma bit_clear_all_ok : forall site m dst nb, nb <= length (get m dst) ->
  noob (bit_clear_all site m dst nb) (fun m' => lens m' = lens m).
Proof.
  intros site m dst nb Hd. unfold bit_clear_all.
  apply noob_forM with (I := fun m' => lens m' = lens m); [reflexivity|].
  intros k m' Hk Hm'. apply in_bytes_desc in Hk.
  assert (L : length (get m' dst) = length (get m dst)) by (rewrite !get_len, Hm'; reflexivity).
  eapply noob_weaken; [apply wr_ok; lia|]. intros m'' E. simpl in E. congruence.
Qed.

Lemma has_and_loop_ok : forall site a b ks, (forall k, In k ks -> k < length a /\ k < length b) ->
  noob (has_and_loop site a b ks) (fun _ => True).
Proof.
  intros site a b ks. induction ks as [| k r IH]; intro H; simpl; [exact I|].
  destruct (H k (or_introl eq_refl)) as [Ha Hb].
  eapply noob_bind; [apply rd_ok; exact Ha|]. intros x _.
  eapply noob_bind; [apply rd_ok; exact Hb|]. intros y _.
  destruct (N.land x y =? 0)%N; [|simpl; exact I]. apply IH. intros j Hj. apply H. right. exact Hj.
Qed.

Lemma bit_has_and_ok : forall site a b nb, nb <= length a -> nb <= length b ->
  noob (bit_has_and site a b nb) (fun _ => True).
Proof.
  intros site a b nb Ha Hb. unfold bit_has_and. apply has_and_loop_ok.
  intros k Hk. apply in_bytes_desc in Hk. lia.
Qed.

Lemma has_any_loop_ok : forall site a ks, (forall k, In k ks -> k < length a) ->
  noob (has_any_loop site a ks) (fun _ => True).
Proof.
  intros site a ks. induction ks as [| k r IH]; intro H; simpl; [exact I|].
  eapply noob_bind; [apply rd_ok; apply H; left; reflexivity|]. intros x _.
  destruct (x =? 0)%N; [|simpl; exact I]. apply IH. intros j Hj. apply H. right. exact Hj.
Qed.

Lemma bit_has_any_ok : forall site a nb, nb <= length a -> noob (bit_has_any site a nb) (fun _ => True).
Proof.
  intros site a nb Ha. unfold bit_has_any. apply has_any_loop_ok.
  intros k Hk. apply in_bytes_desc in Hk. lia.
Qed.

(* ------------------------------------------------------------------ uscxml_step *)

Section BStepSafe.
Variable cv : cg_variant.
Variable E : Type.
Variables cb_deq_int cb_deq_ext : E -> option E.
Variable cb_matched : E -> nat -> bool.
Variable cb_enabled : E -> barr -> nat -> bool.
Variables cb_on_exit cb_on_trans cb_on_entry : nat -> barr -> E -> E.
Variable cb_done : nat -> E -> E.
Variable bm : bmachine.
(* USCXML_MAX_NR_STATES_BYTES, USCXML_MAX_NR_TRANS_BYTES: the declared lengths *)
Variables MS MT : nat.

Definition state_ok (s : bstate) : Prop :=
  bs_parent s < bm_ns bm /\ length (bs_children s) = MS /\ length (bs_completion s) = MS /\ length (bs_ancestors s) = MS.
Definition trans_ok (t : btrans) : Prop :=
  bt_source t < bm_ns bm /\ length (bt_target t) = MS /\ length (bt_conflicts t) = MT /\ length (bt_exit t) = MS.

Record machine_ok : Prop := {
  mo_ns : length (bm_states bm) = bm_ns bm;
  mo_nt : length (bm_trans bm) = bm_nt bm;
  mo_states : Forall state_ok (bm_states bm);
  mo_trans : Forall trans_ok (bm_trans bm);
  mo_nsb : bm_nsb bm <= MS;
  mo_ntb : bm_ntb bm <= MT;
  mo_bits_s : bm_ns bm <= 8 * MS;
  mo_bits_t : bm_nt bm <= 8 * MT;
  mo_pos : 0 < MS;
  mo_ns_pos : 0 < bm_ns bm
}.
Hypothesis MOK : machine_ok.

Definition LL : list nat := [MS; MS; MS; MS; MT; MT; MS; MS; MS; MS].
Definition mem_ok (m : bmem) : Prop := lens m = LL.

Lemma mem_len : forall m a, mem_ok m -> length (get m a) = nth a LL 0.
Proof. intros m a H. rewrite get_len, H. reflexivity. Qed.

Lemma st_at_ok : forall site i, i < bm_ns bm -> noob (st_at site bm i) state_ok.
Proof.
  intros site i H. unfold st_at. destruct (nth_error (bm_states bm) i) eqn:Eq; simpl.
  - pose proof (mo_states MOK) as F. rewrite Forall_forall in F. apply F. eapply nth_error_In; eauto.
  - apply nth_error_None in Eq. rewrite (mo_ns MOK) in Eq. lia.
Qed.

Lemma tr_at_ok : forall site i, i < bm_nt bm -> noob (tr_at site bm i) trans_ok.
Proof.
  intros site i H. unfold tr_at. destruct (nth_error (bm_trans bm) i) eqn:Eq; simpl.
  - pose proof (mo_trans MOK) as F. rewrite Forall_forall in F. apply F. eapply nth_error_In; eauto.
  - apply nth_error_None in Eq. rewrite (mo_nt MOK) in Eq. lia.
Qed.

Lemma ok_has : forall site m a idx, mem_ok m -> idx < 8 * nth a LL 0 -> noob (bit_has site (get m a) idx) (fun _ => True).
Proof. intros. apply bit_has_ok. rewrite (mem_len m a) by assumption. assumption. Qed.

Lemma ok_set_at : forall site m a idx, mem_ok m -> idx < 8 * nth a LL 0 -> noob (bit_set_at site m a idx) mem_ok.
Proof.
  intros site m a idx H I. eapply noob_weaken; [apply bit_set_at_ok; rewrite (mem_len m a) by assumption; assumption|].
  intros m' Eq. unfold mem_ok in *. simpl in Eq. congruence.
Qed.

Lemma ok_clear : forall site m a idx, mem_ok m -> idx < 8 * nth a LL 0 -> noob (bit_clear site m a idx) mem_ok.
Proof.
  intros site m a idx H I. eapply noob_weaken; [apply bit_clear_ok; rewrite (mem_len m a) by assumption; assumption|].
  intros m' Eq. unfold mem_ok in *. simpl in Eq. congruence.
Qed.

Lemma ok_map2 : forall site f m dst src nb, mem_ok m -> nb <= nth dst LL 0 -> nb <= length src ->
  noob (map2_bytes site f m dst src nb) mem_ok.
Proof.
  intros site f m dst src nb H I J. eapply noob_weaken; [apply map2_bytes_ok; [rewrite (mem_len m dst) by assumption; assumption | assumption]|].
  intros m' Eq. unfold mem_ok in *. simpl in Eq. congruence.
Qed.

Lemma ok_clear_all : forall site m dst nb, mem_ok m -> nb <= nth dst LL 0 -> noob (bit_clear_all site m dst nb) mem_ok.
Proof.
  intros site m dst nb H I. eapply noob_weaken; [apply bit_clear_all_ok; rewrite (mem_len m dst) by assumption; assumption|].
  intros m' Eq. unfold mem_ok in *. simpl in Eq. congruence.
Qed.

Ltac mok := destruct MOK as [Kns Knt Kst Ktr Knsb Kntb Kbs Kbt Kpos Knspos].
Ltac inseq :=
  repeat match goal with
         | H : In _ (rev _) |- _ => apply in_rev in H
         | H : In _ (seq _ _) |- _ => apply in_seq in H
         end.
Ltac side := unfold LL, A_CONFIG, A_HISTORY, A_INVOC, A_INITD, A_CONFL, A_TRSET, A_TARGET, A_EXIT, A_ENTRY, A_TMP in *;
             cbn [nth] in *; unfold state_ok, trans_ok in *; try lia.
Ltac ops := unfold bit_or, bit_and, bit_and_not, bit_copy.
(* one statement of the emitted code *)
Ltac stp :=
  lazymatch goal with
  | |- noob (bind (st_at _ _ _) _) _ => eapply noob_bind; [apply st_at_ok; side | intros ? ?]
  | |- noob (bind (tr_at _ _ _) _) _ => eapply noob_bind; [apply tr_at_ok; side | intros ? ?]
  | |- noob (bind (bit_has _ (get _ _) _) _) _ => eapply noob_bind; [apply ok_has; [assumption | side] | intros ? _]
  | |- noob (bind (bit_has _ _ _) _) _ => eapply noob_bind; [apply bit_has_ok; side | intros ? _]
  | |- noob (bind (bit_has_and _ _ _ _) _) _ => eapply noob_bind; [apply bit_has_and_ok; side | intros ? _]
  | |- noob (bind (bit_has_any _ _ _) _) _ => eapply noob_bind; [apply bit_has_any_ok; side | intros ? _]
  | |- noob (bind (map2_bytes _ _ _ _ _ _) _) _ => eapply noob_bind; [apply ok_map2; [assumption | side | side] | intros ? ?]
  | |- noob (bind (bit_clear_all _ _ _ _) _) _ => eapply noob_bind; [apply ok_clear_all; [assumption | side] | intros ? ?]
  | |- noob (bind (bit_set_at _ _ _ _) _) _ => eapply noob_bind; [apply ok_set_at; [assumption | side] | intros ? ?]
  | |- noob (bind (bit_clear _ _ _ _) _) _ => eapply noob_bind; [apply ok_clear; [assumption | side] | intros ? ?]
  | |- noob (map2_bytes _ _ _ _ _ _) _ => apply ok_map2; [assumption | side | side]
  | |- noob (bit_clear_all _ _ _ _) _ => apply ok_clear_all; [assumption | side]
  | |- noob (bit_set_at _ _ _ _) _ => apply ok_set_at; [assumption | side]
  | |- noob (bit_clear _ _ _ _) _ => apply ok_clear; [assumption | side]
  | |- noob (if ?c then _ else _) _ => destruct c
  | |- noob (Ok _) _ => simpl; auto
  end.
Ltac stps := ops; repeat stp.
(* the same with chosen names: value [x], fact [H] *)
Tactic Notation "stp" "as" ident(x) ident(H) :=
  lazymatch goal with
  | |- noob (bind (st_at _ _ _) _) _ => eapply noob_bind; [apply st_at_ok; side | intros x H]
  | |- noob (bind (tr_at _ _ _) _) _ => eapply noob_bind; [apply tr_at_ok; side | intros x H]
  | |- noob (bind (bit_has _ (get _ _) _) _) _ => eapply noob_bind; [apply ok_has; [assumption | side] | intros x H]
  | |- noob (bind (bit_has _ _ _) _) _ => eapply noob_bind; [apply bit_has_ok; side | intros x H]
  | |- noob (bind (bit_has_and _ _ _ _) _) _ => eapply noob_bind; [apply bit_has_and_ok; side | intros x H]
  | |- noob (bind (bit_has_any _ _ _) _) _ => eapply noob_bind; [apply bit_has_any_ok; side | intros x H]
  | |- noob (bind (map2_bytes _ _ _ _ _ _) _) _ => eapply noob_bind; [apply ok_map2; [assumption | side | side] | intros x H]
  | |- noob (bind (bit_clear_all _ _ _ _) _) _ => eapply noob_bind; [apply ok_clear_all; [assumption | side] | intros x H]
  | |- noob (bind (bit_set_at _ _ _ _) _) _ => eapply noob_bind; [apply ok_set_at; [assumption | side] | intros x H]
  | |- noob (bind (bit_clear _ _ _ _) _) _ => eapply noob_bind; [apply ok_clear; [assumption | side] | intros x H]
  end.

Let ns := bm_ns bm.
Let nt := bm_nt bm.

(* lengths of the ten arrays, as hypotheses lia can use *)
Lemma mem_lens : forall m, mem_ok m ->
  length (get m A_CONFIG) = MS /\ length (get m A_HISTORY) = MS /\ length (get m A_INVOC) = MS /\ length (get m A_INITD) = MS /\
  length (get m A_CONFL) = MT /\ length (get m A_TRSET) = MT /\ length (get m A_TARGET) = MS /\ length (get m A_EXIT) = MS /\
  length (get m A_ENTRY) = MS /\ length (get m A_TMP) = MS.
Proof. intros m H. repeat split; rewrite (mem_len _ _ H); reflexivity. Qed.

Notation Bsel1 := (b_select_one E cb_matched cb_enabled bm).
Notation Bsel := (b_select E cb_matched cb_enabled bm).

Lemma b_select_one_ok : forall ev e i mf, i < nt -> mem_ok (fst mf) ->
  noob (Bsel1 ev e i mf) (fun r => mem_ok (fst r)).
Proof.
  intros ev e i [m f] Hi Hm. simpl in Hm. mok. unfold b_select_one, ns, nt in *. cbn [fst snd].
  stp. destruct H as [Hs [Ht [Hc Hx]]].
  stps.
Qed.

Lemma b_select_ok : forall ev e m, mem_ok m -> noob (Bsel ev e m) (fun r => mem_ok (fst r)).
Proof.
  intros ev e m Hm. mok. unfold b_select.
  stp. stp.
  eapply noob_bind.
  { apply noob_forM with (I := fun r : bmem * bool => mem_ok (fst r)); [simpl; assumption|].
    intros i r Hi Hr. inseq. apply b_select_one_ok; [unfold nt; lia | assumption]. }
  intros [m3 f] H3. cbn [fst snd] in *.
  pose proof (mem_lens _ H3) as L3.
  ops. stp. simpl. assumption.
Qed.

Lemma b_remember_ok : forall m, mem_ok m -> noob (b_remember bm m) mem_ok.
Proof.
  intros m Hm. mok. unfold b_remember. apply noob_forM with (I := mem_ok); [assumption|].
  intros i m' Hi Hm'. inseq. unfold b_remember_one.
  stp as s0 Hs0. destruct Hs0 as [Hp [Hc [Hk Ha]]].
  stp; [simpl; assumption|]. stp. stp; [simpl; assumption|].
  ops. stp as m1 H1. pose proof (mem_lens _ H1) as L1. stp. stp as m3 H3. pose proof (mem_lens _ H3) as L3. stp.
Qed.

Lemma b_add_anc_of_ok : forall brk set i m, mem_ok m -> length set = MS -> noob (b_add_anc_of bm brk set i m) mem_ok.
Proof.
  intros brk set i m Hm Hs. mok. unfold b_add_anc_of.
  apply noob_forB with (I := mem_ok); [assumption|].
  intros k m' Hk Hm'. inseq.
  stp. stp; [simpl; assumption|]. stp as sk Hsk. destruct Hsk as [Hp [Hc [Hk2 Ha]]]. ops. stp. simpl. assumption.
Qed.

Lemma b_hist_default_ok : forall i s m, mem_ok m -> state_ok s -> noob (b_hist_default bm i s m) mem_ok.
Proof.
  intros i s m Hm [Hp [Hc [Hk Ha]]]. mok. unfold b_hist_default.
  apply noob_forB with (I := mem_ok); [assumption|].
  intros j m' Hj Hm'. inseq.
  stp as t0 Ht0. destruct Ht0 as [Hs [Ht [Hcf Hx]]].
  stp; [simpl; assumption|]. ops. stp.
  eapply noob_bind with (Q := mem_ok).
  { destruct (kind_of (bs_type s) =? CG_STATE_HISTORY_DEEP)%N; [|simpl; assumption].
    stp as xx Hxx. destruct xx; [simpl; assumption|]. apply b_add_anc_of_ok; assumption. }
  intros m2 H2. stp. simpl. assumption.
Qed.

Lemma b_hist_nested_ok : forall i s m, mem_ok m -> state_ok s -> noob (b_hist_nested bm i s m) mem_ok.
Proof.
  intros i s m Hm [Hp [Hc [Hk Ha]]]. mok. unfold b_hist_nested.
  apply noob_forM with (I := mem_ok); [assumption|].
  intros j m' Hj Hm'. inseq.
  stp. stp; [simpl; assumption|]. stp. stp; [simpl; assumption|].
  stp as sj Hsj. destruct Hsj as [Hpj [Hcj [Hkj Haj]]]. stp; [simpl; assumption|].
  apply noob_forM with (I := mem_ok); [assumption|].
  intros k m'' Hk2 Hm''. inseq.
  stp. stp; [simpl; assumption|]. stp. stp; [|simpl; assumption]. stp.
Qed.

Lemma b_descend_one_ok : forall i m, i < ns -> mem_ok m -> noob (b_descend_one cv bm i m) mem_ok.
Proof.
  intros i m Hi Hm. mok. unfold b_descend_one, ns in *.
  pose proof (mem_lens _ Hm) as L0.
  stp. stp; [simpl; assumption|]. stp as st0 H. pose proof H as SOK. destruct H as [Hp [Hc [Hk Ha]]].
  destruct (kind_of (bs_type st0) =? CG_STATE_PARALLEL)%N.
  { ops. stp. }
  destruct (is_histk (bs_type st0)).
  { stp as hh Hhh.
    eapply noob_bind with (Q := fun _ => True).
    { destruct (hh || negb (cg_hist_active_parent cv)); [simpl; exact I|]. apply ok_has; [assumption | side]. }
    intros pa _.
    destruct (negb hh && negb pa).
    - apply b_hist_default_ok; assumption.
    - ops. stp as m1 H1. pose proof (mem_lens _ H1) as L1. stp as m2 H2. pose proof (mem_lens _ H2) as L2. stp.
      destruct (bs_type st0 =? N.lor CG_STATE_HAS_HISTORY CG_STATE_HISTORY_DEEP)%N; [|simpl; assumption].
      apply b_hist_nested_ok; assumption. }
  destruct (kind_of (bs_type st0) =? CG_STATE_INITIAL)%N.
  { apply noob_forM with (I := mem_ok); [assumption|].
    intros j m' Hj Hm'. inseq.
    stp as t0 Ht0. destruct Ht0 as [Hs [Ht [Hcf Hx]]]. stp; [simpl; assumption|].
    stp. stp. ops. stp. apply b_add_anc_of_ok; assumption. }
  destruct (kind_of (bs_type st0) =? CG_STATE_COMPOUND)%N; [|simpl; assumption].
  stp. stp; [simpl; assumption|]. stp as bb Hbb.
  eapply noob_bind with (Q := fun _ => True).
  { destruct bb; [|simpl; exact I]. apply bit_has_and_ok; side. }
  intros cc _. destruct (negb cc); [simpl; assumption|].
  ops. stp. stp as dd Hdd. destruct dd; [simpl; assumption|]. apply b_add_anc_of_ok; assumption.
Qed.

Lemma b_entry_set_ok : forall m, mem_ok m -> noob (b_entry_set cv bm m) mem_ok.
Proof.
  intros m Hm. mok. unfold b_entry_set. pose proof (mem_lens _ Hm) as L0. ops. stp.
  eapply noob_bind with (Q := mem_ok).
  { apply noob_forM with (I := mem_ok); [assumption|].
    intros i m' Hi Hm'. inseq. unfold b_anc_one. stp. stp; [simpl; assumption|]. stp as s0 Hs0. destruct Hs0 as [Hp [Hc [Hk Ha]]]. ops. stp. }
  intros m2 H2. apply noob_forM with (I := mem_ok); [assumption|].
  intros i m' Hi Hm'. inseq. apply b_descend_one_ok; [unfold ns; lia | assumption].
Qed.

Definition st_ok (s : bst E) : Prop := mem_ok (b_mem E s).

Lemma b_exit_one_ok : forall i s, i < ns -> st_ok s -> noob (b_exit_one E cb_on_exit bm i s) st_ok.
Proof.
  intros i s Hi Hs. mok. unfold b_exit_one, st_ok, ns in *.
  stp. stp; [simpl; assumption|]. stp. stp; [simpl; assumption|]. stp. stp. simpl. assumption.
Qed.

Lemma b_take_one_ok : forall i s, i < nt -> st_ok s -> noob (b_take_one E cb_on_trans bm i s) st_ok.
Proof.
  intros i s Hi Hs. mok. unfold b_take_one, st_ok, nt in *.
  stp. stp; [simpl; assumption|]. stp. stp; simpl; assumption.
Qed.

Lemma b_pardone_one_ok : forall i st j s, j < ns -> state_ok st -> st_ok s ->
  noob (b_pardone_one E cb_done bm i st j s) st_ok.
Proof.
  intros i st j s Hj [Hp [Hc [Hk Ha]]] Hs. mok. unfold b_pardone_one, st_ok, ns in *.
  stp. stp; [simpl; assumption|]. stp. stp; [simpl; assumption|]. stp.
  eapply noob_bind with (Q := mem_ok).
  { apply noob_forM with (I := mem_ok); [assumption|].
    intros k m' Hk2 Hm'. inseq.
    stp as sk Hsk. destruct Hsk as [Hpk [Hck [Hkk Hak]]]. stp. stp; [simpl; assumption|]. stp. stp; [simpl; assumption|].
    destruct (kind_of (bs_type sk) =? CG_STATE_FINAL)%N; ops; stp. }
  intros m2 H2. pose proof (mem_lens _ H2) as L2. stp as any Hany. destruct any; simpl; assumption.
Qed.

Lemma b_enter_one_ok : forall i s, i < ns -> st_ok s ->
  noob (b_enter_one cv E cb_on_trans cb_on_entry cb_done bm i s) st_ok.
Proof.
  intros i s Hi Hs. mok. unfold b_enter_one, st_ok, ns in *.
  stp. stp; [simpl; assumption|]. stp. stp; [simpl; assumption|].
  stp as st0 H. pose proof H as SOK. destruct H as [Hp [Hc [Hk Ha]]].
  stp; [simpl; assumption|]. stp. stp as dd Hdd.
  eapply noob_bind with (Q := mem_ok).
  { destruct dd; [simpl; assumption|]. stp. }
  intros m2 H2.
  eapply noob_bind with (Q := st_ok).
  { apply noob_forM with (I := st_ok); [unfold st_ok; simpl; assumption|].
    intros j s' Hj Hs'. inseq. unfold st_ok in *.
    stp. stp; [simpl; assumption|]. stp as tj Htj0. destruct Htj0 as [Hsj [Htj [Hcj Hxj]]]. stp; [simpl; assumption|].
    stp. stp; simpl; assumption. }
  intros s1 H1. unfold st_ok in *.
  destruct (negb (kind_of (bs_type st0) =? CG_STATE_FINAL)%N); [simpl; assumption|].
  eapply noob_bind with (Q := fun _ => True).
  { destruct (cg_tlf_first_byte cv); [|simpl; exact I]. eapply noob_bind; [apply rd_ok; lia|]. intros; simpl; exact I. }
  intros top _.
  eapply noob_bind with (Q := st_ok).
  { destruct top; [unfold st_ok; simpl; assumption|]. stp. simpl. unfold st_ok. simpl. assumption. }
  intros s2 H2'. apply noob_forM with (I := st_ok); [assumption|].
  intros j s' Hj Hs'. inseq. apply b_pardone_one_ok; [unfold ns; lia | assumption | assumption].
Qed.

Notation Bmicro := (b_microstep cv E cb_on_exit cb_on_trans cb_on_entry cb_done bm).

Lemma b_microstep_ok : forall r s, st_ok s -> noob (Bmicro r s) (fun x => st_ok (fst x)).
Proof.
  intros r s Hs. unfold b_microstep, st_ok in *.
  eapply noob_bind with (Q := mem_ok).
  { destruct r; [apply b_remember_ok; assumption | simpl; assumption]. }
  intros m1 H1. eapply noob_bind; [apply b_entry_set_ok; assumption|]. intros m2 H2.
  eapply noob_bind with (Q := st_ok).
  { apply noob_forM with (I := st_ok); [unfold st_ok; simpl; assumption|].
    intros i s' Hi Hs'. inseq. apply b_exit_one_ok; [unfold ns; lia | assumption]. }
  intros s1 Hs1.
  eapply noob_bind with (Q := st_ok).
  { apply noob_forM with (I := st_ok); [assumption|].
    intros i s' Hi Hs'. inseq. apply b_take_one_ok; [unfold nt; lia | assumption]. }
  intros s2 Hs2.
  eapply noob_bind with (Q := st_ok).
  { apply noob_forM with (I := st_ok); [assumption|].
    intros i s' Hi Hs'. inseq. apply b_enter_one_ok; [unfold ns; lia | assumption]. }
  intros s3 Hs3. simpl. assumption.
Qed.

Lemma b_invocations_ok : forall m, mem_ok m -> noob (b_invocations bm m) mem_ok.
Proof.
  intros m Hm. mok. unfold b_invocations. apply noob_forM with (I := mem_ok); [assumption|].
  intros i m' Hi Hm'. inseq.
  stp as cc Hcc.
  eapply noob_bind with (Q := fun _ => True).
  { destruct cc; [simpl; exact I|]. apply ok_has; [assumption | side]. }
  intros v _.
  eapply noob_bind with (Q := mem_ok).
  { destruct v; [|simpl; assumption]. stp. stp. }
  intros m1 H1. stp as c2 Hc2.
  eapply noob_bind with (Q := fun _ => True).
  { destruct c2; [|simpl; exact I]. apply ok_has; [assumption | side]. }
  intros v2 _. destruct v2; [simpl; assumption|]. stp. stp.
Qed.

Notation Bdeq := (b_dequeue cv E cb_deq_int cb_deq_ext cb_matched cb_enabled cb_on_exit cb_on_trans cb_on_entry cb_done bm).
Notation Bstep := (b_step cv E cb_deq_int cb_deq_ext cb_matched cb_enabled cb_on_exit cb_on_trans cb_on_entry cb_done bm).

Lemma b_dequeue_ok : forall fuel s, st_ok s -> noob (Bdeq fuel s) (fun x => st_ok (fst x)).
Proof.
  induction fuel as [| f IH]; intros s Hs; [simpl; exact I|].
  assert (T : forall ev s', st_ok s' ->
              noob (do mf <- Bsel ev (b_env E s') (b_mem E s');
                    if snd mf then Bmicro true (with_flags E (with_mem E s' (fst mf)) (N.lor (b_flags E s') CG_CTX_SPONTANEOUS))
                    else Bdeq f (with_flags E (with_mem E s' (fst mf)) (N.ldiff (b_flags E s') CG_CTX_SPONTANEOUS)))
                   (fun x => st_ok (fst x))).
  { intros ev s' Hs'. eapply noob_bind; [apply b_select_ok; exact Hs'|].
    intros [m f0] Hm. cbn [fst snd] in *. destruct f0.
    - apply b_microstep_ok. unfold st_ok. simpl. assumption.
    - apply IH. unfold st_ok. simpl. assumption. }
  simpl. destruct (flag_on (b_flags E s) CG_CTX_SPONTANEOUS); [exact (T false s Hs)|].
  destruct (cb_deq_int (b_env E s)) as [e |].
  - assert (H1 : st_ok (with_env E s e)) by (unfold st_ok in *; simpl; assumption).
    exact (T true (with_env E s e) H1).
  - eapply noob_bind; [apply b_invocations_ok; exact Hs|]. intros m1 H1.
    destruct (cb_deq_ext (b_env E s)) as [e |].
    + assert (H2 : st_ok (with_env E (with_mem E s m1) e)) by (unfold st_ok; simpl; assumption).
      exact (T true (with_env E (with_mem E s m1) e) H2).
    + simpl. unfold st_ok. simpl. assumption.
Qed.

(* every array access of one call of uscxml_step() stays inside the declared lengths *)
Theorem b_step_in_bounds : forall fuel s, st_ok s -> noob (Bstep fuel s) (fun x => st_ok (fst x)).
Proof.
  intros fuel s Hs. mok. unfold b_step.
  destruct (flag_on (b_flags E s) CG_CTX_FINISHED); [simpl; assumption|].
  destruct (flag_on (b_flags E s) CG_CTX_TOP_LEVEL_FINAL).
  { eapply noob_bind with (Q := st_ok).
    { apply noob_forM with (I := st_ok); [assumption|].
      intros i s' Hi Hs'. inseq.
      assert (Hlt : i < bm_ns bm).
      { assert (N.to_nat (trunc (bm_iw bm) (N.of_nat (bm_ns bm))) <= bm_ns bm); [|lia].
        unfold trunc. pose proof (N.mod_le (N.of_nat (bm_ns bm)) (2 ^ bm_iw bm)) as ML.
        assert (2 ^ bm_iw bm <> 0)%N by (apply N.pow_nonzero; lia). specialize (ML H). lia. }
      unfold st_ok in *.
      stp as cc Hcc.
      eapply noob_bind with (Q := st_ok).
      { destruct cc; [|unfold st_ok; assumption]. stp. simpl. unfold st_ok. simpl. assumption. }
      intros s1 H1. unfold st_ok in H1. stp. stp; [|simpl; assumption]. stp. stp. simpl. assumption. }
    intros s1 H1. simpl. unfold st_ok in *. simpl. assumption. }
  destruct (negb (counters_fit bm)); [simpl; exact I|].
  unfold st_ok in Hs. stp. stp.
  destruct (b_flags E s =? CG_CTX_PRISTINE)%N.
  - stp as s0 Hs0. destruct Hs0 as [Hp [Hc [Hk Ha]]]. ops. stp. apply b_microstep_ok. unfold st_ok. simpl. assumption.
  - apply b_dequeue_ok. unfold st_ok. simpl. assumption.
Qed.

End BStepSafe.

(* ================================================================== the tables of a flattened document are well indexed *)

Definition chart_idx_ok (c : fchart) : bool :=
  (0 <? nstates c) &&
  forallb (fun s => match fs_parent s with Some p => p <? nstates c | None => true end) (fc_states c) &&
  forallb (fun t => ft_source t <? nstates c) (fc_trans c).

Section TreeInd.
Variable P : tree -> Prop.
Hypothesis HN : forall k s i tr en ex d kids, Forall P kids -> P (TNode k s i tr en ex d kids).
Fixpoint tree_ind' (t : tree) : P t :=
  match t with
  | TNode k s i tr en ex d kids =>
    HN k s i tr en ex d kids
       ((fix go (l : list tree) : Forall P l :=
           match l with [] => Forall_nil P | x :: r => Forall_cons x (tree_ind' x) (go r) end) kids)
  end.
End TreeInd.

Fixpoint doc_list (self : nat) (l : list tree) (next : nat) : list (tree * option nat) :=
  match l with
  | [] => []
  | x :: r => doc_nodes x next (Some self) ++ doc_list self r (next + tsize x)
  end.

Lemma doc_nodes_unfold : forall t self parent,
  doc_nodes t self parent = (t, parent) :: doc_list self (t_kids t) (S self).
Proof.
  intros [k s i tr en ex d kids] self parent. simpl. f_equal.
  all: generalize (S self) as next; induction kids as [| x r IH]; intro next; simpl; [reflexivity|];
    rewrite IH; reflexivity.
Qed.

Lemma tsize_unfold : forall t, tsize t = S (tsize_list (t_kids t)).
Proof.
  intros [k s i tr en ex d kids]. simpl. f_equal.
Qed.

Lemma doc_nodes_length : forall t self parent, length (doc_nodes t self parent) = tsize t.
Proof.
  induction t as [k s i tr en ex d kids IH] using tree_ind'. intros self parent.
  rewrite doc_nodes_unfold, tsize_unfold. simpl. f_equal.
  generalize (S self) as next. induction IH as [| x r Hx Hr IHr]; intro next; simpl; [reflexivity|].
  rewrite app_length, Hx, IHr. reflexivity.
Qed.

(* every recorded parent index lies inside the sub-tree's interval *)
Lemma doc_nodes_parents : forall t self parent x q,
  In (x, Some q) (doc_nodes t self parent) -> parent = Some q \/ (self <= q < self + tsize t).
Proof.
  induction t as [k s i tr en ex d kids IH] using tree_ind'. intros self parent x q.
  rewrite doc_nodes_unfold, tsize_unfold. cbn [t_kids]. intros [H | H].
  - inversion H. left. reflexivity.
  - right.
    assert (G : forall next, S self <= next -> In (x, Some q) (doc_list self kids next) ->
                self <= q < next + tsize_list kids).
    { clear H. induction IH as [| y r Hy Hr IHr]; intros next Hn Hin; simpl in *; [contradiction|].
      apply in_app_or in Hin. destruct Hin as [Hin | Hin].
      - apply Hy in Hin. destruct Hin as [Heq | Hr']; [inversion Heq; lia | lia].
      - apply IHr in Hin; lia. }
    specialize (G (S self) (le_n _) H). lia.
Qed.

Fixpoint post_list (l : list tree) (next : nat) : list nat :=
  match l with
  | [] => []
  | x :: r => postfix_states x next ++ post_list r (next + tsize x)
  end.

Lemma postfix_unfold : forall t self, postfix_states t self = post_list (t_kids t) (S self) ++ [self].
Proof.
  intros [k s i tr en ex d kids] self. simpl. f_equal.
  all: generalize (S self) as next; induction kids as [| x r IH]; intro next; simpl; [reflexivity|];
    rewrite IH; reflexivity.
Qed.

Lemma postfix_range : forall t self i, In i (postfix_states t self) -> self <= i < self + tsize t.
Proof.
  induction t as [k s i0 tr en ex d kids IH] using tree_ind'. intros self i.
  rewrite postfix_unfold, tsize_unfold. cbn [t_kids]. intro H. apply in_app_or in H. destruct H as [H | H].
  - assert (G : forall next, In i (post_list kids next) -> next <= i < next + tsize_list kids).
    { clear H. induction IH as [| y r Hy Hr IHr]; intros next Hin; simpl in *; [contradiction|].
      apply in_app_or in Hin. destruct Hin as [Hin | Hin].
      - apply Hy in Hin. lia.
      - apply IHr in Hin. lia. }
    apply G in H. lia.
  - simpl in H. destruct H as [H | []]. lia.
Qed.

Lemma flatten_nstates : forall late t, nstates (flatten late t) = tsize (resort t).
Proof.
  intros late t. unfold nstates, flatten. cbn [fc_states]. rewrite map_length, combine_length, seq_length, Nat.min_id.
  apply doc_nodes_length.
Qed.

Lemma tsize_pos : forall t, 0 < tsize t.
Proof. intro t. rewrite tsize_unfold. lia. Qed.

Lemma flatten_idx_ok : forall late t, chart_idx_ok (flatten late t) = true.
Proof.
  intros late t. unfold chart_idx_ok. rewrite !andb_true_iff. repeat split.
  - apply Nat.ltb_lt. rewrite flatten_nstates. apply tsize_pos.
  - apply forallb_forall. intros s Hs. rewrite flatten_nstates.
    unfold flatten in Hs. cbn [fc_states] in Hs. apply in_map_iff in Hs. destruct Hs as [[[x par] i] [Hs Hin]].
    subst s. cbn [fs_parent]. destruct par as [q |]; [|reflexivity].
    apply in_combine_l in Hin. apply doc_nodes_parents in Hin. apply Nat.ltb_lt.
    destruct Hin as [Hin | Hin]; [discriminate | lia].
  - apply forallb_forall. intros tr Ht. rewrite flatten_nstates.
    unfold flatten in Ht. cbn [fc_trans] in Ht. apply in_map_iff in Ht. destruct Ht as [[[src tt] kd] [Ht Hin]].
    subst tr. cbn [mk_trans ft_source fst snd]. apply Nat.ltb_lt.
    unfold all_trans in Hin. apply in_flat_map in Hin. destruct Hin as [i [Hi Hm]].
    apply in_map_iff in Hm. destruct Hm as [y [Hy _]]. inversion Hy. subst.
    apply postfix_range in Hi. lia.
Qed.

(* ================================================================== the machine written for a document *)

Lemma to_bytes_length : forall nb set, length (to_bytes nb set) = nb.
Proof. intros. unfold to_bytes. rewrite map_length, seq_length. reflexivity. Qed.

Lemma st_in : forall c i, i < nstates c -> In (st c i) (fc_states c).
Proof. intros c i H. unfold st. apply nth_In. exact H. Qed.
Lemma tr_in : forall c i, i < ntrans c -> In (tr c i) (fc_trans c).
Proof. intros c i H. unfold tr. apply nth_In. exact H. Qed.

Lemma bmachine_of_ok : forall cv c,
  chart_idx_ok c = true -> (N.of_nat (nstates c) < 2 ^ 24)%N -> (N.of_nat (ntrans c) < 2 ^ 24)%N ->
  machine_ok (bmachine_of cv c) (m_maxs c) (m_maxt c).
Proof.
  intros cv c Hok Hs Ht. unfold chart_idx_ok in Hok. rewrite !andb_true_iff in Hok. destruct Hok as [[Hpos Hpar] Hsrc].
  apply Nat.ltb_lt in Hpos. rewrite forallb_forall in Hpar, Hsrc.
  destruct (sizing_ok _ Hs) as [Sb Sn]. destruct (sizing_ok _ Ht) as [Tb Tn].
  constructor; unfold bmachine_of; cbn [bm_states bm_trans bm_ns bm_nt bm_nsb bm_ntb].
  - rewrite map_length, seq_length. reflexivity.
  - rewrite map_length, seq_length. reflexivity.
  - apply Forall_forall. intros s Hin. apply in_map_iff in Hin. destruct Hin as [i [Hi Hin]]. apply in_seq in Hin. subst s.
    unfold state_ok, bstate_of. cbn [bs_parent bs_children bs_completion bs_ancestors bm_ns]. rewrite !to_bytes_length.
    repeat split; try reflexivity.
    specialize (Hpar (st c i) (st_in c i ltac:(lia))). destruct (fs_parent (st c i)); [apply Nat.ltb_lt in Hpar; exact Hpar | exact Hpos].
  - apply Forall_forall. intros t Hin. apply in_map_iff in Hin. destruct Hin as [i [Hi Hin]]. apply in_seq in Hin. subst t.
    unfold trans_ok, btrans_of. cbn [bt_source bt_target bt_conflicts bt_exit bm_ns]. rewrite !to_bytes_length.
    repeat split; try reflexivity.
    specialize (Hsrc (tr c i) (tr_in c i ltac:(lia))). apply Nat.ltb_lt in Hsrc. exact Hsrc.
  - unfold m_ws, m_maxs. lia.
  - unfold m_wt, m_maxt. lia.
  - unfold m_maxs. lia.
  - unfold m_maxt. lia.
  - unfold m_maxs, max_bytes. lia.
  - exact Hpos.
Qed.

Definition mem_shape (c : fchart) (m : bmem) : Prop := lens m = LL (m_maxs c) (m_maxt c).

(* c_indices_in_bounds for documents with fewer than 2^24 states and transitions: whatever the callbacks do and
   whatever the local arrays contain on entry, no array access of uscxml_step() is outside the declared length *)
Theorem step_in_bounds_of_document :
  forall cv (t : tree) (E : Type) (deq_int deq_ext : E -> option E) (matched : E -> nat -> bool)
         (enabled : E -> barr -> nat -> bool) (on_exit on_trans on_entry : nat -> barr -> E -> E) (done : nat -> E -> E),
  let c := flatten false t in
  (N.of_nat (nstates c) < 2 ^ 24)%N -> (N.of_nat (ntrans c) < 2 ^ 24)%N ->
  forall fuel (s : bst E), mem_shape c (b_mem E s) ->
    noob (b_step cv E deq_int deq_ext matched enabled on_exit on_trans on_entry done (bmachine_of cv c) fuel s)
         (fun x => mem_shape c (b_mem E (fst x))).
Proof.
  intros cv t E deq_int deq_ext matched enabled on_exit on_trans on_entry done c Hs Ht fuel s Hm.
  apply (b_step_in_bounds cv E deq_int deq_ext matched enabled on_exit on_trans on_entry done (bmachine_of cv c)
                          (m_maxs c) (m_maxt c)).
  - apply bmachine_of_ok; [apply flatten_idx_ok | exact Hs | exact Ht].
  - exact Hm.
Qed.

(* the run of the harness *)
Lemma lens_app : forall a b, lens (a ++ b) = lens a ++ lens b.
Proof. intros. unfold lens. apply map_app. Qed.
Lemma lens_repeat : forall x n, lens (repeat x n) = repeat (length x) n.
Proof. intros x n. unfold lens. induction n; simpl; [reflexivity | rewrite IHn; reflexivity]. Qed.

Lemma mem_init_shape : forall c, mem_shape c (mem_init c).
Proof.
  intro c. unfold mem_shape, mem_init, LL. rewrite !lens_app, !lens_repeat, !repeat_length. reflexivity.
Qed.

Lemma lens_firstn : forall k m, lens (firstn k m) = firstn k (lens m).
Proof. intros. unfold lens. symmetry. apply firstn_map. Qed.
Lemma lens_skipn : forall k m, lens (skipn k m) = skipn k (lens m).
Proof. intros. unfold lens. symmetry. apply skipn_map. Qed.

Lemma reset_locals_shape : forall c m, mem_shape c m -> mem_shape c (firstn 4 m ++ skipn 4 (mem_init c)).
Proof.
  intros c m H. pose proof (mem_init_shape c) as I. unfold mem_shape in *.
  rewrite lens_app, lens_firstn, lens_skipn, H, I. reflexivity.
Qed.

Theorem run_never_out_of_bounds : forall cv (t : tree) (evs : list bytes) (fuel : nat),
  let c := flatten false t in
  (N.of_nat (nstates c) < 2 ^ 24)%N -> (N.of_nat (ntrans c) < 2 ^ 24)%N ->
  forall site, snd (run_bgen cv t evs fuel) <> BOob site.
Proof.
  intros cv t evs fuel c Hs Ht site. unfold run_bgen. fold c.
  assert (G : forall fuel s evs, mem_shape c (b_mem (benv) s) -> snd (brun_loop cv c (bmachine_of cv c) fuel s evs) <> BOob site).
  { clear evs fuel. induction fuel as [| f IH]; intros s evs Hm; simpl; [discriminate|].
    pose proof (step_in_bounds_of_document cv t benv (h_deq_int) (h_deq_ext) (h_matched c) (h_enabled c)
                  (h_on_exit c) (h_on_trans c) (h_on_entry c) (h_done c) Hs Ht
                  (2 + length (cx_iq (be_x (b_env benv s))) + length (cx_eq (be_x (b_env benv s)))) s Hm) as B.
    fold c in B. unfold h_step_m.
    destruct (b_step cv benv h_deq_int h_deq_ext (h_matched c) (h_enabled c) (h_on_exit c) (h_on_trans c) (h_on_entry c)
                     (h_done c) (bmachine_of cv c) _ s) as [[s1 rc] | st | |]; simpl in B; try discriminate; [|contradiction].
    destruct (rc =? CG_ERR_DONE)%N; [simpl; discriminate|].
    destruct (rc =? CG_ERR_IDLE)%N.
    - destruct evs as [| ev r]; [simpl; discriminate|]. apply IH. simpl. apply reset_locals_shape. exact B.
    - apply IH. simpl. apply reset_locals_shape. exact B. }
  apply G. simpl. apply mem_init_shape.
Qed.

(* ================================================================== where the sizing does go wrong *)

Lemma bytes_desc_S : forall k, bytes_desc (S k) = k :: bytes_desc k.
Proof. intro k. unfold bytes_desc. rewrite seq_S, rev_app_distr. reflexivity. Qed.

Lemma clear_all_oob : forall site m dst nb, length (get m dst) < nb -> bit_clear_all site m dst nb = Oob site.
Proof.
  intros site m dst nb H. destruct nb as [| k]; [lia|].
  unfold bit_clear_all. rewrite bytes_desc_S. simpl. unfold wr.
  assert (F : (k <? length (get m dst)) = false) by (apply Nat.ltb_ge; lia). rewrite F. reflexivity.
Qed.

(* a machine whose step function counts more bytes than the arrays were declared with writes behind target_set in
   the first statement after the early returns *)
Lemma step_overflows_when_undersized :
  forall cv (E : Type) (deq_int deq_ext : E -> option E) (matched : E -> nat -> bool)
         (enabled : E -> barr -> nat -> bool) (on_exit on_trans on_entry : nat -> barr -> E -> E) (done : nat -> E -> E)
         (bm : bmachine) (s : bst E) (fuel : nat),
  b_flags E s = CG_CTX_PRISTINE -> counters_fit bm = true ->
  length (get (b_mem E s) A_TARGET) < bm_nsb bm ->
  b_step cv E deq_int deq_ext matched enabled on_exit on_trans on_entry done bm fuel s = Oob 711.
Proof.
  intros cv E deq_int deq_ext matched enabled on_exit on_trans on_entry done bm s fuel Hf Hc Hl.
  unfold b_step. rewrite Hf, Hc. cbn [negb]. change (flag_on CG_CTX_PRISTINE CG_CTX_FINISHED) with false.
  change (flag_on CG_CTX_PRISTINE CG_CTX_TOP_LEVEL_FINAL) with false. cbv iota.
  rewrite clear_all_oob by exact Hl. reflexivity.
Qed.

(* the generator's own macros for a machine with 16777217 states: declared 2097152 bytes, counted 2097153 *)
Lemma generator_undersizes_at_2p24_plus_1 :
  let n := 16777217%N in
  (N.to_nat (max_bytes n) < N.to_nat (nr_bytes (width_for n) n)) /\ (n < 2 ^ width_for n)%N.
Proof.
  cbv zeta. destruct sizing_refuted_at as [A _]. split; [lia | vm_compute; reflexivity].
Qed.

(* loop counters *)
Lemma counters_fit_single_machine : forall cv c,
  (N.of_nat (nstates c) < 2 ^ 24)%N -> (N.of_nat (ntrans c) < 2 ^ 24)%N -> counters_fit (bmachine_of cv c) = true.
Proof.
  intros cv c Hs Ht. unfold counters_fit, bmachine_of. cbn [bm_ns bm_nt bm_iw].
  pose proof (width_for_holds _ Hs) as Ws. pose proof (width_for_holds _ Ht) as Wt.
  apply andb_true_iff. unfold m_ws, m_wt.
  destruct (ntrans c <? nstates c) eqn:C.
  - apply Nat.ltb_lt in C. split; apply N.ltb_lt; lia.
  - apply Nat.ltb_ge in C. split; apply N.ltb_lt; [|exact Wt].
    eapply N.le_lt_trans; [|exact Wt]. lia.
Qed.

(* A document with nested machines (<invoke> with inline <content>) gets ONE uscxml_step(): the type of i, j, k is chosen
   by comparing the numbers of states and transitions of the top-most machine, the widths from the largest machine *)
Definition nested_iw (top_ns top_nt largest_ns largest_nt : N) : N :=
  if (top_nt <? top_ns)%N then width_for largest_ns else width_for largest_nt.

Lemma nested_machine_counter_too_narrow :
  (* top machine: 3 states, 1 transition; invoked machine: 2 states, 300 transitions *)
  let iw := nested_iw 3 1 3 300 in
  iw = 8%N /\
  forall cv (E : Type) (deq_int deq_ext : E -> option E) (matched : E -> nat -> bool)
         (enabled : E -> barr -> nat -> bool) (on_exit on_trans on_entry : nat -> barr -> E -> E) (done : nat -> E -> E)
         (sts : list bstate) (trs : list btrans) (s : bst E) (fuel : nat),
    b_flags E s = CG_CTX_PRISTINE ->
    b_step cv E deq_int deq_ext matched enabled on_exit on_trans on_entry done
           {| bm_states := sts; bm_trans := trs; bm_ns := 2; bm_nt := 300; bm_nsb := 1; bm_ntb := 38; bm_iw := iw |} fuel s = Diverge.
Proof.
  split; [vm_compute; reflexivity|].
  intros. unfold b_step. rewrite H. reflexivity.
Qed.

(* ================================================================== set level: the emitted step and FastMicroStep::step *)

Lemma list_eqb_eq : forall a b, list_eqb a b = true -> a = b.
Proof.
  induction a as [| x a IH]; intros [| y b] H; simpl in H; try discriminate; [reflexivity|].
  apply andb_true_iff in H. destruct H as [H1 H2]. apply Nat.eqb_eq in H1. apply IH in H2. subst. reflexivity.
Qed.

Lemma pair_eqb_eq : forall p q, pair_eqb p q = true -> p = q.
Proof.
  intros [a b] [a' b'] H. unfold pair_eqb in H. simpl in H. apply andb_true_iff in H. destruct H as [H1 H2].
  apply list_eqb_eq in H1. apply list_eqb_eq in H2. subst. reflexivity.
Qed.

Lemma fold_left_ext : forall A B (f g : A -> B -> A) l a, (forall a b, f a b = g a b) -> fold_left f l a = fold_left g l a.
Proof. intros A B f g l. induction l as [| b r IH]; intros a H; simpl; [reflexivity|]. rewrite H. apply IH. exact H. Qed.

Section SetLevel.
Variable cv : cg_variant.
Variable c : fchart.

(* ---- selection: the same function when conditions are In() atoms ---- *)
Definition cond_in_only (t : ftrans) : bool :=
  match ft_cond t with Some (BIn _) => true | None => true | _ => false end.
Definition conds_in_only : bool := forallb cond_in_only (fc_trans c).

Lemma tr_cond_in_only : conds_in_only = true -> forall ti, cond_in_only (tr c ti) = true.
Proof.
  intros H ti. unfold tr. destruct (nth_in_or_default ti (fc_trans c) dummy_trans) as [I | D].
  - unfold conds_in_only in H. rewrite forallb_forall in H. apply H. exact I.
  - rewrite D. reflexivity.
Qed.

Theorem cselect_equiv : conds_in_only = true ->
  forall ts cfg (ev : option event) sel x,
    fselect c cfg ev ts sel x = (cselect c cfg (option_map ev_name ev) ts sel, x).
Proof.
  intros HC. induction ts as [| ti r IH]; intros cfg ev sel x; [reflexivity|].
  cbn [fselect cselect]. pose proof (tr_cond_in_only HC ti) as CI.
  destruct (ft_history (tr c ti) || ft_initial (tr c ti)); [apply IH|].
  destruct (negb (mem (ft_source (tr c ti)) cfg)); [apply IH|].
  destruct (existsb (fun si => fconflicts c (tr c si) (tr c ti)) sel); [apply IH|].
  destruct ev as [e |]; cbn [option_map].
  - destruct (ft_spontaneous (tr c ti)); [apply IH|].
    destruct (negb (name_match_impl nm_fixed (ft_event (tr c ti)) (ev_name e))); [apply IH|].
    unfold cond_in_only in CI. destruct (ft_cond (tr c ti)) as [cnd |]; [|apply IH].
    destruct cnd; try discriminate. unfold is_true. cbn [beval c_is_true].
    destruct (inst_of c cfg sid); apply IH.
  - destruct (negb (ft_spontaneous (tr c ti))); [apply IH|]. cbv iota.
    unfold cond_in_only in CI. destruct (ft_cond (tr c ti)) as [cnd |]; [|apply IH].
    destruct cnd; try discriminate. unfold is_true. cbn [beval c_is_true].
    destruct (inst_of c cfg sid); apply IH.
Qed.

(* ---- history: the same function when the generator's completions are the engines' ---- *)
Definition hist_tables_plain : Prop := forall i, ccompl cv c i = fs_completion (st c i).

Theorem cremember_equiv : hist_tables_plain ->
  forall cfg exitset hist, cremember cv c cfg exitset hist = fremember c cfg exitset hist.
Proof.
  intros HP cfg exitset hist. unfold cremember, fremember, cn, fn. apply fold_left_ext.
  intros h i. rewrite HP. reflexivity.
Qed.

(* ---- entry set: equal whenever the checked condition holds ---- *)
Lemma entry_fold_agree : forall cfg exitset hist l acc ok,
  snd (fold_left (fun (a : (list nat * list nat) * bool) i =>
                    let r := cdescend_one cv c cfg exitset hist (fst a) i in
                    (r, snd a && pair_eqb r (fdescend_one c cfg exitset hist (fst a) i))) l (acc, ok)) = true ->
  ok = true /\ fold_left (cdescend_one cv c cfg exitset hist) l acc = fold_left (fdescend_one c cfg exitset hist) l acc.
Proof.
  intros cfg exitset hist. induction l as [| i r IH]; intros acc ok H; simpl in *; [split; [exact H | reflexivity]|].
  apply IH in H. destruct H as [H1 H2]. apply andb_true_iff in H1. destruct H1 as [Hok He].
  apply pair_eqb_eq in He. split; [exact Hok|]. rewrite H2. rewrite <- He. reflexivity.
Qed.

Theorem centry_set_equiv : forall cfg exitset hist targets ts,
  entry_agree cv c cfg exitset hist targets ts = true ->
  centry_set cv c cfg exitset hist targets ts = fentry_set c cfg exitset hist targets ts.
Proof.
  intros cfg exitset hist targets ts H. unfold entry_agree in H. apply entry_fold_agree in H.
  destruct H as [_ H]. unfold centry_set, fentry_set, cn, fn. exact H.
Qed.

(* ---- configuration, history and the top-level-final flag after a microstep ---- *)
Definition enter_pure (top : fstate -> bool) (a : list nat * bool) (i : nat) : list nat * bool :=
  let s := st c i in
  if mem i (fst a) then a
  else if is_pseudo (fs_type s) then a
  else (insert_sorted i (fst a), match fs_type s with FFinal => snd a || top s | _ => snd a end).

Definition ftop (s : fstate) : bool := match fs_ancestors s with [0] => true | _ => false end.

Lemma fexit_cfg : forall xv l cfg x,
  fst (fold_left (exit_one xv c) l (cfg, x)) = fold_left (fun g i => set_remove i g) l cfg.
Proof. intros xv l. induction l as [| i r IH]; intros cfg x; simpl; [reflexivity|]. apply IH. Qed.

Lemma cexit_cfg : forall l cfg x,
  fst (fold_left (cexit_one c) l (cfg, x)) = fold_left (fun g i => set_remove i g) l cfg.
Proof. intros l. induction l as [| i r IH]; intros cfg x; simpl; [reflexivity|]. apply IH. Qed.

Lemma fenter_pure : forall xv ts es a,
  let r := fold_left (fenter_one xv c ts) es a in
  (ea_cfg r, ea_tlf r) = fold_left (enter_pure ftop) es (ea_cfg a, ea_tlf a).
Proof.
  intros xv ts es. induction es as [| i r IH]; intros a; simpl; [reflexivity|].
  rewrite IH. f_equal. unfold fenter_one, enter_pure. cbn [fst snd].
  destruct (mem i (ea_cfg a)); [reflexivity|].
  destruct (is_pseudo (fs_type (st c i))); [reflexivity|].
  destruct (mem i (ea_initd a)); destruct (fs_type (st c i)); reflexivity.
Qed.

Lemma center_pure : cg_tlf_first_byte cv = false -> forall ts es a,
  let r := fold_left (center_one cv c ts) es a in
  (ca_cfg r, ca_tlf r) = fold_left (enter_pure ftop) es (ca_cfg a, ca_tlf a).
Proof.
  intros HT ts es. induction es as [| i r IH]; intros a; simpl; [reflexivity|].
  rewrite IH. f_equal. unfold center_one, enter_pure, top_level_final, ftop. rewrite HT. cbn [fst snd].
  destruct (mem i (ca_cfg a)); [reflexivity|].
  destruct (is_pseudo (fs_type (st c i))); [reflexivity|].
  destruct (fs_type (st c i)); reflexivity.
Qed.

Theorem cmicrostep_config_equiv :
  cg_tlf_first_byte cv = false ->
  forall xv (l : lstate) (x : cx) (y : xstate) targets exitset sel (initial : bool),
    (initial = true \/ remember_agree cv c (l_cfg l) exitset (l_hist l) = true) ->
    entry_agree cv c (l_cfg l) exitset (if initial then l_hist l else cremember cv c (l_cfg l) exitset (l_hist l)) targets sel = true ->
    let l1 := fst (cmicrostep cv c l x targets exitset sel initial) in
    let l2 := fst (fmicrostep xv c l y targets exitset sel initial) in
    l_cfg l1 = l_cfg l2 /\ l_hist l1 = l_hist l2 /\ l_tlf l1 = l_tlf l2.
Proof.
  intros HT xv l x y targets exitset sel initial HR HE.
  assert (HH : (if initial then l_hist l else cremember cv c (l_cfg l) exitset (l_hist l)) =
               (if initial then l_hist l else fremember c (l_cfg l) exitset (l_hist l))).
  { destruct initial; [reflexivity|]. destruct HR as [HR | HR]; [discriminate|]. apply list_eqb_eq. exact HR. }
  unfold cmicrostep, fmicrostep.
  rewrite (centry_set_equiv _ _ _ _ _ HE). rewrite HH.
  destruct (fentry_set c (l_cfg l) exitset (if initial then l_hist l else fremember c (l_cfg l) exitset (l_hist l)) targets sel) as [es ts].
  pose proof (cexit_cfg (rev exitset) (l_cfg l) x) as CE. pose proof (fexit_cfg xv (rev exitset) (l_cfg l) y) as FE.
  destruct (fold_left (cexit_one c) (rev exitset) (l_cfg l, x)) as [cfg1 x1].
  destruct (fold_left (exit_one xv c) (rev exitset) (l_cfg l, y)) as [cfg1' y1].
  cbn [fst] in CE, FE. subst cfg1'. subst cfg1.
  set (cfg1 := fold_left (fun g i => set_remove i g) (rev exitset) (l_cfg l)).
  cbn [fst l_cfg l_hist l_tlf].
  pose proof (center_pure HT ts es {| ca_cfg := cfg1; ca_tlf := l_tlf l; ca_x := fold_left (ctake_one c cfg1) ts x1 |}) as CP.
  pose proof (fenter_pure xv ts es {| ea_cfg := cfg1; ea_initd := l_initd l; ea_tlf := l_tlf l; ea_x := fold_left (take_one xv c cfg1) ts y1 |}) as FP.
  cbn [ca_cfg ca_tlf ea_cfg ea_tlf] in CP, FP. cbv zeta in CP, FP.
  rewrite <- FP in CP. inversion CP. repeat split; assumption.
Qed.

End SetLevel.

(* ================================================================== fuel of the DEQUEUE_EVENT / SELECT_TRANSITIONS loop *)

Definition nfuel {A} (r : res A) : Prop := r <> OutOfFuel.

Lemma nf_ok : forall A (a : A), nfuel (Ok a). Proof. intros; unfold nfuel; discriminate. Qed.
Lemma nf_bind : forall A B (r : res A) (k : A -> res B), nfuel r -> (forall a, nfuel (k a)) -> nfuel (bind r k).
Proof. intros A B r k H K. unfold nfuel in *. destruct r; simpl; auto; try discriminate. Qed.
Lemma nf_forM : forall S l (body : nat -> S -> res S) s, (forall i s, nfuel (body i s)) -> nfuel (forM l body s).
Proof. intros S l body. induction l; intros s H; simpl; [apply nf_ok|]. apply nf_bind; [apply H|]. intro. apply IHl. exact H. Qed.
Lemma nf_forB : forall S l (body : nat -> S -> res (bool * S)) s, (forall i s, nfuel (body i s)) -> nfuel (forB l body s).
Proof.
  intros S l body. induction l; intros s H; simpl; [apply nf_ok|]. apply nf_bind; [apply H|].
  intros [b s']. simpl. destruct b; [apply nf_ok|]. apply IHl. exact H.
Qed.
Lemma nf_rd : forall site a i, nfuel (rd site a i).
Proof. intros. unfold nfuel, rd. destruct (nth_error a i); discriminate. Qed.
Lemma nf_wr : forall site m a i v, nfuel (wr site m a i v).
Proof. intros. unfold nfuel, wr. destruct (i <? length (get m a)); discriminate. Qed.
Lemma nf_st_at : forall site bm i, nfuel (st_at site bm i).
Proof. intros. unfold nfuel, st_at. destruct (nth_error _ i); discriminate. Qed.
Lemma nf_tr_at : forall site bm i, nfuel (tr_at site bm i).
Proof. intros. unfold nfuel, tr_at. destruct (nth_error _ i); discriminate. Qed.
Lemma nf_has_and : forall site a b ks, nfuel (has_and_loop site a b ks).
Proof.
  intros site a b ks. induction ks; simpl; [apply nf_ok|].
  apply nf_bind; [apply nf_rd|]. intro. apply nf_bind; [apply nf_rd|]. intro. destruct (_ =? _)%N; [assumption | apply nf_ok].
Qed.
Lemma nf_has_any : forall site a ks, nfuel (has_any_loop site a ks).
Proof.
  intros site a ks. induction ks; simpl; [apply nf_ok|].
  apply nf_bind; [apply nf_rd|]. intro. destruct (_ =? _)%N; [assumption | apply nf_ok].
Qed.

Ltac nf1 :=
  first [ apply nf_ok | apply nf_rd | apply nf_wr | apply nf_st_at | apply nf_tr_at | apply nf_has_and | apply nf_has_any
        | apply nf_bind; [| intro] | apply nf_forM; intros | apply nf_forB; intros
        | match goal with
          | |- nfuel (if ?c then _ else _) => destruct c
          | |- nfuel (match ?x with Some _ => _ | None => _ end) => destruct x
          end ].
Ltac nf := repeat nf1.

Section Fuel.
Variable cv : cg_variant.
Variable E : Type.
Variables cb_deq_int cb_deq_ext : E -> option E.
Variable cb_matched : E -> nat -> bool.
Variable cb_enabled : E -> barr -> nat -> bool.
Variables cb_on_exit cb_on_trans cb_on_entry : nat -> barr -> E -> E.
Variable cb_done : nat -> E -> E.
Variable bm : bmachine.
(* the queues get shorter with every dequeued event *)
Variable mu : E -> nat.
Hypothesis deq_int_mu : forall e e', cb_deq_int e = Some e' -> mu e' < mu e.
Hypothesis deq_ext_mu : forall e e', cb_deq_ext e = Some e' -> mu e' < mu e.

Lemma nf_bitops : forall site f m dst src nb, nfuel (map2_bytes site f m dst src nb).
Proof. intros. unfold map2_bytes. nf. Qed.
Lemma nf_clear_all : forall site m dst nb, nfuel (bit_clear_all site m dst nb).
Proof. intros. unfold bit_clear_all. nf. Qed.
Lemma nf_bit_has : forall site a i, nfuel (bit_has site a i).
Proof. intros. unfold bit_has. nf. Qed.
Lemma nf_set_at : forall site m a i, nfuel (bit_set_at site m a i).
Proof. intros. unfold bit_set_at. nf. Qed.
Lemma nf_bclear : forall site m a i, nfuel (bit_clear site m a i).
Proof. intros. unfold bit_clear. nf. Qed.
Lemma nf_bhas_and : forall site a b nb, nfuel (bit_has_and site a b nb).
Proof. intros. unfold bit_has_and. nf. Qed.
Lemma nf_bhas_any : forall site a nb, nfuel (bit_has_any site a nb).
Proof. intros. unfold bit_has_any. nf. Qed.

Ltac nf2 :=
  first [ apply nf_bitops | apply nf_clear_all | apply nf_bit_has | apply nf_set_at | apply nf_bclear | apply nf_bhas_and
        | apply nf_bhas_any | nf1 ].
Ltac nfs := unfold bit_or, bit_and, bit_and_not, bit_copy; repeat nf2.

Lemma nf_select : forall ev e m, nfuel (b_select E cb_matched cb_enabled bm ev e m).
Proof. intros. unfold b_select, b_select_one. nfs. Qed.

Lemma nf_add_anc : forall brk set i m, nfuel (b_add_anc_of bm brk set i m).
Proof. intros. unfold b_add_anc_of. nfs. Qed.

Lemma nf_entry_set : forall m, nfuel (b_entry_set cv bm m).
Proof.
  intros. unfold b_entry_set, b_anc_one, b_descend_one, b_hist_default, b_hist_nested. nfs.
  all: try apply nf_add_anc. all: nfs. all: try apply nf_add_anc.
Qed.

Lemma nf_microstep : forall r s, nfuel (b_microstep cv E cb_on_exit cb_on_trans cb_on_entry cb_done bm r s).
Proof.
  intros. unfold b_microstep. apply nf_bind.
  { destruct r; [|apply nf_ok]. unfold b_remember, b_remember_one. nfs. }
  intro. apply nf_bind; [apply nf_entry_set|]. intro.
  unfold b_exit_one, b_take_one, b_enter_one, b_pardone_one. nfs.
Qed.

Lemma nf_invocations : forall m, nfuel (b_invocations bm m).
Proof. intros. unfold b_invocations. nfs. Qed.

Lemma spont_cleared : forall f, flag_on (N.ldiff f CG_CTX_SPONTANEOUS) CG_CTX_SPONTANEOUS = false.
Proof.
  intro f. unfold flag_on. replace (N.land (N.ldiff f CG_CTX_SPONTANEOUS) CG_CTX_SPONTANEOUS) with 0%N; [reflexivity|].
  symmetry. apply N.bits_inj. intro k. rewrite N.land_spec, N.ldiff_spec, N.bits_0.
  destruct (N.testbit CG_CTX_SPONTANEOUS k); [rewrite andb_false_r|rewrite andb_false_r]; reflexivity.
Qed.

Definition dq_measure (s : bst E) : nat :=
  (if flag_on (b_flags E s) CG_CTX_SPONTANEOUS then 1 else 0) + mu (b_env E s).

Theorem b_dequeue_fuel_enough : forall fuel s, dq_measure s < fuel ->
  nfuel (b_dequeue cv E cb_deq_int cb_deq_ext cb_matched cb_enabled cb_on_exit cb_on_trans cb_on_entry cb_done bm fuel s).
Proof.
  induction fuel as [| f IH]; intros s H; [lia|].
  assert (T : forall ev s', mu (b_env E s') < f ->
              nfuel (do mf <- b_select E cb_matched cb_enabled bm ev (b_env E s') (b_mem E s');
                     if snd mf
                     then b_microstep cv E cb_on_exit cb_on_trans cb_on_entry cb_done bm true
                            (with_flags E (with_mem E s' (fst mf)) (N.lor (b_flags E s') CG_CTX_SPONTANEOUS))
                     else b_dequeue cv E cb_deq_int cb_deq_ext cb_matched cb_enabled cb_on_exit cb_on_trans cb_on_entry cb_done bm f
                            (with_flags E (with_mem E s' (fst mf)) (N.ldiff (b_flags E s') CG_CTX_SPONTANEOUS)))).
  { intros ev s' Hm. apply nf_bind; [apply nf_select|]. intros [m fnd]. cbn [fst snd]. destruct fnd; [apply nf_microstep|].
    apply IH. unfold dq_measure. cbn [with_flags with_mem b_flags b_env]. rewrite spont_cleared. simpl. exact Hm. }
  unfold dq_measure in H. simpl.
  destruct (flag_on (b_flags E s) CG_CTX_SPONTANEOUS).
  - refine (T false s _). lia.
  - destruct (cb_deq_int (b_env E s)) as [e |] eqn:DI.
    + apply deq_int_mu in DI. refine (T true (with_env E s e) _). simpl. lia.
    + apply nf_bind; [apply nf_invocations|]. intro m1.
      destruct (cb_deq_ext (b_env E s)) as [e |] eqn:DE.
      * apply deq_ext_mu in DE. refine (T true (with_env E (with_mem E s m1) e) _). simpl. lia.
      * apply nf_ok.
Qed.

End Fuel.

(* the harness: measure = length of both queues; the fuel brun_loop passes is enough *)
Lemma h_deq_int_mu : forall e e', h_deq_int e = Some e' ->
  length (cx_iq (be_x e')) + length (cx_eq (be_x e')) < length (cx_iq (be_x e)) + length (cx_eq (be_x e)).
Proof.
  intros e e' H. unfold h_deq_int in H. destruct (cx_iq (be_x e)) eqn:Q; [discriminate|]. inversion H. simpl. lia.
Qed.
Lemma h_deq_ext_mu : forall e e', h_deq_ext e = Some e' ->
  length (cx_iq (be_x e')) + length (cx_eq (be_x e')) < length (cx_iq (be_x e)) + length (cx_eq (be_x e)).
Proof.
  intros e e' H. unfold h_deq_ext in H. destruct (cx_eq (be_x e)) eqn:Q; [discriminate|]. inversion H. simpl. lia.
Qed.

Theorem h_step_fuel_enough : forall cv c (s : bst benv),
  h_step cv c (2 + length (cx_iq (be_x (b_env benv s))) + length (cx_eq (be_x (b_env benv s)))) s <> OutOfFuel.
Proof.
  intros cv c s. unfold h_step, h_step_m, b_step.
  destruct (flag_on (b_flags benv s) CG_CTX_FINISHED); [discriminate|].
  destruct (flag_on (b_flags benv s) CG_CTX_TOP_LEVEL_FINAL).
  { change (nfuel (do s1 <- forM (rev (seq 0 (N.to_nat (trunc (bm_iw (bmachine_of cv c)) (N.of_nat (bm_ns (bmachine_of cv c)))))))
                                 (fun i s0 => do c0 <- bit_has 701 (get (b_mem benv s0) A_CONFIG) i;
                                              do s1 <- (if c0 then do st <- st_at 702 (bmachine_of cv c) i; Ok (with_env benv s0 (h_on_exit c i (get (b_mem benv s0) A_CONFIG) (b_env benv s0))) else Ok s0);
                                              do v <- bit_has 703 (get (b_mem benv s1) A_INVOC) i;
                                              if v then do st <- st_at 704 (bmachine_of cv c) i; do m1 <- bit_clear 705 (b_mem benv s1) A_INVOC i; Ok (with_mem benv s1 m1) else Ok s1) s;
                      Ok (with_flags benv s1 (N.lor (b_flags benv s1) CG_CTX_FINISHED), CG_ERR_DONE))).
    repeat first [ apply nf_bit_has | apply nf_bclear | nf1 ]. }
  destruct (negb (counters_fit (bmachine_of cv c))); [discriminate|].
  apply nf_bind; [apply nf_clear_all|]. intro m1. apply nf_bind; [apply nf_clear_all|]. intro m2.
  destruct (b_flags benv s =? CG_CTX_PRISTINE)%N.
  - apply nf_bind; [apply nf_st_at|]. intro. apply nf_bind; [apply nf_bitops|]. intro. apply nf_microstep.
  - apply (b_dequeue_fuel_enough cv benv h_deq_int h_deq_ext (h_matched c) (h_enabled c) (h_on_exit c) (h_on_trans c)
                                 (h_on_entry c) (h_done c) (bmachine_of cv c)
                                 (fun e => length (cx_iq (be_x e)) + length (cx_eq (be_x e))) h_deq_int_mu h_deq_ext_mu).
    unfold dq_measure. cbn [with_mem b_flags b_env]. destruct (flag_on _ _); lia.
Qed.

(* ================================================================== witnesses: where the emitted step and the fast engine part *)

Fixpoint ms_cfgs (l : list tok) : list (list N) :=
  match l with
  | TMsE :: TRet _ :: TCfg g :: r => g :: ms_cfgs r
  | _ :: r => ms_cfgs r
  | [] => []
  end.

Fixpoint c_cfgs (l : list ctok) : list (list N) :=
  match l with
  | CRet 0%N :: CCfg g :: r => g :: c_cfgs r
  | _ :: r => c_cfgs r
  | [] => []
  end.

Definition c_finished (l : list ctok) : bool := existsb (fun t => match t with CRet 2%N => true | _ => false end) l.

Definition leaf (k : skind) (sid : N) (tr : list ttrans) : tree := TNode k sid None tr [] [] [] [].
Definition inner (k : skind) (sid : N) (tr : list ttrans) (kids : list tree) : tree := TNode k sid None tr [] [] [] kids.
Definition tgo (vid : N) (ev : option bytes) (tg : N) : ttrans :=
  {| tt_vid := vid; tt_event := ev; tt_cond := None; tt_targets := Some [tg]; tt_internal := false; tt_body := [] |}.

(* <state s1><history s9 -> s3/><state s2 e -> s9/><state s3/></state>, event e *)
Definition w_hist_active : tree :=
  inner KScxml 0 [] [inner KState 1 [] [leaf KHistShallow 9 [tgo 103 None 3]; leaf KState 2 [tgo 101 (Some [101%N]) 9]; leaf KState 3 []]].

(* seven states in front of <state s8><final s9/></state>, event g *)
Definition w_tlf_byte : tree :=
  inner KScxml 0 [] [leaf KState 1 [tgo 101 (Some [103%N]) 8]; leaf KState 2 []; leaf KState 3 []; leaf KState 4 []; leaf KState 5 [];
                     leaf KState 6 []; leaf KState 7 []; inner KState 8 [] [leaf KFinal 9 []]].

(* <state s1 out -> s9><history s10 deep -> s2/><state s2><history s11 -> s3/><state s3 a -> s4/><state s4/></state></state>
   <state s9 deep -> s10, sh -> s11/> *)
Definition w_nested_hist : tree :=
  inner KScxml 0 []
    [inner KState 1 [tgo 104 (Some [111; 117; 116]%N) 9]
       [leaf KHistDeep 10 [tgo 101 None 2];
        inner KState 2 [] [leaf KHistShallow 11 [tgo 102 None 3]; leaf KState 3 [tgo 103 (Some [97%N]) 4]; leaf KState 4 []]];
     leaf KState 9 [tgo 105 (Some [100; 101; 101; 112]%N) 10; tgo 106 (Some [115; 104]%N) 11]].

Definition ev_a : bytes := [97%N].
Definition ev_out : bytes := [111; 117; 116]%N.
Definition ev_sh : bytes := [115; 104]%N.
Definition ev_deep : bytes := [100; 101; 101; 112]%N.

Definition fast_cfgs (t : tree) (evs : list bytes) : list (list N) := ms_cfgs (fst (run_fast ex_fixed false t evs 40)).
Definition cgen_cfgs (cv : cg_variant) (t : tree) (evs : list bytes) : list (list N) := c_cfgs (run_cgen cv t evs 40).

Lemma witness_hist_active_parent :
  cgen_cfgs cg_emitted w_hist_active [[101%N]] <> fast_cfgs w_hist_active [[101%N]] /\
  cgen_cfgs cg_emitted w_hist_active [[101%N]] = [[0; 1; 2]; [0; 1]]%N /\
  cgen_cfgs cg_repaired w_hist_active [[101%N]] = fast_cfgs w_hist_active [[101%N]].
Proof. vm_compute. repeat split; try reflexivity. discriminate. Qed.

Lemma witness_tlf_first_byte :
  cgen_cfgs cg_emitted w_tlf_byte [[103%N]] = fast_cfgs w_tlf_byte [[103%N]] /\
  c_finished (run_cgen cg_emitted w_tlf_byte [[103%N]] 40) = true /\
  c_finished (run_cgen cg_repaired w_tlf_byte [[103%N]] 40) = false /\
  existsb (fun t => match t with TRet 0%N => true | _ => false end) (fst (run_fast ex_fixed false w_tlf_byte [[103%N]] 40)) = false.
Proof. vm_compute. repeat split. Qed.

Lemma witness_nested_history :
  cgen_cfgs cg_emitted w_nested_hist [ev_a; ev_out; ev_sh] <> fast_cfgs w_nested_hist [ev_a; ev_out; ev_sh] /\
  cgen_cfgs cg_emitted w_nested_hist [ev_a; ev_out; ev_deep] <> fast_cfgs w_nested_hist [ev_a; ev_out; ev_deep] /\
  last (cgen_cfgs cg_emitted w_nested_hist [ev_a; ev_out; ev_deep]) [] = [0; 1; 2; 3; 4]%N /\
  cgen_cfgs cg_repaired w_nested_hist [ev_a; ev_out; ev_sh] = fast_cfgs w_nested_hist [ev_a; ev_out; ev_sh] /\
  cgen_cfgs cg_repaired w_nested_hist [ev_a; ev_out; ev_deep] = fast_cfgs w_nested_hist [ev_a; ev_out; ev_deep].
Proof. vm_compute. repeat split; try reflexivity; discriminate. Qed.

(* the hypotheses of the equivalence theorems are satisfiable, on charts with history *)
Example hyps_satisfiable :
  conds_in_only (flatten false w_nested_hist) = true /\
  run_agree cg_repaired w_hist_active [[101%N]] 40 = true /\
  run_agree cg_repaired w_tlf_byte [[103%N]] 40 = true /\
  (forall i, ccompl cg_repaired (flatten false w_hist_active) i = fs_completion (st (flatten false w_hist_active) i)).
Proof.
  repeat split; try (vm_compute; reflexivity).
  intro i. do 6 (destruct i as [| i]; [vm_compute; reflexivity|]). vm_compute. reflexivity.
Qed.

(* ... and the condition is not vacuous the other way: with the generator's history tables the nested-history chart fails it *)
Example agree_fails_on_nested_history : run_agree cg_emitted w_nested_hist [ev_a; ev_out; ev_deep] 40 = false.
Proof. vm_compute. reflexivity. Qed.

Example machine_of_witness_ok :
  machine_ok (bmachine_of cg_emitted (flatten false w_nested_hist)) (m_maxs (flatten false w_nested_hist)) (m_maxt (flatten false w_nested_hist)).
Proof. apply bmachine_of_ok; [apply flatten_idx_ok | vm_compute; reflexivity | vm_compute; reflexivity]. Qed.

(* the other repair of the history tables (inner histories claim their states first) agrees with the fast engine on the
   witness as well *)
Example witness_nested_history_inner_first :
  let cvi := {| cg_hist_active_parent := false; cg_tlf_first_byte := false; cg_cover := CoverInnerFirst |} in
  cgen_cfgs cvi w_nested_hist [ev_a; ev_out; ev_sh] = fast_cfgs w_nested_hist [ev_a; ev_out; ev_sh] /\
  cgen_cfgs cvi w_nested_hist [ev_a; ev_out; ev_deep] = fast_cfgs w_nested_hist [ev_a; ev_out; ev_deep].
Proof. vm_compute. split; reflexivity. Qed.
