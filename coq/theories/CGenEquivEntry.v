(* CGenEquivEntry.v -- C04: REMEMBER_HISTORY and ESTABLISH_ENTRY_SET of the emitted uscxml_step() (CGen.cremember,
   CGen.centry_set: `children` = direct children, deep completion only when no completion state is a direct child,
   the generator's own history completions) compute what FastMicroStep computes (Fast.fremember, Fast.fentry_set:
   `children` = all descendants), statically: for every chart of the history-free core (wf_coreb c = true), every
   variant of the template, every ancestor-closed configuration and the exit / target sets of a microstep.  This
   replaces the run-time checked side conditions entry_agree / remember_agree of CGenLemmas.v on the core.
   The argument is the one of PmlEquivEntry.v (the Promela template has the same variant points); its lemmas on the
   three tests of the compound case are reused.  Proofs only. *)
From V Require Import Base NameMatch Chart Exec Large Legal SetLemmas LegalAbstract LegalLarge WfCore Fast CGen CGenLemmas
                      SerializeCodecLemmas PmlEquivBase PmlEquivCore PmlEquivEntry.
From Coq Require Import Sorted.
Local Open Scope nat_scope.

Section Entry.
Variable cv : cg_variant.
Variable c : fchart.
Hypothesis H : wf_coreb c = true.
Let W : WF c := wf_coreb_sound c H.
Notation n := (nstates c).
Notation Anc := (LegalAbstract.Anc (fun i => fs_parent (st c i))).

(* no history state: the completion table of the generator is the engines' *)
Lemma ccompl_core i : ccompl cv c i = fs_completion (st c i).
Proof.
  unfold ccompl. destruct (wf_types c W i) as [E|[E|[E|E]]]; rewrite E; reflexivity.
Qed.

Lemma hist_tables_plain_core : hist_tables_plain cv c.
Proof. intros i. apply ccompl_core. Qed.

Theorem cremember_core cfg exitset hist : cremember cv c cfg exitset hist = fremember c cfg exitset hist.
Proof. apply cremember_equiv. exact hist_tables_plain_core. Qed.

(* ... and nothing is recorded *)
Lemma fremember_core cfg exitset hist : fremember c cfg exitset hist = hist.
Proof.
  unfold fremember. generalize (seq 0 (fn c)). induction l as [|i r IH]; cbn [fold_left]; [reflexivity|].
  destruct (wf_types c W i) as [E|[E|[E|E]]]; rewrite E; cbn [is_hist andb]; exact IH.
Qed.

Variable cfg exitset hist targets : list nat.
Hypothesis Htg_sorted : ssorted targets.
Hypothesis Htg_bound : forall g, In g targets -> g < n.
Hypothesis Hcfg_bound : forall x, In x cfg -> x < n.
Hypothesis Hcfg_closed : forall x a, In x cfg -> Anc a x -> In a cfg.
Hypothesis Hexit : forall x, In x exitset ->
  In x cfg /\ exists d, In d (add_ancestors c targets) /\ Anc d x /\ forall y, In y cfg -> Anc d y -> In y exitset.

Notation INV := (es_inv c targets).

(* one visit of the loop "iterate for descendants" *)
Lemma cdescend_core es ts i : INV es ->
  cdescend_one cv c cfg exitset hist (es, ts) i = fdescend_one c cfg exitset hist (es, ts) i /\
  INV (fst (fdescend_one c cfg exitset hist (es, ts) i)).
Proof.
  intros I. unfold cdescend_one, fdescend_one.
  destruct (mem i es) eqn:M; cbn [negb]; [|split; [reflexivity|exact I]].
  apply mem_true_In in M.
  destruct (wf_types c W i) as [E|[E|[E|E]]]; rewrite E.
  - split; [reflexivity|exact I].
  - (* compound *)
    rewrite (compound_tests c H cfg exitset targets Hcfg_bound Hcfg_closed Hexit es i I E).
    destruct (negb (intersects es (desc c i)) && _); [|split; [reflexivity|exact I]].
    destruct (completion_ancestors_known c H targets es i I M E) as (k & Ek & Hk & L1 & L2 & Hanc).
    rewrite ccompl_core. destruct I as [Es Eb Ec E0]. rewrite Ek.
    assert (Hf : fold_left (fun a j => if i <? j then set_union a (fs_ancestors (st c j)) else a) [k] (set_union es [k])
                 = set_union es [k]).
    { apply same_members_union; [exact Es| |].
      - apply (fold_cond_union_ssorted (fun j => i <? j)). now apply set_union_ssorted.
      - intros x. rewrite (In_fold_cond_union (fun j => i <? j)). split; [|now left].
        intros [Hx|(j & [<-|[]] & _ & Hx)]; [exact Hx|]. apply In_set_union. left. now apply Hanc. }
    rewrite Hf. cbn [fst snd].
    assert (Hkid : intersects [k] (fs_children (st c i)) = true).
    { apply intersects_spec. exists k. split; [now left|]. now apply (In_children c H). }
    rewrite Hkid. cbn [negb]. split; [reflexivity|].
    constructor.
    + now apply set_union_ssorted.
    + intros x Hx. apply In_set_union in Hx as [Hx|[<-|[]]]; [now apply Eb|exact L2].
    + intros x a Hx Ha. apply In_set_union. left. apply In_set_union in Hx as [Hx|[<-|[]]]; [now apply (Ec x)|].
      apply Hanc. now apply (In_anc c H).
    + intros x Hx. apply In_set_union. left. now apply E0.
  - (* parallel *)
    rewrite ccompl_core. cbn [fst snd]. split; [reflexivity|]. destruct I as [Es Eb Ec E0]. constructor.
    + now apply set_union_ssorted.
    + intros x Hx. apply In_set_union in Hx as [Hx|Hx]; [now apply Eb|].
      apply (parallel_spec c H i x E), (In_children c H) in Hx. now destruct (par_lt c H _ _ Hx).
    + intros x a Hx Ha. apply In_set_union. left. apply In_set_union in Hx as [Hx|Hx]; [now apply (Ec x)|].
      apply (parallel_spec c H i x E), (In_children c H) in Hx.
      destruct (anc_of_parent c x i a Hx Ha) as [->|Hai]; [exact M | now apply (Ec i)].
    + intros x Hx. apply In_set_union. left. now apply E0.
  - split; [reflexivity|exact I].
Qed.

Lemma cdescend_fold l : forall es ts, INV es ->
  fold_left (cdescend_one cv c cfg exitset hist) l (es, ts) = fold_left (fdescend_one c cfg exitset hist) l (es, ts) /\
  INV (fst (fold_left (fdescend_one c cfg exitset hist) l (es, ts))).
Proof.
  induction l as [|i r IH]; intros es ts I; cbn [fold_left]; [split; [reflexivity|exact I]|].
  destruct (cdescend_core es ts i I) as [E I'].
  rewrite E. destruct (fdescend_one c cfg exitset hist (es, ts) i) as [es' ts']. cbn [fst] in I'.
  now apply IH.
Qed.

Theorem centry_set_core ts :
  centry_set cv c cfg exitset hist targets ts = fentry_set c cfg exitset hist targets ts /\
  INV (fst (fentry_set c cfg exitset hist targets ts)).
Proof.
  unfold centry_set, fentry_set, cn, fn.
  apply cdescend_fold. now apply es_inv_0.
Qed.

(* the run-time check of CGen.v never fails on the core *)
Corollary entry_agree_core ts : entry_agree cv c cfg exitset hist targets ts = true.
Proof.
  unfold entry_agree, cn.
  assert (G : forall l es ts0 ok, INV es ->
            snd (fold_left (fun (a : (list nat * list nat) * bool) i =>
                              let r := cdescend_one cv c cfg exitset hist (fst a) i in
                              (r, snd a && pair_eqb r (fdescend_one c cfg exitset hist (fst a) i))) l ((es, ts0), ok)) = ok).
  { induction l as [|i r IH]; intros es ts0 ok I; cbn [fold_left]; [reflexivity|]. cbn [fst snd].
    destruct (cdescend_core es ts0 i I) as [E I']. rewrite E.
    destruct (fdescend_one c cfg exitset hist (es, ts0) i) as [es' ts'] eqn:F. cbn [fst] in I'.
    rewrite (IH es' ts' _ I').
    assert (P : pair_eqb (es', ts') (es', ts') = true).
    { unfold pair_eqb. cbn [fst snd].
      assert (L : forall a, CGen.list_eqb a a = true) by (induction a as [|x a IHa]; cbn; [reflexivity|now rewrite Nat.eqb_refl]).
      now rewrite !L. }
    rewrite P. apply andb_true_r. }
  apply G. now apply es_inv_0.
Qed.

End Entry.
