(* PmlEquivInit.v -- C06: the first iteration of the emitted step process (initial entry, detected by the empty
   configuration) against the first step of FastMicroStep (PRISTINE), and TERMINATE_MACHINE against the engine's
   step with TOP_LEVEL_FINAL set -- history-free core, early binding.  The emitted model initialises the datamodel in
   `init`, the interpreter when it enters <scxml>: the two stores agree from the entry of the root on, when every
   <data> expression can be evaluated at its place ([data_okb]).  Proofs only. *)
From V Require Import Base NameMatch Chart Exec Large Interp Legal SetLemmas LegalAbstract LegalLarge WfCore Fast Trie PmlStep
                      TraceLemmas PmlStepLemmas SerializeCodecLemmas
                      PmlEquivBase PmlEquivExit PmlEquivCore PmlEquivEntry PmlEquivContent PmlEquivStep PmlEquivMicro.
From Coq Require Import Sorted.
Local Open Scope nat_scope.

(* every <data> expression mentions only ids declared before it *)
Fixpoint data_okb (known : list N) (ds : list (N * iexpr)) : bool :=
  match ds with
  | [] => true
  | (v, e) :: r => iexpr_ok known e && data_okb (v :: known) r
  end.
Definition dom_after (known : list N) (ds : list (N * iexpr)) : list N := fold_left (fun k d => fst d :: k) ds known.
(* the ids declared by the document (early binding: all <data> are initialised with the root) *)
Definition chart_dom (c : fchart) : list N := dom_after [] (fs_data (st c 0)).

Lemma store_has_cons known v sto z : store_has known sto -> store_has (v :: known) (update sto v z).
Proof.
  intros Hs w Hw. rewrite lookup_update. destruct (v =? w)%N eqn:E; [discriminate|].
  apply Hs. unfold declared in *. cbn [existsb] in Hw. rewrite E in Hw. exact Hw.
Qed.

Lemma iexpr_ok_mono known v e : iexpr_ok known e = true -> iexpr_ok (v :: known) e = true.
Proof.
  induction e as [z|w|a IHa b IHb|a IHa b IHb|]; cbn [iexpr_ok]; intros Hok; try reflexivity; try discriminate.
  - unfold declared in *. cbn [existsb]. rewrite Hok. apply orb_true_r.
  - apply andb_true_iff in Hok as [A B]. now rewrite IHa, IHb.
  - apply andb_true_iff in Hok as [A B]. now rewrite IHa, IHb.
Qed.

Lemma init_data_fold ds : forall known x, store_has known (x_store x) -> data_okb known ds = true ->
  let x' := fold_left (fun x d => init_data d x) ds x in
  x_store x' = fold_left (fun sto d => update sto (fst d) (pml_ieval sto (snd d))) ds (x_store x) /\
  x_iq x' = x_iq x /\ x_eq x' = x_eq x /\ x_out x' = x_out x /\ store_has (dom_after known ds) (x_store x').
Proof.
  induction ds as [|[v e] r IH]; intros known x Hs Hok; cbn [fold_left dom_after]; [repeat split; exact Hs|].
  cbn [data_okb] in Hok. apply andb_true_iff in Hok as [He Hr].
  unfold init_data at 2 4 6 8 10. cbn [fst snd]. rewrite (ieval_total known _ _ Hs He).
  specialize (IH (v :: known) (set_store (update (x_store x) v (pml_ieval (x_store x) e)) x)).
  cbn [set_store x_store x_iq x_eq x_out] in IH. apply IH; [|exact Hr]. now apply store_has_cons.
Qed.

Section Init.
Variable pv : pml_variant.
Variable c : fchart.
Variable iq eq : nat.
Hypothesis Hin : pv_in_reads_root pv = false.
Hypothesis H : wf_coreb c = true.
Hypothesis Hroot : fs_type (st c 0) = FCompound.
Notation dom := (chart_dom c).
Hypothesis Hcontent : content_ok dom c = true.
Hypothesis Hdata : forall i, i <> 0 -> fs_data (st c i) = [].
Hypothesis Hdok : data_okb [] (fs_data (st c 0)) = true.
Let W : WF c := wf_coreb_sound c H.
Notation n := (nstates c).
Notation Anc := (LegalAbstract.Anc (fun i => fs_parent (st c i))).
Notation Rx := (Rx c).

(* ---- the datamodel of `init` ---- *)
Lemma all_data : flat_map (fun s => fs_data s) (fc_states c) = fs_data (st c 0).
Proof.
  unfold st. pose proof (n_pos c H) as Hn. unfold nstates in Hn.
  destruct (fc_states c) as [|s0 rest] eqn:E; [cbn in Hn; lia|]. cbn [flat_map nth].
  assert (Hr : forall k, fs_data (nth k rest dummy_state) = []).
  { intros k. specialize (Hdata (S k) ltac:(lia)). unfold st in Hdata. rewrite E in Hdata. exact Hdata. }
  assert (Hf : flat_map (fun s => fs_data s) rest = []).
  { clear E Hn. induction rest as [|s1 r IH]; [reflexivity|]. cbn [flat_map].
    rewrite (Hr 0 : fs_data s1 = []). cbn [app]. apply IH. intros k. apply (Hr (S k)). }
  rewrite Hf. apply app_nil_r.
Qed.

Definition store0 : store := fold_left (fun sto d => update sto (fst d) (pml_ieval sto (snd d))) (fs_data (st c 0)) [].

Lemma p_init_store : p_store (p_init c) = store0.
Proof. unfold p_init, store0. cbn [p_store]. now rewrite all_data. Qed.

(* ---- nothing is selected in the empty configuration ---- *)
Lemma psel_empty ev sto l : forall a, fold_left (psel_one pv c [] ev sto) l a = a.
Proof.
  induction l as [|i r IH]; intros a; cbn [fold_left]; [reflexivity|]. rewrite <- (IH a) at 2. f_equal.
  unfold psel_one. destruct (ft_history (tr c i) || ft_initial (tr c i)); reflexivity.
Qed.

(* a loop guarded by membership in the empty set does nothing *)
Lemma fold_nil_guard {S} (g : S -> nat -> bool) (f : S -> nat -> S) l : forall s,
  fold_left (fun s i => if mem i [] && g s i then f s i else s) l s = s.
Proof. induction l as [|i r IH]; intros s; cbn [fold_left mem andb]; [reflexivity|apply IH]. Qed.

Lemma exit_nil s : fold_left (p_exit_one pv c iq eq []) (rev (seq 0 (pn c))) s = s.
Proof. unfold p_exit_one. apply (fold_nil_guard (fun s i => mem i (p_cfg s))). Qed.

Lemma take_nil s : fold_left (p_take_one pv c iq eq []) (seq 0 (pnt c)) s = s.
Proof.
  rewrite (fold_ext (p_take_one pv c iq eq [])
             (fun s j => if mem j [] && (negb (ft_history (tr c j)) && negb (ft_initial (tr c j)))
                         then pexec_block pv c iq eq (ft_body (tr c j)) (out (PProcTrans j) (out (PTaking j) s)) else s)).
  - apply (fold_nil_guard (fun _ j => negb (ft_history (tr c j)) && negb (ft_initial (tr c j)))).
  - intros s0 j _. unfold p_take_one. now rewrite andb_assoc.
Qed.

(* ---- the completion of the root ---- *)
Lemma root_completion : exists k, fs_completion (st c 0) = [k] /\ fs_parent (st c k) = Some 0 /\ 0 < k /\ k < n.
Proof.
  destruct (compound_spec c H 0 Hroot) as (k & Ek & Hk). apply (In_children c H) in Hk.
  destruct (par_lt c H _ _ Hk). exists k. auto.
Qed.

(* ---- entering <scxml>: the interpreter initialises the datamodel here ---- *)
Lemma root_enter_sim s x : p_cfg s = [] -> p_store s = store0 -> x_store x = [] ->
  p_iq s = map ev_name (x_iq x) -> p_eq s = map ev_name (x_eq x) -> pobs_list c (p_out s) = fobs_list (x_out x) ->
  p_tlf s = false -> p_fin s = false ->
  p_full (p_enter_body pv c iq eq [] s 0) = false ->
  ecorr c dom (p_enter_body pv c iq eq [] s 0)
        (fenter_one ex_fixed c [] {| ea_cfg := []; ea_initd := []; ea_tlf := false; ea_x := x |} 0) /\
  p_hist (p_enter_body pv c iq eq [] s 0) = p_hist s /\ p_spont (p_enter_body pv c iq eq [] s 0) = p_spont s.
Proof.
  intros Hc Hst Hxs Hiq Heq Hout Ht Hf Hfull.
  unfold fenter_one. cbn [ea_cfg ea_initd ea_tlf ea_x mem]. rewrite (core_proper c H 0). cbn [insert_sorted].
  set (x1 := emit (TEb (fs_sid (st c 0))) x).
  destruct (init_data_fold (fs_data (st c 0)) [] x1) as (D1 & D2 & D3 & D4 & D5); [unfold x1; cbn [emit x_store]; rewrite Hxs; intros v Hv; discriminate|exact Hdok|].
  cbv zeta in D1, D2, D3, D4, D5. set (x2 := fold_left (fun x d => init_data d x) (fs_data (st c 0)) x1) in *.
  fold (chart_dom c) in D5.
  unfold p_enter_body in *. cbv zeta in *. unfold ptype in *. rewrite Hroot in *. cbn [is_fin] in *.
  set (s1 := pe1 0 s) in *.
  assert (C1 : p_cfg s1 = [0]) by (unfold s1, pe1; cbn [set_cfg p_cfg]; now rewrite Hc).
  assert (R1 : Rx s1 x2).
  { unfold PmlEquivContent.Rx, s1, pe1. cbn [set_cfg out p_store p_iq p_eq p_out].
    rewrite D1, D2, D3, D4. unfold x1. cbn [emit x_store x_iq x_eq x_out]. rewrite Hxs, pobs_cons, fobs_cons. cbn [pobs fobs].
    unfold sid_of. rewrite Hout. repeat split; auto. }
  assert (P1 : prest s1 = prest s) by reflexivity.
  assert (G1 : guard_ok s1) by (unfold PmlEquivContent.guard_ok, s1, pe1; cbn [set_cfg out p_fin p_tlf]; now rewrite Hf).
  pose proof (not_full_before (pe3 pv c iq eq [] 0) _ (mono_pe3 pv c iq eq [] 0) Hfull) as Hf2.
  destruct (state_content_ok c dom Hcontent 0) as [Hok _].
  destruct (sim_opt_blocks pv c iq eq dom Hin (fs_onentry (st c 0)) (PProcEntry 0) s1 x2 eq_refl Hok R1 D5 G1 Hf2) as (R2 & Hs2 & F2).
  fold (pe2 pv c iq eq 0 s1) in R2, F2. rewrite C1 in R2, Hs2. apply pframe_split in F2 as [C2 P2].
  assert (E3 : pe3 pv c iq eq [] 0 (pe2 pv c iq eq 0 s1) = pe2 pv c iq eq 0 s1).
  { rewrite (pe3_as_set pv c iq eq [] 0 _ ssorted_nil (bounded_intro _ [] (fun _ F => match F with end))). reflexivity. }
  rewrite E3 in *. unfold prest in P1, P2.
  split; [|split; congruence].
  constructor; cbn [ea_cfg ea_x ea_tlf fold_left].
  - congruence.
  - apply Rx_emit_none; [reflexivity|exact R2].
  - exact Hs2.
  - congruence.
  - congruence.
  - repeat constructor.
  - apply bounded_intro. intros y [<-|[]]. apply (n_pos c H).
  - now left.
Qed.

(* ---- the first iteration ---- *)
Theorem pml_initial_step_lemma :
  let s' := fst (pml_iter pv c iq eq (p_init c)) in
  let r := fast_step ex_fixed c l_pristine x_init in
  p_full s' = false ->
  corr c dom s' (fst (fst r)) (snd (fst r)) /\ cfg_ok c (l_cfg (fst (fst r))) /\
  p_spont s' = true /\ l_spont (fst (fst r)) = true /\ l_init (fst (fst r)) = true /\
  l_fin (fst (fst r)) = false /\ l_cancelled (fst (fst r)) = false /\ snd r = RC_MICROSTEPPED.
Proof.
  cbv zeta. unfold pml_iter, pml_dequeue. cbn [out p_spont p_init].
  set (sa := out PSpont (out PStep (p_init c))).
  rewrite pml_dstep_unfold. cbv zeta.
  (* SELECT_TRANSITIONS on the empty configuration *)
  assert (Esel : fst (p_select pv c None sa) = {| k_found := false; k_conf := []; k_target := []; k_exit := []; k_trans := [] |} /\
                 pcore (snd (p_select pv c None sa)) = pcore sa /\ p_hist (snd (p_select pv c None sa)) = [] /\
                 pobs_list c (p_out (snd (p_select pv c None sa))) = []).
  { assert (Csa : p_cfg sa = []) by reflexivity. unfold p_select. destruct (pnt c) eqn:Nt; cbn [fst snd].
    - repeat split. unfold sa. cbn. now rewrite andb_false_r.
    - rewrite Csa, psel_empty. cbn [k_found k_conf k_target k_exit k_trans set_inter filter]. repeat split. }
  destruct Esel as (Ea & Pc & Ph & Po). rewrite Ea. cbn [k_found k_target k_exit k_trans].
  set (s2 := snd (p_select pv c None sa)) in *.
  assert (C2 : p_cfg s2 = []) by (unfold pcore in Pc; injection Pc as Q _; exact Q).
  cbn [set_flags p_cfg p_found p_tlf p_fin]. rewrite C2. cbn [nonempty negb out p_found set_flags].
  unfold pcore in Pc. injection Pc as Q1 Q2 Q3 Q4 Q5 Q6 Q7 Q8 Q9.
  unfold sa in Q2, Q3, Q4, Q5, Q6, Q7, Q8, Q9. cbn [out p_store p_iq p_eq p_full p_spont p_tlf p_found p_fin] in Q2, Q3, Q4, Q5, Q6, Q7, Q8, Q9.
  set (s3 := out PInitialEntry (set_flags true (p_tlf s2) true (p_fin s2) (set_flags (p_spont s2) (p_tlf s2) false (p_fin s2) s2))).
  (* the engine *)
  unfold fast_step. cbn [l_pristine l_fin l_tlf is_pristine l_spont l_init l_stable orb negb].
  unfold fmicrostep. cbn [l_cfg l_hist l_initd l_tlf l_fin l_stable l_cancelled l_pristine rev fold_left].
  (* REMEMBER_HISTORY, ESTABLISH_ENTRY_SET, the two empty loops *)
  unfold p_microstep.
  assert (Er : p_remember pv c [] s3 = out PSaveHist s3).
  { unfold p_remember. cbn [out p_cfg set_flags s3]. now rewrite C2. }
  rewrite Er. cbn [out p_cfg p_hist set_flags s3]. rewrite C2, Ph.
  destruct root_completion as (k & Ek & Hk & Lk & Lkn).
  assert (Tg : ssorted (fs_completion (st c 0))) by (rewrite Ek; repeat constructor).
  assert (Tb : forall g, In g (fs_completion (st c 0)) -> g < n) by (rewrite Ek; intros g [<-|[]]; exact Lkn).
  destruct (pml_entry_set_lemma pv c H [] [] [] (fs_completion (st c 0)) Tg Tb
              (fun y (F : In y []) => match F with end) (fun y a (F : In y []) _ => match F with end)
              (fun y (F : In y []) => match F with end) [] (out PSaveHist s3)) as [Ee Ei].
  rewrite Ee. pose proof (fentry_set_ts c H [] [] [] (fs_completion (st c 0)) []) as Ets.
  destruct (fentry_set c [] [] [] (fs_completion (st c 0)) []) as [es ts'] eqn:Efs. cbn [fst snd] in *. subst ts'.
  destruct Ei as [Es Eb Ec E0].
  rewrite exit_nil, take_nil.
  set (s4 := out (PEntrySet es) (out PSaveHist s3)).
  (* the entry set starts with the root *)
  assert (H0 : In 0 es).
  { apply E0. apply (In_add_ancestors c H). right. exists k. rewrite Ek. split; [now left|]. now apply anc_parent. }
  destruct es as [|e0 es']; [destruct H0|].
  assert (e0 = 0).
  { destruct H0 as [->|H0]; [reflexivity|]. apply ssorted_inv in Es as [_ Hlt]. specialize (Hlt 0 H0). lia. }
  subst e0.
  assert (Ebd : bounded n (0 :: es')) by (apply bounded_intro; exact Eb).
  intros Hfull. rewrite (enter_as_set pv c iq eq (0 :: es') [] s4 Es Ebd) in Hfull |- *.
  cbn [fold_left] in Hfull |- *.
  assert (G0 : negb (mem 0 (p_cfg s4)) && negb (is_pseudo (ptype c 0)) = true).
  { unfold s4, s3. cbn [out p_cfg set_flags]. rewrite C2. unfold ptype. now rewrite (core_proper c H 0). }
  rewrite G0 in Hfull |- *.
  set (fe := fun s i => if negb (mem i (p_cfg s)) && negb (is_pseudo (ptype c i)) then p_enter_body pv c iq eq [] s i else s) in *.
  assert (M : mono (fun s => fold_left fe es' s)).
  { apply mono_fold. intros j. apply (mono_if (fun s => negb (mem j (p_cfg s)) && negb (is_pseudo (ptype c j)))); [apply mono_enter_body|apply mono_id]. }
  pose proof (not_full_before _ _ M Hfull) as Hf0.
  assert (A1 : p_cfg s4 = []) by exact C2.
  assert (A2 : p_store s4 = store0) by (unfold s4, s3; cbn [out set_flags p_store]; rewrite Q2; apply p_init_store).
  assert (A4 : p_iq s4 = map ev_name (x_iq (emit TMsB x_init))) by (unfold s4, s3; cbn [out set_flags p_iq]; rewrite Q3; reflexivity).
  assert (A5 : p_eq s4 = map ev_name (x_eq (emit TMsB x_init))) by (unfold s4, s3; cbn [out set_flags p_eq]; rewrite Q4; reflexivity).
  assert (A6 : pobs_list c (p_out s4) = fobs_list (x_out (emit TMsB x_init))).
  { unfold s4, s3. cbn [out set_flags p_out]. rewrite !pobs_cons. cbn [pobs]. rewrite Po. reflexivity. }
  assert (A7 : p_tlf s4 = false) by (unfold s4, s3; cbn [out set_flags p_tlf]; rewrite Q7; reflexivity).
  assert (A8 : p_fin s4 = false) by (unfold s4, s3; cbn [out set_flags p_fin]; rewrite Q9; reflexivity).
  destruct (root_enter_sim s4 (emit TMsB x_init) A1 A2 eq_refl A4 A5 A6 A7 A8 Hf0) as (E1 & Hh1 & Hsp1).
  assert (Hl : forall i, In i es' -> i < n) by (intros i Hi; apply Eb; now right).
  destruct (enter_fold_sim pv c iq eq dom Hin H Hcontent Hdata [] es' ssorted_nil
              (bounded_intro _ [] (fun _ F => match F with end)) Hl _ _ E1 Hfull) as (E2 & Hh2 & Hsp2).
  fold fe in E2, Hh2, Hsp2.
  set (s5 := fold_left fe es' (p_enter_body pv c iq eq [] s4 0)) in *.
  set (a5 := fold_left (fenter_one ex_fixed c []) es' _) in *.
  destruct E2 as [F1 F2 F3 F4 F5 F6 F7 F8].
  cbn [fst snd l_cfg l_spont l_init l_fin l_cancelled].
  assert (Hh : p_hist s5 = []) by (rewrite Hh2, Hh1; unfold s4, s3; cbn [out set_flags p_hist]; exact Ph).
  assert (Hsp : p_spont s5 = true) by (rewrite Hsp2, Hsp1; reflexivity).
  split; [|split; [|repeat split; auto]].
  - constructor; cbn [l_cfg l_hist l_tlf]; auto.
  - constructor; auto.
    intros y a Hy Ha. unfold a5 in *. rewrite (In_enter_fold c H) in *. cbn [ea_cfg] in *.
    assert (Hy' : In y (0 :: es')).
    { destruct Hy as [Hy|Hy]; [|now right].
      unfold fenter_one in Hy. cbn [ea_cfg mem] in Hy. rewrite (core_proper c H 0) in Hy.
      destruct (mem 0 []); destruct (fs_type (st c 0)); cbn [ea_cfg insert_sorted] in Hy; destruct Hy as [<-|[]]; now left. }
    pose proof (Ec y a Hy' Ha) as [<-|Hin'].
    + left. unfold fenter_one. cbn [ea_cfg mem]. rewrite (core_proper c H 0).
      destruct (mem 0 []); destruct (fs_type (st c 0)); cbn [ea_cfg insert_sorted]; now left.
    + now right.
Qed.

End Init.

(* ================================================================== TERMINATE_MACHINE *)
Section Terminate.
Variable pv : pml_variant.
Variable c : fchart.
Variable iq eq : nat.
Variable dom : list N.
Hypothesis Hin : pv_in_reads_root pv = false.
Hypothesis Hcontent : content_ok dom c = true.
Notation n := (nstates c).
Notation Rx := (Rx c).

Definition p_term_body (s : pstate) (i : nat) : pstate :=
  match fs_onexit (st c i) with
  | [] => s
  | b :: l => pexec_blocks pv c iq eq (b :: l) (out (PProcExit i) s)
  end.

Lemma term_fold_sim cfg l : forall s x, p_cfg s = cfg -> p_tlf s = true -> p_fin s = true ->
  Rx s x -> store_has dom (x_store x) ->
  let s' := fold_left (fun a i => if mem i (p_cfg a) && p_tlf a then p_term_body a i else a) l s in
  p_full s' = false ->
  Rx s' (fold_left (fun x i => exec_blocks ex_fixed (inst_of c cfg) (fs_onexit (st c i)) x) (filter (fun i => mem i cfg) l) x) /\
  pframe s' = pframe s.
Proof.
  induction l as [|i r IH]; intros s x Hc Ht Hf R Hs; cbn [fold_left filter]; intros Hfull; [auto|].
  assert (M : mono (fun s => fold_left (fun a i => if mem i (p_cfg a) && p_tlf a then p_term_body a i else a) r s)).
  { apply mono_fold. intros j. apply (mono_if (fun a => mem j (p_cfg a) && p_tlf a)); [|apply mono_id].
    unfold p_term_body. apply mono_opt_blocks. }
  pose proof (not_full_before _ _ M Hfull) as Hf1.
  rewrite Hc, Ht, andb_true_r in *.
  destruct (mem i cfg); [|now apply IH].
  assert (G : guard_ok s) by (unfold PmlEquivContent.guard_ok; rewrite Ht; apply orb_true_r).
  destruct (state_content_ok c dom Hcontent i) as [_ Hok].
  destruct (sim_opt_blocks pv c iq eq dom Hin (fs_onexit (st c i)) (PProcExit i) s x eq_refl Hok R Hs G Hf1) as (R1 & Hs1 & F1).
  fold (p_term_body s i) in R1, F1, Hf1. rewrite Hc in R1, Hs1.
  pose proof F1 as F1'. apply pframe_split in F1' as [C1 P1]. unfold prest in P1.
  cbn [fold_left].
  destruct (IH (p_term_body s i) _ ltac:(congruence) ltac:(congruence) ltac:(congruence) R1 Hs1 Hfull) as (R2 & F2).
  split; [exact R2|congruence].
Qed.

Theorem pml_terminate_lemma s l x :
  p_cfg s = l_cfg l -> Rx s x -> store_has dom (x_store x) ->
  p_tlf s = true -> p_fin s = true -> l_tlf l = true -> l_fin l = false ->
  ssorted (l_cfg l) -> bounded n (l_cfg l) ->
  let s' := p_terminate pv c iq eq s in
  let r := fast_step ex_fixed c l x in
  p_full s' = false ->
  Rx s' (snd (fst r)) /\ p_cfg s' = l_cfg (fst (fst r)) /\ p_hist s' = p_hist s /\ l_hist (fst (fst r)) = l_hist l /\
  l_fin (fst (fst r)) = true /\ snd r = RC_FINISHED.
Proof.
  intros Hc R Hs Ht Hf Ltlf Lfin Cs Cb. cbv zeta. unfold p_terminate, fast_step. rewrite Lfin, Ltlf.
  cbn [fst snd l_cfg l_hist l_fin out p_full]. intros Hfull.
  assert (E : fold_left (fun a i => if mem i (p_cfg a) && p_tlf a
                                   then match fs_onexit (st c i) with
                                        | [] => a
                                        | b :: bs => pexec_blocks pv c iq eq (b :: bs) (out (PProcExit i) a)
                                        end
                                   else a) (rev (seq 0 (pn c))) (out PFinished s) =
              fold_left (fun a i => if mem i (p_cfg a) && p_tlf a then p_term_body a i else a) (rev (seq 0 (pn c))) (out PFinished s))
    by reflexivity.
  rewrite E in *.
  assert (R0 : Rx (out PFinished s) (emit TComplB x)) by (apply Rx_emit_none; [reflexivity|]; apply Rx_out_none; [reflexivity|exact R]).
  destruct (term_fold_sim (l_cfg l) (rev (seq 0 (pn c))) (out PFinished s) (emit TComplB x) Hc Ht Hf R0 Hs Hfull) as (R1 & F1).
  rewrite filter_rev, (filter_mem_seq0 (l_cfg l) (pn c) Cs Cb) in R1.
  apply pframe_split in F1 as [C1 P1]. unfold prest in P1. cbn [out p_cfg p_hist] in C1, P1.
  split; [apply Rx_emit_none; [reflexivity|]; apply Rx_out_none; [reflexivity|exact R1]|].
  cbn [out p_cfg p_hist]. split; [congruence|]. split; [congruence|]. auto.
Qed.
End Terminate.
