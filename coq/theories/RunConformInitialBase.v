(* RunConformInitialBase.v -- C01 on charts with <initial> elements and deep / multiple initial attributes (wf_initb,
   record WFH of LegalHistBase.v, no history): the COMMON DESCRIPTION of the states a microstep enters.

   A "context" (r, G) is a state r together with the list G of states below r that must become active: the domain
   of a selected transition with the transition's targets (given by the parameter B), or a compound state that
   is entered by default with its initial targets [itg r] (the targets of its <initial> element's transition, or
   its completion as written).  [D r G x]: x is entered in context (r, G):
     - the children of r on the paths to the members of G;
     - every child of an entered <parallel>;
     - below an entered state that is no <parallel>: the child on the path to a member of G, if there is one;
     - otherwise, below an entered compound state p: the children on the paths to its initial targets, in the new
       context (p, itg p).
   Both Appendix D's computeEntrySet (RunConformInitialSpec.v) and LargeMicroStep's descendant loop
   (RunConformInitialEngine.v) are shown to compute { x | exists r G, D r G x }.  Definitions and proofs. *)
From V Require Import Base NameMatch Chart Exec Large LargeLemmas Spec Legal SetLemmas LegalAbstract LegalLarge
  LegalHistBase LegalHistEntry LegalHistStep.
Local Open Scope nat_scope.

Section IBase.
Variable c : fchart.
Let n := nstates c.
Let par (i : nat) := fs_parent (st c i).
Let ch (i : nat) := fs_children (st c i).
Let kd (i : nat) := fs_type (st c i).
Let cpl (i : nat) := fs_completion (st c i).
Notation Anc := (LegalAbstract.Anc par).
Notation pseudo := (pseudoS c).

Hypothesis W : WFH c.
Hypothesis Hnh : forall i, histS c i = false.

(* ---- side conditions (booleans: RunConformInitialWf.v) ---- *)
(* the completion of a compound state is its <initial> child, or consists of proper states *)
Definition CplOK : Prop := forall i, kd i = FCompound ->
  (exists x, cpl i = [x] /\ kd x = FInitial /\ par x = Some i) \/ (forall g, In g (cpl i) -> pseudo g = false).
(* no member of a completion lies below another member *)
Definition CplAnti : Prop := forall i g1 g2, kd i = FCompound -> In g1 (cpl i) -> In g2 (cpl i) -> ~ Anc g1 g2.
(* no target of a transition lies below another target of the same transition; targets are proper states *)
Definition TgAnti : Prop := forall ti g1 g2, In g1 (ft_targets (tr c ti)) -> In g2 (ft_targets (tr c ti)) -> ~ Anc g1 g2.
Definition TgProper : Prop := forall ti g, In g (ft_targets (tr c ti)) -> pseudo g = false.

Hypothesis HcplOK : CplOK.
Hypothesis HcplAnti : CplAnti.
Hypothesis HtgAnti : TgAnti.
Hypothesis HtgProper : TgProper.

(* ---- initial targets ---- *)
Definition itg (i : nat) : list nat := fst (initial_of c i).

Definition antichain (G : list nat) : Prop := forall g1 g2, In g1 G -> In g2 G -> ~ Anc g1 g2.

Record GoodCtx (r : nat) (G : list nat) : Prop := {
  gc_kind : kd r = FCompound;
  gc_ne : G <> [];
  gc_below : forall g, In g G -> Anc r g;
  gc_proper : forall g, In g G -> pseudo g = false;
  gc_one : one_child_per_compound c G;
  gc_anti : antichain G
}.

Lemma sty_kd i : sty c i = kd i.
Proof. reflexivity. Qed.

Lemma initial_of_elem i x ti : cpl i = [x] -> kd x = FInitial -> fs_trans (st c x) = [ti] ->
  initial_of c i = (ft_targets (tr c ti), Some (tr c ti)).
Proof.
  intros Hc Hk Ht. unfold initial_of. fold (cpl i). rewrite Hc, sty_kd, Hk. unfold pseudo_trans. rewrite Ht. reflexivity.
Qed.

Lemma initial_of_plain i : (forall g, In g (cpl i) -> pseudo g = false) -> initial_of c i = (cpl i, None).
Proof.
  intros Hp. unfold initial_of. fold (cpl i). destruct (cpl i) as [|x [|y r]] eqn:Hc; try reflexivity.
  rewrite sty_kd. specialize (Hp x (or_introl eq_refl)). unfold pseudoS in Hp. fold (kd x) in Hp.
  destruct (kd x); try reflexivity. discriminate.
Qed.

Lemma itg_good i : kd i = FCompound -> GoodCtx i (itg i).
Proof.
  intros Hk. destruct (HcplOK i Hk) as [(x & Hc & Hkx & Hpx)|Hp].
  - destruct (wh_initial c W x i Hkx Hpx) as (ti & Ht & Hne & Htg).
    unfold itg. rewrite (initial_of_elem i x ti Hc Hkx Ht). cbn [fst]. constructor.
    + exact Hk.
    + exact Hne.
    + intros g Hg. now destruct (Htg g Hg).
    + intros g Hg. now destruct (Htg g Hg) as (_ & _ & H).
    + exact (wh_target_sets c W ti).
    + intros g1 g2. apply HtgAnti.
  - unfold itg. rewrite (initial_of_plain i Hp). cbn [fst]. destruct (wh_compound c W i Hk) as [Hne Hb]. constructor.
    + exact Hk.
    + exact Hne.
    + exact Hb.
    + exact Hp.
    + exact (wh_cpl_sets c W i Hk).
    + intros g1 g2. now apply HcplAnti.
Qed.

(* the transition Appendix D executes for a default entry of i is the one of the <initial> child in the completion *)
Lemma initial_of_snd i : kd i = FCompound ->
  (exists x ti, cpl i = [x] /\ kd x = FInitial /\ par x = Some i /\ fs_trans (st c x) = [ti] /\
                snd (initial_of c i) = Some (tr c ti) /\ itg i = ft_targets (tr c ti)) \/
  ((forall g, In g (cpl i) -> pseudo g = false) /\ snd (initial_of c i) = None /\ itg i = cpl i).
Proof.
  intros Hk. destruct (HcplOK i Hk) as [(x & Hc & Hkx & Hpx)|Hp].
  - left. destruct (wh_initial c W x i Hkx Hpx) as (ti & Ht & _). exists x, ti.
    unfold itg. rewrite (initial_of_elem i x ti Hc Hkx Ht). auto 8.
  - right. unfold itg. rewrite (initial_of_plain i Hp). auto.
Qed.

(* ---- the relation ---- *)
Variable B : nat -> list nat -> Prop.
Hypothesis HB1 : forall r G, B r G -> GoodCtx r G.
Hypothesis HB2 : forall r G r' G', B r G -> B r' G' -> (r = r' /\ G = G') \/ (r <> r' /\ ~ Anc r r' /\ ~ Anc r' r).

Definition onp (k : nat) (G : list nat) : Prop := exists g, In g G /\ on_pathP c k g.
Definition NTG (p : nat) (G : list nat) : Prop := forall g, In g G -> ~ Anc p g.

Inductive D : nat -> list nat -> nat -> Prop :=
| D_base : forall r G k, B r G -> par k = Some r -> onp k G -> D r G k
| D_par : forall r G p k, D r G p -> kd p = FParallel -> par k = Some p -> D r G k
| D_forced : forall r G p k, D r G p -> kd p <> FParallel -> par k = Some p -> onp k G -> D r G k
| D_default : forall r G p k, D r G p -> kd p = FCompound -> NTG p G -> par k = Some p -> onp k (itg p) -> D p (itg p) k.

Lemma D_good r G x : D r G x -> GoodCtx r G.
Proof. induction 1 as [r G k Hb _ _| | |r G p k _ _ Hk _ _ _]; auto. now apply itg_good. Qed.

Lemma D_below r G x : D r G x -> Anc r x.
Proof.
  induction 1 as [r G k _ Hp _|r G p k _ IH _ Hp|r G p k _ IH _ Hp _|r G p k _ _ _ _ Hp _].
  - now apply anc_parent.
  - eapply anc_step; eauto.
  - eapply anc_step; eauto.
  - now apply anc_parent.
Qed.

Lemma onp_proper r G k : GoodCtx r G -> onp k G -> pseudo k = false.
Proof.
  intros HG (g & Hg & [->|Ha]); [exact (gc_proper r G HG g Hg) | exact (anc_not_pseudo c W k g Ha)].
Qed.

Lemma D_proper r G x : D r G x -> pseudo x = false.
Proof.
  induction 1 as [r G k Hb _ Ho|r G p k _ _ Hk Hp|r G p k Hd _ _ _ Ho|r G p k _ _ Hk _ _ Ho].
  - exact (onp_proper r G k (HB1 r G Hb) Ho).
  - destruct (pseudo k) eqn:E; [|reflexivity]. exfalso. destruct (wh_pseudo_parent c W k E) as (q & Hq & Hkq).
    fold (par k) in Hq. rewrite Hp in Hq. injection Hq as <-. fold (kd p) in Hkq. congruence.
  - exact (onp_proper r G k (D_good _ _ _ Hd) Ho).
  - exact (onp_proper p (itg p) k (itg_good p Hk) Ho).
Qed.

Lemma D_lt r G x : D r G x -> x < n.
Proof. intros H. now destruct (hanc_lt c W _ _ (D_below _ _ _ H)). Qed.

Lemma D_root r G x : D r G x -> exists r0 G0, B r0 G0 /\ (r0 = r \/ Anc r0 r).
Proof.
  induction 1 as [r G k Hb _ _| | |r G p k Hd IH _ _ _ _]; auto.
  - exists r, G. split; [exact Hb | now left].
  - destruct IH as (r0 & G0 & Hb & Hr). exists r0, G0. split; [exact Hb|]. right.
    pose proof (D_below _ _ _ Hd) as Hrp. destruct Hr as [->|Hr]; [exact Hrp | eapply hanc_trans; eauto].
Qed.

(* no base root is entered *)
Lemma root_not_entered r0 G0 r G : B r0 G0 -> ~ D r G r0.
Proof.
  intros Hb Hd. destruct (D_root _ _ _ Hd) as (r1 & G1 & Hb1 & Hr). pose proof (D_below _ _ _ Hd) as Hrr0.
  assert (H10 : Anc r1 r0) by (destruct Hr as [->|Hr]; [exact Hrr0 | eapply hanc_trans; eauto]).
  destruct (HB2 r1 G1 r0 G0 Hb1 Hb) as [[-> _]|(_ & Hn & _)]; [exact (hanc_irrefl c W _ H10) | now apply Hn].
Qed.

(* the step that put x into the set *)
Lemma D_inv r G k : D r G k -> exists p, par k = Some p /\
  ((B r G /\ p = r /\ onp k G) \/
   (D r G p /\ kd p = FParallel) \/
   (D r G p /\ kd p <> FParallel /\ onp k G) \/
   (exists r1 G1, D r1 G1 p /\ kd p = FCompound /\ NTG p G1 /\ r = p /\ G = itg p /\ onp k G)).
Proof.
  destruct 1 as [r G k Hb Hp Ho|r G p k Hd Hk Hp|r G p k Hd Hk Hp Ho|r G p k Hd Hk Hn Hp Ho].
  - exists r. split; [exact Hp|]. left. auto.
  - exists p. split; [exact Hp|]. right. left. auto.
  - exists p. split; [exact Hp|]. right. right. left. auto.
  - exists p. split; [exact Hp|]. right. right. right. exists r, G. repeat split; auto.
Qed.

Lemma onp_below p k G : par k = Some p -> onp k G -> exists g, In g G /\ Anc p g.
Proof.
  intros Hp (g & Hg & Hon). exists g. split; [exact Hg|].
  destruct Hon as [->|Ha]; [now apply anc_parent | eapply hanc_trans; [apply anc_parent; exact Hp | exact Ha]].
Qed.

(* every state is entered in one context only *)
Lemma D_unique : forall x r G r' G', D r G x -> D r' G' x -> r = r' /\ G = G'.
Proof.
  induction x as [x IH] using lt_wf_ind. intros r G r' G' H1 H2.
  destruct (D_inv _ _ _ H1) as (p & Hp & C1). destruct (D_inv _ _ _ H2) as (p' & Hp' & C2).
  rewrite Hp in Hp'. injection Hp' as <-.
  destruct (wh_par_lt c W _ _ Hp) as [Hlt _].
  assert (Hroot : forall ra Ga rb Gb, B ra Ga -> p = ra -> D rb Gb p -> False).
  { intros ra Ga rb Gb Hb -> Hd. exact (root_not_entered ra Ga rb Gb Hb Hd). }
  destruct C1 as [(Hb1 & E1 & _)|[(Hd1 & Hk1)|[(Hd1 & Hk1 & Ho1)|(r1 & G1 & Hd1 & Hk1 & Hn1 & E1 & EG1 & Ho1)]]];
  destruct C2 as [(Hb2 & E2 & _)|[(Hd2 & Hk2)|[(Hd2 & Hk2 & Ho2)|(r2 & G2 & Hd2 & Hk2 & Hn2 & E2 & EG2 & Ho2)]]].
  - subst r r'. destruct (HB2 p G p G' Hb1 Hb2) as [[_ E]|(Hne & _)]; [auto | congruence].
  - exfalso. exact (Hroot r G r' G' Hb1 E1 Hd2).
  - exfalso. exact (Hroot r G r' G' Hb1 E1 Hd2).
  - exfalso. exact (Hroot r G r2 G2 Hb1 E1 Hd2).
  - exfalso. exact (Hroot r' G' r G Hb2 E2 Hd1).
  - exact (IH p Hlt r G r' G' Hd1 Hd2).
  - congruence.
  - congruence.
  - exfalso. exact (Hroot r' G' r G Hb2 E2 Hd1).
  - congruence.
  - exact (IH p Hlt r G r' G' Hd1 Hd2).
  - exfalso. destruct (IH p Hlt r G r2 G2 Hd1 Hd2) as [-> ->].
    destruct (onp_below p x G2 Hp Ho1) as (g & Hg & Ha). exact (Hn2 g Hg Ha).
  - exfalso. exact (Hroot r' G' r1 G1 Hb2 E2 Hd1).
  - congruence.
  - exfalso. destruct (IH p Hlt r1 G1 r' G' Hd1 Hd2) as [-> ->].
    destruct (onp_below p x G' Hp Ho2) as (g & Hg & Ha). exact (Hn1 g Hg Ha).
  - subst. auto.
Qed.

(* down a path to a member of the context *)
Lemma D_path r G k g : D r G k -> In g G -> forall y, Anc k y -> on_pathP c y g -> D r G y.
Proof.
  intros Hk Hg. induction 1 as [y p Hp|y p k Hp Ha IH]; intros Hon.
  - assert (Hkp : kd p <> FParallel \/ kd p = FParallel) by (destruct (kd p); auto; left; discriminate).
    destruct Hkp as [Hkp|Hkp]; [apply (D_forced r G p y Hk Hkp Hp); exists g; auto | exact (D_par r G p y Hk Hkp Hp)].
  - assert (Hpg : on_pathP c p g).
    { right. destruct Hon as [->|Hyg]; [now apply anc_parent | eapply hanc_trans; [apply anc_parent; exact Hp | exact Hyg]]. }
    specialize (IH Hk Hpg).
    assert (Hkp : kd p <> FParallel \/ kd p = FParallel) by (destruct (kd p); auto; left; discriminate).
    destruct Hkp as [Hkp|Hkp]; [apply (D_forced r G p y IH Hkp Hp); exists g; auto | exact (D_par r G p y IH Hkp Hp)].
Qed.

(* everything on the paths from the root of a context to its members, provided the first step is justified *)
Lemma D_IC_base r G y : B r G -> IC c r G y -> D r G y.
Proof.
  intros Hb [Hry (g & Hg & Hon)].
  destruct (hanc_child_on_path c r y Hry) as (k & Hk & Hky).
  assert (Hkg : on_pathP c k g).
  { destruct Hky as [->|Hky]; [exact Hon|]. right. destruct Hon as [->|Hyg]; [exact Hky | eapply hanc_trans; eauto]. }
  assert (Dk : D r G k) by (apply D_base; [exact Hb | exact Hk | exists g; auto]).
  destruct Hky as [->|Hky]; [exact Dk | exact (D_path r G k g Dk Hg y Hky Hon)].
Qed.

Lemma D_IC_default r G p y : D r G p -> kd p = FCompound -> NTG p G -> IC c p (itg p) y -> D p (itg p) y.
Proof.
  intros Hd Hkp Hn [Hpy (g & Hg & Hon)].
  destruct (hanc_child_on_path c p y Hpy) as (k & Hk & Hky).
  assert (Hkg : on_pathP c k g).
  { destruct Hky as [->|Hky]; [exact Hon|]. right. destruct Hon as [->|Hyg]; [exact Hky | eapply hanc_trans; eauto]. }
  assert (Dk : D p (itg p) k) by (apply (D_default r G p k Hd Hkp Hn Hk); exists g; auto).
  destruct Hky as [->|Hky]; [exact Dk | exact (D_path p (itg p) k g Dk Hg y Hky Hon)].
Qed.

(* a member of the context has nothing of the context below it *)
Lemma NTG_member r G g : GoodCtx r G -> In g G -> NTG g G.
Proof. intros HG Hg g' Hg'. exact (gc_anti r G HG g g' Hg Hg'). Qed.

Lemma NTG_down p k G : par k = Some p -> NTG p G -> NTG k G.
Proof. intros Hp Hn g Hg Ha. apply (Hn g Hg). eapply hanc_trans; [apply anc_parent; exact Hp | exact Ha]. Qed.

(* the entered child of a compound state is unique *)
Lemma D_child_unique r G p k1 k2 r1 G1 r2 G2 : D r G p -> kd p = FCompound ->
  par k1 = Some p -> par k2 = Some p -> D r1 G1 k1 -> D r2 G2 k2 -> k1 = k2.
Proof.
  intros Hd Hkp H1 H2 D1 D2.
  assert (Hcase : forall k rk Gk, par k = Some p -> D rk Gk k -> onp k Gk /\ GoodCtx rk Gk /\ ((rk = r /\ Gk = G) \/ (rk = p /\ Gk = itg p /\ NTG p G))).
  { intros k rk Gk Hk Dk. destruct (D_inv _ _ _ Dk) as (p' & Hp' & C). rewrite Hk in Hp'. injection Hp' as <-.
    split; [|split; [exact (D_good _ _ _ Dk)|]].
    - destruct C as [(Hb & E & Ho)|[(_ & Hk')|[(_ & _ & Ho)|(ra & Ga & _ & _ & _ & _ & _ & Ho)]]]; auto. congruence.
    - destruct C as [(Hb & E & Ho)|[(_ & Hk')|[(Dp & _ & Ho)|(ra & Ga & Dp & _ & Hn & E1 & E2 & Ho)]]].
      + exfalso. subst. exact (root_not_entered _ _ _ _ Hb Hd).
      + congruence.
      + left. exact (D_unique p rk Gk r G Dp Hd).
      + right. destruct (D_unique p ra Ga r G Dp Hd) as [-> ->]. auto. }
  destruct (Hcase k1 r1 G1 H1 D1) as ((g1 & Hg1 & Ho1) & HG1 & C1). destruct (Hcase k2 r2 G2 H2 D2) as ((g2 & Hg2 & Ho2) & HG2 & C2).
  destruct C1 as [[-> ->]|(-> & -> & Hn1)], C2 as [[-> ->]|(-> & -> & Hn2)].
  - exact (gc_one r G HG1 p k1 k2 g1 g2 Hkp H1 H2 Hg1 Hg2 Ho1 Ho2).
  - exfalso. destruct (onp_below p k1 G H1 (ex_intro _ g1 (conj Hg1 Ho1))) as (g & Hg & Ha). exact (Hn2 g Hg Ha).
  - exfalso. destruct (onp_below p k2 G H2 (ex_intro _ g2 (conj Hg2 Ho2))) as (g & Hg & Ha). exact (Hn1 g Hg Ha).
  - exact (gc_one p (itg p) HG1 p k1 k2 g1 g2 Hkp H1 H2 Hg1 Hg2 Ho1 Ho2).
Qed.

End IBase.
