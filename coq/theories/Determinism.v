(* Determinism.v -- C20: the transformers' naming and ordering decisions, and the interpreter's use of cache
   files, as functions of (document, url, env) where `env` makes the process-dependent inputs explicit.
   Executable model, no proofs (DeterminismLemmas.v).

   What is modelled is *where the environment flows* (read off the C++):
     ChartToC::ChartToC        `ss << _document; _md5 = md5(ss.str()); _prefix = "_uscxml_" + _md5.substr(0,8) + "_"`
                               -- _document is a DOMDocument*, so the printed *address* is hashed;
     ChartToPromela::prepare   nested machines are analysed while their prefix still is "U" + md5.substr(0,8) + "_",
                               so the literals "<prefix>_sessionid", "<prefix>_name" carry the address hash;
                               _machinesAll / _machinesNested are std::map<DOMElement*, ...> and are iterated:
                               the order of the per-machine blocks is the address order of the keys;
                               an <invoke> without id gets "INV_" + UUID::getUUID().substr(0,5);
     Trie::getChildsWithWords  `nodes.merge(otherChilds)` on std::list<TrieNode*>: std::list::merge compares the
                               *pointers*, so the word list (VHDL event signals and codes, Promela event
                               disjunctions) comes in an order that depends on the addresses of the trie nodes;
     escapeMacro               keeps [0-9A-Za-z_], and appends '_' and (char) std::hash<std::string>(rest) otherwise
                               (VHDL signal names);
     InterpreterImpl::init     reads $TMP/uscxml/md5(baseURL).uscxml.cache, discards it when its md5 entry is not the
                               document's; FastMicroStep::init would take completion/target tables from it
                               (compiled out by `#undef WITH_CACHE_FILES` in the tree as pinned).
   Everything else of the emitted text is an abstract function (Section variable) of the document and of the
   identifier skeleton computed here.  A Gallina function is deterministic by construction: the theorems about this
   model speak about the environment inputs listed in `env` and nothing else (property C20 is partial by nature). *)
From Coq Require Import List NArith Bool Arith Lia.
From V Require Import Base.
From V Require Import GenEnvDeps.
Import ListNotations.
Local Open Scope N_scope.

(* ------------------------------------------------------------------ documents *)

(* A machine: the serialisation of its own document (all the generators read), the event names in the order they
   are added to the event trie (document order), the string literals the Promela analyser finds (insertion order), and the <invoke>
   elements with an inline or referenced SCXML machine in document order: optional id attribute and the machine. *)
Inductive machine : Type :=
| Machine (text : bytes) (events : list bytes) (lits : list bytes) (invokes : list (option bytes * machine)).

Definition m_text (m : machine) := let (t, _, _, _) := m in t.
Definition m_events (m : machine) := let (_, e, _, _) := m in e.
Definition m_lits (m : machine) := let (_, _, l, _) := m in l.
Definition m_invokes (m : machine) := let (_, _, _, i) := m in i.

(* every <invoke>, at any depth, carries an id (the proviso of the property) *)
Fixpoint has_ids (m : machine) : bool :=
  match m with
  | Machine _ _ _ invs =>
      (fix go (l : list (option bytes * machine)) : bool :=
         match l with
         | [] => true
         | (oid, sub) :: r => match oid with Some _ => has_ids sub && go r | None => false end
         end) invs
  end.

(* ------------------------------------------------------------------ the environment *)

(* objects whose address is observed: the DOMDocument of a machine, its <scxml> element, the <invoke> element
   that leads to it; named by the path (indices into m_invokes) from the root machine *)
Inductive objkind := KDoc | KScxml | KInvoke | KTrieNode.   (* KTrieNode [k]: the k-th TrieNode allocated *)
Definition obj := (objkind * list nat)%type.

Record cachefile := mkCache {
  cf_md5 : option bytes;                (* "InterpreterImpl"."md5" *)
  cf_tables : option (list (list bool)) (* "FastMicroStep": completion / target bit sets *) }.

Record env := mkEnv {
  addr : obj -> N;            (* address-space layout: injective, otherwise arbitrary *)
  std_hash : bytes -> N;      (* std::hash<std::string> of this C++ library *)
  uuid : nat -> bytes;        (* the k-th UUID drawn from the random generator *)
  cache : bytes -> option cachefile   (* cache directory: file for md5(url), if any *) }.

(* the layout is injective on the objects of interest *)
Definition addr_injective_on (e : env) (os : list obj) : Prop :=
  forall a b, In a os -> In b os -> addr e a = addr e b -> a = b.

(* ------------------------------------------------------------------ variants (defects and repairs) *)

Record variant := mkVariant {
  v_c_prefix_ptr : bool;     (* ChartToC hashes the printed DOMDocument* (true) / the serialised document (false) *)
  v_pml_prefix_leak : bool;  (* nested Promela machines analysed before their prefix is set from the invoke id *)
  v_pml_ptr_order : bool;    (* machine maps keyed by DOMElement* and iterated (true) / document order (false) *)
  v_vhdl_std_hash : bool;    (* escapeMacro appends (char) std::hash (true) / an escape computed from the text (false) *)
  v_trie_ptr_merge : bool;   (* Trie::getChildsWithWords merges the children's word lists by address (true) / appends them (false) *)
  v_fast_cache : bool;       (* FastMicroStep compiled with WITH_CACHE_FILES: tables taken from the cache file *)
  v_cache_md5_guard : bool   (* InterpreterImpl::init discards a cache whose md5 differs from the document's *) }.

Definition pinned_variant : variant := mkVariant true true true true true false true.
Definition repaired_variant : variant := mkVariant false false false false false false true.

(* no transformer switch on: the generators do not look at the environment *)
Definition transform_clean (v : variant) : bool :=
  negb (v_c_prefix_ptr v) && negb (v_pml_prefix_leak v) && negb (v_pml_ptr_order v) && negb (v_vhdl_std_hash v) &&
  negb (v_trie_ptr_merge v).
(* interpretation does not depend on what the cache directory holds *)
Definition cache_safe (v : variant) : bool := negb (v_fast_cache v) || v_cache_md5_guard v.

(* ------------------------------------------------------------------ the inventory selects the variant *)

Definition sym_document : bytes := [95; 100; 111; 99; 117; 109; 101; 110; 116].                              (* _document *)
Definition sym_machinesAll : bytes := [95; 109; 97; 99; 104; 105; 110; 101; 115; 65; 108; 108].                (* _machinesAll *)
Definition sym_machinesNested : bytes := [95; 109; 97; 99; 104; 105; 110; 101; 115; 78; 101; 115; 116; 101; 100]. (* _machinesNested *)
Definition sym_escapeMacro : bytes := [101; 115; 99; 97; 112; 101; 77; 97; 99; 114; 111].                      (* escapeMacro *)
Definition sym_getUUID : bytes := [103; 101; 116; 85; 85; 73; 68].                                             (* getUUID *)
Definition sym_Trie : bytes := [84; 114; 105; 101].                                                            (* Trie *)

Inductive flow := FCPrefix | FPmlOrder | FVhdlHash | FRandomId | FTrieOrder.
Definition flow_eqb (a b : flow) : bool :=
  match a, b with
  | FCPrefix, FCPrefix | FPmlOrder, FPmlOrder | FVhdlHash, FVhdlHash | FRandomId, FRandomId | FTrieOrder, FTrieOrder => true
  | _, _ => false
  end.

(* the flow of the model an inventory entry belongs to *)
Definition dep_flow (d : env_dep) : option flow :=
  match ed_kind d with
  | PtrPrinted => if beq_bytes (ed_symbol d) sym_document then Some FCPrefix else None
  | PtrKeyedIter => if beq_bytes (ed_symbol d) sym_machinesAll || beq_bytes (ed_symbol d) sym_machinesNested then Some FPmlOrder else None
  | PtrOrdered => if beq_bytes (ed_class d) sym_Trie then Some FTrieOrder else None
  | StdHashUse => if beq_bytes (ed_symbol d) sym_escapeMacro then Some FVhdlHash else None
  | RandomId => if beq_bytes (ed_symbol d) sym_getUUID then Some FRandomId else None
  | PtrLogged => None
  | Unreadable => None
  end.

(* entries that cannot reach the emitted text: the address goes to the log; the container lives in a class that is
   never instantiated; a random id that is only drawn for an element without id (excluded by has_ids); no use *)
Definition dep_harmless (d : env_dep) : bool :=
  match ed_kind d with
  | PtrLogged => true
  | RandomId => ed_guarded d
  | Unreadable => false
  | _ => negb (ed_live d) || (ed_uses d =? 0)
  end.

Definition dep_accounted (d : env_dep) : bool :=
  dep_harmless d || match dep_flow d with Some _ => true | None => false end.

Definition has_flow (f : flow) (inv : list env_dep) : bool :=
  existsb (fun d => negb (dep_harmless d) && match dep_flow d with Some g => flow_eqb f g | None => false end) inv.

Definition variant_of (inv : list env_dep) (analyze_first fast_cache guard : bool) : variant :=
  mkVariant (has_flow FCPrefix inv) (analyze_first && has_flow FCPrefix inv) (has_flow FPmlOrder inv)
            (has_flow FVhdlHash inv) (has_flow FTrieOrder inv) fast_cache guard.
(* (the Promela prefix leak needs both: the address-derived md5 of ChartToC and the analysis running before the
   prefix is replaced) *)

Definition current_variant : variant :=
  variant_of env_inventory pml_analyze_before_prefix fast_cache_compiled cache_md5_guard_present.

(* ------------------------------------------------------------------ small string library *)

Definition hexdigit_lc (d : N) : N := if d <? 10 then 48 + d else 87 + d.
Fixpoint hex_go (fuel : nat) (n : N) (acc : bytes) : bytes :=
  match fuel with
  | O => acc
  | S f => if n =? 0 then acc else hex_go f (n / 16) (hexdigit_lc (n mod 16) :: acc)
  end.
(* operator<< of an ostream on a void pointer: "0x" and lower-case hexadecimal digits *)
Definition print_ptr (a : N) : bytes :=
  [48; 120] ++ (if a =? 0 then [48] else hex_go (N.size_nat a) a []).

Fixpoint bytes_ltb (a b : bytes) : bool :=
  match a, b with
  | [], [] => false
  | [], _ :: _ => true
  | _ :: _, [] => false
  | x :: a', y :: b' => if x <? y then true else if y <? x then false else bytes_ltb a' b'
  end.
(* std::set<std::string>: sorted, duplicate free *)
Fixpoint set_insert (x : bytes) (l : list bytes) : list bytes :=
  match l with
  | [] => [x]
  | y :: r => if bytes_ltb x y then x :: l else if beq_bytes x y then l else y :: set_insert x r
  end.
Definition set_of (l : list bytes) : list bytes := fold_left (fun s x => set_insert x s) l [].

(* std::map<K*, V>: iteration in the order of the keys' addresses *)
Fixpoint addr_insert {A : Type} (k : N) (v : A) (l : list (N * A)) : list (N * A) :=
  match l with
  | [] => [(k, v)]
  | (k', v') :: r => if k <? k' then (k, v) :: l else if k =? k' then (k, v) :: r else (k', v') :: addr_insert k v r
  end.
Definition addr_map {A : Type} (l : list (N * A)) : list (N * A) := fold_left (fun s kv => addr_insert (fst kv) (snd kv) s) l [].

Definition is_ident_char (c : N) : bool :=
  ((48 <=? c) && (c <=? 57)) || ((65 <=? c) && (c <=? 90)) || ((97 <=? c) && (c <=? 122)) || (c =? 95).

Definition s_uscxml : bytes := [95; 117; 115; 99; 120; 109; 108; 95].          (* _uscxml_ *)
Definition s_sessionid : bytes := [95; 115; 101; 115; 115; 105; 111; 110; 105; 100]. (* _sessionid *)
Definition s_name : bytes := [95; 110; 97; 109; 101].                            (* _name *)
Definition s_ROOT : bytes := [82; 79; 79; 84; 95].                               (* ROOT_ *)
Definition s_INV : bytes := [73; 78; 86; 95].                                    (* INV_ *)
Definition c_us : N := 95.

Fixpoint seq_from (n : nat) (k : nat) : list nat := match k with O => [] | S k' => n :: seq_from (S n) k' end.
Definition indexed {A : Type} (l : list A) : list (nat * A) := combine (seq_from 0 (length l)) l.

(* ------------------------------------------------------------------ the event trie *)

(* Trie with separator ".": every node has the index of its allocation (the k-th `new TrieNode()`), the word that
   ends there, and its children in the order of the std::map<std::string, TrieNode*> (sorted by token) *)
Inductive trie : Type := TNode (id : nat) (word : option bytes) (childs : list (bytes * trie)).

(* Trie::getNextToken: tokens between separators, empty tokens skipped *)
Fixpoint split_dot (s : bytes) (cur : bytes) : list bytes :=
  match s with
  | [] => match cur with [] => [] | _ => [rev cur] end
  | c :: r => if c =? 46 then (match cur with [] => split_dot r [] | _ => rev cur :: split_dot r [] end)
              else split_dot r (c :: cur)
  end.

Fixpoint child_find (tk : bytes) (l : list (bytes * trie)) : option trie :=
  match l with
  | [] => None
  | (k, t) :: r => if beq_bytes k tk then Some t else child_find tk r
  end.
(* insert or replace, keeping the list sorted by token *)
Fixpoint child_put (tk : bytes) (t : trie) (l : list (bytes * trie)) : list (bytes * trie) :=
  match l with
  | [] => [(tk, t)]
  | (k, u) :: r => if beq_bytes k tk then (k, t) :: r
                   else if bytes_ltb tk k then (tk, t) :: l else (k, u) :: child_put tk t r
  end.

(* Trie::addWord along the token list; `next` is the number of nodes allocated so far *)
Fixpoint trie_add_tokens (toks : list bytes) (w : bytes) (t : trie) (next : nat) : trie * nat :=
  match t with
  | TNode id wd ch =>
      match toks with
      | [] => (TNode id (match wd with Some _ => wd | None => Some w end) ch, next)
      | tk :: rest =>
          match child_find tk ch with
          | Some sub => let (sub', n') := trie_add_tokens rest w sub next in (TNode id wd (child_put tk sub' ch), n')
          | None => let (sub', n') := trie_add_tokens rest w (TNode next None []) (S next) in
                    (TNode id wd (child_put tk sub' ch), n')
          end
      end
  end.
Definition trie_add (tn : trie * nat) (w : bytes) : trie * nat :=
  trie_add_tokens (split_dot w []) w (fst tn) (snd tn).
Definition trie_of (words : list bytes) : trie := fst (fold_left trie_add words (TNode 0 None [], 1%nat)).

(* std::list<TrieNode*>::merge as libstdc++ runs it (on whatever order the lists have): compares the pointers *)
Fixpoint ptr_merge (l1 : list (N * bytes)) : list (N * bytes) -> list (N * bytes) :=
  fix inner (l2 : list (N * bytes)) : list (N * bytes) :=
    match l1, l2 with
    | [], _ => l2
    | _, [] => l1
    | x :: r1, y :: r2 => if fst y <? fst x then y :: inner r2 else x :: ptr_merge r1 l2
    end.

(* Trie::getChildsWithWords as written: the node's own word, then the children's lists merged in by address *)
Fixpoint trie_words_ptr (a : nat -> N) (t : trie) : list (N * bytes) :=
  match t with
  | TNode id wd ch =>
      (fix go (l : list (bytes * trie)) (acc : list (N * bytes)) : list (N * bytes) :=
         match l with
         | [] => acc
         | (_, sub) :: r => go r (ptr_merge acc (trie_words_ptr a sub))
         end) ch (match wd with Some w => [(a id, w)] | None => [] end)
  end.
(* ... repaired: appended, i.e. depth first in token order *)
Fixpoint trie_words_doc (t : trie) : list bytes :=
  match t with
  | TNode id wd ch =>
      (fix go (l : list (bytes * trie)) (acc : list bytes) : list bytes :=
         match l with
         | [] => acc
         | (_, sub) :: r => go r (acc ++ trie_words_doc sub)
         end) ch (match wd with Some w => [w] | None => [] end)
  end.

(* the event names in the order getWordsWithPrefix("") lists them; m_events are the words in the order added *)
Definition event_order (v : variant) (e : env) (doc : machine) : list bytes :=
  let t := trie_of (m_events doc) in
  if v_trie_ptr_merge v then map snd (trie_words_ptr (fun k => addr e (KTrieNode, [k])) t) else trie_words_doc t.

(* ------------------------------------------------------------------ the generators *)

Section Generators.
  (* external components *)
  Variable md5 : bytes -> bytes.                         (* 32 upper-case hex digits *)
  Variable macro_name : bytes -> bytes.                  (* PromelaCodeAnalyzer::createMacroName on a fresh analyser *)
  Variable render_c : machine -> list bytes -> bytes.    (* the C text, given the document and the identifier skeleton *)
  Variable render_pml : machine -> list bytes -> list bytes -> list bytes -> bytes.   (* ... literals in emission order, machine blocks in emission order, event words in trie order *)
  Variable render_vhdl : machine -> list bytes -> bytes. (* ... event signal names *)
  Variable compute_tables : bytes -> list (list bool).   (* FastMicroStep::init: completion and target sets of a document *)
  Variable interp : list (list bool) -> bytes -> list bytes -> bytes.   (* the trace, given the tables, the document, the events *)

  (* --- ChartToC *)
  Definition doc_md5 (v : variant) (e : env) (path : list nat) (m : machine) : bytes :=
    if v_c_prefix_ptr v then md5 (print_ptr (addr e (KDoc, path)))
    else md5 (m_text m).
  Definition c_prefix (v : variant) (e : env) (path : list nat) (m : machine) : bytes :=
    s_uscxml ++ firstn 8 (doc_md5 v e path m) ++ [c_us].

  (* _allMachines of the top-most machine: itself and the machines of its own <invoke>s (those of nested machines
     are registered with the nested machine, as findNestedMachines is written) *)
  Definition c_machines (doc : machine) : list (list nat * machine) :=
    ([], doc) :: map (fun km => ([fst km], snd (snd km))) (indexed (m_invokes doc)).

  (* identifier skeleton of the C text: prefix and uuid of every machine, in emission order *)
  Definition c_skeleton (v : variant) (e : env) (doc : machine) : list bytes :=
    flat_map (fun pm => [c_prefix v e (fst pm) (snd pm); doc_md5 v e (fst pm) (snd pm)]) (c_machines doc).

  Definition gen_c (v : variant) (e : env) (doc : machine) (url : bytes) : bytes :=
    render_c doc (c_skeleton v e doc).

  (* --- ChartToPromela *)
  (* id of the k-th invoke: the attribute, or INV_ + the first five characters of a fresh UUID *)
  Definition invoke_id (e : env) (k : nat) (oid : option bytes) : bytes :=
    match oid with Some i => i | None => s_INV ++ firstn 5 (uuid e k) end.

  (* prefix under which the analyser registers "<prefix>_sessionid"/"<prefix>_name" of a nested machine *)
  Definition pml_analysis_prefix (v : variant) (e : env) (k : nat) (oid : option bytes) (m : machine) : bytes :=
    if v_pml_prefix_leak v then [85] ++ firstn 8 (md5 (print_ptr (addr e (KDoc, [k])))) ++ [c_us]   (* "U" + md5.substr(0,8) + "_" *)
    else macro_name (invoke_id e k oid) ++ [c_us].
  (* prefix of the emitted block *)
  Definition pml_block_prefix (e : env) (k : nat) (oid : option bytes) : bytes :=
    macro_name (invoke_id e k oid) ++ [c_us].

  Definition machine_literals (pre : bytes) (m : machine) : list bytes :=
    m_events m ++ m_lits m ++ [pre ++ s_sessionid; pre ++ s_name].

  (* the analyser's literal set after root and nested machines: a std::set<std::string>, emitted in its order *)
  Definition pml_literals (v : variant) (e : env) (doc : machine) : list bytes :=
    set_of (machine_literals s_ROOT doc ++
            flat_map (fun km => let '(k, (oid, m)) := km in machine_literals (pml_analysis_prefix v e k oid m) m)
                     (indexed (m_invokes doc))).

  (* _machinesAll: key <scxml> of the root -> ROOT_, key <invoke> element -> its block; iterated in address order
     (or, repaired, in document order) *)
  Definition pml_blocks (v : variant) (e : env) (doc : machine) : list bytes :=
    let docorder := (addr e (KScxml, []), s_ROOT) ::
                    map (fun km => let '(k, (oid, m)) := km in (addr e (KInvoke, [k]), pml_block_prefix e k oid))
                        (indexed (m_invokes doc)) in
    map snd (if v_pml_ptr_order v then addr_map docorder else docorder).

  Definition gen_pml (v : variant) (e : env) (doc : machine) (url : bytes) : bytes :=
    render_pml doc (pml_literals v e doc) (pml_blocks v e doc) (event_order v e doc).

  (* --- ChartToVHDL *)
  Definition escape_macro (v : variant) (e : env) (s : bytes) : bytes :=
    let keep := filter is_ident_char s in
    let special := filter (fun c => negb (is_ident_char c)) s in
    match special with
    | [] => keep
    | _ => if v_vhdl_std_hash v then keep ++ [c_us] ++ [std_hash e special mod 256]
           else keep ++ [c_us] ++ flat_map (fun c => [hexdigit_lc (c / 16); hexdigit_lc (c mod 16)]) special
    end.
  Definition vhdl_signals (v : variant) (e : env) (doc : machine) : list bytes :=
    map (escape_macro v e) (event_order v e doc).
  Definition gen_vhdl (v : variant) (e : env) (doc : machine) (url : bytes) : bytes :=
    render_vhdl doc (vhdl_signals v e doc).

  (* --- interpretation and the cache directory *)
  (* InterpreterImpl::init: the cache file for the URL, cleared when it names another document *)
  Definition cache_after_init (v : variant) (e : env) (doc : machine) (url : bytes) : cachefile :=
    match cache e (md5 url) with
    | None => mkCache None None
    | Some f =>
        match cf_md5 f with
        | Some h => if v_cache_md5_guard v && negb (beq_bytes h (md5 (m_text doc))) then mkCache None None else f
        | None => f
        end
    end.
  (* FastMicroStep::init: tables from the cache when present and of the right size, else from the document *)
  Definition same_shape (a b : list (list bool)) : bool :=
    Nat.eqb (length a) (length b) && forallb (fun p => Nat.eqb (length (fst p)) (length (snd p))) (combine a b).
  Definition tables_used (v : variant) (e : env) (doc : machine) (url : bytes) : list (list bool) :=
    let own := compute_tables (m_text doc) in
    if v_fast_cache v then
      match cf_tables (cache_after_init v e doc url) with
      | Some t => if same_shape t own then t else own
      | None => own
      end
    else own.
  Definition run_doc (v : variant) (e : env) (doc : machine) (url : bytes) (events : list bytes) : bytes :=
    interp (tables_used v e doc url) (m_text doc) events.
  (* ~InterpreterImpl: what an earlier run of `doc` leaves behind *)
  Definition cache_written (v : variant) (doc : machine) : cachefile :=
    mkCache (Some (md5 (m_text doc))) (if v_fast_cache v then Some (compute_tables (m_text doc)) else None).
End Generators.

Definition with_cache (e : env) (c : bytes -> option cachefile) : env := mkEnv (addr e) (std_hash e) (uuid e) c.
Definition no_cache : bytes -> option cachefile := fun _ => None.
