(* Tables.v -- the structural tables the transpiler back-ends embed (C05).  Model only, no proofs.

   Two definitions of every table over the document trees of Chart.v:

   * [Impl_tables]  what ChartToC::prepare / setStateCompletion / setHistoryCompletion and
                    Predicates.cpp (getTransitionDomain, findLCCA, getProperAncestors, getExitSet) and
                    DOM.cpp (isDescendant, inDocumentOrder, inPostFixOrder, filterChildElements)
                    compute, as written: DOM nodes are the document-order indices of the re-sorted
                    tree, parent pointers are chased (fuel + explicit [OutOfFuel]).
   * [Spec_tables]  the Recommendation's definitions on tree occurrences (paths): document order is
                    the lexicographic order of paths, parent = path without its last step,
                    proper ancestor = proper prefix, LCCA = deepest compound common proper ancestor,
                    exit set = proper states below the transition domain, conflict = exit sets
                    intersect.

   Assumption on the rendering of a tree as XML (tools/chartgen.py to_scxml): the <transition>
   children of a state precede its child states; only elements of kind scxml and initial have no id. *)
From V Require Import Base Chart.
Local Open Scope nat_scope.

(* ------------------------------------------------------------------ results *)

Inductive outcome (A : Type) := Ok (a : A) | OutOfFuel.
Arguments Ok {A} a.
Arguments OutOfFuel {A}.

Record stab := {
  sb_kind : skind;
  sb_sid : N;
  sb_parent : option nat;          (* attribute parent *)
  sb_child : list bool;            (* childBools *)
  sb_anc : list bool;              (* ancBools *)
  sb_compl : list bool;            (* completionBools *)
  sb_hashist : bool                (* attribute hasHistoryChild *)
}.

Record ttab := {
  tb_vid : N;
  tb_doc : nat;                    (* attribute documentOrder of the transition *)
  tb_source : nat;                 (* attribute source: the parent *element* *)
  tb_srcstate : nat;               (* getSourceState *)
  tb_target : option (list bool);  (* targetBools; None = no target attribute *)
  tb_domain : option nat;          (* getTransitionDomain (None = NULL) *)
  tb_exit : list bool;             (* exitSetBools *)
  tb_confl : list bool             (* conflictBools, indexed by postFixOrder *)
}.

Record tables := {
  tbl_states : list stab;          (* index = documentOrder *)
  tbl_trans : list ttab            (* index = postFixOrder *)
}.

(* ------------------------------------------------------------------ the DOM as a node table *)

Definition dummy_tree : tree := TNode KState 0%N None [] [] [] [] [].
Definition ntab := list (tree * option nat).

Definition nd (nodes : ntab) (i : nat) : tree * option nat := nth i nodes (dummy_tree, None).
Definition ntree (nodes : ntab) (i : nat) : tree := fst (nd nodes i).
Definition nkind (nodes : ntab) (i : nat) : skind := t_kind (ntree nodes i).
Definition npar (nodes : ntab) (i : nat) : option nat := snd (nd nodes i).

(* only <scxml> and <initial> are rendered without an id attribute *)
Definition has_id (k : skind) : bool := match k with KScxml | KInitial => false | _ => true end.

(* isState(e, properOnly = true) *)
Definition k_state (k : skind) : bool := is_proper_kind k.
(* tag in {parallel, state, final}: the element set of getExitSet *)
Definition k_exitable (k : skind) : bool := match k with KState | KParallel | KFinal => true | _ => false end.
(* tag in {parallel, state, scxml}: getProperAncestors goes on only through these *)
Definition k_anc_tag (k : skind) : bool := match k with KState | KParallel | KScxml => true | _ => false end.

Definition eqb_opt (a b : option nat) : bool :=
  match a, b with
  | Some x, Some y => x =? y
  | None, None => true
  | _, _ => false
  end.

(* the parent chain of node i, nearest first (DOMNode::getParentNode until the document node) *)
Fixpoint chain (fuel : nat) (nodes : ntab) (i : nat) : option (list nat) :=
  match fuel with
  | O => None
  | S f => match npar nodes i with
           | None => Some []
           | Some p => match chain f nodes p with
                       | Some l => Some (p :: l)
                       | None => None
                       end
           end
  end.

Fixpoint all_some {A} (l : list (option A)) : option (list A) :=
  match l with
  | [] => Some []
  | Some x :: r => match all_some r with Some r' => Some (x :: r') | None => None end
  | None :: _ => None
  end.

Definition chains_of (nodes : ntab) : option (list (list nat)) :=
  all_some (map (chain (length nodes) nodes) (seq 0 (length nodes))).

Section WithChains.
Variable nodes : ntab.
Variable chains : list (list nat).

Definition nchain (i : nat) : list nat := nth i chains [].

(* DOMUtils::isDescendant(a, b): b is met on the parent chain of a *)
Definition is_desc (a b : nat) : bool := mem b (nchain a).

Definition nnodes := length nodes.
Definition idx := seq 0 nnodes.

(* getChildStates(state, properOnly = true) as indices *)
Definition child_states (i : nat) : list nat :=
  filter (fun j => eqb_opt (npar nodes j) (Some i) && k_state (nkind nodes j)) idx.

Definition is_parallel (i : nat) : bool := match nkind nodes i with KParallel => true | _ => false end.
Definition is_history (i : nat) : bool := is_hist_kind (nkind nodes i).
Definition is_deep (i : nat) : bool := match nkind nodes i with KHistDeep => true | _ => false end.

(* isCompound: a state, not <parallel>, with at least one proper child state *)
Definition is_compound (i : nat) : bool :=
  k_state (nkind nodes i) && negb (is_parallel i) &&
  match child_states i with [] => false | _ => true end.

(* getState(id, root): the element with that id (document order; ids are unique in a well-formed
   document, the implementation searches breadth first) *)
Definition get_state (id : N) : option nat :=
  find (fun j => has_id (nkind nodes j) && (t_sid (ntree nodes j) =? id)%N) idx.

Definition bools_of (l : list nat) : list bool := map (fun j => mem j l) idx.

(* --- prepare: per state ------------------------------------------------------------------ *)

Definition impl_child (i : nat) : list bool :=
  map (fun j => eqb_opt (npar nodes j) (Some i)) idx.

Definition impl_anc (i : nat) : list bool :=
  map (fun j => is_desc i j) idx.

Definition impl_hashist_prepare (i : nat) : bool :=
  existsb (fun j => eqb_opt (npar nodes j) (Some i) && is_history j) idx.

(* setStateCompletion, for a state that is no <history> *)
Definition impl_completion_state (i : nat) : list nat :=
  let t := ntree nodes i in
  if is_parallel i then child_states i
  else match t_initattr t with
       | Some ids => filter_map get_state ids                       (* getStates(tokenize(initial)) *)
       | None =>
         match filter (fun j => eqb_opt (npar nodes j) (Some i) &&
                                match nkind nodes j with KInitial => true | _ => false end) idx with
         | ini :: _ => [ini]                                          (* first <initial> child element *)
         | [] => match child_states i with                            (* first child that isState() *)
                 | c :: _ => [c]
                 | [] => []
                 end
         end
       end.

(* setHistoryCompletion: the loop over the <history> elements in post-fix order, carrying
   (parent, covered, perParentcovered); result: per history its completion list and whether
   hasHistoryChild was set on it *)
(* defect switch: the `covered' bookkeeping of setHistoryCompletion (pinned code: on) *)
Record tv_variant := { tv_history_covered : bool }.
Definition tv_pinned : tv_variant := {| tv_history_covered := true |}.
Definition tv_fixed : tv_variant := {| tv_history_covered := false |}.

Record hstate := {
  hs_parent : option nat;
  hs_covered : list nat;
  hs_perparent : list nat;
  hs_out : list (nat * list nat * bool)
}.

Definition hist_step (v : tv_variant) (s : hstate) (h : nat) : hstate :=
  let p := npar nodes h in
  let '(covered, perparent) :=
    if eqb_opt (hs_parent s) p then (hs_covered s, hs_perparent s)
    else (hs_covered s ++ hs_perparent s, []) in
  let under_parent (x : nat) : bool :=
    match p with Some pp => is_desc x pp | None => false end in
  let flag := existsb (fun x => negb (x =? h) && under_parent x && is_history x) idx in
  let completion :=
    filter (fun x =>
              negb (x =? h) && negb (tv_history_covered v && mem x covered) &&
              (if is_deep h then under_parent x && negb (is_history x)
               else eqb_opt (npar nodes x) p && negb (is_history x))) idx in
  {| hs_parent := p; hs_covered := covered; hs_perparent := perparent ++ completion;
     hs_out := hs_out s ++ [(h, completion, flag)] |}.

Definition histories_postfix (root : tree) : list nat :=
  filter is_history (postfix_states root 0).

Definition impl_hist_results (v : tv_variant) (root : tree) : list (nat * list nat * bool) :=
  hs_out (fold_left (hist_step v) (histories_postfix root)
                    {| hs_parent := None; hs_covered := []; hs_perparent := []; hs_out := [] |}).

Definition hist_result (res : list (nat * list nat * bool)) (h : nat) : list nat * bool :=
  match find (fun r => fst (fst r) =? h) res with
  | Some r => (snd (fst r), snd r)
  | None => ([], false)
  end.

Definition impl_stab (res : list (nat * list nat * bool)) (i : nat) : stab :=
  let t := ntree nodes i in
  {| sb_kind := t_kind t;
     sb_sid := t_sid t;
     sb_parent := npar nodes i;
     sb_child := impl_child i;
     sb_anc := impl_anc i;
     sb_compl := bools_of (if is_history i then fst (hist_result res i) else impl_completion_state i);
     sb_hashist := impl_hashist_prepare i || (is_history i && snd (hist_result res i)) |}.

(* --- prepare: per transition ------------------------------------------------------------- *)

(* getSourceState *)
Definition source_state (elem : nat) : nat :=
  match nkind nodes elem with
  | KInitial => match npar nodes elem with Some p => p | None => elem end
  | _ => elem
  end.

(* getTargetStates *)
Definition target_states (t : ttrans) : list nat :=
  match tt_targets t with Some ids => filter_map get_state ids | None => [] end.

(* getProperAncestors(s, NULL) *)
Fixpoint take_while {A} (f : A -> bool) (l : list A) : list A :=
  match l with [] => [] | x :: r => if f x then x :: take_while f r else [] end.
Definition proper_ancestors (s : nat) : list nat :=
  take_while (fun a => k_state (nkind nodes a) && k_anc_tag (nkind nodes a)) (nchain s).

(* findLCCA *)
Definition find_lcca (states : list nat) : option nat :=
  match states with
  | [] => None
  | front :: _ =>
    let ancs := proper_ancestors front in
    match find (fun a => is_compound a && forallb (fun s => is_desc s a) states) ancs with
    | Some a => Some a
    | None => match ancs with [] => None | _ => Some (last ancs 0) end
    end
  end.

(* getTransitionDomain *)
Definition impl_domain (elem : nat) (t : ttrans) : option nat :=
  match target_states t with
  | [] => None
  | ts =>
    let source := source_state elem in
    if tt_internal t && is_compound source && forallb (fun x => is_desc x source) ts
    then Some source
    else find_lcca (source :: ts)
  end.

(* DOMUtils::inDocumentOrder(tags, node d) as indices: the sub-tree stored at node d, numbered from d *)
Definition subtree_indices (d : nat) : list (skind * nat) :=
  let sub := ntree nodes d in
  combine (map (fun p => t_kind (fst p)) (doc_nodes sub d None)) (seq d (tsize sub)).

(* getExitSet *)
Definition impl_exit_list (elem : nat) (t : ttrans) : list nat :=
  match tt_targets t with
  | None => []
  | Some _ =>
    match impl_domain elem t with
    | None => []
    | Some d =>
      let l := map snd (filter (fun p => k_exitable (fst p)) (subtree_indices d)) in
      match l with
      | x :: r => if x =? d then r else l
      | [] => []
      end
    end
  end.

Definition impl_target_bools (t : ttrans) : option (list bool) :=
  match tt_targets t with
  | None => None
  | Some ids =>
    Some (map (fun j => has_id (nkind nodes j) &&
                        existsb (fun id => (t_sid (ntree nodes j) =? id)%N) ids) idx)
  end.

End WithChains.

(* transitions in document order, as (element index, position among the element's transitions):
   in the re-sorted DOM the pseudo-state children precede a state's own <transition> elements, the
   proper children follow them *)
Fixpoint trans_docorder (t : tree) (self : nat) : list (nat * nat) :=
  let own := map (fun k => (self, k)) (seq 0 (length (t_trans t))) in
  (fix go (l : list tree) (next : nat) (pseudo : bool) : list (nat * nat) :=
     match l with
     | [] => []
     | x :: r =>
       (if Bool.eqb (is_pseudo_kind (t_kind x)) pseudo then trans_docorder x next else [])
         ++ go r (next + tsize x) pseudo
     end) (t_kids t) (S self) true
  ++ own ++
  (fix go (l : list tree) (next : nat) (pseudo : bool) : list (nat * nat) :=
     match l with
     | [] => []
     | x :: r =>
       (if Bool.eqb (is_pseudo_kind (t_kind x)) pseudo then trans_docorder x next else [])
         ++ go r (next + tsize x) pseudo
     end) (t_kids t) (S self) false.

Fixpoint index_of2 (x : nat * nat) (l : list (nat * nat)) (k : nat) : nat :=
  match l with
  | [] => k
  | y :: r => if (fst x =? fst y) && (snd x =? snd y) then k else index_of2 x r (S k)
  end.

(* the transitions in post-fix order with their position among the source element's transitions *)
Definition postfix_trans (nodes : ntab) (root : tree) : list (nat * nat * ttrans) :=
  flat_map (fun i => let tl := t_trans (fst (nth i nodes (root, None))) in
                     map (fun p => (i, fst p, snd p)) (combine (seq 0 (length tl)) tl))
           (postfix_states root 0).

Definition Impl_tables (v : tv_variant) (t0 : tree) : outcome tables :=
  let root := resort t0 in
  let nodes := doc_nodes root 0 None in
  match chains_of nodes with
  | None => OutOfFuel
  | Some chains =>
    let hres := impl_hist_results nodes chains v root in
    let trs := postfix_trans nodes root in
    let docs := trans_docorder root 0 in
    let exits := map (fun x => impl_exit_list nodes chains (fst (fst x)) (snd x)) trs in
    let srcs := map (fun x => source_state nodes (fst (fst x))) trs in
    Ok {| tbl_states := map (impl_stab nodes chains hres) (seq 0 (length nodes));
          tbl_trans :=
            map (fun y =>
                   let '(x, ex, src) := y in
                   let elem := fst (fst x) in
                   let t := snd x in
                   {| tb_vid := tt_vid t;
                      tb_doc := index_of2 (elem, snd (fst x)) docs 0;
                      tb_source := elem;
                      tb_srcstate := src;
                      tb_target := impl_target_bools nodes t;
                      tb_domain := impl_domain nodes chains elem t;
                      tb_exit := bools_of nodes ex;
                      tb_confl :=
                        map (fun z => intersects ex (fst z) ||
                                      (src =? snd z) ||
                                      is_desc chains src (snd z) ||
                                      is_desc chains (snd z) src)
                            (combine exits srcs) |})
                (combine (combine trs exits) srcs) |}
  end.

(* ------------------------------------------------------------------ the specification *)

Notation path := (list nat) (only parsing).

(* occurrences in document order = lexicographic order of paths *)
Fixpoint paths (t : tree) : list path :=
  [] :: (fix go (l : list tree) (k : nat) : list path :=
           match l with
           | [] => []
           | x :: r => map (cons k) (paths x) ++ go r (S k)
           end) (t_kids t) 0.

(* occurrences in post-fix order *)
Fixpoint paths_post (t : tree) : list path :=
  (fix go (l : list tree) (k : nat) : list path :=
     match l with
     | [] => []
     | x :: r => map (cons k) (paths_post x) ++ go r (S k)
     end) (t_kids t) 0 ++ [[]].

Fixpoint sub (t : tree) (p : path) : option tree :=
  match p with
  | [] => Some t
  | k :: r => match nth_error (t_kids t) k with Some c => sub c r | None => None end
  end.

Fixpoint path_eqb (a b : path) : bool :=
  match a, b with
  | [], [] => true
  | x :: a', y :: b' => (x =? y) && path_eqb a' b'
  | _, _ => false
  end.

(* a is a proper prefix of b *)
Fixpoint proper_prefix (a b : path) : bool :=
  match a, b with
  | [], _ :: _ => true
  | x :: a', y :: b' => (x =? y) && proper_prefix a' b'
  | _, _ => false
  end.

Fixpoint path_index (p : path) (l : list path) (k : nat) : option nat :=
  match l with
  | [] => None
  | q :: r => if path_eqb p q then Some k else path_index p r (S k)
  end.

Section Spec.
Variable root : tree.

Definition sP : list path := paths root.
Definition sn : nat := length sP.
Definition sidx : list nat := seq 0 sn.
Definition pth (i : nat) : path := nth i sP [].
Definition snode (i : nat) : tree := match sub root (pth i) with Some t => t | None => dummy_tree end.
Definition skind_of (i : nat) : skind := t_kind (snode i).

Definition spec_parent (i : nat) : option nat :=
  match pth i with
  | [] => None
  | p => path_index (removelast p) sP 0
  end.

(* a is a proper ancestor of b *)
Definition spec_is_anc (a b : nat) : bool := proper_prefix (pth a) (pth b).
Definition spec_is_child (p c : nat) : bool := eqb_opt (spec_parent c) (Some p).
Definition spec_proper (i : nat) : bool := is_proper_kind (skind_of i).

Definition set_bools (f : nat -> bool) : list bool := map f sidx.

Definition spec_id_state (id : N) : option nat :=
  find (fun j => has_id (skind_of j) && (t_sid (snode j) =? id)%N) sidx.

Definition spec_children (i : nat) : list nat := filter (spec_is_child i) sidx.
Definition spec_proper_children (i : nat) : list nat := filter spec_proper (spec_children i).

Definition spec_compound (i : nat) : bool :=
  match skind_of i with
  | KScxml | KState => match spec_proper_children i with [] => false | _ => true end
  | _ => false
  end.

(* default completion; a compound state with an <initial> child is completed by that element
   (the tables' encoding of "take the <initial> transition"), see [spec_initial_states] *)
Definition spec_completion (i : nat) : list nat :=
  match skind_of i with
  | KParallel => spec_proper_children i
  | KHistShallow =>
      match spec_parent i with
      | Some p => spec_proper_children p
      | None => []
      end
  | KHistDeep =>
      match spec_parent i with
      | Some p => filter (fun j => spec_is_anc p j && spec_proper j) sidx
      | None => []
      end
  | _ =>
      match t_initattr (snode i) with
      | Some ids => filter (fun j => has_id (skind_of j) &&
                                     existsb (fun id => (t_sid (snode j) =? id)%N) ids) sidx
      | None =>
        match filter (fun j => match skind_of j with KInitial => true | _ => false end) (spec_children i) with
        | ini :: _ => [ini]
        | [] => match spec_proper_children i with c :: _ => [c] | [] => [] end
        end
      end
  end.

Definition spec_hashist (i : nat) : bool :=
  existsb (fun j => is_hist_kind (skind_of j)) (spec_children i).

Definition spec_stab (i : nat) : stab :=
  {| sb_kind := skind_of i;
     sb_sid := t_sid (snode i);
     sb_parent := spec_parent i;
     sb_child := set_bools (spec_is_child i);
     sb_anc := set_bools (fun j => spec_is_anc j i);
     sb_compl := set_bools (fun j => mem j (spec_completion i));
     sb_hashist := spec_hashist i |}.

(* transitions: source element e, source state (the parent of an <initial>) *)
Definition spec_source_state (e : nat) : nat :=
  match skind_of e with
  | KInitial => match spec_parent e with Some p => p | None => e end
  | _ => e
  end.

Definition spec_targets (t : ttrans) : list nat :=
  match tt_targets t with
  | Some ids => filter (fun j => has_id (skind_of j) && existsb (fun id => (t_sid (snode j) =? id)%N) ids) sidx
  | None => []
  end.

(* the LCCA of a non-empty state list: the compound state or <scxml> element that is a proper
   ancestor of all of them and has no descendant with that property, i.e. the last such element in
   document order *)
Definition spec_compound_or_scxml (c : nat) : bool :=
  spec_compound c || match skind_of c with KScxml => true | _ => false end.

Definition spec_lcca (states : list nat) : option nat :=
  match rev (filter (fun c => spec_compound_or_scxml c && forallb (fun s => spec_is_anc c s) states) sidx) with
  | c :: _ => Some c
  | [] => None
  end.

Definition spec_domain (e : nat) (t : ttrans) : option nat :=
  match spec_targets t with
  | [] => None
  | ts =>
    let s := spec_source_state e in
    if tt_internal t && spec_compound s && forallb (fun x => spec_is_anc s x) ts then Some s
    else spec_lcca (s :: ts)
  end.

Definition spec_exit (e : nat) (t : ttrans) : list nat :=
  match spec_domain e t with
  | None => []
  | Some d => filter (fun j => spec_is_anc d j && spec_proper j) sidx
  end.

(* transitions in post-fix order of their source elements *)
Definition spec_postfix_trans : list (nat * nat * ttrans) :=
  flat_map (fun p => match path_index p sP 0 with
                     | Some i => let tl := t_trans (snode i) in
                                 map (fun q => (i, fst q, snd q)) (combine (seq 0 (length tl)) tl)
                     | None => []
                     end) (paths_post root).

(* the Recommendation's initial states of a compound state *)
Definition spec_initial_states (i : nat) : list nat :=
  match t_initattr (snode i) with
  | Some ids => filter (fun j => has_id (skind_of j) && existsb (fun id => (t_sid (snode j) =? id)%N) ids) sidx
  | None =>
    match filter (fun j => match skind_of j with KInitial => true | _ => false end) (spec_children i) with
    | ini :: _ => match t_trans (snode ini) with t :: _ => spec_targets t | [] => [] end
    | [] => match spec_proper_children i with c :: _ => [c] | [] => [] end
    end
  end.

(* well-formedness of a (re-sorted) document tree, as far as the tables depend on it:
   <final>, <history>, <initial> have no child states; ids are unique; the root, and only the root,
   is the <scxml> element *)
Definition wf_leaves : bool :=
  forallb (fun i => match skind_of i with
                    | KFinal | KHistShallow | KHistDeep | KInitial =>
                        match spec_children i with [] => true | _ => false end
                    | _ => true
                    end) sidx.

Definition wf_unique_ids : bool :=
  forallb (fun i => forallb (fun j => negb (has_id (skind_of i) && has_id (skind_of j) &&
                                             (t_sid (snode i) =? t_sid (snode j))%N) || (i =? j)) sidx) sidx.

Definition wf_root : bool :=
  forallb (fun i => Bool.eqb (match skind_of i with KScxml => true | _ => false end) (i =? 0)) sidx.

Definition wf_doc : bool := wf_leaves && wf_unique_ids && wf_root.

End Spec.

(* document order of the transition elements: pre-order, a state's own transitions before its
   proper children, after its pseudo-state children (these were moved in front by the re-sorting) *)
Definition Spec_tables_of (root : tree) : tables :=
  let trs := spec_postfix_trans root in
  let docs := trans_docorder root 0 in
  let exits := map (fun x => spec_exit root (fst (fst x)) (snd x)) trs in
  {| tbl_states := map (spec_stab root) (sidx root);
     tbl_trans :=
       map (fun y =>
              let '(x, ex) := y in
              let e := fst (fst x) in
              let t := snd x in
              {| tb_vid := tt_vid t;
                 tb_doc := index_of2 (e, snd (fst x)) docs 0;
                 tb_source := e;
                 tb_srcstate := spec_source_state root e;
                 tb_target := match tt_targets t with
                              | Some _ => Some (set_bools root (fun j => mem j (spec_targets root t)))
                              | None => None
                              end;
                 tb_domain := spec_domain root e t;
                 tb_exit := set_bools root (fun j => mem j ex);
                 tb_confl := map (fun ex2 => intersects ex ex2) exits |})
           (combine trs exits) |}.

(* the Recommendation is about the document as written; the back-ends number the re-sorted
   document.  [Spec_tables] is stated on the tree the back-ends number. *)
Definition Spec_tables (t0 : tree) : tables := Spec_tables_of (resort t0).
