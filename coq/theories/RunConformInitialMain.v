(* RunConformInitialMain.v -- C01 on charts with <initial> elements and deep / multiple initial attributes: the
   theorems for the charts LargeMicroStep::init builds, stated on boolean hypotheses only (what
   props/Properties_C01.v quotes).  Proofs only. *)
From V Require Import Base NameMatch NameMatchLemmas Chart Exec Large LargeLemmas Spec Legal SetLemmas LegalAbstract LegalLarge
  Interp LegalRun WfCore LegalOracle LargeCacheLemmas ExitSetLemmas SelectConform SelectConformLemmas SelectConformOrder
  SelectConformRoot SelectConformFlatten MicroConform MicroConformLemmas MicroConformEntry MicroConformCompose MicroConformFlatten
  Serialize SerializeCongLemmas RunConformBase RunConformTok RunConformMicro RunConformInit RunConformStep RunConformLoop
  LegalHistBase LegalHistEntry LegalHistStep LegalHistRun LegalHistWf LegalHistOracle
  RunConformInitialBase RunConformInitialWf RunConformInitialFlags RunConformInitialSel RunConformInitialFlat RunConformInitialInit
  RunConformInitialStep RunConformInitialLoop.
Local Open Scope nat_scope.

(* a recorded history without pseudo-states is well-formed when the chart has no history state *)
Lemma HistOK_nohist c hist : (forall i, histS c i = false) -> (forall x, In x hist -> pseudoS c x = false) -> HistOK c hist.
Proof.
  intros Hnh Hp. split; [exact Hp|]. intros h q Hh. rewrite (Hnh h) in Hh. discriminate.
Qed.

Section Main.
Variable late : bool.
Variable t0 : tree.
Notation c := (flatten late t0).

Theorem entry_set_conforms_initial_main cfg sel h hist :
  micro_static_ib c = true -> legal_configb c cfg = true -> (forall x, In x hist -> pseudoS c x = false) ->
  (forall ti, In ti sel -> In (ft_source (tr c ti)) cfg) -> pairwise_ok lg_fixed c sel ->
  let e := compute_entry_set c h sel in
  let r := entry_set lg_fixed c cfg (sel_exitset c cfg sel) hist (sel_targets c sel) sel in
  e_histcontent e = [] /\
  (forall x, In x (e_enter e) <-> In x (fst r) /\ pseudoS c x = false /\ ~ (In x cfg /\ ~ In x (sel_exitset c cfg sel))) /\
  (forall i x ti, In i (e_enter e) -> fs_parent (st c x) = Some i -> pseudoS c x = true -> In ti (fs_trans (st c x)) ->
     (In ti (snd r) <-> In i (e_default e) /\ fs_completion (st c i) = [x])) /\
  (forall i, In i (e_default e) <-> In i (e_enter e) /\ In i (e_default e)).
Proof.
  intros Hms Hleg Hh Hsrc Hok. pose proof (micro_static_sound late t0 Hms) as HS.
  exact (entry_set_conforms_initial_lemma late t0 HS cfg sel h hist Hleg (HistOK_nohist c hist (ms_nh c HS) Hh) Hsrc Hok).
Qed.

Theorem microstep_conforms_initial_main sel l s x :
  micro_static_ib c = true -> legal_configb c (l_cfg l) = true -> (forall y, In y (l_hist l) -> pseudoS c y = false) -> corr c l s ->
  (forall ti, In ti sel -> In (ft_source (tr c ti)) (l_cfg l)) ->
  pairwise_ok lg_fixed c sel ->
  (forall ti, In ti sel -> ft_history (tr c ti) || ft_initial (tr c ti) = false) ->
  let r := microstep lg_fixed ex_fixed c l (emit TMsB x) (sel_targets c sel) (sel_exitset c (l_cfg l) sel) sel false in
  let q := spec_microstep c sel s x in
  corr c (fst r) (fst q) /\ snd q = emit (spec_cfg_tok c (fst q)) (snd r) /\ s_hv (fst q) = s_hv s.
Proof.
  intros Hms Hleg Hh. pose proof (micro_static_sound late t0 Hms) as HS.
  exact (microstep_conforms_initial_lemma late t0 HS sel l s x Hleg (HistOK_nohist c _ (ms_nh c HS) Hh)).
Qed.

Theorem microstep_selected_conforms_initial_main l s ev x0 x :
  micro_static_ib c = true -> legal_configb c (l_cfg l) = true -> (forall y, In y (l_hist l) -> pseudoS c y = false) -> corr c l s ->
  let sel := fst (select_loop lg_fixed c (l_cfg l) ev (cfg_postfix c (l_cfg l)) None [] x0) in
  let r := microstep lg_fixed ex_fixed c l (emit TMsB x) (sel_targets c sel) (sel_exitset c (l_cfg l) sel) sel false in
  let q := spec_microstep c sel s x in
  corr c (fst r) (fst q) /\ snd q = emit (spec_cfg_tok c (fst q)) (snd r) /\ s_hv (fst q) = s_hv s.
Proof.
  intros Hms Hleg Hh. pose proof (micro_static_sound late t0 Hms) as HS.
  exact (microstep_selected_conforms_initial_lemma late t0 HS l s ev x0 x Hleg (HistOK_nohist c _ (ms_nh c HS) Hh)).
Qed.

Theorem step_conforms_initial_main l s ev x :
  micro_static_ib c = true -> root_unmentionedb c = true ->
  legal_configb c (l_cfg l) = true -> ascb (l_cfg l) = true -> (forall y, In y (l_hist l) -> pseudoS c y = false) -> corr c l s ->
  unrelated_enabledb c (l_cfg l) ev x = true -> conds_pureb c (l_cfg l) x = true -> descs_okb c (l_cfg l) ev = true ->
  let r := select_and_step lg_fixed ex_fixed c l x ev in
  let en := fst (select_transitions c (s_cfg s) (s_hv s) ev x) in
  snd (select_transitions c (s_cfg s) (s_hv s) ev x) = x /\
  match en with
  | [] => l_cfg (fst (fst r)) = l_cfg l /\ snd (fst r) = x
  | _ => let q := spec_microstep c en s x in
         corr c (fst (fst r)) (fst q) /\ snd q = emit (spec_cfg_tok c (fst q)) (snd (fst r)) /\ s_hv (fst q) = s_hv s
  end.
Proof.
  intros Hms Hun Hleg Hasc Hh. pose proof (micro_static_sound late t0 Hms) as HS.
  exact (step_conforms_initial_lemma late t0 HS l s ev x Hun Hleg Hasc (HistOK_nohist c _ (ms_nh c HS) Hh)).
Qed.

Theorem initial_step_conforms_initial_main l xl xs :
  static_ib c = true ->
  is_pristine l = true -> l_cfg l = [] -> l_initd l = [] -> (forall y, In y (l_hist l) -> pseudoS c y = false) -> same_dyn xl xs ->
  let rl := large_step lg_fixed ex_fixed c l xl in
  let q := spec_init c xs in
  snd rl = RC_MICROSTEPPED /\
  corr c (fst (fst rl)) (fst q) /\ s_hv (fst q) = [] /\ same_dyn (snd (fst rl)) (snd q) /\
  legal_configb c (l_cfg (fst (fst rl))) = true /\
  exists d dg,
    x_out (snd (fst rl)) = TMsE :: d ++ TEe (fs_sid (st c 0)) :: TEb (fs_sid (st c 0)) :: TMsB :: x_out xl /\
    x_out (snd q) = spec_cfg_tok c (fst q) :: TMsE :: d ++ TDiag dg :: TMsB :: x_out xs.
Proof.
  intros Hst Hp Hc0 Hi0 Hh Hdyn. destruct (static_i_parts late t0 Hst) as (HS & _).
  exact (initial_step_conforms_initial_lemma late t0 l xl xs Hst Hp Hc0 Hi0 (HistOK_nohist c _ (ms_nh c HS) Hh) Hdyn).
Qed.

End Main.
