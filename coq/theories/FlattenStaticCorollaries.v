(* FlattenStaticCorollaries.v -- the theorems of C18 (VhdlDocLarge.v) and C04 (CGenEquivMain.v) that carry the
   per-chart hypothesis trans_tableb, restated for the charts Chart.flatten builds WITHOUT it
   (FlattenStaticTrans.flatten_trans_table), and at document level where the other static hypotheses follow from
   tree predicates (FlattenStaticMain.v).  Proofs only. *)
From V Require Import Base NameMatch Chart Exec Large LargeLemmas Fast Interp Legal LegalRun WfCore LegalOracle
     SelectConform MicroConform EngineEquivDone EngineEquivStep EngineEquivSelect EngineEquivRun EngineEquivMain
     Vhdl FlattenWf FlattenWfLemmas FlattenWfSideLemmas VhdlDoc VhdlDocFlat VhdlDocLemmas VhdlDocEngine VhdlDocLarge
     CGen CGenLemmas CGenEquivContent CGenEquivRun CGenEquivMain
     FlattenStaticTree FlattenStaticTrans FlattenStaticMain.
Local Open Scope nat_scope.

(* ------------------------------------------------------------------ freezing the conditions keeps the table *)

Lemma frozen_trans_table val c : trans_tableb (set_conds val c) = trans_tableb c.
Proof.
  unfold trans_tableb. rewrite frozen_ntrans. f_equal.
  - apply VhdlLemmas.forallb_ext_in. intros s _. f_equal. apply filter_ext. intros ti. now rewrite frozen_tr.
  - apply VhdlLemmas.forallb_ext_in. intros ti _. apply VhdlLemmas.forallb_ext_in. intros tj _. now rewrite !frozen_tr.
Qed.

(* ------------------------------------------------------------------ C18 *)

Theorem document_reference_step_is_default_engine_partial_lemma : forall xv late t l x ev,
  let c := flatten late t in
  vh_wfb c = true -> wf_coreb c = true -> par_nonemptyb c = true ->
  legal_configb c (l_cfg l) = true -> ascb (l_cfg l) = true ->
  sas_guardb c l x ev = true ->
  next_config c (l_cfg l) (option_map ev_name ev) (val_of c (l_cfg l) (x_store x)) =
  l_cfg (fst (fst (select_and_step lg_fixed xv c l x ev))).
Proof.
  intros xv late t l x ev c Hv Hc Hp. apply reference_step_is_default_engine_partial_lemma; try assumption.
  apply flatten_trans_table.
Qed.

Theorem document_reference_step_is_default_engine_inputs_partial_lemma : forall xv late t val l x ev,
  let c := flatten late t in
  let c' := set_conds val c in
  vh_wfb c = true -> wf_coreb c' = true -> par_nonemptyb c' = true ->
  legal_configb c (l_cfg l) = true -> ascb (l_cfg l) = true ->
  sas_guardb c' l x ev = true ->
  next_config c (l_cfg l) (option_map ev_name ev) val =
  l_cfg (fst (fst (select_and_step lg_fixed xv c' l x ev))).
Proof.
  intros xv late t val l x ev c c' Hv Hc Hp. apply reference_step_is_default_engine_inputs_partial_lemma; try assumption.
  fold c c'. unfold c'. rewrite frozen_trans_table. apply flatten_trans_table.
Qed.

(* for documents: every static guard follows from the document predicates *)
Theorem document_vhdl_is_default_engine_static_free_partial_lemma : forall xv t l x ev,
  let c := flatten false t in
  vh_tree_runb t = true -> ct_par_nonemptyb t = true ->
  legal_configb c (l_cfg l) = true -> ascb (l_cfg l) = true ->
  vh_running c (l_cfg l) = true -> vh_event_ok c (option_map ev_name ev) = true ->
  sas_guardb c l x ev = true ->
  eval_eqs c (gen_eqs vh_fixed c) (l_cfg l) (option_map ev_name ev) (val_of c (l_cfg l) (x_store x)) =
  Some (l_cfg (fst (fst (select_and_step lg_fixed xv c l x ev)))).
Proof.
  intros xv t l x ev c Ht Hp. apply document_step_is_default_engine_partial_lemma; try assumption.
  apply flatten_trans_table.
Qed.

(* ------------------------------------------------------------------ C04 *)

Theorem document_cstep_run_equals_default_engine_partial_lemma cv xv late t :
  let c := flatten late t in
  cg_tlf_first_byte cv = false -> eq_tree_coreb t = true -> chart_c c = true ->
  forall evs, Forall (fun e => e <> []) evs ->
  (forall m, eq_guard_run xv c m l_pristine x_init evs = true) ->
  forall n, exists m,
    let rc := crun_loop cv c n l_pristine cx_init evs in
    let rl := run_loop c lstate (large_step lg_fixed xv c) l_cfg m l_pristine x_init evs in
    same_machine_state (fst rc) (fst rl) /\ same_queues_and_events (snd rc) (snd rl).
Proof.
  intros c Ht He Hc. apply cstep_run_equals_default_engine_partial_lemma; try assumption. now apply eq_tree_core_chart.
Qed.

Theorem document_cstep_run_equals_default_engine_pointwise_lemma cv xv late t :
  let c := flatten late t in
  cg_tlf_first_byte cv = false -> eq_tree_coreb t = true -> chart_c c = true ->
  forall evs, Forall (fun e => e <> []) evs ->
  forall n, exists m,
    eq_guard_run xv c m l_pristine x_init evs = true ->
    let rc := crun_loop cv c n l_pristine cx_init evs in
    let rl := run_loop c lstate (large_step lg_fixed xv c) l_cfg m l_pristine x_init evs in
    same_machine_state (fst rc) (fst rl) /\ same_queues_and_events (snd rc) (snd rl).
Proof.
  intros c Ht He Hc. apply cstep_run_equals_default_engine_pointwise_lemma; try assumption. now apply eq_tree_core_chart.
Qed.

(* the same with the table-level hypotheses of eq_chartb minus trans_tableb *)
Theorem flatten_cstep_run_equals_default_engine_partial_lemma cv xv late t :
  let c := flatten late t in
  cg_tlf_first_byte cv = false ->
  wf_coreb c = true -> fs_type (st c 0) = FCompound -> leaf_okb c = true -> par_nonemptyb c = true -> chart_c c = true ->
  forall evs, Forall (fun e => e <> []) evs ->
  (forall m, eq_guard_run xv c m l_pristine x_init evs = true) ->
  forall n, exists m,
    let rc := crun_loop cv c n l_pristine cx_init evs in
    let rl := run_loop c lstate (large_step lg_fixed xv c) l_cfg m l_pristine x_init evs in
    same_machine_state (fst rc) (fst rl) /\ same_queues_and_events (snd rc) (snd rl).
Proof.
  intros c Ht W R L P Hc. apply cstep_run_equals_default_engine_partial_lemma; try assumption.
  unfold eq_chartb. fold c. rewrite W, R, L, P. unfold c. rewrite flatten_trans_table. reflexivity.
Qed.
