(* CGenRefineRun.v -- C04, data refinement, layer 5: whole runs of the harness around uscxml_step().
   run_refines: for a flat chart with fewer than 2^24 states and transitions that passes [bref_chartb], the byte-level
   run (CGen.brun_loop: the emitted tables, byte arrays, the harness' callbacks, the six local arrays refilled with 0xAA
   before every call, fuel 2 + queue lengths for the DEQUEUE_EVENT loop) ends with BEnd -- never BOob, BDiverge, BFuel --
   and prints exactly the trace of the set-level run (CGen.crun_loop): the same events dequeued, raised and sent, the same
   done events, the same result code, configuration and history after every call.
   Proofs only. *)
From V Require Import Base NameMatch Chart Exec Large Fast GenCGen CGen CGenLemmas SetLemmas SerializeCodecLemmas TraceLemmas
                      CGenEquivContent CGenRefineBits CGenRefineTables CGenRefineSelect CGenRefineEntry CGenRefineMicro CGenRefineInv
                      CGenRefineStep.
From Coq Require Import Lia Sorted ZifyBool.
Local Open Scope nat_scope.

Lemma tbit_repeat0 n j : tbit (repeat 0%N n) j = false.
Proof.
  unfold tbit. destruct (Nat.lt_ge_cases (j / 8) n) as [L|G].
  - assert (E : nth (j / 8) (repeat 0%N n) 0%N = 0%N).
    { apply nth_repeat. }
    rewrite E. apply N.bits_0.
  - rewrite nth_overflow by (rewrite repeat_length; exact G). apply N.bits_0.
Qed.

Lemma rep_zero W n : rep W (repeat 0%N n) [].
Proof. apply rep_intro; [constructor|]. intros j. rewrite tbit_repeat0, andb_false_r. reflexivity. Qed.

Lemma get_firstn_app m k a rest : a < k -> k <= length m -> get (firstn k m ++ rest) a = get m a.
Proof.
  intros Ha Hk. unfold get. rewrite app_nth1 by (rewrite firstn_length; lia).
  rewrite <- (firstn_skipn k m) at 2. rewrite app_nth1 by (rewrite firstn_length; lia). reflexivity.
Qed.

Section Run.
Variable cv : cg_variant.
Variable c : fchart.
Notation ns := (nstates c).
Notation nt := (ntrans c).
Notation bm := (bmachine_of cv c).
Notation MS := (m_maxs c).
Notation WS := (8 * MS).

Hypothesis Hns : (N.of_nat ns < 2 ^ 24)%N.
Hypothesis Hnt : (N.of_nat nt < 2 ^ 24)%N.
Hypothesis Hok : bref_chartb c = true.
Set Default Proof Using "cv Hns Hnt Hok".

Definition bst_init : bst benv :=
  {| b_mem := mem_init c; b_flags := CG_CTX_PRISTINE; b_env := {| be_x := cx_init; be_ev := [] |} |}.

Lemma brel_init : brel c bst_init l_pristine cx_init.
Proof.
  constructor; cbn [bst_init b_mem b_flags b_env be_x l_pristine l_cfg l_hist].
  - apply mem_init_shape.
  - apply rep_zero.
  - apply rep_zero.
  - reflexivity.
  - reflexivity.
  - apply (linv_pristine cv c Hns Hnt Hok).
Qed.

(* the harness reads ctx->config and ctx->history back *)
Lemma read_back a l : rep WS a l -> bounded ns l -> of_bytes ns a = l.
Proof.
  intros R B. unfold rep in R. subst l. apply of_bytes_narrow; [apply (ns_le_WS cv c Hns Hnt Hok) | exact B].
Qed.

(* the locals are dead after the call *)
Lemma brel_reset (s : bst benv) l x x' ev' :
  brel c s l x ->
  brel c (with_mem benv (with_env benv s {| be_x := x'; be_ev := ev' |}) (firstn 4 (b_mem benv s) ++ skipn 4 (mem_init c))) l x'.
Proof.
  intros [Hm Rc Rh Fl Ex Hl].
  assert (L4 : 4 <= length (b_mem benv s)).
  { assert (E : length (b_mem benv s) = length (lens (b_mem benv s))) by (unfold lens; now rewrite map_length).
    rewrite E, Hm. cbn. lia. }
  constructor; cbn [with_mem with_env b_mem b_flags b_env be_x]; try assumption.
  - now apply reset_locals_shape.
  - rewrite get_firstn_app by (cbv; lia || exact L4). exact Rc.
  - rewrite get_firstn_app by (cbv; lia || exact L4). exact Rh.
  - reflexivity.
Qed.

Theorem run_loop_ref : forall fuel (s : bst benv) l x evs, brel c s l x ->
  brun_loop cv c bm fuel s evs = (rev (cx_out (snd (crun_loop cv c fuel l x evs))), BEnd).
Proof.
  induction fuel as [|f IH]; intros s l x evs B.
  - cbn [brun_loop crun_loop snd]. rewrite (br_x c s l x B). reflexivity.
  - cbn [brun_loop crun_loop]. pose proof (br_x c s l x B) as Ex. rewrite Ex.
    pose proof (step_ref cv c Hns Hnt Hok (2 + length (cx_iq x) + length (cx_eq x)) s l x B ltac:(lia)) as St.
    unfold h_step in St. apply okp_inv in St as ([s1 rc] & E & B1 & Hrc). rewrite E. cbn [fst snd] in B1, Hrc.
    destruct (cgen_step cv c l x) as [[l1 x1] rc'] eqn:Ec. cbn [fst snd] in B1, Hrc. subst rc'.
    pose proof B1 as [Hm1 Rc1 Rh1 Fl1 Ex1 Hl1].
    rewrite (read_back _ _ Rh1 (li_bhist c l1 Hl1)), (read_back _ _ Rc1 (li_bcfg c l1 Hl1)), Ex1.
    set (x2 := cemit (CHist (sids c (l_hist l1))) (cemit (CCfg (sids c (l_cfg l1))) (cemit (CRet rc) x1))).
    change CG_ERR_DONE with C_ERR_DONE. change CG_ERR_IDLE with C_ERR_IDLE.
    destruct (rc =? C_ERR_DONE)%N; [reflexivity|].
    destruct (rc =? C_ERR_IDLE)%N.
    + destruct evs as [|ev r]; [reflexivity|].
      apply IH.
      pose proof (brel_reset s1 l1 x1 {| cx_iq := cx_iq x2; cx_eq := cx_eq x2 ++ [ev]; cx_out := cx_out x2 |} (be_ev (b_env benv s1)) B1) as R.
      exact R.
    + apply IH.
      pose proof (brel_reset s1 l1 x1 x2 (be_ev (b_env benv s1)) B1) as R. exact R.
Qed.

Theorem run_refines fuel evs :
  brun_loop cv c bm fuel bst_init evs = (rev (cx_out (snd (crun_loop cv c fuel l_pristine cx_init evs))), BEnd).
Proof. apply run_loop_ref, brel_init. Qed.

End Run.
Unset Default Proof Using.

(* for a document *)
Theorem run_bgen_is_run_cgen cv (t : tree) (evs : list bytes) (fuel : nat) :
  let c := flatten false t in
  (N.of_nat (nstates c) < 2 ^ 24)%N -> (N.of_nat (ntrans c) < 2 ^ 24)%N -> bref_chartb c = true ->
  run_bgen cv t evs fuel = (run_cgen cv t evs fuel, BEnd).
Proof.
  intros c Hs Ht Hok. unfold run_bgen, run_cgen. fold c.
  pose proof (run_refines cv c Hs Ht Hok fuel evs) as R. unfold bst_init in R. rewrite R.
  destruct (crun_loop cv c fuel l_pristine cx_init evs) as [l x]. reflexivity.
Qed.
