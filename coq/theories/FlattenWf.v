(* FlattenWf.v -- well-formedness of a DOCUMENT (a tree of Chart.v) for the history-free chart core,
   as a boolean predicate on the tree.  Definitions only; FlattenWfLemmas.v proves that
   LargeMicroStep::init (Chart.flatten) turns every such document into flat tables that pass the
   check WfCore.wf_coreb, which is the hypothesis of the chart-core theorems of C01/C02.

   The clauses, in the words of the SCXML Recommendation (section 3):
     ct_kindsb        the document consists of <scxml>/<state>, <parallel> and <final> elements only
                      (no <history>, no <initial> pseudo-states);
     ct_rootb         the root is an <scxml> (or <state>) element with at least one child state;
     ct_uniqueb       the ids of all elements are pairwise different (3.14, type ID);
     ct_initialb      the 'initial' attribute of a state with children is absent (then the first child
                      in document order is the default, 3.2/3.3) or it names ONE CHILD of the state
                      (the Recommendation also allows descendants and several states; the chart core
                      does not: WfCore.wfb_completion);
     ct_no_root_targetb  no transition targets the root element;
     ct_target_setsb  the targets of one transition never lie in two different children of the same
                      compound state (3.5/3.13: a legal state specification has no two states in
                      exclusive-or relation).  Targets that are in ancestor/descendant relation, and
                      targets in different regions of a <parallel>, are allowed.
   Nothing is demanded of <final> (it may have children: they are never entered), of event descriptors,
   conditions, executable content or <data>; transition targets that name no element are allowed
   (Chart.mk_trans drops them, as filter_map (nat_of_sid ids) does). *)
From V Require Import Base Chart.
Local Open Scope N_scope.

(* the elements of the document in document order (the tree and all its descendants) *)
Fixpoint subtrees (t : tree) : list tree :=
  match t with TNode _ _ _ _ _ _ _ kids => t :: flat_map subtrees kids end.

(* the ids of an element and of all its descendants *)
Definition sids (t : tree) : list N := map t_sid (subtrees t).

Definition memN (s : N) (l : list N) : bool := existsb (N.eqb s) l.

Fixpoint nodupNb (l : list N) : bool :=
  match l with [] => true | x :: r => negb (memN x r) && nodupNb r end.

Definition core_kind (k : skind) : bool :=
  match k with KScxml | KState | KParallel | KFinal => true | _ => false end.

Definition has_kids (u : tree) : bool := match t_kids u with [] => false | _ => true end.

(* a <state>/<scxml> with at least one child (a compound state once all children are proper states) *)
Definition compound_node (u : tree) : bool :=
  match t_kind u with KScxml | KState => has_kids u | _ => false end.

Definition ct_kindsb (t : tree) : bool := forallb (fun u => core_kind (t_kind u)) (subtrees t).

Definition ct_rootb (t : tree) : bool := compound_node t.

Definition ct_uniqueb (t : tree) : bool := nodupNb (sids t).

(* initial="s s ... s" with s the id of a child *)
Definition initial_okb (u : tree) : bool :=
  match t_initattr u with
  | None => true
  | Some [] => false
  | Some (s :: r) => forallb (N.eqb s) r && memN s (map t_sid (t_kids u))
  end.

Definition ct_initialb (t : tree) : bool :=
  forallb (fun u => if compound_node u then initial_okb u else true) (subtrees t).

Definition ct_no_root_targetb (t : tree) : bool :=
  forallb (fun w => forallb (fun x => match tt_targets x with
                                      | Some l => negb (memN (t_sid t) l)
                                      | None => true
                                      end) (t_trans w)) (subtrees t).

(* the children of v whose sub-tree contains one of the ids l *)
Definition kids_hit (l : list N) (v : tree) : list tree :=
  filter (fun kid => existsb (fun s => memN s (sids kid)) l) (t_kids v).

Definition target_set_okb (t : tree) (l : list N) : bool :=
  forallb (fun v => if compound_node v then (length (kids_hit l v) <=? 1)%nat else true) (subtrees t).

Definition ct_target_setsb (t : tree) : bool :=
  forallb (fun w => forallb (fun x => match tt_targets x with
                                      | Some l => target_set_okb t l
                                      | None => true
                                      end) (t_trans w)) (subtrees t).

Definition core_treeb (t : tree) : bool :=
  ct_kindsb t && ct_rootb t && ct_uniqueb t && ct_initialb t && ct_no_root_targetb t && ct_target_setsb t.

(* a tree-level counterpart of SelectConform.par_nonemptyb: every <parallel> has a child *)
Definition ct_par_nonemptyb (t : tree) : bool :=
  forallb (fun u => match t_kind u with KParallel => has_kids u | _ => true end) (subtrees t).
