(* SerializeLemmas.v -- C14: proofs about Serialize.v.
   1. invariants of LargeMicroStep::step (flat_sets stay strictly ascending; only declared <data> ids get a value;
      the internal queue holds named events only; a cancelled flag is never set by step) and what holds at a
      macrostep boundary (internal queue empty, flags), for every chart, history and step bound;
   2. deserialize (serialize s) restores every component that is written;
   3. the resumed interpreter and the original produce the same continuation, for every continuation
      (repaired variant); concrete witnesses where the pinned variant loses state;
   4. a state string with another digest is rejected. *)
From V Require Import Base NameMatch Chart Exec Large LargeLemmas Interp GenBase64 Serialize SerializeCodecLemmas SerializeCongLemmas.
From Coq Require Import Sorted.
Local Open Scope nat_scope.

(* ------------------------------------------------------------------ stores *)

Definition store_equiv (s s' : store) : Prop := forall k, lookup s k = lookup s' k.
Definition keys_declared (D : list N) (s : store) : Prop := forall k, lookup s k <> None -> In k D.
Definition named (e : event) : Prop := ev_name e <> [].

Lemma lookup_update s k z w : lookup (update s k z) w = if (k =? w)%N then Some z else lookup s w.
Proof.
  induction s as [|[k0 z0] r IH]; cbn [update lookup].
  - reflexivity.
  - destruct (k0 =? k)%N eqn:E.
    + apply N.eqb_eq in E. subst k0. cbn [lookup]. destruct (k =? w)%N; reflexivity.
    + cbn [lookup]. destruct (k0 =? w)%N eqn:E2.
      * apply N.eqb_eq in E2. subst k0. rewrite N.eqb_sym in E. now rewrite E.
      * exact IH.
Qed.

Lemma store_equiv_update s s' k z : store_equiv s s' -> store_equiv (update s k z) (update s' k z).
Proof. intros H w. rewrite !lookup_update. now rewrite H. Qed.

Lemma keys_declared_update D s k z : keys_declared D s -> (lookup s k <> None \/ In k D) -> keys_declared D (update s k z).
Proof.
  intros H Hk w Hw. rewrite lookup_update in Hw. destruct (k =? w)%N eqn:E.
  - apply N.eqb_eq in E. subst w. destruct Hk as [Hk|Hk]; auto.
  - auto.
Qed.

(* ------------------------------------------------------------------ engine-state invariants (Large) *)

Definition lsorted (l : lstate) : Prop := ssorted (l_cfg l) /\ ssorted (l_hist l) /\ ssorted (l_initd l).
Definition linit (l : lstate) : Prop := is_pristine l = true \/ l_init l = true.

Record Il (l : lstate) : Prop := {
  il_sorted : lsorted l;
  il_init : linit l;
  il_cancel : l_cancelled l = false
}.

Definition Ix (c : fchart) (x : xstate) : Prop := keys_declared (declared c) (x_store x) /\ Forall named (x_iq x).

Lemma l_pristine_Il : Il l_pristine.
Proof. repeat constructor. Qed.

Lemma x_init_Ix c : Ix c x_init.
Proof. split; [intros k H; cbn in H; congruence|constructor]. Qed.

Section LargeInv.
Variable lv : lg_variant.
Variable xv : ex_variant.
Variable c : fchart.

(* ---- the sets stay strictly ascending ---- *)

Lemma exit_fold_cfg : forall l cfg x, ssorted cfg -> ssorted (fst (fold_left (exit_one xv c) l (cfg, x))).
Proof.
  induction l as [|i r IH]; intros cfg x H; cbn [fold_left]; [exact H|].
  unfold exit_one at 2. apply IH. now apply set_remove_ssorted.
Qed.

Lemma enter_one_sorted ts a i : ssorted (ea_cfg a) -> ssorted (ea_initd a) ->
  ssorted (ea_cfg (enter_one xv c ts a i)) /\ ssorted (ea_initd (enter_one xv c ts a i)).
Proof.
  intros H1 H2. unfold enter_one.
  destruct (is_pseudo (fs_type (st c i))); [split; assumption|].
  destruct (fs_data (st c i)) as [|d0 dr].
  - destruct (fs_type (st c i)); cbn [ea_cfg ea_initd]; split; auto using insert_sorted_ssorted.
  - destruct (mem i (ea_initd a)); destruct (fs_type (st c i)); cbn [ea_cfg ea_initd]; split; auto using insert_sorted_ssorted.
Qed.

Lemma enter_fold_sorted ts : forall es a, ssorted (ea_cfg a) -> ssorted (ea_initd a) ->
  ssorted (ea_cfg (fold_left (enter_one xv c ts) es a)) /\ ssorted (ea_initd (fold_left (enter_one xv c ts) es a)).
Proof.
  induction es as [|i r IH]; intros a H1 H2; cbn [fold_left]; [split; assumption|].
  destruct (enter_one_sorted ts a i H1 H2). now apply IH.
Qed.

Lemma remember_history_sorted cfg exitset hist : ssorted hist -> ssorted (remember_history c cfg exitset hist).
Proof.
  unfold remember_history. generalize (seq 0 (n_states c)). intros is. revert hist.
  induction is as [|i r IH]; intros hist H; cbn [fold_left]; [exact H|].
  apply IH.
  destruct (is_hist (fs_type (st c i)) && match fs_parent (st c i) with Some p => mem p exitset | None => false end); [|exact H].
  generalize (fs_completion (st c i)). intros cs. revert hist H.
  induction cs as [|cm cr IHc]; intros hist H; cbn [fold_left]; [exact H|].
  apply IHc. destruct (mem cm cfg); [now apply insert_sorted_ssorted|now apply set_remove_ssorted].
Qed.

Lemma microstep_sorted l x tg ex ts ini : lsorted l -> lsorted (fst (microstep lv xv c l x tg ex ts ini)).
Proof.
  intros (H1 & H2 & H3). unfold microstep.
  destruct (entry_set lv c (l_cfg l) ex (if ini then l_hist l else remember_history c (l_cfg l) ex (l_hist l)) tg ts) as [es ts'].
  pose proof (exit_fold_cfg (rev ex) (l_cfg l) x H1) as Hc.
  destruct (fold_left (exit_one xv c) (rev ex) (l_cfg l, x)) as [cfg1 x1]. cbn [fst] in Hc.
  match goal with |- context [fold_left (enter_one xv c ts') ?es ?a0] =>
    destruct (enter_fold_sorted ts' es a0 Hc H3) as [E1 E2] end.
  cbn [fst]. repeat split; cbn [l_cfg l_hist l_initd]; auto.
  destruct ini; [exact H2|now apply remember_history_sorted].
Qed.

Lemma microstep_flags l x tg ex ts ini :
  let l' := fst (microstep lv xv c l x tg ex ts ini) in
  l_init l' = true /\ l_cancelled l' = l_cancelled l /\ l_fin l' = l_fin l /\ l_stable l' = l_stable l /\ l_spont l' = true.
Proof.
  unfold microstep.
  destruct (entry_set lv c (l_cfg l) ex (if ini then l_hist l else remember_history c (l_cfg l) ex (l_hist l)) tg ts) as [es ts'].
  destruct (fold_left (exit_one xv c) (rev ex) (l_cfg l, x)) as [cfg1 x1]. cbn. auto.
Qed.

Lemma select_and_step_rc l x ev : snd (select_and_step lv xv c l x ev) = RC_MICROSTEPPED.
Proof.
  unfold select_and_step.
  destruct (select_loop lv c (l_cfg (upd_flags l (l_spont l) false)) ev (cfg_postfix c (l_cfg (upd_flags l (l_spont l) false))) None [] x) as [sel x1].
  destruct sel; [reflexivity|].
  match goal with |- context [microstep lv xv c ?a ?b ?d ?e ?f ?g] => destruct (microstep lv xv c a b d e f g) end. reflexivity.
Qed.

Lemma select_and_step_Il l x ev : Il l -> l_init l = true -> Il (fst (fst (select_and_step lv xv c l x ev))).
Proof.
  intros [Hs Hi Hc] Hinit. unfold select_and_step.
  destruct (select_loop lv c (l_cfg (upd_flags l (l_spont l) false)) ev (cfg_postfix c (l_cfg (upd_flags l (l_spont l) false))) None [] x) as [sel x1].
  destruct sel as [|s0 sr].
  - cbn [fst]. constructor; [exact Hs| right; exact Hinit | exact Hc].
  - match goal with |- context [microstep lv xv c ?a ?b ?d ?e ?f ?g] =>
      pose proof (microstep_sorted a b d e f g) as Hm; pose proof (microstep_flags a b d e f g) as Hf;
      destruct (microstep lv xv c a b d e f g) as [l1 x2] end.
    cbn [fst] in *. destruct Hf as (F1 & F2 & _).
    constructor; [apply Hm; exact Hs|now right|now rewrite F2].
Qed.

(* Il is an invariant of step *)
Lemma large_step_Il l x : Il l -> Il (fst (fst (large_step lv xv c l x))).
Proof.
  intros H. pose proof H as [Hs Hi Hc]. unfold large_step.
  destruct (l_fin l) eqn:Efin; [exact H|].
  destruct (l_tlf l) eqn:Etlf.
  { cbn [fst]. constructor; [exact Hs| |exact Hc]. destruct Hi as [Hi|Hi]; [|now right].
    unfold is_pristine in Hi. rewrite Etlf in Hi. rewrite !orb_true_r in Hi. discriminate. }
  destruct (is_pristine l) eqn:Epr.
  { pose proof (microstep_sorted l (emit TMsB x) (fs_completion (st c 0)) [] [] true Hs) as Hm.
    pose proof (microstep_flags l (emit TMsB x) (fs_completion (st c 0)) [] [] true) as Hf.
    destruct (microstep lv xv c l (emit TMsB x) (fs_completion (st c 0)) [] [] true) as [l1 x1]. cbn [fst] in *.
    destruct Hf as (F1 & F2 & _). constructor; [exact Hm|now right|now rewrite F2]. }
  assert (Hinit : l_init l = true) by (destruct Hi as [Hi|Hi]; [congruence|exact Hi]).
  destruct (l_spont l); [now apply select_and_step_Il|].
  destruct (x_iq x) as [|e r].
  - destruct (negb (l_stable l)).
    + cbn [fst]. constructor; [exact Hs|now right|exact Hc].
    + destruct (x_eq x) as [|e r].
      * rewrite Hc. exact H.
      * destruct (ev_name e); [rewrite Hc; exact H|now apply select_and_step_Il].
  - destruct (ev_name e); [exact H|now apply select_and_step_Il].
Qed.

(* ---- what a boundary looks like ---- *)

Definition boundary_flags (l : lstate) : Prop :=
  l_fin l = false /\ l_tlf l = false /\ l_spont l = false /\ l_init l = true /\ l_stable l = true /\ l_cancelled l = false.

Lemma rc_neq_23 : RC_MICROSTEPPED <> RC_MACROSTEPPED /\ RC_MICROSTEPPED <> RC_IDLE /\ RC_FINISHED <> RC_MACROSTEPPED /\
                  RC_FINISHED <> RC_IDLE /\ RC_CANCELLED <> RC_MACROSTEPPED /\ RC_CANCELLED <> RC_IDLE.
Proof. repeat split; discriminate. Qed.

(* step() = MACROSTEPPED or IDLE: the internal queue is empty, nothing but the STABLE flag changed *)
Lemma large_boundary l x l' x' rc :
  Il l -> Forall named (x_iq x) ->
  large_step lv xv c l x = (l', x', rc) -> rc = RC_MACROSTEPPED \/ rc = RC_IDLE ->
  x_iq x' = [] /\ boundary_flags l' /\ l_cfg l' = l_cfg l /\ l_hist l' = l_hist l /\ l_initd l' = l_initd l /\
  x_store x' = x_store x /\ x_eq x' = x_eq x \/
  (* an unnamed external event (the wake-up of cancel()) was dequeued *)
  x_iq x' = [] /\ boundary_flags l' /\ l_cfg l' = l_cfg l /\ l_hist l' = l_hist l /\ l_initd l' = l_initd l /\
  x_store x' = x_store x /\ exists e, x_eq x = e :: x_eq x'.
Proof.
  intros [Hs Hi Hc] Hn Hstep Hrc. unfold large_step in Hstep.
  destruct (l_fin l) eqn:Efin; [inversion Hstep; subst; destruct Hrc; discriminate|].
  destruct (l_tlf l) eqn:Etlf; [inversion Hstep; subst; destruct Hrc; discriminate|].
  destruct (is_pristine l) eqn:Epr.
  { destruct (microstep lv xv c l (emit TMsB x) (fs_completion (st c 0)) [] [] true). inversion Hstep; subst. destruct Hrc; discriminate. }
  assert (Hinit : l_init l = true) by (destruct Hi as [Hi|Hi]; [congruence|exact Hi]).
  assert (Hsel : forall x0 ev, select_and_step lv xv c l x0 ev = (l', x', rc) -> False).
  { intros x0 ev E. pose proof (select_and_step_rc l x0 ev) as R. rewrite E in R. cbn in R. subst rc. destruct Hrc; discriminate. }
  destruct (l_spont l) eqn:Espont; [exfalso; eapply Hsel; eauto|].
  destruct (x_iq x) as [|e r] eqn:Eiq.
  - destruct (negb (l_stable l)) eqn:Est.
    + inversion Hstep; subst. left. cbn. repeat split; auto.
    + apply negb_false_iff in Est.
      destruct (x_eq x) as [|e r] eqn:Eeq.
      * rewrite Hc in Hstep. inversion Hstep; subst. left. repeat split; auto.
      * destruct (ev_name e) eqn:En; [|exfalso; eapply Hsel; eauto].
        rewrite Hc in Hstep. inversion Hstep; subst. right. cbn. repeat split; auto. now exists e.
  - destruct (ev_name e) eqn:En; [|exfalso; eapply Hsel; eauto].
    inversion Hn as [|? ? Hne _]; subst. unfold named in Hne. congruence.
Qed.

(* ... and it went through "manage invocations" *)
Lemma large_boundary_pre l x l' x' rc :
  Il l -> Forall named (x_iq x) ->
  large_step lv xv c l x = (l', x', rc) -> rc = RC_MACROSTEPPED \/ rc = RC_IDLE ->
  at_queue_point l x = true /\ completing l = false /\ l_cfg l' = l_cfg l.
Proof.
  intros [Hs Hi Hc] Hn Hstep Hrc. unfold large_step in Hstep. unfold at_queue_point, completing.
  destruct (l_fin l) eqn:Efin; [inversion Hstep; subst; destruct Hrc; discriminate|].
  destruct (l_tlf l) eqn:Etlf; [inversion Hstep; subst; destruct Hrc; discriminate|].
  destruct (is_pristine l) eqn:Epr.
  { destruct (microstep lv xv c l (emit TMsB x) (fs_completion (st c 0)) [] [] true). inversion Hstep; subst. destruct Hrc; discriminate. }
  assert (Hsel : forall x0 ev, select_and_step lv xv c l x0 ev = (l', x', rc) -> False).
  { intros x0 ev E. pose proof (select_and_step_rc l x0 ev) as R. rewrite E in R. cbn in R. subst rc. destruct Hrc; discriminate. }
  destruct (l_spont l) eqn:Espont; [exfalso; eapply Hsel; eauto|].
  destruct (x_iq x) as [|e r] eqn:Eiq.
  - cbn. split; [reflexivity|]. split; [reflexivity|].
    destruct (negb (l_stable l)); [inversion Hstep; subst; reflexivity|].
    destruct (x_eq x) as [|e r].
    + rewrite Hc in Hstep. inversion Hstep; subst. reflexivity.
    + destruct (ev_name e); [|exfalso; eapply Hsel; eauto]. rewrite Hc in Hstep. inversion Hstep; subst. reflexivity.
  - destruct (ev_name e) eqn:En; [|exfalso; eapply Hsel; eauto].
    inversion Hn as [|? ? Hne _]; subst. unfold named in Hne. congruence.
Qed.

Lemma large_stable_notice l x :
  l_fin l = false -> l_tlf l = false -> l_spont l = false -> l_init l = true -> l_stable l = false -> x_iq x = [] ->
  large_step lv xv c l x = (upd_flags l false true, emit TStable x, RC_MACROSTEPPED).
Proof.
  intros F1 F2 F3 F4 F5 Hiq. unfold large_step, is_pristine. rewrite F1, F2, F3, F4, F5, Hiq. cbn. reflexivity.
Qed.

Lemma large_finished l x l' x' : large_step lv xv c l x = (l', x', RC_FINISHED) -> l_fin l' = true.
Proof.
  intros Hstep. unfold large_step in Hstep.
  destruct (l_fin l) eqn:Efin; [inversion Hstep; subst; exact Efin|].
  destruct (l_tlf l); [inversion Hstep; reflexivity|].
  assert (Hsel : forall x0 ev, select_and_step lv xv c l x0 ev = (l', x', RC_FINISHED) -> False).
  { intros x0 ev E. pose proof (select_and_step_rc l x0 ev) as R. rewrite E in R. discriminate. }
  destruct (is_pristine l).
  { destruct (microstep lv xv c l (emit TMsB x) (fs_completion (st c 0)) [] [] true). inversion Hstep. }
  destruct (l_spont l); [exfalso; eapply Hsel; eauto|].
  destruct (x_iq x) as [|e r].
  - destruct (negb (l_stable l)); [inversion Hstep|].
    destruct (x_eq x) as [|e r].
    + destruct (l_cancelled l); inversion Hstep.
    + destruct (ev_name e); [destruct (l_cancelled l); inversion Hstep|exfalso; eapply Hsel; eauto].
  - destruct (ev_name e); [inversion Hstep|exfalso; eapply Hsel; eauto].
Qed.

End LargeInv.

(* ---- the execution-state invariant, from the traversal of SerializeCongLemmas.v ---- *)

Section LargeIx.
Variable lv : lg_variant.
Variable xv : ex_variant.
Variable c : fchart.
Hypothesis Hnamed : chart_named c = true.

Definition RsI (s s' : store) : Prop := s = s' /\ keys_declared (declared c) s.

Lemma Ix_Rx x : Ix c x -> Rx RsI named [] [] x x.
Proof.
  intros [H1 H2]. constructor; auto.
  - split; auto.
  - exists (x_out x). now rewrite app_nil_r.
Qed.

Lemma Rx_Ix x y : Rx RsI named [] [] x y -> Ix c x.
Proof. intros [[_ H1] _ H3 _ _]. split; assumption. Qed.

Lemma large_step_Ix l x : Ix c x -> Ix c (snd (fst (large_step lv xv c l x))).
Proof.
  intros H.
  assert (HR : Rstep RsI named [] [] (large_step lv xv c l x) (large_step lv xv c l x)).
  { apply large_step_R; try exact Hnamed.
    - intros s s' [-> _] k. reflexivity.
    - intros s s' k z [-> Hk] Hin. split; [reflexivity|]. now apply keys_declared_update.
    - unfold named. discriminate.
    - unfold named. discriminate.
    - intros i. unfold named, done_event. cbn. unfold s_done_state. discriminate.
    - intros n Hn. exact Hn.
    - now apply Ix_Rx. }
  destruct HR as (_ & _ & HR). eapply Rx_Ix. exact HR.
Qed.

End LargeIx.

(* ------------------------------------------------------------------ the equivalence instance *)

Section LargeCong.
Variable lv : lg_variant.
Variable xv : ex_variant.
Variable c : fchart.
Hypothesis Hnamed : chart_named c = true.

Definition Rq := Rx store_equiv (fun _ => True).

Lemma large_step_cong ox oy l x y : Rq ox oy x y ->
  Rstep store_equiv (fun _ => True) ox oy (large_step lv xv c l x) (large_step lv xv c l y).
Proof.
  intros H. apply large_step_R; auto.
  - intros s s' Hs k z _. now apply store_equiv_update.
Qed.

End LargeCong.

(* ================================================================== the interpreter around the engine *)

Definition dq_le (a b : nat * event) : Prop := fst a <= fst b.
Definition dq_sorted (q : list (nat * event)) : Prop := StronglySorted dq_le q.

Lemma dq_insert_In r ev q p : In p (dq_insert r ev q) <-> p = (r, ev) \/ In p q.
Proof.
  induction q as [|[r' e'] t IH]; cbn [dq_insert].
  - cbn. intuition.
  - destruct (r <? r'); cbn [In]; [intuition|]. rewrite IH. intuition.
Qed.

Lemma dq_insert_sorted r ev q : dq_sorted q -> dq_sorted (dq_insert r ev q).
Proof.
  unfold dq_sorted. induction q as [|[r' e'] t IH]; intros H; cbn [dq_insert].
  - repeat constructor.
  - inversion H as [|? ? Ht Hall]; subst.
    destruct (r <? r') eqn:E.
    + apply Nat.ltb_lt in E. constructor; [exact H|]. constructor; [unfold dq_le; cbn; lia|].
      rewrite Forall_forall in *. intros p Hp. specialize (Hall p Hp). unfold dq_le in *. cbn in *. lia.
    + apply Nat.ltb_ge in E. constructor; [now apply IH|].
      rewrite Forall_forall in *. intros p Hp. apply dq_insert_In in Hp. destruct Hp as [->|Hp]; [unfold dq_le; cbn; lia|auto].
Qed.

Lemma dq_insert_last r ev q : Forall (fun p => fst p <= r) q -> dq_insert r ev q = q ++ [(r, ev)].
Proof.
  induction q as [|[r' e'] t IH]; intros H; cbn [dq_insert app]; [reflexivity|].
  inversion H as [|? ? H1 H2]; subst. cbn in H1.
  destruct (r <? r') eqn:E; [apply Nat.ltb_lt in E; lia|]. now rewrite IH.
Qed.

Lemma dq_rebuild_aux (q acc : list (nat * event)) : dq_sorted (acc ++ q) ->
  fold_left (fun a p => dq_insert (fst p) (snd p) a) q acc = acc ++ q.
Proof.
  revert acc. induction q as [|[r ev] t IH]; intros acc H; cbn [fold_left fst snd].
  - now rewrite app_nil_r.
  - rewrite dq_insert_last.
    + rewrite IH; rewrite <- app_assoc; [reflexivity|exact H].
    + clear IH. unfold dq_sorted in H. induction acc as [|a t' IHa]; [constructor|].
      cbn in H. inversion H as [|? ? Ht Hall]; subst. constructor.
      * rewrite Forall_forall in Hall. specialize (Hall (r, ev)). unfold dq_le in Hall. cbn in Hall. apply Hall.
        apply in_or_app. right. now left.
      * now apply IHa.
Qed.

(* re-enqueueing the pending delayed events of a snapshot, in their order, rebuilds the queue *)
Lemma dq_rebuild q : dq_sorted q -> fold_left (fun a p => dq_insert (fst p) (snd p) a) q [] = q.
Proof. intros H. now rewrite dq_rebuild_aux. Qed.

Definition enc_ok (e : engine) (n : nat) (l : list nat) : Prop :=
  match e with
  | ELarge => ssorted l
  | EFast => ssorted l /\ bounded n l /\ (N.of_nat n < 256 ^ N.of_nat bitset_block_bytes)%N
  end.

Lemma decode_encode e n l : enc_ok e n l -> decode_set e (encode_set e n l) = Some l.
Proof.
  destruct e; cbn [enc_ok decode_set encode_set].
  - intros H. now rewrite index_list_roundtrip_lemma.
  - intros (H1 & H2 & H3). now rewrite bitset_base64_roundtrip_lemma.
Qed.

Definition restored (l l' : lstate) : Prop :=
  l_cfg l = l_cfg l' /\ l_hist l = l_hist l' /\ l_initd l = l_initd l' /\
  l_tlf l = l_tlf l' /\ l_fin l = l_fin l' /\ l_stable l = l_stable l'.

Section Generic.
Variable e : engine.
Variable c : fchart.
Variable step : lstate -> xstate -> lstate * xstate * N.
(* the engine's invariant of its own state (strictly ascending sets, ...); Jl for LargeMicroStep *)
Variable Jl : lstate -> Prop.
Hypothesis Jl_pristine : Jl l_pristine.

Hypothesis step_cong : forall ox oy l x y, Rq ox oy x y -> Rstep store_equiv (fun _ => True) ox oy (step l x) (step l y).
Hypothesis step_Il : forall l x, Jl l -> Jl (fst (fst (step l x))).
Hypothesis step_Ix : forall l x, Ix c x -> Ix c (snd (fst (step l x))).
Hypothesis step_boundary : forall l x l' x' rc, Jl l -> Forall named (x_iq x) -> step l x = (l', x', rc) ->
  rc = RC_MACROSTEPPED \/ rc = RC_IDLE -> x_iq x' = [] /\ boundary_flags l'.
Hypothesis step_finished : forall l x l' x', step l x = (l', x', RC_FINISHED) -> l_fin l' = true.
Hypothesis step_fin_absorbing : forall l x, l_fin l = true -> step l x = (l, x, RC_FINISHED).
Hypothesis enc_from_Il : forall l, Jl l ->
  enc_ok e (nstates c) (l_cfg l) /\ enc_ok e (nstates c) (l_hist l) /\ enc_ok e (nstates c) (l_initd l).
Hypothesis enc_inv : forall l, enc_ok e (nstates c) (l_cfg l) -> enc_ok e (nstates c) [] /\
  (forall inv, inv = l_cfg l \/ inv = [] -> enc_ok e (nstates c) inv).

Notation istep := (istep e step).
Notation irun := (irun e c step).
Notation irun_to := (irun_to e c step).
Notation icontinue := (icontinue e c step).

(* ---- invariant of every run ---- *)

Record Ii (s : istate) : Prop := {
  ii_l : Jl (i_l s);
  ii_x : Ix c (i_x s);
  ii_inv : i_inv s = [] \/ exists l, Jl l /\ i_inv s = l_cfg l;
  ii_dq : dq_sorted (i_dq s)
}.

Lemma fresh_Ii : Ii fresh.
Proof. constructor; cbn; [apply Jl_pristine|apply x_init_Ix|now left|constructor]. Qed.

Lemma divert_dq_sorted evs : forall dq, dq_sorted dq ->
  dq_sorted (fold_left (fun q ev => dq_insert (delay_rank ev) (strip_delay ev) q) evs dq).
Proof. induction evs as [|ev r IH]; intros dq H; cbn [fold_left]; [exact H|]. apply IH. now apply dq_insert_sorted. Qed.

Lemma istep_Ii s : Ii s -> Ii (fst (istep s)).
Proof.
  intros [Hl Hx Hinv Hdq]. unfold Serialize.istep.
  pose proof (step_Il (i_l s) (i_x s) Hl) as Hl'. pose proof (step_Ix (i_l s) (i_x s) Hx) as Hx'.
  destruct (step (i_l s) (i_x s)) as [[l1 x1] rc]. cbn [fst snd] in Hl', Hx'.
  unfold divert. cbn [fst]. constructor; cbn [i_l i_x i_inv i_dq].
  - exact Hl'.
  - destruct Hx' as [H1 H2]. split; cbn; assumption.
  - unfold inv_after. destruct e.
    + destruct (completing (i_l s)); [destruct (intersects (l_cfg (i_l s)) (i_inv s)); [now left|exact Hinv]|].
      destruct (at_queue_point (i_l s) (i_x s)); [right; exists (i_l s); now split|exact Hinv].
    + destruct (completing (i_l s)); [now left|exact Hinv].
  - now apply divert_dq_sorted.
Qed.

Lemma note_Ii rc s : Ii s -> Ii (note c rc s).
Proof. intros [Hl [H1 H2] Hinv Hdq]. constructor; cbn; auto. split; cbn; assumption. Qed.

Lemma feed_Ii i s : Ii s -> Ii (feed i s).
Proof.
  intros [Hl [H1 H2] Hinv Hdq]. destruct i; constructor; cbn; auto; try (split; cbn; assumption). constructor.
Qed.

(* every stop of irun_to is the annotated result of a step from a state satisfying the invariant *)
Lemma irun_to_spec : forall fuel k s ins sp, Ii s -> irun_to fuel k s ins = Some sp ->
  exists s0, Ii s0 /\ st_state sp = note c (st_rc sp) (fst (istep s0)) /\ snd (istep s0) = st_rc sp /\
             is_boundary (st_rc sp) = true.
Proof.
  induction fuel as [|f IH]; intros k s ins sp Hs Hrun; cbn [Serialize.irun_to] in Hrun; [discriminate|].
  pose proof (istep_Ii s Hs) as Hs1.
  destruct (istep s) as [s1 rc] eqn:Est. cbn [fst] in Hs1.
  destruct (is_boundary rc) eqn:Eb.
  - destruct k as [|k'].
    + inversion Hrun; subst. cbn [st_state st_rc]. exists s. rewrite Est. cbn [fst snd]. auto.
    + destruct (rc =? RC_FINISHED)%N; [discriminate|].
      destruct (rc =? RC_IDLE)%N.
      * destruct ins as [|i r]; [discriminate|]. eapply IH; [|exact Hrun]. apply feed_Ii. now apply note_Ii.
      * eapply IH; [|exact Hrun]. now apply note_Ii.
  - eapply IH; [|exact Hrun]. now apply note_Ii.
Qed.

Definition at_boundary (rc : N) (s : istate) : Prop :=
  Ii s /\
  ((rc = RC_MACROSTEPPED \/ rc = RC_IDLE) /\ x_iq (i_x s) = [] /\ boundary_flags (i_l s) \/
   rc = RC_FINISHED /\ l_fin (i_l s) = true).

Lemma is_boundary_cases rc : is_boundary rc = true -> rc = RC_MACROSTEPPED \/ rc = RC_IDLE \/ rc = RC_FINISHED.
Proof.
  unfold is_boundary. rewrite !orb_true_iff, !N.eqb_eq. tauto.
Qed.

(* U: whatever the chart, history, step bound and k: the k-th boundary of the run is a state of this shape *)
Lemma irun_to_boundary fuel k ins sp : irun_to fuel k fresh ins = Some sp -> at_boundary (st_rc sp) (st_state sp).
Proof.
  intros Hrun. destruct (irun_to_spec fuel k fresh ins sp fresh_Ii Hrun) as (s0 & Hs0 & Est & Erc & Eb).
  pose proof (istep_Ii s0 Hs0) as Hs1.
  split; [rewrite Est; now apply note_Ii|].
  unfold Serialize.istep in *. destruct Hs0 as [Hl Hx _ _].
  destruct (step (i_l s0) (i_x s0)) as [[l1 x1] rc] eqn:Es.
  unfold divert in *. cbn [fst snd] in *. subst rc. rewrite Est. cbn [note with_x i_l i_x emit x_iq].
  destruct (is_boundary_cases _ Eb) as [E|[E|E]].
  - left. split; [now left|]. destruct Hx as [_ Hn].
    destruct (step_boundary _ _ _ _ _ Hl Hn Es (or_introl E)) as [A B]. cbn. auto.
  - left. split; [now right|]. destruct Hx as [_ Hn].
    destruct (step_boundary _ _ _ _ _ Hl Hn Es (or_intror E)) as [A B]. cbn. auto.
  - right. split; [exact E|]. rewrite E in Es. eapply step_finished; eauto.
Qed.

(* ---- determinism of the continuation, up to the representation of the store and the trace so far ---- *)

Record Ri (ox oy : list tok) (s r : istate) : Prop := {
  ri_l : i_l s = i_l r;
  ri_x : Rq ox oy (i_x s) (i_x r);
  ri_inv : i_inv s = i_inv r;
  ri_dq : i_dq s = i_dq r
}.

Lemma Rq_set_eq ox oy q x y : Rq ox oy x y -> Rq ox oy (set_eq q x) (set_eq q y).
Proof. intros [H1 H2 H3 H4 H5]. constructor; cbn; auto. Qed.

Lemma istep_Ri ox oy s r : Ri ox oy s r -> snd (istep s) = snd (istep r) /\ Ri ox oy (fst (istep s)) (fst (istep r)).
Proof.
  intros [Hl Hx Hinv Hdq]. unfold Serialize.istep. rewrite <- Hl.
  destruct (step_cong ox oy (i_l s) _ _ Hx) as (E1 & E2 & H3).
  destruct (step (i_l s) (i_x s)) as [[l1 x1] rc]. destruct (step (i_l s) (i_x r)) as [[l1' y1] rc'].
  cbn [fst snd] in E1, E2, H3. subst l1' rc'.
  unfold divert. cbn [fst snd]. split; [reflexivity|].
  constructor; cbn [i_l i_x i_inv i_dq].
  - reflexivity.
  - rewrite <- (rx_eq _ _ _ _ _ _ H3). now apply Rq_set_eq.
  - unfold inv_after, at_queue_point. rewrite <- Hinv, <- (rx_iq _ _ _ _ _ _ Hx). reflexivity.
  - rewrite <- (rx_eq _ _ _ _ _ _ H3), <- Hdq. reflexivity.
Qed.

Lemma note_Ri ox oy rc s r : Ri ox oy s r -> Ri ox oy (note c rc s) (note c rc r).
Proof.
  intros [Hl Hx Hinv Hdq]. constructor; cbn; auto. rewrite <- Hl.
  apply Rx_emit. now apply Rx_emit.
Qed.

Lemma feed_Ri ox oy i s r : Ri ox oy s r -> Ri ox oy (feed i s) (feed i r).
Proof.
  intros [Hl Hx Hinv Hdq]. destruct i; constructor; cbn; auto.
  - now apply Rx_raise_ext.
  - rewrite <- Hdq, <- (rx_eq _ _ _ _ _ _ Hx). now apply Rq_set_eq.
Qed.

Lemma irun_Ri ox oy : forall fuel s r ins, Ri ox oy s r -> Ri ox oy (irun fuel s ins) (irun fuel r ins).
Proof.
  induction fuel as [|f IH]; intros s r ins H; cbn [Serialize.irun]; [exact H|].
  destruct (istep_Ri ox oy s r H) as [Erc H1].
  destruct (istep s) as [s1 rc]. destruct (istep r) as [r1 rc']. cbn [fst snd] in Erc, H1. subst rc'.
  pose proof (note_Ri ox oy rc _ _ H1) as H2.
  destruct (rc =? RC_FINISHED)%N; [exact H2|].
  destruct (rc =? RC_IDLE)%N; [|now apply IH].
  destruct ins as [|i rest]; [exact H2|]. apply IH. now apply feed_Ri.
Qed.

Lemma icontinue_Ri ox oy rc fuel s r ins : Ri ox oy s r -> Ri ox oy (icontinue rc fuel s ins) (icontinue rc fuel r ins).
Proof.
  intros H. unfold Serialize.icontinue.
  destruct (rc =? RC_FINISHED)%N.
  - destruct fuel; [exact H|].
    destruct (istep_Ri ox oy s r H) as [Erc H1].
    destruct (istep s) as [s1 rc1]. destruct (istep r) as [r1 rc1']. cbn [fst snd] in Erc, H1. subst rc1'. now apply note_Ri.
  - destruct (rc =? RC_IDLE)%N; [|now apply irun_Ri].
    destruct ins as [|i rest]; [exact H|]. apply irun_Ri. now apply feed_Ri.
Qed.

(* ---- deserialize (serialize s) ---- *)

Lemma written_data_noskip v (st0 : store) (D : list N) :
  (forall id z, lookup st0 id = Some z -> sz_skip_value v z = false) ->
  map (fun id => (id, written_value v (lookup st0 id))) D = map (fun id => (id, lookup st0 id)) D.
Proof.
  intros H. apply map_ext. intros id. unfold written_value. destruct (lookup st0 id) as [z|] eqn:E; [|reflexivity].
  now rewrite (H id z E).
Qed.

Lemma restore_lookup v (st0 : store) : forall (D : list N) (acc : store) k,
  sz_undeclared_restored v = false ->
  lookup (restore_store v (map (fun id => (id, lookup st0 id)) D) acc) k =
  match (if in_dec N.eq_dec k D then lookup st0 k else None) with Some z => Some z | None => lookup acc k end.
Proof.
  intros D acc k Hv. unfold restore_store. rewrite Hv. revert acc.
  induction D as [|id r IH]; intros acc; cbn [map fold_left]; [reflexivity|].
  rewrite IH. cbn [fst snd].
  assert (Hacc : lookup (match lookup st0 id with Some z => update acc id z | None => acc end) k =
                 if (id =? k)%N then match lookup st0 k with Some z => Some z | None => lookup acc k end else lookup acc k).
  { destruct (id =? k)%N eqn:E.
    - apply N.eqb_eq in E. subst id. destruct (lookup st0 k) as [z|]; [|reflexivity]. now rewrite lookup_update, N.eqb_refl.
    - destruct (lookup st0 id) as [z|]; [|reflexivity]. now rewrite lookup_update, E. }
  rewrite Hacc.
  destruct (in_dec N.eq_dec k (id :: r)) as [Hin|Hin]; destruct (in_dec N.eq_dec k r) as [Hr|Hr].
  - destruct (lookup st0 k); [reflexivity|]. destruct (id =? k)%N; reflexivity.
  - assert (id = k) by (destruct Hin; [assumption|contradiction]). subst id. rewrite N.eqb_refl. reflexivity.
  - exfalso. apply Hin. now right.
  - assert (id <> k) by (intros ->; apply Hin; now left).
    destruct (id =? k)%N eqn:E; [apply N.eqb_eq in E; contradiction|reflexivity].
Qed.

Lemma restore_equiv v st0 D : sz_undeclared_restored v = false -> keys_declared D st0 ->
  store_equiv st0 (restore_store v (map (fun id => (id, lookup st0 id)) D) []).
Proof.
  intros Hv Hk k. rewrite restore_lookup by exact Hv. cbn [lookup].
  destruct (in_dec N.eq_dec k D) as [Hin|Hin].
  - destruct (lookup st0 k); reflexivity.
  - destruct (lookup st0 k) eqn:E; [|reflexivity]. exfalso. apply Hin. apply Hk. congruence.
Qed.

Lemma Ii_inv_enc s : Ii s -> enc_ok e (nstates c) (i_inv s).
Proof.
  intros [Hl _ Hinv _]. destruct (enc_from_Il _ Hl) as (H1 & _).
  destruct Hinv as [->|(l & Hl' & ->)].
  - destruct (enc_inv _ H1) as [H _]. exact H.
  - now destruct (enc_from_Il _ Hl') as (H & _).
Qed.

Variable own_md5 : bytes.

Lemma beq_bytes_refl b : beq_bytes b b = true.
Proof. induction b as [|x r IH]; cbn; [reflexivity|]. now rewrite N.eqb_refl, IH. Qed.

Lemma beq_bytes_eq a : forall b, beq_bytes a b = true -> a = b.
Proof.
  induction a as [|x r IH]; intros [|y t] H; cbn in H; try discriminate; [reflexivity|].
  apply andb_true_iff in H. destruct H as [H1 H2]. apply N.eqb_eq in H1. subst. f_equal. now apply IH.
Qed.

(* U: every written component is restored *)
Theorem roundtrip_state_generic rc s sn :
  Ii s -> serialize e c sz_fixed own_md5 rc s = Some sn ->
  exists r, deserialize e sz_fixed own_md5 fresh sn = DsOk r /\
            restored (i_l s) (i_l r) /\ store_equiv (x_store (i_x s)) (x_store (i_x r)) /\
            x_eq (i_x r) = x_eq (i_x s) /\ i_inv r = i_inv s /\ i_dq r = i_dq s /\
            x_iq (i_x r) = [] /\ x_out (i_x r) = [] /\
            l_init (i_l r) = true /\ l_spont (i_l r) = false /\ l_cancelled (i_l r) = false.
Proof.
  intros Hs Hser. unfold serialize in Hser. destruct (serializable rc); [|discriminate].
  inversion Hser as [Hsn]. clear Hser.
  pose proof Hs as [Hl [Hk _] _ Hdq].
  destruct (enc_from_Il _ Hl) as (E1 & E2 & E3). pose proof (Ii_inv_enc s Hs) as E4.
  unfold deserialize. cbn [sn_md5 sn_cfg sn_hist sn_initd sn_inv sn_stable sn_final sn_data sn_eq sn_dq sz_fixed
                         sz_stable_lost sz_final_lost sz_delay_lost sz_queue_before_md5].
  rewrite beq_bytes_refl. cbn [negb].
  rewrite !decode_encode by assumption.
  eexists. split; [reflexivity|].
  cbn [i_l i_x i_inv i_dq fresh l_pristine x_init x_store x_iq x_eq x_out set_eq app
       l_cfg l_hist l_initd l_tlf l_fin l_stable l_init l_spont l_cancelled].
  assert (Hkf : keep_flag e false = false) by (unfold keep_flag; destruct e; reflexivity).
  rewrite !Hkf. rewrite !orb_false_r.
  repeat split; try reflexivity.
  - rewrite written_data_noskip by reflexivity. now apply restore_equiv.
  - now apply dq_rebuild.
  - destruct e; reflexivity.
Qed.

(* U: a state string that carries another digest is rejected, and (repaired order) leaves the interpreter as it was *)
Theorem foreign_rejected_generic v other_md5 rc s sn f :
  other_md5 <> own_md5 ->
  serialize e c v other_md5 rc s = Some sn ->
  exists f', deserialize e v own_md5 f sn = DsRejected f' /\ (sz_queue_before_md5 v = false -> f' = f).
Proof.
  intros Hne Hser. unfold serialize in Hser. destruct (serializable rc); [|discriminate].
  inversion Hser as [Hsn]. clear Hser. unfold deserialize. cbn [sn_md5].
  destruct (beq_bytes other_md5 own_md5) eqn:E; [apply beq_bytes_eq in E; contradiction|].
  cbn [negb]. eexists. split; [reflexivity|]. intros ->. reflexivity.
Qed.

(* U (repaired variant): the resumed interpreter continues exactly as the original, for every continuation *)
Theorem resume_bisimilar_generic rc s sn r :
  at_boundary rc s ->
  serialize e c sz_fixed own_md5 rc s = Some sn ->
  deserialize e sz_fixed own_md5 fresh sn = DsOk r ->
  forall fuel ins,
    let o' := icontinue rc fuel s ins in
    let r' := icontinue rc fuel r ins in
    (exists d, x_out (i_x o') = d ++ x_out (i_x s) /\ x_out (i_x r') = d ++ x_out (i_x r)) /\
    l_cfg (i_l o') = l_cfg (i_l r') /\ l_hist (i_l o') = l_hist (i_l r') /\ l_initd (i_l o') = l_initd (i_l r') /\
    store_equiv (x_store (i_x o')) (x_store (i_x r')) /\
    x_eq (i_x o') = x_eq (i_x r') /\ i_dq o' = i_dq r'.
Proof.
  intros [Hs Hb] Hser Hdes fuel ins.
  destruct (roundtrip_state_generic rc s sn Hs Hser) as (r0 & Hdes' & Hrest & Hst & Heq & Hinv & Hdq & Hiq & Hout & Hi & Hsp & Hc).
  rewrite Hdes in Hdes'. inversion Hdes'; subst r0. clear Hdes'.
  destruct Hrest as (R1 & R2 & R3 & R4 & R5 & R6).
  destruct Hb as [(Hrc & Hiq0 & F1 & F2 & F3 & F4 & F5 & F6)|(Hrc & Hfin)].
  - (* MACROSTEPPED / IDLE: the two states are related *)
    assert (HR : Ri (x_out (i_x s)) (x_out (i_x r)) s r).
    { constructor; auto.
      - destruct (i_l s), (i_l r). cbn in *. congruence.
      - constructor; auto.
        + congruence.
        + rewrite Hiq0. constructor.
        + exists []. split; reflexivity. }
    pose proof (icontinue_Ri _ _ rc fuel s r ins HR) as [Hl [Hx1 Hx2 Hx3 Hx4 Hx5] Hinv' Hdq'].
    cbv zeta. repeat split; try congruence; auto.
  - (* FINISHED: both stay finished *)
    subst rc. cbv zeta. unfold Serialize.icontinue. rewrite N.eqb_refl.
    destruct fuel as [|f].
    + repeat split; auto. exists []. split; reflexivity.
    + assert (Hfin' : l_fin (i_l r) = true) by congruence.
      unfold Serialize.istep. rewrite (step_fin_absorbing _ _ Hfin), (step_fin_absorbing _ _ Hfin').
      unfold divert, note, with_x, cfg_token. cbn [i_l i_x i_inv i_dq emit x_out x_store x_eq x_iq set_eq fst snd].
      rewrite <- R1.
      repeat split; auto.
      * eexists [_; _]. cbn [app]. split; reflexivity.
      * now rewrite Heq.
      * now rewrite Heq, Hdq.
Qed.

(* ---- the pinned code: what the resumed interpreter does differently when nothing else was lost ---- *)

Hypothesis step_stable_notice : forall l x,
  l_fin l = false -> l_tlf l = false -> l_spont l = false -> l_init l = true -> l_stable l = false -> x_iq x = [] ->
  step l x = (upd_flags l false true, emit TStable x, RC_MACROSTEPPED).

Lemma roundtrip_variant v rc s sn :
  Ii s -> sz_undeclared_restored v = false ->
  (forall id z, lookup (x_store (i_x s)) id = Some z -> sz_skip_value v z = false) ->
  serialize e c v own_md5 rc s = Some sn ->
  exists r, deserialize e v own_md5 fresh sn = DsOk r /\
    l_cfg (i_l r) = l_cfg (i_l s) /\ l_hist (i_l r) = l_hist (i_l s) /\ l_initd (i_l r) = l_initd (i_l s) /\
    l_stable (i_l r) = (if sz_stable_lost v then false else l_stable (i_l s)) /\
    l_tlf (i_l r) = (if sz_final_lost v then false else l_tlf (i_l s)) /\
    l_fin (i_l r) = (if sz_final_lost v then false else l_fin (i_l s)) /\
    store_equiv (x_store (i_x s)) (x_store (i_x r)) /\ x_eq (i_x r) = x_eq (i_x s) /\ i_inv r = i_inv s /\
    i_dq r = (if sz_delay_lost v then [] else i_dq s) /\ x_iq (i_x r) = [] /\ x_out (i_x r) = [] /\
    l_init (i_l r) = true /\ l_spont (i_l r) = false /\ l_cancelled (i_l r) = false.
Proof.
  intros Hs Hu Hskip Hser. unfold serialize in Hser. destruct (serializable rc); [|discriminate].
  inversion Hser as [Hsn]. clear Hser.
  pose proof Hs as [Hl [Hk _] _ Hdq].
  destruct (enc_from_Il _ Hl) as (E1 & E2 & E3). pose proof (Ii_inv_enc s Hs) as E4.
  unfold deserialize. cbn [sn_md5 sn_cfg sn_hist sn_initd sn_inv sn_stable sn_final sn_data sn_eq sn_dq].
  rewrite beq_bytes_refl. cbn [negb].
  rewrite !decode_encode by assumption.
  eexists. split; [reflexivity|].
  cbn [i_l i_x i_inv i_dq fresh l_pristine x_init x_store x_iq x_eq x_out set_eq app
       l_cfg l_hist l_initd l_tlf l_fin l_stable l_init l_spont l_cancelled].
  assert (Hkf : keep_flag e false = false) by (unfold keep_flag; destruct e; reflexivity).
  rewrite !Hkf.
  repeat split; try reflexivity.
  - destruct (sz_stable_lost v); [reflexivity|apply orb_false_r].
  - destruct (sz_final_lost v); [reflexivity|apply orb_false_r].
  - destruct (sz_final_lost v); [reflexivity|apply orb_false_r].
  - rewrite written_data_noskip by exact Hskip. now apply restore_equiv.
  - destruct (sz_delay_lost v); [reflexivity|now apply dq_rebuild].
  - destruct e; reflexivity.
Qed.

Definition plain (ev : event) : Prop := is_delayed ev = false.
Definition plain_input (i : input) : Prop :=
  match i with InEv n => plain {| ev_name := n; ev_kind := EvExternal |} | InTick => True end.

Lemma filter_plain q : Forall plain q -> filter (fun ev => negb (is_delayed ev)) q = q /\ filter is_delayed q = [].
Proof.
  induction q as [|a t IH]; intros H; cbn [filter]; [split; reflexivity|].
  inversion H as [|? ? Ha Ht]; subst. unfold plain in Ha. rewrite Ha. cbn [negb].
  destruct (IH Ht) as [H1 H2]. now rewrite H1, H2.
Qed.

(* _partial (the code as pinned, nothing but the STABLE flag lost): the first step of the resumed interpreter is
   one more stable-configuration notice with result MACROSTEPPED; from then on it is related to the original,
   hence (irun_Ri) continues exactly like it.  [s0]/[r0]: original and resumed interpreter after the input that
   follows an IDLE snapshot has been handed in, or the snapshot states themselves *)
Theorem pinned_extra_stable_notice s0 r0 :
  boundary_flags (i_l s0) -> x_iq (i_x s0) = [] ->
  Forall plain (x_eq (i_x s0)) ->
  i_l r0 = upd_flags (i_l s0) false false ->
  store_equiv (x_store (i_x s0)) (x_store (i_x r0)) -> x_iq (i_x r0) = [] -> x_eq (i_x r0) = x_eq (i_x s0) ->
  i_inv r0 = i_inv s0 -> i_dq r0 = i_dq s0 ->
  (e = ELarge -> i_inv s0 = l_cfg (i_l s0)) ->
  snd (istep r0) = RC_MACROSTEPPED /\
  Ri (x_out (i_x s0)) ([cfg_token c (i_l s0); TRet RC_MACROSTEPPED; TStable] ++ x_out (i_x r0))
     s0 (note c RC_MACROSTEPPED (fst (istep r0))).
Proof.
  intros (F1 & F2 & F3 & F4 & F5 & F6) Hiq Hpl Hl Hst Hiqr Heq Hinv Hdq HinvL.
  unfold Serialize.istep.
  assert (Hstep : step (i_l r0) (i_x r0) = (upd_flags (i_l r0) false true, emit TStable (i_x r0), RC_MACROSTEPPED)).
  { apply step_stable_notice; rewrite ?Hl; cbn; auto. }
  rewrite Hstep.
  unfold divert. cbn [emit x_eq x_iq x_store x_out fst snd].
  rewrite Heq. destruct (filter_plain _ Hpl) as [P1 P2]. rewrite P1, P2. cbn [fold_left].
  split; [reflexivity|].
  assert (El : upd_flags (i_l r0) false true = i_l s0).
  { rewrite Hl. destruct (i_l s0). cbn in *. subst. reflexivity. }
  constructor; cbn [note with_x i_l i_x i_inv i_dq].
  - now rewrite El.
  - constructor; cbn [emit set_eq x_store x_iq x_eq x_out].
    + exact Hst.
    + now rewrite Hiq, Hiqr.
    + rewrite Hiq. constructor.
    + reflexivity.
    + exists []. cbn [app]. rewrite El. split; reflexivity.
  - unfold inv_after, completing, at_queue_point. rewrite Hl, Hiqr. cbn [upd_flags l_fin l_tlf l_spont l_cfg].
    rewrite F1, F2. cbn [negb andb].
    unfold is_pristine. cbn [upd_flags l_spont l_init l_tlf l_fin l_stable]. rewrite F4. cbn.
    destruct e; [now apply HinvL|now rewrite Hinv].
  - now rewrite Hdq.
Qed.

Hypothesis step_boundary_pre : forall l x l' x' rc, Jl l -> Forall named (x_iq x) -> step l x = (l', x', rc) ->
  rc = RC_MACROSTEPPED \/ rc = RC_IDLE -> at_queue_point l x = true /\ completing l = false /\ l_cfg l' = l_cfg l.

(* at a MACROSTEPPED / IDLE boundary LargeMicroStep's _invocations is the configuration *)
Lemma irun_to_inv_cfg fuel k ins sp : e = ELarge ->
  irun_to fuel k fresh ins = Some sp -> st_rc sp = RC_MACROSTEPPED \/ st_rc sp = RC_IDLE ->
  i_inv (st_state sp) = l_cfg (i_l (st_state sp)).
Proof.
  intros He Hrun Hrc. destruct (irun_to_spec fuel k fresh ins sp fresh_Ii Hrun) as (s0 & Hs0 & Est & Erc & Eb).
  rewrite Est. unfold Serialize.istep in *. destruct Hs0 as [Hl [_ Hn] _ _].
  destruct (step (i_l s0) (i_x s0)) as [[l1 x1] rc] eqn:Es.
  unfold divert in *. cbn [fst snd] in *. subst rc. cbn [note with_x i_l i_inv].
  destruct (step_boundary_pre _ _ _ _ _ Hl Hn Es Hrc) as (A & B & C).
  unfold inv_after. rewrite He, A, B. now rewrite C.
Qed.

(* _partial for whole continuations after a MACROSTEPPED snapshot: one extra notice, then identical *)
Theorem pinned_continuation_generic v fuel k ins sp sn r :
  e = ELarge ->
  sz_stable_lost v = true -> sz_undeclared_restored v = false -> (forall z, sz_skip_value v z = false) ->
  irun_to fuel k fresh ins = Some sp -> st_rc sp = RC_MACROSTEPPED ->
  (sz_delay_lost v = true -> i_dq (st_state sp) = []) ->
  Forall plain (x_eq (i_x (st_state sp))) ->
  serialize e c v own_md5 (st_rc sp) (st_state sp) = Some sn ->
  deserialize e v own_md5 fresh sn = DsOk r ->
  forall fuel' ins',
    since r (irun (S fuel') r ins') =
    [TStable; TRet RC_MACROSTEPPED; cfg_token c (i_l (st_state sp))] ++ since (st_state sp) (irun fuel' (st_state sp) ins').
Proof.
  intros He Hsl Hu Hsk Hrun Hrc Hdl Hpl Hser Hdes fuel' ins'.
  pose proof (irun_to_boundary fuel k ins sp Hrun) as [Hi Hb].
  destruct Hb as [(_ & Hiq & Hflags)|[Hf _]]; [|rewrite Hrc in Hf; discriminate].
  destruct (roundtrip_variant v _ _ _ Hi Hu (fun _ z _ => Hsk z) Hser) as (r0 & Hd & C1 & C2 & C3 & C4 & C5 & C6 & Hst & Heq & Hinv & Hdq & Hiqr & Hout & Hin & Hsp & Hca).
  rewrite Hdes in Hd. inversion Hd; subst r0. clear Hd.
  pose proof Hflags as (F1 & F2 & F3 & F4 & F5 & F6).
  assert (Hl : i_l r = upd_flags (i_l (st_state sp)) false false).
  { rewrite Hsl in C4. destruct (sz_final_lost v); destruct (i_l r), (i_l (st_state sp)); cbn in *; subst; reflexivity. }
  assert (Hdq' : i_dq r = i_dq (st_state sp)).
  { destruct (sz_delay_lost v); [now rewrite Hdl|exact Hdq]. }
  destruct (pinned_extra_stable_notice (st_state sp) r Hflags Hiq Hpl Hl Hst Hiqr Heq Hinv Hdq'
              (fun _ => irun_to_inv_cfg fuel k ins sp He Hrun (or_introl Hrc))) as [Erc HR].
  cbn [Serialize.irun]. destruct (istep r) as [r1 rc1] eqn:Er. cbn [fst snd] in Erc, HR. subst rc1.
  change ((RC_MACROSTEPPED =? RC_FINISHED)%N) with false. change ((RC_MACROSTEPPED =? RC_IDLE)%N) with false. cbv iota.
  pose proof (irun_Ri _ _ fuel' _ _ ins' HR) as [_ [_ _ _ _ (d & D1 & D2)] _ _].
  unfold since. rewrite D1, D2, Hout, app_nil_r, !app_length. cbn [length].
  replace (length d + length (x_out (i_x (st_state sp))) - length (x_out (i_x (st_state sp)))) with (length d) by lia.
  replace (length d + 3 - 0) with (length d + 3) by lia.
  rewrite (firstn_all2 (n := length d + 3)) by (rewrite app_length; cbn; lia).
  rewrite (firstn_app (length d) d), Nat.sub_diag, firstn_O, app_nil_r, firstn_all.
  rewrite rev_app_distr. reflexivity.
Qed.

End Generic.

(* ================================================================== the default engine (LargeMicroStep) *)

Section LargeFinal.
Variable lv : lg_variant.
Variable xv : ex_variant.
Variable c : fchart.
Hypothesis Hnamed : chart_named c = true.

Notation lstep := (large_step lv xv c).

Lemma L_boundary l x l' x' rc : Il l -> Forall named (x_iq x) -> lstep l x = (l', x', rc) ->
  rc = RC_MACROSTEPPED \/ rc = RC_IDLE -> x_iq x' = [] /\ boundary_flags l'.
Proof.
  intros Hl Hn Hs Hrc. destruct (large_boundary lv xv c l x l' x' rc Hl Hn Hs Hrc) as [H|H]; tauto.
Qed.

Lemma L_enc l : Il l -> enc_ok ELarge (nstates c) (l_cfg l) /\ enc_ok ELarge (nstates c) (l_hist l) /\ enc_ok ELarge (nstates c) (l_initd l).
Proof. intros [(H1 & H2 & H3) _ _]. cbn. auto. Qed.

Lemma L_enc_inv l : enc_ok ELarge (nstates c) (l_cfg l) -> enc_ok ELarge (nstates c) [] /\
  (forall inv, inv = l_cfg l \/ inv = [] -> enc_ok ELarge (nstates c) inv).
Proof. cbn. intros H. split; [constructor|]. intros inv [->| ->]; [exact H|constructor]. Qed.

Lemma L_irun_to_boundary fuel k ins sp :
  irun_to ELarge c lstep fuel k fresh ins = Some sp -> at_boundary c Il (st_rc sp) (st_state sp).
Proof.
  apply (irun_to_boundary ELarge c lstep Il).
  - apply l_pristine_Il.
  - apply large_step_Il.
  - apply large_step_Ix, Hnamed.
  - apply L_boundary.
  - apply large_finished.
  - apply L_enc.
  - apply L_enc_inv.
Qed.

(* U: at every macrostep boundary of every run the internal queue is empty -- why serialize() may omit it *)
Theorem internal_queue_empty_at_boundary_lemma fuel k ins sp :
  irun_to ELarge c lstep fuel k fresh ins = Some sp ->
  st_rc sp = RC_MACROSTEPPED \/ st_rc sp = RC_IDLE ->
  x_iq (i_x (st_state sp)) = [].
Proof.
  intros Hrun Hrc.
  pose proof (L_irun_to_boundary fuel k ins sp Hrun) as [_ [H|[H _]]].
  - tauto.
  - destruct Hrc as [Hrc|Hrc]; rewrite Hrc in H; discriminate.
Qed.

Lemma since_app a b d : x_out (i_x b) = d ++ x_out (i_x a) -> since a b = rev d.
Proof.
  intros H. unfold since. rewrite H, app_length. replace (length d + length (x_out (i_x a)) - length (x_out (i_x a))) with (length d) by lia.
  now rewrite firstn_app, Nat.sub_diag, firstn_O, app_nil_r, firstn_all.
Qed.

Variable md5 : bytes.

(* U: the state reached at any boundary of any run survives serialize / deserialize in every written component *)
Theorem roundtrip_state_lemma fuel k ins sp :
  irun_to ELarge c lstep fuel k fresh ins = Some sp ->
  exists sn r,
    serialize ELarge c sz_fixed md5 (st_rc sp) (st_state sp) = Some sn /\
    deserialize ELarge sz_fixed md5 fresh sn = DsOk r /\
    restored (i_l (st_state sp)) (i_l r) /\
    store_equiv (x_store (i_x (st_state sp))) (x_store (i_x r)) /\
    x_eq (i_x r) = x_eq (i_x (st_state sp)) /\ i_inv r = i_inv (st_state sp) /\ i_dq r = i_dq (st_state sp).
Proof.
  intros Hrun.
  pose proof (L_irun_to_boundary fuel k ins sp Hrun) as [Hi Hb].
  assert (Hser : exists sn, serialize ELarge c sz_fixed md5 (st_rc sp) (st_state sp) = Some sn).
  { unfold serialize. assert (E : serializable (st_rc sp) = true).
    { unfold serializable. destruct Hb as [[[E|E] _]|[E _]]; rewrite E; reflexivity. }
    rewrite E. eexists. reflexivity. }
  destruct Hser as [sn Hser]. exists sn.
  destruct (roundtrip_state_generic ELarge c Il L_enc L_enc_inv md5 _ _ _ Hi Hser) as (r & Hd & H1 & H2 & H3 & H4 & H5 & _).
  exists r. tauto.
Qed.

(* U (repaired variant): for every chart, history, boundary and continuation, the original and the resumed
   interpreter add the same tokens to their traces and end in the same configuration, history, data, queues *)
Theorem resume_bisimilar_lemma fuel k ins res :
  serialize_resume ELarge c lstep sz_fixed md5 md5 fuel k ins = Some res ->
  exists sn r r',
    sr_snap res = Some sn /\ sr_des res = Some (DsOk r) /\ sr_res res = Some r' /\
    since (st_state (sr_stop res)) (sr_orig res) = since r r' /\
    l_cfg (i_l (sr_orig res)) = l_cfg (i_l r') /\ l_hist (i_l (sr_orig res)) = l_hist (i_l r') /\
    l_initd (i_l (sr_orig res)) = l_initd (i_l r') /\
    store_equiv (x_store (i_x (sr_orig res))) (x_store (i_x r')) /\
    x_eq (i_x (sr_orig res)) = x_eq (i_x r') /\ i_dq (sr_orig res) = i_dq r'.
Proof.
  unfold serialize_resume. intros Hres.
  destruct (irun_to ELarge c lstep fuel k fresh ins) as [sp|] eqn:Hrun; [|discriminate].
  pose proof (L_irun_to_boundary fuel k ins sp Hrun) as Hb.
  destruct (roundtrip_state_lemma fuel k ins sp Hrun) as (sn & r & Hser & Hdes & _).
  rewrite Hser, Hdes in Hres. inversion Hres; subst res. clear Hres. cbn [sr_snap sr_des sr_res sr_stop sr_orig].
  exists sn, r, (icontinue ELarge c lstep (st_rc sp) (st_fuel sp) r (st_ins sp)).
  destruct (resume_bisimilar_generic ELarge c lstep Il (large_step_cong lv xv c Hnamed)
              (large_step_finished_absorbing lv xv c) L_enc L_enc_inv md5
              (st_rc sp) (st_state sp) sn r Hb Hser Hdes (st_fuel sp) (st_ins sp)) as ((d & D1 & D2) & R).
  repeat split; try tauto.
  rewrite (since_app _ _ d D1), (since_app _ _ d D2). reflexivity.
Qed.

(* _partial (code as pinned): after a MACROSTEPPED snapshot at which nothing but the STABLE flag is lost (no
   pending delayed event, no event with the delay marker in the external queue, a datamodel that leaves
   undefined values undefined), the resumed interpreter emits exactly one extra stable-configuration notice
   and then the same continuation as the original, for every continuation *)
Theorem resume_pinned_partial_lemma v fuel k ins sp sn r :
  sz_stable_lost v = true -> sz_undeclared_restored v = false -> (forall z, sz_skip_value v z = false) ->
  irun_to ELarge c lstep fuel k fresh ins = Some sp -> st_rc sp = RC_MACROSTEPPED ->
  (sz_delay_lost v = true -> i_dq (st_state sp) = []) ->
  Forall plain (x_eq (i_x (st_state sp))) ->
  serialize ELarge c v md5 (st_rc sp) (st_state sp) = Some sn ->
  deserialize ELarge v md5 fresh sn = DsOk r ->
  forall fuel' ins',
    since r (irun ELarge c lstep (S fuel') r ins') =
    [TStable; TRet RC_MACROSTEPPED; cfg_token c (i_l (st_state sp))] ++
    since (st_state sp) (irun ELarge c lstep fuel' (st_state sp) ins').
Proof.
  apply (pinned_continuation_generic ELarge c lstep Il).
  - apply l_pristine_Il.
  - apply large_step_cong, Hnamed.
  - apply large_step_Il.
  - apply large_step_Ix, Hnamed.
  - apply L_boundary.
  - apply large_finished.
  - apply L_enc.
  - apply L_enc_inv.
  - apply large_stable_notice.
  - apply large_boundary_pre.
  - reflexivity.
Qed.

(* _partial for a variant that leaves values out of the state string (sz_skip_value): at any boundary of any run at
   which no variable holds such a value, every variable is restored *)
Theorem roundtrip_state_unless_skipped_lemma v fuel k ins sp sn :
  sz_undeclared_restored v = false ->
  irun_to ELarge c lstep fuel k fresh ins = Some sp ->
  (forall id z, lookup (x_store (i_x (st_state sp))) id = Some z -> sz_skip_value v z = false) ->
  serialize ELarge c v md5 (st_rc sp) (st_state sp) = Some sn ->
  exists r, deserialize ELarge v md5 fresh sn = DsOk r /\
            store_equiv (x_store (i_x (st_state sp))) (x_store (i_x r)) /\
            l_cfg (i_l r) = l_cfg (i_l (st_state sp)) /\ l_hist (i_l r) = l_hist (i_l (st_state sp)) /\
            x_eq (i_x r) = x_eq (i_x (st_state sp)).
Proof.
  intros Hu Hrun Hskip Hser.
  pose proof (L_irun_to_boundary fuel k ins sp Hrun) as [Hi _].
  destruct (roundtrip_variant ELarge c Il L_enc L_enc_inv md5 v _ _ _ Hi Hu Hskip Hser)
    as (r & Hd & C1 & C2 & _ & _ & _ & _ & Hst & Heq & _).
  exists r. auto.
Qed.

(* U: a state string of a document with another digest is rejected; with the check in front of the queue
   restoration the rejecting interpreter is left untouched *)
Theorem foreign_state_rejected_lemma v other_md5 rc s sn f :
  other_md5 <> md5 ->
  serialize ELarge c v other_md5 rc s = Some sn ->
  exists f', deserialize ELarge v md5 f sn = DsRejected f' /\ (sz_queue_before_md5 v = false -> f' = f).
Proof. apply foreign_rejected_generic. Qed.

End LargeFinal.

(* ================================================================== witnesses: what the pinned code loses *)

Definition ev_e : bytes := [101%N].
Definition ev_f : bytes := [102%N].
Definition leaf (k : skind) (sid : N) (tr : list ttrans) (en ex : list block) : tree := TNode k sid None tr en ex [] [].
Definition ttr (vid : N) (ev : bytes) (tg : N) : ttrans :=
  {| tt_vid := vid; tt_event := Some ev; tt_cond := None; tt_targets := Some [tg]; tt_internal := false; tt_body := [] |}.

(* corpus w-stable: one state *)
Definition w_stable : tree := TNode KScxml 0 None [] [] [] [] [leaf KState 1 [] [] []].
(* corpus w-delayed: s1 sends f with a delay on entry and goes to s2 on f *)
Definition w_delayed : tree :=
  TNode KScxml 0 None [] [] [] []
        [leaf KState 1 [ttr 101 ev_f 2] [[ISend 104 [126; 48; 102]%N]] []; leaf KState 2 [] [] []].
(* corpus w-finished: s1 -e-> final s2 *)
Definition w_finished : tree :=
  TNode KScxml 0 None [] [] [] [] [leaf KState 1 [ttr 101 ev_e 2] [] []; leaf KFinal 2 [] [] []].
(* corpus w-foreign-a / w-foreign-b *)
Definition w_foreign_a : tree := TNode KScxml 0 None [] [] [] [] [leaf KState 1 [] [[ISend 104 ev_f]] []].
Definition w_foreign_b : tree :=
  TNode KScxml 0 None [] [] [] [] [leaf KState 1 [ttr 101 ev_f 2] [] []; leaf KState 2 [] [] []].
(* corpus w-undeclared: binding=late, Var2 belongs to s2 which is never entered; on e: Var2 := 5; log Var2 *)
Definition w_undeclared : tree :=
  TNode KScxml 0 None [] [] [] [(1%N, INum 5)]
        [leaf KState 1 [{| tt_vid := 101; tt_event := Some ev_e; tt_cond := None; tt_targets := None; tt_internal := false;
                           tt_body := [IAssign 105 2 (INum 5); ILog 106 (IVar 2)] |}] [] [];
         TNode KState 2 None [] [] [] [(2%N, INum 7)] []].
(* corpus w-history: a recorded shallow history value *)
Definition w_history : tree :=
  TNode KScxml 0 None [] [] [] []
        [TNode KState 1 None [ttr 101 ev_e 4] [] [] []
               [leaf KHistShallow 9 [{| tt_vid := 103; tt_event := None; tt_cond := None; tt_targets := Some [2%N]; tt_internal := false; tt_body := [] |}] [] [];
                leaf KState 2 [ttr 104 ev_f 3] [] []; leaf KState 3 [] [] []];
         leaf KState 4 [ttr 102 ev_e 9] [] []].

Definition only (d s f q u : bool) : sz_variant :=
  {| sz_delay_lost := d; sz_stable_lost := s; sz_final_lost := f; sz_queue_before_md5 := q; sz_undeclared_restored := u;
     sz_skip_value := fun _ => false |}.
Definition dg : bytes := [1%N].
Definition dg2 : bytes := [2%N].

(* the two continuation traces of an experiment *)
Definition traces (r : option sr_result) : option (list tok * list tok) :=
  match r with
  | Some res => match sr_des res, sr_res res with
                | Some (DsOk r0), Some r' => Some (since (st_state (sr_stop res)) (sr_orig res), since r0 r')
                | _, _ => None
                end
  | None => None
  end.

Definition differs (r : option sr_result) : bool :=
  match traces r with
  | Some (a, b) => negb (length a =? length b) ||
                   existsb (fun p => match fst p, snd p with
                                     | TStable, TStable => false | TStable, _ => true | _, TStable => true
                                     | TRet x, TRet y => negb (x =? y)%N
                                     | TEv x, TEv y => negb (beq_bytes x y)
                                     | TLog x, TLog y => negb (x =? y)%Z
                                     | _, _ => false end) (combine a b)
  | None => false
  end.

(* the charts of the witnesses satisfy the hypothesis of the theorems *)
Example witnesses_named :
  chart_named (flatten false w_stable) = true /\ chart_named (flatten false w_delayed) = true /\
  chart_named (flatten false w_finished) = true /\ chart_named (flatten true w_undeclared) = true /\
  chart_named (flatten false w_history) = true.
Proof. vm_compute. repeat split. Qed.

(* STABLE flag lost: one extra stable notice (chart w-stable, empty history, k = 0, empty continuation) *)
Lemma stable_lost_refuted :
  differs (sr_large lg_fixed ex_fixed (only false true false false false) false w_stable dg dg 10 0 []) = true /\
  traces (sr_large lg_fixed ex_fixed (only false true false false false) false w_stable dg dg 10 0 []) =
    Some ([TRet RC_IDLE; TCfg [0; 1]%N], [TStable; TRet RC_MACROSTEPPED; TCfg [0; 1]%N; TRet RC_IDLE; TCfg [0; 1]%N]).
Proof. vm_compute. split; reflexivity. Qed.

(* delayed events lost (chart w-delayed, k = 0, continuation: tick): the original takes the transition on f *)
Lemma delay_lost_refuted :
  differs (sr_large lg_fixed ex_fixed (only true false false false false) false w_delayed dg dg 20 0 [InTick]) = true.
Proof. vm_compute. reflexivity. Qed.

(* FINISHED lost (chart w-finished, history e, k = 2): the original stays finished, the resumed one runs *)
Lemma final_lost_refuted :
  traces (sr_large lg_fixed ex_fixed (only false false true false false) false w_finished dg dg 20 2 [InEv ev_e]) =
    Some ([TRet RC_FINISHED; TCfg [0; 2]%N], [TStable; TRet RC_MACROSTEPPED; TCfg [0; 2]%N]).
Proof. vm_compute. reflexivity. Qed.

(* an undeclared late <data> becomes declared (Promela; chart w-undeclared, binding=late, k = 0, continuation e) *)
Lemma undeclared_restored_refuted :
  differs (sr_large lg_fixed ex_fixed (only false false false false true) true w_undeclared dg dg 20 0 [InEv ev_e]) = true.
Proof. vm_compute. reflexivity. Qed.

(* with every switch off the same experiments agree (instances of resume_bisimilar) *)
Example witnesses_agree_when_repaired :
  differs (sr_large lg_fixed ex_fixed sz_fixed false w_stable dg dg 10 0 []) = false /\
  differs (sr_large lg_fixed ex_fixed sz_fixed false w_delayed dg dg 20 0 [InTick]) = false /\
  differs (sr_large lg_fixed ex_fixed sz_fixed false w_finished dg dg 20 2 [InEv ev_e]) = false /\
  differs (sr_large lg_fixed ex_fixed sz_fixed true w_undeclared dg dg 20 0 [InEv ev_e]) = false /\
  differs (sr_large lg_fixed ex_fixed sz_fixed false w_history dg dg 30 4 [InEv ev_f; InEv ev_e; InEv ev_e]) = false.
Proof. vm_compute. repeat split. Qed.

(* the history witness really has a recorded history value at its snapshot point *)
Example history_witness_nontrivial :
  match sr_large lg_fixed ex_fixed sz_fixed false w_history dg dg 30 4 [InEv ev_f; InEv ev_e; InEv ev_e] with
  | Some res => l_hist (i_l (st_state (sr_stop res))) <> [] /\ st_ins (sr_stop res) <> []
  | None => False
  end.
Proof. vm_compute. split; discriminate. Qed.

(* the queues are restored before the digest is compared: the rejecting interpreter keeps A's pending event *)
Definition foreign_experiment (v : sz_variant) : option dresult :=
  let ca := flatten false w_foreign_a in
  match irun_to ELarge ca (large_step lg_fixed ex_fixed ca) 10 0 fresh [] with
  | Some sp => match serialize ELarge ca v dg (st_rc sp) (st_state sp) with
               | Some sn => Some (deserialize ELarge v dg2 fresh sn)
               | None => None
               end
  | None => None
  end.

Lemma foreign_unclean_refuted :
  match foreign_experiment (only false false false true false) with
  | Some (DsRejected f') => x_eq (i_x f') = [{| ev_name := ev_f; ev_kind := EvExternal |}]
  | _ => False
  end /\
  match foreign_experiment sz_fixed with
  | Some (DsRejected f') => f' = fresh
  | _ => False
  end.
Proof. vm_compute. split; reflexivity. Qed.

(* ---- values left out of the state string (sz_skip_value) ---- *)

(* corpus doc-empty-value analogue in the integer store: Var1 = 0; on e the value is logged *)
Definition w_skipped : tree :=
  TNode KScxml 0 None [] [] [] [(1%N, INum 0)]
        [leaf KState 1 [{| tt_vid := 101; tt_event := Some ev_e; tt_cond := None; tt_targets := None; tt_internal := false;
                           tt_body := [ILog 106 (IVar 1)] |}] [] []].

Definition skip_zero : sz_variant :=
  {| sz_delay_lost := false; sz_stable_lost := false; sz_final_lost := false; sz_queue_before_md5 := false;
     sz_undeclared_restored := false; sz_skip_value := fun z => (z =? 0)%Z |}.

(* a variant that leaves the value 0 out loses it: the original logs 0, the resumed interpreter -- whose <data>
   initialisation is skipped because the initialised-data set is restored -- has no value and raises error.execution *)
Lemma skipped_value_refuted :
  chart_named (flatten false w_skipped) = true /\
  differs (sr_large lg_fixed ex_fixed skip_zero false w_skipped dg dg 20 0 [InEv ev_e]) = true /\
  match sr_large lg_fixed ex_fixed skip_zero false w_skipped dg dg 20 0 [InEv ev_e] with
  | Some res => match sr_des res with
                | Some (DsOk r) => lookup (x_store (i_x (st_state (sr_stop res)))) 1%N = Some 0%Z /\ lookup (x_store (i_x r)) 1%N = None
                | _ => False
                end
  | None => False
  end /\
  differs (sr_large lg_fixed ex_fixed sz_fixed false w_skipped dg dg 20 0 [InEv ev_e]) = false.
Proof. vm_compute. repeat split; reflexivity. Qed.
