(* RunConformHistSelErase.v -- C01 selection on charts with <history> (wf_histb), layer 1: the ERASED chart.  [eraseh c]
   turns every pseudo-state (<initial>, <history>) into an atomic state and replaces the completion of every compound
   state by its first child; nothing else changes.  If c satisfies WFH, [eraseh c] is a chart of the history-free core
   (record WF of LegalLarge.v) and a legal configuration of proper states of c is a legal configuration of [eraseh c].
   The copy of RunConformInitialSelErase.v without the hypothesis "no history state".  Definitions and proofs. *)
From V Require Import Base NameMatch Chart Exec Large LargeLemmas Spec Legal SetLemmas LegalAbstract LegalLarge LegalRun
  WfCore LegalHistBase LegalHistEntry LegalHistStep LegalHistWf.
Local Open Scope nat_scope.

Definition erh_type (t : ftype) : ftype := match t with FInitial | FHistShallow | FHistDeep => FAtomic | _ => t end.

Definition erh (s : fstate) : fstate :=
  {| fs_type := erh_type (fs_type s);
     fs_sid := fs_sid s;
     fs_parent := fs_parent s;
     fs_children := fs_children s;
     fs_ancestors := fs_ancestors s;
     fs_completion := match fs_type s with
                      | FCompound => match fs_children s with k :: _ => [k] | [] => [] end
                      | _ => fs_completion s
                      end;
     fs_trans := fs_trans s;
     fs_onentry := fs_onentry s;
     fs_onexit := fs_onexit s;
     fs_data := fs_data s;
     fs_size := fs_size s |}.

Definition eraseh (c : fchart) : fchart :=
  {| fc_states := map erh (fc_states c); fc_trans := fc_trans c; fc_late := fc_late c |}.

Lemma erh_dummy : erh dummy_state = dummy_state.
Proof. reflexivity. Qed.

Lemma st_eraseh c i : st (eraseh c) i = erh (st c i).
Proof. unfold st. rewrite <- (map_nth erh (fc_states c) dummy_state i). reflexivity. Qed.

Lemma tr_eraseh c i : tr (eraseh c) i = tr c i.
Proof. reflexivity. Qed.

Lemma nstates_eraseh c : nstates (eraseh c) = nstates c.
Proof. unfold nstates, eraseh. cbn [fc_states]. apply map_length. Qed.

Lemma ntrans_eraseh c : ntrans (eraseh c) = ntrans c.
Proof. reflexivity. Qed.

Lemma type_eraseh c i : fs_type (st (eraseh c) i) = erh_type (fs_type (st c i)).
Proof. now rewrite st_eraseh. Qed.
Lemma sid_eraseh c i : fs_sid (st (eraseh c) i) = fs_sid (st c i).
Proof. now rewrite st_eraseh. Qed.
Lemma par_eraseh c i : fs_parent (st (eraseh c) i) = fs_parent (st c i).
Proof. now rewrite st_eraseh. Qed.
Lemma ch_eraseh c i : fs_children (st (eraseh c) i) = fs_children (st c i).
Proof. now rewrite st_eraseh. Qed.
Lemma anc_eraseh c i : fs_ancestors (st (eraseh c) i) = fs_ancestors (st c i).
Proof. now rewrite st_eraseh. Qed.
Lemma trans_eraseh c i : fs_trans (st (eraseh c) i) = fs_trans (st c i).
Proof. now rewrite st_eraseh. Qed.
Lemma size_eraseh c i : fs_size (st (eraseh c) i) = fs_size (st c i).
Proof. now rewrite st_eraseh. Qed.

Lemma erh_type_comp t : is_comp (erh_type t) = is_comp t.
Proof. now destruct t. Qed.
Lemma erh_type_compound t : erh_type t = FCompound -> t = FCompound.
Proof. destruct t; cbn; congruence. Qed.
Lemma erh_type_parallel t : erh_type t = FParallel -> t = FParallel.
Proof. destruct t; cbn; congruence. Qed.

Lemma Anc_ext_h (p1 p2 : nat -> option nat) : (forall i, p1 i = p2 i) -> forall a b, Anc p1 a b <-> Anc p2 a b.
Proof.
  intros E a b. split; induction 1 as [i p Hp|i p a Hp Ha IH].
  - apply anc_parent. now rewrite <- E.
  - eapply anc_step; [rewrite <- E; exact Hp | exact IH].
  - apply anc_parent. now rewrite E.
  - eapply anc_step; [rewrite E; exact Hp | exact IH].
Qed.

Lemma Anc_eraseh c a b :
  Anc (fun i => fs_parent (st (eraseh c) i)) a b <-> Anc (fun i => fs_parent (st c i)) a b.
Proof. apply Anc_ext_h. intros i. apply par_eraseh. Qed.

Section Erase.
Variable c : fchart.
Hypothesis W : WFH c.

Notation AncC := (Anc (fun i => fs_parent (st c i))).

(* a compound state has a child *)
Lemma compound_has_child_h i : fs_type (st c i) = FCompound -> fs_children (st c i) <> [].
Proof.
  intros Hk. destruct (wh_compound c W i Hk) as [Hne Hb].
  destruct (fs_completion (st c i)) as [|g r] eqn:E; [congruence|].
  destruct (hanc_child_on_path c i g (Hb g (or_introl eq_refl))) as (k & Hpk & _).
  apply (wh_children c W) in Hpk. intros E'. rewrite E' in Hpk. destruct Hpk.
Qed.

Theorem eraseh_WF : WF (eraseh c).
Proof.
  constructor.
  - rewrite par_eraseh. exact (wh_root_par c W).
  - intros i p. rewrite par_eraseh, nstates_eraseh. apply (wh_par_lt c W).
  - intros i. rewrite nstates_eraseh. intros H0 Hn. destruct (wh_par_some c W i H0 Hn) as (p & Hp).
    exists p. now rewrite par_eraseh.
  - intros p k. rewrite ch_eraseh, par_eraseh. apply (wh_children c W).
  - intros p. rewrite ch_eraseh. apply (wh_children_nodup c W).
  - intros i a. rewrite anc_eraseh, Anc_eraseh. apply (wh_anc c W).
  - intros a i. rewrite nstates_eraseh, size_eraseh, Anc_eraseh. apply (wh_interval c W).
  - intros i. rewrite type_eraseh. destruct (fs_type (st c i)); cbn; tauto.
  - rewrite type_eraseh. intros H. apply erh_type_parallel in H. exact (wh_root_type c W H).
  - intros i. rewrite type_eraseh, ch_eraseh. intros Hk. apply erh_type_compound in Hk.
    pose proof (compound_has_child_h i Hk) as Hne. rewrite st_eraseh. cbn [erh fs_completion]. rewrite Hk.
    destruct (fs_children (st c i)) as [|k r]; [congruence|]. exists k. split; [reflexivity | now left].
  - intros i k. rewrite type_eraseh, ch_eraseh. intros Hk. apply erh_type_parallel in Hk.
    rewrite st_eraseh. cbn [erh fs_completion]. rewrite Hk. now apply (wh_parallel c W).
  - intros s ti. rewrite trans_eraseh. apply (wh_tr_src c W).
  - intros ti g. rewrite nstates_eraseh. apply (wh_tr_targets c W).
  - intros ti i k1 k2 g1 g2. rewrite type_eraseh, ch_eraseh, !Anc_eraseh. intros Hk H1 H2 Hg1 Hg2 P1 P2.
    apply erh_type_compound in Hk. apply (wh_children c W) in H1, H2.
    exact (wh_target_sets c W ti i k1 k2 g1 g2 Hk H1 H2 Hg1 Hg2 P1 P2).
Qed.

(* a legal configuration of proper states of c is a legal configuration of the erased chart *)
Theorem eraseh_LegalCfg cfg : LegalCfgH c cfg -> LegalCfg (eraseh c) cfg.
Proof.
  intros [HL HB]. unfold LegalH in HL. split.
  - constructor.
    + exact (lg_root _ _ _ _ HL).
    + intros i p Hi. rewrite par_eraseh. intros Hp. apply (lg_parent _ _ _ _ HL i p Hi).
      unfold ppar. destruct (HB i Hi) as [_ Hps]. now rewrite Hps.
    + intros i Hi. rewrite type_eraseh, ch_eraseh. intros Hk. apply erh_type_compound in Hk.
      destruct (lg_compound_ex _ _ _ _ HL i Hi Hk) as (k & Hk1 & Hk2). exists k. split; [|exact Hk2].
      unfold pch, proper_children in Hk1. now apply filter_In in Hk1.
    + intros i k1 k2 Hi. rewrite type_eraseh, ch_eraseh. intros Hk H1 H2 C1 C2. apply erh_type_compound in Hk.
      apply (lg_compound_uniq _ _ _ _ HL i k1 k2 Hi Hk); try assumption;
        unfold pch, proper_children; apply filter_In; (split; [assumption|]); rewrite proper_type_pseudo.
      * destruct (HB k1 C1) as [_ Hps]. unfold pseudoS in Hps. now rewrite Hps.
      * destruct (HB k2 C2) as [_ Hps]. unfold pseudoS in Hps. now rewrite Hps.
    + intros i k Hi. rewrite type_eraseh, ch_eraseh. intros Hk Hin. apply erh_type_parallel in Hk.
      apply (lg_parallel _ _ _ _ HL i k Hi Hk). unfold pch, proper_children. apply filter_In. split; [exact Hin|].
      rewrite proper_type_pseudo. apply negb_true_iff. destruct (is_pseudo (fs_type (st c k))) eqn:Hps; [|reflexivity].
      exfalso. destruct (wh_pseudo_parent c W k Hps) as (q & Hq & Hkq).
      apply (wh_children c W) in Hin. rewrite Hin in Hq. inversion Hq; subst q. congruence.
  - intros x Hx. rewrite nstates_eraseh. now apply HB.
Qed.

End Erase.

Print Assumptions eraseh_WF.
Print Assumptions eraseh_LegalCfg.
