(* Spec.v -- a transliteration of the interpretation algorithm of W3C SCXML 1.0, Appendix D, over
   the flat chart.  Ordered sets are duplicate-free lists.  This file is the ORACLE for C01 and part
   of the trusted base; reading choices are listed in DESIGN.md Appendix B.  It uses only the
   declarative parts of the flat chart (kind, parent, children, transitions, initial/completion),
   none of the engine's intervals or caches.  The <scxml> element (index 0) is not a state of the
   configuration here, as in the Recommendation. *)
From V Require Import Base NameMatch Chart Exec Large.
Local Open Scope nat_scope.

Section Spec.
Variable c : fchart.

Definition sty (i : nat) := fs_type (st c i).
Definition is_atomic_state (i : nat) := match sty i with FAtomic | FFinal => true | _ => false end.
Definition is_compound_state (i : nat) := match sty i with FCompound => true | _ => false end.
Definition is_parallel_state (i : nat) := match sty i with FParallel => true | _ => false end.
Definition is_history_state (i : nat) := match sty i with FHistShallow | FHistDeep => true | _ => false end.
Definition is_final_state (i : nat) := match sty i with FFinal => true | _ => false end.
Definition is_proper (i : nat) := match sty i with FHistShallow | FHistDeep | FInitial => false | _ => true end.

(* parent chain, nearest first, up to but excluding [upto] (None = up to and including the root) *)
Fixpoint proper_ancestors (fuel : nat) (i : nat) (upto : option nat) : list nat :=
  match fuel with
  | O => []
  | S f => match fs_parent (st c i) with
           | None => []
           | Some p => match upto with
                       | Some u => if p =? u then [] else p :: proper_ancestors f p upto
                       | None => p :: proper_ancestors f p upto
                       end
           end
  end.
Definition n := nstates c.
Definition ancs (i : nat) (upto : option nat) := proper_ancestors n i upto.
Definition is_descendant (s a : nat) : bool := mem a (ancs s None).
Definition child_states (i : nat) : list nat := filter is_proper (fs_children (st c i)).

Definition add {A} (eqb : A -> A -> bool) (x : A) (l : list A) : list A :=
  if existsb (eqb x) l then l else l ++ [x].
Definition addn := add Nat.eqb.
Definition unionn (a b : list nat) := fold_left (fun a x => addn x a) b a.

(* historyValue *)
Definition hv := list (nat * list nat).
Fixpoint hv_get (h : hv) (i : nat) : option (list nat) :=
  match h with [] => None | (k, v) :: r => if k =? i then Some v else hv_get r i end.
Definition hv_set (h : hv) (i : nat) (v : list nat) : hv :=
  (i, v) :: filter (fun p => negb (fst p =? i)) h.

(* the transition of an <initial> or <history> element *)
Definition pseudo_trans (i : nat) : option ftrans :=
  match fs_trans (st c i) with ti :: _ => Some (tr c ti) | [] => None end.

(* state.initial.transition.target and, if it is an <initial> element, its transition *)
Definition initial_of (i : nat) : list nat * option ftrans :=
  match fs_completion (st c i) with
  | [x] => match sty x with
           | FInitial => match pseudo_trans x with
                         | Some t => (ft_targets t, Some t)
                         | None => ([], None)
                         end
           | _ => ([x], None)
           end
  | l => (l, None)
  end.

(* getEffectiveTargetStates *)
Fixpoint eff_targets (fuel : nat) (h : hv) (targets : list nat) : list nat :=
  match fuel with
  | O => []
  | S f =>
    fold_left (fun acc s =>
                 if is_history_state s then
                   match hv_get h s with
                   | Some v => unionn acc v
                   | None => match pseudo_trans s with
                             | Some t => unionn acc (eff_targets f h (ft_targets t))
                             | None => acc
                             end
                   end
                 else addn s acc) targets []
  end.

(* findLCCA / getTransitionDomain; None = null *)
Definition find_lcca (l : list nat) : option nat :=
  match l with
  | [] => None
  | hd :: tl =>
    match find (fun a => (is_compound_state a || (a =? 0)) && forallb (fun s => is_descendant s a) tl) (ancs hd None) with
    | Some a => Some a
    | None => Some 0
    end
  end.

Definition transition_domain (h : hv) (t : ftrans) : option nat :=
  match eff_targets n h (ft_targets t) with
  | [] => None
  | ts =>
    if ft_internal t && is_compound_state (ft_source t) && forallb (fun s => is_descendant s (ft_source t)) ts
    then Some (ft_source t)
    else find_lcca (ft_source t :: ts)
  end.

(* the source of an <initial>'s transition is the parent state: not needed, such transitions are never selected *)

Definition compute_exit_set (cfg : list nat) (h : hv) (ts : list ftrans) : list nat :=
  fold_left (fun acc t =>
               match ft_targets t with
               | [] => acc
               | _ => match transition_domain h t with
                      | Some d => fold_left (fun a s => if is_descendant s d then addn s a else a) cfg acc
                      | None => acc
                      end
               end) ts [].

Definition has_intersection (a b : list nat) := existsb (fun x => mem x b) a.

(* removeConflictingTransitions, on transition indices *)
Definition remove_conflicting (cfg : list nat) (h : hv) (enabled : list nat) : list nat :=
  fold_left
    (fun filtered t1 =>
       let x1 := compute_exit_set cfg h [tr c t1] in
       let '(preempted, to_remove) :=
         fold_left (fun (acc : bool * list nat) t2 =>
                      let '(pre, rem) := acc in
                      if pre then acc
                      else if has_intersection x1 (compute_exit_set cfg h [tr c t2]) then
                        if is_descendant (ft_source (tr c t1)) (ft_source (tr c t2)) then (false, rem ++ [t2])
                        else (true, rem)
                      else acc) filtered (false, []) in
       if preempted then filtered
       else filter (fun t => negb (mem t to_remove)) filtered ++ [t1])
    enabled [].

(* conditions are evaluated at most once per selection (DESIGN.md Appendix B) *)
Definition cond_cache := list (nat * bool).

Definition cond_match (cfg : list nat) (ti : nat) (cc : cond_cache) (x : xstate) : bool * cond_cache * xstate :=
  match ft_cond (tr c ti) with
  | None => (true, cc, x)
  | Some cnd =>
    match find (fun p => fst p =? ti) cc with
    | Some p => (snd p, cc, x)
    | None => let '(b, x') := is_true (inst_of c cfg) cnd x in (b, (ti, b) :: cc, x')
    end
  end.

(* first enabled transition of one state's transition list *)
Fixpoint first_enabled (cfg : list nat) (ev : option event) (ts : list nat) (cc : cond_cache) (x : xstate)
  : option nat * cond_cache * xstate :=
  match ts with
  | [] => (None, cc, x)
  | ti :: r =>
    let t := tr c ti in
    let ev_ok := match ev with
                 | None => ft_spontaneous t
                 | Some e => negb (ft_spontaneous t) && name_match_spec (ft_event t) (ev_name e)
                 end in
    if ev_ok && negb (ft_history t || ft_initial t) then
      let '(b, cc', x') := cond_match cfg ti cc x in
      if b then (Some ti, cc', x') else first_enabled cfg ev r cc' x'
    else first_enabled cfg ev r cc x
  end.

(* loop: for s in [state].append(getProperAncestors(state, null)) *)
Fixpoint first_in_chain (cfg : list nat) (ev : option event) (chain : list nat) (cc : cond_cache) (x : xstate)
  : option nat * cond_cache * xstate :=
  match chain with
  | [] => (None, cc, x)
  | s :: r =>
    let '(o, cc', x') := first_enabled cfg ev (fs_trans (st c s)) cc x in
    match o with
    | Some ti => (Some ti, cc', x')
    | None => first_in_chain cfg ev r cc' x'
    end
  end.

(* selectTransitions / selectEventlessTransitions *)
Definition select_transitions (cfg : list nat) (h : hv) (ev : option event) (x : xstate) : list nat * xstate :=
  let atomics := filter is_atomic_state cfg in
  let '(enabled, _, x') :=
    fold_left (fun (acc : list nat * cond_cache * xstate) s =>
                 let '(en, cc, x) := acc in
                 let '(o, cc', x') := first_in_chain cfg ev (s :: ancs s None) cc x in
                 match o with Some ti => (addn ti en, cc', x') | None => (en, cc', x') end)
              atomics ([], [], x) in
  (remove_conflicting cfg h enabled, x').

(* ---- entry set ---- *)
Record eset := {
  e_enter : list nat;                 (* statesToEnter *)
  e_default : list nat;               (* statesForDefaultEntry *)
  e_histcontent : list (nat * nat)    (* defaultHistoryContent: a table parent -> transition index (at most one entry per parent) *)
}.

Definition some_descendant_of (l : list nat) (child : nat) := existsb (fun s => is_descendant s child) l.

Fixpoint add_descendants (fuel : nat) (h : hv) (s : nat) (e : eset) {struct fuel} : eset :=
  match fuel with
  | O => e
  | S f =>
    let add_anc := add_ancestors f h in
    if is_history_state s then
      match hv_get h s with
      | Some v =>
        let e1 := fold_left (fun e x => add_descendants f h x e) v e in
        fold_left (fun e x => add_anc x (fs_parent (st c s)) e) v e1
      | None =>
        match fs_trans (st c s), fs_parent (st c s) with
        | ti :: _, Some p =>
          let tg := ft_targets (tr c ti) in
          (* defaultHistoryContent[state.parent.id] = ...: a table, an assignment replaces an earlier one for the same parent *)
          let e0 := {| e_enter := e_enter e; e_default := e_default e;
                       e_histcontent := (p, ti) :: filter (fun q => negb (fst q =? p)) (e_histcontent e) |} in
          let e1 := fold_left (fun e x => add_descendants f h x e) tg e0 in
          fold_left (fun e x => add_anc x (Some p) e) tg e1
        | _, _ => e
        end
      end
    else
      let e0 := {| e_enter := addn s (e_enter e); e_default := e_default e; e_histcontent := e_histcontent e |} in
      if is_compound_state s then
        let e1 := {| e_enter := e_enter e0; e_default := addn s (e_default e0); e_histcontent := e_histcontent e0 |} in
        let tg := fst (initial_of s) in
        let e2 := fold_left (fun e x => add_descendants f h x e) tg e1 in
        fold_left (fun e x => add_anc x (Some s) e) tg e2
      else if is_parallel_state s then
        fold_left (fun e ch => if some_descendant_of (e_enter e) ch then e else add_descendants f h ch e)
                  (child_states s) e0
      else e0
  end
with add_ancestors (fuel : nat) (h : hv) (s : nat) (upto : option nat) (e : eset) {struct fuel} : eset :=
  match fuel with
  | O => e
  | S f =>
    fold_left
      (fun e anc =>
         let e0 := {| e_enter := addn anc (e_enter e); e_default := e_default e; e_histcontent := e_histcontent e |} in
         if is_parallel_state anc then
           fold_left (fun e ch => if some_descendant_of (e_enter e) ch then e else add_descendants f h ch e)
                     (child_states anc) e0
         else e0)
      (ancs s upto) e
  end.

Definition spec_fuel := 2 * n + 4.

(* the body of computeEntrySet's loop, for one transition *)
Definition entry_step (h : hv) (e : eset) (t : ftrans) : eset :=
  let e1 := fold_left (fun e s => add_descendants spec_fuel h s e) (ft_targets t) e in
  let anc := transition_domain h t in
  fold_left (fun e s => add_ancestors spec_fuel h s anc e) (eff_targets n h (ft_targets t)) e1.

Definition compute_entry_set (h : hv) (ts : list nat) : eset :=
  fold_left (fun e ti => entry_step h e (tr c ti)) ts {| e_enter := []; e_default := []; e_histcontent := [] |}.

(* doc.initial.transition: the transition of the document's 'initial' attribute (or default); its source is the
   <scxml> element, it has no event, condition or content *)
Definition init_trans : ftrans :=
  {| ft_vid := 0; ft_source := 0; ft_targets := fst (initial_of 0); ft_targetless := false; ft_internal := false;
     ft_spontaneous := true; ft_history := false; ft_initial := true; ft_event := []; ft_cond := None; ft_body := [];
     ft_has_body := false |}.

(* isInFinalState *)
Fixpoint in_final_state (fuel : nat) (cfg : list nat) (s : nat) : bool :=
  match fuel with
  | O => false
  | S f =>
    if is_compound_state s then existsb (fun ch => is_final_state ch && mem ch cfg) (child_states s)
    else if is_parallel_state s then forallb (in_final_state f cfg) (child_states s)
    else false
  end.

(* ---- interpreter state ---- *)
Record sstate := {
  s_cfg : list nat;        (* configuration, ascending document order *)
  s_hv : hv;
  s_running : bool;
  s_entered : list nat     (* states whose late-bound data has been initialised *)
}.

Definition sort_doc (l : list nat) : list nat := set_of_list l.

Definition exit_states (ts : list nat) (s : sstate) (x : xstate) : sstate * xstate :=
  let to_exit := rev (sort_doc (compute_exit_set (s_cfg s) (s_hv s) (map (tr c) ts))) in
  (* history is recorded for all states to exit before any onexit handler runs *)
  let h' :=
    fold_left (fun h st0 =>
                 fold_left (fun h ch =>
                              match sty ch with
                              | FHistDeep => hv_set h ch (filter (fun s0 => is_atomic_state s0 && is_descendant s0 st0) (s_cfg s))
                              | FHistShallow => hv_set h ch (filter (fun s0 => match fs_parent (st c s0) with Some p => p =? st0 | None => false end) (s_cfg s))
                              | _ => h
                              end) (fs_children (st c st0)) h)
              to_exit (s_hv s) in
  let '(cfg', x') :=
    fold_left (fun (acc : list nat * xstate) st0 =>
                 let '(cfg, x) := acc in
                 let x1 := emit (TXb (fs_sid (st c st0))) x in
                 let x2 := exec_blocks ex_fixed (inst_of c cfg) (fs_onexit (st c st0)) x1 in
                 (set_remove st0 cfg, emit (TXe (fs_sid (st c st0))) x2))
              to_exit (s_cfg s, x) in
  ({| s_cfg := cfg'; s_hv := h'; s_running := s_running s; s_entered := s_entered s |}, x').

Definition exec_trans_content (cfg : list nat) (ti : nat) (x : xstate) : xstate :=
  let t := tr c ti in
  let x1 := emit (TTb (ft_vid t)) x in
  let x2 := exec_block ex_fixed (inst_of c cfg) (ft_body t) x1 in
  emit (TTe (ft_vid t)) x2.

Definition spec_done_event (i : nat) : event := done_event c i.

Definition enter_states_e (e : eset) (s : sstate) (x : xstate) : sstate * xstate :=
  fold_left
    (fun (acc : sstate * xstate) i =>
       let '(s, x) := acc in
       let cfg1 := insert_sorted i (s_cfg s) in
       let x1 := emit (TEb (fs_sid (st c i))) x in
       let '(entered1, x2) :=
         if fc_late c && negb (mem i (s_entered s))
         then (insert_sorted i (s_entered s), fold_left (fun x d => init_data d x) (fs_data (st c i)) x1)
         else (s_entered s, x1) in
       let x3 := exec_blocks ex_fixed (inst_of c cfg1) (fs_onentry (st c i)) x2 in
       let x4 := emit (TEe (fs_sid (st c i))) x3 in
       let x5 := if mem i (e_default e)
                 then match snd (initial_of i) with
                      | Some t => emit (TTe (ft_vid t)) (exec_block ex_fixed (inst_of c cfg1) (ft_body t) (emit (TTb (ft_vid t)) x4))
                      | None => x4
                      end
                 else x4 in
       let x6 := fold_left (fun x p => if fst p =? i then exec_trans_content cfg1 (snd p) x else x)
                           (rev (e_histcontent e)) x5 in
       if is_final_state i then
         match fs_parent (st c i) with
         | Some 0 => ({| s_cfg := cfg1; s_hv := s_hv s; s_running := false; s_entered := entered1 |}, x6)
         | Some p =>
           let x7 := raise_int (spec_done_event p) x6 in
           let x8 := match fs_parent (st c p) with
                     | Some g => if is_parallel_state g && forallb (in_final_state n cfg1) (child_states g)
                                 then raise_int (spec_done_event g) x7 else x7
                     | None => x7
                     end in
           ({| s_cfg := cfg1; s_hv := s_hv s; s_running := s_running s; s_entered := entered1 |}, x8)
         | None => (s, x6)
         end
       else ({| s_cfg := cfg1; s_hv := s_hv s; s_running := s_running s; s_entered := entered1 |}, x6))
    (sort_doc (e_enter e)) (s, x).

Definition enter_states (ts : list nat) (s : sstate) (x : xstate) : sstate * xstate :=
  enter_states_e (compute_entry_set (s_hv s) ts) s x.

Definition spec_cfg_tok (s : sstate) : tok := TCfg (map (fun i => fs_sid (st c i)) (s_cfg s)).

(* Diagnostics for the report (not part of the specification): which of the situations in which
   the engines are known to deviate from Appendix D is present in this microstep.
   1: two transitions whose event matches and whose condition holds have sources in ancestor relation
   2: two such transitions have the same source
   4: a final state is entered (or active) below a <parallel> that is more than two levels up
   8: (static) a deep history's parent has a proper descendant that owns a history of its own: the
      engines keep all history values in one bit array, so the two histories share bits
   16: an enabled transition has a <history> target and Appendix D's domain, taken from the effective targets,
      differs from the domain measured from the history element itself, which is what the engines use
      (Appendix D then enters the states between the two domains although they were not exited) *)
Definition all_enabled (cfg : list nat) (ev : option event) (x : xstate) : list nat :=
  filter (fun ti =>
            let t := tr c ti in
            mem (ft_source t) cfg && negb (ft_history t || ft_initial t) &&
            match ev with
            | None => ft_spontaneous t
            | Some e => negb (ft_spontaneous t) && name_match_spec (ft_event t) (ev_name e)
            end &&
            match ft_cond t with
            | None => true
            | Some cnd => match beval (inst_of c cfg) (x_store x) cnd with Some b => b | None => false end
            end) (seq 0 (ntrans c)).

(* the domain measured from the targets as written (a <history> element counts as itself): what the engines use *)
Definition raw_domain (t : ftrans) : option nat :=
  match ft_targets t with
  | [] => None
  | ts =>
    if ft_internal t && is_compound_state (ft_source t) && forallb (fun s => is_descendant s (ft_source t)) ts
    then Some (ft_source t)
    else find_lcca (ft_source t :: ts)
  end.

Definition diag (h : hv) (cfg : list nat) (ev : option event) (x : xstate) : N :=
  let en := all_enabled cfg ev x in
  let ap := existsb (fun t1 => existsb (fun t2 => is_descendant (ft_source (tr c t2)) (ft_source (tr c t1))) en) en in
  let ss := existsb (fun t1 => existsb (fun t2 => negb (t1 =? t2) && (ft_source (tr c t1) =? ft_source (tr c t2))) en) en in
  let dd := existsb (fun i => is_final_state i &&
                              existsb (fun a => is_parallel_state a)
                                      (match ancs i None with _ :: _ :: r => r | _ => [] end))
                    (seq 0 n) in
  let ho := existsb (fun h1 => match sty h1, fs_parent (st c h1) with
                               | FHistDeep, Some p1 =>
                                 existsb (fun h2 => is_history_state h2 &&
                                                    match fs_parent (st c h2) with
                                                    | Some p2 => is_descendant p2 p1
                                                    | None => false
                                                    end) (seq 0 n)
                               | _, _ => false
                               end) (seq 0 n) in
  let ht := existsb (fun ti =>
                       let t := tr c ti in
                       negb (match transition_domain h t, raw_domain t with
                             | Some a, Some b => a =? b
                             | None, None => true
                             | _, _ => false
                             end)) en in
  ((if ap then 1 else 0) + (if ss then 2 else 0) + (if dd then 4 else 0) + (if ho then 8 else 0) +
   (if ht then 16 else 0))%N.

Definition spec_microstep_d (d : N) (ts : list nat) (s : sstate) (x : xstate) : sstate * xstate :=
  let x0 := emit (TDiag d) (emit TMsB x) in
  let '(s1, x1) := exit_states ts s x0 in
  let x2 := fold_left (fun x ti => exec_trans_content (s_cfg s1) ti x) ts x1 in
  let '(s2, x3) := enter_states ts s1 x2 in
  (s2, emit (spec_cfg_tok s2) (emit TMsE x3)).

Definition spec_microstep (ts : list nat) (s : sstate) (x : xstate) : sstate * xstate :=
  let x0 := emit TMsB x in
  let '(s1, x1) := exit_states ts s x0 in
  let x2 := fold_left (fun x ti => exec_trans_content (s_cfg s1) ti x) ts x1 in
  let '(s2, x3) := enter_states ts s1 x2 in
  (s2, emit (spec_cfg_tok s2) (emit TMsE x3)).

(* the main event loop, one iteration of the inner/outer loops per unit of fuel *)
Fixpoint spec_loop (fuel : nat) (s : sstate) (x : xstate) (evs : list bytes) : sstate * xstate :=
  match fuel with
  | O => (s, x)
  | S f =>
    if negb (s_running s) then (s, x)
    else
      let '(en, x1) := select_transitions (s_cfg s) (s_hv s) None x in
      match en with
      | _ :: _ => let '(s', x') := spec_microstep_d (diag (s_hv s) (s_cfg s) None x) en s x1 in spec_loop f s' x' evs
      | [] =>
        match x_iq x1 with
        | e :: r =>
          let x2 := emit (TEv (ev_name e)) {| x_store := x_store x1; x_iq := r; x_eq := x_eq x1; x_out := x_out x1 |} in
          let '(en, x3) := select_transitions (s_cfg s) (s_hv s) (Some e) x2 in
          match en with
          | _ :: _ => let '(s', x') := spec_microstep_d (diag (s_hv s) (s_cfg s) (Some e) x2) en s x3 in spec_loop f s' x' evs
          | [] => spec_loop f s x3 evs
          end
        | [] =>
          (* macrostep done; next external event: the chart's own sends first, then the history *)
          let next := match x_eq x1 with
                      | e :: r => Some (e, {| x_store := x_store x1; x_iq := x_iq x1; x_eq := r; x_out := x_out x1 |}, evs)
                      | [] => match evs with
                              | nm :: r => Some ({| ev_name := nm; ev_kind := EvExternal |}, x1, r)
                              | [] => None
                              end
                      end in
          match next with
          | None => (s, x1)
          | Some (e, x2, evs') =>
            let x3 := emit (TEv (ev_name e)) x2 in
            let '(en, x4) := select_transitions (s_cfg s) (s_hv s) (Some e) x3 in
            match en with
            | _ :: _ => let '(s', x') := spec_microstep_d (diag (s_hv s) (s_cfg s) (Some e) x3) en s x4 in spec_loop f s' x' evs'
            | [] => spec_loop f s x4 evs'
            end
          end
        end
      end
  end.

(* exitInterpreter *)
Definition exit_interpreter (s : sstate) (x : xstate) : xstate :=
  let x1 := emit TComplB x in
  let '(_, x2) :=
    fold_left (fun (acc : list nat * xstate) i =>
                 let '(cfg, x) := acc in
                 (set_remove i cfg, exec_blocks ex_fixed (inst_of c cfg) (fs_onexit (st c i)) x))
              (rev (s_cfg s)) (s_cfg s, x1) in
  emit TComplE x2.

Definition spec_run (evs : list bytes) (fuel : nat) : list tok * store :=
  let x0 := {| x_store := []; x_iq := []; x_eq := []; x_out := [] |} in
  (* early binding: all data is initialised at load time in document order (late binding: only the
     data of <scxml> itself) -- both are fs_data of state 0 in the flat chart *)
  let x1 := fold_left (fun x d => init_data d x) (fs_data (st c 0)) x0 in
  let s0 := {| s_cfg := []; s_hv := []; s_running := true; s_entered := [0] |} in
  (* enterStates([doc.initial.transition]): computeEntrySet for the one transition -- the descendants of ALL its
     targets first, then the ancestors of its effective targets up to the transition's domain *)
  let e := entry_step [] {| e_enter := []; e_default := []; e_histcontent := [] |} init_trans in
  let '(s1, x2) := enter_states_e e s0 (emit (TDiag (diag [] [] None x1)) (emit TMsB x1)) in
  let x3 := emit (spec_cfg_tok s1) (emit TMsE x2) in
  let '(s2, x4) := spec_loop fuel s1 x3 evs in
  let x5 := if s_running s2 then x4 else exit_interpreter s2 x4 in
  (rev (x_out x5), x_store x5).

End Spec.

Definition run_spec (late : bool) (t : tree) (evs : list bytes) (fuel : nat) : list tok * store :=
  spec_run (flatten late t) evs fuel.
