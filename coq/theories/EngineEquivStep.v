(* EngineEquivStep.v -- C03: one microstep of FastMicroStep (Fast.fmicrostep) against one microstep of
   LargeMicroStep (Large.microstep) from the same selection, on the history-free core.
   The two agree on configuration, history, flags and the whole execution state (trace, queues, datamodel);
   _initializedData differs by design (the fast engine records every entered state, the large one only states
   that have <data>), so engine states are compared with [lstate_eqv].  The done.state events of <parallel>s
   need the dynamic side condition [ms_guardb] (see EngineEquivDone.v).  Proofs, the relation and the guard. *)
From V Require Import Base NameMatch Chart Exec Large LargeLemmas Fast Legal SetLemmas LegalAbstract LegalLarge
  LegalRun WfCore LegalOracle LargeCacheLemmas SelectConform SelectConformLemmas MicroConform MicroConformLemmas
  MicroConformEntry MicroConformCompose EngineEquivBase EngineEquivEntry EngineEquivDone.
Local Open Scope nat_scope.

(* ------------------------------------------------------------------ the relation between engine states *)

(* the same states WITH DATA count as initialised *)
Definition initd_eqv (c : fchart) (a b : list nat) : Prop :=
  forall i, fs_data (st c i) <> [] -> mem i a = mem i b.

(* fast engine state, large engine state *)
Definition lstate_eqv (c : fchart) (lf ll : lstate) : Prop :=
  l_cfg lf = l_cfg ll /\ l_hist lf = l_hist ll /\ initd_eqv c (l_initd lf) (l_initd ll) /\
  l_spont lf = l_spont ll /\ l_init lf = l_init ll /\ l_tlf lf = l_tlf ll /\ l_fin lf = l_fin ll /\
  l_stable lf = l_stable ll /\ l_cancelled lf = l_cancelled ll.

Lemma lstate_eqv_refl c l : lstate_eqv c l l.
Proof. unfold lstate_eqv, initd_eqv. repeat split; reflexivity. Qed.

Definition acc_eqv (c : fchart) (af al : enter_acc) : Prop :=
  ea_cfg af = ea_cfg al /\ initd_eqv c (ea_initd af) (ea_initd al) /\ ea_tlf af = ea_tlf al /\ ea_x af = ea_x al.

(* no selected transition is the default transition of a pseudo-state *)
Definition plain_transb (c : fchart) (ts : list nat) : bool :=
  forallb (fun ti => negb (ft_history (tr c ti) || ft_initial (tr c ti))) ts.

(* ------------------------------------------------------------------ the dynamic side condition *)

(* [E] the states entered in this microstep (ascending), [after] the configuration after it.  For every entered
   <final> f: below each <parallel> ancestor of f no state is entered after f, and at most one <parallel>
   ancestor of f is done *)
Definition no_later_entryb (c : fchart) (E : list nat) (f : nat) : bool :=
  forallb (fun a => negb (is_parb c a) ||
                    negb (existsb (fun e => (f <? e) && mem a (fs_ancestors (st c e))) E))
          (fs_ancestors (st c f)).
Definition single_doneb (c : fchart) (after : list nat) (f : nat) : bool :=
  length (done_pars c after f) <=? 1.
Definition done_guardb (c : fchart) (after E : list nat) : bool :=
  forallb (fun f => negb (is_finalb c f) || (no_later_entryb c E f && single_doneb c after f)) E.

Definition ms_guardb (c : fchart) (l : lstate) (targets exitset transset : list nat) (initial_step : bool) : bool :=
  let cfg := l_cfg l in
  let hist := if initial_step then l_hist l else remember_history c cfg exitset (l_hist l) in
  let es := fst (entry_set lg_fixed c cfg exitset hist targets transset) in
  let cfg1 := set_diff cfg exitset in
  let E := set_diff es cfg1 in
  done_guardb c (fold_left (fun a i => insert_sorted i a) E cfg1) E.

(* ------------------------------------------------------------------ entering one state *)

Section Tails.
Variable xv : ex_variant.
Variable c : fchart.

Definition tail_l (ts : list nat) (cfg1 initd1 : list nat) (tlf : bool) (x2 : xstate) (i : nat) : enter_acc :=
  let s := st c i in
  let x3 := exec_blocks xv (inst_of c cfg1) (fs_onentry s) x2 in
  let x4 := emit (TEe (fs_sid s)) x3 in
  let x5 :=
    fold_left
      (fun x ch =>
         if is_pseudo (fs_type (st c ch)) then
           fold_left (fun x ti =>
                        let t := tr c ti in
                        if (ft_history t || ft_initial t) && mem ti ts then
                          let y1 := emit (TTb (ft_vid t)) x in
                          let y2 := if ft_has_body t then exec_block xv (inst_of c cfg1) (ft_body t) y1 else y1 in
                          emit (TTe (ft_vid t)) y2
                        else x)
                     (fs_trans (st c ch)) x
         else x)
      (fs_children s) x4 in
  match fs_type s with
  | FFinal =>
    let top := match fs_parent s with Some 0 => true | _ => false end in
    let x6 := if top then x5
              else match fs_parent s with Some p => raise_int (done_event c p) x5 | None => x5 end in
    {| ea_cfg := cfg1; ea_initd := initd1; ea_tlf := tlf || top; ea_x := done_large c cfg1 i x6 |}
  | _ => {| ea_cfg := cfg1; ea_initd := initd1; ea_tlf := tlf; ea_x := x5 |}
  end.

Lemma enter_one_tail ts a i :
  enter_one xv c ts a i =
  if is_pseudo (fs_type (st c i)) then a else
  let '(initd1, x2) :=
    match fs_data (st c i) with
    | [] => (ea_initd a, emit (TEb (fs_sid (st c i))) (ea_x a))
    | ds => if mem i (ea_initd a) then (ea_initd a, emit (TEb (fs_sid (st c i))) (ea_x a))
            else (insert_sorted i (ea_initd a), fold_left (fun x d => init_data d x) ds (emit (TEb (fs_sid (st c i))) (ea_x a)))
    end in
  tail_l ts (insert_sorted i (ea_cfg a)) initd1 (ea_tlf a) x2 i.
Proof. reflexivity. Qed.

Definition tail_f (ts : list nat) (cfg1 initd1 : list nat) (tlf : bool) (x2 : xstate) (i : nat) : enter_acc :=
  let s := st c i in
  let x3 := exec_blocks xv (inst_of c cfg1) (fs_onentry s) x2 in
  let x4 := emit (TEe (fs_sid s)) x3 in
  let x5 :=
    fold_left (fun x ti =>
                 let t := tr c ti in
                 if (ft_history t || ft_initial t) &&
                    match fs_parent (st c (ft_source t)) with Some p => p =? i | None => false end then
                   let y1 := emit (TTb (ft_vid t)) x in
                   let y2 := if ft_has_body t then exec_block xv (inst_of c cfg1) (ft_body t) y1 else y1 in
                   emit (TTe (ft_vid t)) y2
                 else x) ts x4 in
  match fs_type s with
  | FFinal =>
    let top := match fs_ancestors s with [0] => true | _ => false end in
    let x6 := if top then x5
              else match fs_parent s with Some p => raise_int (done_event c p) x5 | None => x5 end in
    {| ea_cfg := cfg1; ea_initd := initd1; ea_tlf := tlf || top; ea_x := done_fast c cfg1 i x6 |}
  | _ => {| ea_cfg := cfg1; ea_initd := initd1; ea_tlf := tlf; ea_x := x5 |}
  end.

Lemma fenter_one_tail ts a i :
  fenter_one xv c ts a i =
  if mem i (ea_cfg a) then a
  else if is_pseudo (fs_type (st c i)) then a else
  let '(initd1, x2) :=
    if mem i (ea_initd a) then (ea_initd a, emit (TEb (fs_sid (st c i))) (ea_x a))
    else (insert_sorted i (ea_initd a), fold_left (fun x d => init_data d x) (fs_data (st c i)) (emit (TEb (fs_sid (st c i))) (ea_x a))) in
  tail_f ts (insert_sorted i (ea_cfg a)) initd1 (ea_tlf a) x2 i.
Proof. reflexivity. Qed.

End Tails.

Section Enter.
Variable xv : ex_variant.
Variable c : fchart.
Hypothesis Hwf : wf_coreb c = true.
Let W : WF c := wf_coreb_sound c Hwf.
Let n := nstates c.
Let par (i : nat) := fs_parent (st c i).
Let ch (i : nat) := fs_children (st c i).
Let kd (i : nat) := fs_type (st c i).
Notation Anc := (LegalAbstract.Anc par).

Variable ts : list nat.
Hypothesis Hplain : plain_transb c ts = true.

Lemma ee_no_pseudo i : is_pseudo (fs_type (st c i)) = false.
Proof. destruct (wf_types c W i) as [H|[H|[H|H]]]; rewrite H; reflexivity. Qed.

(* "the parent is the <scxml> element", the two ways of asking *)
Lemma ee_top_eq i :
  match fs_ancestors (st c i) with [0] => true | _ => false end =
  match fs_parent (st c i) with Some 0 => true | _ => false end.
Proof.
  destruct (fs_parent (st c i)) as [p|] eqn:Hp.
  - rewrite (ee_anc_app c Hwf i p Hp).
    destruct p as [|p].
    + rewrite (ee_anc_nil c Hwf 0 (wf_root_par c W)). reflexivity.
    + destruct (fs_ancestors (st c (S p))) as [|a r]; cbn [app]; [reflexivity|].
      destruct a; [destruct r; reflexivity | reflexivity].
  - rewrite (ee_anc_nil c Hwf i Hp). reflexivity.
Qed.

Lemma ee_tail_eq cfg1 initd_f initd_l tlf x2 i :
  (fs_type (st c i) = FFinal -> forall x, done_fast c cfg1 i x = done_large c cfg1 i x) ->
  initd_eqv c initd_f initd_l ->
  acc_eqv c (tail_f xv c ts cfg1 initd_f tlf x2 i) (tail_l xv c ts cfg1 initd_l tlf x2 i).
Proof.
  intros Hdone Hin. unfold tail_f, tail_l. cbn zeta.
  set (x4 := emit (TEe (fs_sid (st c i))) _).
  assert (E5f : fold_left (fun x ti =>
                 let t := tr c ti in
                 if (ft_history t || ft_initial t) &&
                    match fs_parent (st c (ft_source t)) with Some p => p =? i | None => false end then
                   let y1 := emit (TTb (ft_vid t)) x in
                   let y2 := if ft_has_body t then exec_block xv (inst_of c cfg1) (ft_body t) y1 else y1 in
                   emit (TTe (ft_vid t)) y2
                 else x) ts x4 = x4).
  { unfold plain_transb in Hplain. clearbody x4. revert x4. induction ts as [|ti r IH]; intros x4; cbn [fold_left]; [reflexivity|].
    cbn [forallb] in Hplain. apply andb_true_iff in Hplain as [H1 H2]. apply negb_true_iff in H1. cbn zeta. rewrite H1. cbn [andb].
    now apply IH. }
  assert (E5l : forall l, fold_left
      (fun x ch0 =>
         if is_pseudo (fs_type (st c ch0)) then
           fold_left (fun x ti =>
                        let t := tr c ti in
                        if (ft_history t || ft_initial t) && mem ti ts then
                          let y1 := emit (TTb (ft_vid t)) x in
                          let y2 := if ft_has_body t then exec_block xv (inst_of c cfg1) (ft_body t) y1 else y1 in
                          emit (TTe (ft_vid t)) y2
                        else x)
                     (fs_trans (st c ch0)) x
         else x) l x4 = x4).
  { induction l as [|k r IH]; cbn [fold_left]; [reflexivity|]. rewrite ee_no_pseudo. exact IH. }
  cbn zeta in E5f, E5l. rewrite E5f, E5l. rewrite ee_top_eq.
  destruct (fs_type (st c i)) eqn:Ht; unfold acc_eqv; cbn [ea_cfg ea_initd ea_tlf ea_x]; try (repeat split; [exact Hin]).
  split; [reflexivity|]. split; [exact Hin|]. split; [reflexivity|]. apply Hdone. reflexivity.
Qed.

Lemma ee_initd_insert i a b : initd_eqv c a b -> initd_eqv c (insert_sorted i a) (insert_sorted i b).
Proof. intros H j Hj. rewrite !mem_insert_sorted. now rewrite (H j Hj). Qed.

Lemma ee_initd_insert_nodata i a b : fs_data (st c i) = [] -> initd_eqv c a b -> initd_eqv c (insert_sorted i a) b.
Proof.
  intros Hd H j Hj. rewrite mem_insert_sorted. destruct (j =? i) eqn:E; [apply Nat.eqb_eq in E; subst; congruence|].
  cbn [orb]. now apply H.
Qed.

(* entering a state that is not active yet *)
Lemma ee_enter_one_rel af al i :
  acc_eqv c af al -> mem i (ea_cfg al) = false ->
  (fs_type (st c i) = FFinal -> forall x, done_fast c (insert_sorted i (ea_cfg al)) i x = done_large c (insert_sorted i (ea_cfg al)) i x) ->
  acc_eqv c (fenter_one xv c ts af i) (enter_one xv c ts al i).
Proof.
  intros (Hc & Hi & Ht & Hx) Hm Hdone. rewrite fenter_one_tail, enter_one_tail.
  rewrite Hc, Hm, ee_no_pseudo, Ht, Hx.
  destruct (fs_data (st c i)) as [|d ds] eqn:Hd.
  - cbn [fold_left]. destruct (mem i (ea_initd af)).
    + now apply ee_tail_eq.
    + apply ee_tail_eq; [exact Hdone|]. now apply ee_initd_insert_nodata.
  - rewrite (Hi i) by (rewrite Hd; discriminate). destruct (mem i (ea_initd al)).
    + now apply ee_tail_eq.
    + apply ee_tail_eq; [exact Hdone|]. now apply ee_initd_insert.
Qed.

Lemma ee_enter_one_cfg al i : ea_cfg (enter_one xv c ts al i) = insert_sorted i (ea_cfg al).
Proof.
  rewrite enter_one_tail, ee_no_pseudo.
  match goal with |- context [let '(initd1, x2) := ?e in _] => destruct e as [initd1 x2] end.
  unfold tail_l. cbn zeta. destruct (fs_type (st c i)); reflexivity.
Qed.

Lemma ee_fenter_one_cfg af i : mem i (ea_cfg af) = false -> ea_cfg (fenter_one xv c ts af i) = insert_sorted i (ea_cfg af).
Proof.
  intros Hm. rewrite fenter_one_tail, Hm, ee_no_pseudo.
  match goal with |- context [let '(initd1, x2) := ?e in _] => destruct e as [initd1 x2] end.
  unfold tail_f. cbn zeta. destruct (fs_type (st c i)); reflexivity.
Qed.

Definition ins_all (l acc : list nat) : list nat := fold_left (fun a i => insert_sorted i a) l acc.

Lemma ee_enter_fold_rel : forall E af al,
  acc_eqv c af al -> NoDup E -> (forall i, In i E -> ~ In i (ea_cfg al)) ->
  (forall pre f post, E = pre ++ f :: post -> fs_type (st c f) = FFinal ->
     forall x, done_fast c (insert_sorted f (ins_all pre (ea_cfg al))) f x = done_large c (insert_sorted f (ins_all pre (ea_cfg al))) f x) ->
  acc_eqv c (fold_left (fenter_one xv c ts) E af) (fold_left (enter_one xv c ts) E al).
Proof.
  induction E as [|i r IH]; intros af al Hrel Hnd Hdis Hdone; cbn [fold_left]; [exact Hrel|].
  inversion Hnd as [|? ? Hni Hnd']; subst.
  assert (Hm : mem i (ea_cfg al) = false) by (apply mem_false_In; apply Hdis; now left).
  apply IH.
  - apply ee_enter_one_rel; [exact Hrel | exact Hm|]. intros Hf x. exact (Hdone [] i r eq_refl Hf x).
  - exact Hnd'.
  - intros j Hj. rewrite ee_enter_one_cfg, In_insert_sorted'. intros [->|H]; [contradiction|]. apply (Hdis j); [now right | exact H].
  - intros pre f post E Hf x. rewrite ee_enter_one_cfg. apply (Hdone (i :: pre) f post); [now rewrite E | exact Hf].
Qed.

(* the fast engine walks the whole entry set and skips what is active *)
Lemma ee_fenter_skip : forall es af, NoDup es ->
  fold_left (fenter_one xv c ts) es af =
  fold_left (fenter_one xv c ts) (filter (fun i => negb (mem i (ea_cfg af))) es) af.
Proof.
  induction es as [|i r IH]; intros af Hnd; cbn [fold_left filter]; [reflexivity|].
  inversion Hnd as [|? ? Hni Hnd']; subst.
  destruct (mem i (ea_cfg af)) eqn:Hm; cbn [negb].
  - replace (fenter_one xv c ts af i) with af by (rewrite fenter_one_tail, Hm; reflexivity). now apply IH.
  - cbn [fold_left]. rewrite (IH _ Hnd'). f_equal. apply ee_filter_ext_in. intros j Hj.
    rewrite (ee_fenter_one_cfg af i Hm), mem_insert_sorted.
    replace (j =? i) with false; [reflexivity|]. symmetry. apply Nat.eqb_neq. intros ->. contradiction.
Qed.

(* EXIT_STATES leaves the configuration without the exit set *)
Lemma ee_exit_fold_list l : forall cfg x,
  fst (fold_left (exit_one xv c) l (cfg, x)) = filter (fun y => negb (mem y l)) cfg.
Proof.
  induction l as [|i r IH]; intros cfg x; cbn [fold_left].
  - cbn [mem negb]. symmetry. apply filter_all. reflexivity.
  - unfold exit_one at 2. cbn zeta. rewrite IH. unfold set_remove.
    induction cfg as [|y cfg' IHc]; [reflexivity|]. cbn [filter mem].
    rewrite (Nat.eqb_sym y i). destruct (i =? y); cbn [negb orb filter]; [exact IHc|].
    destruct (mem y r); cbn [negb]; [exact IHc | now rewrite IHc].
Qed.

Lemma ee_exit_fold_set X cfg x : fst (fold_left (exit_one xv c) (rev X) (cfg, x)) = set_diff cfg X.
Proof.
  rewrite ee_exit_fold_list. unfold set_diff. apply ee_filter_ext_in. intros y _. f_equal.
  apply ee_mem_ext. intros z. symmetry. apply in_rev.
Qed.

(* REMEMBER_HISTORY does nothing without history states *)
Lemma ee_remember cfg X hist : fremember c cfg X hist = hist /\ remember_history c cfg X hist = hist.
Proof.
  unfold fremember, remember_history. generalize (seq 0 (fn c)) as l1. generalize (seq 0 (n_states c)) as l2.
  assert (Hh : forall i, is_hist (fs_type (st c i)) = false).
  { intros i. destruct (wf_types c W i) as [H|[H|[H|H]]]; rewrite H; reflexivity. }
  intros l2 l1. split.
  - induction l1 as [|i r IH]; cbn [fold_left]; [reflexivity|]. now rewrite Hh.
  - induction l2 as [|i r IH]; cbn [fold_left]; [reflexivity|]. now rewrite Hh.
Qed.

End Enter.

(* ------------------------------------------------------------------ from the guard to the done events *)

Lemma Legal_ext par ch kd (C C' : nat -> Prop) : (forall x, C x <-> C' x) -> Legal par ch kd C -> Legal par ch kd C'.
Proof.
  intros H [R1 R2 R3 R4 R5]. constructor.
  - now apply H.
  - intros i p Hi Hp. apply H. eapply R2; [apply H; exact Hi | exact Hp].
  - intros i Hi Hk. destruct (R3 i (proj2 (H i) Hi) Hk) as (k & Hin & Hk'). exists k. split; [exact Hin | now apply H].
  - intros i k1 k2 Hi Hk H1 H2 Hk1 Hk2. exact (R4 i k1 k2 (proj2 (H i) Hi) Hk H1 H2 (proj2 (H k1) Hk1) (proj2 (H k2) Hk2)).
  - intros i k Hi Hk Hin. apply H. exact (R5 i k (proj2 (H i) Hi) Hk Hin).
Qed.

Lemma ee_mem_iff y a b : (In y a <-> In y b) -> mem y a = mem y b.
Proof.
  intros H. destruct (mem y a) eqn:Ea, (mem y b) eqn:Eb; try reflexivity.
  - apply mem_In in Ea. apply mem_false_In in Eb. tauto.
  - apply mem_In in Eb. apply mem_false_In in Ea. tauto.
Qed.

Lemma ee_In_ins_all l : forall acc y, In y (ins_all l acc) <-> In y acc \/ In y l.
Proof. unfold ins_all. intros acc y. apply In_fold_insert. Qed.

Lemma ee_ins_all_sorted l : forall acc, ssorted acc -> ssorted (ins_all l acc).
Proof. unfold ins_all. intros acc. apply ssorted_fold_insert. Qed.

Section Guard.
Variable c : fchart.
Hypothesis Hwf : wf_coreb c = true.
Hypothesis Hleaf : leaf_okb c = true.
Hypothesis Hpar : par_nonemptyb c = true.
Let W : WF c := wf_coreb_sound c Hwf.
Let n := nstates c.
Let par (i : nat) := fs_parent (st c i).
Let ch (i : nat) := fs_children (st c i).
Let kd (i : nat) := fs_type (st c i).
Notation Anc := (LegalAbstract.Anc par).

Variable cfg1 E : list nat.
Hypothesis cfg1_sorted : ssorted cfg1.
Hypothesis E_sorted : ssorted E.
Hypothesis cfg1_bound : forall y, In y cfg1 -> y < n.
Hypothesis E_bound : forall y, In y E -> y < n.
Hypothesis Hlegal : Legal par ch kd (fun y => In y (ins_all E cfg1)).
Hypothesis Hguard : done_guardb c (ins_all E cfg1) E = true.

Lemma ee_guard_done pre f post : E = pre ++ f :: post -> fs_type (st c f) = FFinal ->
  forall x, done_fast c (insert_sorted f (ins_all pre cfg1)) f x = done_large c (insert_sorted f (ins_all pre cfg1)) f x.
Proof.
  intros HE Hf x.
  set (L := insert_sorted f (ins_all pre cfg1)). set (after := ins_all E cfg1) in *.
  assert (HfE : In f E) by (rewrite HE; apply in_app_iff; right; now left).
  unfold done_guardb in Hguard. rewrite forallb_forall in Hguard. pose proof (Hguard f HfE) as G.
  unfold is_finalb in G. rewrite Hf in G. cbn [negb orb] in G. apply andb_true_iff in G as [G1 G2].
  unfold no_later_entryb in G1. unfold single_doneb in G2.
  rewrite forallb_forall in G1. apply Nat.leb_le in G2.
  assert (HL : forall y, In y L <-> In y cfg1 \/ In y pre \/ y = f).
  { intros y. unfold L. rewrite In_insert_sorted', ee_In_ins_all. tauto. }
  assert (HA : forall y, In y after <-> In y cfg1 \/ In y pre \/ y = f \/ In y post).
  { intros y. unfold after. rewrite ee_In_ins_all, HE, in_app_iff. cbn [In]. intuition. }
  assert (Hpost : forall y, In y post -> f < y).
  { intros y Hy. rewrite HE in E_sorted. apply ee_ssorted_app_inv in E_sorted as (_ & S2 & _). cbn [ssorted] in S2. now apply S2. }
  assert (Hag : forall a y, Anc a f -> kd a = FParallel -> y = a \/ Anc a y -> (In y L <-> In y after)).
  { intros a y Haf Hk Hrel. rewrite HL, HA. split; [tauto|]. intros [H|[H|[H|H]]]; try tauto. exfalso.
    assert (Ha : In a (fs_ancestors (st c f))) by now apply (wf_anc c W).
    pose proof (G1 a Ha) as Ga. unfold is_parb in Ga. unfold kd in Hk. rewrite Hk in Ga. cbn [negb orb] in Ga.
    apply negb_true_iff in Ga.
    destruct Hrel as [->|Hrel].
    - destruct (anc_lt c W _ _ Haf). specialize (Hpost a H). lia.
    - assert (existsb (fun e => (f <? e) && mem a (fs_ancestors (st c e))) E = true); [|congruence].
      apply existsb_exists. exists y. split; [rewrite HE; apply in_app_iff; right; now right|].
      apply andb_true_iff. split; [apply Nat.ltb_lt; now apply Hpost | apply mem_In; now apply (wf_anc c W)]. }
  apply (ee_done_eq c Hwf Hleaf Hpar L (fun y => In y after)).
  - exact Hlegal.
  - unfold L. apply ssorted_insert. now apply ee_ins_all_sorted.
  - intros y Hy. apply HL in Hy as [H|[H| ->]]; [now apply cfg1_bound | apply E_bound; rewrite HE; apply in_app_iff; now left | now apply E_bound].
  - exact Hag.
  - apply HA. tauto.
  - replace (done_pars c L f) with (done_pars c after f); [exact G2|].
    unfold done_pars. apply ee_filter_ext_in. intros a Ha. destruct (is_parb c a) eqn:Hp; [|reflexivity]. cbn [andb].
    apply (wf_anc c W) in Ha. apply ee_is_parb in Hp. symmetry.
    apply (ee_in_final_ext c Hwf). intros y Hy. apply ee_mem_iff. apply (Hag a y Ha Hp). now right.
Qed.

End Guard.
