(* FlattenStaticC01.v -- the static conditions of C01's theorems for documents with <initial> elements and deep /
   multiple `initial` attributes (RunConformInitialStep.static_ib, a boolean on the flat chart) as a boolean
   predicate on the DOCUMENT.  Definitions only; FlattenStaticC01Lemmas.v proves c01i_treeb t -> static_ib (flatten late t).

   c01i_treeb t:
     hist_treeb t            (FlattenStaticTree.v) the document is well-formed ...
     ct_no_histb t           ... and has no <history> element (C01's run theorems do not cover history);
     ct_par_nonemptyb, ct_targets_antichainb, ct_done_okb, ct_root_silentb, ct_root_unmentionedb
                             (FlattenWf.v / FlattenWfSide.v) the side conditions of the core theorems, unchanged;
     ct_initattr_antichainb  no state named by the `initial` attribute of a <state>/<scxml> with children lies below
                             another state named by it;
     ct_namedb               every <raise> in onentry / onexit / transition content names an event
                             (Serialize.chart_named);
     ct_root_onexit_emptyb   <scxml> has no onexit content.
   That <scxml> has no <initial> child (RunConformInitialWf.root_plainb) follows from hist_treeb's nesting clause;
   that initial attributes and transitions name proper states (ct_initattr_properb, ct_targets_properb below: the
   tree-level forms of RunConformInitialWf.cpl_okb / targets_properb) follows from hist_treeb (ids of elements with
   an id, i.e. not <initial>) and ct_no_histb. *)
From V Require Import Base NameMatch Chart Exec Large Spec Serialize FlattenWf FlattenWfSide ValidateBridge FlattenStaticTree.
Local Open Scope N_scope.

Definition ct_no_histb (t : tree) : bool := forallb (fun u => negb (is_hist_kind (t_kind u))) (subtrees t).

Definition ct_initattr_properb (t : tree) : bool :=
  forallb (fun u => if compound_node u then match t_initattr u with
                                            | Some l => ids_inb l (psids_below u)
                                            | None => true
                                            end else true) (subtrees t).

Definition ct_initattr_antichainb (t : tree) : bool :=
  forallb (fun u => if compound_node u then match t_initattr u with
                                            | Some l => antichain_okb t l
                                            | None => true
                                            end else true) (subtrees t).

Definition ct_targets_properb (t : tree) : bool :=
  forallb (fun u => forallb (fun x => match tt_targets x with
                                      | Some l => ids_inb l (psids_below t)
                                      | None => true
                                      end) (t_trans u)) (subtrees t).

Definition ct_namedb (t : tree) : bool :=
  forallb (fun u => forallb block_named (t_onentry u) && forallb block_named (t_onexit u) &&
                    forallb (fun x => block_named (tt_body x)) (t_trans u)) (subtrees t).

Definition ct_root_onexit_emptyb (t : tree) : bool := match t_onexit t with [] => true | _ => false end.

Definition c01i_treeb (t : tree) : bool :=
  hist_treeb t && ct_no_histb t && ct_par_nonemptyb t && ct_targets_antichainb t && ct_done_okb t && ct_root_silentb t &&
  ct_initattr_antichainb t && ct_root_unmentionedb t && ct_namedb t && ct_root_onexit_emptyb t.
