(* RunConformInitialSpec.v -- C01 on charts with <initial> elements and deep / multiple initial attributes:
   Appendix D's addDescendantStatesToEnter / addAncestorStatesToEnter (Spec.add_descendants / add_ancestors) compute
   the set described by RunConformInitialBase.D, and statesForDefaultEntry holds exactly the entered compound
   states below which the current context has no member.  Proofs only. *)
From V Require Import Base NameMatch Chart Exec Large LargeLemmas Spec Legal SetLemmas LegalAbstract LegalLarge
  LegalHistBase LegalHistEntry LegalHistStep MicroConformEntry RunConformInitialBase.
Local Open Scope nat_scope.

Section ISpec.
Variable c : fchart.
Let n := nstates c.
Let par (i : nat) := fs_parent (st c i).
Let ch (i : nat) := fs_children (st c i).
Let kd (i : nat) := fs_type (st c i).
Let cpl (i : nat) := fs_completion (st c i).
Notation Anc := (LegalAbstract.Anc par).
Notation pseudo := (pseudoS c).

Hypothesis W : WFH c.
Hypothesis Hnh : forall i, histS c i = false.
Hypothesis HcplOK : CplOK c.
Hypothesis HcplAnti : CplAnti c.
Hypothesis HtgAnti : TgAnti c.
Hypothesis HtgProper : TgProper c.
Variable B : nat -> list nat -> Prop.
Hypothesis HB1 : forall r G, B r G -> GoodCtx c r G.
Hypothesis HB2 : forall r G r' G', B r G -> B r' G' -> (r = r' /\ G = G') \/ (r <> r' /\ ~ Anc r r' /\ ~ Anc r' r).
Variable h : hv.

Notation Dr := (D c B).
Notation itg := (itg c).
Notation NTG := (NTG c).
Notation IC := (LegalHistBase.IC c).

(* ------------------------------------------------------------------ Appendix D's tree functions under WFH *)

Lemma hist_false_h s : is_history_state c s = false.
Proof. pose proof (Hnh s) as H. unfold histS, is_hist in H. unfold is_history_state, sty. destruct (fs_type (st c s)); auto. Qed.

Lemma ancs_sound_h fuel : forall i a u, In a (proper_ancestors c fuel i u) -> Anc a i.
Proof.
  induction fuel as [|f IH]; intros i a u; cbn [proper_ancestors]; [intros []|].
  destruct (fs_parent (st c i)) as [p|] eqn:Hp; [|intros []].
  destruct u as [u|].
  - destruct (p =? u); [intros []|]. intros [<-|Hin]; [now apply anc_parent | eapply anc_step; [exact Hp | eapply IH; eauto]].
  - intros [<-|Hin]; [now apply anc_parent | eapply anc_step; [exact Hp | eapply IH; eauto]].
Qed.

Lemma ancs_complete_h fuel : forall i a, i < fuel -> Anc a i -> In a (proper_ancestors c fuel i None).
Proof.
  induction fuel as [|f IH]; intros i a Hi Ha; [lia|]. cbn [proper_ancestors].
  inversion Ha as [? p Hp|? p ? Hp Hap]; subst; unfold par in Hp; rewrite Hp.
  - now left.
  - right. apply IH; [|exact Hap]. destruct (wh_par_lt c W _ _ Hp). lia.
Qed.

Lemma is_desc_iff_h y k : y < n -> (is_descendant c y k = true <-> Anc k y).
Proof.
  intros Hy. unfold is_descendant, ancs, Spec.n. rewrite mem_In. split; [apply ancs_sound_h | now apply ancs_complete_h].
Qed.

Lemma In_ancs_upto_h d : forall fuel i a, i < fuel -> Anc d i ->
  (In a (proper_ancestors c fuel i (Some d)) <-> Anc a i /\ Anc d a).
Proof.
  induction fuel as [|f IH]; intros i a Hi Hd; [lia|]. cbn [proper_ancestors].
  inversion Hd as [? p Hp|? p ? Hp Hdp]; subst; unfold par in Hp; rewrite Hp.
  - rewrite Nat.eqb_refl. split; [intros []|]. intros [Ha Hda].
    destruct (anc_child par _ _ _ Hp Ha) as [->|Hap]; [exact (hanc_irrefl c W _ Hda) | exact (hanc_antisym c W _ _ Hda Hap)].
  - destruct (wh_par_lt c W _ _ Hp) as [Hlt _].
    assert (Hne : p <> d) by (intros ->; exact (hanc_irrefl c W _ Hdp)).
    replace (p =? d) with false by (symmetry; now apply Nat.eqb_neq). cbn [In].
    rewrite (IH p a ltac:(lia) Hdp). split.
    + intros [<-|[Ha Hda]]; [split; [now apply anc_parent | exact Hdp] | split; [eapply anc_step; eauto | exact Hda]].
    + intros [Ha Hda]. destruct (anc_child par _ _ _ Hp Ha) as [->|Hap]; [now left | right; tauto].
Qed.

Lemma child_states_spec p k : In k (child_states c p) <-> par k = Some p /\ pseudo k = false.
Proof.
  unfold child_states. rewrite filter_In, (wh_children c W). unfold is_proper, sty, pseudoS, is_pseudo.
  destruct (fs_type (st c k)); intuition congruence.
Qed.

Lemma parallel_child_proper p k : kd p = FParallel -> par k = Some p -> pseudo k = false.
Proof.
  intros Hk Hp. destruct (pseudo k) eqn:E; [|reflexivity]. exfalso.
  destruct (wh_pseudo_parent c W k E) as (q & Hq & Hkq). fold (par k) in Hq. rewrite Hp in Hq. injection Hq as <-.
  fold (kd p) in Hkq. congruence.
Qed.

(* ------------------------------------------------------------------ the invariant *)

Definition below (S : list nat) (k : nat) : Prop := In k S \/ exists y, In y S /\ Anc k y.

Definition JustL (e : eset) (x : nat) : Prop :=
  (exists r G, B r G /\ IC r G x) \/
  (exists p, par x = Some p /\ In p (e_enter e) /\ kd p = FParallel) \/
  (exists q, In q (e_enter e) /\ In q (e_default e) /\ IC q (itg q) x).

Record GI (X : nat -> Prop) (e : eset) : Prop := {
  gi_hc : e_histcontent e = [];
  gi_sound : forall x, In x (e_enter e) ->
     x < n /\ JustL e x /\ exists r G, Dr r G x /\ (kd x = FCompound -> (In x (e_default e) <-> NTG x G));
  gi_dflt : forall p, In p (e_default e) -> In p (e_enter e) /\ kd p = FCompound;
  gi_par : forall p, In p (e_enter e) -> ~ X p -> kd p = FParallel -> forall k, par k = Some p -> below (e_enter e) k;
  gi_cmp : forall p, In p (e_enter e) -> ~ X p -> In p (e_default e) -> forall y, IC p (itg p) y -> In y (e_enter e)
}.

Definition ext (e e' : eset) : Prop := incl (e_enter e) (e_enter e') /\ incl (e_default e) (e_default e').

Lemma ext_refl e : ext e e.
Proof. split; apply incl_refl. Qed.

Lemma ext_trans e1 e2 e3 : ext e1 e2 -> ext e2 e3 -> ext e1 e3.
Proof. intros [A B'] [C D']. split; eapply incl_tran; eauto. Qed.

Lemma JustL_mono e e' x : ext e e' -> JustL e x -> JustL e' x.
Proof.
  intros [A B'] [H|[(p & Hp & Hin & Hk)|(q & Hq & Hd & Hi)]]; [now left | right; left; exists p; auto | right; right; exists q; auto].
Qed.

Lemma below_mono S S' k : incl S S' -> below S k -> below S' k.
Proof. intros Hi [H|(y & Hy & Ha)]; [left; auto | right; exists y; auto]. Qed.

Lemma incl_addn' s S : incl S (addn s S).
Proof. intros x Hx. apply me_In_addn. now right. Qed.

Definition add0 (s : nat) (e : eset) : eset :=
  {| e_enter := addn s (e_enter e); e_default := e_default e; e_histcontent := e_histcontent e |}.
Definition add1 (s : nat) (e : eset) : eset :=
  {| e_enter := addn s (e_enter e); e_default := addn s (e_default e); e_histcontent := e_histcontent e |}.

Lemma ext_add0 s e : ext e (add0 s e).
Proof. split; [apply incl_addn' | apply incl_refl]. Qed.
Lemma ext_add1 s e : ext e (add1 s e).
Proof. split; apply incl_addn'. Qed.

Lemma GI_add0 X e s r G : GI X e -> s < n -> JustL e s -> Dr r G s ->
  (kd s = FCompound -> (In s (e_default e) <-> NTG s G)) -> GI (fun p => X p \/ p = s) (add0 s e).
Proof.
  intros [Hh Hs Hd Hp Hc] Hsn Hj HD Hiff. constructor; cbn [add0 e_enter e_default e_histcontent].
  - exact Hh.
  - intros x Hx. apply me_In_addn in Hx as [->|Hx].
    + split; [exact Hsn|]. split; [exact (JustL_mono _ _ _ (ext_add0 s e) Hj)|]. exists r, G. auto.
    + destruct (Hs x Hx) as (A & J & HDx). split; [exact A|]. split; [exact (JustL_mono _ _ _ (ext_add0 s e) J) | exact HDx].
  - intros p Hin. destruct (Hd p Hin) as [A1 A2]. split; [now apply incl_addn' | exact A2].
  - intros p Hin Hx Hk k Hpk. apply me_In_addn in Hin as [->|Hin]; [exfalso; apply Hx; now right|].
    eapply below_mono; [apply incl_addn'|]. apply (Hp p Hin); auto.
  - intros p Hin Hx Hdp y Hy. apply me_In_addn in Hin as [->|Hin]; [exfalso; apply Hx; now right|].
    apply incl_addn'. apply (Hc p Hin); auto.
Qed.

Lemma GI_add1 X e s r G : GI X e -> s < n -> JustL e s -> Dr r G s -> kd s = FCompound -> NTG s G ->
  GI (fun p => X p \/ p = s) (add1 s e).
Proof.
  intros [Hh Hs Hd Hp Hc] Hsn Hj HD Hks Hnt. constructor; cbn [add1 e_enter e_default e_histcontent].
  - exact Hh.
  - intros x Hx.
    assert (Hiff : forall r' G', Dr r' G' x -> (kd x = FCompound -> In x (e_default e) <-> NTG x G') ->
                                 (kd x = FCompound -> In x (addn s (e_default e)) <-> NTG x G')).
    { intros r' G' HDx Hold Hkx. rewrite me_In_addn. destruct (Nat.eq_dec x s) as [->|Hne].
      - destruct (D_unique c W B HB2 s r' G' r G HDx HD) as [-> ->]. tauto.
      - rewrite <- (Hold Hkx). tauto. }
    apply me_In_addn in Hx as [->|Hx].
    + split; [exact Hsn|]. split; [exact (JustL_mono _ _ _ (ext_add1 s e) Hj)|]. exists r, G. split; [exact HD|].
      intros _. rewrite me_In_addn. tauto.
    + destruct (Hs x Hx) as (A & J & r' & G' & HDx & Hold). split; [exact A|].
      split; [exact (JustL_mono _ _ _ (ext_add1 s e) J)|]. exists r', G'. split; [exact HDx | exact (Hiff r' G' HDx Hold)].
  - intros p Hin. apply me_In_addn in Hin as [->|Hin]; [split; [apply me_In_addn; now left | exact Hks]|].
    destruct (Hd p Hin) as [A1 A2]. split; [apply me_In_addn; now right | exact A2].
  - intros p Hin Hx Hk k Hpk. apply me_In_addn in Hin as [->|Hin]; [exfalso; apply Hx; now right|].
    eapply below_mono; [apply incl_addn'|]. apply (Hp p Hin); auto.
  - intros p Hin Hx Hdp y Hy. apply me_In_addn in Hin as [->|Hin]; [exfalso; apply Hx; now right|].
    apply me_In_addn in Hdp as [->|Hdp]; [exfalso; apply Hx; now right|].
    apply incl_addn'. apply (Hc p Hin); auto.
Qed.

Lemma GI_close X e s : GI (fun p => X p \/ p = s) e ->
  (kd s = FParallel -> forall k, par k = Some s -> below (e_enter e) k) ->
  (In s (e_default e) -> forall y, IC s (itg s) y -> In y (e_enter e)) -> GI X e.
Proof.
  intros [Hh Hs Hd Hp Hc] C1 C2. constructor; auto.
  - intros p Hin Hx. destruct (Nat.eq_dec p s) as [->|Hne]; [auto|]. apply Hp; [exact Hin | intros [HX|E]; auto].
  - intros p Hin Hx. destruct (Nat.eq_dec p s) as [->|Hne]; [auto|]. apply Hc; [exact Hin | intros [HX|E]; auto].
Qed.

(* ------------------------------------------------------------------ addDescendantStatesToEnter / addAncestorStatesToEnter *)

Definition kid_step (f : nat) (e : eset) (k : nat) : eset :=
  if some_descendant_of c (e_enter e) k then e else add_descendants c f h k e.

Definition aa_step (f : nat) (e : eset) (a : nat) : eset :=
  if is_parallel_state c a then fold_left (kid_step f) (child_states c a) (add0 a e) else add0 a e.

Lemma AD_unfold f s e : add_descendants c (S f) h s e =
  if is_compound_state c s then
    fold_left (fun e x => add_ancestors c f h x (Some s) e) (itg s)
              (fold_left (fun e x => add_descendants c f h x e) (itg s) (add1 s e))
  else if is_parallel_state c s then fold_left (kid_step f) (child_states c s) (add0 s e)
  else add0 s e.
Proof. cbn [add_descendants]. rewrite hist_false_h. reflexivity. Qed.

Lemma aa_step_par f e a : kd a = FParallel -> aa_step f e a = fold_left (kid_step f) (child_states c a) (add0 a e).
Proof. intros H. unfold aa_step, is_parallel_state, sty. unfold kd in H. rewrite H. reflexivity. Qed.
Lemma aa_step_np f e a : kd a <> FParallel -> aa_step f e a = add0 a e.
Proof. intros H. unfold aa_step, is_parallel_state, sty. unfold kd in H. destruct (fs_type (st c a)); congruence. Qed.

Lemma AA_unfold f tg u e : add_ancestors c (S f) h tg u e = fold_left (aa_step f) (ancs c tg u) e.
Proof. reflexivity. Qed.

Definition AD_spec (f : nat) : Prop :=
  forall s e X r G, n - s < f -> s < n -> GI X e -> Dr r G s -> NTG s G -> JustL e s ->
    GI X (add_descendants c f h s e) /\ ext e (add_descendants c f h s e) /\ In s (e_enter (add_descendants c f h s e)).

Definition AA_spec (f : nat) : Prop :=
  forall tg d e X G, n - d <= f -> Anc d tg -> In tg (e_enter e) -> GI X e -> In tg G ->
    (forall g, In g G -> In g (e_enter e)) ->
    (forall a, Anc a tg -> Anc d a -> Dr d G a /\ JustL e a) ->
    GI X (add_ancestors c f h tg (Some d) e) /\ ext e (add_ancestors c f h tg (Some d) e) /\
    forall a, Anc a tg -> Anc d a -> In a (e_enter (add_ancestors c f h tg (Some d) e)).

Lemma kids_loop f (IH : AD_spec f) p X r G : kd p = FParallel -> n - p <= f -> Dr r G p ->
  forall l, (forall k, In k l -> par k = Some p) ->
  forall e1, GI X e1 -> In p (e_enter e1) ->
    (forall k e2, In k l -> ext e1 e2 -> some_descendant_of c (e_enter e2) k = false -> NTG k G) ->
    let e' := fold_left (kid_step f) l e1 in
    GI X e' /\ ext e1 e' /\ forall k, In k l -> below (e_enter e') k.
Proof.
  intros Hk Hf HDp. induction l as [|k rr IHl]; intros Hch e1 HG Hp Hnt; cbn [fold_left].
  - split; [exact HG|]. split; [apply ext_refl | intros k []].
  - assert (Hpk : par k = Some p) by (apply Hch; now left).
    destruct (wh_par_lt c W _ _ Hpk) as [Hlt Hkn]. fold n in Hkn.
    destruct (some_descendant_of c (e_enter e1) k) eqn:Hsd;
      [replace (kid_step f e1 k) with e1 by (unfold kid_step; now rewrite Hsd)
      |replace (kid_step f e1 k) with (add_descendants c f h k e1) by (unfold kid_step; now rewrite Hsd)].
    + destruct (IHl (fun z Hz => Hch z (or_intror Hz)) e1 HG Hp (fun z e2 Hz => Hnt z e2 (or_intror Hz))) as (A & B' & C).
      split; [exact A|]. split; [exact B'|]. intros z [<-|Hz]; [|now apply C].
      unfold some_descendant_of in Hsd. apply existsb_exists in Hsd as (y & Hy & Hd).
      right. exists y. split; [now apply (proj1 B')|].
      unfold is_descendant in Hd. apply mem_In in Hd. exact (ancs_sound_h _ _ _ _ Hd).
    + destruct (IH k e1 X r G ltac:(lia) Hkn HG (D_par c B r G p k HDp Hk Hpk)) as (A1 & B1 & C1).
      { exact (Hnt k e1 (or_introl eq_refl) (ext_refl e1) Hsd). }
      { right. left. exists p. auto. }
      destruct (IHl (fun z Hz => Hch z (or_intror Hz)) (add_descendants c f h k e1) A1 (proj1 B1 _ Hp)) as (A & B' & C).
      { intros z e2 Hz He2. apply (Hnt z e2 (or_intror Hz)). eapply ext_trans; eauto. }
      split; [exact A|]. split; [eapply ext_trans; eauto|].
      intros z [<-|Hz]; [left; now apply (proj1 B') | now apply C].
Qed.

(* a fold of addDescendantStatesToEnter over members of one context *)
Lemma AD_fold f (IH : AD_spec f) X r G : forall l e1, GI X e1 ->
  (forall g, In g l -> n - g < f /\ g < n /\ Dr r G g /\ NTG g G /\ JustL e1 g) ->
  let e' := fold_left (fun e x => add_descendants c f h x e) l e1 in
  GI X e' /\ ext e1 e' /\ forall g, In g l -> In g (e_enter e').
Proof.
  induction l as [|g rr IHl]; intros e1 HG Hl; cbn [fold_left].
  - split; [exact HG|]. split; [apply ext_refl | intros g []].
  - destruct (Hl g (or_introl eq_refl)) as (Hf & Hgn & HD & Hnt & Hj).
    destruct (IH g e1 X r G Hf Hgn HG HD Hnt Hj) as (A1 & B1 & C1).
    destruct (IHl (add_descendants c f h g e1) A1) as (A & B' & C).
    { intros z Hz. destruct (Hl z (or_intror Hz)) as (F1 & F2 & F3 & F4 & F5). repeat split; auto. exact (JustL_mono _ _ _ B1 F5). }
    split; [exact A|]. split; [eapply ext_trans; eauto|].
    intros z [<-|Hz]; [now apply (proj1 B') | now apply C].
Qed.

Lemma AA_fold f (IH : AA_spec f) X d G : n - d <= f -> forall l e2, GI X e2 ->
  (forall g, In g G -> In g (e_enter e2)) ->
  (forall g, In g l -> In g G /\ Anc d g /\ forall a, Anc a g -> Anc d a -> Dr d G a /\ JustL e2 a) ->
  let e' := fold_left (fun e x => add_ancestors c f h x (Some d) e) l e2 in
  GI X e' /\ ext e2 e' /\ forall g a, In g l -> Anc a g -> Anc d a -> In a (e_enter e').
Proof.
  intros Hf. induction l as [|g rr IHl]; intros e2 HG Hall Hl; cbn [fold_left].
  - split; [exact HG|]. split; [apply ext_refl | intros g a []].
  - destruct (Hl g (or_introl eq_refl)) as (HgG & Hdg & Hanc).
    destruct (IH g d e2 X G Hf Hdg (Hall g HgG) HG HgG Hall Hanc) as (A1 & B1 & C1).
    destruct (IHl (add_ancestors c f h g (Some d) e2) A1) as (A & B' & C).
    { intros z Hz. apply (proj1 B1). now apply Hall. }
    { intros z Hz. destruct (Hl z (or_intror Hz)) as (F1 & F2 & F3). split; [exact F1|]. split; [exact F2|].
      intros a Ha Hda. destruct (F3 a Ha Hda) as [F4 F5]. split; [exact F4 | exact (JustL_mono _ _ _ B1 F5)]. }
    split; [exact A|]. split; [eapply ext_trans; eauto|].
    intros z a [<-|Hz] Ha Hda; [apply (proj1 B'); now apply C1 | now apply (C z a)].
Qed.

Lemma AA_of_AD f : AD_spec f -> AA_spec (S f).
Proof.
  intros IH tg d e X G Hf Hdtg Htg HG HtgG Hall Hanc. rewrite AA_unfold.
  assert (HL : forall a, In a (ancs c tg (Some d)) <-> Anc a tg /\ Anc d a).
  { intros a. unfold ancs, Spec.n. apply In_ancs_upto_h; [|exact Hdtg]. now destruct (hanc_lt c W _ _ Hdtg). }
  assert (Hloop : forall l e1, (forall a, In a l -> Anc a tg /\ Anc d a) -> GI X e1 -> ext e e1 ->
     GI X (fold_left (aa_step f) l e1) /\ ext e1 (fold_left (aa_step f) l e1) /\
     forall a, In a l -> In a (e_enter (fold_left (aa_step f) l e1))).
  { induction l as [|a rr IHl]; intros e1 Hl HG1 He1; cbn [fold_left].
    - split; [exact HG1|]. split; [apply ext_refl | intros a []].
    - destruct (Hl a (or_introl eq_refl)) as [Has Hda].
      destruct (hanc_lt c W _ _ Has) as [Halt Htgn]. fold n in Htgn. assert (Han : a < n) by lia.
      destruct (hanc_lt c W _ _ Hda) as [Hdlt _].
      destruct (Hanc a Has Hda) as [HDa Hja]. pose proof (JustL_mono _ _ _ He1 Hja) as Hja1.
      (* a is forced: not entered by default *)
      assert (Hforced : ~ NTG a G) by (intros Hn; exact (Hn tg HtgG Has)).
      assert (Hnd : kd a = FCompound -> (In a (e_default e1) <-> NTG a G)).
      { intros Hka. split; [|tauto]. intros Hin. exfalso.
        destruct (gi_sound _ _ HG1 a (proj1 (gi_dflt _ _ HG1 a Hin))) as (_ & _ & r' & G' & HD' & Hiff).
        destruct (D_unique c W B HB2 a r' G' d G HD' HDa) as [-> ->]. apply Hforced. now apply Hiff. }
      pose proof (GI_add0 X e1 a d G HG1 Han Hja1 HDa Hnd) as HG0.
      assert (Hcont : forall e2, GI X e2 -> ext (add0 a e1) e2 ->
                GI X (fold_left (aa_step f) rr e2) /\ ext e1 (fold_left (aa_step f) rr e2) /\
                forall z, In z (a :: rr) -> In z (e_enter (fold_left (aa_step f) rr e2))).
      { intros e2 HG2 He2.
        assert (He12 : ext e1 e2) by (eapply ext_trans; [apply ext_add0 | exact He2]).
        destruct (IHl e2 (fun z Hz => Hl z (or_intror Hz)) HG2 (ext_trans _ _ _ He1 He12)) as (A & B' & C).
        split; [exact A|]. split; [eapply ext_trans; eauto|].
        intros z [<-|Hz]; [apply (proj1 B'), (proj1 He2); cbn; apply me_In_addn; now left | now apply C]. }
      assert (Hclose_np : kd a <> FParallel -> GI X (add0 a e1)).
      { intros Hnp. apply (GI_close X _ a HG0); [intros E; congruence|]. cbn [add0 e_default]. intros Hin.
        exfalso. apply Hforced. apply Hnd; [|exact Hin]. exact (proj2 (gi_dflt _ _ HG1 a Hin)). }
      assert (Hkp : kd a <> FParallel \/ kd a = FParallel) by (destruct (kd a); auto; left; discriminate).
      destruct Hkp as [Hka|Hka]; [rewrite (aa_step_np f e1 a Hka); apply Hcont; [now apply Hclose_np | apply ext_refl]|].
      rewrite (aa_step_par f e1 a Hka).
      { (* parallel *)
        destruct (kids_loop f IH a (fun p => X p \/ p = a) d G Hka ltac:(lia) HDa (child_states c a)
                    (fun k Hk => proj1 (proj1 (child_states_spec a k) Hk)) (add0 a e1) HG0) as (A & B' & C).
        - cbn. apply me_In_addn. now left.
        - intros k e2 Hk He2 Hsd g Hg Hkg.
          assert (Hgin : In g (e_enter e2)) by (apply (proj1 He2), incl_addn', (proj1 He1); now apply Hall).
          assert (Hgn : g < n) by (destruct (hanc_lt c W _ _ Hkg); assumption).
          assert (some_descendant_of c (e_enter e2) k = true); [|congruence].
          apply existsb_exists. exists g. split; [exact Hgin | now apply is_desc_iff_h].
        - apply Hcont; [|exact B']. apply (GI_close X _ a A).
          + intros _ k Hpk. apply C. apply child_states_spec. split; [exact Hpk | exact (parallel_child_proper a k Hka Hpk)].
          + intros Hin. exfalso. destruct (gi_dflt _ _ A a Hin) as [_ E]. congruence. } }
  destruct (Hloop (ancs c tg (Some d)) e (fun a Ha => proj1 (HL a) Ha) HG (ext_refl e)) as (A & B' & C).
  split; [exact A|]. split; [exact B'|]. intros a Has Hda. apply C. apply HL. tauto.
Qed.

Lemma AD_step f : AD_spec f -> AA_spec f -> AD_spec (S f).
Proof.
  intros IHD IHA s e X r G Hf Hs HG HD Hnt Hj. rewrite AD_unfold.
  unfold is_compound_state, is_parallel_state, sty. fold (kd s).
  assert (Hplain : kd s <> FCompound -> kd s <> FParallel ->
            GI X (add0 s e) /\ ext e (add0 s e) /\ In s (e_enter (add0 s e))).
  { intros H1 H2. split; [|split; [apply ext_add0 | cbn; apply me_In_addn; now left]].
    apply (GI_close X _ s (GI_add0 X e s r G HG Hs Hj HD (fun E => False_ind _ (H1 E)))); [intros E; congruence|].
    cbn [add0 e_default]. intros Hin. exfalso. apply H1. exact (proj2 (gi_dflt _ _ HG s Hin)). }
  destruct (kd s) eqn:Hks.
  1,4,5,6,7: apply Hplain; discriminate.
  - (* compound *)
    pose proof (GI_add1 X e s r G HG Hs Hj HD Hks Hnt) as HG1.
    pose proof (itg_good c W HcplOK HcplAnti HtgAnti s Hks) as Hgood.
    assert (Hs1 : In s (e_enter (add1 s e))) by (cbn; apply me_In_addn; now left).
    assert (Hd1 : In s (e_default (add1 s e))) by (cbn; apply me_In_addn; now left).
    assert (HDg : forall y, IC s (itg s) y -> Dr s (itg s) y).
    { intros y Hy. exact (D_IC_default c B r G s y HD Hks Hnt Hy). }
    destruct (AD_fold f IHD (fun p => X p \/ p = s) s (itg s) (itg s) (add1 s e) HG1) as (A1 & B1 & C1).
    { intros g Hg. pose proof (gc_below _ _ _ Hgood g Hg) as Hsg. destruct (hanc_lt c W _ _ Hsg) as [Hlt Hgn]. fold n in Hgn.
      assert (Hic : IC s (itg s) g) by (split; [exact Hsg | exists g; split; [exact Hg | now left]]).
      split; [lia|]. split; [exact Hgn|]. split; [now apply HDg|]. split; [exact (NTG_member c s (itg s) g Hgood Hg)|].
      right. right. exists s. auto. }
    set (e2 := fold_left (fun e x => add_descendants c f h x e) (itg s) (add1 s e)) in *.
    destruct (AA_fold f IHA (fun p => X p \/ p = s) s (itg s) ltac:(lia) (itg s) e2 A1 C1) as (A2 & B2 & C2).
    { intros g Hg. split; [exact Hg|]. pose proof (gc_below _ _ _ Hgood g Hg) as Hsg. split; [exact Hsg|].
      intros a Hag Hsa. assert (Hic : IC s (itg s) a) by (split; [exact Hsa | exists g; split; [exact Hg | now right]]).
      split; [now apply HDg|]. right. right. exists s. split; [apply (proj1 B1); exact Hs1|]. split; [apply (proj2 B1); exact Hd1 | exact Hic]. }
    set (e3 := fold_left (fun e x => add_ancestors c f h x (Some s) e) (itg s) e2) in *.
    split; [|split; [eapply ext_trans; [apply ext_add1|]; eapply ext_trans; eauto | apply (proj1 B2), (proj1 B1); exact Hs1]].
    apply (GI_close X _ s A2); [intros E; congruence|].
    intros _ y [Hsy (g & Hg & Hon)]. destruct Hon as [->|Hyg]; [apply (proj1 B2); now apply C1 | exact (C2 g y Hg Hyg Hsy)].
  - (* parallel *)
    assert (Hnc : kd s = FCompound -> In s (e_default e) <-> NTG s G) by (intros E; congruence).
    pose proof (GI_add0 X e s r G HG Hs Hj HD Hnc) as HG0.
    destruct (kids_loop f IHD s (fun p => X p \/ p = s) r G Hks ltac:(lia) HD (child_states c s)
                (fun k Hk => proj1 (proj1 (child_states_spec s k) Hk)) (add0 s e) HG0) as (A & B' & C).
    + cbn. apply me_In_addn. now left.
    + intros k e2 Hk _ _. apply child_states_spec in Hk as [Hpk _]. exact (NTG_down c s k G Hpk Hnt).
    + split; [|split; [eapply ext_trans; [apply ext_add0 | exact B'] | apply (proj1 B'); cbn; apply me_In_addn; now left]].
      apply (GI_close X _ s A).
      * intros _ k Hpk. apply C. apply child_states_spec. split; [exact Hpk | exact (parallel_child_proper s k Hks Hpk)].
      * intros Hin. exfalso. destruct (gi_dflt _ _ A s Hin) as [_ E]. congruence.
Qed.

Theorem AD_AA_all : forall f, AD_spec f /\ AA_spec f.
Proof.
  induction f as [|f [IHD IHA]].
  - split; [intros s e X r G Hf; lia|]. intros tg d e X G Hf Hdtg. destruct (hanc_lt c W _ _ Hdtg). unfold n in *. lia.
  - split; [now apply AD_step | now apply AA_of_AD].
Qed.

(* ------------------------------------------------------------------ one context: the targets of a transition below its domain *)

Definition ctx_enter (d : nat) (G l : list nat) (e : eset) : eset :=
  fold_left (fun e s => add_ancestors c (spec_fuel c) h s (Some d) e) l
            (fold_left (fun e s => add_descendants c (spec_fuel c) h s e) G e).

Lemma ctx_enter_ok d G l e : B d G -> (forall x, In x l <-> In x G) -> GI (fun _ => False) e ->
  GI (fun _ => False) (ctx_enter d G l e) /\ ext e (ctx_enter d G l e) /\ forall y, IC d G y -> In y (e_enter (ctx_enter d G l e)).
Proof.
  intros Hb Hl HG. pose proof (HB1 d G Hb) as Hgood. unfold ctx_enter.
  destruct (AD_AA_all (spec_fuel c)) as [IHD IHA].
  assert (Hfuel : forall g, Anc d g -> n - g < spec_fuel c /\ g < n).
  { intros g Hg. destruct (hanc_lt c W _ _ Hg). unfold spec_fuel, Spec.n. fold n. lia. }
  destruct (AD_fold (spec_fuel c) IHD (fun _ => False) d G G e HG) as (A1 & B1 & C1).
  { intros g Hg. pose proof (gc_below _ _ _ Hgood g Hg) as Hdg. destruct (Hfuel g Hdg) as [F1 F2].
    assert (Hic : IC d G g) by (split; [exact Hdg | exists g; split; [exact Hg | now left]]).
    split; [exact F1|]. split; [exact F2|]. split; [exact (D_IC_base c B d G g Hb Hic)|].
    split; [exact (NTG_member c d G g Hgood Hg)|]. left. exists d, G. auto. }
  set (e1 := fold_left (fun e s => add_descendants c (spec_fuel c) h s e) G e) in *.
  destruct (AA_fold (spec_fuel c) IHA (fun _ => False) d G ltac:(unfold spec_fuel, Spec.n; fold n; lia) l e1 A1 C1) as (A2 & B2 & C2).
  { intros g Hg. apply Hl in Hg. split; [exact Hg|]. pose proof (gc_below _ _ _ Hgood g Hg) as Hdg. split; [exact Hdg|].
    intros a Hag Hda. assert (Hic : IC d G a) by (split; [exact Hda | exists g; split; [exact Hg | now right]]).
    split; [exact (D_IC_base c B d G a Hb Hic)|]. left. exists d, G. auto. }
  split; [exact A2|]. split; [eapply ext_trans; eauto|].
  intros y [Hdy (g & Hg & Hon)]. destruct Hon as [->|Hyg]; [apply (proj1 B2); now apply C1|].
  apply (C2 g y); [now apply Hl | exact Hyg | exact Hdy].
Qed.

Lemma GI_empty : GI (fun _ => False) {| e_enter := []; e_default := []; e_histcontent := [] |}.
Proof. constructor; cbn; try reflexivity; intros ? []. Qed.

(* ------------------------------------------------------------------ a finished set *)

Section Final.
Variable e : eset.
Hypothesis HG : GI (fun _ => False) e.
(* every context of the microstep has been entered *)
Hypothesis Hbase : forall r G y, B r G -> IC r G y -> In y (e_enter e).
Notation S := (e_enter e).

Lemma S_D x : In x S -> exists r G, Dr r G x.
Proof. intros Hx. destruct (gi_sound _ _ HG x Hx) as (_ & _ & r & G & HD & _). eauto. Qed.

Lemma S_below_root x : In x S -> exists r0 G0, B r0 G0 /\ Anc r0 x.
Proof.
  intros Hx. destruct (S_D x Hx) as (r & G & HD). destruct (D_root c B r G x HD) as (r0 & G0 & Hb & Hr).
  exists r0, G0. split; [exact Hb|]. pose proof (D_below c B r G x HD) as Hrx.
  destruct Hr as [->|Hr]; [exact Hrx | eapply hanc_trans; eauto].
Qed.

Lemma S_up : forall y, In y S -> forall k p, Anc k y -> par k = Some p -> In p S -> In k S.
Proof.
  induction y as [y IH] using lt_wf_ind. intros Hy k p Hky Hpk Hp.
  destruct (gi_sound _ _ HG y Hy) as (_ & [(r0 & G0 & Hb & Hic)|[(q & Hq & Hin & Hkq)|(q & Hq & Hdq & Hic)]] & _).
  - destruct Hic as [Hry (g & Hg & Hon)].
    destruct (hanc_chain c r0 k y Hry Hky) as [E|[E|E]].
    + exfalso. subst k. destruct (S_below_root p Hp) as (r1 & G1 & Hb1 & Ha1).
      assert (H10 : Anc r1 r0) by (eapply hanc_trans; [exact Ha1 | now apply anc_parent]).
      destruct (HB2 r1 G1 r0 G0 Hb1 Hb) as [[-> _]|(_ & Hn & _)]; [exact (hanc_irrefl c W _ H10) | now apply Hn].
    + apply (Hbase r0 G0 k Hb). split; [exact E|]. exists g. split; [exact Hg|]. right.
      destruct Hon as [->|Hyg]; [exact Hky | eapply hanc_trans; eauto].
    + exfalso. destruct (S_below_root p Hp) as (r1 & G1 & Hb1 & Ha1).
      assert (H10 : Anc r1 r0) by (eapply hanc_trans; [exact Ha1|]; eapply hanc_trans; [apply anc_parent; exact Hpk | exact E]).
      destruct (HB2 r1 G1 r0 G0 Hb1 Hb) as [[-> _]|(_ & Hn & _)]; [exact (hanc_irrefl c W _ H10) | now apply Hn].
  - destruct (anc_child par _ _ _ Hq Hky) as [->|Hkq']; [exact Hin|].
    destruct (wh_par_lt c W _ _ Hq) as [Hlt _]. exact (IH q Hlt Hin k p Hkq' Hpk Hp).
  - destruct Hic as [Hqy (g & Hg & Hon)].
    destruct (hanc_chain c q k y Hqy Hky) as [E|[E|E]].
    + now subst k.
    + apply (gi_cmp _ _ HG q Hq (fun F => F) Hdq). split; [exact E|]. exists g. split; [exact Hg|]. right.
      destruct Hon as [->|Hyg]; [exact Hky | eapply hanc_trans; eauto].
    + destruct (hanc_lt c W _ _ Hqy) as [Hlt _]. exact (IH q Hlt Hq k p E Hpk Hp).
Qed.

Lemma D_S_strong r G x : Dr r G x -> In x S /\ (B r G \/ (In r S /\ In r (e_default e) /\ G = itg r)).
Proof.
  induction 1 as [r G k Hb Hp Ho|r G p k HD [IH1 IH2] Hk Hp|r G p k HD [IH1 IH2] Hk Hp Ho|r G p k HD [IH1 IH2] Hk Hn Hp Ho].
  - split; [|now left]. apply (Hbase r G k Hb). destruct Ho as (g & Hg & Hon). split; [now apply anc_parent | exists g; auto].
  - split; [|exact IH2]. destruct (gi_par _ _ HG p IH1 (fun F => F) Hk k Hp) as [H|(y & Hy & Ha)]; [exact H|].
    exact (S_up y Hy k p Ha Hp IH1).
  - split; [|exact IH2]. destruct Ho as (g & Hg & Hon).
    assert (Hic : IC r G k).
    { split; [eapply anc_step; [exact Hp | exact (D_below c B r G p HD)] | exists g; auto]. }
    destruct IH2 as [Hb|(Hr & Hd & ->)]; [exact (Hbase r G k Hb Hic) | exact (gi_cmp _ _ HG r Hr (fun F => F) Hd k Hic)].
  - assert (Hpd : In p (e_default e)).
    { destruct (gi_sound _ _ HG p IH1) as (_ & _ & r' & G' & HD' & Hiff).
      destruct (D_unique c W B HB2 p r' G' r G HD' HD) as [-> ->]. now apply Hiff. }
    split; [|right; auto]. destruct Ho as (g & Hg & Hon).
    apply (gi_cmp _ _ HG p IH1 (fun F => F) Hpd). split; [now apply anc_parent | exists g; auto].
Qed.

Theorem final_set x : In x S <-> exists r G, Dr r G x.
Proof. split; [apply S_D | intros (r & G & HD); exact (proj1 (D_S_strong r G x HD))]. Qed.

Theorem final_default x : In x (e_default e) <-> kd x = FCompound /\ exists r G, Dr r G x /\ NTG x G.
Proof.
  split.
  - intros Hd. destruct (gi_dflt _ _ HG x Hd) as [Hx Hk]. split; [exact Hk|].
    destruct (gi_sound _ _ HG x Hx) as (_ & _ & r & G & HD & Hiff). exists r, G. split; [exact HD | now apply Hiff].
  - intros (Hk & r & G & HD & Hn). destruct (gi_sound _ _ HG x (proj1 (D_S_strong r G x HD))) as (_ & _ & r' & G' & HD' & Hiff).
    destruct (D_unique c W B HB2 x r' G' r G HD' HD) as [-> ->]. now apply Hiff.
Qed.

End Final.

End ISpec.
