(* FlattenStaticTree.v -- well-formedness of a DOCUMENT (a tree of Chart.v) WITH <initial> elements, deep / multiple
   `initial` attributes and <history>, as a boolean predicate on the tree.  Definitions only; FlattenStaticHist.v
   proves that LargeMicroStep::init (Chart.flatten) turns every such document into flat tables that pass the check
   LegalHistWf.wf_histb with a compound root, FlattenStaticMain.v that with ct_par_nonemptyb they pass
   EngineEquivHistRun.eq_chartb_hist (the static hypothesis of the engine-equivalence theorems of C03).

   hist_treeb t, clause by clause (SCXML Recommendation section 3; the element numbers t_sid are the ids):
     ht_rootb          the root is an <scxml> element with at least one child element;
     ht_nestb          nesting: <state>/<parallel> below <scxml>/<state>/<parallel>; <final> below <scxml>/<state>;
                       <history> and <initial> below <state> only (no <history> directly below <parallel> or
                       <scxml>: outside wf_histb); nothing below <final>, <history>, <initial>; no nested <scxml>;
     ct_uniqueb        the numbers of all elements are pairwise different (FlattenWf.v);
     ht_targetsb       a target attribute lists at least one id, every id is the id of an element other than the
                       root and <initial> elements, and no two of them lie in different children of a
                       <state>/<scxml> (FlattenWf.target_set_okb: a legal state specification);
     ht_initattrb      the same for every `initial` attribute (of an element other than <initial>), the ids being
                       ids of DESCENDANTS of the element;
     ht_initialb       an <initial> element has exactly one transition, without cond and event, with a target
                       attribute naming proper states (no <history>, no <initial>) strictly below the parent;
     ht_historyb       a <history> element has exactly one transition, without cond and event, with a target
                       attribute naming proper states strictly below the parent (deep) / proper CHILDREN of the
                       parent (shallow);
     vb_hist_disjointb (ValidateBridge.v; C02-K1) no state below the parent of a deep <history> owns a <history>:
                       the recorded sets of histories with different parents are disjoint.
   Nothing is demanded of event descriptors, conditions and executable content of the transitions of proper
   states, of <data>, onentry/onexit.

   eq_tree_histb t = hist_treeb t and every <parallel> has a child (FlattenWf.ct_par_nonemptyb).

   ct_leafb t (tree-level counterpart of EngineEquivDone.leaf_okb, for ANY tree; follows from hist_treeb):
   a <final> has no child element, and a <state>/<scxml> with child elements has a proper child state (not only
   <history>/<initial> children).
   eq_tree_coreb t = FlattenWf.core_treeb t, ct_par_nonemptyb t, ct_leafb t: the document-level form of
   EngineEquivRun.eq_chartb (history-free core). *)
From V Require Import Base Chart FlattenWf ValidateBridge.
Local Open Scope N_scope.

Definition ht_rootb (t : tree) : bool := match t_kind t with KScxml => has_kids t | _ => false end.

Definition ht_kid_okb (parent kid : skind) : bool :=
  match kid, parent with
  | (KState | KParallel), (KScxml | KState | KParallel) => true
  | KFinal, (KScxml | KState) => true
  | (KHistShallow | KHistDeep | KInitial), KState => true
  | _, _ => false
  end.

Definition ht_nestb (t : tree) : bool :=
  forallb (fun u => forallb (fun k => ht_kid_okb (t_kind u) (t_kind k)) (t_kids u)) (subtrees t).

Definition nonemptyN (l : list N) : bool := match l with [] => false | _ => true end.
(* every id of l is in the pool *)
Definition ids_inb (l pool : list N) : bool := forallb (fun s => memN s pool) l.

Definition ht_targetsb (t : tree) : bool :=
  forallb (fun u => forallb (fun x => match tt_targets x with
                                      | Some l => nonemptyN l && ids_inb l (vsids_below t) && target_set_okb t l
                                      | None => true
                                      end) (t_trans u)) (subtrees t).

Definition ht_initattrb (t : tree) : bool :=
  forallb (fun u => match t_initattr u with
                    | Some l => is_initial_kind (t_kind u) ||
                                (nonemptyN l && ids_inb l (vsids_below u) && target_set_okb t l)
                    | None => true
                    end) (subtrees t).

(* numbers of the proper children of p *)
Definition pksids (p : tree) : list N := map t_sid (filter tprop (t_kids p)).

(* exactly one transition, no cond, no event, a target attribute with ids of the scope *)
Definition pseudo_trans_okb (scope : list N) (h : tree) : bool :=
  match t_trans h with
  | [x] => match tt_targets x, tt_cond x, tt_event x with
           | Some l, None, None => ids_inb l scope
           | _, _, _ => false
           end
  | _ => false
  end.

Definition ht_initialb (t : tree) : bool :=
  forallb (fun p => forallb (fun h => if is_initial_kind (t_kind h) then pseudo_trans_okb (psids_below p) h else true)
                            (t_kids p)) (subtrees t).

Definition ht_historyb (t : tree) : bool :=
  forallb (fun p => forallb (fun h => match t_kind h with
                                      | KHistDeep => pseudo_trans_okb (psids_below p) h
                                      | KHistShallow => pseudo_trans_okb (pksids p) h
                                      | _ => true
                                      end) (t_kids p)) (subtrees t).

Definition hist_treeb (t : tree) : bool :=
  ht_rootb t && ht_nestb t && ct_uniqueb t && ht_targetsb t && ht_initattrb t && ht_initialb t && ht_historyb t &&
  vb_hist_disjointb t.

Definition eq_tree_histb (t : tree) : bool := hist_treeb t && ct_par_nonemptyb t.

Definition ct_leafb (t : tree) : bool :=
  forallb (fun u => match t_kind u with
                    | KFinal => negb (has_kids u)
                    | KScxml | KState => has_proper_child u || negb (has_kids u)
                    | _ => true
                    end) (subtrees t).

Definition eq_tree_coreb (t : tree) : bool := core_treeb t && ct_par_nonemptyb t && ct_leafb t.
