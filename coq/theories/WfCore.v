(* WfCore.v -- a boolean check of the structural well-formedness record WF of LegalLarge.v, and its
   soundness: wf_coreb c = true -> WF c.  The check is evaluated on every generated chart by the C02
   check (which charts the theorem covers) and by vm_compute in the Example. *)
From V Require Import Base NameMatch Chart Exec Large Legal SetLemmas LegalAbstract LegalLarge.
Local Open Scope nat_scope.

Fixpoint list_eqb (a b : list nat) : bool :=
  match a, b with
  | [], [] => true
  | x :: a', y :: b' => (x =? y) && list_eqb a' b'
  | _, _ => false
  end.

Lemma list_eqb_eq a b : list_eqb a b = true <-> a = b.
Proof.
  revert b; induction a as [|x a IH]; intros [|y b]; cbn; split; intro H; try easy.
  - apply andb_true_iff in H as [H1 H2]. apply Nat.eqb_eq in H1. apply IH in H2. now subst.
  - inversion H; subst. rewrite Nat.eqb_refl. now apply IH.
Qed.

Definition opt_eqb (o : option nat) (p : nat) : bool := match o with Some q => q =? p | None => false end.

Section Check.
Variable c : fchart.
Let n := nstates c.
Let par (i : nat) := fs_parent (st c i).
Let ch (i : nat) := fs_children (st c i).
Let kd (i : nat) := fs_type (st c i).
Let anc (i : nat) := fs_ancestors (st c i).

Definition core_type (t : ftype) : bool :=
  match t with FAtomic | FCompound | FParallel | FFinal => true | _ => false end.

Definition on_path (k g : nat) : bool := (k =? g) || mem k (anc g).

Definition wfb_nonempty : bool := 0 <? n.
Definition wfb_root : bool := match par 0 with None => true | Some _ => false end.
Definition wfb_parent : bool := forallb (fun i => match par i with Some p => p <? i | None => i =? 0 end) (seq 0 n).
Definition wfb_children : bool := forallb (fun p => list_eqb (ch p) (filter (fun k => opt_eqb (par k) p) (seq 0 n))) (seq 0 n).
Definition wfb_anc : bool :=
  forallb (fun i => list_eqb (anc i) (match par i with Some p => insert_sorted p (anc p) | None => [] end)) (seq 0 n).
Definition wfb_interval : bool :=
  forallb (fun a => forallb (fun i => Bool.eqb (mem a (anc i)) ((a <? i) && (i <? a + fs_size (st c a)))) (seq 0 n)) (seq 0 n).
Definition wfb_types : bool := forallb (fun i => core_type (kd i)) (seq 0 n).
Definition wfb_root_type : bool := match kd 0 with FParallel => false | _ => true end.
Definition wfb_completion : bool :=
  forallb (fun i => match kd i with
                    | FCompound => match fs_completion (st c i) with [k] => mem k (ch i) | _ => false end
                    | FParallel => list_eqb (fs_completion (st c i)) (ch i)
                    | _ => true
                    end) (seq 0 n).
Definition wfb_src : bool := forallb (fun s => forallb (fun ti => ft_source (tr c ti) =? s) (fs_trans (st c s))) (seq 0 n).
Definition wfb_targets : bool :=
  forallb (fun ti => forallb (fun g => (0 <? g) && (g <? n)) (ft_targets (tr c ti))) (seq 0 (ntrans c)).
Definition wfb_target_sets : bool :=
  forallb (fun ti => forallb (fun i => match kd i with
                                       | FCompound => length (filter (fun k => existsb (on_path k) (ft_targets (tr c ti))) (ch i)) <=? 1
                                       | _ => true
                                       end) (seq 0 n)) (seq 0 (ntrans c)).

Definition wf_coreb : bool :=
  wfb_nonempty && wfb_root && wfb_parent && wfb_children && wfb_anc && wfb_interval && wfb_types &&
  wfb_root_type && wfb_completion && wfb_src && wfb_targets && wfb_target_sets.

End Check.

Section Sound.
Variable c : fchart.
Let n := nstates c.
Let par (i : nat) := fs_parent (st c i).
Let ch (i : nat) := fs_children (st c i).
Let kd (i : nat) := fs_type (st c i).
Let anc (i : nat) := fs_ancestors (st c i).
Notation Anc := (LegalAbstract.Anc par).

Hypothesis H : wf_coreb c = true.

Lemma st_out i : n <= i -> st c i = dummy_state.
Proof. intros Hi. unfold st. now apply nth_overflow. Qed.
Lemma tr_out i : ntrans c <= i -> tr c i = dummy_trans.
Proof. intros Hi. unfold tr. now apply nth_overflow. Qed.

Lemma forallb_seq (f : nat -> bool) m : forallb f (seq 0 m) = true <-> forall i, i < m -> f i = true.
Proof.
  rewrite forallb_forall. split; intros Hf i Hi.
  - apply Hf. apply in_seq. lia.
  - apply in_seq in Hi. apply Hf. lia.
Qed.

Lemma parts :
  wfb_nonempty c = true /\ wfb_root c = true /\ wfb_parent c = true /\ wfb_children c = true /\
  wfb_anc c = true /\ wfb_interval c = true /\ wfb_types c = true /\ wfb_root_type c = true /\
  wfb_completion c = true /\ wfb_src c = true /\ wfb_targets c = true /\ wfb_target_sets c = true.
Proof.
  unfold wf_coreb in H. repeat (apply andb_true_iff in H as [H ?]). repeat split; assumption.
Qed.

Lemma n_pos : 0 < n.
Proof. destruct parts as (P & _). unfold wfb_nonempty in P. now apply Nat.ltb_lt in P. Qed.

Lemma root_par : par 0 = None.
Proof. destruct parts as (_ & P & _). unfold wfb_root in P. unfold par. destruct (fs_parent (st c 0)); [discriminate | reflexivity]. Qed.

Lemma par_in i : i < n -> match par i with Some p => p < i | None => i = 0 end.
Proof.
  intros Hi. destruct parts as (_ & _ & P & _). unfold wfb_parent in P. rewrite forallb_seq in P. specialize (P i Hi).
  unfold par. destruct (fs_parent (st c i)); [now apply Nat.ltb_lt | now apply Nat.eqb_eq].
Qed.

Lemma par_out i : n <= i -> par i = None.
Proof. intros Hi. unfold par. now rewrite st_out. Qed.

Lemma par_lt i p : par i = Some p -> p < i /\ i < n.
Proof.
  intros Hp. destruct (Nat.lt_ge_cases i n) as [Hi|Hi].
  - pose proof (par_in i Hi) as P. rewrite Hp in P. tauto.
  - rewrite (par_out i Hi) in Hp. discriminate.
Qed.

Lemma par_some i : 0 < i -> i < n -> exists p, par i = Some p.
Proof. intros H0 Hi. pose proof (par_in i Hi) as P. destruct (par i) as [p|]; [now exists p | lia]. Qed.

Lemma ch_in p : p < n -> ch p = filter (fun k => opt_eqb (par k) p) (seq 0 n).
Proof.
  intros Hp. destruct parts as (_ & _ & _ & P & _). unfold wfb_children in P. rewrite forallb_seq in P.
  specialize (P p Hp). now apply list_eqb_eq in P.
Qed.

Lemma children_spec p k : In k (ch p) <-> par k = Some p.
Proof.
  destruct (Nat.lt_ge_cases p n) as [Hp|Hp].
  - rewrite (ch_in p Hp), filter_In, in_seq. unfold opt_eqb. split.
    + intros [_ Hk]. destruct (par k) as [q|]; [apply Nat.eqb_eq in Hk; now subst | discriminate].
    + intros Hk. destruct (par_lt _ _ Hk). split; [lia|]. rewrite Hk. apply Nat.eqb_refl.
  - unfold ch. rewrite (st_out p Hp). cbn. split; [tauto|]. intros Hk. destruct (par_lt _ _ Hk). lia.
Qed.

Lemma children_nodup p : NoDup (ch p).
Proof.
  destruct (Nat.lt_ge_cases p n) as [Hp|Hp].
  - rewrite (ch_in p Hp). apply NoDup_filter, seq_NoDup.
  - unfold ch. rewrite (st_out p Hp). constructor.
Qed.

Lemma anc_in i : i < n -> anc i = match par i with Some p => insert_sorted p (anc p) | None => [] end.
Proof.
  intros Hi. destruct parts as (_ & _ & _ & _ & P & _). unfold wfb_anc in P. rewrite forallb_seq in P.
  specialize (P i Hi). now apply list_eqb_eq in P.
Qed.

Lemma anc_spec : forall i a, In a (anc i) <-> Anc a i.
Proof.
  induction i as [i IH] using lt_wf_ind. intros a.
  destruct (Nat.lt_ge_cases i n) as [Hi|Hi].
  - rewrite (anc_in i Hi). destruct (par i) as [p|] eqn:Hp.
    + destruct (par_lt _ _ Hp) as [Hlt _]. rewrite In_insert_sorted', (IH p Hlt). split.
      * intros [->|Ha]; [now apply anc_parent | eapply anc_step; eauto].
      * intros Ha. destruct (anc_child par _ _ _ Hp Ha); tauto.
    + split; [intros [] | intros Ha; inversion Ha; congruence].
  - unfold anc. rewrite (st_out i Hi). cbn. split; [tauto|].
    intros Ha. inversion Ha as [? p Hp|? p ? Hp _]; subst; rewrite (par_out i Hi) in Hp; discriminate.
Qed.

Lemma interval_spec a i : a < n -> i < n -> (Anc a i <-> a < i /\ i < a + fs_size (st c a)).
Proof.
  intros Ha Hi. destruct parts as (_ & _ & _ & _ & _ & P & _). unfold wfb_interval in P.
  rewrite forallb_seq in P. specialize (P a Ha). rewrite forallb_seq in P. specialize (P i Hi).
  apply eqb_prop in P. rewrite <- anc_spec, <- mem_In. unfold anc at 1. rewrite P.
  rewrite andb_true_iff, !Nat.ltb_lt. tauto.
Qed.

Lemma types_spec i : kd i = FAtomic \/ kd i = FCompound \/ kd i = FParallel \/ kd i = FFinal.
Proof.
  destruct (Nat.lt_ge_cases i n) as [Hi|Hi].
  - destruct parts as (_ & _ & _ & _ & _ & _ & P & _). unfold wfb_types in P. rewrite forallb_seq in P.
    specialize (P i Hi). unfold kd in *. destruct (fs_type (st c i)); try discriminate; tauto.
  - left. unfold kd. now rewrite (st_out i Hi).
Qed.

Lemma root_type : kd 0 <> FParallel.
Proof.
  destruct parts as (_ & _ & _ & _ & _ & _ & _ & P & _). unfold wfb_root_type in P. unfold kd in *.
  destruct (fs_type (st c 0)); try discriminate; congruence.
Qed.

Lemma kd_out i : n <= i -> kd i = FAtomic.
Proof. intros Hi. unfold kd. now rewrite st_out. Qed.

Lemma completion_in i : i < n ->
  match kd i with
  | FCompound => exists k, fs_completion (st c i) = [k] /\ In k (ch i)
  | FParallel => fs_completion (st c i) = ch i
  | _ => True end.
Proof.
  intros Hi. destruct parts as (_ & _ & _ & _ & _ & _ & _ & _ & P & _). unfold wfb_completion in P.
  rewrite forallb_seq in P. specialize (P i Hi). unfold kd in *. destruct (fs_type (st c i)); try exact I.
  - destruct (fs_completion (st c i)) as [|k [|? ?]]; try discriminate. exists k. split; [reflexivity | now apply mem_In].
  - now apply list_eqb_eq.
Qed.

Lemma compound_spec i : kd i = FCompound -> exists k, fs_completion (st c i) = [k] /\ In k (ch i).
Proof.
  intros Hk. destruct (Nat.lt_ge_cases i n) as [Hi|Hi].
  - pose proof (completion_in i Hi) as P. now rewrite Hk in P.
  - rewrite (kd_out i Hi) in Hk. discriminate.
Qed.

Lemma parallel_spec i k : kd i = FParallel -> (In k (fs_completion (st c i)) <-> In k (ch i)).
Proof.
  intros Hk. destruct (Nat.lt_ge_cases i n) as [Hi|Hi].
  - pose proof (completion_in i Hi) as P. rewrite Hk in P. now rewrite P.
  - rewrite (kd_out i Hi) in Hk. discriminate.
Qed.

Lemma src_spec s ti : In ti (fs_trans (st c s)) -> ft_source (tr c ti) = s.
Proof.
  intros Hti. destruct (Nat.lt_ge_cases s n) as [Hs|Hs].
  - destruct parts as (_ & _ & _ & _ & _ & _ & _ & _ & _ & P & _). unfold wfb_src in P. rewrite forallb_seq in P.
    specialize (P s Hs). rewrite forallb_forall in P. specialize (P ti Hti). now apply Nat.eqb_eq.
  - rewrite (st_out s Hs) in Hti. destruct Hti.
Qed.

Lemma targets_spec ti g : In g (ft_targets (tr c ti)) -> 0 < g /\ g < n.
Proof.
  intros Hg. destruct (Nat.lt_ge_cases ti (ntrans c)) as [Ht|Ht].
  - destruct parts as (_ & _ & _ & _ & _ & _ & _ & _ & _ & _ & P & _). unfold wfb_targets in P. rewrite forallb_seq in P.
    specialize (P ti Ht). rewrite forallb_forall in P. specialize (P g Hg).
    apply andb_true_iff in P as [A B]. apply Nat.ltb_lt in A, B. tauto.
  - rewrite (tr_out ti Ht) in Hg. destruct Hg.
Qed.

Lemma filter_le1 {A} (f : A -> bool) (l : list A) : NoDup l -> length (filter f l) <= 1 ->
  forall a b, In a l -> In b l -> f a = true -> f b = true -> a = b.
Proof.
  induction 1 as [|x r Hx Hnd IH]; intros Hlen a b Ha Hb Hfa Hfb; [destruct Ha|].
  cbn [filter] in Hlen. destruct (f x) eqn:Hfx.
  - cbn [length] in Hlen. assert (Hr : filter f r = []) by (destruct (filter f r); [reflexivity | cbn in Hlen; lia]).
    assert (Hnone : forall y, In y r -> f y = true -> False).
    { intros y Hy Hfy. assert (In y (filter f r)) by (apply filter_In; tauto). rewrite Hr in H0. destruct H0. }
    destruct Ha as [<-|Ha], Hb as [<-|Hb]; [reflexivity | exfalso; eauto | exfalso; eauto | exfalso; eauto].
  - destruct Ha as [<-|Ha]; [congruence|]. destruct Hb as [<-|Hb]; [congruence|]. now apply IH.
Qed.

Lemma target_sets_spec ti i k1 k2 g1 g2 :
  kd i = FCompound -> In k1 (ch i) -> In k2 (ch i) ->
  In g1 (ft_targets (tr c ti)) -> In g2 (ft_targets (tr c ti)) ->
  (k1 = g1 \/ Anc k1 g1) -> (k2 = g2 \/ Anc k2 g2) -> k1 = k2.
Proof.
  intros Hk H1 H2 Hg1 Hg2 P1 P2.
  assert (Hi : i < n) by (destruct (Nat.lt_ge_cases i n); [assumption | rewrite (kd_out i) in Hk; [discriminate | assumption]]).
  assert (Ht : ti < ntrans c) by (destruct (Nat.lt_ge_cases ti (ntrans c)); [assumption | rewrite (tr_out ti) in Hg1; [destruct Hg1 | assumption]]).
  destruct parts as (_ & _ & _ & _ & _ & _ & _ & _ & _ & _ & _ & P). unfold wfb_target_sets in P. rewrite forallb_seq in P.
  specialize (P ti Ht). rewrite forallb_seq in P. specialize (P i Hi). unfold kd in Hk. rewrite Hk in P. apply Nat.leb_le in P.
  assert (Hon : forall k g, In g (ft_targets (tr c ti)) -> (k = g \/ Anc k g) ->
                            existsb (on_path c k) (ft_targets (tr c ti)) = true).
  { intros k g Hg [->|Ha]; apply existsb_exists; exists g; (split; [exact Hg|]); unfold on_path.
    - now rewrite Nat.eqb_refl.
    - apply orb_true_iff. right. apply mem_In. now apply anc_spec. }
  eapply (filter_le1 _ (ch i) (children_nodup i) P k1 k2); eauto.
Qed.

Theorem wf_coreb_sound : WF c.
Proof.
  constructor.
  - exact root_par.
  - exact par_lt.
  - exact par_some.
  - exact children_spec.
  - exact children_nodup.
  - exact anc_spec.
  - exact interval_spec.
  - exact types_spec.
  - exact root_type.
  - exact compound_spec.
  - exact parallel_spec.
  - exact src_spec.
  - exact targets_spec.
  - exact target_sets_spec.
Qed.

End Sound.
