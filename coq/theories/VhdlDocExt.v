(* VhdlDocExt.v -- C18: the reference step and legality depend on a configuration only as a SET (the register
   state_active_* is a bit vector), so the legality theorem of VhdlDocLegal.v, proved for the ascending lists the
   engines keep, holds for every list representing a legal configuration.  Proofs only. *)
From V Require Import Base NameMatch Chart Exec Large Legal Fast SetLemmas LargeCacheLemmas SelectConform WfCore
     RunConformBase FlattenWfStruct Vhdl VhdlDoc VhdlDocEngine VhdlDocLegal.
From V Require VhdlLemmas.
Local Open Scope nat_scope.

Definition same_mem (a b : list nat) : Prop := forall i, mem i a = mem i b.

Lemma set_union_ssorted : forall b a, ssorted a -> ssorted (set_union a b).
Proof.
  unfold set_union. induction b as [|x b IH]; intros a Ha; cbn [fold_left]; [exact Ha|]. apply IH. now apply ssorted_insert.
Qed.

Lemma set_union_ext a b b' : ssorted a -> same_mem b b' -> set_union a b = set_union a b'.
Proof.
  intros Ha Hb. apply ssorted_ext; [now apply set_union_ssorted | now apply set_union_ssorted|].
  intros x. rewrite <- !SetLemmas.mem_In, !VhdlLemmas.mem_set_union, (Hb x). reflexivity.
Qed.

Lemma intersects_ext a a' d : same_mem a a' -> intersects a d = intersects a' d.
Proof.
  intros H. apply VhdlLemmas.bool_eq_iff. rewrite !VhdlLemmas.intersects_true.
  split; intros (x & H1 & H2); exists x; (split; [|exact H2]); apply SetLemmas.mem_In; apply SetLemmas.mem_In in H1;
    [now rewrite <- (H x) | now rewrite (H x)].
Qed.

Section Ext.
Variable c : fchart.
Variables cfg cfg' : list nat.
Hypothesis HM : same_mem cfg cfg'.

Lemma vselect_ext ev val : forall ts sel, vselect c cfg ev val ts sel = vselect c cfg' ev val ts sel.
Proof.
  induction ts as [|t ts IH]; intros sel; cbn [vselect]; [reflexivity|].
  unfold vh_enabled. rewrite (HM (ft_source (tr c t))), !IH. reflexivity.
Qed.

Lemma vh_exitset_ext sel : vh_exitset c cfg sel = vh_exitset c cfg' sel.
Proof.
  unfold vh_exitset.
  assert (H : forall l acc, ssorted acc ->
    fold_left (fun a ti => set_union a (filter (fun i => mem i (vh_exit_tab c (tr c ti))) cfg)) l acc =
    fold_left (fun a ti => set_union a (filter (fun i => mem i (vh_exit_tab c (tr c ti))) cfg')) l acc).
  { induction l as [|t l IH]; intros acc Ha; cbn [fold_left]; [reflexivity|].
    rewrite (set_union_ext acc _ (filter (fun i => mem i (vh_exit_tab c (tr c t))) cfg') Ha).
    - apply IH. now apply set_union_ssorted.
    - intros i. rewrite !VhdlLemmas.mem_filter, (HM i). reflexivity. }
  apply H. exact I.
Qed.

Lemma vdescend_one_ext X es i : vdescend_one c cfg X es i = vdescend_one c cfg' X es i.
Proof. unfold vdescend_one. now rewrite (intersects_ext cfg cfg' (desc c i) HM). Qed.

Lemma vh_entryset_ext X tg : vh_entryset c cfg X tg = vh_entryset c cfg' X tg.
Proof.
  unfold vh_entryset. generalize (add_ancestors c tg). generalize (seq 0 (nstates c)).
  induction l as [|i l IH]; intros es; cbn [fold_left]; [reflexivity|]. now rewrite vdescend_one_ext, IH.
Qed.

Theorem next_config_ext ev val : next_config c cfg ev val = next_config c cfg' ev val.
Proof.
  rewrite !vd_next_config_eq. unfold vh_selected. rewrite vselect_ext, vh_exitset_ext, vh_entryset_ext.
  apply filter_ext. intros i. now rewrite (HM i).
Qed.

Lemma state_ok_ext i : state_ok c cfg i = state_ok c cfg' i.
Proof.
  unfold state_ok. f_equal; [f_equal|].
  - destruct (fs_parent (st c i)) as [p|]; [apply HM | reflexivity].
  - destruct (fs_type (st c i)); try reflexivity.
    + f_equal. f_equal. apply filter_ext. intros ch. apply HM.
    + apply VhdlLemmas.forallb_ext_in. intros ch _. apply HM.
Qed.

End Ext.

Lemma next_config_ext_lemma : forall c cfg cfg' ev val,
  (forall i, mem i cfg = mem i cfg') -> next_config c cfg ev val = next_config c cfg' ev val.
Proof. intros c cfg cfg' ev val H. now apply next_config_ext. Qed.

(* the ascending list of a configuration *)
Definition cfg_sort (c : fchart) (cfg : list nat) : list nat := filter (fun i => mem i cfg) (seq 0 (nstates c)).

Lemma cfg_sort_mem c cfg : legal_configb c cfg = true -> same_mem cfg (cfg_sort c cfg).
Proof.
  intros HL i. unfold cfg_sort. rewrite VhdlLemmas.mem_filter, VhdlLemmas.mem_seq. cbn [Nat.leb plus].
  destruct (mem i cfg) eqn:E; [|now rewrite andb_false_r].
  apply SetLemmas.mem_In in E. apply (legal_range c cfg HL) in E. apply Nat.ltb_lt in E. now rewrite E.
Qed.

Lemma cfg_sort_legal c cfg : legal_configb c cfg = true ->
  legal_configb c (cfg_sort c cfg) = true /\ ascb (cfg_sort c cfg) = true.
Proof.
  intros HL. pose proof (cfg_sort_mem c cfg HL) as HM.
  assert (Hs : ssorted (cfg_sort c cfg)) by (apply ssorted_filter, ssorted_seq).
  split; [|now apply vd_ssorted_ascb].
  unfold legal_configb in *. apply andb_true_iff in HL as [HL H3]. apply andb_true_iff in HL as [H1 _].
  rewrite <- (HM 0), H1. rewrite (nodupb_NoDup _ (ssorted_NoDup _ Hs)). cbn [andb].
  apply forallb_forall. intros i Hi. rewrite <- (state_ok_ext c cfg (cfg_sort c cfg) HM i).
  rewrite forallb_forall in H3. apply H3. apply SetLemmas.mem_In. rewrite (HM i). now apply SetLemmas.mem_In.
Qed.

(* the hardware step preserves legality: every list representing a legal configuration *)
Theorem vhdl_next_legal_lemma : forall c cfg ev val,
  vh_wfb c = true -> wf_coreb c = true -> legal_configb c cfg = true ->
  legal_configb c (next_config c cfg ev val) = true.
Proof.
  intros c cfg ev val Hv Hc HL. destruct (cfg_sort_legal c cfg HL) as [HL' Ha].
  rewrite (next_config_ext c cfg (cfg_sort c cfg) (cfg_sort_mem c cfg HL)).
  now apply vhdl_next_legal_asc.
Qed.

(* runs from any legal configuration, as a set *)
Theorem vhdl_run_from_legal_lemma : forall c ins cfg,
  vh_wfb c = true -> wf_coreb c = true -> legal_configb c cfg = true -> inputs_okb c ins = true ->
  vh_run c (gen_eqs vh_fixed c) cfg ins = Some (ref_run_stop c cfg ins) /\
  legal_configb c (ref_run_stop c cfg ins) = true.
Proof.
  intros c ins cfg Hv Hc HL Hin. destruct ins as [|[ev val] r]; cbn [vh_run ref_run_stop]; [auto|].
  destruct (inputs_okb_cons c _ _ Hin) as [Hev Hr]. cbn [fst] in Hev.
  destruct (vh_running c cfg) eqn:Hrun; [|auto].
  rewrite (VhdlLemmas.vhdl_next_correct_lemma c cfg ev val Hv HL Hrun Hev).
  destruct (vhdl_run_from_correct c Hv Hc r (next_config c cfg ev val)
              (vhdl_next_legal_lemma c cfg ev val Hv Hc HL) (next_config_ascb c cfg ev val) Hr) as (H1 & H2 & _).
  now split.
Qed.
