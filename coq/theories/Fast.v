(* Fast.v -- FastMicroStep::step (src/uscxml/interpreter/FastMicroStep.cpp) as a function over the
   same flat chart; sets are the ascending lists of Chart.v standing for the engine's bit arrays.
   Model only.  The control flow around the queues is the same as in LargeMicroStep::step. *)
From V Require Import Base NameMatch Chart Exec Large.
Local Open Scope nat_scope.

Section Fast.
Variable xv : ex_variant.
Variable c : fchart.

Let v := lg_fixed.
Definition fn := nstates c.

(* FastMicroStep::State::children holds ALL descendants *)
Definition desc (i : nat) : list nat := seq (S i) (fs_size (st c i) - 1).

(* the pre-computed conflict matrix: interval overlap, same source, or source ancestry *)
Definition fconflicts (t1 t2 : ftrans) : bool :=
  conflicts v c t1 t2 ||
  (ft_source t1 =? ft_source t2) ||
  mem (ft_source t2) (fs_ancestors (st c (ft_source t1))) ||
  mem (ft_source t1) (fs_ancestors (st c (ft_source t2))).

(* ---- SELECT_TRANSITIONS: all transitions in post-fix order ---- *)
Fixpoint fselect (cfg : list nat) (ev : option event) (ts : list nat) (selected : list nat) (x : xstate)
  : list nat * xstate :=
  match ts with
  | [] => (selected, x)
  | ti :: r =>
    let t := tr c ti in
    if ft_history t || ft_initial t then fselect cfg ev r selected x
    else if negb (mem (ft_source t) cfg) then fselect cfg ev r selected x
    else if existsb (fun si => fconflicts (tr c si) t) selected then fselect cfg ev r selected x
    else if match ev with
            | Some _ => ft_spontaneous t
            | None => negb (ft_spontaneous t)
            end then fselect cfg ev r selected x
    else if match ev with
            | Some e => negb (name_match_impl nm_fixed (ft_event t) (ev_name e))
            | None => false
            end then fselect cfg ev r selected x
    else
      match ft_cond t with
      | None => fselect cfg ev r (selected ++ [ti]) x
      | Some cnd =>
        let '(b, x') := is_true (inst_of c cfg) cnd x in
        if b then fselect cfg ev r (selected ++ [ti]) x' else fselect cfg ev r selected x'
      end
  end.

(* ---- REMEMBER_HISTORY ---- *)
Definition fremember (cfg exitset hist : list nat) : list nat :=
  fold_left
    (fun h i =>
       let s := st c i in
       if is_hist (fs_type s) && match fs_parent s with Some p => mem p exitset | None => false end
       then set_union (set_diff h (fs_completion s)) (set_inter (fs_completion s) cfg)
       else h)
    (seq 0 fn) hist.

(* ---- ESTABLISH_ENTRYSET ---- *)
Definition fdescend_one (cfg exitset hist : list nat) (acc : list nat * list nat) (i : nat) : list nat * list nat :=
  let '(es, ts) := acc in
  if negb (mem i es) then acc else
  let s := st c i in
  match fs_type s with
  | FFinal | FAtomic => acc
  | FParallel => (set_union es (fs_completion s), ts)
  | FHistShallow | FHistDeep =>
    if negb (intersects (fs_completion s) hist) then
      match fs_trans s with
      | [] => acc
      | ti :: _ =>
        let t := tr c ti in
        let es1 := set_union es (ft_targets t) in
        let es2 := match fs_type s with
                   | FHistDeep =>
                     if negb (intersects (ft_targets t) (desc i))
                     then fold_left (fun a k => set_union a (fs_ancestors (st c k)))
                                    (filter (fun k => i <? k) (ft_targets t)) es1
                     else es1
                   | _ => es1
                   end in
        (es2, insert_sorted ti ts)
      end
    else (set_union es (set_inter (fs_completion s) hist), ts)
  | FInitial =>
    fold_left (fun a ti =>
                 let t := tr c ti in
                 (fold_left (fun e k => if i <? k then set_union e (fs_ancestors (st c k)) else e) (ft_targets t)
                            (set_union (set_remove i (fst a)) (ft_targets t)),
                  insert_sorted ti (snd a)))
              (fs_trans s) (es, ts)
  | FCompound =>
    if negb (intersects es (desc i)) && (negb (intersects cfg (desc i)) || intersects exitset (desc i)) then
      (fold_left (fun a j => if i <? j then set_union a (fs_ancestors (st c j)) else a) (fs_completion s)
                 (set_union es (fs_completion s)), ts)
    else acc
  end.

Definition fentry_set (cfg exitset hist targets : list nat) (transset : list nat) : list nat * list nat :=
  fold_left (fdescend_one cfg exitset hist) (seq 0 fn) (add_ancestors c targets, transset).

(* ---- ENTER_STATES ---- *)
(* all regions of parallel [j] final?  decided from the configuration built so far *)
Definition fpar_done (cfg : list nat) (j : nat) : bool :=
  let tmp :=
    fold_left (fun tmp k =>
                 if mem j (fs_ancestors (st c k)) then
                   match fs_type (st c k) with
                   | FFinal => set_diff tmp (fs_ancestors (st c k))
                   | _ => insert_sorted k tmp
                   end
                 else tmp) cfg [] in
  match tmp with [] => true | _ => false end.

Definition fenter_one (transset : list nat) (a : enter_acc) (i : nat) : enter_acc :=
  let s := st c i in
  if mem i (ea_cfg a) then a
  else if is_pseudo (fs_type s) then a else
  let x1 := emit (TEb (fs_sid s)) (ea_x a) in
  let cfg1 := insert_sorted i (ea_cfg a) in
  let '(initd1, x2) :=
    if mem i (ea_initd a) then (ea_initd a, x1)
    else (insert_sorted i (ea_initd a), fold_left (fun x d => init_data d x) (fs_data s) x1) in
  let x3 := exec_blocks xv (inst_of c cfg1) (fs_onentry s) x2 in
  let x4 := emit (TEe (fs_sid s)) x3 in
  let x5 :=
    fold_left (fun x ti =>
                 let t := tr c ti in
                 if (ft_history t || ft_initial t) &&
                    match fs_parent (st c (ft_source t)) with Some p => p =? i | None => false end then
                   let y1 := emit (TTb (ft_vid t)) x in
                   let y2 := if ft_has_body t then exec_block xv (inst_of c cfg1) (ft_body t) y1 else y1 in
                   emit (TTe (ft_vid t)) y2
                 else x) transset x4 in
  match fs_type s with
  | FFinal =>
    let top := match fs_ancestors s with [0] => true | _ => false end in
    let x6 := if top then x5
              else match fs_parent s with Some p => raise_int (done_event c p) x5 | None => x5 end in
    let x7 := fold_left (fun x j => match fs_type (st c j) with
                                    | FParallel => if fpar_done cfg1 j then raise_int (done_event c j) x else x
                                    | _ => x
                                    end) (fs_ancestors s) x6 in
    {| ea_cfg := cfg1; ea_initd := initd1; ea_tlf := ea_tlf a || top; ea_x := x7 |}
  | _ => {| ea_cfg := cfg1; ea_initd := initd1; ea_tlf := ea_tlf a; ea_x := x5 |}
  end.

Definition fmicrostep (l : lstate) (x : xstate) (targets exitset transset : list nat) (initial_step : bool)
  : lstate * xstate :=
  let cfg := l_cfg l in
  let hist := if initial_step then l_hist l else fremember cfg exitset (l_hist l) in
  let '(es, ts) := fentry_set cfg exitset hist targets transset in
  let '(cfg1, x1) := fold_left (exit_one xv c) (rev exitset) (cfg, x) in
  let x2 := fold_left (take_one xv c cfg1) ts x1 in
  let a := fold_left (fenter_one ts) es
                     {| ea_cfg := cfg1; ea_initd := l_initd l; ea_tlf := l_tlf l; ea_x := x2 |} in
  ({| l_cfg := ea_cfg a; l_hist := hist; l_initd := ea_initd a; l_spont := true; l_init := true;
      l_tlf := ea_tlf a; l_fin := l_fin l; l_stable := l_stable l; l_cancelled := l_cancelled l |},
   emit TMsE (ea_x a)).

Definition fselect_and_step (l : lstate) (x : xstate) (ev : option event) : lstate * xstate * N :=
  let l0 := upd_flags l (l_spont l) false in
  let cfg := l_cfg l0 in
  let '(sel, x1) := fselect cfg ev (seq 0 (ntrans c)) [] x in
  match sel with
  | [] =>
    (* nothing enabled: after an event the event-less transitions are selected once more before the next
       event is dequeued; after an event-less selection the engine goes on to the queues *)
    (upd_flags l0 (match ev with Some _ => true | None => false end) false, x1, RC_MICROSTEPPED)
  | _ =>
    let targets := fold_left (fun a ti => set_union a (ft_targets (tr c ti))) sel [] in
    let exitset := fold_left (fun a ti => set_union a (exit_states_of v c cfg (tr c ti))) sel [] in
    let '(l1, x2) := fmicrostep l0 (emit TMsB x1) targets exitset sel false in
    (l1, x2, RC_MICROSTEPPED)
  end.

Definition fast_step (l : lstate) (x : xstate) : lstate * xstate * N :=
  if l_fin l then (l, x, RC_FINISHED)
  else if l_tlf l then
    let x1 := emit TComplB x in
    let x2 := fold_left (fun x i => exec_blocks xv (inst_of c (l_cfg l)) (fs_onexit (st c i)) x) (rev (l_cfg l)) x1 in
    ({| l_cfg := l_cfg l; l_hist := l_hist l; l_initd := l_initd l; l_spont := l_spont l; l_init := l_init l;
        l_tlf := true; l_fin := true; l_stable := l_stable l; l_cancelled := l_cancelled l |},
     emit TComplE x2, RC_FINISHED)
  else if is_pristine l then
    let '(l1, x1) := fmicrostep l (emit TMsB x) (fs_completion (st c 0)) [] [] true in
    (l1, x1, RC_MICROSTEPPED)
  else if l_spont l then fselect_and_step l x None
  else
    match x_iq x with
    | e :: r =>
      match ev_name e with
      | [] => (l, x, RC_IDLE)
      | _ =>
        let x1 := emit (TEv (ev_name e)) {| x_store := x_store x; x_iq := r; x_eq := x_eq x; x_out := x_out x |} in
        fselect_and_step l x1 (Some e)
      end
    | [] =>
      if negb (l_stable l) then (upd_flags l (l_spont l) true, emit TStable x, RC_MACROSTEPPED)
      else
        match x_eq x with
        | e :: r =>
          let x0 := {| x_store := x_store x; x_iq := x_iq x; x_eq := r; x_out := x_out x |} in
          match ev_name e with
          | [] =>
            if l_cancelled l then
              ({| l_cfg := l_cfg l; l_hist := l_hist l; l_initd := l_initd l; l_spont := l_spont l; l_init := l_init l;
                  l_tlf := true; l_fin := l_fin l; l_stable := l_stable l; l_cancelled := true |}, x0, RC_CANCELLED)
            else (l, x0, RC_IDLE)
          | _ => fselect_and_step l (emit (TEv (ev_name e)) x0) (Some e)
          end
        | [] =>
          if l_cancelled l then
            ({| l_cfg := l_cfg l; l_hist := l_hist l; l_initd := l_initd l; l_spont := l_spont l; l_init := l_init l;
                l_tlf := true; l_fin := l_fin l; l_stable := l_stable l; l_cancelled := true |}, x, RC_CANCELLED)
          else (l, x, RC_IDLE)
        end
    end.

End Fast.

From V Require Import Interp.

Definition run_fast (xv : ex_variant) (late : bool) (t : tree) (evs : list bytes) (fuel : nat)
  : list tok * store :=
  let c := flatten late t in
  let '(l, x) := run_loop c lstate (fast_step xv c) l_cfg fuel l_pristine x_init evs in
  (rev (x_out x), x_store x).
