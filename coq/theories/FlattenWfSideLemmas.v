(* FlattenWfSideLemmas.v -- the document-level side conditions of FlattenWfSide.v imply the table-level side
   conditions of C01's theorems for the flat tables of a well-formed core document.  Proofs only. *)
From V Require Import Base NameMatch Chart Exec Large Spec Tables TreeLemmas LargeCacheLemmas WfCore
     SelectConform SelectConformRoot MicroConform
     FlattenWf FlattenWfTree FlattenWfStruct FlattenWfKinds FlattenWfLemmas FlattenWfSide.
Local Open Scope nat_scope.

(* a number properly inside the block of a node lies in the block of one of its children *)
Lemma kid_block_find : forall kids s g, s <= g < s + tsize_list kids ->
  exists j kid, nth_error kids j = Some kid /\
    s + tsize_list (firstn j kids) <= g < s + tsize_list (firstn j kids) + tsize kid.
Proof.
  induction kids as [|x r IH]; intros s g Hg; [cbn in Hg; lia|]. rewrite tsize_list_cons in Hg.
  destruct (Nat.lt_ge_cases g (s + tsize x)) as [Hlt|Hge].
  - exists 0, x. split; [reflexivity|]. cbn [firstn tsize_list fold_right]. lia.
  - destruct (IH (s + tsize x) g ltac:(lia)) as (j & kid & Hj & Hr). exists (S j), kid. split; [exact Hj|].
    cbn [firstn]. rewrite tsize_list_cons. lia.
Qed.

Section Rows.
Variable late : bool.
Variable t0 : tree.
Let root := resort t0.
Let c := flatten late t0.
Let n := tsize root.
Let nodes := nodes_of root.

Lemma fl_blocks i : i < n ->
  fs_onentry (st c i) = match i with O => [] | _ => t_onentry (ntree nodes i) end /\
  fs_onexit (st c i) = t_onexit (ntree nodes i) /\
  fs_sid (st c i) = t_sid (ntree nodes i).
Proof.
  intros Hi. unfold st, c, flatten. cbn [fc_states]. fold root.
  set (nodes0 := doc_nodes root 0 None) in *.
  assert (Hlen : length nodes0 = n) by apply doc_nodes_length.
  set (g := fun p : tree * option nat * nat => let '(t1, parent, i1) := p in _).
  rewrite (nth_indep _ dummy_state (g ((root, None), 0)))
    by (rewrite map_length, combine_length, seq_length, Nat.min_id, Hlen; exact Hi).
  rewrite map_nth, combine_nth by (now rewrite seq_length).
  rewrite seq_nth by (rewrite Hlen; exact Hi). cbn [plus].
  unfold nodes0, root. rewrite (nth_nodes_ntree t0 i Hi). repeat split; reflexivity.
Qed.
End Rows.

Section Side.
Variable late : bool.
Variable t : tree.
Hypothesis H : core_treeb t = true.
Let KK := core_kinds_ok t H.
Let c := flatten late t.
Let n := tsize t.
Let nodes := nodes_of t.

Lemma s_nstates : nstates c = n.
Proof. apply (c_nstates late t KK). Qed.

Lemma s_blocks i : i < n ->
  fs_onentry (st c i) = match i with O => [] | _ => t_onentry (ntree nodes i) end /\
  fs_onexit (st c i) = t_onexit (ntree nodes i) /\
  fs_sid (st c i) = t_sid (ntree nodes i).
Proof.
  intros Hi. pose proof (fl_blocks late t i) as B. rewrite (core_resort_id t KK) in B. now apply B.
Qed.

Lemma s_root_sid : fs_sid (st c 0) = t_sid t.
Proof.
  destruct (s_blocks 0 (tsize_pos t)) as (_ & _ & E). rewrite E. unfold nodes. now rewrite ntree_root.
Qed.

(* the number of the j-th child, and its parent pointer *)
Lemma s_kid i j kid : i < n -> nth_error (t_kids (ntree nodes i)) j = Some kid ->
  let b := S i + tsize_list (firstn j (t_kids (ntree nodes i))) in
  b < n /\ ntree nodes b = kid /\ fs_parent (st c b) = Some i.
Proof.
  intros Hi Hj b. destruct (ntree_kid t i j kid Hi Hj) as [Hb Hn]. fold nodes b in Hb, Hn.
  split; [exact Hb|]. split; [exact Hn|].
  destruct (tree_interval_flatten late t) as (_ & _ & _ & _ & _ & Hc & _). rewrite (core_resort_id t KK) in Hc.
  fold c n in Hc. apply (Hc i b Hi). destruct (c_st late t KK i Hi) as (_ & Ec & _). fold c nodes in Ec. rewrite Ec.
  apply child_indices_spec. exists j, kid. split; [exact Hj | reflexivity].
Qed.

(* a number properly below node i lies in the block of one of the children of i *)
Lemma s_below i g : i < n -> i < g < i + tsize (ntree nodes i) ->
  exists j kid, nth_error (t_kids (ntree nodes i)) j = Some kid /\
    let b := S i + tsize_list (firstn j (t_kids (ntree nodes i))) in b <= g < b + tsize kid.
Proof.
  intros Hi Hg. rewrite tsize_unfold in Hg. apply kid_block_find. lia.
Qed.

Lemma s_in_block b g : b < n -> b <= g < b + tsize (ntree nodes b) -> In (ntree nodes g) (subtrees (ntree nodes b)).
Proof. intros Hb Hg. now apply (ntree_block_in t b g Hb). Qed.

Lemma s_anc a b : a < n -> b < n ->
  (mem a (fs_ancestors (st c b)) = true <-> a < b < a + tsize (ntree nodes a)).
Proof.
  intros Ha Hb. destruct (tree_interval_flatten late t) as (_ & _ & Hanc & _). rewrite (core_resort_id t KK) in Hanc.
  fold c n in Hanc. rewrite (Hanc a b Ha Hb). destruct (c_st late t KK a Ha) as (_ & _ & Es & _). fold c nodes in Es.
  now rewrite Es.
Qed.

(* ---------------------------------------------------------------- par_nonemptyb *)

Lemma side_par_nonempty : ct_par_nonemptyb t = true -> par_nonemptyb c = true.
Proof.
  intros P. unfold par_nonemptyb. rewrite s_nstates. apply fseq. intros s Hs.
  destruct (c_st late t KK s Hs) as (Et & Ec & _). fold c nodes in Et, Ec.
  destruct (fs_type (st c s)) eqn:Ety; try reflexivity.
  assert (Hu : In (ntree nodes s) (subtrees t)) by (now apply ntree_in).
  symmetry in Et. apply (type_of_core t KK _ Hu) in Et.
  unfold ct_par_nonemptyb in P. rewrite forallb_forall in P. specialize (P _ Hu). rewrite Et in P.
  rewrite Ec. unfold has_kids in P. destruct (t_kids (ntree nodes s)); [discriminate | reflexivity].
Qed.

(* ---------------------------------------------------------------- root_unmentionedb, root_silentb *)

Lemma side_root_unmentioned : ct_root_unmentionedb t = true -> root_unmentionedb c = true.
Proof.
  intros P. unfold root_unmentionedb. apply fseq. intros ti Hti.
  destruct (c_tr late t KK ti Hti) as (w & x & k & Hw & Hx & _ & E). fold c in E. rewrite E. cbn [ft_cond mk_trans].
  rewrite s_root_sid. unfold ct_root_unmentionedb in P. rewrite forallb_forall in P. specialize (P w Hw).
  rewrite forallb_forall in P. exact (P x Hx).
Qed.

Lemma side_root_silent : ct_root_silentb t = true -> root_silentb c = true.
Proof.
  intros P. unfold ct_root_silentb in P. rewrite forallb_forall in P.
  unfold root_silentb. rewrite s_root_sid. apply andb_true_iff. split.
  - rewrite s_nstates. apply fseq. intros i Hi.
    destruct (s_blocks i Hi) as (E1 & E2 & _). rewrite E1, E2.
    specialize (P _ (ntree_in t i Hi)). fold nodes in P.
    apply andb_true_iff in P as [P _]. apply andb_true_iff in P as [P1 P2].
    rewrite P2, andb_true_r. destruct i; [reflexivity | exact P1].
  - apply fseq. intros ti Hti.
    destruct (c_tr late t KK ti Hti) as (w & x & k & Hw & Hx & _ & E). fold c in E. rewrite E. cbn [ft_body mk_trans].
    specialize (P w Hw). apply andb_true_iff in P as [_ P]. rewrite forallb_forall in P. exact (P x Hx).
Qed.

(* ---------------------------------------------------------------- targets_antichainb *)

Lemma side_targets_antichain : ct_targets_antichainb t = true -> targets_antichainb c = true.
Proof.
  intros P. unfold targets_antichainb. apply fseq. intros ti Hti.
  destruct (c_tr late t KK ti Hti) as (w & x & k & Hw & Hx & Etg & _). fold c in Etg. rewrite Etg.
  destruct (tt_targets x) as [l|] eqn:El; [|reflexivity].
  unfold ct_targets_antichainb in P. rewrite forallb_forall in P. specialize (P w Hw).
  rewrite forallb_forall in P. specialize (P x Hx). rewrite El in P. unfold antichain_okb in P. rewrite forallb_forall in P.
  apply forallb_forall. intros g1 Hg1. apply forallb_forall. intros g2 Hg2.
  apply In_filter_map in Hg1. destruct Hg1 as (s1 & Hs1 & Hr1). destruct (resolve_some t KK s1 g1 Hr1) as [Hn1 Hsid1].
  apply In_filter_map in Hg2. destruct Hg2 as (s2 & Hs2 & Hr2). destruct (resolve_some t KK s2 g2 Hr2) as [Hn2 Hsid2].
  fold n nodes in Hn1, Hn2, Hsid1, Hsid2.
  destruct (mem g1 (fs_ancestors (st c g2))) eqn:Em; [|reflexivity]. exfalso.
  apply (s_anc g1 g2 Hn1 Hn2) in Em.
  specialize (P _ (ntree_in t g1 Hn1)). fold nodes in P. rewrite Hsid1 in P.
  rewrite (proj2 (memN_In s1 l) Hs1) in P. rewrite forallb_forall in P.
  destruct (s_below g1 g2 Hn1 Em) as (j & kid & Hj & Hb). cbn zeta in Hb.
  destruct (s_kid g1 j kid Hn1 Hj) as (Hbn & Hnb & _). cbn zeta in Hbn, Hnb.
  specialize (P kid (nth_error_In _ _ Hj)). apply negb_true_iff in P.
  assert (Hh : hits l kid = true).
  { unfold hits. apply existsb_exists. exists s2. split; [exact Hs2|]. apply memN_In. unfold sids. rewrite <- Hsid2.
    apply in_map. rewrite <- Hnb. apply s_in_block; [exact Hbn | rewrite Hnb; exact Hb]. }
  congruence.
Qed.

(* ---------------------------------------------------------------- done_okb *)

Lemma kind_type i : i < n ->
  (fs_type (st c i) = FFinal <-> t_kind (ntree nodes i) = KFinal) /\
  (fs_type (st c i) = FParallel <-> t_kind (ntree nodes i) = KParallel).
Proof.
  intros Hi. destruct (c_st late t KK i Hi) as (Et & _). fold c nodes in Et. rewrite Et.
  pose proof (kinds_in t KK _ (ntree_in t i Hi)) as K. fold nodes in K. unfold type_of.
  destruct (t_kind (ntree nodes i)); try discriminate; try (destruct (has_proper_child (ntree nodes i)));
    split; split; congruence.
Qed.

Lemma side_done_ok : ct_done_okb t = true -> done_okb c = true.
Proof.
  intros P. unfold ct_done_okb in P. rewrite forallb_forall in P.
  destruct (tree_interval_flatten late t) as (_ & _ & _ & Hpar & _). rewrite (core_resort_id t KK) in Hpar. fold c n in Hpar.
  unfold done_okb. rewrite s_nstates. apply fseq. intros i Hi.
  destruct (fs_type (st c i)) eqn:Ety; try reflexivity.
  destruct (fs_parent (st c i)) as [p|] eqn:Ep; [|reflexivity].
  assert (Hfin : is_final_node (ntree nodes i) = true).
  { unfold is_final_node. now rewrite (proj1 (proj1 (kind_type i Hi)) Ety). }
  (* whatever <parallel> a lies above i: i is a grand-child of a *)
  assert (Habove : forall a, a < n -> a < i < a + tsize (ntree nodes a) -> is_parb c a = true ->
                             a <> p /\ fs_parent (st c p) = Some a).
  { intros a Ha Hin Hpa. unfold is_parb in Hpa. destruct (fs_type (st c a)) eqn:Eta; try discriminate.
    apply (proj2 (kind_type a Ha)) in Eta. specialize (P _ (ntree_in t a Ha)). fold nodes in P. rewrite Eta in P.
    rewrite forallb_forall in P.
    destruct (s_below a i Ha Hin) as (j & x & Hj & Hb). cbn zeta in Hb.
    destruct (s_kid a j x Ha Hj) as (Hbn & Hnb & Hpb). cbn zeta in Hbn, Hnb, Hpb.
    set (b := S a + tsize_list (firstn j (t_kids (ntree nodes a)))) in *.
    specialize (P x (nth_error_In _ _ Hj)). apply andb_true_iff in P as [P1 P2].
    destruct (Nat.eq_dec i b) as [->|Hne].
    { rewrite Hnb in Hfin. rewrite Hfin in P1. discriminate. }
    assert (Hin2 : b < i < b + tsize (ntree nodes b)) by (rewrite Hnb; lia).
    destruct (s_below b i Hbn Hin2) as (j2 & y & Hj2 & Hb2). cbn zeta in Hb2.
    destruct (s_kid b j2 y Hbn Hj2) as (Hbn2 & Hnb2 & Hpb2). cbn zeta in Hbn2, Hnb2, Hpb2.
    set (b2 := S b + tsize_list (firstn j2 (t_kids (ntree nodes b)))) in *.
    destruct (Nat.eq_dec i b2) as [->|Hne2].
    { rewrite Hpb2 in Ep. inversion Ep; subst p. split; [lia | exact Hpb]. }
    exfalso. assert (Hin3 : b2 < i < b2 + tsize (ntree nodes b2)) by (rewrite Hnb2; lia).
    destruct (s_below b2 i Hbn2 Hin3) as (j3 & z & Hj3 & Hb3). cbn zeta in Hb3.
    destruct (s_kid b2 j3 z Hbn2 Hj3) as (Hbn3 & Hnb3 & _). cbn zeta in Hbn3, Hnb3.
    rewrite forallb_forall in P2. rewrite Hnb in Hj2. specialize (P2 y (nth_error_In _ _ Hj2)).
    rewrite forallb_forall in P2. rewrite Hnb2 in Hj3. specialize (P2 z (nth_error_In _ _ Hj3)).
    rewrite forallb_forall in P2.
    assert (Hiz : In (ntree nodes i) (subtrees z)).
    { rewrite <- Hnb3. apply s_in_block; [exact Hbn3 | rewrite Hnb3; exact Hb3]. }
    specialize (P2 _ Hiz). rewrite Hfin in P2. discriminate. }
  assert (Hpi : p < i /\ i < p + tsize (ntree nodes p) /\ p < n).
  { pose proof (Hpar p i Hi Ep) as Hr. destruct (Nat.lt_ge_cases p n) as [Hpn|Hpn]; [|lia].
    destruct (c_st late t KK p Hpn) as (_ & _ & Es & _). fold c nodes in Es. rewrite Es in Hr. lia. }
  apply andb_true_iff. split.
  - destruct (is_parb c p) eqn:Epp; [|reflexivity]. exfalso.
    destruct (Habove p) as [Hne _]; try tauto; try lia.
  - apply forallb_forall. intros a Ha. apply TreeLemmas.mem_In in Ha.
    destruct (is_parb c a) eqn:Epa; [|now rewrite orb_true_r]. rewrite orb_false_r.
    assert (Han : a < n).
    { destruct (Nat.lt_ge_cases a n) as [Hlt|Hge]; [exact Hlt|]. exfalso. unfold is_parb in Epa.
      unfold st in Epa. rewrite nth_overflow in Epa by (fold (nstates c); rewrite s_nstates; exact Hge).
      discriminate. }
    apply (s_anc a i Han Hi) in Ha. destruct (Habove a Han Ha Epa) as [_ Hg]. rewrite Hg.
    rewrite Nat.eqb_refl. apply orb_true_r.
Qed.

Theorem c01_side_conditions_sec : c01_treeb t = true ->
  wf_coreb c = true /\ fs_type (st c 0) = FCompound /\ par_nonemptyb c = true /\ root_unmentionedb c = true /\
  targets_antichainb c = true /\ done_okb c = true /\ root_silentb c = true.
Proof.
  unfold c01_treeb. intros P. do 5 (apply andb_true_iff in P as [P ?]).
  destruct (flatten_wf_core_lemma late t H) as [W R]. fold c in W, R.
  repeat split; auto using side_par_nonempty, side_root_unmentioned, side_targets_antichain, side_done_ok, side_root_silent.
Qed.

End Side.

(* the flat tables of a document that passes c01_treeb satisfy all static hypotheses of C01's theorems *)
Theorem c01_side_conditions_lemma : forall late t, c01_treeb t = true ->
  let c := flatten late t in
  wf_coreb c = true /\ fs_type (st c 0) = FCompound /\ par_nonemptyb c = true /\ root_unmentionedb c = true /\
  targets_antichainb c = true /\ done_okb c = true /\ root_silentb c = true.
Proof.
  intros late t P c. apply c01_side_conditions_sec; [|exact P].
  unfold c01_treeb in P. do 5 (apply andb_true_iff in P as [P ?]). exact P.
Qed.
