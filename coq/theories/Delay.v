(* Delay.v -- C09: the delayed-event protocol of uscxml as a timed small-step transition system.
   Model only (no proofs; those are in DelayLemmas.v).

   Code modelled (src/uscxml/interpreter):
     BasicDelayedEventQueue::timerCallback / enqueueDelayed / cancelDelayed / cancelAllDelayed
     InterpreterImpl::enqueue / cancelDelayed / eventReady   (the _delayMutex side)
   Threads: the interpreter thread (executes <send>/<cancel>, i.e. a program of [iop]s) and the
   timer thread (libevent's loop thread running timerCallback).  [Clock] is the environment: one
   tick of logical time.

   The unit of interleaving is the code between two schedule points (USCXML_VERIF_POINT):
     interpreter:  IIdle (next op; for <cancel> this is interp.cancelDelayed.before)
                   ISendArmed = interp.enqueue.armed  (the timer is armed; holds _delayMutex)
                   IQBefore  = delay.cancel.before   (holds _delayMutex)
                   IQLocked  = delay.cancel.locked   (holds _delayMutex and the queue's _mutex)
     timer:        TIdle     (libevent waits for the next timer)
                   TCbEnter  = delay.callback.enter     (libevent: current_event = this timer)
                   TCbUnlocked = delay.callback.unlocked (after critical section 1)
                   TReadyLocked = interp.eventReady.locked (holds _delayMutex)
                   TDelivered = delay.callback.delivered (before critical section 3)

   Trusted behaviour of libevent (explicit rules, see the trusted base of the evidence):
     - expired timers run in due order: [pick] (Section variable, hypothesis [pick_sound] in
       DelayLemmas.v), instantiated by [pick_min] for computation;
     - event_del called from a thread other than the loop thread blocks while that event's
       callback is running (rule in [cancel_entry]); event_free from inside the callback does not;
     - a non-persistent timer is not touched by libevent after its callback was entered, so
       event_free inside the callback is legal; any later event_del/event_free on it is a use of
       freed memory. *)
From V Require Import Base.
Local Open Scope N_scope.

Inductive tid := Interp | Timer | Clock.

(* ---- finite maps as association lists (lookup = first match; remove = all matches) ---- *)
Section Maps.
  Context {A : Type}.
  Fixpoint lookup (m : list (N * A)) (k : N) : option A :=
    match m with
    | [] => None
    | (k', v) :: r => if k' =? k then Some v else lookup r k
    end.
  (* std::map keeps its keys ordered; iteration (cancelAllDelayed, the loop of
     InterpreterImpl::cancelDelayed) is in key order *)
  Fixpoint insert (k : N) (v : A) (m : list (N * A)) : list (N * A) :=
    match m with
    | [] => [(k, v)]
    | (k', v') :: r =>
        if k <? k' then (k, v) :: m
        else if k =? k' then (k, v) :: r
        else (k', v') :: insert k v r
    end.
  Definition remove (k : N) (m : list (N * A)) : list (N * A) :=
    filter (fun kv => negb (fst kv =? k)) m.
  (* m[k] = v *)
  Definition put (k : N) (v : A) (m : list (N * A)) : list (N * A) := insert k v (remove k m).
  (* in-place change of the value stored under k *)
  Definition upd (k : N) (f : A -> A) (m : list (N * A)) : list (N * A) :=
    map (fun kv => if fst kv =? k then (fst kv, f (snd kv)) else kv) m.
End Maps.

(* ---- the protocol variants ---- *)
Record dvariant := {
  (* repaired: critical section 1 of timerCallback takes the event out of _callbackData (erase
     there, deliver a copy, no critical section 3); pinned: it only frees the timer and leaves the
     entry, with its dangling timer pointer, in the map until section 3 *)
  dv_cb_takes_entry : bool;
  (* repaired: eventReady returns when the uuid is no longer in _delayedEventTargets (cancelled
     in the window); pinned (NDEBUG): operator[] default-constructs the entry and the event is
     sent with empty type and target, i.e. to the session's own external queue *)
  dv_ready_checks : bool;
  (* redesign: the callback argument outlives the map entry and cancel never waits for a running
     callback (event_free_finalize): it erases the entry, libevent frees the timer after the
     callback returned, the callback finds no entry and returns *)
  dv_cancel_noblock : bool;
  (* a deviation that is not in the code as it is (the model can follow a tree that has it):
     InterpreterImpl::enqueue hands the event to the delayed queue first, without _delayMutex, and
     records the (sendid, target) entry afterwards; as it is, both happen under _delayMutex *)
  dv_enqueue_arms_first : bool
}.
Definition dv_pinned   := {| dv_cb_takes_entry := false; dv_ready_checks := false; dv_cancel_noblock := false; dv_enqueue_arms_first := false |}.
Definition dv_window   := {| dv_cb_takes_entry := true;  dv_ready_checks := true;  dv_cancel_noblock := false; dv_enqueue_arms_first := false |}.
Definition dv_repaired := {| dv_cb_takes_entry := true;  dv_ready_checks := true;  dv_cancel_noblock := true;  dv_enqueue_arms_first := false |}.
Definition dv_arms_first := {| dv_cb_takes_entry := true; dv_ready_checks := true;  dv_cancel_noblock := false; dv_enqueue_arms_first := true |}.

(* ---- state ---- *)
Inductive iop :=
| OSend (u sid tgt delay : N)     (* <send id=sid target=tgt delay=...>; u = the event's UUID *)
| OCancel (sid : N)               (* <cancel sendid=sid> *)
| OCancelAll.                     (* BasicDelayedEventQueue::cancelAllDelayed (reset, stop, ~InterpreterImpl) *)

Record pend := {                  (* one entry of _callbackData *)
  p_enq : N; p_delay : N;
  p_alloc : bool;                 (* the libevent timer object has not been event_free'd *)
  p_armed : bool                  (* it is in libevent's timeout heap (not yet run) *)
}.
Definition p_due (p : pend) : N := p_enq p + p_delay p.

Inductive obs :=                  (* the observable history, newest first *)
| ESend (u sid tgt enq delay : N)
| EExpire (u due : N)             (* libevent starts the callback of u *)
| EDeliver (u t tgt : N) (by_timer : bool)
| ECancelDone (sid t : N).        (* InterpreterImpl::cancelDelayed returned *)

Inductive fault_t := UseAfterFree (u : N) | DoubleFree (u : N).

Inductive ipc_t :=
| IIdle
| ISendArmed (u sid tgt : N)       (* in InterpreterImpl::enqueue, enqueueDelayed has returned (interp.enqueue.armed) *)
| IQBefore (sid u : N) (todo : list N)
| IQLocked (sid u : N) (todo : list N)
| IAllLocked.                      (* inside cancelAllDelayed, holding the queue's _mutex *)

Inductive tpc_t := TIdle | TCbEnter (u : N) | TCbUnlocked (u : N) | TReadyLocked (u : N) | TDelivered (u : N).

Definition lock := option (tid * nat).     (* std::recursive_mutex: owner and depth *)

Record dstate := {
  now : N;
  prog : list iop;
  ipc : ipc_t;
  tpc : tpc_t;
  pending : list (N * pend);               (* _callbackData *)
  targets : list (N * (N * N));            (* _delayedEventTargets : uuid -> (sendid, target) *)
  current_cb : option N;                   (* libevent's base->current_event *)
  delayM : lock;                           (* InterpreterImpl::_delayMutex *)
  queueM : lock;                           (* BasicDelayedEventQueue::_mutex *)
  trace : list obs;
  fault : option fault_t
}.

Definition init (p : list iop) : dstate :=
  {| now := 0; prog := p; ipc := IIdle; tpc := TIdle; pending := []; targets := [];
     current_cb := None; delayM := None; queueM := None; trace := []; fault := None |}.

Definition tid_eqb (a b : tid) : bool :=
  match a, b with Interp, Interp | Timer, Timer | Clock, Clock => true | _, _ => false end.

Definition acquire (l : lock) (t : tid) : option lock :=
  match l with
  | None => Some (Some (t, 1%nat))
  | Some (o, d) => if tid_eqb o t then Some (Some (t, S d)) else None
  end.
Definition release (l : lock) : lock :=
  match l with
  | Some (o, S (S d)) => Some (o, S d)
  | _ => None
  end.
Definition available (l : lock) (t : tid) : bool :=
  match acquire l t with Some _ => true | None => false end.

(* setters (records are immutable) *)
Definition set_fault (s : dstate) (f : fault_t) : dstate :=
  {| now := now s; prog := prog s; ipc := ipc s; tpc := tpc s; pending := pending s; targets := targets s;
     current_cb := current_cb s; delayM := delayM s; queueM := queueM s; trace := trace s; fault := Some f |}.

(* ---- event_del + event_free + erase of one entry, as executed by a thread other than the loop
        thread (cancelDelayed, cancelAllDelayed) ---- *)
Inductive cres :=
| CDone (pending' : list (N * pend))
| CBlocked                         (* event_del waits for the running callback *)
| CFault (f : fault_t).

Definition cancel_entry (v : dvariant) (cur : option N) (pd : list (N * pend)) (u : N) : cres :=
  match lookup pd u with
  | None => CDone pd                                   (* find == end: nothing to do *)
  | Some p =>
      if negb (p_alloc p) then CFault (UseAfterFree u) (* event_del on a freed timer *)
      else match cur with
           | Some c => if c =? u
                       then (if dv_cancel_noblock v then CDone (remove u pd) else CBlocked)
                       else CDone (remove u pd)
           | None => CDone (remove u pd)
           end
  end.

(* cancelAllDelayed: while (size > 0) { take begin(); event_del; event_free; erase } *)
Fixpoint cancel_all (v : dvariant) (cur : option N) (keys : list N) (pd : list (N * pend)) : cres :=
  match keys with
  | [] => CDone pd
  | u :: r => match cancel_entry v cur pd u with
              | CDone pd' => cancel_all v cur r pd'
              | other => other
              end
  end.

Definition armed_list (pd : list (N * pend)) : list (N * N) :=
  map (fun kv => (fst kv, p_due (snd kv))) (filter (fun kv => p_armed (snd kv)) pd).

(* libevent's choice instantiated: the expired timer with the least due time (first of equals) *)
Fixpoint pick_min_aux (best : option (N * N)) (l : list (N * N)) (t : N) : option N :=
  match l with
  | [] => match best with Some (u, _) => Some u | None => None end
  | (u, d) :: r =>
      if d <=? t then
        match best with
        | Some (_, bd) => if d <? bd then pick_min_aux (Some (u, d)) r t else pick_min_aux best r t
        | None => pick_min_aux (Some (u, d)) r t
        end
      else pick_min_aux best r t
  end.
Definition pick_min (l : list (N * N)) (t : N) : option N := pick_min_aux None l t.

Definition disarm (p : pend) : pend :=
  {| p_enq := p_enq p; p_delay := p_delay p; p_alloc := p_alloc p; p_armed := false |}.
Definition dealloc (p : pend) : pend :=
  {| p_enq := p_enq p; p_delay := p_delay p; p_alloc := false; p_armed := p_armed p |}.

Section Step.
  Variable v : dvariant.
  (* libevent: which expired timer's callback runs next *)
  Variable pick : list (N * N) -> N -> option N.

  (* --- interpreter thread --- *)
  Definition istep (s : dstate) : option dstate :=
    match ipc s with
    | IIdle =>
        match prog s with
        | [] => None
        | OSend u sid tgt d :: rest =>
            (* InterpreterImpl::enqueue: lock _delayMutex; _delayedEventTargets[uuid] = ...;
               delay 0: eventReady at once; else BasicDelayedEventQueue::enqueueDelayed *)
            let tr := ESend u sid tgt (now s) d :: trace s in
            if d =? 0 then
              if negb (available (delayM s) Interp) then None else
              Some {| now := now s; prog := rest; ipc := IIdle; tpc := tpc s; pending := pending s;
                      targets := remove u (targets s);
                      current_cb := current_cb s; delayM := delayM s; queueM := queueM s;
                      trace := EDeliver u (now s) tgt false :: tr; fault := None |}
            else
              if negb (available (queueM s) Interp) then None else
              (* as it is: lock _delayMutex, record the target, arm the timer; with
                 dv_enqueue_arms_first only the timer is armed here, without the lock *)
              match (if dv_enqueue_arms_first v then Some (delayM s) else acquire (delayM s) Interp) with
              | None => None
              | Some dl =>
                  (* enqueueDelayed: if (_callbackData.find(uuid) != end) cancelDelayed(uuid); *)
                  match cancel_entry v (current_cb s) (pending s) u with
                  | CBlocked => None
                  | CFault f => Some (set_fault s f)
                  | CDone pd =>
                      Some {| now := now s; prog := rest; ipc := ISendArmed u sid tgt; tpc := tpc s;
                              pending := put u {| p_enq := now s; p_delay := d; p_alloc := true; p_armed := true |} pd;
                              targets := if dv_enqueue_arms_first v then targets s else put u (sid, tgt) (targets s);
                              current_cb := current_cb s; delayM := dl; queueM := queueM s;
                              trace := tr; fault := None |}
                  end
              end
        | OCancel sid :: rest =>
            (* InterpreterImpl::cancelDelayed: lock _delayMutex, walk _delayedEventTargets *)
            match acquire (delayM s) Interp with
            | None => None
            | Some dl =>
                match map fst (filter (fun kv => fst (snd kv) =? sid) (targets s)) with
                | [] => Some {| now := now s; prog := rest; ipc := IIdle; tpc := tpc s; pending := pending s;
                                targets := targets s; current_cb := current_cb s;
                                delayM := release dl; queueM := queueM s;
                                trace := ECancelDone sid (now s) :: trace s; fault := None |}
                | u :: todo => Some {| now := now s; prog := rest; ipc := IQBefore sid u todo; tpc := tpc s;
                                pending := pending s; targets := targets s; current_cb := current_cb s;
                                delayM := dl; queueM := queueM s; trace := trace s; fault := None |}
                end
            end
        | OCancelAll :: rest =>
            match acquire (queueM s) Interp with
            | None => None
            | Some ql => Some {| now := now s; prog := rest; ipc := IAllLocked; tpc := tpc s; pending := pending s;
                                 targets := targets s; current_cb := current_cb s;
                                 delayM := delayM s; queueM := ql; trace := trace s; fault := None |}
            end
        end
    | IAllLocked =>
        (* there is no schedule point between taking the lock and the loop: the replay runs this
           step right after the previous one; it is a step of its own because the thread keeps the
           lock while event_del waits *)
        match cancel_all v (current_cb s) (map fst (pending s)) (pending s) with
        | CBlocked => None
        | CFault f => Some (set_fault s f)
        | CDone pd => Some {| now := now s; prog := prog s; ipc := IIdle; tpc := tpc s; pending := pd;
                              targets := targets s; current_cb := current_cb s;
                              delayM := delayM s; queueM := release (queueM s); trace := trace s; fault := None |}
        end
    | ISendArmed u sid tgt =>
        if dv_enqueue_arms_first v then
          (* now lock _delayMutex and record the target *)
          if negb (available (delayM s) Interp) then None else
          Some {| now := now s; prog := prog s; ipc := IIdle; tpc := tpc s; pending := pending s;
                  targets := put u (sid, tgt) (targets s); current_cb := current_cb s;
                  delayM := delayM s; queueM := queueM s; trace := trace s; fault := None |}
        else
          (* return from enqueue: unlock _delayMutex *)
          Some {| now := now s; prog := prog s; ipc := IIdle; tpc := tpc s; pending := pending s;
                  targets := targets s; current_cb := current_cb s;
                  delayM := release (delayM s); queueM := queueM s; trace := trace s; fault := None |}
    | IQBefore sid u todo =>
        (* BasicDelayedEventQueue::cancelDelayed: lock _mutex *)
        match acquire (queueM s) Interp with
        | None => None
        | Some ql => Some {| now := now s; prog := prog s; ipc := IQLocked sid u todo; tpc := tpc s;
                             pending := pending s; targets := targets s; current_cb := current_cb s;
                             delayM := delayM s; queueM := ql; trace := trace s; fault := None |}
        end
    | IQLocked sid u todo =>
        (* find; event_del; event_free; erase; unlock _mutex; erase the target; next or unlock *)
        match cancel_entry v (current_cb s) (pending s) u with
        | CBlocked => None
        | CFault f => Some (set_fault s f)
        | CDone pd =>
            match todo with
            | [] => Some {| now := now s; prog := prog s; ipc := IIdle; tpc := tpc s; pending := pd;
                            targets := remove u (targets s); current_cb := current_cb s;
                            delayM := release (delayM s); queueM := release (queueM s);
                            trace := ECancelDone sid (now s) :: trace s; fault := None |}
            | u' :: todo' => Some {| now := now s; prog := prog s; ipc := IQBefore sid u' todo'; tpc := tpc s;
                            pending := pd; targets := remove u (targets s); current_cb := current_cb s;
                            delayM := delayM s; queueM := release (queueM s);
                            trace := trace s; fault := None |}
            end
        end
    end.

  (* --- timer thread --- *)
  Definition tstep (s : dstate) : option dstate :=
    match tpc s with
    | TIdle =>
        match pick (armed_list (pending s)) (now s) with
        | None => None
        | Some u =>
            match lookup (pending s) u with
            | None => None
            | Some p =>
                Some {| now := now s; prog := prog s; ipc := ipc s; tpc := TCbEnter u;
                        pending := upd u disarm (pending s); targets := targets s;
                        current_cb := Some u; delayM := delayM s; queueM := queueM s;
                        trace := EExpire u (p_due p) :: trace s; fault := None |}
            end
        end
    | TCbEnter u =>
        (* { lock _mutex; if (find == end) return; event_free(data->event); } *)
        if negb (available (queueM s) Timer) then None else
        match lookup (pending s) u with
        | None =>
            if dv_cancel_noblock v
            then Some {| now := now s; prog := prog s; ipc := ipc s; tpc := TIdle; pending := pending s;
                         targets := targets s; current_cb := None; delayM := delayM s; queueM := queueM s;
                         trace := trace s; fault := None |}
            else Some (set_fault s (UseAfterFree u))    (* `data` points into the erased map node *)
        | Some p =>
            if negb (p_alloc p) then Some (set_fault s (DoubleFree u)) else
            Some {| now := now s; prog := prog s; ipc := ipc s; tpc := TCbUnlocked u;
                    pending := if dv_cb_takes_entry v then remove u (pending s)
                               else upd u dealloc (pending s);
                    targets := targets s; current_cb := current_cb s; delayM := delayM s; queueM := queueM s;
                    trace := trace s; fault := None |}
        end
    | TCbUnlocked u =>
        (* _callbacks->eventReady: lock _delayMutex *)
        match acquire (delayM s) Timer with
        | None => None
        | Some dl => Some {| now := now s; prog := prog s; ipc := ipc s; tpc := TReadyLocked u;
                             pending := pending s; targets := targets s; current_cb := current_cb s;
                             delayM := dl; queueM := queueM s; trace := trace s; fault := None |}
        end
    | TReadyLocked u =>
        (* look the target up, erase it, hand the event to the I/O processor, unlock *)
        let tr := match lookup (targets s) u with
                  | Some (_, tgt) => EDeliver u (now s) tgt true :: trace s
                  | None => if dv_ready_checks v then trace s else EDeliver u (now s) 0 true :: trace s
                  end in
        Some {| now := now s; prog := prog s; ipc := ipc s; tpc := TDelivered u; pending := pending s;
                targets := remove u (targets s); current_cb := current_cb s;
                delayM := release (delayM s); queueM := queueM s; trace := tr; fault := None |}
    | TDelivered u =>
        (* { lock _mutex; _callbackData.erase(uuid); }  return to libevent *)
        if negb (available (queueM s) Timer) then None else
        Some {| now := now s; prog := prog s; ipc := ipc s; tpc := TIdle;
                pending := if dv_cb_takes_entry v then pending s else remove u (pending s);
                targets := targets s; current_cb := None; delayM := delayM s; queueM := queueM s;
                trace := trace s; fault := None |}
    end.

  Definition dstep (s : dstate) (t : tid) : option dstate :=
    match fault s with
    | Some _ => None                                    (* undefined behaviour: the run ends *)
    | None =>
        match t with
        | Interp => istep s
        | Timer => tstep s
        | Clock => Some {| now := now s + 1; prog := prog s; ipc := ipc s; tpc := tpc s; pending := pending s;
                           targets := targets s; current_cb := current_cb s; delayM := delayM s;
                           queueM := queueM s; trace := trace s; fault := None |}
        end
    end.

  Definition step_or_stay (s : dstate) (t : tid) : dstate :=
    match dstep s t with Some s' => s' | None => s end.

  Fixpoint run (s : dstate) (sched : list tid) : dstate :=
    match sched with
    | [] => s
    | t :: r => run (step_or_stay s t) r
    end.

  (* nothing can move although some thread is in the middle of its work *)
  Definition quiescent (s : dstate) : bool :=
    match ipc s, prog s, tpc s with IIdle, [], TIdle => true | _, _, _ => false end.
  Definition deadlocked (s : dstate) : bool :=
    match fault s, dstep s Interp, dstep s Timer with
    | None, None, None => negb (quiescent s)
    | _, _, _ => false
    end.
End Step.

(* ---- the property on an observed history (the oracle of the check) ---- *)

Fixpoint send_of (tr : list obs) (u : N) : option (N * N * N * N) :=   (* sid, tgt, enq, delay *)
  match tr with
  | [] => None
  | ESend u' sid tgt enq d :: r => if u' =? u then Some (sid, tgt, enq, d) else send_of r u
  | _ :: r => send_of r u
  end.

Fixpoint delivered (tr : list obs) : list N :=
  match tr with
  | [] => []
  | EDeliver u _ _ _ :: r => u :: delivered r
  | _ :: r => delivered r
  end.

Fixpoint count_N (x : N) (l : list N) : nat :=
  match l with [] => O | y :: r => ((if N.eqb y x then 1 else 0) + count_N x r)%nat end.

Fixpoint nodup_N (l : list N) : bool :=
  match l with [] => true | x :: r => negb (existsb (N.eqb x) r) && nodup_N r end.

(* never early: every delivery has a send with enq + delay <= delivery time *)
Definition not_early_b (tr : list obs) : bool :=
  forallb (fun o => match o with
                    | EDeliver u t _ _ => match send_of tr u with
                                          | Some (_, _, enq, d) => enq + d <=? t
                                          | None => false
                                          end
                    | _ => true
                    end) tr.

(* routed to the target given in the send *)
Definition routed_b (tr : list obs) : bool :=
  forallb (fun o => match o with
                    | EDeliver u _ tgt _ => match send_of tr u with
                                            | Some (_, tgt', _, _) => tgt =? tgt'
                                            | None => false
                                            end
                    | _ => true
                    end) tr.

(* due order of the deliveries made by the timer thread: the history is newest first, so walking
   it the due times must not increase by more than [gran] *)
Fixpoint timer_dues (tr : list obs) (full : list obs) : list N :=
  match tr with
  | [] => []
  | EDeliver u _ _ true :: r =>
      match send_of full u with
      | Some (_, _, enq, d) => (enq + d) :: timer_dues r full
      | None => timer_dues r full
      end
  | _ :: r => timer_dues r full
  end.
(* every earlier delivery (further down the list) has due <= this due + gran *)
Fixpoint due_sorted_b (gran : N) (l : list N) : bool :=
  match l with
  | [] => true
  | d :: r => forallb (fun d' => d' <=? d + gran) r && due_sorted_b gran r
  end.

(* after a cancel that returned before the due time the event is never delivered:
   walking the history from the oldest event *)
Fixpoint cancel_ok_aux (old_first : list obs) (sent : list (N * N * N)) (dead : list N) : bool :=
  (* sent: (u, sid, due) seen so far; dead: uuids cancelled in time *)
  match old_first with
  | [] => true
  | ESend u sid _ enq d :: r => cancel_ok_aux r ((u, sid, enq + d) :: sent) dead
  | ECancelDone sid t :: r =>
      cancel_ok_aux r sent
        (map (fun x => fst (fst x)) (filter (fun x => (snd (fst x) =? sid) && (t <? snd x)) sent) ++ dead)
  | EDeliver u _ _ _ :: r => negb (existsb (N.eqb u) dead) && cancel_ok_aux r sent dead
  | _ :: r => cancel_ok_aux r sent dead
  end.
Definition cancel_ok_b (tr : list obs) : bool := cancel_ok_aux (rev tr) [] [].

Definition delay_admissibleb (gran : N) (tr : list obs) : bool :=
  nodup_N (delivered tr) && not_early_b tr && due_sorted_b gran (timer_dues tr tr) && cancel_ok_b tr.

(* a finished run has delivered every event whose sendid the program never cancels *)
Fixpoint cancel_sids (p : list iop) : list N :=
  match p with
  | [] => []
  | OCancel sid :: r => sid :: cancel_sids r
  | _ :: r => cancel_sids r
  end.
Definition has_cancel_all (p : list iop) : bool :=
  existsb (fun o => match o with OCancelAll => true | _ => false end) p.
Definition complete_b (p : list iop) (tr : list obs) : bool :=
  has_cancel_all p ||
  forallb (fun o => match o with
                    | ESend u sid _ _ _ => existsb (N.eqb sid) (cancel_sids p) || existsb (N.eqb u) (delivered tr)
                    | _ => true
                    end) tr.
Definition finished (s : dstate) : bool :=
  match ipc s, prog s, tpc s, armed_list (pending s), fault s with
  | IIdle, [], TIdle, [], None => true
  | _, _, _, _, _ => false
  end.

(* programs: the UUIDs of the sends are pairwise different (UUID::getUUID) *)
Fixpoint send_uuids (p : list iop) : list N :=
  match p with
  | [] => []
  | OSend u _ _ _ :: r => u :: send_uuids r
  | _ :: r => send_uuids r
  end.
Definition wf_prog (p : list iop) : bool := nodup_N (send_uuids p).

(* ---- outcome classes for the schedule replay ---- *)
Inductive oclass := OcFault (f : fault_t) | OcDeadlock | OcRunning | OcDone.
Definition classify (v : dvariant) (pick : list (N * N) -> N -> option N) (s : dstate) : oclass :=
  match fault s with
  | Some f => OcFault f
  | None => if deadlocked v pick s then OcDeadlock
            else if quiescent s && match armed_list (pending s) with [] => true | _ => false end then OcDone
            else OcRunning
  end.
